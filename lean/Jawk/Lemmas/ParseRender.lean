/-
  Properties C13 (an expression means the same however it is spelled) and C18 (parsed ASTs are
  well-formed) at the level of the expression parser `readGetter` / `parseFunction` / `parseArgs`.

  1. `parsed_ast_well_formed`, `parseWholeExpr_well_formed`, `unknown_function_rejected`, `arity_rejected`
  2. `alias_same_sig`, `alias_same_ast`, `parseFunction_alias`
  3. `render`, `parse_render`, `parseWholeExpr_render`, `style_independent`, `separator_independent`
  4. `dot_sugar`, `dot_sugar_unknown`, `dot_sugar_whole`
  5. `parseWholeExpr_trailing_garbage`, `parseSelection_trailing_garbage`, `parsePreSet_trailing_garbage`,
     `parseSorter_unknown_direction`, `garbage_after_render`, `render_run`

  Findings about the model (= the Rust source, `selection.rs`):
  * a blank directly after `(` is NOT skipped (`eat_whitespace` sees the `(` itself as the current
    byte): `( take . 2)` is rejected with `unknownFunction ""`; the renderer writes `(name`.
  * a constant is read back as `RT.norm v` (`neg i` with `i ≥ 0` comes back as `pos i`), so the
    renderer is claimed for constants with `norm v = v`.
-/
import Jawk.Lemmas.PM
import Jawk.Model.Expr
import Jawk.Model.Run
import Jawk.Lemmas.NoPanic
import Jawk.Lemmas.RoundTrip
namespace Jawk.PR
open Jawk Jawk.NoPanic Jawk.RT Reader

/-! ## 0. Boolean matchers for closed examples (`JV` / `Expr` have no `DecidableEq`) -/

mutual
def jvSame : JV → JV → Bool
  | .null, .null => true
  | .bool a, .bool b => a == b
  | .str a, .str b => a == b
  | .num a, .num b => a == b
  | .obj a, .obj b => membersSame a b
  | .arr a, .arr b => listSame a b
  | _, _ => false
def listSame : List JV → List JV → Bool
  | [], [] => true
  | a :: as, b :: bs => jvSame a b && listSame as bs
  | _, _ => false
def membersSame : List (Str × JV) → List (Str × JV) → Bool
  | [], [] => true
  | (k, a) :: as, (l, b) :: bs => k == l && jvSame a b && membersSame as bs
  | _, _ => false
end

mutual
theorem jvSame_eq : ∀ (a b : JV), jvSame a b = true → a = b
  | .null, b, h => by cases b <;> simp_all [jvSame]
  | .bool a, b, h => by cases b <;> simp_all [jvSame]
  | .str a, b, h => by cases b <;> simp_all [jvSame]
  | .num a, b, h => by cases b <;> simp_all [jvSame]
  | .obj a, b, h => by
    cases b with
    | obj b => rw [jvSame] at h; rw [membersSame_eq a b h]
    | _ => simp [jvSame] at h
  | .arr a, b, h => by
    cases b with
    | arr b => rw [jvSame] at h; rw [listSame_eq a b h]
    | _ => simp [jvSame] at h
theorem listSame_eq : ∀ (a b : List JV), listSame a b = true → a = b
  | [], b, h => by cases b <;> simp_all [listSame]
  | x :: xs, b, h => by
    cases b with
    | nil => simp [listSame] at h
    | cons y ys =>
      rw [listSame, Bool.and_eq_true] at h
      rw [jvSame_eq x y h.1, listSame_eq xs ys h.2]
theorem membersSame_eq : ∀ (a b : List (Str × JV)), membersSame a b = true → a = b
  | [], b, h => by cases b <;> simp_all [membersSame]
  | (k, x) :: xs, b, h => by
    cases b with
    | nil => simp [membersSame] at h
    | cons y ys =>
      obtain ⟨l, y⟩ := y
      rw [membersSame, Bool.and_eq_true, Bool.and_eq_true] at h
      have : k = l := by simpa using h.1.1
      rw [this, jvSame_eq x y h.1.2, membersSame_eq xs ys h.2]
end

mutual
def exprSame : Expr → Expr → Bool
  | .extract p s, .extract q t => p == q && s == t
  | .const v, .const w => jvSame v w
  | .call f as, .call g bs => f == g && exprListSame as bs
  | .var n, .var m => n == m
  | .macro n, .macro m => n == m
  | .selected n, .selected m => n == m
  | .ictx k, .ictx l => k == l
  | _, _ => false
def exprListSame : List Expr → List Expr → Bool
  | [], [] => true
  | a :: as, b :: bs => exprSame a b && exprListSame as bs
  | _, _ => false
end

mutual
theorem exprSame_eq : ∀ (a b : Expr), exprSame a b = true → a = b
  | .extract p s, b, h => by cases b <;> simp_all [exprSame]
  | .const v, b, h => by
    cases b with
    | const w => rw [exprSame] at h; rw [jvSame_eq v w h]
    | _ => simp [exprSame] at h
  | .call f as, b, h => by
    cases b with
    | call g bs =>
      rw [exprSame, Bool.and_eq_true] at h
      have : f = g := by simpa using h.1
      rw [this, exprListSame_eq as bs h.2]
    | _ => simp [exprSame] at h
  | .var n, b, h => by cases b <;> simp_all [exprSame]
  | .macro n, b, h => by cases b <;> simp_all [exprSame]
  | .selected n, b, h => by cases b <;> simp_all [exprSame]
  | .ictx n, b, h => by cases b <;> simp_all [exprSame]
theorem exprListSame_eq : ∀ (a b : List Expr), exprListSame a b = true → a = b
  | [], b, h => by cases b <;> simp_all [exprListSame]
  | x :: xs, b, h => by
    cases b with
    | nil => simp [exprListSame] at h
    | cons y ys =>
      rw [exprListSame, Bool.and_eq_true] at h
      rw [exprSame_eq x y h.1, exprListSame_eq xs ys h.2]
end

/-- Boolean matcher: the result is `ok e` -/
def isOk (x : Except ExprErr Expr) (e : Expr) : Bool :=
  match x with
  | .ok a => exprSame a e
  | .error _ => false
theorem isOk_eq {x : Except ExprErr Expr} {e : Expr} (h : isOk x e = true) : x = .ok e := by
  unfold isOk at h
  split at h
  · rw [exprSame_eq _ _ h]
  · cases h

def isOkList (x : Except ExprErr (List Expr)) (l : List Expr) : Bool :=
  match x with
  | .ok a => exprListSame a l
  | .error _ => false
theorem isOkList_eq {x : Except ExprErr (List Expr)} {l : List Expr} (h : isOkList x l = true) : x = .ok l := by
  unfold isOkList at h
  split at h
  · rw [exprListSame_eq _ _ h]
  · cases h

/-- Boolean matcher for the three rejections of `parse_function` -/
def isRejected (x : Except ExprErr Expr) (kind : Nat) (what : String) : Bool :=
  match x, kind with
  | .error (.unknownFunction n), 0 => String.ofList n == what
  | .error (.missingArgument n), 1 => n == what
  | .error (.tooManyArgument n), 2 => n == what
  | _, _ => false

/-! ## 1. (C18) parsed ASTs are well-formed -/

/-- `fn` is a canonical name of the regenerated function table and `n` arguments are within the
arity bounds of that entry -/
def ArityOK (fn : String) (n : Nat) : Prop :=
  ∃ e ∈ Generated.functionTable, e.1 = fn ∧ e.2.2.1 ≤ n ∧ ∀ m, e.2.2.2 = some m → n ≤ m

/-- Boolean form of `ArityOK` -/
def arityOK (fn : String) (n : Nat) : Bool :=
  Generated.functionTable.any fun e =>
    e.1 == fn && decide (e.2.2.1 ≤ n) && (match e.2.2.2 with | some m => decide (n ≤ m) | none => true)

theorem arityOK_iff (fn : String) (n : Nat) : arityOK fn n = true ↔ ArityOK fn n := by
  unfold arityOK ArityOK
  rw [List.any_eq_true]
  constructor
  · rintro ⟨e, he, h⟩
    simp only [Bool.and_eq_true, beq_iff_eq, decide_eq_true_eq] at h
    refine ⟨e, he, h.1.1, h.1.2, ?_⟩
    intro m hm
    rw [hm] at h
    simpa using h.2
  · rintro ⟨e, he, h1, h2, h3⟩
    refine ⟨e, he, ?_⟩
    simp only [Bool.and_eq_true, beq_iff_eq, decide_eq_true_eq]
    refine ⟨⟨h1, h2⟩, ?_⟩
    cases hm : e.2.2.2 with
    | none => rfl
    | some m => simpa using h3 m hm

mutual
/-- every `.call fn args` node has a canonical table name and an argument count within its bounds -/
def wf : Expr → Bool
  | .call fn args => arityOK fn args.length && wfList args
  | _ => true
def wfList : List Expr → Bool
  | [] => true
  | e :: es => wf e && wfList es
end

/-- **Well-formed AST**: every call node names a canonical function of the table and respects
its arity bounds, recursively through the arguments. -/
def WellFormed (e : Expr) : Prop := wf e = true
instance (e : Expr) : Decidable (WellFormed e) := inferInstanceAs (Decidable (_ = true))

theorem wfList_iff (l : List Expr) : wfList l = true ↔ ∀ e ∈ l, WellFormed e := by
  induction l with
  | nil => simp [wfList]
  | cons x xs ih => simp [wfList, ih, WellFormed]

theorem wfList_append (l₁ l₂ : List Expr) : wfList (l₁ ++ l₂) = (wfList l₁ && wfList l₂) := by
  induction l₁ with
  | nil => simp [wfList]
  | cons x xs ih => simp [wfList, ih, Bool.and_assoc]

/-- the meaning of `WellFormed` on a call node -/
theorem wellFormed_call (fn : String) (args : List Expr) :
    WellFormed (.call fn args) ↔ ArityOK fn args.length ∧ ∀ a ∈ args, WellFormed a := by
  simp only [WellFormed, wf, Bool.and_eq_true, arityOK_iff, wfList_iff]

theorem wellFormed_leaf :
    (∀ p s, WellFormed (.extract p s)) ∧ (∀ v, WellFormed (.const v)) ∧ (∀ n, WellFormed (.var n)) ∧
    (∀ n, WellFormed (.macro n)) ∧ (∀ n, WellFormed (.selected n)) ∧ (∀ k, WellFormed (.ictx k)) :=
  ⟨fun _ _ => rfl, fun _ => rfl, fun _ => rfl, fun _ => rfl, fun _ => rfl, fun _ => rfl⟩

/-- what `findFunction` returns is an entry of the table -/
theorem findFunction_entry {n : String} {sig : FnSig} (h : findFunction n = some sig) :
    ∃ e ∈ Generated.functionTable, (e.1 = n ∨ n ∈ e.2.1) ∧
      sig = { name := e.1, min := e.2.2.1, max := e.2.2.2 } := by
  unfold findFunction at h
  cases hf : Generated.functionTable.find? (fun (name, aliases, _, _) => name == n || aliases.contains n) with
  | none => rw [hf] at h; cases h
  | some x =>
    rw [hf] at h
    have hx := List.mem_of_find?_eq_some hf
    have hp := List.find?_some hf
    cases h
    refine ⟨x, hx, ?_, rfl⟩
    simpa using hp

theorem findFunction_arityOK {n : String} {sig : FnSig} {k : Nat} (h : findFunction n = some sig)
    (h1 : ¬ k < sig.min)
    (h2 : ¬ (match sig.max with | some m => decide (k > m) | none => false) = true) :
    arityOK sig.name k = true := by
  obtain ⟨e, he, _, rfl⟩ := findFunction_entry h
  rw [arityOK_iff]
  refine ⟨e, he, rfl, Nat.le_of_not_lt h1, ?_⟩
  intro m hm
  simp only [hm, decide_eq_true_eq] at h2
  exact Nat.le_of_not_lt h2

macro "wf_step" : tactic => `(tactic| first
  | exact EP.fail _
  | (apply EP.pure; first | rfl | assumption | (split <;> rfl))
  | assumption
  | (apply EP.pure; show wf (.call _ _) = true; simp only [wf, Bool.and_eq_true];
     refine ⟨findFunction_arityOK ‹_› ‹_› ?_, ‹_›⟩; rw [‹FnSig.max _ = _›]; assumption)
  | (refine ‹∀ acc, _ → EP _ (parseArgs _ acc)› _ ?_;
     simp only [wfList_append, wfList, Bool.and_eq_true]; exact ⟨‹_›, ‹_›, trivial⟩)
  | exact ‹∀ acc, _ → EP _ (parseArgs _ acc)› _ ‹_›
  | (have h := ‹_ = (_, _)›; split at h <;> cases h <;> rfl)
  | (refine EP.bind _ ‹EP _ (readGetter _)› ?_)
  | (refine EP.bind _ (‹∀ acc, _ → EP _ (parseArgs _ acc)› _ ?_) ?_)
  | (apply EP.bind')
  | intro _
  | split
  | dsimp only
  )

theorem parser_wf : ∀ fuel,
    EP WellFormed (readGetter fuel) ∧
    EP WellFormed (parseFunction fuel) ∧
    ∀ acc, wfList acc = true → EP (fun l => wfList l = true) (parseArgs fuel acc) := by
  intro fuel
  induction fuel with
  | zero =>
    refine ⟨?_, ?_, ?_⟩
    · unfold readGetter; exact EP.fail _
    · unfold parseFunction; exact EP.fail _
    · intro acc _; unfold parseArgs; exact EP.fail _
  | succ fuel ih =>
    obtain ⟨ih1, ih2, ih3⟩ := ih
    refine ⟨?_, ?_, ?_⟩
    · unfold readGetter
      repeat' wf_step
    · unfold parseFunction
      repeat' wf_step
    · intro acc hacc; unfold parseArgs
      repeat' wf_step

/-- **C18 (1a).**  Every AST produced by `readGetter` is well-formed. -/
theorem parsed_ast_well_formed {fuel : Nat} {r r' : Reader} {e : Expr}
    (h : readGetter fuel r = (.ok e, r')) : WellFormed e :=
  (parser_wf fuel).1.h r e r' h

theorem parseFunction_well_formed {fuel : Nat} {r r' : Reader} {e : Expr}
    (h : parseFunction fuel r = (.ok e, r')) : WellFormed e :=
  (parser_wf fuel).2.1.h r e r' h

theorem parseArgs_well_formed {fuel : Nat} {r r' : Reader} {acc l : List Expr}
    (hacc : ∀ a ∈ acc, WellFormed a) (h : parseArgs fuel acc r = (.ok l, r')) : ∀ a ∈ l, WellFormed a :=
  (wfList_iff l).1 (((parser_wf fuel).2.2 acc ((wfList_iff acc).2 hacc)).h r l r' h)

macro "wf_step'" : tactic => `(tactic| first
  | (refine EP.bind _ (parser_wf _).1 ?_)
  | wf_step)

/-- **C18 (1b).**  Every expression accepted by `Filter/Splitter/Grouper::from_str` is well-formed. -/
theorem parseWholeExpr_well_formed {s : Str} {e : Expr} (h : parseWholeExpr s = .ok e) : WellFormed e := by
  unfold parseWholeExpr at h
  dsimp only at h
  refine EP.fst (P := WellFormed) ?_ h
  repeat' wf_step'

/-! ### What happens after the function name has been read -/

/-- `(.f x)` is sugar for `(f . x)`: the leading dot of the name becomes a first argument `.` -/
def splitDot (name : Str) : Str × List Expr :=
  match name with
  | '.' :: rest => (rest, [Expr.extract 0 []])
  | n => (n, [])

/-- the rest of `parse_function` once the function is known: arguments, `)`, arity checks -/
def finishCall (sig : FnSig) (fuel : Nat) (pre : List Expr) : EM Expr := do
  let args ← parseArgs fuel pre
  let _ ← liftP next
  if args.length < sig.min then EM.fail (.missingArgument sig.name)
  else if (match sig.max with | some m => decide (args.length > m) | none => false) then
    EM.fail (.tooManyArgument sig.name)
  else pure (.call sig.name args)

/-- the rest of `parse_function` once the name has been read: the name only enters through
`findFunction` (and the error message) -/
def resolveCall (name : Str) (fuel : Nat) : EM Expr :=
  match findFunction (String.ofList (splitDot name).1) with
  | none => EM.fail (.unknownFunction (splitDot name).1)
  | some sig => finishCall sig fuel (splitDot name).2

/-- `parseFunction` is: white space, name bytes, UTF-8, then `resolveCall` -/
theorem parseFunction_eq (fuel : Nat) :
    parseFunction (fuel + 1) = (do
      liftP (eatWhitespace (fuel + 1))
      let nb ← readUntil fnNameStop (fuel + 1) []
      let name ← fromUtf8 nb
      resolveCall name fuel) := by
  funext r
  rw [parseFunction]
  simp only [EM.bind_apply]
  split
  · split
    · split
      · next name r3 _ =>
        split
        · rfl
        · next hne =>
          have : splitDot name = (name, []) := by
            unfold splitDot
            split
            · exact absurd rfl (hne _)
            · rfl
          unfold resolveCall
          rw [this]
          rfl
      · rfl
    · rfl
  · rfl

/-- **C18 (1c).**  An unknown function name is rejected with `unknownFunction`, before any argument
is looked at (the reader stays where the name ended). -/
theorem unknown_function_rejected (name : Str) (fuel : Nat) (r : Reader)
    (h : findFunction (String.ofList (splitDot name).1) = none) :
    resolveCall name fuel r = (.error (.unknownFunction (splitDot name).1), r) := by
  unfold resolveCall
  rw [h]
  rfl

/-- the same through `parseFunction` -/
theorem parseFunction_unknown_rejected (fuel : Nat) (r r1 r2 : Reader) (nb : List Byte) (name : Str)
    (hws : eatWhitespace (fuel + 1) r = (.ok (), r1))
    (hname : readUntil fnNameStop (fuel + 1) [] r1 = (.ok nb, r2))
    (hutf : utf8Decode? nb = some name)
    (h : findFunction (String.ofList (splitDot name).1) = none) :
    parseFunction (fuel + 1) r = (.error (.unknownFunction (splitDot name).1), r2) := by
  rw [parseFunction_eq]
  simp only [EM.bind_apply, liftP, hws, hname, fromUtf8, hutf, EM.pure_apply]
  exact unknown_function_rejected name fuel r2 h

/-- **C18 (1d).**  Too few arguments: `missingArgument`; too many: `tooManyArgument` -/
theorem arity_rejected (name : Str) (fuel : Nat) (sig : FnSig) (r r1 r2 : Reader) (args : List Expr)
    (b : Option Byte)
    (h : findFunction (String.ofList (splitDot name).1) = some sig)
    (hargs : parseArgs fuel (splitDot name).2 r = (.ok args, r1))
    (hnext : next r1 = (.ok b, r2)) :
    (args.length < sig.min → resolveCall name fuel r = (.error (.missingArgument sig.name), r2)) ∧
    (∀ m, sig.max = some m → sig.min ≤ args.length → m < args.length →
      resolveCall name fuel r = (.error (.tooManyArgument sig.name), r2)) ∧
    (sig.min ≤ args.length → (∀ m, sig.max = some m → args.length ≤ m) →
      resolveCall name fuel r = (.ok (.call sig.name args), r2)) := by
  unfold resolveCall finishCall
  rw [h]
  simp only [EM.bind_apply, hargs, liftP, hnext]
  refine ⟨?_, ?_, ?_⟩
  · intro hlt; simp only [hlt, if_true]; rfl
  · intro m hm h1 h2
    have : ¬ args.length < sig.min := by omega
    simp only [this, if_false, hm, gt_iff_lt, h2, decide_true, if_true]; rfl
  · intro h1 h2
    have : ¬ args.length < sig.min := by omega
    simp only [this, if_false]
    cases hm : sig.max with
    | none => rfl
    | some m =>
      have : ¬ args.length > m := by have := h2 m hm; omega
      simp only [this, decide_false]; rfl

/-! ## 2. (C13) aliases -/

deriving instance DecidableEq for FnSig

/-- **C13 (2a).**  Every alias of the regenerated function table resolves to the same function
(same canonical name, same arity bounds) as the canonical name of its entry. -/
theorem alias_same_sig :
    ∀ e ∈ Generated.functionTable, ∀ a ∈ e.2.1, findFunction a = findFunction e.1 := by
  decide +kernel

/-- a canonical name resolves to its own entry (names are distinct) -/
theorem canonical_resolves :
    ∀ e ∈ Generated.functionTable,
      findFunction e.1 = some { name := e.1, min := e.2.2.1, max := e.2.2.2 } := by
  decide +kernel

/-- no name or alias of the table starts with a dot, so `splitDot` leaves them alone -/
theorem names_no_dot :
    ∀ e ∈ Generated.functionTable,
      e.1.toList.head? ≠ some '.' ∧ ∀ a ∈ e.2.1, a.toList.head? ≠ some '.' := by
  decide +kernel

theorem splitDot_of_no_dot (n : Str) (h : n.head? ≠ some '.') : splitDot n = (n, []) := by
  unfold splitDot
  split
  · simp at h
  · rfl

theorem splitDot_dot (n : Str) : splitDot ('.' :: n) = (n, [Expr.extract 0 []]) := rfl

/-- **C13 (2b) `alias_same_ast`.**  After the name has been read the parser behaves identically
(same AST, same errors, same final reader — as functions of the reader) for an alias and for the
canonical name, with or without the dot sugar. -/
theorem alias_same_ast (e : String × List String × Nat × Option Nat) (he : e ∈ Generated.functionTable)
    (a : String) (ha : a ∈ e.2.1) (fuel : Nat) :
    resolveCall a.toList fuel = resolveCall e.1.toList fuel ∧
    resolveCall ('.' :: a.toList) fuel = resolveCall ('.' :: e.1.toList) fuel := by
  have hnd := names_no_dot e he
  have hs := alias_same_sig e he a ha
  unfold resolveCall
  rw [splitDot_of_no_dot _ (hnd.2 a ha), splitDot_of_no_dot _ hnd.1, splitDot_dot, splitDot_dot]
  simp only [String.ofList_toList, hs, canonical_resolves e he]
  exact ⟨trivial, trivial⟩

theorem finishCall_ok {sig : FnSig} {fuel : Nat} {pre : List Expr} {r r' : Reader} {x : Expr}
    (h : finishCall sig fuel pre r = (.ok x, r')) : ∃ args, x = .call sig.name args := by
  unfold finishCall at h
  simp only [EM.bind_apply] at h
  split at h
  · next args _ _ =>
    split at h
    · by_cases h1 : args.length < sig.min
      · rw [if_pos h1] at h; cases h
      · rw [if_neg h1] at h
        by_cases h2 : (match sig.max with | some m => decide (args.length > m) | none => false) = true
        · rw [if_pos h2] at h; cases h
        · rw [if_neg h2] at h; cases h; exact ⟨_, rfl⟩
    · cases h
  · cases h

/-- … and what it produces is a call of the canonical name -/
theorem alias_call_canonical (e : String × List String × Nat × Option Nat) (he : e ∈ Generated.functionTable)
    (a : String) (ha : a ∈ e.2.1) (fuel : Nat) (r r' : Reader) (x : Expr)
    (h : resolveCall a.toList fuel r = (.ok x, r')) : ∃ args, x = .call e.1 args := by
  rw [(alias_same_ast e he a ha fuel).1] at h
  unfold resolveCall at h
  rw [splitDot_of_no_dot _ (names_no_dot e he).1] at h
  simp only [String.ofList_toList, canonical_resolves e he] at h
  exact finishCall_ok h

/-- the same through `parseFunction`: if the name bytes read are those of an alias resp. of the
canonical name and the reader is in the same state afterwards, the results are the same -/
theorem parseFunction_alias (e : String × List String × Nat × Option Nat) (he : e ∈ Generated.functionTable)
    (a : String) (ha : a ∈ e.2.1) (fuel : Nat) (ra rc ra1 rc1 r2 : Reader) (nba nbc : List Byte)
    (hwsa : eatWhitespace (fuel + 1) ra = (.ok (), ra1))
    (hwsc : eatWhitespace (fuel + 1) rc = (.ok (), rc1))
    (hna : readUntil fnNameStop (fuel + 1) [] ra1 = (.ok nba, r2))
    (hnc : readUntil fnNameStop (fuel + 1) [] rc1 = (.ok nbc, r2))
    (hua : utf8Decode? nba = some a.toList) (huc : utf8Decode? nbc = some e.1.toList) :
    parseFunction (fuel + 1) ra = parseFunction (fuel + 1) rc := by
  rw [parseFunction_eq]
  simp only [EM.bind_apply, liftP, hwsa, hwsc, hna, hnc, fromUtf8, hua, huc, EM.pure_apply]
  rw [(alias_same_ast e he a ha fuel).1]

/-! ### Non-vacuity for items 1 and 2 -/

/-- `(take . 2)` -/
def take2 : Expr := .call "take" [.extract 0 [], .const (.num (.pos 2))]

example : parseWholeExpr "(take . 2)".toList = .ok take2 := isOk_eq (by decide +kernel)
example : WellFormed take2 := by decide +kernel
/-- a nested call; the parsed AST is well-formed by the theorem -/
example : ∃ e, parseWholeExpr "(? (and true (not false)) (size .a#1) \"x\")".toList = .ok e ∧ WellFormed e := by
  cases h : parseWholeExpr "(? (and true (not false)) (size .a#1) \"x\")".toList with
  | ok e => exact ⟨e, rfl, parseWholeExpr_well_formed h⟩
  | error x =>
    have : (match parseWholeExpr "(? (and true (not false)) (size .a#1) \"x\")".toList with
      | .ok _ => true | .error _ => false) = true := by decide +kernel
    rw [h] at this; cases this
/-- ASTs that are not well-formed exist (so the theorem says something): unknown name, bad arity -/
example : ¬ WellFormed (.call "nosuch" []) ∧ ¬ WellFormed (.call "take" [.extract 0 []]) ∧
    ¬ WellFormed (.call "|" [.call "take" [.extract 0 [], .extract 0 [], .extract 0 []], .extract 0 []]) := by
  decide +kernel
/-- the alias `take_first` and the canonical `take` give the same AST -/
example : parseWholeExpr "(take_first . 2)".toList = .ok take2 := isOk_eq (by decide +kernel)
example : ("take", ["take_first"], 2, some 2) ∈ Generated.functionTable := by decide +kernel
/-- rejections -/
example : isRejected (parseWholeExpr "(nosuch 1)".toList) 0 "nosuch" = true := by decide +kernel
example : isRejected (parseWholeExpr "(.nosuch 1)".toList) 0 "nosuch" = true := by decide +kernel
example : isRejected (parseWholeExpr "(take 1)".toList) 1 "take" = true := by decide +kernel
example : isRejected (parseWholeExpr "(take_first 1 2 3)".toList) 2 "take" = true := by decide +kernel
/-- `(.take)` has one argument (the implicit `.`): still too few -/
example : isRejected (parseWholeExpr "(.take)".toList) 1 "take" = true := by decide +kernel
/-- hypotheses of `unknown_function_rejected` / `arity_rejected` -/
example : findFunction (String.ofList (splitDot "nosuch".toList).1) = none := by decide +kernel
def exReader : Reader := Reader.ofBytes (utf8 " 1)".toList)
example : ∃ r r1 args b r2, findFunction (String.ofList (splitDot "take".toList).1) = some ⟨"take", 2, some 2⟩ ∧
    parseArgs 50 (splitDot "take".toList).2 r = (.ok args, r1) ∧ next r1 = (.ok b, r2) ∧
    args.length < 2 := by
  have h1 : (parseArgs 50 [] exReader).1 = .ok [.const (.num (.pos 1))] := isOkList_eq (by decide +kernel)
  have h2 : ∃ b, (next (parseArgs 50 [] exReader).2).1 = .ok b := by
    cases h : (next (parseArgs 50 [] exReader).2).1 with
    | ok b => exact ⟨b, rfl⟩
    | error e =>
      have : (match (next (parseArgs 50 [] exReader).2).1 with | .ok _ => true | .error _ => false) = true := by
        decide +kernel
      rw [h] at this; cases this
  obtain ⟨b, h2⟩ := h2
  exact ⟨exReader, _, _, b, _, by decide +kernel, Prod.ext h1 rfl, Prod.ext h2 rfl, by decide⟩

/-! ## 3. (C13) spelling: the parser reads back what the renderer writes -/

theorem liftP_ok {α} {m : PM α} {r r' : Reader} {a : α} (h : m r = (.ok a, r')) :
    liftP m r = (.ok a, r') := by simp [liftP, h]

theorem EM.bind_ok {α β} {m : EM α} {f : α → EM β} {r r' : Reader} {a : α}
    (h : m r = (.ok a, r')) : (m >>= f) r = f a r' := by
  simp [EM.bind_apply, h]

/-- `readUntil` from a current byte: the bytes up to the first stop byte (or the end) -/
theorem readUntil_spec (stop : Byte → Bool) (bs tail : List Byte) (hbs : ∀ b ∈ bs, stop b = false)
    (htail : ∀ b ∈ tail.head?, stop b = true) (r : Reader) (c : Byte) (hr : At r c (bs ++ tail))
    (fuel : Nat) (hf : bs.length < fuel) (acc : List Byte) :
    ∃ r', readUntil stop fuel acc r = (.ok (acc ++ bs), r') ∧ Peeked r' tail := by
  induction bs generalizing r c fuel acc with
  | nil =>
    obtain ⟨fuel, rfl⟩ : ∃ k, fuel = k + 1 := ⟨fuel - 1, by omega⟩
    obtain ⟨r', hn, hr'⟩ := next_at hr
    refine ⟨r', ?_, hr'⟩
    simp only [List.nil_append] at hn
    unfold readUntil
    rw [EM.bind_ok (liftP_ok hn)]
    cases tail with
    | nil => simp
    | cons b t =>
      have := htail b (by simp)
      simp [this]
  | cons x xs ih =>
    obtain ⟨fuel, rfl⟩ : ∃ k, fuel = k + 1 := ⟨fuel - 1, by omega⟩
    obtain ⟨r1, hn, hr1⟩ := next_at_cons (show At r c (x :: (xs ++ tail)) from hr)
    obtain ⟨r2, h2, hr2⟩ := ih (fun b hb => hbs b (by simp [hb])) r1 x hr1 fuel
      (by simp at hf; omega) (acc ++ [x])
    refine ⟨r2, ?_, hr2⟩
    unfold readUntil
    rw [EM.bind_ok (liftP_ok hn)]
    simp only [hbs x (by simp)]
    simpa using h2

theorem readParents_spec (p : Nat) (tail : List Byte) (htail : tail.head? ≠ some 94) (r : Reader)
    (hr : Peeked r (List.replicate p 94 ++ tail)) (fuel : Nat) (hf : p < fuel) (n : Nat) :
    ∃ r', readParents fuel n r = (.ok (n + p), r') ∧ Peeked r' tail := by
  induction p generalizing r fuel n with
  | zero =>
    obtain ⟨fuel, rfl⟩ : ∃ k, fuel = k + 1 := ⟨fuel - 1, by omega⟩
    simp only [List.replicate_zero, List.nil_append] at hr
    refine ⟨r, ?_, hr⟩
    unfold readParents
    rw [EM.bind_ok (liftP_ok (peek_peeked hr))]
    simp [htail]
  | succ p ih =>
    obtain ⟨fuel, rfl⟩ : ∃ k, fuel = k + 1 := ⟨fuel - 1, by omega⟩
    have hr' : At r 94 (List.replicate p 94 ++ tail) := by
      rw [List.replicate_succ, List.cons_append] at hr; exact hr
    obtain ⟨r1, hn, hr1⟩ := next_at hr'
    obtain ⟨r2, h2, hr2⟩ := ih r1 hr1 fuel (by omega) (n + 1)
    refine ⟨r2, ?_, hr2⟩
    unfold readParents
    rw [EM.bind_ok (liftP_ok (peek_at hr'))]
    simp only [if_true]
    rw [EM.bind_ok (liftP_ok hn)]
    rw [h2]
    congr 2
    omega

/-! ### Steps of an extractor -/

/-- a key that can be written after a dot: not empty, no byte that ends a key -/
def KeyOK (k : Str) : Prop := k ≠ [] ∧ ∀ b ∈ utf8 k, keyStop b = false
instance (k : Str) : Decidable (KeyOK k) := by unfold KeyOK; infer_instance

def StepOK : Step → Prop
  | .key k => KeyOK k
  | .idx i => i < 2 ^ 64
instance (s : Step) : Decidable (StepOK s) := by cases s <;> (unfold StepOK; infer_instance)

def stepText : Step → Str
  | .key k => '.' :: k
  | .idx i => '#' :: Nat.toDigits 10 i

def stepsText (steps : List Step) : Str := steps.flatMap stepText

/-- what may follow the steps: a byte that ends a key and an index and starts no further step -/
def StepDelim (tail : List Byte) : Prop :=
  ∀ b ∈ tail.head?, keyStop b = true ∧ isDigit b = false ∧ b ≠ 46 ∧ b ≠ 35

theorem utf8_ne_nil (s : Str) (h : s ≠ []) : utf8 s ≠ [] := by
  intro h0
  have h1 := utf8Decode_utf8 s
  rw [h0] at h1
  have h2 := utf8Decode_utf8 []
  rw [utf8_nil, h1] at h2
  exact h (by simpa using h2)

theorem stepsText_cons (s : Step) (steps : List Step) : stepsText (s :: steps) = stepText s ++ stepsText steps := by
  simp [stepsText]

theorem utf8_dot_cons (s : Str) : utf8 ('.' :: s) = 46 :: utf8 s := by rw [utf8_cons]; rfl
theorem utf8_hash_cons (s : Str) : utf8 ('#' :: s) = 35 :: utf8 s := by rw [utf8_cons]; rfl

/-- the text of further steps starts with `.` or `#`: a fine end for the step before -/
theorem stepsText_delim (steps : List Step) (tail : List Byte) (ht : StepDelim tail) :
    ∀ b ∈ (utf8 (stepsText steps) ++ tail).head?, keyStop b = true ∧ isDigit b = false := by
  cases steps with
  | nil =>
    intro b hb
    simp only [stepsText, List.flatMap_nil, utf8_nil, List.nil_append] at hb
    exact ⟨(ht b hb).1, (ht b hb).2.1⟩
  | cons s steps =>
    intro b hb
    rw [stepsText_cons, utf8_append] at hb
    cases s with
    | key k =>
      simp only [stepText, utf8_dot_cons, List.cons_append, List.head?_cons, Option.mem_def,
        Option.some.injEq] at hb
      subst hb; decide
    | idx i =>
      simp only [stepText, utf8_hash_cons, List.cons_append, List.head?_cons, Option.mem_def,
        Option.some.injEq] at hb
      subst hb; decide

theorem toDigits_ne_nil (n : Nat) : Nat.toDigits 10 n ≠ [] := by
  rw [Nat.toDigits_eq_if (by decide)]
  split <;> simp

theorem parseUsize_digits (i : Nat) (hi : i < 2 ^ 64) :
    parseUsize ((Nat.toDigits 10 i).map byteOf) = some i := by
  unfold parseUsize
  rw [(digits_bytes _ (toDigits_isDigit i)).2.2, digitsToNat_toDigits]
  simp [hi]

/-- the loop body of `parseSteps` after the peek -/
def stepsBody (fuel : Nat) (acc : List Step) (x : Option Byte) : EM (List Step) :=
  match x with
  | some 46 => do
    let kb ← readUntil keyStop (fuel + 1) []
    let key ← fromUtf8 kb
    if key.isEmpty then
      if acc.isEmpty then pure [] else do
        let l ← emLoc
        EM.fail (.missingKey l)
    else parseSteps fuel (acc ++ [.key key])
  | some 35 => do
    let _ ← liftP next
    let ds ← liftP (readDigits (fuel + 1) [])
    if ds.isEmpty then
      if acc.isEmpty then pure [] else do
        let l ← emLoc
        EM.fail (.missingKey l)
    else
      match parseUsize ds with
      | some i => parseSteps fuel (acc ++ [.idx i])
      | none => EM.fail .numberParse
  | _ => pure acc

theorem parseSteps_succ (fuel : Nat) (acc : List Step) :
    parseSteps (fuel + 1) acc = (do let x ← liftP peek; stepsBody fuel acc x) := by
  rw [parseSteps]; rfl

theorem stepsBody_other (fuel : Nat) (acc : List Step) (x : Option Byte) (h1 : x ≠ some 46)
    (h2 : x ≠ some 35) : stepsBody fuel acc x = pure acc := by
  unfold stepsBody
  split
  · exact absurd rfl h1
  · exact absurd rfl h2
  · rfl

theorem parseSteps_spec (steps : List Step) (hs : ∀ s ∈ steps, StepOK s) (tail : List Byte)
    (ht : StepDelim tail) (r : Reader) (hr : Peeked r (utf8 (stepsText steps) ++ tail))
    (fuel : Nat) (hf : (utf8 (stepsText steps)).length < fuel) (acc : List Step) :
    ∃ r', parseSteps fuel acc r = (.ok (acc ++ steps), r') ∧ Peeked r' tail := by
  induction steps generalizing r fuel acc with
  | nil =>
    obtain ⟨fuel, rfl⟩ : ∃ k, fuel = k + 1 := ⟨fuel - 1, by omega⟩
    simp only [stepsText, List.flatMap_nil, utf8_nil, List.nil_append] at hr
    refine ⟨r, ?_, hr⟩
    rw [parseSteps_succ, EM.bind_ok (liftP_ok (peek_peeked hr)), stepsBody_other]
    · simp
    · intro h; exact (ht 46 h).2.2.1 rfl
    · intro h; exact (ht 35 h).2.2.2 rfl
  | cons s steps ih =>
    obtain ⟨fuel, rfl⟩ : ∃ k, fuel = k + 1 := ⟨fuel - 1, by omega⟩
    have hnext := stepsText_delim steps tail ht
    rw [stepsText_cons, utf8_append] at hr hf
    cases s with
    | key k =>
      obtain ⟨hk1, hk2⟩ : KeyOK k := hs (.key k) (by simp)
      simp only [stepText, utf8_dot_cons, List.cons_append, List.append_assoc, List.length_cons,
        List.length_append] at hr hf
      have hr' : At r 46 (utf8 k ++ (utf8 (stepsText steps) ++ tail)) := hr
      obtain ⟨r1, h1, hr1⟩ := readUntil_spec keyStop (utf8 k) _ hk2 (fun b hb => (hnext b hb).1) r 46 hr'
        (fuel + 1) (by omega) []
      obtain ⟨r2, h2, hr2⟩ := ih (fun s hs' => hs s (by simp [hs'])) r1 hr1 fuel (by omega) (acc ++ [.key k])
      refine ⟨r2, ?_, hr2⟩
      rw [parseSteps_succ, EM.bind_ok (liftP_ok (peek_at hr'))]
      simp only [stepsBody]
      rw [EM.bind_ok h1]
      simp only [List.nil_append, fromUtf8, utf8Decode_utf8]
      rw [EM.bind_ok (EM.pure_apply _ _)]
      have : k.isEmpty = false := by cases k with
        | nil => exact absurd rfl hk1
        | cons _ _ => rfl
      simp only [this]
      simpa using h2
    | idx i =>
      have hi : i < 2 ^ 64 := hs (.idx i) (by simp)
      have hd := digits_bytes _ (toDigits_isDigit i)
      simp only [stepText, utf8_hash_cons, List.cons_append, List.append_assoc, List.length_cons,
        List.length_append, hd.1] at hr hf
      have hr' : At r 35 ((Nat.toDigits 10 i).map byteOf ++ (utf8 (stepsText steps) ++ tail)) := hr
      obtain ⟨r1, hn, hr1⟩ := next_at hr'
      obtain ⟨r2, h2, hr2⟩ := readDigits_ready _ hd.2.1 _ (fun b hb => (hnext b hb).2) r1 hr1.ready
        (fuel + 1) (by omega) []
      obtain ⟨r3, h3, hr3⟩ := ih (fun s hs' => hs s (by simp [hs'])) r2 hr2 fuel (by omega) (acc ++ [.idx i])
      refine ⟨r3, ?_, hr3⟩
      rw [parseSteps_succ, EM.bind_ok (liftP_ok (peek_at hr'))]
      simp only [stepsBody]
      rw [EM.bind_ok (liftP_ok hn), EM.bind_ok (liftP_ok h2)]
      have : ((Nat.toDigits 10 i).map byteOf).isEmpty = false := by
        have := toDigits_ne_nil i
        cases h : Nat.toDigits 10 i with
        | nil => exact absurd h this
        | cons _ _ => rfl
      simp only [List.nil_append, this, parseUsize_digits i hi]
      simpa using h3


/-! ### Dispatch of `read_getter` -/

/-- the body of `read_getter` after white space has been skipped and the first byte `c` peeked -/
def getterBody (fuel : Nat) (c : Byte) : EM Expr :=
  if c = 46 || c = 35 || c = 94 then do
    let parents ← readParents (fuel + 1) 0
    let steps ← parseSteps (fuel + 1) []
    pure (.extract parents steps)
  else if c = 40 then parseFunction fuel
  else if c = 58 || c = 64 then do
    let nb ← readUntil varStop (fuel + 1) []
    if nb.isEmpty then do
      let l ← emLoc
      EM.fail (.json (.unexpectedEof l))
    else do
      let name ← fromUtf8 nb
      pure (if c = 58 then .var name else .macro name)
  else if c = 38 then do
    let nb ← readICtxName (fuel + 1) []
    let name ← fromUtf8 nb
    match ictxOfName name with
    | some k => pure (.ictx k)
    | none => EM.fail (.unknownInputContext name)
  else if c = 47 then do
    let nb ← readSelName (fuel + 1) []
    let _ ← liftP next
    if nb.isEmpty then do
      let l ← emLoc
      EM.fail (.json (.unexpectedEof l))
    else do
      let name ← fromUtf8 nb
      pure (.selected (trimStr name))
  else do
    match (← liftP (nextValue (fuel + 1))) with
    | none => EM.fail .unexpectedEof
    | some v => pure (.const v)

theorem readGetter_dispatch (ws : List Byte) (hws : ∀ b ∈ ws, isWs b = true) (c : Byte) (bs : List Byte)
    (hc : isWs c = false) (r : Reader) (hr : Ready r (ws ++ c :: bs)) (fuel : Nat)
    (hf : ws.length < fuel + 1) :
    ∃ r1, At r1 c bs ∧ readGetter (fuel + 1) r = getterBody fuel c r1 := by
  obtain ⟨r1, he, hr1⟩ := eatWhitespace_ready ws hws (c :: bs)
    (by intro b hb; simp at hb; subst hb; exact hc) r hr (fuel + 1) hf
  refine ⟨r1, hr1, ?_⟩
  rw [readGetter, EM.bind_ok (liftP_ok he), EM.bind_ok (liftP_ok (peek_at hr1))]
  rfl

/-! ### Delimiters -/

/-- a byte that ends every kind of getter: white space, `,` or `)` -/
def isDelim (b : Byte) : Bool := isWs b || b = 44 || b = 41

/-- what follows a getter: a delimiter or the end of the text -/
def DelimRest (rest : List Byte) : Prop := ∀ b ∈ rest.head?, isDelim b = true

theorem isDelim_cases {b : Byte} (h : isDelim b = true) :
    b = 32 ∨ b = 10 ∨ b = 9 ∨ b = 13 ∨ b = 44 ∨ b = 41 := by
  simp only [isDelim, isWs, Bool.or_eq_true, decide_eq_true_eq] at h
  rcases h with ((((h | h) | h) | h) | h) | h <;> simp [h]

theorem isDelim_props {b : Byte} (h : isDelim b = true) :
    keyStop b = true ∧ varStop b = true ∧ fnNameStop b = true ∧ isDigit b = false ∧
    b ≠ 46 ∧ b ≠ 35 ∧ b ≠ 94 ∧ b ≠ 101 ∧ b ≠ 69 := by
  rcases isDelim_cases h with rfl | rfl | rfl | rfl | rfl | rfl <;> decide

theorem DelimRest.stepDelim {rest : List Byte} (h : DelimRest rest) : StepDelim rest := by
  intro b hb
  have := isDelim_props (h b hb)
  exact ⟨this.1, this.2.2.2.1, this.2.2.2.2.1, this.2.2.2.2.2.1⟩

theorem DelimRest.numDelim {rest : List Byte} (h : DelimRest rest) : NumDelim rest := by
  intro b hb
  have := isDelim_props (h b hb)
  exact ⟨this.2.2.2.1, this.2.2.2.2.1, this.2.2.2.2.2.2.2⟩


/-! ### The renderer -/

/-- a character of a separator: blank, line feed, tab, carriage return or comma -/
def isSepChar (c : Char) : Bool := c = ' ' || c = '\n' || c = '\t' || c = '\r' || c = ','

/-- How an expression is spelled: how constants are printed (`o`), what stands between the function
name and the first argument and between two arguments (`sep`), what stands before the closing
parenthesis (`close`), and which of its names a function is called by (`nm`). -/
structure Style where
  o : JsonOpts := {}
  sep : Str := [' ']
  close : Str := []
  nm : String → String := id

/-- `nm` maps every canonical name to itself or to one of its aliases -/
def GoodNaming (nm : String → String) : Prop :=
  ∀ e ∈ Generated.functionTable, nm e.1 = e.1 ∨ nm e.1 ∈ e.2.1

/-- separators are non-empty and made of blanks and commas; names are names of the same function -/
structure StyleOK (st : Style) : Prop where
  sep_ne : st.sep ≠ []
  sep_ok : ∀ c ∈ st.sep, isSepChar c = true
  close_ok : ∀ c ∈ st.close, isSepChar c = true
  nm_ok : GoodNaming st.nm

/-- the steps of an extractor; the root (no step) is a lone dot -/
def rootOrSteps : List Step → Str
  | [] => ['.']
  | s :: steps => stepsText (s :: steps)

def ictxText : ICtxKind → Str
  | .index => "index".toList
  | .indexInFile => "index-in-file".toList
  | .fileName => "file-name".toList
  | .startLine => "started-at-line-number".toList
  | .endLine => "ended-at-line-number".toList
  | .startChar => "started-at-char-number".toList
  | .endChar => "ended-at-char-number".toList

mutual
/-- the text of an expression in a given style -/
def render (st : Style) : Expr → Str
  | .extract p steps => List.replicate p '^' ++ rootOrSteps steps
  | .const v => printJson st.o v
  | .var n => ':' :: n
  | .macro n => '@' :: n
  | .call fn args => '(' :: ((st.nm fn).toList ++ renderArgs st args)
  | .selected n => '/' :: (n ++ ['/'])
  | .ictx k => '&' :: ictxText k
/-- separator, argument, …, closing parenthesis -/
def renderArgs (st : Style) : List Expr → Str
  | [] => st.close ++ [')']
  | a :: as => st.sep ++ (render st a ++ renderArgs st as)
end

/-- a variable / macro name that can be written after `:` / `@` -/
def VarOK (n : Str) : Prop := n ≠ [] ∧ ∀ b ∈ utf8 n, varStop b = false
instance (n : Str) : Decidable (VarOK n) := by unfold VarOK; infer_instance

/-- a byte of a canonical input-context name: lower-case letter or `-` -/
def isICtxByte (b : Byte) : Bool := (97 ≤ b && b ≤ 122) || b = 45

theorem readICtxName_spec (bs tail : List Byte) (hbs : ∀ b ∈ bs, isICtxByte b = true)
    (htail : ∀ b ∈ tail.head?, isDelim b = true) (r : Reader) (c : Byte) (hr : At r c (bs ++ tail))
    (fuel : Nat) (hf : bs.length < fuel) (acc : List Byte) :
    ∃ r', readICtxName fuel acc r = (.ok (acc ++ bs), r') ∧ Peeked r' tail := by
  induction bs generalizing r c fuel acc with
  | nil =>
    obtain ⟨fuel, rfl⟩ : ∃ k, fuel = k + 1 := ⟨fuel - 1, by omega⟩
    obtain ⟨r', hn, hr'⟩ := next_at hr
    refine ⟨r', ?_, hr'⟩
    simp only [List.nil_append] at hn
    unfold readICtxName
    rw [EM.bind_ok (liftP_ok hn)]
    cases tail with
    | nil => simp
    | cons b t =>
      have hb := isDelim_cases (htail b (by simp))
      simp only [List.head?_cons, List.append_nil]
      rcases hb with rfl | rfl | rfl | rfl | rfl | rfl <;> rfl
  | cons x xs ih =>
    obtain ⟨fuel, rfl⟩ : ∃ k, fuel = k + 1 := ⟨fuel - 1, by omega⟩
    obtain ⟨r1, hn, hr1⟩ := next_at_cons (show At r c (x :: (xs ++ tail)) from hr)
    obtain ⟨r2, h2, hr2⟩ := ih (fun b hb => hbs b (by simp [hb])) r1 x hr1 fuel
      (by simp at hf; omega) (acc ++ [x])
    refine ⟨r2, ?_, hr2⟩
    unfold readICtxName
    rw [EM.bind_ok (liftP_ok hn)]
    have hx := hbs x (by simp)
    simp only [isICtxByte, Bool.or_eq_true, decide_eq_true_eq] at hx
    rcases hx with hx | hx
    · simp only [hx, if_true]
      simpa using h2
    · subst hx
      simpa using h2

theorem readSelName_spec (bs tail : List Byte) (hbs : ∀ b ∈ bs, b ≠ 47) (r : Reader) (c : Byte)
    (hr : At r c (bs ++ 47 :: tail)) (fuel : Nat) (hf : bs.length < fuel) (acc : List Byte) :
    ∃ r', readSelName fuel acc r = (.ok (acc ++ bs), r') ∧ At r' 47 tail := by
  induction bs generalizing r c fuel acc with
  | nil =>
    obtain ⟨fuel, rfl⟩ : ∃ k, fuel = k + 1 := ⟨fuel - 1, by omega⟩
    obtain ⟨r', hn, hr'⟩ := next_at_cons (show At r c (47 :: tail) from hr)
    refine ⟨r', ?_, hr'⟩
    unfold readSelName
    rw [EM.bind_ok (liftP_ok hn)]
    simp
  | cons x xs ih =>
    obtain ⟨fuel, rfl⟩ : ∃ k, fuel = k + 1 := ⟨fuel - 1, by omega⟩
    obtain ⟨r1, hn, hr1⟩ := next_at_cons (show At r c (x :: (xs ++ 47 :: tail)) from hr)
    obtain ⟨r2, h2, hr2⟩ := ih (fun b hb => hbs b (by simp [hb])) r1 x hr1 fuel
      (by simp at hf; omega) (acc ++ [x])
    refine ⟨r2, ?_, hr2⟩
    unfold readSelName
    rw [EM.bind_ok (liftP_ok hn)]
    simp only [hbs x (by simp), if_false]
    simpa using h2

/-- a selection name that can be written between slashes and is read back unchanged -/
def SelOK (n : Str) : Prop := n ≠ [] ∧ trimStr n = n ∧ ∀ b ∈ utf8 n, b ≠ 47
instance (n : Str) : Decidable (SelOK n) := by unfold SelOK; infer_instance

theorem ictxText_ok (k : ICtxKind) :
    (∀ b ∈ utf8 (ictxText k), isICtxByte b = true) ∧ ictxOfName (ictxText k) = some k := by
  cases k <;> decide

mutual
/-- the ASTs the renderer is claimed for: extractors with writable keys and `usize` indices,
constants that survive the JSON round trip, writable variable and macro names, calls within the
arity bounds of the table, `/name/` getters with a trimmed name without slash, all `&name` getters -/
def WFR (o : JsonOpts) : Expr → Prop
  | .extract _ steps => ∀ s ∈ steps, StepOK s
  | .const v => Printable o v ∧ norm v = v
  | .var n => VarOK n
  | .macro n => VarOK n
  | .call fn args => ArityOK fn args.length ∧ WFRList o args
  | .selected n => SelOK n
  | .ictx _ => True
def WFRList (o : JsonOpts) : List Expr → Prop
  | [] => True
  | a :: as => WFR o a ∧ WFRList o as
end

/-- `readGetter` reads the text of `e` (after any white space) and leaves the reader before `rest` -/
def GetterSpec (st : Style) (e : Expr) : Prop :=
  WFR st.o e → ∀ (ws : List Byte), (∀ b ∈ ws, isWs b = true) → ∀ (rest : List Byte), DelimRest rest →
    ∀ (r : Reader), Ready r (ws ++ (utf8 (render st e) ++ rest)) →
    ∀ (fuel : Nat), 2 * (ws.length + (utf8 (render st e)).length) + 4 ≤ fuel →
    ∃ r', readGetter fuel r = (.ok e, r') ∧ Ready r' rest

/-- `parseArgs` reads the arguments up to the closing parenthesis, which stays current -/
def ArgsSpec (st : Style) (as : List Expr) : Prop :=
  WFRList st.o as → ∀ (acc : List Expr) (rest : List Byte) (r : Reader),
    Ready r (utf8 (renderArgs st as) ++ rest) →
    ∀ (fuel : Nat), 2 * (utf8 (renderArgs st as)).length + 4 ≤ fuel →
    ∃ r', parseArgs fuel acc r = (.ok (acc ++ as), r') ∧ At r' 41 rest

/-! ### Milestone a: extractors -/

theorem utf8_carets (p : Nat) : utf8 (List.replicate p '^') = List.replicate p 94 := by
  induction p with
  | zero => rfl
  | succ p ih => rw [List.replicate_succ, utf8_cons, ih]; rfl

theorem utf8_rootOrSteps_head (steps : List Step) :
    ∃ c t, utf8 (rootOrSteps steps) = c :: t ∧ (c = 46 ∨ c = 35) := by
  cases steps with
  | nil => exact ⟨46, [], rfl, Or.inl rfl⟩
  | cons s steps =>
    cases s with
    | key k => exact ⟨46, _, by rw [rootOrSteps, stepsText_cons, stepText, List.cons_append, utf8_dot_cons], Or.inl rfl⟩
    | idx i => exact ⟨35, _, by rw [rootOrSteps, stepsText_cons, stepText, List.cons_append, utf8_hash_cons], Or.inr rfl⟩

theorem rootOrSteps_spec (steps : List Step) (hs : ∀ s ∈ steps, StepOK s) (tail : List Byte)
    (ht : StepDelim tail) (r : Reader) (hr : Peeked r (utf8 (rootOrSteps steps) ++ tail))
    (fuel : Nat) (hf : (utf8 (rootOrSteps steps)).length < fuel) :
    ∃ r', parseSteps fuel [] r = (.ok steps, r') ∧ Peeked r' tail := by
  cases steps with
  | nil =>
    obtain ⟨fuel, rfl⟩ : ∃ k, fuel = k + 1 := ⟨fuel - 1, by omega⟩
    have hr' : At r 46 ([] ++ tail) := hr
    obtain ⟨r1, h1, hr1⟩ := readUntil_spec keyStop [] tail (by simp) (fun b hb => (ht b hb).1) r 46 hr'
      (fuel + 1) (by simp) []
    refine ⟨r1, ?_, hr1⟩
    rw [parseSteps_succ, EM.bind_ok (liftP_ok (peek_at hr'))]
    simp only [stepsBody]
    rw [EM.bind_ok h1]
    have : utf8Decode? [] = some [] := utf8Decode_utf8 []
    simp only [List.append_nil, fromUtf8, this]
    rfl
  | cons s steps =>
    obtain ⟨r', h, hr'⟩ := parseSteps_spec (s :: steps) hs tail ht r hr fuel hf []
    exact ⟨r', by simpa using h, hr'⟩

theorem getterBody_extract (fuel : Nat) (c : Byte) (hc : c = 46 ∨ c = 35 ∨ c = 94) :
    getterBody fuel c = (do
      let parents ← readParents (fuel + 1) 0
      let steps ← parseSteps (fuel + 1) []
      pure (.extract parents steps)) := by
  rcases hc with rfl | rfl | rfl <;> rfl

theorem getter_extract (st : Style) (p : Nat) (steps : List Step) : GetterSpec st (.extract p steps) := by
  intro hwf ws hws rest hrest r hr fuel hf
  obtain ⟨fuel, rfl⟩ : ∃ k, fuel = k + 1 := ⟨fuel - 1, by omega⟩
  have htext : utf8 (render st (.extract p steps)) = List.replicate p 94 ++ utf8 (rootOrSteps steps) := by
    rw [render, utf8_append, utf8_carets]
  obtain ⟨c0, t0, hroot, hc0⟩ := utf8_rootOrSteps_head steps
  rw [htext] at hr hf
  -- the first byte
  obtain ⟨c, t, hct, hc⟩ : ∃ c t, List.replicate p 94 ++ utf8 (rootOrSteps steps) = c :: t ∧
      (c = 46 ∨ c = 35 ∨ c = 94) := by
    cases p with
    | zero => exact ⟨c0, t0, by simpa using hroot, by rcases hc0 with h | h <;> simp [h]⟩
    | succ p => exact ⟨94, _, by rw [List.replicate_succ, List.cons_append], by simp⟩
  have hcws : isWs c = false := by rcases hc with rfl | rfl | rfl <;> decide
  have hr0 := hr
  rw [hct, List.cons_append] at hr
  obtain ⟨r1, hr1, hd⟩ := readGetter_dispatch ws hws c (t ++ rest) hcws r hr fuel (by omega)
  have hp : Peeked r1 (List.replicate p 94 ++ (utf8 (rootOrSteps steps) ++ rest)) := by
    rw [← List.append_assoc, hct]; exact hr1
  obtain ⟨r2, h2, hr2⟩ := readParents_spec p (utf8 (rootOrSteps steps) ++ rest)
    (by rw [hroot]; rcases hc0 with rfl | rfl <;> simp) r1 hp (fuel + 1)
    (by simp only [List.length_append, List.length_replicate] at hf; omega) 0
  obtain ⟨r3, h3, hr3⟩ := rootOrSteps_spec steps hwf rest hrest.stepDelim r2 hr2 (fuel + 1)
    (by simp only [List.length_append, List.length_replicate] at hf; omega)
  refine ⟨r3, ?_, hr3.ready⟩
  rw [hd, getterBody_extract fuel c hc, EM.bind_ok h2, EM.bind_ok h3]
  simp

/-! ### Milestone a: variables and macros -/

theorem getter_var (st : Style) (n : Str) : GetterSpec st (.var n) := by
  intro hwf ws hws rest hrest r hr fuel hf
  obtain ⟨fuel, rfl⟩ : ∃ k, fuel = k + 1 := ⟨fuel - 1, by omega⟩
  obtain ⟨hn1, hn2⟩ : VarOK n := hwf
  have htext : utf8 (render st (.var n)) = 58 :: utf8 n := by rw [render, utf8_cons]; rfl
  rw [htext] at hr hf
  rw [List.cons_append] at hr
  obtain ⟨r1, hr1, hd⟩ := readGetter_dispatch ws hws 58 (utf8 n ++ rest) (by decide) r hr fuel (by omega)
  obtain ⟨r2, h2, hr2⟩ := readUntil_spec varStop (utf8 n) rest hn2
    (fun b hb => (isDelim_props (hrest b hb)).2.1) r1 58 hr1 (fuel + 1)
    (by simp only [List.length_cons] at hf; omega) []
  refine ⟨r2, ?_, hr2.ready⟩
  have hne : (utf8 n).isEmpty = false := by
    have := utf8_ne_nil n hn1
    cases h : utf8 n with
    | nil => exact absurd h this
    | cons _ _ => rfl
  rw [hd]
  show (do
      let nb ← readUntil varStop (fuel + 1) []
      if nb.isEmpty then do
        let l ← emLoc
        EM.fail (.json (.unexpectedEof l))
      else do
        let name ← fromUtf8 nb
        pure (Expr.var name)) r1 = _
  rw [EM.bind_ok h2]
  simp only [List.nil_append, hne, fromUtf8, utf8Decode_utf8]
  rfl

theorem getter_macro (st : Style) (n : Str) : GetterSpec st (.macro n) := by
  intro hwf ws hws rest hrest r hr fuel hf
  obtain ⟨fuel, rfl⟩ : ∃ k, fuel = k + 1 := ⟨fuel - 1, by omega⟩
  obtain ⟨hn1, hn2⟩ : VarOK n := hwf
  have htext : utf8 (render st (.macro n)) = 64 :: utf8 n := by rw [render, utf8_cons]; rfl
  rw [htext] at hr hf
  rw [List.cons_append] at hr
  obtain ⟨r1, hr1, hd⟩ := readGetter_dispatch ws hws 64 (utf8 n ++ rest) (by decide) r hr fuel (by omega)
  obtain ⟨r2, h2, hr2⟩ := readUntil_spec varStop (utf8 n) rest hn2
    (fun b hb => (isDelim_props (hrest b hb)).2.1) r1 64 hr1 (fuel + 1)
    (by simp only [List.length_cons] at hf; omega) []
  refine ⟨r2, ?_, hr2.ready⟩
  have hne : (utf8 n).isEmpty = false := by
    have := utf8_ne_nil n hn1
    cases h : utf8 n with
    | nil => exact absurd h this
    | cons _ _ => rfl
  rw [hd]
  show (do
      let nb ← readUntil varStop (fuel + 1) []
      if nb.isEmpty then do
        let l ← emLoc
        EM.fail (.json (.unexpectedEof l))
      else do
        let name ← fromUtf8 nb
        pure (Expr.macro name)) r1 = _
  rw [EM.bind_ok h2]
  simp only [List.nil_append, hne, fromUtf8, utf8Decode_utf8]
  rfl


/-! ### Milestone a: input-context getters `&name` and selection getters `/name/` -/

theorem getter_ictx (st : Style) (k : ICtxKind) : GetterSpec st (.ictx k) := by
  intro _ ws hws rest hrest r hr fuel hf
  obtain ⟨fuel, rfl⟩ : ∃ k, fuel = k + 1 := ⟨fuel - 1, by omega⟩
  obtain ⟨hk1, hk2⟩ := ictxText_ok k
  have htext : utf8 (render st (.ictx k)) = 38 :: utf8 (ictxText k) := by rw [render, utf8_cons]; rfl
  rw [htext] at hr hf
  rw [List.cons_append] at hr
  obtain ⟨r1, hr1, hd⟩ := readGetter_dispatch ws hws 38 (utf8 (ictxText k) ++ rest) (by decide) r hr fuel
    (by omega)
  obtain ⟨r2, h2, hr2⟩ := readICtxName_spec (utf8 (ictxText k)) rest hk1 hrest r1 38 hr1 (fuel + 1)
    (by simp only [List.length_cons] at hf; omega) []
  refine ⟨r2, ?_, hr2.ready⟩
  rw [hd]
  show (do
      let nb ← readICtxName (fuel + 1) []
      let name ← fromUtf8 nb
      match ictxOfName name with
      | some k => pure (Expr.ictx k)
      | none => EM.fail (.unknownInputContext name)) r1 = _
  rw [EM.bind_ok h2]
  simp only [List.nil_append, fromUtf8, utf8Decode_utf8]
  rw [EM.bind_ok (EM.pure_apply _ _)]
  simp only [hk2]
  rfl

theorem getter_selected (st : Style) (n : Str) : GetterSpec st (.selected n) := by
  intro hwf ws hws rest _ r hr fuel hf
  obtain ⟨fuel, rfl⟩ : ∃ k, fuel = k + 1 := ⟨fuel - 1, by omega⟩
  obtain ⟨hn1, hn2, hn3⟩ : SelOK n := hwf
  have htext : utf8 (render st (.selected n)) = 47 :: (utf8 n ++ [47]) := by
    rw [render, utf8_cons, utf8_append]; rfl
  rw [htext] at hr hf
  rw [List.cons_append, List.append_assoc] at hr
  simp only [List.length_cons, List.length_append, List.length_nil] at hf
  obtain ⟨r1, hr1, hd⟩ := readGetter_dispatch ws hws 47 (utf8 n ++ ([47] ++ rest)) (by decide) r hr fuel
    (by omega)
  obtain ⟨r2, h2, hr2⟩ := readSelName_spec (utf8 n) rest hn3 r1 47 hr1 (fuel + 1) (by omega) []
  obtain ⟨r3, h3, hr3⟩ := next_at hr2
  refine ⟨r3, ?_, hr3.ready⟩
  have hne : (utf8 n).isEmpty = false := by
    have := utf8_ne_nil n hn1
    cases h : utf8 n with
    | nil => exact absurd h this
    | cons _ _ => rfl
  rw [hd]
  show (do
      let nb ← readSelName (fuel + 1) []
      let _ ← liftP next
      if nb.isEmpty then do
        let l ← emLoc
        EM.fail (.json (.unexpectedEof l))
      else do
        let name ← fromUtf8 nb
        pure (Expr.selected (trimStr name))) r1 = _
  rw [EM.bind_ok h2, EM.bind_ok (liftP_ok h3)]
  simp only [List.nil_append, hne, fromUtf8, utf8Decode_utf8, Bool.false_eq_true, if_false]
  rw [EM.bind_ok (EM.pure_apply _ _), hn2]
  rfl

/-! ### Milestone a: constants -/

/-- the first byte of a printed JSON value -/
def JsonHead (c : Byte) : Prop :=
  c = 110 ∨ c = 102 ∨ c = 116 ∨ c = 34 ∨ c = 91 ∨ c = 123 ∨ c = 45 ∨ isDigit c = true

theorem json_head (o : JsonOpts) (v : JV) (hv : Printable o v) :
    ∃ c bs, utf8 (printJson o v) = c :: bs ∧ JsonHead c := by
  unfold printJson
  cases v with
  | null => exact ⟨110, _, rfl, by simp [JsonHead]⟩
  | bool b =>
    cases b with
    | false => exact ⟨102, _, rfl, by simp [JsonHead]⟩
    | true => exact ⟨116, _, rfl, by simp [JsonHead]⟩
  | str s => exact ⟨34, _, by rw [printJsonAt, utf8_printString], by simp [JsonHead]⟩
  | num n =>
    obtain ⟨c, bs, h1, h2⟩ := printNum_head n hv
    refine ⟨c, bs, by rw [printJsonAt]; exact h1, ?_⟩
    rcases h2 with h | h <;> simp [JsonHead, h]
  | arr vs =>
    cases vs with
    | nil => exact ⟨91, _, rfl, by simp [JsonHead]⟩
    | cons v vs => exact ⟨91, _, by rw [printJsonAt]; simp only [List.cons_append, utf8_cons]; rfl, by simp [JsonHead]⟩
  | obj kvs =>
    cases kvs with
    | nil => exact ⟨123, _, rfl, by simp [JsonHead]⟩
    | cons kv kvs => exact ⟨123, _, by rw [printJsonAt]; simp only [List.cons_append, utf8_cons]; rfl, by simp [JsonHead]⟩

theorem JsonHead.props {c : Byte} (h : JsonHead c) :
    isWs c = false ∧ c ≠ 44 ∧ c ≠ 41 ∧ c ≠ 46 ∧ c ≠ 35 ∧ c ≠ 94 ∧ c ≠ 40 ∧ c ≠ 58 ∧ c ≠ 64 ∧ c ≠ 38 ∧ c ≠ 47 := by
  rcases h with rfl | rfl | rfl | rfl | rfl | rfl | rfl | h
  any_goals decide
  have h1 : 48 ≤ c.toNat ∧ c.toNat ≤ 57 := by
    simpa [isDigit, UInt8.le_iff_toNat_le] using h
  refine ⟨?_, ?_, ?_, ?_, ?_, ?_, ?_, ?_, ?_, ?_, ?_⟩
  · simp only [isWs, Bool.or_eq_false_iff, decide_eq_false_iff_not]
    refine ⟨⟨⟨?_, ?_⟩, ?_⟩, ?_⟩ <;> (intro h2; subst h2; simp at h1)
  all_goals (intro h2; subst h2; simp at h1)

theorem getterBody_const (fuel : Nat) (c : Byte) (hc : JsonHead c) :
    getterBody fuel c = (do
      match (← liftP (nextValue (fuel + 1))) with
      | none => EM.fail .unexpectedEof
      | some v => pure (.const v)) := by
  obtain ⟨_, _, _, h1, h2, h3, h4, h5, h6, h7, h8⟩ := hc.props
  simp [getterBody, h1, h2, h3, h4, h5, h6, h7, h8]

theorem getter_const (st : Style) (v : JV) : GetterSpec st (.const v) := by
  intro hwf ws hws rest hrest r hr fuel hf
  obtain ⟨fuel, rfl⟩ : ∃ k, fuel = k + 1 := ⟨fuel - 1, by omega⟩
  obtain ⟨hv, hnorm⟩ : Printable st.o v ∧ norm v = v := hwf
  have htext : utf8 (render st (.const v)) = utf8 (printJson st.o v) := by rw [render]
  obtain ⟨c, t, hct, hc⟩ := json_head st.o v hv
  rw [htext] at hr hf
  have hr0 := hr
  rw [hct, List.cons_append] at hr
  obtain ⟨r1, hr1, hd⟩ := readGetter_dispatch ws hws c (t ++ rest) hc.props.1 r hr fuel (by omega)
  have hr1' : Ready r1 (utf8 (printJson st.o v) ++ rest) := by rw [hct]; exact hr1.ready
  obtain ⟨r2, h2, hr2⟩ := parse_print_ready st.o v hv rest (Delim.of_numDelim hrest.numDelim) r1 hr1'
    (fuel + 1) (by unfold fuelBound; omega)
  refine ⟨r2, ?_, hr2⟩
  rw [hd, getterBody_const fuel c hc, EM.bind_ok (liftP_ok h2), hnorm]
  rfl


/-! ### Milestone b: arguments and calls -/

/-- the loop body of `parseArgs` after white space has been skipped -/
def argsBody (fuel : Nat) (acc : List Expr) : EM (List Expr) := do
  match (← liftP peek) with
  | none => EM.fail .unexpectedEof
  | some c =>
    if c = 44 then do
      let _ ← liftP next
      parseArgs fuel acc
    else if c = 41 then pure acc
    else do
      let a ← readGetter fuel
      parseArgs fuel (acc ++ [a])

/-- white space with fuel `k`, then the loop body with fuel `f` -/
def wsThenBody (k f : Nat) (acc : List Expr) : EM (List Expr) := do
  liftP (eatWhitespace k)
  argsBody f acc

theorem parseArgs_succ (fuel : Nat) (acc : List Expr) :
    parseArgs (fuel + 1) acc = wsThenBody (fuel + 1) fuel acc := by
  rw [parseArgs]; rfl

/-- blanks and commas before an argument (or before the closing parenthesis) are skipped; each
comma costs one unit of fuel -/
theorem wsThenBody_pad (pad : List Byte) (hpad : ∀ b ∈ pad, isWs b = true ∨ b = 44) (tail : List Byte)
    (htail : ∀ b ∈ tail.head?, isWs b = false ∧ b ≠ 44) (acc : List Expr) (r : Reader)
    (hr : Ready r (pad ++ tail)) (k f : Nat) (hk : pad.length < k) (hf : pad.length ≤ f) :
    ∃ f' r', f ≤ f' + pad.length ∧ f' ≤ f ∧ Peeked r' tail ∧
      wsThenBody k f acc r = argsBody f' acc r' := by
  induction pad generalizing r k f with
  | nil =>
    obtain ⟨r', he, hr'⟩ := eatWhitespace_ready [] (by simp) tail (fun b hb => (htail b hb).1) r hr k hk
    refine ⟨f, r', by simp, Nat.le_refl _, hr', ?_⟩
    unfold wsThenBody
    rw [EM.bind_ok (liftP_ok he)]
  | cons b pad ih =>
    obtain ⟨k, rfl⟩ : ∃ k', k = k' + 1 := ⟨k - 1, by simp at hk; omega⟩
    simp only [List.length_cons] at hk hf
    obtain ⟨r1, hp, hr1⟩ := peek_ready hr
    simp only [List.cons_append, List.head?_cons] at hp
    have hr1' : At r1 b (pad ++ tail) := hr1
    obtain ⟨r2, hn, hr2⟩ := next_at hr1'
    by_cases hb : isWs b = true
    · obtain ⟨f', r', h1, h2, h3, h4⟩ := ih (fun x hx => hpad x (by simp [hx])) r2 hr2.ready k f
        (by omega) (by omega)
      refine ⟨f', r', by simp only [List.length_cons]; omega, h2, h3, ?_⟩
      rw [← h4]
      unfold wsThenBody
      rw [eatWhitespace]
      simp only [EM.bind_apply, liftP, PM.bind_apply, hp, hb, if_true, hn]
    · have hb44 : b = 44 := (hpad b (by simp)).resolve_left hb
      subst hb44
      obtain ⟨f, rfl⟩ : ∃ f', f = f' + 1 := ⟨f - 1, by omega⟩
      obtain ⟨f', r', h1, h2, h3, h4⟩ := ih (fun x hx => hpad x (by simp [hx])) r2 hr2.ready (f + 1) f
        (by omega) (by omega)
      refine ⟨f', r', by simp only [List.length_cons]; omega, by omega, h3, ?_⟩
      rw [← h4, ← parseArgs_succ]
      unfold wsThenBody
      rw [EM.bind_ok (liftP_ok (eatWhitespace_of_nonws k r r1 44 hp (by decide)))]
      unfold argsBody
      rw [EM.bind_ok (liftP_ok (peek_at hr1'))]
      simp only [if_true]
      rw [EM.bind_ok (liftP_ok hn)]

theorem isSepChar_byte {c : Char} (h : isSepChar c = true) :
    c.toNat < 128 ∧ (isWs (byteOf c) = true ∨ byteOf c = 44) := by
  simp only [isSepChar, Bool.or_eq_true, decide_eq_true_eq] at h
  rcases h with (((rfl | rfl) | rfl) | rfl) | rfl <;> decide

theorem utf8_sep (s : Str) (h : ∀ c ∈ s, isSepChar c = true) :
    (utf8 s).length = s.length ∧ ∀ b ∈ utf8 s, isWs b = true ∨ b = 44 := by
  rw [utf8_ascii s (fun c hc => (isSepChar_byte (h c hc)).1)]
  refine ⟨by simp, ?_⟩
  intro b hb
  obtain ⟨c, hc, rfl⟩ := List.mem_map.1 hb
  exact (isSepChar_byte (h c hc)).2

theorem sep_isDelim {b : Byte} (h : isWs b = true ∨ b = 44) : isDelim b = true := by
  rcases h with h | h <;> simp [isDelim, h]

/-- the first byte of a rendered getter is no blank, comma or closing parenthesis -/
theorem render_head (st : Style) (e : Expr) (hwf : WFR st.o e) :
    ∃ c t, utf8 (render st e) = c :: t ∧ isWs c = false ∧ c ≠ 44 ∧ c ≠ 41 := by
  cases e with
  | extract p steps =>
    obtain ⟨c0, t0, hroot, hc0⟩ := utf8_rootOrSteps_head steps
    rw [render, utf8_append, utf8_carets, hroot]
    cases p with
    | zero => exact ⟨c0, t0, by simp, by rcases hc0 with rfl | rfl <;> decide⟩
    | succ p => exact ⟨94, _, by rw [List.replicate_succ, List.cons_append], by decide⟩
  | const v =>
    obtain ⟨c, t, hct, hc⟩ := json_head st.o v hwf.1
    exact ⟨c, t, by rw [render]; exact hct, hc.props.1, hc.props.2.1, hc.props.2.2.1⟩
  | var n => exact ⟨58, _, by rw [render, utf8_cons]; rfl, by decide⟩
  | «macro» n => exact ⟨64, _, by rw [render, utf8_cons]; rfl, by decide⟩
  | call fn args => exact ⟨40, _, by rw [render, utf8_cons]; rfl, by decide⟩
  | selected n => exact ⟨47, _, by rw [render, utf8_cons]; rfl, by decide⟩
  | ictx k => exact ⟨38, _, by rw [render, utf8_cons]; rfl, by decide⟩

/-- the first byte of rendered arguments is a delimiter -/
theorem renderArgs_head (st : Style) (hst : StyleOK st) (as : List Expr) :
    ∃ c t, utf8 (renderArgs st as) = c :: t ∧ isDelim c = true := by
  have key : ∀ (s : Str) (x : Str), (∀ c ∈ s, isSepChar c = true) →
      (s ≠ [] ∨ ∃ c t, utf8 x = c :: t ∧ isDelim c = true) →
      ∃ c t, utf8 (s ++ x) = c :: t ∧ isDelim c = true := by
    intro s x hs hx
    cases s with
    | nil => simpa using hx.resolve_left (by simp)
    | cons a s =>
      have := isSepChar_byte (hs a (by simp))
      refine ⟨byteOf a, utf8 (s ++ x), ?_, sep_isDelim this.2⟩
      rw [List.cons_append, utf8_cons, utf8EncodeChar_ascii a this.1]; rfl
  cases as with
  | nil =>
    rw [renderArgs]
    exact key st.close [')'] hst.close_ok (Or.inr ⟨41, [], rfl, by decide⟩)
  | cons a as =>
    rw [renderArgs]
    exact key st.sep _ hst.sep_ok (Or.inl hst.sep_ne)

theorem args_nil (st : Style) (hst : StyleOK st) : ArgsSpec st [] := by
  intro _ acc rest r hr fuel hf
  obtain ⟨fuel, rfl⟩ : ∃ k, fuel = k + 1 := ⟨fuel - 1, by omega⟩
  have hsep := utf8_sep st.close hst.close_ok
  have htext : utf8 (renderArgs st []) = utf8 st.close ++ [41] := by rw [renderArgs, utf8_append]; rfl
  rw [htext] at hr hf
  rw [List.append_assoc] at hr
  simp only [List.length_append, List.length_cons, List.length_nil] at hf
  obtain ⟨f', r', _, _, hr', h⟩ := wsThenBody_pad (utf8 st.close) hsep.2 ([41] ++ rest)
    (by intro b hb; simp at hb; subst hb; decide) acc r hr (fuel + 1) fuel (by omega) (by omega)
  have hr'' : At r' 41 rest := hr'
  refine ⟨r', ?_, hr''⟩
  rw [parseArgs_succ, h]
  unfold argsBody
  rw [EM.bind_ok (liftP_ok (peek_at hr''))]
  simp

theorem args_cons (st : Style) (hst : StyleOK st) (a : Expr) (as : List Expr)
    (ha : GetterSpec st a) (has : ArgsSpec st as) : ArgsSpec st (a :: as) := by
  intro hwf acc rest r hr fuel hf
  obtain ⟨hwa, hwas⟩ : WFR st.o a ∧ WFRList st.o as := hwf
  obtain ⟨fuel, rfl⟩ : ∃ k, fuel = k + 1 := ⟨fuel - 1, by omega⟩
  have hsep := utf8_sep st.sep hst.sep_ok
  have hsep1 : 1 ≤ st.sep.length := by
    cases h : st.sep with
    | nil => exact absurd h hst.sep_ne
    | cons _ _ => simp
  have htext : utf8 (renderArgs st (a :: as)) =
      utf8 st.sep ++ (utf8 (render st a) ++ utf8 (renderArgs st as)) := by
    rw [renderArgs, utf8_append, utf8_append]
  rw [htext] at hr hf
  simp only [List.length_append] at hf
  rw [List.append_assoc, List.append_assoc] at hr
  obtain ⟨c, t, hct, hc1, hc2, hc3⟩ := render_head st a hwa
  obtain ⟨f', r1, hf1, hf2, hr1, h1⟩ := wsThenBody_pad (utf8 st.sep) hsep.2
    (utf8 (render st a) ++ (utf8 (renderArgs st as) ++ rest))
    (by rw [hct]; intro b hb; simp at hb; subst hb; exact ⟨hc1, hc2⟩) acc r hr (fuel + 1) fuel
    (by omega) (by omega)
  obtain ⟨d, u, hdu, hd⟩ := renderArgs_head st hst as
  obtain ⟨r2, h2, hr2⟩ := ha hwa [] (by simp) (utf8 (renderArgs st as) ++ rest)
    (by rw [hdu]; intro b hb; simp at hb; subst hb; exact hd) r1 (by simpa using hr1.ready) f'
    (by simp only [List.length_nil]; omega)
  obtain ⟨r3, h3, hr3⟩ := has hwas (acc ++ [a]) rest r2 hr2 f' (by omega)
  refine ⟨r3, ?_, hr3⟩
  rw [parseArgs_succ, h1]
  have hpk : At r1 c (t ++ (utf8 (renderArgs st as) ++ rest)) := by
    have := hr1; rw [hct] at this; exact this
  unfold argsBody
  rw [EM.bind_ok (liftP_ok (peek_at hpk))]
  simp only [hc2, hc3, if_false]
  rw [EM.bind_ok h2, h3]
  simp


/-- a name that can be written after `(`: not empty, no leading dot, no byte that ends a name -/
def nameOK (n : String) : Bool :=
  n.toList ≠ [] && n.toList.head? != some '.' && (utf8 n.toList).all (fun b => !fnNameStop b)

/-- every name and every alias of the regenerated table can be written after `(` -/
theorem names_bytes_ok :
    ∀ e ∈ Generated.functionTable, nameOK e.1 = true ∧ ∀ a ∈ e.2.1, nameOK a = true := by
  decide +kernel

theorem nameOK_props {n : String} (h : nameOK n = true) :
    n.toList.head? ≠ some '.' ∧ ∀ b ∈ utf8 n.toList, fnNameStop b = false := by
  simp only [nameOK, Bool.and_eq_true, bne_iff_ne, ne_eq, List.all_eq_true, Bool.not_eq_true',
    decide_eq_true_eq] at h
  exact ⟨h.1.2, h.2⟩

/-- under a good naming, the chosen name can be written and resolves to the same function -/
theorem goodNaming_resolves {nm : String → String} (hnm : GoodNaming nm)
    (e : String × List String × Nat × Option Nat) (he : e ∈ Generated.functionTable) :
    nameOK (nm e.1) = true ∧
    findFunction (nm e.1) = some { name := e.1, min := e.2.2.1, max := e.2.2.2 } := by
  rcases hnm e he with h | h
  · rw [h]; exact ⟨(names_bytes_ok e he).1, canonical_resolves e he⟩
  · exact ⟨(names_bytes_ok e he).2 _ h, by rw [alias_same_sig e he _ h]; exact canonical_resolves e he⟩

theorem getter_call (st : Style) (hst : StyleOK st) (fn : String) (args : List Expr)
    (hargs : ArgsSpec st args) : GetterSpec st (.call fn args) := by
  intro hwf ws hws rest hrest r hr fuel hf
  obtain ⟨⟨e, he, hfn, hmin, hmax⟩, hwas⟩ : ArityOK fn args.length ∧ WFRList st.o args := hwf
  subst hfn
  obtain ⟨hok, hfind⟩ := goodNaming_resolves hst.nm_ok e he
  obtain ⟨hnodot, hbytes⟩ := nameOK_props hok
  obtain ⟨fuel, rfl⟩ : ∃ k, fuel = k + 2 := ⟨fuel - 2, by omega⟩
  have htext : utf8 (render st (.call e.1 args)) =
      40 :: (utf8 (st.nm e.1).toList ++ utf8 (renderArgs st args)) := by
    rw [render, utf8_cons, utf8_append]; rfl
  rw [htext] at hr hf
  simp only [List.length_cons, List.length_append] at hf
  rw [List.cons_append, List.append_assoc] at hr
  obtain ⟨r1, hr1, hd⟩ := readGetter_dispatch ws hws 40 _ (by decide) r hr (fuel + 1) (by omega)
  obtain ⟨d, u, hdu, hdd⟩ := renderArgs_head st hst args
  obtain ⟨r2, h2, hr2⟩ := readUntil_spec fnNameStop (utf8 (st.nm e.1).toList)
    (utf8 (renderArgs st args) ++ rest) hbytes
    (by rw [hdu]; intro b hb; simp at hb; subst hb; exact (isDelim_props hdd).2.2.1) r1 40 hr1
    (fuel + 1) (by omega) []
  obtain ⟨r3, h3, hr3⟩ := hargs hwas [] rest r2 hr2.ready fuel (by omega)
  obtain ⟨r4, h4, hr4⟩ := next_at hr3
  refine ⟨r4, ?_, hr4.ready⟩
  rw [hd]
  show parseFunction (fuel + 1) r1 = _
  rw [parseFunction_eq,
    EM.bind_ok (liftP_ok (eatWhitespace_of_nonws fuel r1 r1 40 (peek_at hr1) (by decide))),
    EM.bind_ok h2]
  simp only [List.nil_append, fromUtf8, utf8Decode_utf8]
  rw [EM.bind_ok (EM.pure_apply _ _)]
  have hsd := splitDot_of_no_dot _ hnodot
  refine (arity_rejected (st.nm e.1).toList fuel _ r2 r3 r4 args _
    (by rw [hsd]; simp only [String.ofList_toList]; exact hfind)
    (by rw [hsd]; simpa using h3) h4).2.2 hmin hmax

/-- **C13, spelling (`parse_render`, generic form).**  For every style made of non-empty
blank/comma separators and names/aliases of the table, `readGetter` reads the rendered text of a
renderable AST back to that AST and stops before `rest`. -/
theorem spec_all (st : Style) (hst : StyleOK st) :
    (∀ e : Expr, GetterSpec st e) ∧ (∀ as : List Expr, ArgsSpec st as) := by
  have key : ∀ e : Expr, GetterSpec st e := by
    intro e
    induction e using Expr.rec (motive_2 := fun as => ArgsSpec st as) with
    | extract p steps => exact getter_extract st p steps
    | const v => exact getter_const st v
    | call fn args ih => exact getter_call st hst fn args ih
    | var n => exact getter_var st n
    | «macro» n => exact getter_macro st n
    | selected n => exact getter_selected st n
    | ictx k => exact getter_ictx st k
    | nil => exact args_nil st hst
    | cons a as iha ihas => exact args_cons st hst a as iha ihas
  refine ⟨key, ?_⟩
  intro as
  induction as with
  | nil => exact args_nil st hst
  | cons a as ih => exact args_cons st hst a as (key a) ih


/-- **C13, spelling: `parse_render`.**  Reader form: after any white space `ws`, on the text of `e`
in style `st` followed by `rest` (a delimiter — blank, `,`, `)` — or the end), with fuel twice the
length of the text plus four, `readGetter` returns exactly `e` and leaves the reader before `rest`. -/
theorem parse_render (st : Style) (hst : StyleOK st) (e : Expr) (he : WFR st.o e)
    (ws : List Byte) (hws : ∀ b ∈ ws, isWs b = true) (rest : List Byte) (hrest : DelimRest rest)
    (r : Reader) (hr : Ready r (ws ++ (utf8 (render st e) ++ rest)))
    (fuel : Nat) (hf : 2 * (ws.length + (utf8 (render st e)).length) + 4 ≤ fuel) :
    ∃ r', readGetter fuel r = (.ok e, r') ∧ Ready r' rest :=
  (spec_all st hst).1 e he ws hws rest hrest r hr fuel hf

theorem utf8_wsChars (s : Str) (h : ∀ c ∈ s, isWsChar c = true) :
    (utf8 s).length = s.length ∧ ∀ b ∈ utf8 s, isWs b = true := by
  have hc : ∀ c ∈ s, c.toNat < 128 ∧ isWs (byteOf c) = true := by
    intro c hc
    have := h c hc
    simp only [isWsChar, Bool.or_eq_true, decide_eq_true_eq] at this
    rcases this with ((rfl | rfl) | rfl) | rfl <;> decide
  rw [utf8_ascii s (fun c h' => (hc c h').1)]
  refine ⟨by simp, ?_⟩
  intro b hb
  obtain ⟨c, hc', rfl⟩ := List.mem_map.1 hb
  exact (hc c hc').2

/-- **`parse_render` for whole option texts.**  `Filter/Splitter/Grouper::from_str` on the rendered
text, with any white space around it, gives the AST back. -/
theorem parseWholeExpr_render (st : Style) (hst : StyleOK st) (e : Expr) (he : WFR st.o e)
    (lead trail : Str) (hlead : ∀ c ∈ lead, isWsChar c = true) (htrail : ∀ c ∈ trail, isWsChar c = true) :
    parseWholeExpr (lead ++ (render st e ++ trail)) = .ok e := by
  obtain ⟨hl1, hl2⟩ := utf8_wsChars lead hlead
  obtain ⟨ht1, ht2⟩ := utf8_wsChars trail htrail
  obtain ⟨c, t, hct, hc1, _, _⟩ := render_head st e he
  have hbytes : utf8 (lead ++ (render st e ++ trail)) = utf8 lead ++ (utf8 (render st e) ++ utf8 trail) := by
    rw [utf8_append, utf8_append]
  have hr0 : Ready (Reader.ofString (lead ++ (render st e ++ trail)))
      (utf8 lead ++ (utf8 (render st e) ++ utf8 trail)) := by
    rw [← hbytes]; exact ready_ofBytes _ _
  have hlen : (utf8 (lead ++ (render st e ++ trail))).length =
      (utf8 lead).length + ((utf8 (render st e)).length + (utf8 trail).length) := by
    rw [hbytes]; simp
  obtain ⟨r1, h1, hr1⟩ := eatWhitespace_ready (utf8 lead) hl2 (utf8 (render st e) ++ utf8 trail)
    (by rw [hct]; intro b hb; simp at hb; subst hb; exact hc1) _ hr0
    (exprFuel (lead ++ (render st e ++ trail))) (by unfold exprFuel; omega)
  obtain ⟨r2, h2, hr2⟩ := parse_render st hst e he [] (by simp) (utf8 trail)
    (by
      intro b hb
      have : b ∈ utf8 trail := List.mem_of_mem_head? hb
      simp [isDelim, ht2 b this]) r1 (by simpa using hr1.ready)
    (exprFuel (lead ++ (render st e ++ trail))) (by unfold exprFuel; simp only [List.length_nil]; omega)
  obtain ⟨r3, h3, hr3⟩ := eatWhitespace_ready (utf8 trail) ht2 [] (by simp) r2 (by simpa using hr2)
    (exprFuel (lead ++ (render st e ++ trail))) (by unfold exprFuel; omega)
  unfold parseWholeExpr
  simp only
  rw [EM.bind_ok (liftP_ok h1), EM.bind_ok h2, EM.bind_ok (liftP_ok h3),
    EM.bind_ok (liftP_ok (peek_peeked hr3))]
  rfl

/-- **C13: the style does not matter.**  Two spellings of the same AST — different separators
(blanks, commas, both, line feeds, …), different padding before `)`, different aliases, different
JSON styles for the constants, different white space around — parse to the same thing. -/
theorem style_independent (st₁ st₂ : Style) (h₁ : StyleOK st₁) (h₂ : StyleOK st₂) (e : Expr)
    (he₁ : WFR st₁.o e) (he₂ : WFR st₂.o e) (lead₁ trail₁ lead₂ trail₂ : Str)
    (hl₁ : ∀ c ∈ lead₁, isWsChar c = true) (ht₁ : ∀ c ∈ trail₁, isWsChar c = true)
    (hl₂ : ∀ c ∈ lead₂, isWsChar c = true) (ht₂ : ∀ c ∈ trail₂, isWsChar c = true) :
    parseWholeExpr (lead₁ ++ (render st₁ e ++ trail₁)) = parseWholeExpr (lead₂ ++ (render st₂ e ++ trail₂)) := by
  rw [parseWholeExpr_render st₁ h₁ e he₁ _ _ hl₁ ht₁, parseWholeExpr_render st₂ h₂ e he₂ _ _ hl₂ ht₂]

/-! ### The four separator styles of the task -/

/-- `(f a b)`, `(f,a,b)`, `(f, a, b)`, `(f , a , b )` -/
inductive SepStyle where
  | space | comma | commaSpace | padded
  deriving DecidableEq, Repr

def SepStyle.style : SepStyle → Style
  | .space => { sep := [' '] }
  | .comma => { sep := [','] }
  | .commaSpace => { sep := [',', ' '] }
  | .padded => { sep := [' ', ',', ' '], close := [' '] }

theorem goodNaming_id : GoodNaming id := fun _ _ => Or.inl rfl

theorem SepStyle.style_ok (sp : SepStyle) : StyleOK sp.style := by
  cases sp <;> exact ⟨by decide, by decide, by decide, goodNaming_id⟩

theorem SepStyle.style_o (sp : SepStyle) : sp.style.o = {} := by cases sp <;> rfl

/-- the ASTs covered (constants printed with the default JSON options) -/
def WellFormedR (e : Expr) : Prop := WFR {} e

/-- the text of `e` with the separator style `sp` -/
def renderSp (sp : SepStyle) (e : Expr) : Str := render sp.style e

/-- `parse_render` for the four separator styles (all four are covered) -/
theorem parse_render_sp (sp : SepStyle) (e : Expr) (he : WellFormedR e) :
    parseWholeExpr (renderSp sp e) = .ok e := by
  have := parseWholeExpr_render sp.style sp.style_ok e (by rw [sp.style_o]; exact he) [] []
    (by simp) (by simp)
  simpa [renderSp] using this

/-- **COROLLARY `separator_independent`.** -/
theorem separator_independent (e : Expr) (he : WellFormedR e) (sp₁ sp₂ : SepStyle) :
    parseWholeExpr (renderSp sp₁ e) = parseWholeExpr (renderSp sp₂ e) := by
  rw [parse_render_sp sp₁ e he, parse_render_sp sp₂ e he]

/-- the renderable ASTs are well-formed in the sense of item 1 -/
theorem WFR.wellFormed (o : JsonOpts) : ∀ e : Expr, WFR o e → WellFormed e := by
  intro e
  induction e using Expr.rec (motive_2 := fun as => WFRList o as → ∀ a ∈ as, WellFormed a) with
  | call fn args ih =>
    intro h
    exact (wellFormed_call fn args).2 ⟨h.1, ih h.2⟩
  | nil => rename_i ha; cases ha
  | cons a as iha ihas =>
    rename_i h x hx
    rcases List.mem_cons.1 hx with rfl | hx
    · exact iha h.1
    · exact ihas h.2 x hx
  | _ => intro _; rfl


/-! ### Non-vacuity for item 3 -/

/-- `(? (and true :x) (take ^.a#3 2) "hi" [1, {"k": null}])` -/
def exE : Expr :=
  .call "?" [.call "and" [.const (.bool true), .var "x".toList],
    .call "take" [.extract 1 [.key "a".toList, .idx 3], .const (.num (.pos 2))],
    .const (.arr [.str "hi".toList, .obj [("k".toList, .null)]])]

theorem strOK_ascii (o : JsonOpts) (s : Str) (h : ∀ c ∈ s, c.toNat ≤ 0xFFFF) : StrOK o s :=
  fun c hc => Or.inl (h c hc)

theorem exE_wfr (o : JsonOpts) : WFR o exE := by
  simp only [exE, WFR, WFRList, Printable, PrintableList, PrintableMembers, NumPrintable, and_true,
    true_and]
  refine ⟨(arityOK_iff _ _).1 (by decide +kernel), ⟨(arityOK_iff _ _).1 (by decide +kernel), ?_, ?_⟩,
    ⟨(arityOK_iff _ _).1 (by decide +kernel), ?_, ?_, ?_⟩, ⟨?_, ?_, ?_⟩, ?_⟩
  · rw [norm]
  · decide
  · decide
  · decide
  · rw [norm]; rfl
  · exact strOK_ascii o _ (by decide)
  · exact strOK_ascii o _ (by decide)
  · decide
  · simp [norm, normList, normMembers]

example : WellFormedR exE := exE_wfr {}

example : renderSp .space exE = "(? (and true :x) (take ^.a#3 2) [\"hi\", {\"k\": null}])".toList := by
  decide +kernel
example : renderSp .comma exE = "(?,(and,true,:x),(take,^.a#3,2),[\"hi\", {\"k\": null}])".toList := by
  decide +kernel
example : renderSp .padded exE =
    "(? , (and , true , :x ) , (take , ^.a#3 , 2 ) , [\"hi\", {\"k\": null}] )".toList := by
  decide +kernel
example : parseWholeExpr (renderSp .commaSpace exE) = .ok exE := parse_render_sp _ _ (exE_wfr {})

/-- input-context, selection and macro getters: `(| &index-in-file /my sel/ @m)` -/
def exE2 : Expr := .call "|" [.ictx .indexInFile, .selected "my sel".toList, .macro "m".toList]
theorem exE2_wfr (o : JsonOpts) : WFR o exE2 := by
  simp only [exE2, WFR, WFRList, and_true, true_and]
  exact ⟨(arityOK_iff _ _).1 (by decide +kernel), by decide, by decide⟩
example : renderSp .commaSpace exE2 = "(|, &index-in-file, /my sel/, @m)".toList := by decide +kernel
example : parseWholeExpr "(|, &index-in-file, /my sel/, @m)".toList = .ok exE2 :=
  parse_render_sp .commaSpace exE2 (exE2_wfr {})

/-- a style with line feeds and tabs, aliases and consise JSON -/
def exStyle : Style :=
  { o := { style := .consise }, sep := ['\n', '\t'], close := ['\r', ','],
    nm := fun n => if n = "take" then "take_first" else if n = "?" then "if" else if n = "and" then "&&" else n }

theorem exStyle_ok : StyleOK exStyle :=
  ⟨by decide, by decide, by decide, by unfold GoodNaming; decide +kernel⟩

example : render exStyle exE =
    "(if\n\t(&&\n\ttrue\n\t:x\r,)\n\t(take_first\n\t^.a#3\n\t2\r,)\n\t[\"hi\",{\"k\":null}]\r,)".toList := by
  decide +kernel

example : parseWholeExpr (" ".toList ++ (render exStyle exE ++ "\n".toList)) = parseWholeExpr (renderSp .space exE) := by
  have := style_independent exStyle SepStyle.space.style exStyle_ok (SepStyle.style_ok _) exE (exE_wfr _)
    (exE_wfr _) " ".toList "\n".toList [] [] (by decide) (by decide) (by simp) (by simp)
  simpa [renderSp] using this

/-- the three spellings of the task statement -/
example : parseWholeExpr "(take . 2)".toList = .ok take2 ∧ parseWholeExpr "(take ., 2)".toList = .ok take2 ∧
    parseWholeExpr "(.take 2)".toList = .ok take2 :=
  ⟨isOk_eq (by decide +kernel), isOk_eq (by decide +kernel), isOk_eq (by decide +kernel)⟩

/-- the hypotheses matter: a key with a dot in it is read back as two keys; a blank directly after
`(` is not skipped (the name is empty) -/
example : ¬ KeyOK "a.b".toList := by decide
example : isOk (parseWholeExpr (render {} (.extract 0 [.key "a.b".toList]))) (.extract 0 [.key "a".toList, .key "b".toList]) = true := by
  decide +kernel
example : isRejected (parseWholeExpr "( take . 2)".toList) 0 "" = true := by decide +kernel

/-! ## 4. (C13) dot sugar: `(.f args)` is `(f . args)` -/

/-- the root extractor `.` -/
def root : Expr := .extract 0 []

theorem root_wfr (o : JsonOpts) : WFR o root := by
  intro s hs; cases hs

theorem render_root (st : Style) : utf8 (render st root) = [46] := rfl

/-- a lone dot followed by a delimiter is the root extractor -/
theorem readGetter_root (A : List Byte) (hA : DelimRest A) (r : Reader) (hr : Ready r (46 :: A))
    (fuel : Nat) (hf : 6 ≤ fuel) : ∃ r', readGetter fuel r = (.ok root, r') ∧ Ready r' A :=
  parse_render {} ⟨by decide, by decide, by decide, goodNaming_id⟩ root (root_wfr _) [] (by simp) A hA r
    (by simpa [render_root] using hr) fuel (by simp [render_root]; omega)

/-- after the name: `␣. A` with no argument yet is `A` with the argument `.` (one unit of fuel less) -/
theorem finishCall_dot (sig : FnSig) (A : List Byte) (hA : DelimRest A) (r : Reader)
    (hr : Ready r (32 :: 46 :: A)) (F : Nat) (hF : 6 ≤ F) :
    ∃ r', Ready r' A ∧ finishCall sig (F + 1) [] r = finishCall sig F [root] r' := by
  obtain ⟨r1, h1, hr1⟩ := eatWhitespace_ready [32] (by decide) (46 :: A)
    (by intro b hb; simp at hb; subst hb; decide) r hr (F + 1) (by simp; omega)
  have hr1' : At r1 46 A := hr1
  obtain ⟨r2, h2, hr2⟩ := readGetter_root A hA r1 hr1'.ready F hF
  refine ⟨r2, hr2, ?_⟩
  have hargs : parseArgs (F + 1) [] r = parseArgs F [root] r2 := by
    rw [parseArgs_succ]
    unfold wsThenBody
    rw [EM.bind_ok (liftP_ok h1)]
    unfold argsBody
    rw [EM.bind_ok (liftP_ok (peek_at hr1'))]
    simp only [show ¬ ((46 : Byte) = 44) by decide, show ¬ ((46 : Byte) = 41) by decide, if_false]
    rw [EM.bind_ok h2]
    rfl
  unfold finishCall
  simp only [EM.bind_apply, hargs]

/-- `(.name A`: the dot is stripped from the name and `.` becomes the first argument -/
theorem dot_call_left (name : Str) (hname : ∀ b ∈ utf8 name, fnNameStop b = false)
    (sig : FnSig) (hsig : findFunction (String.ofList name) = some sig)
    (A : List Byte) (hA : ∀ b ∈ A.head?, fnNameStop b = true) (r : Reader)
    (h : At r 40 (46 :: (utf8 name ++ A))) (F : Nat) (hF : (utf8 name).length + 1 ≤ F) :
    ∃ r', Peeked r' A ∧ parseFunction (F + 1) r = finishCall sig F [root] r' := by
  obtain ⟨ra, ha, hra⟩ := readUntil_spec fnNameStop (46 :: utf8 name) A
    (by intro b hb; rcases List.mem_cons.1 hb with rfl | hb
        · decide
        · exact hname b hb)
    hA r 40 h (F + 1) (by simp; omega) []
  refine ⟨ra, hra, ?_⟩
  rw [parseFunction_eq,
    EM.bind_ok (liftP_ok (eatWhitespace_of_nonws F r r 40 (peek_at h) (by decide))),
    EM.bind_ok ha]
  have : utf8Decode? (46 :: utf8 name) = some ('.' :: name) := by
    rw [← utf8_dot_cons]; exact utf8Decode_utf8 _
  simp only [List.nil_append, fromUtf8, this]
  rw [EM.bind_ok (EM.pure_apply _ _)]
  unfold resolveCall
  rw [splitDot_dot]
  simp only [hsig]
  rfl

/-- **C13 (4) `dot_sugar`.**  Let `name` be a function name (written without stop bytes, not
starting with a dot) that the table knows, and `A` any argument text starting with a delimiter
(blank, comma, `)`) or empty.  On `(.name A` and on `(name . A` the parser does the same thing:
it continues with `finishCall sig _ [.]` — parse the remaining arguments `A` after the first
argument `.` — on a reader that stands before `A` (only the fuel left differs by one). -/
theorem dot_sugar (name : Str) (hname : ∀ b ∈ utf8 name, fnNameStop b = false)
    (hnd : name.head? ≠ some '.') (sig : FnSig) (hsig : findFunction (String.ofList name) = some sig)
    (A : List Byte) (hA : DelimRest A) (r₁ r₂ : Reader)
    (h₁ : At r₁ 40 (46 :: (utf8 name ++ A))) (h₂ : At r₂ 40 (utf8 name ++ 32 :: 46 :: A))
    (F : Nat) (hF : (utf8 name).length + 6 ≤ F) :
    ∃ r₁' r₂', Ready r₁' A ∧ Ready r₂' A ∧
      parseFunction (F + 2) r₁ = finishCall sig (F + 1) [root] r₁' ∧
      parseFunction (F + 2) r₂ = finishCall sig F [root] r₂' := by
  -- `(.name A`
  obtain ⟨ra, ha, hra⟩ := readUntil_spec fnNameStop (46 :: utf8 name) A
    (by intro b hb; rcases List.mem_cons.1 hb with rfl | hb
        · decide
        · exact hname b hb)
    (fun b hb => (isDelim_props (hA b hb)).2.2.1) r₁ 40 h₁ (F + 2) (by simp; omega) []
  -- `(name . A`
  obtain ⟨rb, hb, hrb⟩ := readUntil_spec fnNameStop (utf8 name) (32 :: 46 :: A) hname
    (by intro b hb; simp at hb; subst hb; decide) r₂ 40 h₂ (F + 2) (by omega) []
  obtain ⟨rc, hrc, hc⟩ := finishCall_dot sig A hA rb hrb.ready F (by omega)
  refine ⟨ra, rc, hra.ready, hrc, ?_, ?_⟩
  · rw [parseFunction_eq,
      EM.bind_ok (liftP_ok (eatWhitespace_of_nonws (F + 1) r₁ r₁ 40 (peek_at h₁) (by decide))),
      EM.bind_ok ha]
    have : utf8Decode? (46 :: utf8 name) = some ('.' :: name) := by
      rw [← utf8_dot_cons]; exact utf8Decode_utf8 _
    simp only [List.nil_append, fromUtf8, this]
    rw [EM.bind_ok (EM.pure_apply _ _)]
    unfold resolveCall
    rw [splitDot_dot]
    simp only [hsig]
    rfl
  · rw [parseFunction_eq,
      EM.bind_ok (liftP_ok (eatWhitespace_of_nonws (F + 1) r₂ r₂ 40 (peek_at h₂) (by decide))),
      EM.bind_ok hb]
    simp only [List.nil_append, fromUtf8, utf8Decode_utf8]
    rw [EM.bind_ok (EM.pure_apply _ _)]
    unfold resolveCall
    rw [splitDot_of_no_dot _ hnd]
    simp only [hsig]
    exact hc

/-- … and an unknown name is rejected the same way in both spellings -/
theorem dot_sugar_unknown (name : Str) (hname : ∀ b ∈ utf8 name, fnNameStop b = false)
    (hnd : name.head? ≠ some '.') (hsig : findFunction (String.ofList name) = none)
    (A : List Byte) (hA : DelimRest A) (r₁ r₂ : Reader)
    (h₁ : At r₁ 40 (46 :: (utf8 name ++ A))) (h₂ : At r₂ 40 (utf8 name ++ 32 :: 46 :: A))
    (F : Nat) (hF : (utf8 name).length + 2 ≤ F) :
    (parseFunction (F + 1) r₁).1 = .error (.unknownFunction name) ∧
    (parseFunction (F + 1) r₂).1 = .error (.unknownFunction name) := by
  obtain ⟨ra, ha, hra⟩ := readUntil_spec fnNameStop (46 :: utf8 name) A
    (by intro b hb; rcases List.mem_cons.1 hb with rfl | hb
        · decide
        · exact hname b hb)
    (fun b hb => (isDelim_props (hA b hb)).2.2.1) r₁ 40 h₁ (F + 1) (by simp; omega) []
  obtain ⟨rb, hb, hrb⟩ := readUntil_spec fnNameStop (utf8 name) (32 :: 46 :: A) hname
    (by intro b hb; simp at hb; subst hb; decide) r₂ 40 h₂ (F + 1) (by omega) []
  have hdec : utf8Decode? (46 :: utf8 name) = some ('.' :: name) := by
    rw [← utf8_dot_cons]; exact utf8Decode_utf8 _
  constructor
  · rw [parseFunction_unknown_rejected F r₁ r₁ ra _ ('.' :: name)
      (eatWhitespace_of_nonws F r₁ r₁ 40 (peek_at h₁) (by decide)) (by simpa using ha) hdec
      (by rw [splitDot_dot]; exact hsig)]
    rfl
  · rw [parseFunction_unknown_rejected F r₂ r₂ rb _ name
      (eatWhitespace_of_nonws F r₂ r₂ 40 (peek_at h₂) (by decide)) (by simpa using hb)
      (utf8Decode_utf8 _) (by rw [splitDot_of_no_dot _ hnd]; exact hsig)]
    rw [splitDot_of_no_dot _ hnd]


/-- the end of `parse_function`: closing parenthesis and arity checks -/
theorem finishCall_ok_of (sig : FnSig) (F : Nat) (pre args : List Expr) (r r1 r2 : Reader) (b : Option Byte)
    (hargs : parseArgs F pre r = (.ok args, r1)) (hnext : next r1 = (.ok b, r2))
    (h1 : sig.min ≤ args.length) (h2 : ∀ m, sig.max = some m → args.length ≤ m) :
    finishCall sig F pre r = (.ok (.call sig.name args), r2) := by
  unfold finishCall
  simp only [EM.bind_apply, hargs, liftP, hnext]
  have : ¬ args.length < sig.min := by omega
  simp only [this, if_false]
  cases hm : sig.max with
  | none => rfl
  | some m =>
    have : ¬ args.length > m := by have := h2 m hm; omega
    simp only [this, decide_false]; rfl

/-- the text `(.name args…)` -/
def renderDot (st : Style) (fn : String) (as : List Expr) : Str :=
  '(' :: '.' :: ((st.nm fn).toList ++ renderArgs st as)

/-- `(.f args…)` is read as the call of `f` with the arguments `.`, `args…` -/
theorem getter_dot_call (st : Style) (hst : StyleOK st) (fn : String) (as : List Expr)
    (hwf : WFR st.o (.call fn (root :: as))) (ws : List Byte) (hws : ∀ b ∈ ws, isWs b = true)
    (rest : List Byte) (r : Reader) (hr : Ready r (ws ++ (utf8 (renderDot st fn as) ++ rest)))
    (fuel : Nat) (hf : 2 * (ws.length + (utf8 (renderDot st fn as)).length) + 4 ≤ fuel) :
    ∃ r', readGetter fuel r = (.ok (.call fn (root :: as)), r') ∧ Ready r' rest := by
  obtain ⟨⟨e, he, hfn, hmin, hmax⟩, _, hwas⟩ :
    ArityOK fn (root :: as).length ∧ WFR st.o root ∧ WFRList st.o as := hwf
  subst hfn
  obtain ⟨hok, hfind⟩ := goodNaming_resolves hst.nm_ok e he
  obtain ⟨hnodot, hbytes⟩ := nameOK_props hok
  obtain ⟨fuel, rfl⟩ : ∃ k, fuel = k + 2 := ⟨fuel - 2, by omega⟩
  have htext : utf8 (renderDot st e.1 as) =
      40 :: 46 :: (utf8 (st.nm e.1).toList ++ utf8 (renderArgs st as)) := by
    rw [renderDot, utf8_cons, utf8_cons, utf8_append]; rfl
  rw [htext] at hr hf
  simp only [List.length_cons, List.length_append] at hf
  rw [List.cons_append, List.cons_append, List.append_assoc] at hr
  obtain ⟨r1, hr1, hd⟩ := readGetter_dispatch ws hws 40 _ (by decide) r hr (fuel + 1) (by omega)
  obtain ⟨d, u, hdu, hdd⟩ := renderArgs_head st hst as
  obtain ⟨r2, hr2, h2⟩ := dot_call_left (st.nm e.1).toList hbytes _
    (by simp only [String.ofList_toList]; exact hfind) (utf8 (renderArgs st as) ++ rest)
    (by rw [hdu]; intro b hb; simp at hb; subst hb; exact (isDelim_props hdd).2.2.1) r1 hr1 fuel (by omega)
  obtain ⟨r3, h3, hr3⟩ := (spec_all st hst).2 as hwas [root] rest r2 hr2.ready fuel (by omega)
  obtain ⟨r4, h4, hr4⟩ := next_at hr3
  refine ⟨r4, ?_, hr4.ready⟩
  rw [hd]
  show parseFunction (fuel + 1) r1 = _
  rw [h2]
  exact finishCall_ok_of _ fuel [root] _ r2 r3 r4 _ (by simpa using h3) h4 hmin hmax

/-- a getter text with white space around it is what `parseWholeExpr` accepts -/
theorem parseWholeExpr_of_getter (text : Str) (e : Expr)
    (hhead : ∃ c t, utf8 text = c :: t ∧ isWs c = false)
    (h : ∀ (rest : List Byte), DelimRest rest → ∀ (r : Reader), Ready r ([] ++ (utf8 text ++ rest)) →
      ∀ fuel, 2 * (([] : List Byte).length + (utf8 text).length) + 4 ≤ fuel →
      ∃ r', readGetter fuel r = (.ok e, r') ∧ Ready r' rest)
    (lead trail : Str) (hlead : ∀ c ∈ lead, isWsChar c = true) (htrail : ∀ c ∈ trail, isWsChar c = true) :
    parseWholeExpr (lead ++ (text ++ trail)) = .ok e := by
  obtain ⟨hl1, hl2⟩ := utf8_wsChars lead hlead
  obtain ⟨ht1, ht2⟩ := utf8_wsChars trail htrail
  obtain ⟨c, t, hct, hc1⟩ := hhead
  have hbytes : utf8 (lead ++ (text ++ trail)) = utf8 lead ++ (utf8 text ++ utf8 trail) := by
    rw [utf8_append, utf8_append]
  have hr0 : Ready (Reader.ofString (lead ++ (text ++ trail)))
      (utf8 lead ++ (utf8 text ++ utf8 trail)) := by
    rw [← hbytes]; exact ready_ofBytes _ _
  have hlen : (utf8 (lead ++ (text ++ trail))).length =
      (utf8 lead).length + ((utf8 text).length + (utf8 trail).length) := by
    rw [hbytes]; simp
  obtain ⟨r1, h1, hr1⟩ := eatWhitespace_ready (utf8 lead) hl2 (utf8 text ++ utf8 trail)
    (by rw [hct]; intro b hb; simp at hb; subst hb; exact hc1) _ hr0
    (exprFuel (lead ++ (text ++ trail))) (by unfold exprFuel; omega)
  obtain ⟨r2, h2, hr2⟩ := h (utf8 trail)
    (by
      intro b hb
      have : b ∈ utf8 trail := List.mem_of_mem_head? hb
      simp [isDelim, ht2 b this]) r1 (by simpa using hr1.ready)
    (exprFuel (lead ++ (text ++ trail))) (by unfold exprFuel; simp only [List.length_nil]; omega)
  obtain ⟨r3, h3, hr3⟩ := eatWhitespace_ready (utf8 trail) ht2 [] (by simp) r2 (by simpa using hr2)
    (exprFuel (lead ++ (text ++ trail))) (by unfold exprFuel; omega)
  unfold parseWholeExpr
  simp only
  rw [EM.bind_ok (liftP_ok h1), EM.bind_ok h2, EM.bind_ok (liftP_ok h3),
    EM.bind_ok (liftP_ok (peek_peeked hr3))]
  rfl

/-- **C13 (4), whole texts.**  For every renderable argument list, `(.f args…)` and `(f . args…)`
(in any style: separators, aliases) are both accepted and give the same AST, the call of `f`
with the root extractor as first argument. -/
theorem dot_sugar_whole (st : Style) (hst : StyleOK st) (fn : String) (as : List Expr)
    (hwf : WFR st.o (.call fn (root :: as))) :
    parseWholeExpr (renderDot st fn as) = .ok (.call fn (root :: as)) ∧
    parseWholeExpr (render st (.call fn (root :: as))) = .ok (.call fn (root :: as)) := by
  constructor
  · have := parseWholeExpr_of_getter (renderDot st fn as) (.call fn (root :: as))
      ⟨40, _, by rw [renderDot, utf8_cons]; rfl, by decide⟩
      (fun rest _ r hr fuel hf => getter_dot_call st hst fn as hwf [] (by simp) rest r hr fuel hf)
      [] [] (by simp) (by simp)
    simpa using this
  · have := parseWholeExpr_render st hst _ hwf [] [] (by simp) (by simp)
    simpa using this

/-- non-vacuity: `(.take 2)` and `(take . 2)`; `(.take_first,2)` -/
example : renderDot {} "take" [.const (.num (.pos 2))] = "(.take 2)".toList ∧
    render {} (.call "take" [root, .const (.num (.pos 2))]) = "(take . 2)".toList ∧
    renderDot { sep := [','], nm := fun _ => "take_first" } "take" [.const (.num (.pos 2))] = "(.take_first,2)".toList := by
  decide +kernel
example : WFR {} (.call "take" [root, .const (.num (.pos 2))]) := by
  simp only [WFR, WFRList, root, Printable, NumPrintable, and_true]
  exact ⟨(arityOK_iff _ _).1 (by decide +kernel), by decide, by decide, by rw [norm]; rfl⟩
/-- hypotheses of `dot_sugar` -/
example : (∀ b ∈ utf8 "take".toList, fnNameStop b = false) ∧ "take".toList.head? ≠ some '.' ∧
    findFunction (String.ofList "take".toList) = some ⟨"take", 2, some 2⟩ ∧ DelimRest (utf8 " 2)".toList) := by
  refine ⟨by decide, by decide, by decide +kernel, ?_⟩
  have h : utf8 " 2)".toList = [32, 50, 41] := by decide
  rw [h]
  intro b hb
  have : b = 32 := by simpa [eq_comm] using hb
  subst this; decide

/-! ## 5. (C18) trailing garbage is rejected in every option position -/

theorem mem_takeWhile {α} (p : α → Bool) (l : List α) : ∀ x ∈ l.takeWhile p, p x = true := by
  induction l with
  | nil => intro x hx; cases hx
  | cons a l ih =>
    intro x hx
    rw [List.takeWhile_cons] at hx
    split at hx
    · rcases List.mem_cons.1 hx with rfl | hx
      · assumption
      · exact ih x hx
    · cases hx

/-- `eat_whitespace` on clean input, whatever the input is -/
theorem eatWhitespace_total (bs : List Byte) (r : Reader) (hr : Ready r bs) (fuel : Nat)
    (hf : bs.length < fuel) :
    ∃ r', eatWhitespace fuel r = (.ok (), r') ∧ Peeked r' (bs.dropWhile isWs) := by
  have hsplit : bs.takeWhile isWs ++ bs.dropWhile isWs = bs := List.takeWhile_append_dropWhile
  have hlen : (bs.takeWhile isWs).length ≤ bs.length := by
    have := congrArg List.length hsplit
    simp only [List.length_append] at this; omega
  refine eatWhitespace_ready (bs.takeWhile isWs) (mem_takeWhile isWs bs) (bs.dropWhile isWs) ?_ r
    (by rw [hsplit]; exact hr) fuel (by omega)
  intro b hb
  have := List.head?_dropWhile_not isWs bs
  rw [Option.mem_def.1 hb] at this
  exact this

/-- after the getter: white space, then a byte `b` that is not white space -/
theorem garbage_peek (ws : List Byte) (hws : ∀ x ∈ ws, isWs x = true) (b : Byte) (hb : isWs b = false)
    (rest : List Byte) (r : Reader) (hr : Ready r (ws ++ b :: rest)) (fuel : Nat) (hf : ws.length < fuel) :
    ∃ r', eatWhitespace fuel r = (.ok (), r') ∧ peek r' = (.ok (some b), r') := by
  obtain ⟨r', h, hr'⟩ := eatWhitespace_ready ws hws (b :: rest)
    (by intro x hx; simp at hx; subst hx; exact hb) r hr fuel hf
  exact ⟨r', h, peek_at hr'⟩

/-- **C18 (5a).**  `Filter/Splitter/Grouper::from_str`: if the getter has been read and, after
optional white space, a byte `b` is left, the text is rejected with `expectingEof … b`. -/
theorem parseWholeExpr_trailing_garbage (s : Str) (e : Expr) (r2 : Reader)
    (hget : readGetter (exprFuel s) (eatWhitespace (exprFuel s) (Reader.ofString s)).2 = (.ok e, r2))
    (ws : List Byte) (hws : ∀ x ∈ ws, isWs x = true) (b : Byte) (hb : isWs b = false) (rest : List Byte)
    (hr2 : Ready r2 (ws ++ b :: rest)) (hf : ws.length < exprFuel s) :
    ∃ loc, parseWholeExpr s = .error (.expectingEof loc b) ∧
      parseOptionExpr s = .error (exprErrText (.expectingEof loc b)) := by
  obtain ⟨r1, h1, _⟩ := eatWhitespace_total (utf8 s) (Reader.ofString s) (ready_ofBytes _ _) (exprFuel s)
    (by unfold exprFuel; omega)
  rw [h1] at hget
  obtain ⟨r3, h3, hp⟩ := garbage_peek ws hws b hb rest r2 hr2 _ hf
  have : parseWholeExpr s = .error (.expectingEof r3.loc b) := by
    unfold parseWholeExpr
    simp only
    rw [EM.bind_ok (liftP_ok h1), EM.bind_ok hget, EM.bind_ok (liftP_ok h3), EM.bind_ok (liftP_ok hp)]
    rfl
  exact ⟨r3.loc, this, by unfold parseOptionExpr; rw [this]⟩

/-- **C18 (5b).**  `Selection::from_str`: after the getter only `=name` may follow. -/
theorem parseSelection_trailing_garbage (s : Str) (e : Expr) (r2 : Reader)
    (hget : readGetter (exprFuel s) (eatWhitespace (exprFuel s) (Reader.ofString s)).2 = (.ok e, r2))
    (ws : List Byte) (hws : ∀ x ∈ ws, isWs x = true) (b : Byte) (hb : isWs b = false) (hb' : b ≠ 61)
    (rest : List Byte) (hr2 : Ready r2 (ws ++ b :: rest)) (hf : ws.length < exprFuel s) :
    ∃ loc, parseSelection s = .error (exprErrText (.expectingEquals loc b)) := by
  obtain ⟨r1, h1, _⟩ := eatWhitespace_total (utf8 s) (Reader.ofString s) (ready_ofBytes _ _) (exprFuel s)
    (by unfold exprFuel; omega)
  rw [h1] at hget
  obtain ⟨r3, h3, hp⟩ := garbage_peek ws hws b hb rest r2 hr2 _ hf
  refine ⟨r3.loc, ?_⟩
  unfold parseSelection
  simp only
  rw [EM.bind_ok (liftP_ok h1), EM.bind_ok hget, EM.bind_ok (liftP_ok h3), EM.bind_ok (liftP_ok hp)]
  have hfail : (do let l ← emLoc; (EM.fail (.expectingEquals l b) : EM (Str × Expr))) r3 =
      (.error (.expectingEquals r3.loc b), r3) := rfl
  generalize hx : some b = x
  split
  · next v heq =>
    split at heq
    · exact absurd (by simpa using hx) hb'
    · next ch _ => cases hx; rw [hfail] at heq; cases heq
    · cases hx
  · next err heq =>
    split at heq
    · exact absurd (by simpa using hx) hb'
    · next ch _ => cases hx; rw [hfail] at heq; cases heq; rfl
    · cases hx

/-- **C18 (5c).**  `PreSet::from_str` (`key=value`, `@key=macro`): garbage after the value. -/
theorem parsePreSet_trailing_garbage (orc : Oracles) (s : Str) (heq : s.any (· = '=') = true)
    (e : Expr) (r2 : Reader)
    (hget : readGetter (exprFuel ((s.dropWhile (· ≠ '=')).drop 1))
      (Reader.ofString ((s.dropWhile (· ≠ '=')).drop 1)) = (.ok e, r2))
    (ws : List Byte) (hws : ∀ x ∈ ws, isWs x = true) (b : Byte) (hb : isWs b = false) (rest : List Byte)
    (hr2 : Ready r2 (ws ++ b :: rest)) (hf : ws.length < exprFuel ((s.dropWhile (· ≠ '=')).drop 1)) :
    ∃ loc, parsePreSet orc s = .error (.config (exprErrText (.expectingEof loc b))) := by
  obtain ⟨r3, h3, hp⟩ := garbage_peek ws hws b hb rest r2 hr2 _ hf
  refine ⟨r3.loc, ?_⟩
  have : parsePreSet.parseWholeExprNoLeadWs ((s.dropWhile (· ≠ '=')).drop 1) =
      .error (exprErrText (.expectingEof r3.loc b)) := by
    unfold parsePreSet.parseWholeExprNoLeadWs
    simp only
    rw [EM.bind_ok hget, EM.bind_ok (liftP_ok h3), EM.bind_ok (liftP_ok hp)]
    rfl
  unfold parsePreSet
  simp only [heq, Bool.not_true, Bool.false_eq_true, if_false, this]

/-- `read_to_eof` from the look-ahead byte on clean input -/
theorem readRestPeek_spec (bs : List Byte) (r : Reader) (hr : Ready r bs) (fuel : Nat)
    (hf : bs.length < fuel) (acc : List Byte) :
    ∃ r', readRestPeek fuel acc r = (.ok (acc ++ bs), r') := by
  induction bs generalizing r fuel acc with
  | nil =>
    obtain ⟨fuel, rfl⟩ : ∃ k, fuel = k + 1 := ⟨fuel - 1, by omega⟩
    obtain ⟨r1, hp, _⟩ := peek_ready hr
    refine ⟨r1, ?_⟩
    unfold readRestPeek
    rw [EM.bind_ok (liftP_ok hp)]
    simp
  | cons b bs ih =>
    obtain ⟨fuel, rfl⟩ : ∃ k, fuel = k + 1 := ⟨fuel - 1, by omega⟩
    obtain ⟨r1, hp, hr1⟩ := peek_ready hr
    have hr1' : At r1 b bs := hr1
    obtain ⟨r2, hn, hr2⟩ := next_at hr1'
    obtain ⟨r3, h3⟩ := ih r2 hr2.ready fuel (by simp at hf; omega) (acc ++ [b])
    refine ⟨r3, ?_⟩
    unfold readRestPeek
    rw [EM.bind_ok (liftP_ok hp)]
    simp only [List.head?_cons]
    rw [EM.bind_ok (liftP_ok hn), h3]
    simp

theorem directionOf_unknown (t : Str)
    (h : (trimStr t).map upperChar ≠ [] ∧ (trimStr t).map upperChar ≠ "ASC".toList ∧
      (trimStr t).map upperChar ≠ "DESC".toList) : directionOf t = .error "UnknownOrder" := by
  obtain ⟨h0, h1, h2⟩ := h
  unfold directionOf
  simp only [h0, h1, h2, false_or, if_false]

/-- **C18 (5d).**  `Sorter::from_str`: whatever is left after the getter is the direction word; if
it is not (in any letter case, trimmed) empty, `ASC` or `DESC`, the sorter is rejected. -/
theorem parseSorter_unknown_direction (s : Str) (e : Expr) (r2 : Reader)
    (hget : readGetter (exprFuel s) (eatWhitespace (exprFuel s) (Reader.ofString s)).2 = (.ok e, r2))
    (bs : List Byte) (hr2 : Ready r2 bs) (hf : bs.length < exprFuel s) (t : Str)
    (hdec : utf8Decode? bs = some t)
    (hdir : (trimStr t).map upperChar ≠ [] ∧ (trimStr t).map upperChar ≠ "ASC".toList ∧
      (trimStr t).map upperChar ≠ "DESC".toList) :
    parseSorterParts s = .ok (e, t) ∧ parseSorter s = .error "UnknownOrder" := by
  obtain ⟨r1, h1, _⟩ := eatWhitespace_total (utf8 s) (Reader.ofString s) (ready_ofBytes _ _) (exprFuel s)
    (by unfold exprFuel; omega)
  rw [h1] at hget
  obtain ⟨r3, h3⟩ := readRestPeek_spec bs r2 hr2 (exprFuel s) hf []
  have hparts : parseSorterParts s = .ok (e, t) := by
    unfold parseSorterParts
    simp only
    rw [EM.bind_ok (liftP_ok h1), EM.bind_ok hget, EM.bind_ok h3]
    simp only [EM.pure_apply, List.nil_append, hdec]
  refine ⟨hparts, ?_⟩
  unfold parseSorter
  rw [hparts]
  simp only [directionOf_unknown t hdir]


/-- **C18 (5a), rendered form** (no hypothesis about the run of the parser): a renderable getter
followed by optional white space and a non-blank byte `b` (directly after the getter `b` must be a
delimiter, otherwise it would belong to the getter) is rejected with `expectingEof … b`. -/
theorem garbage_after_render (st : Style) (hst : StyleOK st) (e : Expr) (he : WFR st.o e) (s : Str)
    (W : List Byte) (hW : ∀ x ∈ W, isWs x = true) (b : Byte) (hb : isWs b = false) (rest : List Byte)
    (hs : utf8 s = utf8 (render st e) ++ (W ++ b :: rest)) (hdel : W ≠ [] ∨ isDelim b = true) :
    ∃ loc, parseWholeExpr s = .error (.expectingEof loc b) ∧
      parseOptionExpr s = .error (exprErrText (.expectingEof loc b)) := by
  obtain ⟨c, t, hct, hc1, _, _⟩ := render_head st e he
  have hlen : (utf8 s).length = (utf8 (render st e)).length + (W.length + (rest.length + 1)) := by
    rw [hs]; simp
  obtain ⟨r1, h1, hr1⟩ := eatWhitespace_ready [] (by simp) (utf8 s)
    (by rw [hs, hct]; intro x hx; simp at hx; subst hx; exact hc1) (Reader.ofString s)
    (ready_ofBytes (utf8 s) _) (exprFuel s) (by unfold exprFuel; simp)
  obtain ⟨r2, h2, hr2⟩ := parse_render st hst e he [] (by simp) (W ++ b :: rest)
    (by
      intro x hx
      cases W with
      | nil =>
        simp at hx; subst hx
        exact hdel.resolve_left (by simp)
      | cons w W =>
        simp at hx; subst hx
        simp [isDelim, hW w (by simp)])
    r1 (by rw [← hs]; simpa using hr1.ready) (exprFuel s)
    (by unfold exprFuel; simp only [List.length_nil]; omega)
  exact parseWholeExpr_trailing_garbage s e r2 (by rw [h1]; exact h2) W hW b hb rest hr2
    (by unfold exprFuel; omega)

/-- the run of the getter that the theorems of this section assume, for a rendered getter followed
by any text `tail` that starts with a delimiter (with and without the leading `eat_whitespace`) -/
theorem render_run (st : Style) (hst : StyleOK st) (e : Expr) (he : WFR st.o e) (s : Str)
    (tail : List Byte) (hs : utf8 s = utf8 (render st e) ++ tail) (hd : DelimRest tail) :
    (∃ r2, readGetter (exprFuel s) (eatWhitespace (exprFuel s) (Reader.ofString s)).2 = (.ok e, r2) ∧
      Ready r2 tail) ∧
    (∃ r2, readGetter (exprFuel s) (Reader.ofString s) = (.ok e, r2) ∧ Ready r2 tail) := by
  obtain ⟨c, t, hct, hc1, _, _⟩ := render_head st e he
  have hlen : (utf8 s).length = (utf8 (render st e)).length + tail.length := by
    rw [hs]; simp
  obtain ⟨r1, h1, hr1⟩ := eatWhitespace_ready [] (by simp) (utf8 s)
    (by rw [hs, hct]; intro x hx; simp at hx; subst hx; exact hc1) (Reader.ofString s)
    (ready_ofBytes (utf8 s) _) (exprFuel s) (by unfold exprFuel; simp)
  constructor
  · obtain ⟨r2, h2, hr2⟩ := parse_render st hst e he [] (by simp) tail hd r1
      (by rw [← hs]; simpa using hr1.ready) (exprFuel s)
      (by unfold exprFuel; simp only [List.length_nil]; omega)
    exact ⟨r2, by rw [h1]; exact h2, hr2⟩
  · exact parse_render st hst e he [] (by simp) tail hd (Reader.ofString s)
      (by rw [← hs]; exact ready_ofBytes (utf8 s) _) (exprFuel s)
      (by unfold exprFuel; simp only [List.length_nil]; omega)

/-! ### Non-vacuity for item 5 -/

def isEofErr (x : Except ExprErr Expr) (b : Byte) : Bool :=
  match x with
  | .error (.expectingEof _ c) => c == b
  | _ => false

def isErrMsg {α} (x : Except String α) (m : String) : Bool :=
  match x with
  | .error e => e == m
  | .ok _ => false

def isErr {ε α} (x : Except ε α) : Bool :=
  match x with
  | .error _ => true
  | .ok _ => false

example : isEofErr (parseWholeExpr "(take . 2) x".toList) 120 = true := by decide +kernel
example : isEofErr (parseWholeExpr "(take . 2))".toList) 41 = true := by decide +kernel
example : isEofErr (parseWholeExpr ".a .b".toList) 46 = true := by decide +kernel
example : isErr (parseOptionExpr "(take . 2) x".toList) = true := by decide +kernel
example : isErr (parseSelection ".a x".toList) = true := by decide +kernel
example : isErr (parseSelection ".a = x".toList) = false := by decide +kernel
example : isErr (parsePreSet {} "k=1 x".toList) = true := by decide +kernel
example : isErr (parsePreSet {} "k=1 ".toList) = false := by decide +kernel
example : isErrMsg (parseSorter ".a down".toList) "UnknownOrder" = true := by decide +kernel
example : isErrMsg (parseSorter ".a DeSc ".toList) "UnknownOrder" = false := by decide +kernel
/-- an instance of the hypotheses of `garbage_after_render` -/
example : ∃ loc, parseWholeExpr "(take . 2)  x".toList = .error (.expectingEof loc 120) ∧
    parseOptionExpr "(take . 2)  x".toList = .error (exprErrText (.expectingEof loc 120)) :=
  garbage_after_render {} (SepStyle.style_ok .space) take2
    (by
      simp only [take2, WFR, WFRList, Printable, NumPrintable, and_true]
      exact ⟨(arityOK_iff _ _).1 (by decide +kernel), by decide, by decide, by rw [norm]; rfl⟩)
    "(take . 2)  x".toList [32, 32] (by decide) 120 (by decide) [] (by decide +kernel) (Or.inl (by simp))


/-- `.a` -/
def dotA : Expr := .extract 0 [.key "a".toList]
theorem dotA_wfr : WFR {} dotA := by
  intro s hs
  simp only [List.mem_singleton] at hs
  subst hs
  decide

theorem delimRest_space (l : List Byte) : DelimRest (32 :: l) := by
  intro b hb
  have : b = 32 := by simpa [eq_comm] using hb
  subst this; decide

/-- instances of the hypotheses of 5b, 5c, 5d -/
example : ∃ loc, parseSelection ".a x".toList = .error (exprErrText (.expectingEquals loc 120)) := by
  obtain ⟨⟨r2, hget, hr2⟩, _⟩ := render_run {} (SepStyle.style_ok .space) dotA dotA_wfr ".a x".toList
    [32, 120] (by decide) (delimRest_space _)
  exact parseSelection_trailing_garbage _ _ r2 hget [32] (by decide) 120 (by decide) (by decide) [] hr2
    (by decide)

example : ∃ loc, parsePreSet {} "k=.a x".toList = .error (.config (exprErrText (.expectingEof loc 120))) := by
  obtain ⟨_, ⟨r2, hget, hr2⟩⟩ := render_run {} (SepStyle.style_ok .space) dotA dotA_wfr ".a x".toList
    [32, 120] (by decide) (delimRest_space _)
  exact parsePreSet_trailing_garbage {} "k=.a x".toList (by decide) dotA r2 hget [32] (by decide) 120
    (by decide) [] hr2 (by decide)

example : parseSorter ".a down".toList = .error "UnknownOrder" := by
  obtain ⟨⟨r2, hget, hr2⟩, _⟩ := render_run {} (SepStyle.style_ok .space) dotA dotA_wfr ".a down".toList
    (utf8 " down".toList) (by decide) (delimRest_space _)
  exact (parseSorter_unknown_direction _ _ r2 hget _ hr2 (by decide) " down".toList (utf8Decode_utf8 _)
    (by decide)).2

-- #print axioms parsed_ast_well_formed
-- #print axioms parseWholeExpr_well_formed
-- #print axioms alias_same_ast
-- #print axioms Jawk.PR.parse_render
-- #print axioms Jawk.PR.separator_independent
-- #print axioms Jawk.PR.style_independent
-- #print axioms Jawk.PR.parsed_ast_well_formed
-- #print axioms Jawk.PR.alias_same_ast
-- #print axioms Jawk.PR.dot_sugar
-- #print axioms Jawk.PR.dot_sugar_whole
-- #print axioms Jawk.PR.parseWholeExpr_trailing_garbage
-- #print axioms Jawk.PR.parseSelection_trailing_garbage
-- #print axioms Jawk.PR.parsePreSet_trailing_garbage
-- #print axioms Jawk.PR.parseSorter_unknown_direction
-- #print axioms Jawk.PR.garbage_after_render

end Jawk.PR
