/-
  Properties C13 (an expression means the same however it is spelled) and C18 (parsed ASTs are
  well-formed) at the level of the expression parser `readGetter` / `parseFunction` / `parseArgs`.
-/
import Jawk.Lemmas.PM
import Jawk.Model.Expr
import Jawk.Model.Run
import Jawk.Lemmas.NoPanic
namespace Jawk.PR
open Jawk Jawk.NoPanic Reader

/-! ## 0. Boolean matchers for closed examples (`JV` / `Expr` have no `DecidableEq`) -/

mutual
def jvSame : JV → JV → Bool
  | .null, .null => true
  | .bool a, .bool b => a == b
  | .str a, .str b => a == b
  | .num a, .num b => a == b
  | .obj a, .obj b => membersSame a b
  | .arr a, .arr b => listSame a b
  | _, _ => false
def listSame : List JV → List JV → Bool
  | [], [] => true
  | a :: as, b :: bs => jvSame a b && listSame as bs
  | _, _ => false
def membersSame : List (Str × JV) → List (Str × JV) → Bool
  | [], [] => true
  | (k, a) :: as, (l, b) :: bs => k == l && jvSame a b && membersSame as bs
  | _, _ => false
end

mutual
theorem jvSame_eq : ∀ (a b : JV), jvSame a b = true → a = b
  | .null, b, h => by cases b <;> simp_all [jvSame]
  | .bool a, b, h => by cases b <;> simp_all [jvSame]
  | .str a, b, h => by cases b <;> simp_all [jvSame]
  | .num a, b, h => by cases b <;> simp_all [jvSame]
  | .obj a, b, h => by
    cases b with
    | obj b => rw [jvSame] at h; rw [membersSame_eq a b h]
    | _ => simp [jvSame] at h
  | .arr a, b, h => by
    cases b with
    | arr b => rw [jvSame] at h; rw [listSame_eq a b h]
    | _ => simp [jvSame] at h
theorem listSame_eq : ∀ (a b : List JV), listSame a b = true → a = b
  | [], b, h => by cases b <;> simp_all [listSame]
  | x :: xs, b, h => by
    cases b with
    | nil => simp [listSame] at h
    | cons y ys =>
      rw [listSame, Bool.and_eq_true] at h
      rw [jvSame_eq x y h.1, listSame_eq xs ys h.2]
theorem membersSame_eq : ∀ (a b : List (Str × JV)), membersSame a b = true → a = b
  | [], b, h => by cases b <;> simp_all [membersSame]
  | (k, x) :: xs, b, h => by
    cases b with
    | nil => simp [membersSame] at h
    | cons y ys =>
      obtain ⟨l, y⟩ := y
      rw [membersSame, Bool.and_eq_true, Bool.and_eq_true] at h
      have : k = l := by simpa using h.1.1
      rw [this, jvSame_eq x y h.1.2, membersSame_eq xs ys h.2]
end

mutual
def exprSame : Expr → Expr → Bool
  | .extract p s, .extract q t => p == q && s == t
  | .const v, .const w => jvSame v w
  | .call f as, .call g bs => f == g && exprListSame as bs
  | .var n, .var m => n == m
  | .macro n, .macro m => n == m
  | .selected n, .selected m => n == m
  | .ictx k, .ictx l => k == l
  | _, _ => false
def exprListSame : List Expr → List Expr → Bool
  | [], [] => true
  | a :: as, b :: bs => exprSame a b && exprListSame as bs
  | _, _ => false
end

mutual
theorem exprSame_eq : ∀ (a b : Expr), exprSame a b = true → a = b
  | .extract p s, b, h => by cases b <;> simp_all [exprSame]
  | .const v, b, h => by
    cases b with
    | const w => rw [exprSame] at h; rw [jvSame_eq v w h]
    | _ => simp [exprSame] at h
  | .call f as, b, h => by
    cases b with
    | call g bs =>
      rw [exprSame, Bool.and_eq_true] at h
      have : f = g := by simpa using h.1
      rw [this, exprListSame_eq as bs h.2]
    | _ => simp [exprSame] at h
  | .var n, b, h => by cases b <;> simp_all [exprSame]
  | .macro n, b, h => by cases b <;> simp_all [exprSame]
  | .selected n, b, h => by cases b <;> simp_all [exprSame]
  | .ictx n, b, h => by cases b <;> simp_all [exprSame]
theorem exprListSame_eq : ∀ (a b : List Expr), exprListSame a b = true → a = b
  | [], b, h => by cases b <;> simp_all [exprListSame]
  | x :: xs, b, h => by
    cases b with
    | nil => simp [exprListSame] at h
    | cons y ys =>
      rw [exprListSame, Bool.and_eq_true] at h
      rw [exprSame_eq x y h.1, exprListSame_eq xs ys h.2]
end

/-- Boolean matcher: the result is `ok e` -/
def isOk (x : Except ExprErr Expr) (e : Expr) : Bool :=
  match x with
  | .ok a => exprSame a e
  | .error _ => false
theorem isOk_eq {x : Except ExprErr Expr} {e : Expr} (h : isOk x e = true) : x = .ok e := by
  unfold isOk at h
  split at h
  · rw [exprSame_eq _ _ h]
  · cases h

def isOkList (x : Except ExprErr (List Expr)) (l : List Expr) : Bool :=
  match x with
  | .ok a => exprListSame a l
  | .error _ => false
theorem isOkList_eq {x : Except ExprErr (List Expr)} {l : List Expr} (h : isOkList x l = true) : x = .ok l := by
  unfold isOkList at h
  split at h
  · rw [exprListSame_eq _ _ h]
  · cases h

/-- Boolean matcher for the three rejections of `parse_function` -/
def isRejected (x : Except ExprErr Expr) (kind : Nat) (what : String) : Bool :=
  match x, kind with
  | .error (.unknownFunction n), 0 => String.ofList n == what
  | .error (.missingArgument n), 1 => n == what
  | .error (.tooManyArgument n), 2 => n == what
  | _, _ => false

/-! ## 1. (C18) parsed ASTs are well-formed -/

/-- `fn` is a canonical name of the regenerated function table and `n` arguments are within the
arity bounds of that entry -/
def ArityOK (fn : String) (n : Nat) : Prop :=
  ∃ e ∈ Generated.functionTable, e.1 = fn ∧ e.2.2.1 ≤ n ∧ ∀ m, e.2.2.2 = some m → n ≤ m

/-- Boolean form of `ArityOK` -/
def arityOK (fn : String) (n : Nat) : Bool :=
  Generated.functionTable.any fun e =>
    e.1 == fn && decide (e.2.2.1 ≤ n) && (match e.2.2.2 with | some m => decide (n ≤ m) | none => true)

theorem arityOK_iff (fn : String) (n : Nat) : arityOK fn n = true ↔ ArityOK fn n := by
  unfold arityOK ArityOK
  rw [List.any_eq_true]
  constructor
  · rintro ⟨e, he, h⟩
    simp only [Bool.and_eq_true, beq_iff_eq, decide_eq_true_eq] at h
    refine ⟨e, he, h.1.1, h.1.2, ?_⟩
    intro m hm
    rw [hm] at h
    simpa using h.2
  · rintro ⟨e, he, h1, h2, h3⟩
    refine ⟨e, he, ?_⟩
    simp only [Bool.and_eq_true, beq_iff_eq, decide_eq_true_eq]
    refine ⟨⟨h1, h2⟩, ?_⟩
    cases hm : e.2.2.2 with
    | none => rfl
    | some m => simpa using h3 m hm

mutual
/-- every `.call fn args` node has a canonical table name and an argument count within its bounds -/
def wf : Expr → Bool
  | .call fn args => arityOK fn args.length && wfList args
  | _ => true
def wfList : List Expr → Bool
  | [] => true
  | e :: es => wf e && wfList es
end

/-- **Well-formed AST**: every call node names a canonical function of the table and respects
its arity bounds, recursively through the arguments. -/
def WellFormed (e : Expr) : Prop := wf e = true
instance (e : Expr) : Decidable (WellFormed e) := inferInstanceAs (Decidable (_ = true))

theorem wfList_iff (l : List Expr) : wfList l = true ↔ ∀ e ∈ l, WellFormed e := by
  induction l with
  | nil => simp [wfList]
  | cons x xs ih => simp [wfList, ih, WellFormed]

theorem wfList_append (l₁ l₂ : List Expr) : wfList (l₁ ++ l₂) = (wfList l₁ && wfList l₂) := by
  induction l₁ with
  | nil => simp [wfList]
  | cons x xs ih => simp [wfList, ih, Bool.and_assoc]

/-- the meaning of `WellFormed` on a call node -/
theorem wellFormed_call (fn : String) (args : List Expr) :
    WellFormed (.call fn args) ↔ ArityOK fn args.length ∧ ∀ a ∈ args, WellFormed a := by
  simp only [WellFormed, wf, Bool.and_eq_true, arityOK_iff, wfList_iff]

theorem wellFormed_leaf :
    (∀ p s, WellFormed (.extract p s)) ∧ (∀ v, WellFormed (.const v)) ∧ (∀ n, WellFormed (.var n)) ∧
    (∀ n, WellFormed (.macro n)) ∧ (∀ n, WellFormed (.selected n)) ∧ (∀ k, WellFormed (.ictx k)) :=
  ⟨fun _ _ => rfl, fun _ => rfl, fun _ => rfl, fun _ => rfl, fun _ => rfl, fun _ => rfl⟩

/-- what `findFunction` returns is an entry of the table -/
theorem findFunction_entry {n : String} {sig : FnSig} (h : findFunction n = some sig) :
    ∃ e ∈ Generated.functionTable, (e.1 = n ∨ n ∈ e.2.1) ∧
      sig = { name := e.1, min := e.2.2.1, max := e.2.2.2 } := by
  unfold findFunction at h
  cases hf : Generated.functionTable.find? (fun (name, aliases, _, _) => name == n || aliases.contains n) with
  | none => rw [hf] at h; cases h
  | some x =>
    rw [hf] at h
    have hx := List.mem_of_find?_eq_some hf
    have hp := List.find?_some hf
    cases h
    refine ⟨x, hx, ?_, rfl⟩
    simpa using hp

theorem findFunction_arityOK {n : String} {sig : FnSig} {k : Nat} (h : findFunction n = some sig)
    (h1 : ¬ k < sig.min)
    (h2 : ¬ (match sig.max with | some m => decide (k > m) | none => false) = true) :
    arityOK sig.name k = true := by
  obtain ⟨e, he, _, rfl⟩ := findFunction_entry h
  rw [arityOK_iff]
  refine ⟨e, he, rfl, Nat.le_of_not_lt h1, ?_⟩
  intro m hm
  simp only [hm, decide_eq_true_eq] at h2
  exact Nat.le_of_not_lt h2

macro "wf_step" : tactic => `(tactic| first
  | exact EP.fail _
  | (apply EP.pure; first | rfl | assumption | (split <;> rfl))
  | assumption
  | (apply EP.pure; show wf (.call _ _) = true; simp only [wf, Bool.and_eq_true];
     refine ⟨findFunction_arityOK ‹_› ‹_› ?_, ‹_›⟩; rw [‹FnSig.max _ = _›]; assumption)
  | (refine ‹∀ acc, _ → EP _ (parseArgs _ acc)› _ ?_;
     simp only [wfList_append, wfList, Bool.and_eq_true]; exact ⟨‹_›, ‹_›, trivial⟩)
  | exact ‹∀ acc, _ → EP _ (parseArgs _ acc)› _ ‹_›
  | (have h := ‹_ = (_, _)›; split at h <;> cases h <;> rfl)
  | (refine EP.bind _ ‹EP _ (readGetter _)› ?_)
  | (refine EP.bind _ (‹∀ acc, _ → EP _ (parseArgs _ acc)› _ ?_) ?_)
  | (apply EP.bind')
  | intro _
  | split
  | dsimp only
  )

theorem parser_wf : ∀ fuel,
    EP WellFormed (readGetter fuel) ∧
    EP WellFormed (parseFunction fuel) ∧
    ∀ acc, wfList acc = true → EP (fun l => wfList l = true) (parseArgs fuel acc) := by
  intro fuel
  induction fuel with
  | zero =>
    refine ⟨?_, ?_, ?_⟩
    · unfold readGetter; exact EP.fail _
    · unfold parseFunction; exact EP.fail _
    · intro acc _; unfold parseArgs; exact EP.fail _
  | succ fuel ih =>
    obtain ⟨ih1, ih2, ih3⟩ := ih
    refine ⟨?_, ?_, ?_⟩
    · unfold readGetter
      repeat' wf_step
    · unfold parseFunction
      repeat' wf_step
    · intro acc hacc; unfold parseArgs
      repeat' wf_step

/-- **C18 (1a).**  Every AST produced by `readGetter` is well-formed. -/
theorem parsed_ast_well_formed {fuel : Nat} {r r' : Reader} {e : Expr}
    (h : readGetter fuel r = (.ok e, r')) : WellFormed e :=
  (parser_wf fuel).1.h r e r' h

theorem parseFunction_well_formed {fuel : Nat} {r r' : Reader} {e : Expr}
    (h : parseFunction fuel r = (.ok e, r')) : WellFormed e :=
  (parser_wf fuel).2.1.h r e r' h

theorem parseArgs_well_formed {fuel : Nat} {r r' : Reader} {acc l : List Expr}
    (hacc : ∀ a ∈ acc, WellFormed a) (h : parseArgs fuel acc r = (.ok l, r')) : ∀ a ∈ l, WellFormed a :=
  (wfList_iff l).1 (((parser_wf fuel).2.2 acc ((wfList_iff acc).2 hacc)).h r l r' h)

macro "wf_step'" : tactic => `(tactic| first
  | (refine EP.bind _ (parser_wf _).1 ?_)
  | wf_step)

/-- **C18 (1b).**  Every expression accepted by `Filter/Splitter/Grouper::from_str` is well-formed. -/
theorem parseWholeExpr_well_formed {s : Str} {e : Expr} (h : parseWholeExpr s = .ok e) : WellFormed e := by
  unfold parseWholeExpr at h
  dsimp only at h
  refine EP.fst (P := WellFormed) ?_ h
  repeat' wf_step'

/-! ### What happens after the function name has been read -/

/-- `(.f x)` is sugar for `(f . x)`: the leading dot of the name becomes a first argument `.` -/
def splitDot (name : Str) : Str × List Expr :=
  match name with
  | '.' :: rest => (rest, [Expr.extract 0 []])
  | n => (n, [])

/-- the rest of `parse_function` once the function is known: arguments, `)`, arity checks -/
def finishCall (sig : FnSig) (fuel : Nat) (pre : List Expr) : EM Expr := do
  let args ← parseArgs fuel pre
  let _ ← liftP next
  if args.length < sig.min then EM.fail (.missingArgument sig.name)
  else if (match sig.max with | some m => decide (args.length > m) | none => false) then
    EM.fail (.tooManyArgument sig.name)
  else pure (.call sig.name args)

/-- the rest of `parse_function` once the name has been read: the name only enters through
`findFunction` (and the error message) -/
def resolveCall (name : Str) (fuel : Nat) : EM Expr :=
  match findFunction (String.ofList (splitDot name).1) with
  | none => EM.fail (.unknownFunction (splitDot name).1)
  | some sig => finishCall sig fuel (splitDot name).2

/-- `parseFunction` is: white space, name bytes, UTF-8, then `resolveCall` -/
theorem parseFunction_eq (fuel : Nat) :
    parseFunction (fuel + 1) = (do
      liftP (eatWhitespace (fuel + 1))
      let nb ← readUntil fnNameStop (fuel + 1) []
      let name ← fromUtf8 nb
      resolveCall name fuel) := by
  funext r
  rw [parseFunction]
  simp only [EM.bind_apply]
  split
  · split
    · split
      · next name r3 _ =>
        split
        · rfl
        · next hne =>
          have : splitDot name = (name, []) := by
            unfold splitDot
            split
            · exact absurd rfl (hne _)
            · rfl
          unfold resolveCall
          rw [this]
          rfl
      · rfl
    · rfl
  · rfl

/-- **C18 (1c).**  An unknown function name is rejected with `unknownFunction`, before any argument
is looked at (the reader stays where the name ended). -/
theorem unknown_function_rejected (name : Str) (fuel : Nat) (r : Reader)
    (h : findFunction (String.ofList (splitDot name).1) = none) :
    resolveCall name fuel r = (.error (.unknownFunction (splitDot name).1), r) := by
  unfold resolveCall
  rw [h]
  rfl

/-- the same through `parseFunction` -/
theorem parseFunction_unknown_rejected (fuel : Nat) (r r1 r2 : Reader) (nb : List Byte) (name : Str)
    (hws : eatWhitespace (fuel + 1) r = (.ok (), r1))
    (hname : readUntil fnNameStop (fuel + 1) [] r1 = (.ok nb, r2))
    (hutf : utf8Decode? nb = some name)
    (h : findFunction (String.ofList (splitDot name).1) = none) :
    parseFunction (fuel + 1) r = (.error (.unknownFunction (splitDot name).1), r2) := by
  rw [parseFunction_eq]
  simp only [EM.bind_apply, liftP, hws, hname, fromUtf8, hutf, EM.pure_apply]
  exact unknown_function_rejected name fuel r2 h

/-- **C18 (1d).**  Too few arguments: `missingArgument`; too many: `tooManyArgument` -/
theorem arity_rejected (name : Str) (fuel : Nat) (sig : FnSig) (r r1 r2 : Reader) (args : List Expr)
    (b : Option Byte)
    (h : findFunction (String.ofList (splitDot name).1) = some sig)
    (hargs : parseArgs fuel (splitDot name).2 r = (.ok args, r1))
    (hnext : next r1 = (.ok b, r2)) :
    (args.length < sig.min → resolveCall name fuel r = (.error (.missingArgument sig.name), r2)) ∧
    (∀ m, sig.max = some m → sig.min ≤ args.length → m < args.length →
      resolveCall name fuel r = (.error (.tooManyArgument sig.name), r2)) ∧
    (sig.min ≤ args.length → (∀ m, sig.max = some m → args.length ≤ m) →
      resolveCall name fuel r = (.ok (.call sig.name args), r2)) := by
  unfold resolveCall finishCall
  rw [h]
  simp only [EM.bind_apply, hargs, liftP, hnext]
  refine ⟨?_, ?_, ?_⟩
  · intro hlt; simp only [hlt, if_true]; rfl
  · intro m hm h1 h2
    have : ¬ args.length < sig.min := by omega
    simp only [this, if_false, hm, gt_iff_lt, h2, decide_true, if_true]; rfl
  · intro h1 h2
    have : ¬ args.length < sig.min := by omega
    simp only [this, if_false]
    cases hm : sig.max with
    | none => rfl
    | some m =>
      have : ¬ args.length > m := by have := h2 m hm; omega
      simp only [this, decide_false]; rfl

/-! ## 2. (C13) aliases -/

deriving instance DecidableEq for FnSig

/-- **C13 (2a).**  Every alias of the regenerated function table resolves to the same function
(same canonical name, same arity bounds) as the canonical name of its entry. -/
theorem alias_same_sig :
    ∀ e ∈ Generated.functionTable, ∀ a ∈ e.2.1, findFunction a = findFunction e.1 := by
  decide +kernel

/-- a canonical name resolves to its own entry (names are distinct) -/
theorem canonical_resolves :
    ∀ e ∈ Generated.functionTable,
      findFunction e.1 = some { name := e.1, min := e.2.2.1, max := e.2.2.2 } := by
  decide +kernel

/-- no name or alias of the table starts with a dot, so `splitDot` leaves them alone -/
theorem names_no_dot :
    ∀ e ∈ Generated.functionTable,
      e.1.toList.head? ≠ some '.' ∧ ∀ a ∈ e.2.1, a.toList.head? ≠ some '.' := by
  decide +kernel

theorem splitDot_of_no_dot (n : Str) (h : n.head? ≠ some '.') : splitDot n = (n, []) := by
  unfold splitDot
  split
  · simp at h
  · rfl

theorem splitDot_dot (n : Str) : splitDot ('.' :: n) = (n, [Expr.extract 0 []]) := rfl

/-- **C13 (2b) `alias_same_ast`.**  After the name has been read the parser behaves identically
(same AST, same errors, same final reader — as functions of the reader) for an alias and for the
canonical name, with or without the dot sugar. -/
theorem alias_same_ast (e : String × List String × Nat × Option Nat) (he : e ∈ Generated.functionTable)
    (a : String) (ha : a ∈ e.2.1) (fuel : Nat) :
    resolveCall a.toList fuel = resolveCall e.1.toList fuel ∧
    resolveCall ('.' :: a.toList) fuel = resolveCall ('.' :: e.1.toList) fuel := by
  have hnd := names_no_dot e he
  have hs := alias_same_sig e he a ha
  unfold resolveCall
  rw [splitDot_of_no_dot _ (hnd.2 a ha), splitDot_of_no_dot _ hnd.1, splitDot_dot, splitDot_dot]
  simp only [String.ofList_toList, hs, canonical_resolves e he]
  exact ⟨trivial, trivial⟩

theorem finishCall_ok {sig : FnSig} {fuel : Nat} {pre : List Expr} {r r' : Reader} {x : Expr}
    (h : finishCall sig fuel pre r = (.ok x, r')) : ∃ args, x = .call sig.name args := by
  unfold finishCall at h
  simp only [EM.bind_apply] at h
  split at h
  · next args _ _ =>
    split at h
    · by_cases h1 : args.length < sig.min
      · rw [if_pos h1] at h; cases h
      · rw [if_neg h1] at h
        by_cases h2 : (match sig.max with | some m => decide (args.length > m) | none => false) = true
        · rw [if_pos h2] at h; cases h
        · rw [if_neg h2] at h; cases h; exact ⟨_, rfl⟩
    · cases h
  · cases h

/-- … and what it produces is a call of the canonical name -/
theorem alias_call_canonical (e : String × List String × Nat × Option Nat) (he : e ∈ Generated.functionTable)
    (a : String) (ha : a ∈ e.2.1) (fuel : Nat) (r r' : Reader) (x : Expr)
    (h : resolveCall a.toList fuel r = (.ok x, r')) : ∃ args, x = .call e.1 args := by
  rw [(alias_same_ast e he a ha fuel).1] at h
  unfold resolveCall at h
  rw [splitDot_of_no_dot _ (names_no_dot e he).1] at h
  simp only [String.ofList_toList, canonical_resolves e he] at h
  exact finishCall_ok h

/-- the same through `parseFunction`: if the name bytes read are those of an alias resp. of the
canonical name and the reader is in the same state afterwards, the results are the same -/
theorem parseFunction_alias (e : String × List String × Nat × Option Nat) (he : e ∈ Generated.functionTable)
    (a : String) (ha : a ∈ e.2.1) (fuel : Nat) (ra rc ra1 rc1 r2 : Reader) (nba nbc : List Byte)
    (hwsa : eatWhitespace (fuel + 1) ra = (.ok (), ra1))
    (hwsc : eatWhitespace (fuel + 1) rc = (.ok (), rc1))
    (hna : readUntil fnNameStop (fuel + 1) [] ra1 = (.ok nba, r2))
    (hnc : readUntil fnNameStop (fuel + 1) [] rc1 = (.ok nbc, r2))
    (hua : utf8Decode? nba = some a.toList) (huc : utf8Decode? nbc = some e.1.toList) :
    parseFunction (fuel + 1) ra = parseFunction (fuel + 1) rc := by
  rw [parseFunction_eq]
  simp only [EM.bind_apply, liftP, hwsa, hwsc, hna, hnc, fromUtf8, hua, huc, EM.pure_apply]
  rw [(alias_same_ast e he a ha fuel).1]

/-! ### Non-vacuity for items 1 and 2 -/

/-- `(take . 2)` -/
def take2 : Expr := .call "take" [.extract 0 [], .const (.num (.pos 2))]

example : parseWholeExpr "(take . 2)".toList = .ok take2 := isOk_eq (by decide +kernel)
example : WellFormed take2 := by decide +kernel
/-- a nested call; the parsed AST is well-formed by the theorem -/
example : ∃ e, parseWholeExpr "(? (and true (not false)) (size .a#1) \"x\")".toList = .ok e ∧ WellFormed e := by
  cases h : parseWholeExpr "(? (and true (not false)) (size .a#1) \"x\")".toList with
  | ok e => exact ⟨e, rfl, parseWholeExpr_well_formed h⟩
  | error x =>
    have : (match parseWholeExpr "(? (and true (not false)) (size .a#1) \"x\")".toList with
      | .ok _ => true | .error _ => false) = true := by decide +kernel
    rw [h] at this; cases this
/-- ASTs that are not well-formed exist (so the theorem says something): unknown name, bad arity -/
example : ¬ WellFormed (.call "nosuch" []) ∧ ¬ WellFormed (.call "take" [.extract 0 []]) ∧
    ¬ WellFormed (.call "|" [.call "take" [.extract 0 [], .extract 0 [], .extract 0 []], .extract 0 []]) := by
  decide +kernel
/-- the alias `take_first` and the canonical `take` give the same AST -/
example : parseWholeExpr "(take_first . 2)".toList = .ok take2 := isOk_eq (by decide +kernel)
example : ("take", ["take_first"], 2, some 2) ∈ Generated.functionTable := by decide +kernel
/-- rejections -/
example : isRejected (parseWholeExpr "(nosuch 1)".toList) 0 "nosuch" = true := by decide +kernel
example : isRejected (parseWholeExpr "(.nosuch 1)".toList) 0 "nosuch" = true := by decide +kernel
example : isRejected (parseWholeExpr "(take 1)".toList) 1 "take" = true := by decide +kernel
example : isRejected (parseWholeExpr "(take_first 1 2 3)".toList) 2 "take" = true := by decide +kernel
/-- `(.take)` has one argument (the implicit `.`): still too few -/
example : isRejected (parseWholeExpr "(.take)".toList) 1 "take" = true := by decide +kernel
/-- hypotheses of `unknown_function_rejected` / `arity_rejected` -/
example : findFunction (String.ofList (splitDot "nosuch".toList).1) = none := by decide +kernel
def exReader : Reader := Reader.ofBytes (utf8 " 1)".toList)
example : ∃ r r1 args b r2, findFunction (String.ofList (splitDot "take".toList).1) = some ⟨"take", 2, some 2⟩ ∧
    parseArgs 50 (splitDot "take".toList).2 r = (.ok args, r1) ∧ next r1 = (.ok b, r2) ∧
    args.length < 2 := by
  have h1 : (parseArgs 50 [] exReader).1 = .ok [.const (.num (.pos 1))] := isOkList_eq (by decide +kernel)
  have h2 : ∃ b, (next (parseArgs 50 [] exReader).2).1 = .ok b := by
    cases h : (next (parseArgs 50 [] exReader).2).1 with
    | ok b => exact ⟨b, rfl⟩
    | error e =>
      have : (match (next (parseArgs 50 [] exReader).2).1 with | .ok _ => true | .error _ => false) = true := by
        decide +kernel
      rw [h] at this; cases this
  obtain ⟨b, h2⟩ := h2
  exact ⟨exReader, _, _, b, _, by decide +kernel, Prod.ext h1 rfl, Prod.ext h2 rfl, by decide⟩

-- #print axioms parsed_ast_well_formed
-- #print axioms parseWholeExpr_well_formed
-- #print axioms alias_same_ast

end Jawk.PR
