/-
  Property C01: every conforming serialisation of a JSON value (`Ser v bs`, `Jawk/Spec/Json.lean`) is read
  by `next_json_value` as exactly that value, and a stream of such texts separated by white space is read
  value by value (`stream_fidelity`).
-/
import Jawk.Lemmas.RoundTrip
import Jawk.Lemmas.FloatBridge
import Jawk.Spec.Json
namespace Jawk.Ser
open Jawk Reader Jawk.RT

/-! ### The character classes of the specification are those of the reader -/

theorem isWs_of_IsWs {b : Byte} (h : IsWs b) : isWs b = true := by
  rcases h with rfl | rfl | rfl | rfl <;> rfl

theorem ws_of_Ws {w : List Byte} (h : Ws w) : ∀ b ∈ w, isWs b = true :=
  fun b hb => isWs_of_IsWs (h b hb)

theorem IsWs_of_isWs {b : Byte} (h : isWs b = true) : IsWs b := by
  simp only [isWs, Bool.or_eq_true, decide_eq_true_eq] at h
  unfold IsWs
  rcases h with ((h | h) | h) | h <;> simp [h]

theorem isDigit_iff (b : Byte) : isDigit b = true ↔ IsDigit b := by
  simp [isDigit, IsDigit]

theorem digits_of_run {ds : List Byte} (h : DigitRun ds) : ∀ b ∈ ds, isDigit b = true :=
  fun b hb => (isDigit_iff b).2 (h.2 b hb)

theorem asciiStr_eq (bs : List Byte) : asciiStr bs = bytesToStr bs := rfl

theorem delim_of_delimited {v : JV} {rest : List Byte} (h : Delimited v rest) : Delim v rest := by
  cases v <;> try exact True.intro
  intro b hb
  obtain ⟨h1, h2⟩ := h b hb
  refine ⟨?_, h2⟩
  cases hd : isDigit b with
  | false => rfl
  | true => exact absurd ((isDigit_iff b).1 hd) h1

theorem delimited_of_delim {v : JV} {rest : List Byte} (h : Delim v rest) : Delimited v rest := by
  cases v <;> try exact True.intro
  intro b hb
  obtain ⟨h1, h2⟩ := h b hb
  exact ⟨fun hd => by rw [(isDigit_iff b).2 hd] at h1; exact Bool.noConfusion h1, h2⟩

/-! ### Strings -/

theorem hexDigit_eq_hexVal (b : Byte) : hexDigit? b = hexVal b := by
  simp only [hexDigit?, hexVal, UInt8.le_iff_toNat_le, Bool.and_eq_true, decide_eq_true_eq]
  split
  · rfl
  · split
    · rename_i h; simp at h; congr 1; omega
    · split
      · rename_i h; simp at h; congr 1; omega
      · rfl

theorem hexDigit_lt {b : Byte} {d : Nat} (h : hexDigit? b = some d) : d < 16 := by
  unfold hexDigit? at h
  split at h
  · rename_i h1
    simp only [Option.some.injEq] at h
    have := h1.2; rw [UInt8.le_iff_toNat_le] at this; simp at this; omega
  · split at h
    · rename_i h1
      simp only [Option.some.injEq] at h
      have := h1.2; rw [UInt8.le_iff_toNat_le] at this; simp at this; omega
    · split at h
      · rename_i h1
        simp only [Option.some.injEq] at h
        have := h1.2; rw [UInt8.le_iff_toNat_le] at this; simp at this; omega
      · cases h

/-- the two-character escapes: what the specification says they denote is what `read_string` appends -/
theorem escapeChar_simple {e : Byte} {c : Char} (h : escapeChar? e = some c) :
    ∃ b, simpleEscape e = some b ∧ String.utf8EncodeChar c = [b] := by
  unfold escapeChar? at h
  repeat' split at h
  all_goals first
    | (cases h; subst_vars; exact ⟨_, rfl, rfl⟩)
    | cases h

theorem charOfNat_valid (n : Nat) (h : n.isValidChar) : charOfNat? n = some (Char.ofNat n) := by
  simp only [charOfNat?, h, dite_true, Option.some.injEq, Char.ofNat, Char.ofNatAux]
  apply Char.ext
  apply UInt32.toNat_inj.1
  simp [UInt32.toNat_ofNat']
  have : n < 1114112 := by
    rcases h with h | h <;> omega
  omega

theorem readHex4_four {h1 h2 h3 h4 : Byte} {d1 d2 d3 d4 : Nat}
    (e1 : hexVal h1 = some d1) (e2 : hexVal h2 = some d2) (e3 : hexVal h3 = some d3) (e4 : hexVal h4 = some d4)
    (tail : List Byte) (r : Reader) (b : Byte) (hr : At r b (h1 :: h2 :: h3 :: h4 :: tail)) :
    ∃ r', readHex4 4 0 r = (.ok (((d1 * 16 + d2) * 16 + d3) * 16 + d4), r') ∧ At r' h4 tail := by
  obtain ⟨r1, n1, hr1⟩ := next_at_cons hr
  obtain ⟨r2, n2, hr2⟩ := next_at_cons hr1
  obtain ⟨r3, n3, hr3⟩ := next_at_cons hr2
  obtain ⟨r4, n4, hr4⟩ := next_at_cons hr3
  refine ⟨r4, ?_, hr4⟩
  rw [readHex4, PM.bind_ok n1]
  simp only [e1]
  rw [readHex4, PM.bind_ok n2]
  simp only [e2]
  rw [readHex4, PM.bind_ok n3]
  simp only [e3]
  rw [readHex4, PM.bind_ok n4]
  simp only [e4]
  simp [readHex4]

/-- the bytes of a raw character are neither quote nor backslash -/
theorem raw_bytes (c : Char) (h1 : c ≠ '"') (h2 : c ≠ '\\') :
    ∀ x ∈ String.utf8EncodeChar c, x ≠ 34 ∧ x ≠ 92 := by
  by_cases hlt : c.toNat < 127
  · have hlt' : c.toNat < 128 := by omega
    rw [utf8EncodeChar_ascii c hlt']
    intro x hx
    simp only [List.mem_cons, List.not_mem_nil, or_false] at hx
    subst hx
    constructor
    · intro hq
      exact h1 (char_eq_of_toNat c 34 (byteOf_eq_iff c hlt' 34 (by decide) hq))
    · intro hq
      exact h2 (char_eq_of_toNat c 92 (byteOf_eq_iff c hlt' 92 (by decide) hq))
  · exact utf8EncodeChar_high c (by omega)

/-- one item is read as the UTF-8 bytes of its character, in at most as many loop turns as it has bytes -/
theorem readStringLoop_item {c : Char} {bs : List Byte} (h : StrItem c bs) (tail : List Byte) :
    ∃ k, k ≤ bs.length ∧
      ∀ (r : Reader) (b : Byte), At r b (bs ++ tail) → ∀ (fuel : Nat) (acc : List Byte),
      ∃ r' b', readStringLoop (fuel + k) acc r = readStringLoop fuel (acc ++ String.utf8EncodeChar c) r' ∧
        At r' b' tail := by
  cases h with
  | raw c h1 h2 _ =>
    refine ⟨_, Nat.le_refl _, ?_⟩
    intro r b hr fuel acc
    exact readStringLoop_raw _ (raw_bytes c h1 h2) tail r b hr fuel acc
  | esc e c he =>
    obtain ⟨x, e2, e3⟩ := escapeChar_simple he
    refine ⟨1, by simp, ?_⟩
    intro r b hr fuel acc
    obtain ⟨r1, hn1, hr1⟩ := next_at_cons (show At r b (92 :: (e :: tail)) from hr)
    obtain ⟨r2, hn2, hr2⟩ := next_at_cons hr1
    refine ⟨r2, _, ?_, hr2⟩
    rw [readStringLoop, PM.bind_ok hn1]
    simp only [show ¬ ((92 : Byte) = 34) by decide, if_false, if_true]
    rw [PM.bind_ok hn2]
    simp only [e2, e3]
  | uni h1 h2 h3 h4 d1 d2 d3 d4 e1 e2 e3 e4 hns =>
    refine ⟨1, by simp, ?_⟩
    intro r b hr fuel acc
    obtain ⟨r1, hn1, hr1⟩ := next_at_cons (show At r b (92 :: (117 :: h1 :: h2 :: h3 :: h4 :: tail)) from hr)
    obtain ⟨r2, hn2, hr2⟩ := next_at_cons hr1
    rw [hexDigit_eq_hexVal] at e1 e2 e3 e4
    obtain ⟨r3, hh, hr3⟩ := readHex4_four e1 e2 e3 e4 tail r2 _ hr2
    have l1 := hexDigit_lt (hexDigit_eq_hexVal h1 ▸ e1)
    have l2 := hexDigit_lt (hexDigit_eq_hexVal h2 ▸ e2)
    have l3 := hexDigit_lt (hexDigit_eq_hexVal h3 ▸ e3)
    have l4 := hexDigit_lt (hexDigit_eq_hexVal h4 ▸ e4)
    have hvalid : (((d1 * 16 + d2) * 16 + d3) * 16 + d4).isValidChar := by
      rcases hns with h | h
      · exact Or.inl h
      · exact Or.inr ⟨h, by omega⟩
    refine ⟨r3, _, ?_, hr3⟩
    rw [readStringLoop, PM.bind_ok hn1]
    simp only [show ¬ ((92 : Byte) = 34) by decide, if_false, if_true]
    rw [PM.bind_ok hn2]
    simp only [show simpleEscape 117 = none by decide, if_true]
    rw [PM.bind_ok hh]
    simp only [charOfNat_valid _ hvalid]

theorem readStringLoop_strBody {s : Str} {body : List Byte} (h : StrBody s body) (tail : List Byte) :
    ∃ k, k ≤ body.length ∧
      ∀ (r : Reader) (b : Byte), At r b (body ++ tail) → ∀ (fuel : Nat) (acc : List Byte),
      ∃ r' b', readStringLoop (fuel + k) acc r = readStringLoop fuel (acc ++ utf8 s) r' ∧
        At r' b' tail := by
  induction h with
  | nil =>
    refine ⟨0, by simp, ?_⟩
    intro r b hr fuel acc
    exact ⟨r, b, by simp [utf8_nil], by simpa using hr⟩
  | @cons c bs s rest hi _ ih =>
    obtain ⟨k2, hk2, h2⟩ := ih
    obtain ⟨k1, hk1, h1⟩ := readStringLoop_item hi (rest ++ tail)
    refine ⟨k2 + k1, by simp; omega, ?_⟩
    intro r b hr fuel acc
    rw [List.append_assoc] at hr
    obtain ⟨r1, b1, e1, hr1⟩ := h1 r b hr (fuel + k2) acc
    obtain ⟨r2, b2, e2, hr2⟩ := h2 r1 b1 hr1 fuel (acc ++ String.utf8EncodeChar c)
    refine ⟨r2, b2, ?_, hr2⟩
    rw [← Nat.add_assoc, e1, e2, utf8_cons, List.append_assoc]

/-- `read_string` (the opening quote is the current byte) reads any conforming string body -/
theorem readString_strBody {s : Str} {body : List Byte} (h : StrBody s body) (rest : List Byte) (r : Reader)
    (b : Byte) (hr : At r b (body ++ 34 :: rest)) (fuel : Nat) (hf : body.length < fuel) :
    ∃ r', readStringLoop fuel [] r = (.ok s, r') ∧ Ready r' rest := by
  obtain ⟨k, hk, h⟩ := readStringLoop_strBody h (34 :: rest)
  obtain ⟨r1, b1, e1, hr1⟩ := h r b hr (fuel - k - 1 + 1) []
  obtain ⟨r2, hn2, hr2⟩ := next_at_cons hr1
  obtain ⟨x, r3, hn3, hr3⟩ := next_at_ready hr2
  refine ⟨r3, ?_, hr3⟩
  rw [show fuel = fuel - k - 1 + 1 + k by omega, e1, readStringLoop, PM.bind_ok hn2]
  simp only [if_true]
  rw [PM.bind_ok hn3]
  simp [utf8Decode_utf8]


/-! ### Numbers -/

/-- the sign of the exponent in `read_number` -/
def expSign (chars : List Byte) : PM (List Byte) := do
  match (← peek) with
  | some 45 => do
    let _ ← next
    pure (chars ++ [45])
  | some 43 => do
    let _ ← next
    pure chars
  | _ => pure chars

theorem expBlock_eq (fuel : Nat) (chars : List Byte) (double : Bool) :
    expBlock fuel chars double = (do
      let p ← peek
      if p = some 101 ∨ p = some 69 then
        let _ ← next
        let chars ← expSign (chars ++ [69])
        let ex ← readDigits fuel []
        pure (chars ++ ex, true)
      else pure (chars, double)) := rfl

theorem expSign_minus {r : Reader} {tl : List Byte} (hr : Peeked r (45 :: tl)) (chars : List Byte) :
    ∃ r', expSign chars r = (.ok (chars ++ [45]), r') ∧ Peeked r' tl := by
  obtain ⟨r1, hn, hr1⟩ := next_at (show At r 45 tl from hr)
  refine ⟨r1, ?_, hr1⟩
  unfold expSign
  rw [PM.bind_ok (peek_peeked hr)]
  simp only [List.head?_cons]
  rw [PM.bind_ok hn]
  rfl

theorem expSign_plus {r : Reader} {tl : List Byte} (hr : Peeked r (43 :: tl)) (chars : List Byte) :
    ∃ r', expSign chars r = (.ok chars, r') ∧ Peeked r' tl := by
  obtain ⟨r1, hn, hr1⟩ := next_at (show At r 43 tl from hr)
  refine ⟨r1, ?_, hr1⟩
  unfold expSign
  rw [PM.bind_ok (peek_peeked hr)]
  simp only [List.head?_cons]
  rw [PM.bind_ok hn]
  rfl

theorem expSign_none {r : Reader} {tl : List Byte} (hr : Peeked r tl) (h1 : tl.head? ≠ some 45)
    (h2 : tl.head? ≠ some 43) (chars : List Byte) : expSign chars r = (.ok chars, r) := by
  unfold expSign
  rw [PM.bind_ok (peek_peeked hr)]
  refine congrFun (?_ : _ = (pure chars : PM (List Byte))) r
  split
  · rename_i h; exact absurd h h1
  · rename_i h; exact absurd h h2
  · rfl


theorem isDigit_ne_sign {b : Byte} (h : isDigit b = true) : b ≠ 45 ∧ b ≠ 43 := by
  simp only [isDigit, Bool.and_eq_true, decide_eq_true_eq, UInt8.le_iff_toNat_le] at h
  constructor <;> (intro hb; subst hb; simp at h)

theorem expBlock_some (x : ExpPart) (hx : DigitRun x.digits) (rest : List Byte)
    (hrest : ∀ b ∈ rest.head?, isDigit b = false) {r : Reader} (hr : Peeked r (x.bytes ++ rest))
    (fuel : Nat) (hf : x.digits.length < fuel) (chars : List Byte) (double : Bool) :
    ∃ r', expBlock fuel chars double r = (.ok (chars ++ x.norm, true), r') ∧ Peeked r' rest := by
  obtain ⟨up, sg, ds⟩ := x
  simp only [ExpPart.bytes, ExpPart.norm, List.cons_append, List.append_assoc] at hr hx hf ⊢
  have hp := peek_peeked hr
  obtain ⟨r1, hn1, hr1⟩ := next_at
    (show At r (if up = true then 69 else 101) (signBytes sg ++ (ds ++ rest)) from hr)
  have hsign : ∃ r2, expSign (chars ++ [69]) r1 =
      (.ok (chars ++ [69] ++ (if sg = some true then [45] else [])), r2) ∧ Peeked r2 (ds ++ rest) := by
    cases sg with
    | none =>
      refine ⟨r1, ?_, by simpa [signBytes] using hr1⟩
      obtain ⟨d, ds', rfl⟩ := List.exists_cons_of_ne_nil hx.1
      have := isDigit_ne_sign (digits_of_run hx d (by simp))
      rw [expSign_none (tl := d :: (ds' ++ rest)) (by simpa [signBytes] using hr1) (by simp [this.1])
        (by simp [this.2])]
      simp
    | some b =>
      cases b with
      | true =>
        obtain ⟨r2, h2, hr2⟩ := expSign_minus (tl := ds ++ rest) (by simpa [signBytes] using hr1)
          (chars ++ [69])
        exact ⟨r2, by simpa using h2, hr2⟩
      | false =>
        obtain ⟨r2, h2, hr2⟩ := expSign_plus (tl := ds ++ rest) (by simpa [signBytes] using hr1)
          (chars ++ [69])
        exact ⟨r2, by simpa using h2, hr2⟩
  obtain ⟨r2, hs, hr2⟩ := hsign
  obtain ⟨r3, hd, hr3⟩ := readDigits_ready ds (digits_of_run hx) rest hrest r2 hr2.ready fuel hf []
  refine ⟨r3, ?_, hr3⟩
  have hmk : (some (if up = true then (69 : Byte) else 101) = some 101 ∨
      some (if up = true then (69 : Byte) else 101) = some 69) := by cases up <;> simp
  simp only [List.head?_cons] at hp
  rw [expBlock_eq, PM.bind_ok hp, if_pos hmk, PM.bind_ok hn1, PM.bind_ok hs, PM.bind_ok hd]
  simp

/-- the exponent text, as bytes -/
def expBytes : Option ExpPart → List Byte
  | none => []
  | some x => x.bytes

def expNorm : Option ExpPart → List Byte
  | none => []
  | some x => x.norm

theorem bytes_eq (t : NumText) :
    t.bytes = (if t.neg then [45] else []) ++ (t.int ++ (fracBytes t.frac ++ expBytes t.exp)) := by
  unfold NumText.bytes expBytes
  cases t.exp <;> simp

theorem norm_eq (t : NumText) :
    t.norm = (if t.neg then [45] else []) ++ t.int ++ fracBytes t.frac ++ expNorm t.exp := by
  unfold NumText.norm expNorm
  cases t.exp <;> rfl

theorem ExpPart.bytes_head (x : ExpPart) : ∃ c tl, x.bytes = c :: tl ∧ (c = 101 ∨ c = 69) := by
  refine ⟨_, _, rfl, ?_⟩
  cases x.upper <;> simp

/-- `read_number` consumes the whole number text and hands the normalised spelling to the conversion -/
theorem readNumber_full (t : NumText) (ht : t.WF) (rest : List Byte) (hrest : NumDelim rest) (r : Reader)
    (hr : Ready r (t.bytes ++ rest)) (fuel : Nat) (hf : t.bytes.length < fuel) :
    ∃ r', readNumber fuel r = finishNumber t.neg t.int t.norm (t.frac.isSome || t.exp.isSome) r' ∧
      Peeked r' rest := by
  obtain ⟨hint, hfrac, hexp⟩ := ht
  rw [bytes_eq] at hr hf
  rw [norm_eq]
  obtain ⟨neg, ip, fp, ex⟩ := t
  simp only at hr hf hint hfrac hexp ⊢
  obtain ⟨c, ip', rfl⟩ := List.exists_cons_of_ne_nil hint.1.1
  have hip := digits_of_run hint.1
  have hc := isDigit_ne (hip c (by simp))
  -- what follows the fraction does not extend it
  have hE : ∀ b ∈ (expBytes ex ++ rest).head?, isDigit b = false ∧ b ≠ 46 := by
    intro b hb
    cases ex with
    | none => simp only [expBytes, List.nil_append] at hb; exact ⟨(hrest b hb).1, (hrest b hb).2.1⟩
    | some x =>
      obtain ⟨m, tl, hx, hm⟩ := x.bytes_head
      simp only [expBytes, hx, List.cons_append, List.head?_cons, Option.mem_def, Option.some.injEq] at hb
      subst hb
      rcases hm with rfl | rfl <;> decide
  -- sign
  have hsign : ∃ r1, signBlock r = (.ok neg, r1) ∧
      Ready r1 ((c :: ip') ++ (fracBytes fp ++ (expBytes ex ++ rest))) := by
    cases neg with
    | true =>
      obtain ⟨r1, h1, h2⟩ := signBlock_neg (r := r) (c := c)
        (bs := ip' ++ (fracBytes fp ++ (expBytes ex ++ rest))) (by simpa using hr)
      exact ⟨r1, h1, h2.ready⟩
    | false =>
      obtain ⟨r1, h1, h2⟩ := signBlock_pos (r := r)
        (bs := (c :: ip') ++ (fracBytes fp ++ (expBytes ex ++ rest)))
        (by simpa using hr) (by simp; exact hc.1)
      exact ⟨r1, h1, h2.ready⟩
  obtain ⟨r1, hs, hr1⟩ := hsign
  have hlen : (c :: ip').length < fuel ∧ (∀ d, fp = some d → d.length < fuel) ∧
      (∀ x, ex = some x → x.digits.length < fuel) := by
    refine ⟨?_, ?_, ?_⟩
    · simp at hf ⊢; omega
    · intro d hd; subst hd; simp [fracBytes] at hf; omega
    · intro x hx; subst hx; simp [expBytes, ExpPart.bytes] at hf; omega
  -- integer digits
  have hnd : ∀ b ∈ (fracBytes fp ++ (expBytes ex ++ rest)).head?, isDigit b = false := by
    intro b hb
    cases fp with
    | none => simp only [fracBytes, List.nil_append] at hb; exact (hE b hb).1
    | some d => simp [fracBytes] at hb; subst hb; rfl
  obtain ⟨r2, hd2, hr2⟩ := readDigits_ready (c :: ip') hip _ hnd r1 hr1 fuel hlen.1 []
  simp only [List.nil_append] at hd2
  rw [readNumber_eq, PM.bind_ok hs, PM.bind_ok hd2]
  -- fraction
  have hfracB : ∃ r3, fracBlock fuel ((if neg = true then [45] else []) ++ (c :: ip')) r2 =
      (.ok ((if neg = true then [45] else []) ++ (c :: ip') ++ fracBytes fp, fp.isSome), r3) ∧
      Peeked r3 (expBytes ex ++ rest) := by
    cases fp with
    | none =>
      simp only [fracBytes, List.nil_append] at hr2
      have h46 : (expBytes ex ++ rest).head? ≠ some 46 := fun h => (hE 46 (by simp [h])).2 rfl
      exact ⟨r2, by rw [fracBlock_none hr2 h46]; simp [fracBytes], hr2⟩
    | some d =>
      obtain ⟨r3, hf3, hr3⟩ := fracBlock_some d (expBytes ex ++ rest) (digits_of_run hfrac)
        (fun b hb => (hE b hb).1) (r := r2) (by simpa [fracBytes] using hr2) fuel (hlen.2.1 d rfl)
        ((if neg = true then [45] else []) ++ (c :: ip'))
      exact ⟨r3, by rw [hf3]; simp [fracBytes], hr3⟩
  obtain ⟨r3, hf3, hr3⟩ := hfracB
  rw [PM.bind_ok hf3]
  simp only []
  -- exponent
  cases ex with
  | none =>
    simp only [expBytes, List.nil_append] at hr3
    have h101 : rest.head? ≠ some 101 := fun h => (hrest 101 (by simp [h])).2.2.1 rfl
    have h69 : rest.head? ≠ some 69 := fun h => (hrest 69 (by simp [h])).2.2.2 rfl
    rw [PM.bind_ok (expBlock_none hr3 h101 h69 fuel _ _)]
    exact ⟨r3, by simp [expNorm], hr3⟩
  | some x =>
    obtain ⟨r4, h4, hr4⟩ := expBlock_some x hexp rest (fun b hb => (hrest b hb).1) (r := r3)
      (by simpa [expBytes] using hr3) fuel (hlen.2.2 x rfl)
      ((if neg = true then [45] else []) ++ (c :: ip') ++ fracBytes fp) fp.isSome
    rw [PM.bind_ok h4]
    exact ⟨r4, by simp [expNorm], hr4⟩


/-- the conversion at the end of `read_number` computes the value the specification assigns to the text -/
theorem finishNumber_value (t : NumText) (hne : t.int ≠ []) (n : Num) (hv : t.value? = some n) (r : Reader) :
    finishNumber t.neg t.int t.norm (t.frac.isSome || t.exp.isSome) r = (.ok (.num n), r) := by
  unfold NumText.value? at hv
  simp only [] at hv
  have hemp : t.int.isEmpty = false := by
    cases h : t.int with
    | nil => exact absurd h hne
    | cons _ _ => rfl
  by_cases hC : t.frac.isNone ∧ t.exp.isNone ∧
      (if t.neg then F64.digitsToNat (asciiStr t.int) ≤ 2 ^ 63 else F64.digitsToNat (asciiStr t.int) < 2 ^ 64)
  · rw [if_pos hC] at hv
    obtain ⟨h1, h2, h3⟩ := hC
    have hd : (t.frac.isSome || t.exp.isSome) = false := by
      cases hf : t.frac <;> cases he : t.exp <;> simp_all
    rw [hd]
    cases hneg : t.neg with
    | true =>
      simp only [hneg, if_true, Option.some.injEq] at hv h3
      subst hv
      have h3' : F64.digitsToNat (bytesToStr t.int) ≤ 2 ^ 63 := h3
      simp only [finishNumber, parseI64Neg, hemp, h3', Bool.false_eq_true, if_false, if_true]
      rfl
    | false =>
      simp only [hneg, Bool.false_eq_true, if_false, Option.some.injEq] at hv h3
      subst hv
      have h3' : F64.digitsToNat (bytesToStr t.int) < 2 ^ 64 := h3
      simp only [finishNumber, parseU64, h3', Bool.false_eq_true, if_false, if_true]
      rfl
  · rw [if_neg hC] at hv
    have hpd : parseToDouble t.norm r = (.ok (.num n), r) := by
      cases hp : F64.parseDecimal (bytesToStr t.norm) with
      | none =>
        have hp' : F64.parseDecimal (asciiStr t.norm) = none := hp
        simp [hp'] at hv
      | some f =>
        have hp' : F64.parseDecimal (asciiStr t.norm) = some f := hp
        simp only [hp'] at hv
        by_cases hfin : f.isFinite = true
        · simp only [hfin, if_true, Option.some.injEq] at hv
          subst hv
          simp [parseToDouble, hp, hfin]
        · simp [hfin] at hv
    by_cases hd : (t.frac.isSome || t.exp.isSome) = true
    · rw [hd]; simp only [finishNumber, if_true]; exact hpd
    · have hd' : (t.frac.isSome || t.exp.isSome) = false := by simpa using hd
      have h12 : t.frac.isNone ∧ t.exp.isNone := by
        cases hf : t.frac <;> cases he : t.exp <;> simp_all
      rw [hd']
      cases hneg : t.neg with
      | true =>
        have h3 : ¬ (F64.digitsToNat (bytesToStr t.int) ≤ 2 ^ 63) := by
          intro h; exact hC ⟨h12.1, h12.2, by rw [hneg, if_pos rfl]; exact h⟩
        simp only [finishNumber, Bool.false_eq_true, if_false, if_true, parseI64Neg, hemp, h3]
        exact hpd
      | false =>
        have h3 : ¬ (F64.digitsToNat (bytesToStr t.int) < 2 ^ 64) := by
          intro h; exact hC ⟨h12.1, h12.2, by rw [hneg, if_neg (by decide)]; exact h⟩
        simp only [finishNumber, Bool.false_eq_true, if_false, parseU64, h3]
        exact hpd

/-- the first byte of a number text is `-` or a digit -/
theorem bytes_head (t : NumText) (ht : t.WF) : ∃ c tl, t.bytes = c :: tl ∧ (c = 45 ∨ isDigit c = true) := by
  rw [bytes_eq]
  obtain ⟨c, ip', hc⟩ := List.exists_cons_of_ne_nil ht.1.1.1
  cases t.neg with
  | true => exact ⟨45, _, rfl, Or.inl rfl⟩
  | false =>
    rw [hc]
    exact ⟨c, _, rfl, Or.inr (digits_of_run ht.1.1 c (by simp [hc]))⟩

/-! ### The statement proved by induction on the derivation -/

/-- `nextValue` reads the text `bs` as the value `v`, after any white space `ws`, and leaves the reader
ready for `rest` -/
def VSpec (v : JV) (bs : List Byte) : Prop :=
  ∀ (ws : List Byte), (∀ b ∈ ws, isWs b = true) → ∀ (rest : List Byte), Delim v rest →
    ∀ (r : Reader), Ready r (ws ++ (bs ++ rest)) →
    ∀ (fuel : Nat), 2 * (ws.length + bs.length) + 2 ≤ fuel →
    ∃ r', nextValue fuel r = (.ok (some v), r') ∧ Ready r' rest

theorem vspec_word (v : JV) (word : String) (c : Byte) (tail : List Byte) (hc : isWs c = false)
    (hd : ∀ fuel, dispatch fuel c = (do readWordTail word tail; pure (some v))) :
    VSpec v (c :: tail) := by
  intro ws hws rest _ r hr fuel hf
  obtain ⟨fuel, rfl⟩ : ∃ k, fuel = k + 1 := ⟨fuel - 1, by omega⟩
  obtain ⟨r1, hr1, hnv⟩ := nextValue_dispatch ws hws c (tail ++ rest) hc r (by simpa using hr) fuel
    (by omega)
  obtain ⟨r2, hw, hr2⟩ := readWordTail_at word tail rest r1 c hr1
  refine ⟨r2, ?_, hr2⟩
  rw [hnv, hd, PM.bind_ok hw]
  rfl

theorem vspec_null : VSpec .null [110, 117, 108, 108] :=
  vspec_word .null "null" 110 [117, 108, 108] rfl (fun _ => rfl)

theorem vspec_true : VSpec (.bool true) [116, 114, 117, 101] :=
  vspec_word (.bool true) "true" 116 [114, 117, 101] rfl (fun _ => rfl)

theorem vspec_false : VSpec (.bool false) [102, 97, 108, 115, 101] :=
  vspec_word (.bool false) "false" 102 [97, 108, 115, 101] rfl (fun _ => rfl)

theorem vspec_str {s : Str} {body : List Byte} (h : StrBody s body) : VSpec (.str s) (34 :: (body ++ [34])) := by
  intro ws hws rest _ r hr fuel hf
  obtain ⟨fuel, rfl⟩ : ∃ k, fuel = k + 1 := ⟨fuel - 1, by omega⟩
  obtain ⟨r1, hr1, hnv⟩ := nextValue_dispatch ws hws 34 (body ++ 34 :: rest) rfl r
    (by simpa using hr) fuel (by omega)
  obtain ⟨r2, hw, hr2⟩ := readString_strBody h rest r1 34 hr1 (fuel + 1)
    (by simp at hf; omega)
  refine ⟨r2, ?_, hr2⟩
  rw [hnv]
  simp only [dispatch, show ¬ ((34 : Byte) = 116) by decide, show ¬ ((34 : Byte) = 102) by decide,
    show ¬ ((34 : Byte) = 110) by decide, if_false, if_true]
  rw [PM.bind_ok hw]
  rfl

theorem vspec_num {t : NumText} {n : Num} (ht : t.WF) (hv : t.value? = some n) : VSpec (.num n) t.bytes := by
  intro ws hws rest hd r hr fuel hf
  obtain ⟨fuel, rfl⟩ : ∃ k, fuel = k + 1 := ⟨fuel - 1, by omega⟩
  obtain ⟨c, bs, hcb, hc⟩ := bytes_head t ht
  have hr0 := hr
  rw [hcb] at hr
  obtain ⟨r1, hr1, hnv⟩ := nextValue_dispatch ws hws c (bs ++ rest) (isWs_false_of_num c hc) r
    (by simpa using hr) fuel (by omega)
  obtain ⟨r2, hw, hr2⟩ := readNumber_full t ht rest hd r1
    (by rw [hcb]; simpa using hr1.ready) (fuel + 1) (by omega)
  refine ⟨r2, ?_, hr2.ready⟩
  rw [hnv, dispatch_num fuel c hc, PM.bind_ok]
  rotate_left
  · rw [hw]; exact finishNumber_value t ht.1.1.1 n hv r2
  · rfl


/-! ### First bytes -/

theorem headOK_of_num {c : Byte} (h : c = 45 ∨ isDigit c = true) : HeadOK c := by
  refine ⟨isWs_false_of_num c h, ?_, ?_⟩
  · rcases h with rfl | h
    · decide
    · intro e; subst e; simp [isDigit] at h
  · rcases h with rfl | h
    · decide
    · intro e; subst e; simp [isDigit] at h

/-- a JSON text starts with a byte that is neither white space nor a closing bracket -/
theorem ser_head {v : JV} {bs : List Byte} (h : Ser v bs) : ∃ c tl, bs = c :: tl ∧ HeadOK c := by
  cases h with
  | null => exact ⟨110, _, rfl, by decide⟩
  | true => exact ⟨116, _, rfl, by decide⟩
  | false => exact ⟨102, _, rfl, by decide⟩
  | str _ => exact ⟨34, _, rfl, by decide⟩
  | num ht _ =>
    obtain ⟨c, tl, h1, h2⟩ := bytes_head _ ht
    exact ⟨c, tl, h1, headOK_of_num h2⟩
  | arrEmpty _ => exact ⟨91, _, rfl, by decide⟩
  | arr _ _ => exact ⟨91, _, rfl, by decide⟩
  | objEmpty _ => exact ⟨123, _, rfl, by decide⟩
  | obj _ _ _ => exact ⟨123, _, rfl, by decide⟩

theorem ser_str_head {k : Str} {kb : List Byte} (h : Ser (.str k) kb) : ∃ tl, kb = 34 :: tl := by
  cases h with
  | str _ => exact ⟨_, rfl⟩

theorem elems_head {vs : List JV} {body : List Byte} (h : Elems vs body) :
    ∃ c tl, body = c :: tl ∧ HeadOK c := by
  cases h with
  | one hv _ =>
    obtain ⟨c, tl, rfl, hc⟩ := ser_head hv
    exact ⟨c, _, rfl, hc⟩
  | cons hv _ _ _ =>
    obtain ⟨c, tl, rfl, hc⟩ := ser_head hv
    exact ⟨c, _, rfl, hc⟩

theorem members_head {kvs : List (Str × JV)} {body : List Byte} (h : Members kvs body) :
    ∃ tl, body = 34 :: tl := by
  cases h with
  | one hk _ _ _ _ =>
    obtain ⟨tl, rfl⟩ := ser_str_head hk
    exact ⟨_, rfl⟩
  | cons hk _ _ _ _ _ _ =>
    obtain ⟨tl, rfl⟩ := ser_str_head hk
    exact ⟨_, rfl⟩

/-! ### Arrays -/

/-- `readArrayLoop` reads the elements `vs` from `body` (white space `ws0` pending), up to and including
the closing bracket -/
def ESpec (vs : List JV) (body : List Byte) : Prop :=
  ∀ (ws0 : List Byte), (∀ b ∈ ws0, isWs b = true) → ∀ (rest : List Byte) (acc : List JV) (r : Reader),
    Ready r (ws0 ++ (body ++ 93 :: rest)) →
    ∀ (fuel : Nat), 2 * (ws0.length + body.length) + 3 ≤ fuel →
    ∃ r', readArrayLoop fuel acc r = (.ok (.arr (acc ++ vs)), r') ∧ Ready r' rest

theorem espec_one {v : JV} {bs w : List Byte} (hv : VSpec v bs) (hw : Ws w) : ESpec [v] (bs ++ w) := by
  intro ws0 hws0 rest acc r hr fuel hf
  obtain ⟨fuel, rfl⟩ : ∃ k, fuel = k + 1 := ⟨fuel - 1, by omega⟩
  have hw' := ws_of_Ws hw
  simp only [List.append_assoc, List.length_append] at hr hf
  obtain ⟨r1, h1, hr1⟩ := hv ws0 hws0 (w ++ 93 :: rest)
    (Delim.of_numDelim (numDelim_ws_punct w hw' 93 rest punct_numDelim_93)) r hr fuel (by omega)
  obtain ⟨r2, h2, hr2⟩ := eatWhitespace_ready w hw' (93 :: rest)
    (by intro b hb; simp at hb; subst hb; rfl) r1 hr1 (fuel + 1) (by omega)
  obtain ⟨x, r3, h3, hr3⟩ := next_at_ready (show At r2 93 rest from hr2)
  refine ⟨r3, ?_, hr3⟩
  rw [readArrayLoop, PM.bind_ok h1]
  simp only []
  rw [PM.bind_ok h2, PM.bind_ok (peek_at hr2)]
  simp only [if_true]
  rw [PM.bind_ok h3]
  rfl

theorem espec_cons {v : JV} {bs w1 w2 : List Byte} {vs : List JV} {tl : List Byte}
    (hv : VSpec v bs) (hw1 : Ws w1) (hw2 : Ws w2) (ih : ESpec vs tl) :
    ESpec (v :: vs) (bs ++ (w1 ++ 44 :: (w2 ++ tl))) := by
  intro ws0 hws0 rest acc r hr fuel hf
  obtain ⟨fuel, rfl⟩ : ∃ k, fuel = k + 1 := ⟨fuel - 1, by omega⟩
  have hw1' := ws_of_Ws hw1
  have hw2' := ws_of_Ws hw2
  simp only [List.append_assoc, List.cons_append, List.length_append, List.length_cons] at hr hf
  obtain ⟨r1, h1, hr1⟩ := hv ws0 hws0 (w1 ++ 44 :: (w2 ++ (tl ++ 93 :: rest)))
    (Delim.of_numDelim (numDelim_ws_punct w1 hw1' 44 _ punct_numDelim_44)) r hr fuel (by omega)
  obtain ⟨r2, h2, hr2⟩ := eatWhitespace_ready w1 hw1' (44 :: (w2 ++ (tl ++ 93 :: rest)))
    (by intro b hb; simp at hb; subst hb; rfl) r1 hr1 (fuel + 1) (by omega)
  obtain ⟨r3, h3, hr3⟩ := next_at (show At r2 44 _ from hr2)
  obtain ⟨r4, h4, hr4⟩ := ih w2 hw2' rest (acc ++ [v]) r3 hr3.ready fuel (by omega)
  refine ⟨r4, ?_, hr4⟩
  rw [readArrayLoop, PM.bind_ok h1]
  simp only []
  rw [PM.bind_ok h2, PM.bind_ok (peek_at hr2)]
  simp only [show ¬ ((44 : Byte) = 93) by decide, if_false, if_true]
  rw [PM.bind_ok h3, h4]
  simp

theorem vspec_arrEmpty {w : List Byte} (hw : Ws w) : VSpec (.arr []) (91 :: (w ++ [93])) := by
  intro ws hws rest _ r hr fuel hf
  obtain ⟨fuel, rfl⟩ : ∃ k, fuel = k + 1 := ⟨fuel - 1, by omega⟩
  simp only [List.length_cons, List.length_append, List.length_nil] at hf
  obtain ⟨fuel, rfl⟩ : ∃ k, fuel = k + 1 := ⟨fuel - 1, by omega⟩
  obtain ⟨r1, hr1, hnv⟩ := nextValue_dispatch ws hws 91 (w ++ 93 :: rest) rfl r (by simpa using hr)
    (fuel + 1) (by omega)
  obtain ⟨r2, h2, hr2⟩ := next_at hr1
  obtain ⟨r3, h3, hr3⟩ := eatWhitespace_ready w (ws_of_Ws hw) (93 :: rest)
    (by intro b hb; simp at hb; subst hb; rfl) r2 hr2.ready (fuel + 1) (by omega)
  obtain ⟨x, r4, h4, hr4⟩ := next_at_ready (show At r3 93 rest from hr3)
  refine ⟨r4, ?_, hr4⟩
  rw [hnv, dispatch_arr, readArray, PM.bind_ok]
  rotate_left
  · rw [PM.bind_ok h2, PM.bind_ok h3, PM.bind_ok (peek_at hr3)]
    simp only [if_true]
    rw [PM.bind_ok h4]
    rfl
  · rfl

theorem vspec_arr {w : List Byte} {vs : List JV} {body : List Byte} (hw : Ws w) (he : Elems vs body)
    (ih : ESpec vs body) : VSpec (.arr vs) (91 :: (w ++ (body ++ [93]))) := by
  intro ws hws rest _ r hr fuel hf
  obtain ⟨fuel, rfl⟩ : ∃ k, fuel = k + 1 := ⟨fuel - 1, by omega⟩
  simp only [List.length_cons, List.length_append, List.length_nil] at hf
  obtain ⟨fuel, rfl⟩ : ∃ k, fuel = k + 1 := ⟨fuel - 1, by omega⟩
  obtain ⟨r1, hr1, hnv⟩ := nextValue_dispatch ws hws 91 (w ++ (body ++ 93 :: rest)) rfl r
    (by simpa using hr) (fuel + 1) (by omega)
  obtain ⟨r2, h2, hr2⟩ := next_at hr1
  obtain ⟨c, tl, hc1, hc2⟩ := elems_head he
  obtain ⟨r3, h3, hr3⟩ := eatWhitespace_ready w (ws_of_Ws hw) (c :: (tl ++ 93 :: rest))
    (by intro b hb; simp at hb; subst hb; exact hc2.1) r2
    (by have := hr2.ready; rw [hc1] at this; simpa using this) (fuel + 1) (by omega)
  obtain ⟨r4, h4, hr4⟩ := ih [] (by simp) rest [] r3 (by rw [hc1]; simpa using hr3.ready) fuel
    (by simp; omega)
  refine ⟨r4, ?_, hr4⟩
  rw [hnv, dispatch_arr, readArray, PM.bind_ok]
  rotate_left
  · rw [PM.bind_ok h2, PM.bind_ok h3, PM.bind_ok (peek_at hr3)]
    simp only [Option.some.injEq, hc2.2.1, if_false]
    exact h4
  · simp


/-! ### Objects -/

theorem punct_numDelim_58 : isDigit 58 = false ∧ (58 : Byte) ≠ 46 ∧ (58 : Byte) ≠ 101 ∧ (58 : Byte) ≠ 69 := by
  decide

/-- `readObjectLoop` reads the members `kvs` from `body` (white space `ws0` pending), up to and including
the closing brace, inserting them into `acc` -/
def MSpec (kvs : List (Str × JV)) (body : List Byte) : Prop :=
  ∀ (ws0 : List Byte), (∀ b ∈ ws0, isWs b = true) → ∀ (rest : List Byte) (acc : List (Str × JV))
    (r : Reader), Ready r (ws0 ++ (body ++ 125 :: rest)) →
    ∀ (fuel : Nat), 2 * (ws0.length + body.length) + 3 ≤ fuel →
    ∃ r', readObjectLoop fuel acc r = (.ok (.obj (insertAll acc kvs)), r') ∧ Ready r' rest

theorem mspec_one {k : Str} {kb w1 w2 : List Byte} {v : JV} {bs w3 : List Byte}
    (hk : VSpec (.str k) kb) (hw1 : Ws w1) (hw2 : Ws w2) (hv : VSpec v bs) (hw3 : Ws w3) :
    MSpec [(k, v)] (kb ++ (w1 ++ 58 :: (w2 ++ (bs ++ w3)))) := by
  intro ws0 hws0 rest acc r hr fuel hf
  obtain ⟨fuel, rfl⟩ : ∃ k, fuel = k + 1 := ⟨fuel - 1, by omega⟩
  have hw1' := ws_of_Ws hw1
  have hw2' := ws_of_Ws hw2
  have hw3' := ws_of_Ws hw3
  simp only [List.append_assoc, List.cons_append, List.length_append, List.length_cons] at hr hf
  obtain ⟨r1, h1, hr1⟩ := hk ws0 hws0 (w1 ++ 58 :: (w2 ++ (bs ++ (w3 ++ 125 :: rest)))) True.intro r hr
    fuel (by omega)
  obtain ⟨r2, h2, hr2⟩ := eatWhitespace_ready w1 hw1' (58 :: (w2 ++ (bs ++ (w3 ++ 125 :: rest))))
    (by intro b hb; simp at hb; subst hb; rfl) r1 hr1 (fuel + 1) (by omega)
  obtain ⟨r3, h3, hr3⟩ := next_at (show At r2 58 _ from hr2)
  obtain ⟨r4, h4, hr4⟩ := hv w2 hw2' (w3 ++ 125 :: rest)
    (Delim.of_numDelim (numDelim_ws_punct w3 hw3' 125 rest punct_numDelim_125)) r3 hr3.ready
    fuel (by omega)
  obtain ⟨r5, h5, hr5⟩ := eatWhitespace_ready w3 hw3' (125 :: rest)
    (by intro b hb; simp at hb; subst hb; rfl) r4 hr4 (fuel + 1) (by omega)
  obtain ⟨x, r6, h6, hr6⟩ := next_at_ready (show At r5 125 rest from hr5)
  refine ⟨r6, ?_, hr6⟩
  rw [readObjectLoop, PM.bind_ok h1]
  simp only []
  rw [PM.bind_ok h2, PM.bind_ok (peek_at hr2)]
  simp only [ne_eq, not_true_eq_false, if_false]
  rw [PM.bind_ok h3, PM.bind_ok h4]
  simp only []
  rw [PM.bind_ok h5, PM.bind_ok (peek_at hr5)]
  simp only [if_true]
  rw [PM.bind_ok h6]
  simp [insertAll]

theorem mspec_cons {k : Str} {kb w1 w2 : List Byte} {v : JV} {bs w3 w4 : List Byte}
    {kvs : List (Str × JV)} {tl : List Byte}
    (hk : VSpec (.str k) kb) (hw1 : Ws w1) (hw2 : Ws w2) (hv : VSpec v bs) (hw3 : Ws w3) (hw4 : Ws w4)
    (ih : MSpec kvs tl) :
    MSpec ((k, v) :: kvs) (kb ++ (w1 ++ 58 :: (w2 ++ (bs ++ (w3 ++ 44 :: (w4 ++ tl)))))) := by
  intro ws0 hws0 rest acc r hr fuel hf
  obtain ⟨fuel, rfl⟩ : ∃ k, fuel = k + 1 := ⟨fuel - 1, by omega⟩
  have hw1' := ws_of_Ws hw1
  have hw2' := ws_of_Ws hw2
  have hw3' := ws_of_Ws hw3
  have hw4' := ws_of_Ws hw4
  simp only [List.append_assoc, List.cons_append, List.length_append, List.length_cons] at hr hf
  obtain ⟨r1, h1, hr1⟩ := hk ws0 hws0
    (w1 ++ 58 :: (w2 ++ (bs ++ (w3 ++ 44 :: (w4 ++ (tl ++ 125 :: rest)))))) True.intro r hr
    fuel (by omega)
  obtain ⟨r2, h2, hr2⟩ := eatWhitespace_ready w1 hw1'
    (58 :: (w2 ++ (bs ++ (w3 ++ 44 :: (w4 ++ (tl ++ 125 :: rest))))))
    (by intro b hb; simp at hb; subst hb; rfl) r1 hr1 (fuel + 1) (by omega)
  obtain ⟨r3, h3, hr3⟩ := next_at (show At r2 58 _ from hr2)
  obtain ⟨r4, h4, hr4⟩ := hv w2 hw2' (w3 ++ 44 :: (w4 ++ (tl ++ 125 :: rest)))
    (Delim.of_numDelim (numDelim_ws_punct w3 hw3' 44 _ punct_numDelim_44)) r3 hr3.ready
    fuel (by omega)
  obtain ⟨r5, h5, hr5⟩ := eatWhitespace_ready w3 hw3' (44 :: (w4 ++ (tl ++ 125 :: rest)))
    (by intro b hb; simp at hb; subst hb; rfl) r4 hr4 (fuel + 1) (by omega)
  obtain ⟨r6, h6, hr6⟩ := next_at (show At r5 44 _ from hr5)
  obtain ⟨r7, h7, hr7⟩ := ih w4 hw4' rest (objInsert acc k v) r6 hr6.ready fuel (by omega)
  refine ⟨r7, ?_, hr7⟩
  rw [readObjectLoop, PM.bind_ok h1]
  simp only []
  rw [PM.bind_ok h2, PM.bind_ok (peek_at hr2)]
  simp only [ne_eq, not_true_eq_false, if_false]
  rw [PM.bind_ok h3, PM.bind_ok h4]
  simp only []
  rw [PM.bind_ok h5, PM.bind_ok (peek_at hr5)]
  simp only [show ¬ ((44 : Byte) = 125) by decide, if_false, if_true]
  rw [PM.bind_ok h6, h7]
  simp [insertAll]

theorem vspec_objEmpty {w : List Byte} (hw : Ws w) : VSpec (.obj []) (123 :: (w ++ [125])) := by
  intro ws hws rest _ r hr fuel hf
  obtain ⟨fuel, rfl⟩ : ∃ k, fuel = k + 1 := ⟨fuel - 1, by omega⟩
  simp only [List.length_cons, List.length_append, List.length_nil] at hf
  obtain ⟨fuel, rfl⟩ : ∃ k, fuel = k + 1 := ⟨fuel - 1, by omega⟩
  obtain ⟨r1, hr1, hnv⟩ := nextValue_dispatch ws hws 123 (w ++ 125 :: rest) rfl r (by simpa using hr)
    (fuel + 1) (by omega)
  obtain ⟨r2, h2, hr2⟩ := next_at hr1
  obtain ⟨r3, h3, hr3⟩ := eatWhitespace_ready w (ws_of_Ws hw) (125 :: rest)
    (by intro b hb; simp at hb; subst hb; rfl) r2 hr2.ready (fuel + 1) (by omega)
  obtain ⟨x, r4, h4, hr4⟩ := next_at_ready (show At r3 125 rest from hr3)
  refine ⟨r4, ?_, hr4⟩
  rw [hnv, dispatch_obj, readObject, PM.bind_ok]
  rotate_left
  · rw [PM.bind_ok h2, PM.bind_ok h3, PM.bind_ok (peek_at hr3)]
    simp only [if_true]
    rw [PM.bind_ok h4]
    rfl
  · rfl

theorem vspec_obj {w : List Byte} {kvs : List (Str × JV)} {body : List Byte} (hw : Ws w)
    (hm : Members kvs body) (hnd : (kvs.map (·.1)).Nodup) (ih : MSpec kvs body) :
    VSpec (.obj kvs) (123 :: (w ++ (body ++ [125]))) := by
  intro ws hws rest _ r hr fuel hf
  obtain ⟨fuel, rfl⟩ : ∃ k, fuel = k + 1 := ⟨fuel - 1, by omega⟩
  simp only [List.length_cons, List.length_append, List.length_nil] at hf
  obtain ⟨fuel, rfl⟩ : ∃ k, fuel = k + 1 := ⟨fuel - 1, by omega⟩
  obtain ⟨r1, hr1, hnv⟩ := nextValue_dispatch ws hws 123 (w ++ (body ++ 125 :: rest)) rfl r
    (by simpa using hr) (fuel + 1) (by omega)
  obtain ⟨r2, h2, hr2⟩ := next_at hr1
  obtain ⟨tl, hc1⟩ := members_head hm
  obtain ⟨r3, h3, hr3⟩ := eatWhitespace_ready w (ws_of_Ws hw) (34 :: (tl ++ 125 :: rest))
    (by intro b hb; simp at hb; subst hb; rfl) r2
    (by have := hr2.ready; rw [hc1] at this; simpa using this) (fuel + 1) (by omega)
  obtain ⟨r4, h4, hr4⟩ := ih [] (by simp) rest [] r3 (by rw [hc1]; simpa using hr3.ready) fuel
    (by simp; omega)
  refine ⟨r4, ?_, hr4⟩
  have hins : insertAll [] kvs = kvs := by
    rw [insertAll_nodup [] _ (by simpa using hnd)]; simp
  rw [hins] at h4
  rw [hnv, dispatch_obj, readObject, PM.bind_ok]
  rotate_left
  · rw [PM.bind_ok h2, PM.bind_ok h3, PM.bind_ok (peek_at hr3)]
    simp only [Option.some.injEq, show ¬ ((34 : Byte) = 125) by decide, if_false]
    exact h4
  · simp

/-! ### The induction on the derivation -/

mutual
theorem vspec_of_ser : ∀ {v : JV} {bs : List Byte}, Ser v bs → VSpec v bs
  | _, _, .null => vspec_null
  | _, _, .true => vspec_true
  | _, _, .false => vspec_false
  | _, _, .str h => vspec_str h
  | _, _, .num ht hv => vspec_num ht hv
  | _, _, .arrEmpty hw => vspec_arrEmpty hw
  | _, _, .arr hw he => vspec_arr hw he (espec_of_elems he)
  | _, _, .objEmpty hw => vspec_objEmpty hw
  | _, _, .obj hw hm hnd => vspec_obj hw hm hnd (mspec_of_members hm)
theorem espec_of_elems : ∀ {vs : List JV} {body : List Byte}, Elems vs body → ESpec vs body
  | _, _, .one hv hw => espec_one (vspec_of_ser hv) hw
  | _, _, .cons hv hw1 hw2 he => espec_cons (vspec_of_ser hv) hw1 hw2 (espec_of_elems he)
theorem mspec_of_members : ∀ {kvs : List (Str × JV)} {body : List Byte}, Members kvs body → MSpec kvs body
  | _, _, .one hk hw1 hw2 hv hw3 => mspec_one (vspec_of_ser hk) hw1 hw2 (vspec_of_ser hv) hw3
  | _, _, .cons hk hw1 hw2 hv hw3 hw4 hm =>
    mspec_cons (vspec_of_ser hk) hw1 hw2 (vspec_of_ser hv) hw3 hw4 (mspec_of_members hm)
end

/-- the fuel that suffices to read the text `bs` after the white space `ws` -/
def fuelFor (ws bs : List Byte) : Nat := 2 * (ws ++ bs).length + 2

/-- **C01.** Every conforming serialisation of a JSON value is read as that value: positioned before any
white space `ws`, the text `bs` with `Ser v bs`, and any `rest` that does not extend a number text,
`next_json_value` returns exactly `v` and leaves the reader before `rest`. -/
theorem parse_ser {v : JV} {bs : List Byte} (h : Ser v bs) (rest : List Byte) (hd : Delimited v rest)
    (ws : List Byte) (hws : Ws ws) (r : Reader) (hr : Ready r (ws ++ bs ++ rest))
    (fuel : Nat) (hf : fuelFor ws bs ≤ fuel) :
    ∃ r', nextValue fuel r = (.ok (some v), r') ∧ Ready r' rest :=
  vspec_of_ser h ws (ws_of_Ws hws) rest (delim_of_delimited hd) r (by simpa using hr) fuel
    (by simpa [fuelFor] using hf)

/-- one `Reader.nextJson` call (with the fuel `nextJson` itself uses) reads one conforming text -/
theorem nextJson_ser {v : JV} {bs : List Byte} (h : Ser v bs) (rest : List Byte) (hd : Delimited v rest)
    (ws : List Byte) (hws : Ws ws) (r : Reader) (hr : Ready r (ws ++ bs ++ rest)) :
    ∃ r', r.nextJson = (.ok (some v), r') ∧ Ready r' rest := by
  have hl := ready_length hr
  simp only [List.length_append] at hl
  exact parse_ser h rest hd ws hws r hr _ (by simp only [fuelFor, List.length_append]; omega)


/-! ### Streams of values -/

/-- the bytes of a stream: each item is a value, its text, and the white space after it -/
def streamText : List (JV × List Byte × List Byte) → List Byte
  | [] => []
  | (_, bs, sep) :: items => bs ++ (sep ++ streamText items)

/-- every item is a conforming text of its value followed by white space, and no number text is extended by
what follows it -/
def StreamOK : List (JV × List Byte × List Byte) → Prop
  | [] => True
  | (v, bs, sep) :: items => Ser v bs ∧ Ws sep ∧ Delimited v (sep ++ streamText items) ∧ StreamOK items

/-- the usual sufficient condition: consecutive values are separated by non-empty white space
(nothing is required after the last value, nor after a value that is not a number) -/
def SepOK : List (JV × List Byte × List Byte) → Prop
  | [] => True
  | (v, bs, sep) :: items =>
    Ser v bs ∧ Ws sep ∧ (sep ≠ [] ∨ items = [] ∨ ∀ n, v ≠ .num n) ∧ SepOK items

theorem StreamOK.of_sepOK : ∀ {items : List (JV × List Byte × List Byte)}, SepOK items → StreamOK items
  | [], _ => True.intro
  | (v, bs, sep) :: items, ⟨h1, h2, h3, h4⟩ => by
    refine ⟨h1, h2, ?_, StreamOK.of_sepOK h4⟩
    rcases h3 with h3 | h3 | h3
    · apply delimited_of_delim
      apply Delim.of_numDelim
      obtain ⟨s, sep', rfl⟩ := List.exists_cons_of_ne_nil h3
      exact numDelim_cons s _ (isWs_numDelim (isWs_of_IsWs (h2 s (by simp))))
    · subst h3
      cases sep with
      | nil => exact delimited_of_delim (Delim.of_numDelim numDelim_nil)
      | cons s sep' =>
        exact delimited_of_delim (Delim.of_numDelim
          (numDelim_cons s _ (isWs_numDelim (isWs_of_IsWs (h2 s (by simp))))))
    · cases v with
      | num n => exact absurd rfl (h3 n)
      | _ => exact True.intro

theorem stream_fidelity_aux (items : List (JV × List Byte × List Byte)) (h : StreamOK items)
    (lead : List Byte) (hlead : Ws lead) (r : Reader) (hr : Ready r (lead ++ streamText items)) :
    ∃ r' r'', Reads r (items.map (·.1)) r' ∧ r'.nextJson = (.ok none, r'') ∧ Ready r'' [] := by
  induction items generalizing lead r with
  | nil =>
    obtain ⟨r'', h1, h2⟩ := nextJson_end lead (ws_of_Ws hlead) r (by simpa [streamText] using hr)
    exact ⟨r, r'', Reads.nil r, h1, h2⟩
  | cons it items ih =>
    obtain ⟨v, bs, sep⟩ := it
    obtain ⟨h1, h2, h3, h4⟩ := h
    obtain ⟨r1, e1, hr1⟩ := nextJson_ser h1 (sep ++ streamText items) h3 lead hlead r
      (by simpa [streamText] using hr)
    obtain ⟨r', r'', e2, e3, e4⟩ := ih h4 sep h2 r1 hr1
    exact ⟨r', r'', Reads.cons e1 e2, e3, e4⟩

/-- **stream_fidelity.** A stream of conforming JSON texts `bs₁ sep₁ bs₂ sep₂ … bsₙ sepₙ` (after optional
leading white space), where no number text is extended by what follows it: successive
`Reader.nextJson` calls return exactly `v₁, …, vₙ` in order, without any error in between, and then
`none` (end of input). -/
theorem stream_fidelity (lead : List Byte) (hlead : Ws lead) (items : List (JV × List Byte × List Byte))
    (h : StreamOK items) (name : Option Str) :
    ∃ r' r'', Reads (Reader.ofBytes (lead ++ streamText items) name) (items.map (·.1)) r' ∧
      r'.nextJson = (.ok none, r'') :=
  let ⟨r', r'', h1, h2, _⟩ := stream_fidelity_aux items h lead hlead _ (ready_ofBytes _ name)
  ⟨r', r'', h1, h2⟩

/-- the same for values separated by non-empty white space -/
theorem stream_fidelity_ws (lead : List Byte) (hlead : Ws lead) (items : List (JV × List Byte × List Byte))
    (h : SepOK items) (name : Option Str) :
    ∃ r' r'', Reads (Reader.ofBytes (lead ++ streamText items) name) (items.map (·.1)) r' ∧
      r'.nextJson = (.ok none, r'') :=
  stream_fidelity lead hlead items (StreamOK.of_sepOK h) name


/-! ### Closing the loop: what was read from a conforming text can be printed and read back (C02) -/

/-- the value of a number text is one of the numbers described by `ParsedNum`; if it is a float, that float
is in canonical form -/
theorem value_parsed {t : NumText} {n : Num} (hv : t.value? = some n) :
    ParsedNum n ∧ ∀ f, n = .flt f → f.Canonical := by
  unfold NumText.value? at hv
  simp only [] at hv
  by_cases hC : t.frac.isNone ∧ t.exp.isNone ∧
      (if t.neg then F64.digitsToNat (asciiStr t.int) ≤ 2 ^ 63 else F64.digitsToNat (asciiStr t.int) < 2 ^ 64)
  · rw [if_pos hC] at hv
    simp only [Option.some.injEq] at hv
    subst hv
    have h3 := hC.2.2
    cases hneg : t.neg with
    | true =>
      simp only [hneg, if_true] at h3 ⊢
      exact ⟨⟨by omega, by omega⟩, by intro f hf; cases hf⟩
    | false =>
      simp only [hneg, Bool.false_eq_true, if_false] at h3 ⊢
      exact ⟨h3, by intro f hf; cases hf⟩
  · rw [if_neg hC] at hv
    cases hp : F64.parseDecimal (asciiStr t.norm) with
    | none => simp [hp] at hv
    | some f' =>
      simp only [hp] at hv
      by_cases hfin : f'.isFinite = true
      · simp only [hfin, if_true, Option.some.injEq] at hv
        subst hv
        refine ⟨parsedNum_ofF64 f' hfin, ?_⟩
        intro f hf
        rw [ofF64_flt_inv hf]
        exact parseDecimal_canonical hp
      · simp [hfin] at hv

/-- `H17`, the classical fact that 17 significant digits always suffice: the digit search of
`Display for f64` succeeds on every finite double in canonical form -/
def H17 : Prop := ∀ f : F64, f.Canonical → f.isFinite = true → (F64.toDisplay? f).isSome = true

theorem strOK_utf8 (o : JsonOpts) (ho : o.utf8Strings = true) (s : Str) : StrOK o s :=
  fun _ _ => Or.inr ho

mutual
/-- every value of a conforming text is a value of the kind described by `Parsed` (with `utf8Strings`,
so that characters outside the BMP are printed raw) -/
theorem parsed_of_ser (h17 : H17) (o : JsonOpts) (ho : o.utf8Strings = true) :
    ∀ {v : JV} {bs : List Byte}, Ser v bs → Parsed o v
  | _, _, .null => by rw [Parsed]; exact True.intro
  | _, _, .true => by rw [Parsed]; exact True.intro
  | _, _, .false => by rw [Parsed]; exact True.intro
  | _, _, .str _ => by rw [Parsed]; exact strOK_utf8 o ho _
  | _, _, .num _ hv => by
    rw [Parsed]
    obtain ⟨h1, h2⟩ := value_parsed hv
    refine ⟨h1, ?_⟩
    intro f hf
    subst hf
    exact h17 f (h2 f rfl) h1.1
  | _, _, .arrEmpty _ => by rw [Parsed, ParsedList]; exact True.intro
  | _, _, .arr _ he => by rw [Parsed]; exact parsedList_of_elems h17 o ho he
  | _, _, .objEmpty _ => by rw [Parsed, ParsedMembers]; exact ⟨True.intro, List.nodup_nil⟩
  | _, _, .obj _ hm hnd => by rw [Parsed]; exact ⟨parsedMembers_of_members h17 o ho hm, hnd⟩
theorem parsedList_of_elems (h17 : H17) (o : JsonOpts) (ho : o.utf8Strings = true) :
    ∀ {vs : List JV} {body : List Byte}, Elems vs body → ParsedList o vs
  | _, _, .one hv _ => by
    rw [ParsedList, ParsedList]; exact ⟨parsed_of_ser h17 o ho hv, True.intro⟩
  | _, _, .cons hv _ _ he => by
    rw [ParsedList]; exact ⟨parsed_of_ser h17 o ho hv, parsedList_of_elems h17 o ho he⟩
theorem parsedMembers_of_members (h17 : H17) (o : JsonOpts) (ho : o.utf8Strings = true) :
    ∀ {kvs : List (Str × JV)} {body : List Byte}, Members kvs body → ParsedMembers o kvs
  | _, _, .one _ _ _ hv _ => by
    rw [ParsedMembers, ParsedMembers]
    exact ⟨strOK_utf8 o ho _, parsed_of_ser h17 o ho hv, True.intro⟩
  | _, _, .cons _ _ _ hv _ _ hm => by
    rw [ParsedMembers]
    exact ⟨strOK_utf8 o ho _, parsed_of_ser h17 o ho hv, parsedMembers_of_members h17 o ho hm⟩
end

/-- **C01 + C02.** What jawk reads from a conforming text, it can print (any style, `utf8Strings`) and read
back: the printed text of `v` is read as `norm v` (`v` itself, except that `-0` is printed `0`).  The only
assumption is `H17`. -/
theorem print_parse_of_ser (h17 : H17) (o : JsonOpts) (ho : o.utf8Strings = true) {v : JV} {bs : List Byte}
    (h : Ser v bs) (rest : List Byte) (hd : Delim v rest) (r : Reader)
    (hr : Ready r (utf8 (printJson o v) ++ rest)) (fuel : Nat) (hf : fuelBound o v ≤ fuel) :
    ∃ r', nextValue fuel r = (.ok (some (norm v)), r') ∧ Ready r' rest :=
  parse_print_parsed o v (parsed_of_ser h17 o ho h) rest hd r hr fuel hf

/-! ### Non-vacuity: a concrete text with an exponent, escapes, nesting and arbitrary white space -/

/-- `[ 1E2 ,<TAB>"aA\n" , {"k" : [-0.5e-1, true], "" :{ }}<LF>]` -/
def exText : String := "[ 1E2 ,\t\"a\\u0041\\n\" , {\"k\" : [-0.5e-1, true], \"\" :{ }}\n]"

def exValue : JV :=
  .arr [.num (.pos 100), .str ['a', 'A', '\n'],
    .obj [(['k'], .arr [.num (.flt (.fin true 7205759403792794 (-57))), .bool true]), ([], .obj [])]]

/-- `1E2`: an exponent spelling whose value is normalised to the integer `100` -/
theorem ex_num1 : Ser (.num (.pos 100)) [49, 69, 50] :=
  Ser.num (t := ⟨false, [49], none, some ⟨true, none, [50]⟩⟩) (by decide) (by decide +kernel)

/-- `-0.5e-1` -/
theorem ex_num2 : Ser (.num (.flt (.fin true 7205759403792794 (-57)))) [45, 48, 46, 53, 101, 45, 49] :=
  Ser.num (t := ⟨true, [48], some [53], some ⟨false, some true, [49]⟩⟩) (by decide) (by decide +kernel)

/-- `"aA\n"`: a raw character, a `\u` escape and a two-character escape -/
theorem ex_str : Ser (.str ['a', 'A', '\n']) (34 :: (([97] ++ ([92, 117, 48, 48, 52, 49] ++ ([92, 110] ++ []))) ++ [34])) :=
  Ser.str (StrBody.cons (StrItem.raw 'a' (by decide) (by decide) (by decide))
    (StrBody.cons (StrItem.uni 48 48 52 49 0 0 4 1 rfl rfl rfl rfl (Or.inl (by decide)))
      (StrBody.cons (StrItem.esc 110 '\n' rfl) StrBody.nil)))

theorem ex_ser : Ser exValue (utf8 exText.toList) := by
  have hk : Ser (.str ['k']) (34 :: (([107] ++ []) ++ [34])) :=
    Ser.str (StrBody.cons (StrItem.raw 'k' (by decide) (by decide) (by decide)) StrBody.nil)
  have he : Ser (.str []) (34 :: ([] ++ [34])) := Ser.str StrBody.nil
  have hinner : Ser (.arr [.num (.flt (.fin true 7205759403792794 (-57))), .bool true]) _ :=
    Ser.arr (w := []) (by decide)
      (Elems.cons (w1 := []) (w2 := [32]) ex_num2 (by decide) (by decide)
        (Elems.one (w := []) Ser.true (by decide)))
  have hobj : Ser (.obj [(['k'], .arr [.num (.flt (.fin true 7205759403792794 (-57))), .bool true]),
      ([], .obj [])]) _ :=
    Ser.obj (w := []) (by decide)
      (Members.cons (w1 := [32]) (w2 := [32]) (w3 := []) (w4 := [32]) hk (by decide) (by decide) hinner
        (by decide) (by decide)
        (Members.one (w1 := [32]) (w2 := []) (w3 := []) he (by decide) (by decide)
          (Ser.objEmpty (w := [32]) (by decide)) (by decide)))
      (by decide)
  have h : Ser exValue _ :=
    Ser.arr (w := [32]) (by decide)
      (Elems.cons (w1 := [32]) (w2 := [9]) ex_num1 (by decide) (by decide)
        (Elems.cons (w1 := [32]) (w2 := [32]) ex_str (by decide) (by decide)
          (Elems.one (w := [10]) hobj (by decide))))
  refine Eq.mp ?_ h
  congr 1

/-- the example text is read by the model as the example value -/
example : ∃ r', (Reader.ofBytes (utf8 exText.toList)).nextJson = (.ok (some exValue), r') ∧ Ready r' [] :=
  nextJson_ser ex_ser [] (delimited_of_delim (Delim.of_numDelim numDelim_nil)) [] (by decide) _
    (by simpa using ready_ofBytes (utf8 exText.toList) none)

/-- the items of the stream `<SP>1E2<SP>"aA\n"<LF>-0.5e-1` -/
def exStream : List (JV × List Byte × List Byte) :=
  [(.num (.pos 100), [49, 69, 50], [32]),
   (.str ['a', 'A', '\n'], 34 :: (([97] ++ ([92, 117, 48, 48, 52, 49] ++ ([92, 110] ++ []))) ++ [34]), [10]),
   (.num (.flt (.fin true 7205759403792794 (-57))), [45, 48, 46, 53, 101, 45, 49], [])]

theorem exStream_ok : SepOK exStream :=
  ⟨ex_num1, by decide, Or.inl (by decide), ex_str, by decide, Or.inl (by decide),
    ex_num2, by decide, Or.inr (Or.inl rfl), True.intro⟩

/-- the stream is read as its three values, then end of input -/
example : ∃ r' r'', Reads (Reader.ofBytes (utf8 " 1E2 \"a\\u0041\\n\"\n-0.5e-1".toList) none)
      [.num (.pos 100), .str ['a', 'A', '\n'], .num (.flt (.fin true 7205759403792794 (-57)))] r' ∧
      r'.nextJson = (.ok none, r'') :=
  stream_fidelity_ws [32] (by decide) exStream exStream_ok none

end Jawk.Ser

-- #print axioms Jawk.Ser.parse_ser
-- #print axioms Jawk.Ser.stream_fidelity
-- #print axioms Jawk.Ser.ex_ser
-- #print axioms Jawk.Ser.print_parse_of_ser
