/-
  Property C19, first half, for the STAGES: a stage never alters a row.

  "Integers in [-2^63, 2^64) pass through parsing, selection, sorting, grouping and printing without
  any change of value — no detour through floating point."  Parsing / printing are `C19.u64_print_parse`
  and C01.  Here: the stages of the pipeline (`stageSpec` / `specRows` of `Jawk/Spec/Pipeline.lean`, which
  `runP_eq_spec` proves to be what the machine computes).  The sorter converts keys to `f64` only to COMPARE
  them (`Num.cmp`); no stage ever rebuilds a value:

  1. `filter`, `unique`, `sort`, `limit` deliver rows that ARE input rows (sub-multiset of the input);
  2. `select` appends one result column, `preset` changes only the bindings: input, parents, position
     and the earlier columns are kept;
  3. `split` replaces the input by an ELEMENT of the array the expression yields;
  4. `merge` / `group` wrap `Ctx.build` of the rows; `Ctx.build` stores every selected value as is;
  5. the extractor `.` / `.k` / `.[i]` returns a SUB-VALUE of the input (`SubValue`).

  Everything is generic in the evaluator `ev`, except item 5 which is about `evalT orc`.
-/
import Jawk.Lemmas.PipelineSpec
namespace Jawk.Pass
open Jawk Jawk.Pipe

variable (ev : Expr → Ctx → Option JV)

/-! ### sub-multisets of lists (core has no `Subperm`) -/

/-- `out` is a sub-multiset of `rows`: a sublist of a rearrangement.  No element is altered, none is
duplicated. -/
def SubMultiset {α : Type} (out rows : List α) : Prop := ∃ L : List α, out.Sublist L ∧ L.Perm rows

theorem SubMultiset.refl {α : Type} (l : List α) : SubMultiset l l := ⟨l, List.Sublist.refl l, List.Perm.refl l⟩

theorem SubMultiset.of_sublist {α : Type} {out rows : List α} (h : out.Sublist rows) : SubMultiset out rows :=
  ⟨rows, h, List.Perm.refl rows⟩

theorem SubMultiset.mem {α : Type} {out rows : List α} (h : SubMultiset out rows) {a : α} (ha : a ∈ out) :
    a ∈ rows := by
  obtain ⟨L, h1, h2⟩ := h
  exact h2.mem_iff.mp (h1.subset ha)

theorem SubMultiset.length_le {α : Type} {out rows : List α} (h : SubMultiset out rows) :
    out.length ≤ rows.length := by
  obtain ⟨L, h1, h2⟩ := h
  exact h2.length_eq ▸ h1.length_le

theorem SubMultiset.trans {α : Type} {a b c : List α} (h1 : SubMultiset a b) (h2 : SubMultiset b c) :
    SubMultiset a c := by
  obtain ⟨L, s1, p1⟩ := h1
  obtain ⟨L', s2, p2⟩ := h2
  obtain ⟨t, ht⟩ := s2.exists_perm_append
  exact ⟨L ++ t, s1.trans (List.sublist_append_left L t),
    ((p1.append_right t).trans ht.symm).trans p2⟩

/-- a sub-multiset keeps every image multiset: in particular the multiset of `.input`s -/
theorem SubMultiset.map {α β : Type} (f : α → β) {out rows : List α} (h : SubMultiset out rows) :
    SubMultiset (out.map f) (rows.map f) := by
  obtain ⟨L, h1, h2⟩ := h
  exact ⟨L.map f, h1.map f, h2.map f⟩

/-! ### 1. the row-preserving stages -/

theorem takeOpt_sublist {α : Type} (o : Option Nat) (l : List α) : (takeOpt o l).Sublist l := by
  cases o with
  | none => exact List.Sublist.refl l
  | some n => exact List.take_sublist n l

/-- the sort key of the row is present -/
def keyPresent (key : Expr) (c : Ctx) : Bool := (ev key c).isSome

/-- the rows the sorter buffers are the rows themselves (paired with their key, nothing else) -/
theorem keyed_map_snd (key : Expr) (rows : List Ctx) :
    (keyed ev key rows).map (·.2) = rows.filter (keyPresent ev key) := by
  induction rows with
  | nil => rfl
  | cons c cs ih =>
    cases h : ev key c with
    | none =>
      have e1 : keyed ev key (c :: cs) = keyed ev key cs := by simp [keyed, h]
      have e2 : (c :: cs).filter (keyPresent ev key) = cs.filter (keyPresent ev key) := by
        simp [keyPresent, h]
      rw [e1, e2, ih]
    | some k =>
      have e1 : keyed ev key (c :: cs) = (k, c) :: keyed ev key cs := by simp [keyed, h]
      have e2 : (c :: cs).filter (keyPresent ev key) = c :: cs.filter (keyPresent ev key) := by
        simp [keyPresent, h]
      rw [e1, e2, List.map_cons, ih]

/-- …and the key next to a row is the evaluated key of that very row -/
theorem keyed_mem (key : Expr) (rows : List Ctx) (p : JV × Ctx) (h : p ∈ keyed ev key rows) :
    p.2 ∈ rows ∧ ev key p.2 = some p.1 := by
  simp only [keyed, List.mem_filterMap, Option.map_eq_some_iff] at h
  obtain ⟨c, hc, k, hk, rfl⟩ := h
  exact ⟨hc, hk⟩

theorem filter_sublist (e : Expr) (cap : Option Nat) (rows : List Ctx) :
    (stageSpec ev (.filter e) cap rows).Sublist rows :=
  List.filter_sublist

theorem unique_sublist (cap : Option Nat) (rows : List Ctx) :
    (stageSpec ev .unique cap rows).Sublist rows :=
  dedupFrom_sublist [] rows

theorem limit_sublist (skip : Nat) (take : Option Nat) (cap : Option Nat) (rows : List Ctx) :
    (stageSpec ev (.limit skip take) cap rows).Sublist rows :=
  (takeOpt_sublist take _).trans (List.drop_sublist skip rows)

/-- the (bounded) sorter: a prefix of a rearrangement of the rows whose key is present -/
theorem sort_sublist_perm (key : Expr) (desc : Bool) (cap : Option Nat) (rows : List Ctx) :
    ∃ L : List Ctx, (stageSpec ev (.sort key desc) cap rows).Sublist L
      ∧ L.Perm (rows.filter (keyPresent ev key)) := by
  refine ⟨(SortSpec.sortDir JV.cmp (fun p : JV × Ctx => p.1) desc (keyed ev key rows)).map
    (fun p : JV × Ctx => p.2), ?_, ?_⟩
  · exact takeOpt_sublist cap _
  · rw [← keyed_map_snd]
    exact (SortSpec.sortDir_perm Order.cmp_total_preorder _ desc (keyed ev key rows)).map _

/-- the unbounded sorter only rearranges -/
theorem sort_perm (key : Expr) (desc : Bool) (rows : List Ctx) :
    (stageSpec ev (.sort key desc) none rows).Perm (rows.filter (keyPresent ev key)) := by
  show ((SortSpec.sortDir JV.cmp (fun p : JV × Ctx => p.1) desc (keyed ev key rows)).map
    (fun p : JV × Ctx => p.2)).Perm _
  rw [← keyed_map_snd]
  exact (SortSpec.sortDir_perm Order.cmp_total_preorder _ desc (keyed ev key rows)).map _

/-- the stages that only choose among / rearrange the rows -/
def RowPreserving : StageCfg → Bool
  | .filter _ => true
  | .unique => true
  | .sort _ _ => true
  | .limit _ _ => true
  | _ => false

/-- a row-preserving stage delivers a sub-multiset of its input rows -/
theorem stageSpec_subMultiset_of_rowPreserving (c : StageCfg) (h : RowPreserving c = true)
    (cap : Option Nat) (rows : List Ctx) : SubMultiset (stageSpec ev c cap rows) rows := by
  cases c with
  | filter e => exact .of_sublist (filter_sublist ev e cap rows)
  | unique => exact .of_sublist (unique_sublist ev cap rows)
  | limit skip take => exact .of_sublist (limit_sublist ev skip take cap rows)
  | sort key desc =>
    obtain ⟨L, h1, h2⟩ := sort_sublist_perm ev key desc cap rows
    exact SubMultiset.trans ⟨L, h1, h2⟩ (.of_sublist List.filter_sublist)
  | preset vars defs => exact absurd h (by simp [RowPreserving])
  | split e => exact absurd h (by simp [RowPreserving])
  | select name e => exact absurd h (by simp [RowPreserving])
  | group e => exact absurd h (by simp [RowPreserving])
  | merge => exact absurd h (by simp [RowPreserving])

theorem stageSpec_mem_of_rowPreserving (c : StageCfg) (h : RowPreserving c = true)
    (cap : Option Nat) (rows : List Ctx) : ∀ r ∈ stageSpec ev c cap rows, r ∈ rows :=
  fun _ hr => (stageSpec_subMultiset_of_rowPreserving ev c h cap rows).mem hr

/-- a chain of row-preserving stages (whatever the states) delivers a sub-multiset of its input rows -/
theorem specRows_subMultiset_of_rowPreserving (cfgs : List StageCfg) (sts : List StageSt)
    (h : ∀ c ∈ cfgs, RowPreserving c = true) (rows : List Ctx) :
    SubMultiset (specRows ev cfgs sts rows) rows := by
  induction cfgs generalizing sts rows with
  | nil => exact .refl rows
  | cons c cs ih =>
    cases sts with
    | nil => exact .refl rows
    | cons st sts =>
      exact (ih sts (fun c hc => h c (List.mem_cons_of_mem _ hc)) _).trans
        (stageSpec_subMultiset_of_rowPreserving ev c (h c List.mem_cons_self) (capOf st) rows)

/-- ITEM 1: the rows that come out are rows that went in, bit for bit (same `input`, same `results`,
same everything: they are EQUAL as `Ctx`) -/
theorem specRows_mem_of_rowPreserving (cfgs : List StageCfg) (sts : List StageSt)
    (h : ∀ c ∈ cfgs, RowPreserving c = true) (rows : List Ctx) :
    ∀ r ∈ specRows ev cfgs sts rows, r ∈ rows :=
  fun _ hr => (specRows_subMultiset_of_rowPreserving ev cfgs sts h rows).mem hr

theorem groupLast_of_rowPreserving (cfgs : List StageCfg) (h : ∀ c ∈ cfgs, RowPreserving c = true) :
    GroupLast cfgs := by
  induction cfgs with
  | nil => trivial
  | cons c cs ih =>
    have hc := h c List.mem_cons_self
    have ih' := ih (fun c hc => h c (List.mem_cons_of_mem _ hc))
    cases c <;> first | exact ih' | exact absurd hc (by simp [RowPreserving])

/-- the same for the machine itself (`runP`: feed until `Break`, then `complete`) -/
theorem runP_subMultiset_of_rowPreserving {cfgs : List StageCfg} {sts : List StageSt}
    (hi : Initial cfgs sts) (h : ∀ c ∈ cfgs, RowPreserving c = true) (rows : List Ctx) :
    SubMultiset (runP ev cfgs sts rows) rows := by
  rw [runP_eq_spec ev hi (groupLast_of_rowPreserving cfgs h)]
  exact specRows_subMultiset_of_rowPreserving ev cfgs sts h rows

theorem runP_mem_of_rowPreserving {cfgs : List StageCfg} {sts : List StageSt}
    (hi : Initial cfgs sts) (h : ∀ c ∈ cfgs, RowPreserving c = true) (rows : List Ctx) :
    ∀ r ∈ runP ev cfgs sts rows, r ∈ rows :=
  fun _ hr => (runP_subMultiset_of_rowPreserving ev hi h rows).mem hr

/-! ### 2. `select` adds a column, `preset` changes the bindings: nothing else -/

theorem withResult_input (c : Ctx) (n : Str) (x : Option JV) : (c.withResult n x).input = c.input := rfl
theorem withResult_results (c : Ctx) (n : Str) (x : Option JV) :
    (c.withResult n x).results = c.results ++ [(n, x)] := rfl
theorem withResult_parents (c : Ctx) (n : Str) (x : Option JV) : (c.withResult n x).parents = c.parents := rfl
theorem withResult_ictx (c : Ctx) (n : Str) (x : Option JV) : (c.withResult n x).ictx = c.ictx := rfl
theorem withResult_vars (c : Ctx) (n : Str) (x : Option JV) : (c.withResult n x).vars = c.vars := rfl
theorem withResult_defs (c : Ctx) (n : Str) (x : Option JV) : (c.withResult n x).defs = c.defs := rfl

/-- `preset` touches only the bindings -/
theorem preset_keeps (c : Ctx) (vars : List (Str × JV)) (defs : List (Str × Expr)) :
    ((c.withVariables vars).withDefinitions defs).input = c.input
      ∧ ((c.withVariables vars).withDefinitions defs).results = c.results
      ∧ ((c.withVariables vars).withDefinitions defs).parents = c.parents
      ∧ ((c.withVariables vars).withDefinitions defs).ictx = c.ictx :=
  ⟨rfl, rfl, rfl, rfl⟩

/-- `r` is `r0` with (possibly) more result columns at the end and (possibly) other bindings: same
input value, same parents, same position, the earlier columns untouched -/
def Extends (r0 r : Ctx) : Prop :=
  r.input = r0.input ∧ r0.results <+: r.results ∧ r.parents = r0.parents ∧ r.ictx = r0.ictx

theorem Extends.refl (c : Ctx) : Extends c c := ⟨rfl, List.prefix_refl _, rfl, rfl⟩

theorem Extends.trans {a b c : Ctx} (h1 : Extends a b) (h2 : Extends b c) : Extends a c :=
  ⟨h2.1.trans h1.1, h1.2.1.trans h2.2.1, h2.2.2.1.trans h1.2.2.1, h2.2.2.2.trans h1.2.2.2⟩

/-- the stages that keep the input value of every row: everything but `split` / `group` / `merge` -/
def InputPreserving : StageCfg → Bool
  | .split _ => false
  | .group _ => false
  | .merge => false
  | _ => true

theorem rowPreserving_inputPreserving {c : StageCfg} (h : RowPreserving c = true) :
    InputPreserving c = true := by
  cases c <;> first | rfl | exact absurd h (by simp [RowPreserving])

/-- what `select` delivers, exactly -/
theorem select_spec (name : Str) (e : Expr) (cap : Option Nat) (rows : List Ctx) :
    stageSpec ev (.select name e) cap rows = rows.map (fun c => c.withResult name (ev e c)) := rfl

theorem stageSpec_extends (c : StageCfg) (h : InputPreserving c = true) (cap : Option Nat)
    (rows : List Ctx) : ∀ r ∈ stageSpec ev c cap rows, ∃ r0 ∈ rows, Extends r0 r := by
  intro r hr
  cases c with
  | preset vars defs =>
    obtain ⟨r0, h0, rfl⟩ := List.mem_map.mp hr
    exact ⟨r0, h0, rfl, List.prefix_refl _, rfl, rfl⟩
  | select name e =>
    obtain ⟨r0, h0, rfl⟩ := List.mem_map.mp hr
    exact ⟨r0, h0, rfl, List.prefix_append _ _, rfl, rfl⟩
  | filter e => exact ⟨r, stageSpec_mem_of_rowPreserving ev _ rfl cap rows r hr, .refl r⟩
  | unique => exact ⟨r, stageSpec_mem_of_rowPreserving ev _ rfl cap rows r hr, .refl r⟩
  | sort key desc => exact ⟨r, stageSpec_mem_of_rowPreserving ev _ rfl cap rows r hr, .refl r⟩
  | limit skip take => exact ⟨r, stageSpec_mem_of_rowPreserving ev _ rfl cap rows r hr, .refl r⟩
  | split e => exact absurd h (by simp [InputPreserving])
  | group e => exact absurd h (by simp [InputPreserving])
  | merge => exact absurd h (by simp [InputPreserving])

/-- ITEM 2: through a chain of preset / filter / select / unique / sort / limit every output row is an
input row with columns appended: `r.input = r0.input ∧ r0.results <+: r.results` (and same parents,
same position) -/
theorem specRows_extends (cfgs : List StageCfg) (sts : List StageSt)
    (h : ∀ c ∈ cfgs, InputPreserving c = true) (rows : List Ctx) :
    ∀ r ∈ specRows ev cfgs sts rows, ∃ r0 ∈ rows, Extends r0 r := by
  induction cfgs generalizing sts rows with
  | nil => exact fun r hr => ⟨r, hr, .refl r⟩
  | cons c cs ih =>
    cases sts with
    | nil => exact fun r hr => ⟨r, hr, .refl r⟩
    | cons st sts =>
      intro r hr
      obtain ⟨r1, h1, e1⟩ := ih sts (fun c hc => h c (List.mem_cons_of_mem _ hc)) _ r hr
      obtain ⟨r0, h0, e0⟩ := stageSpec_extends ev c (h c List.mem_cons_self) (capOf st) rows r1 h1
      exact ⟨r0, h0, e0.trans e1⟩

/-- ITEM 2 as stated -/
theorem specRows_input_of_inputPreserving (cfgs : List StageCfg) (sts : List StageSt)
    (h : ∀ c ∈ cfgs, InputPreserving c = true) (rows : List Ctx) :
    ∀ r ∈ specRows ev cfgs sts rows, ∃ r0 ∈ rows, r.input = r0.input ∧ r0.results <+: r.results := by
  intro r hr
  obtain ⟨r0, h0, e⟩ := specRows_extends ev cfgs sts h rows r hr
  exact ⟨r0, h0, e.1, e.2.1⟩

/-- the multiset of input values that come out is a sub-multiset of those that went in: no input value
is altered, none is invented, none is duplicated -/
theorem stageSpec_inputs_subMultiset (c : StageCfg) (h : InputPreserving c = true) (cap : Option Nat)
    (rows : List Ctx) :
    SubMultiset ((stageSpec ev c cap rows).map (·.input)) (rows.map (·.input)) := by
  cases c with
  | preset vars defs =>
    have : (stageSpec ev (.preset vars defs) cap rows).map (·.input) = rows.map (·.input) := by
      simp [stageSpec, Ctx.withVariables, Ctx.withDefinitions]
    rw [this]; exact .refl _
  | select name e =>
    have : (stageSpec ev (.select name e) cap rows).map (·.input) = rows.map (·.input) := by
      simp [stageSpec, Ctx.withResult]
    rw [this]; exact .refl _
  | filter e => exact (stageSpec_subMultiset_of_rowPreserving ev _ rfl cap rows).map _
  | unique => exact (stageSpec_subMultiset_of_rowPreserving ev _ rfl cap rows).map _
  | sort key desc => exact (stageSpec_subMultiset_of_rowPreserving ev _ rfl cap rows).map _
  | limit skip take => exact (stageSpec_subMultiset_of_rowPreserving ev _ rfl cap rows).map _
  | split e => exact absurd h (by simp [InputPreserving])
  | group e => exact absurd h (by simp [InputPreserving])
  | merge => exact absurd h (by simp [InputPreserving])

theorem specRows_inputs_subMultiset (cfgs : List StageCfg) (sts : List StageSt)
    (h : ∀ c ∈ cfgs, InputPreserving c = true) (rows : List Ctx) :
    SubMultiset ((specRows ev cfgs sts rows).map (·.input)) (rows.map (·.input)) := by
  induction cfgs generalizing sts rows with
  | nil => exact .refl _
  | cons c cs ih =>
    cases sts with
    | nil => exact .refl _
    | cons st sts =>
      exact (ih sts (fun c hc => h c (List.mem_cons_of_mem _ hc)) _).trans
        (stageSpec_inputs_subMultiset ev c (h c List.mem_cons_self) (capOf st) rows)

/-! ### 3. `split` replaces the input by an element of the array -/

theorem withInput_spec (c : Ctx) (v : JV) :
    (c.withInput v).input = v ∧ (c.withInput v).results = []
      ∧ (c.withInput v).parents = c.input :: c.parents ∧ (c.withInput v).ictx = c.ictx :=
  ⟨rfl, rfl, rfl, rfl⟩

/-- ITEM 3 -/
theorem split_spec (e : Expr) (cap : Option Nat) (rows : List Ctx) :
    ∀ r ∈ stageSpec ev (.split e) cap rows, ∃ r0 ∈ rows, ∃ l, ev e r0 = some (.arr l) ∧ r.input ∈ l
      ∧ r.parents = r0.input :: r0.parents ∧ r.results = [] ∧ r.ictx = r0.ictx := by
  intro r hr
  simp only [stageSpec, List.mem_flatMap] at hr
  obtain ⟨r0, h0, hr⟩ := hr
  refine ⟨r0, h0, ?_⟩
  split at hr
  · rename_i l hl
    obtain ⟨v, hv, rfl⟩ := List.mem_map.mp hr
    exact ⟨l, hl, hv, rfl, rfl, rfl⟩
  · simp at hr

/-- conversely every element of the array becomes the input of exactly the corresponding row: the
inputs of the rows made from one row are the array itself, in order -/
theorem split_inputs (e : Expr) (cap : Option Nat) (r0 : Ctx) (l : List JV)
    (h : ev e r0 = some (.arr l)) : (stageSpec ev (.split e) cap [r0]).map (·.input) = l := by
  simp only [stageSpec, h, List.flatMap_cons, List.flatMap_nil, List.append_nil, List.map_map]
  exact (List.map_congr_left (fun _ _ => rfl)).trans (List.map_id l)

/-! ### 4. `merge` / `group` wrap the built rows; `build` stores the selected values as they are -/

/-- the array emitted by `--merge` is exactly the built rows, in order -/
theorem merge_spec (cap : Option Nat) (rows : List Ctx) :
    stageSpec ev .merge cap rows = [{ input := .arr (rows.map Ctx.build) }] := rfl

theorem group_spec (e : Expr) (cap : Option Nat) (rows : List Ctx) :
    stageSpec ev (.group e) cap rows
      = [{ input := .obj ((groupOf ev e rows).map (fun (k, vs) => (k, JV.arr vs))) }] := rfl

theorem lookup_of_mem_nodup {β : Type} (l : List (Str × β)) (h : (l.map (·.1)).Nodup) (k : Str) (v : β)
    (hm : (k, v) ∈ l) : l.lookup k = some v := by
  induction l with
  | nil => cases hm
  | cons b rest ih =>
    obtain ⟨k0, v0⟩ := b
    simp only [List.map_cons, List.nodup_cons] at h
    rcases List.mem_cons.mp hm with heq | hm
    · cases heq; simp
    · have hne : k ≠ k0 := fun hk => h.1 (hk ▸ List.mem_map.mpr ⟨(k, v), hm, rfl⟩)
      have : (k == k0) = false := by simpa using hne
      simp only [List.lookup_cons, this]
      exact ih h.2 hm

/-- every member array of the group object is `Ctx.build` of the input rows with that key, in arrival
order -/
theorem group_members (e : Expr) (rows : List Ctx) (k : Str) (vs : List JV)
    (h : (k, vs) ∈ groupOf ev e rows) : vs = (rows.filter (hasKey ev e k)).map Ctx.build := by
  have h1 := lookup_of_mem_nodup _ (groupOf_keys_nodup ev e rows) k vs h
  have hk : k ∈ (groupOf ev e rows).map (·.1) := List.mem_map.mpr ⟨(k, vs), h, rfl⟩
  rw [groupOf_lookup ev e k rows ((groupOf_mem_keys ev e k rows).mp hk)] at h1
  exact (Option.some.inj h1).symm

/-- …hence every value inside the group object is the built form of an input row -/
theorem group_member_mem (e : Expr) (rows : List Ctx) (k : Str) (vs : List JV)
    (h : (k, vs) ∈ groupOf ev e rows) : ∀ v ∈ vs, ∃ r ∈ rows, ev e r = some (.str k) ∧ v = r.build := by
  intro v hv
  rw [group_members ev e rows k vs h] at hv
  obtain ⟨r, hr, rfl⟩ := List.mem_map.mp hv
  obtain ⟨hr1, hr2⟩ := List.mem_filter.mp hr
  refine ⟨r, hr1, ?_, rfl⟩
  unfold hasKey at hr2
  split at hr2
  · rename_i k' hk'
    rw [hk', eq_of_beq hr2]
  · cases hr2

/-- a row without selections is built as its input value itself -/
theorem build_of_no_results (c : Ctx) (h : c.results = []) : c.build = c.input := by
  simp [Ctx.build, h]

theorem mem_objInsert {kvs : List (Str × JV)} {k : Str} {v : JV} {p : Str × JV}
    (h : p ∈ objInsert kvs k v) : p ∈ kvs ∨ p = (k, v) := by
  induction kvs with
  | nil => simpa [objInsert] using h
  | cons b rest ih =>
    obtain ⟨k', v'⟩ := b
    simp only [objInsert] at h
    split at h
    · rcases List.mem_cons.mp h with h | h
      · exact Or.inr h
      · exact Or.inl (List.mem_cons_of_mem _ h)
    · rcases List.mem_cons.mp h with h | h
      · exact Or.inl (h ▸ List.mem_cons_self)
      · rcases ih h with h | h
        · exact Or.inl (List.mem_cons_of_mem _ h)
        · exact Or.inr h

/-- the fold inside `build` -/
def buildFold (acc : List (Str × JV)) (rs : List (Str × Option JV)) : List (Str × JV) :=
  rs.foldl (fun acc (t, r) => match r with
    | some v => objInsert acc t v
    | none => acc) acc

theorem build_eq_buildFold (c : Ctx) (h : c.results ≠ []) : c.build = .obj (buildFold [] c.results) := by
  have : c.results.isEmpty = false := by
    cases hr : c.results with
    | nil => exact absurd hr h
    | cons _ _ => rfl
  simp only [Ctx.build, this, Bool.false_eq_true, ↓reduceIte]
  rfl

theorem mem_buildFold (acc : List (Str × JV)) (rs : List (Str × Option JV)) (p : Str × JV)
    (h : p ∈ buildFold acc rs) : p ∈ acc ∨ (p.1, some p.2) ∈ rs := by
  induction rs generalizing acc with
  | nil => exact Or.inl h
  | cons b rest ih =>
    obtain ⟨t, r⟩ := b
    cases r with
    | none =>
      rcases ih acc h with h | h
      · exact Or.inl h
      · exact Or.inr (List.mem_cons_of_mem _ h)
    | some v =>
      rcases ih (objInsert acc t v) h with h | h
      · rcases mem_objInsert h with h | h
        · exact Or.inl h
        · exact Or.inr (h ▸ List.mem_cons_self)
      · exact Or.inr (List.mem_cons_of_mem _ h)

/-- IN GENERAL (names distinct or not): a built row is its input, or an object every member of which is
one of the selected values, stored under its own name, as it is -/
theorem build_members (c : Ctx) :
    c.build = c.input
      ∨ ∃ kvs, c.build = .obj kvs ∧ ∀ p ∈ kvs, (p.1, some p.2) ∈ c.results := by
  by_cases h : c.results = []
  · exact Or.inl (build_of_no_results c h)
  · refine Or.inr ⟨_, build_eq_buildFold c h, fun p hp => ?_⟩
    rcases mem_buildFold [] c.results p hp with h | h
    · cases h
    · exact h

theorem objInsert_fresh (kvs : List (Str × JV)) (k : Str) (v : JV) (h : k ∉ kvs.map (·.1)) :
    objInsert kvs k v = kvs ++ [(k, v)] := by
  induction kvs with
  | nil => rfl
  | cons b rest ih =>
    obtain ⟨k', v'⟩ := b
    simp only [List.map_cons, List.mem_cons, not_or] at h
    have hne : ¬ k' = k := fun hk => h.1 hk.symm
    simp only [objInsert, hne, ↓reduceIte, ih h.2, List.cons_append]

/-- the present selections, in order -/
def present (rs : List (Str × Option JV)) : List (Str × JV) :=
  rs.filterMap (fun (n, v) => v.map (n, ·))

theorem present_names_sub (rs : List (Str × Option JV)) (k : Str) (h : k ∈ (present rs).map (·.1)) :
    k ∈ rs.map (·.1) := by
  simp only [present, List.mem_map, List.mem_filterMap] at h ⊢
  obtain ⟨p, ⟨q, hq, hp⟩, rfl⟩ := h
  obtain ⟨n, v⟩ := q
  cases v with
  | none => simp at hp
  | some v =>
    simp only [Option.map_some, Option.some.injEq] at hp
    exact ⟨(n, some v), hq, by rw [← hp]⟩

theorem buildFold_distinct (acc : List (Str × JV)) (rs : List (Str × Option JV))
    (hn : (rs.map (·.1)).Nodup) (hd : ∀ k ∈ acc.map (·.1), k ∉ rs.map (·.1)) :
    buildFold acc rs = acc ++ present rs := by
  induction rs generalizing acc with
  | nil => simp [buildFold, present]
  | cons b rest ih =>
    obtain ⟨t, r⟩ := b
    simp only [List.map_cons, List.nodup_cons] at hn
    have hd' : ∀ k ∈ acc.map (·.1), k ∉ rest.map (·.1) :=
      fun k hk hk' => hd k hk (List.mem_cons_of_mem _ hk')
    cases r with
    | none =>
      show buildFold acc rest = _
      rw [ih acc hn.2 hd']
      simp [present]
    | some v =>
      show buildFold (objInsert acc t v) rest = _
      have hfresh : t ∉ acc.map (·.1) := fun ht => hd t ht List.mem_cons_self
      rw [objInsert_fresh acc t v hfresh, ih _ hn.2]
      · simp [present]
      · intro k hk
        simp only [List.map_append, List.map_cons, List.map_nil, List.mem_append,
          List.mem_singleton] at hk
        rcases hk with hk | rfl
        · exact hd' k hk
        · exact hn.1

/-- ITEM 4, the simple case: results with pairwise distinct names ⇒ the built row is the object of the
present selections, each VALUE stored as is, in selection order -/
theorem build_of_distinct (c : Ctx) (hne : c.results ≠ []) (hn : (c.results.map (·.1)).Nodup) :
    c.build = .obj (c.results.filterMap (fun (n, v) => v.map (n, ·))) := by
  rw [build_eq_buildFold c hne, buildFold_distinct [] c.results hn (by simp)]
  rfl

theorem objGet?_of_not_mem (kvs : List (Str × JV)) (n : Str) (h : n ∉ kvs.map (·.1)) :
    objGet? kvs n = none := by
  induction kvs with
  | nil => rfl
  | cons b rest ih =>
    obtain ⟨k', v'⟩ := b
    simp only [List.map_cons, List.mem_cons, not_or] at h
    have hne : ¬ k' = n := fun hk => h.1 hk.symm
    simp only [objGet?, hne, ↓reduceIte, ih h.2]

theorem objGet?_present (rs : List (Str × Option JV)) (hn : (rs.map (·.1)).Nodup) (n : Str) :
    objGet? (present rs) n = (match Ctx.lookup rs n with
      | some r => r
      | none => none) := by
  induction rs with
  | nil => rfl
  | cons b rest ih =>
    obtain ⟨t, r⟩ := b
    simp only [List.map_cons, List.nodup_cons] at hn
    by_cases ht : t = n
    · subst ht
      cases r with
      | none =>
        have : objGet? (present rest) t = none :=
          objGet?_of_not_mem _ _ (fun h => hn.1 (present_names_sub rest t h))
        simpa [present, Ctx.lookup] using this
      | some v => simp [present, Ctx.lookup, objGet?]
    · cases r with
      | none => simpa [present, Ctx.lookup, ht] using ih hn.2
      | some v => simpa [present, Ctx.lookup, objGet?, ht] using ih hn.2

/-- …and reading member `n` of the built row gives back the value selected under `n` -/
theorem build_get_selected (c : Ctx) (hne : c.results ≠ []) (hn : (c.results.map (·.1)).Nodup)
    (n : Str) :
    ∃ kvs, c.build = .obj kvs ∧ objGet? kvs n = c.getSelected n :=
  ⟨_, build_of_distinct c hne hn, objGet?_present c.results hn n⟩

/-! ### 5. the extractor returns a sub-value of the input -/

/-- `SubValue x v`: the value `x` occurs inside `v` (as `v` itself, or inside an element / a member).
No constructor is applied to get `x` from `v`: in particular a number found this way is a number that
was stored in `v`, with the same `Num`. -/
inductive SubValue : JV → JV → Prop
  | refl (v : JV) : SubValue v v
  | arr {x y : JV} {l : List JV} : y ∈ l → SubValue x y → SubValue x (.arr l)
  | obj {x y : JV} {k : Str} {kvs : List (Str × JV)} : (k, y) ∈ kvs → SubValue x y → SubValue x (.obj kvs)

theorem SubValue.trans {x y z : JV} (h1 : SubValue x y) (h2 : SubValue y z) : SubValue x z := by
  induction h2 with
  | refl => exact h1
  | arr hm _ ih => exact .arr hm ih
  | obj hm _ ih => exact .obj hm ih

theorem mem_of_objGet? {kvs : List (Str × JV)} {k : Str} {v : JV} (h : objGet? kvs k = some v) :
    (k, v) ∈ kvs := by
  induction kvs with
  | nil => cases h
  | cons b rest ih =>
    obtain ⟨k', v'⟩ := b
    simp only [objGet?] at h
    split at h
    · rename_i hk
      cases h; subst hk; exact List.mem_cons_self
    · exact List.mem_cons_of_mem _ (ih h)

theorem singleStep_subValue {s : Step} {v x : JV} (h : SingleStep.extract s v = some x) :
    SubValue x v := by
  unfold SingleStep.extract at h
  split at h
  · exact .arr (List.mem_of_getElem? h) (.refl x)
  · exact .obj (mem_of_objGet? h) (.refl x)
  · cases h

theorem extractSteps_nil (v : JV) : extractSteps [] v = some v := rfl

theorem extractSteps_cons (s : Step) (steps : List Step) (v : JV) :
    extractSteps (s :: steps) v
      = (match SingleStep.extract s v with
        | none => none
        | some y => extractSteps steps y) := by
  have hnone : ∀ steps : List Step, steps.foldl (fun acc s => match acc with
      | none => none
      | some x => SingleStep.extract s x) (none : Option JV) = none := by
    intro steps
    induction steps with
    | nil => rfl
    | cons s steps ih => exact ih
  show List.foldl _ (SingleStep.extract s v) steps = _
  cases h : SingleStep.extract s v with
  | none => exact hnone steps
  | some y => rfl

/-- ITEM 5: whatever the path, the extractor returns a sub-value of the value it is applied to -/
theorem extractSteps_subValue (steps : List Step) (v x : JV) (h : extractSteps steps v = some x) :
    SubValue x v := by
  induction steps generalizing v with
  | nil => cases h; exact .refl _
  | cons s steps ih =>
    rw [extractSteps_cons] at h
    split at h
    · cases h
    · rename_i y hy
      exact (ih y h).trans (singleStep_subValue hy)

/-- the evaluator on an extractor: no fuel issue, no oracle, no abort -/
theorem evalT_extract (orc : Oracles) (parents : Nat) (steps : List Step) (c : Ctx) :
    evalT orc (.extract parents steps) c = extractSteps steps (c.parentInput parents) := by
  simp only [evalT, evalFuel, eval]

/-- `.` evaluates to the input itself -/
theorem evalT_identity (orc : Oracles) (c : Ctx) : evalT orc (.extract 0 []) c = some c.input := by
  rw [evalT_extract]; rfl

/-- `.k` evaluates to the member as stored -/
theorem evalT_key (orc : Oracles) (k : Str) (c : Ctx) :
    evalT orc (.extract 0 [.key k]) c = (match c.input with
      | .obj m => objGet? m k
      | _ => none) := by
  rw [evalT_extract]
  show SingleStep.extract (.key k) c.input = _
  unfold SingleStep.extract
  cases c.input <;> rfl

/-- any extractor on the current input yields a sub-value of the input -/
theorem evalT_extract_subValue (orc : Oracles) (steps : List Step) (c : Ctx) (x : JV)
    (h : evalT orc (.extract 0 steps) c = some x) : SubValue x c.input := by
  rw [evalT_extract] at h
  exact extractSteps_subValue steps _ x h

/-- COROLLARY: `select .` stores in the new column the input of the row, as it is; nothing else moves -/
theorem identity_extractor_passes_integers (orc : Oracles) (n : Str) (st : StageSt) (rows : List Ctx) :
    specRows (evalT orc) [.select n (.extract 0 [])] [st] rows
      = rows.map (fun c => c.withResult n (some c.input)) := by
  simp only [specRows, stageSpec, evalT_identity]

/-- …so for a freshly read row holding the integer `x` (`.num x`, e.g. `.pos (2^64-1)` or `.neg (-2^63)`)
the row delivered to the sink is built as `{"n": x}` with the very same `Num` -/
theorem identity_extractor_build (orc : Oracles) (n : Str) (st : StageSt) (rows : List Ctx) :
    ∀ r ∈ specRows (evalT orc) [.select n (.extract 0 [])] [st] rows,
      ∃ r0 ∈ rows, r.input = r0.input ∧ r.results = r0.results ++ [(n, some r0.input)]
        ∧ (r0.results = [] → r.build = .obj [(n, r0.input)]) := by
  intro r hr
  rw [identity_extractor_passes_integers] at hr
  obtain ⟨r0, h0, rfl⟩ := List.mem_map.mp hr
  refine ⟨r0, h0, rfl, rfl, fun he => ?_⟩
  simp [Ctx.build, Ctx.withResult, he, objInsert]

/-- `select .k`: the column holds the member as stored in the input object — a sub-value of the input -/
theorem key_extractor_passes_integers (orc : Oracles) (n k : Str) (st : StageSt) (rows : List Ctx) :
    ∀ r ∈ specRows (evalT orc) [.select n (.extract 0 [.key k])] [st] rows,
      ∃ r0 ∈ rows, r.input = r0.input
        ∧ r.results = r0.results ++ [(n, match r0.input with
            | .obj m => objGet? m k
            | _ => none)]
        ∧ ∀ x, r.results.getLast? = some (n, some x) → SubValue x r0.input := by
  intro r hr
  simp only [specRows, stageSpec] at hr
  obtain ⟨r0, h0, rfl⟩ := List.mem_map.mp hr
  refine ⟨r0, h0, rfl, by rw [withResult_results, evalT_key], fun x hx => ?_⟩
  simp only [withResult_results, List.getLast?_append, List.getLast?_singleton, Option.some_or,
    Option.some.injEq, Prod.mk.injEq, true_and] at hx
  exact evalT_extract_subValue orc _ r0 x hx

/-- the whole journey: `select .` followed by any row-preserving stages (unique, sort, limit, filter):
every delivered row is an input row with exactly one column appended, holding that row's input -/
theorem identity_then_rowPreserving (orc : Oracles) (n : Str) (st : StageSt) (cfgs : List StageCfg)
    (sts : List StageSt) (h : ∀ c ∈ cfgs, RowPreserving c = true) (rows : List Ctx) :
    ∀ r ∈ specRows (evalT orc) (.select n (.extract 0 []) :: cfgs) (st :: sts) rows,
      ∃ r0 ∈ rows, r = r0.withResult n (some r0.input) := by
  intro r hr
  have h1 : specRows (evalT orc) (.select n (.extract 0 []) :: cfgs) (st :: sts) rows
      = specRows (evalT orc) cfgs sts (rows.map (fun c => c.withResult n (some c.input))) := by
    simp only [specRows, stageSpec, evalT_identity]
  rw [h1] at hr
  obtain ⟨r0, h0, e⟩ := List.mem_map.mp (specRows_mem_of_rowPreserving (evalT orc) cfgs sts h _ r hr)
  exact ⟨r0, h0, e.symm⟩

/-! ### non-vacuity -/

/-- the largest and the smallest integers of the supported range -/
def bigRows : List Ctx :=
  [{ input := .num (.pos 18446744073709551615) }, { input := .num (.neg (-9223372036854775808)) }]

def bigChain : List StageCfg :=
  [.filter (.extract 0 []), .unique, .sort (.extract 0 []) true, .limit 1 (some 2)]

def bigStates : List StageSt := [.none, .unique [], .sort [] (some 3), .limit 0 0]

example : ∀ c ∈ bigChain, RowPreserving c = true := by simp [bigChain, RowPreserving]

example : Initial bigChain bigStates := by simp [bigChain, bigStates, Initial]

/-- whatever the evaluator answers, what comes out of the chain is among the two rows, unchanged -/
example : ∀ r ∈ specRows ev bigChain bigStates bigRows,
    r.input = .num (.pos 18446744073709551615) ∨ r.input = .num (.neg (-9223372036854775808)) := by
  intro r hr
  have := specRows_mem_of_rowPreserving ev bigChain bigStates (by simp [bigChain, RowPreserving]) bigRows r hr
  simp only [bigRows, List.mem_cons, List.not_mem_nil, or_false] at this
  rcases this with rfl | rfl
  · exact Or.inl rfl
  · exact Or.inr rfl

example : ∀ r ∈ runP ev bigChain bigStates bigRows, r ∈ bigRows :=
  runP_mem_of_rowPreserving ev (by simp [bigChain, bigStates, Initial])
    (by simp [bigChain, RowPreserving]) bigRows

/-- an input-preserving chain with a selection in it -/
example : ∀ c ∈ [StageCfg.preset [] [], .select "x".toList (.extract 0 []), .unique,
    .sort (.selected "x".toList) false], InputPreserving c = true := by
  simp [InputPreserving]

/-- `build_of_distinct` / `build_get_selected`: the hypotheses are satisfiable -/
example :
    let c : Ctx := { results := [("a".toList, some (.num (.pos 18446744073709551615))), ("b".toList, none),
      ("c".toList, some (.num (.neg (-9223372036854775808))))] }
    c.results ≠ [] ∧ (c.results.map (·.1)).Nodup
      ∧ c.build = .obj [("a".toList, .num (.pos 18446744073709551615)),
          ("c".toList, .num (.neg (-9223372036854775808)))] := by
  refine ⟨by simp, by decide, ?_⟩
  rw [build_of_distinct _ (by simp) (by decide)]
  rfl

/-- distinct names are needed for `build_of_distinct`: a repeated name overwrites in place (`IndexMap::insert`) -/
example :
    let c : Ctx := { results := [("a".toList, some .null), ("a".toList, some (.bool true))] }
    c.build = .obj [("a".toList, .bool true)]
      ∧ c.results.filterMap (fun (n, v) => v.map (n, ·)) = [("a".toList, .null), ("a".toList, .bool true)] := by
  simp [Ctx.build, objInsert]

/-- `group_members` on a concrete input -/
example : (['a'], [JV.num (.pos 18446744073709551615), JV.num (.pos 1)])
    ∈ groupOf (fun _ _ => some (.str ['a'])) (.extract 0 [])
        [{ input := .num (.pos 18446744073709551615) }, { input := .num (.pos 1) }] := by
  simp [groupOf, groupInsert, Ctx.build]

/-- `split_spec` on a concrete input -/
example : (stageSpec (fun _ c => some c.input) (.split (.extract 0 [])) none
      [{ input := .arr [.num (.pos 18446744073709551615), .num (.neg (-9223372036854775808))] }]).map (·.input)
    = [.num (.pos 18446744073709551615), .num (.neg (-9223372036854775808))] :=
  split_inputs _ _ _ _ _ rfl

/-- `SubValue` through a path: `.a[1]` -/
example : SubValue (.num (.pos 18446744073709551615))
    (.obj [("a".toList, .arr [.null, .num (.pos 18446744073709551615)])]) :=
  extractSteps_subValue [.key "a".toList, .idx 1] _ _ (by simp [extractSteps, SingleStep.extract, objGet?])

end Jawk.Pass

/- axiom audit (all ⊆ {propext, Classical.choice, Quot.sound}):
#print axioms Jawk.Pass.specRows_mem_of_rowPreserving
#print axioms Jawk.Pass.specRows_subMultiset_of_rowPreserving
#print axioms Jawk.Pass.runP_mem_of_rowPreserving
#print axioms Jawk.Pass.sort_sublist_perm
#print axioms Jawk.Pass.specRows_extends
#print axioms Jawk.Pass.specRows_input_of_inputPreserving
#print axioms Jawk.Pass.specRows_inputs_subMultiset
#print axioms Jawk.Pass.split_spec
#print axioms Jawk.Pass.group_members
#print axioms Jawk.Pass.group_member_mem
#print axioms Jawk.Pass.build_members
#print axioms Jawk.Pass.build_of_distinct
#print axioms Jawk.Pass.build_get_selected
#print axioms Jawk.Pass.extractSteps_subValue
#print axioms Jawk.Pass.evalT_identity
#print axioms Jawk.Pass.identity_extractor_passes_integers
#print axioms Jawk.Pass.identity_extractor_build
#print axioms Jawk.Pass.key_extractor_passes_integers
#print axioms Jawk.Pass.identity_then_rowPreserving
-/
