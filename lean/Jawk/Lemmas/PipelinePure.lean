/-
  Layer 1 → layer 2 of `Jawk/Spec/Pipeline.lean`: when no expression aborts and the writer never
  fails, the monadic model of the `Process` chain (`process` / `complete` / `feedUntilBreak` /
  `feedAllIgnoring` of `Model/Stages.lean`) is the effect-free machine (`processP` / `completeP` /
  `feedBrk` / `feedAll`), and what it writes is the concatenation of the sink's bytes for the rows
  the machine delivers.  Core Lean only.
-/
import Jawk.Spec.Pipeline
namespace Jawk.Pipe
open Jawk

/-! ### A1: writers that never fail -/

theorem wappend_nil (w : Writer) : wappend w [] = w := by
  simp [wappend]

theorem wappend_wappend (w : Writer) (a b : List Byte) :
    wappend (wappend w a) b = wappend w (a ++ b) := by
  simp [wappend]

theorem wappend_out (w : Writer) (a : List Byte) : (wappend w a).out = w.out ++ a := rfl

theorem Unbounded.wappend {w : Writer} (h : Unbounded w) (bs : List Byte) :
    Unbounded (wappend w bs) := h

theorem put_unbounded {w : Writer} (h : Unbounded w) (bs : List Byte) :
    w.put bs = wappend w bs ∧ Unbounded (wappend w bs) := by
  refine ⟨?_, h.wappend bs⟩
  obtain ⟨hr, hf⟩ := h
  simp [Writer.put, hr, hf, wappend]

theorem putAll_unbounded (chunks : List (List Byte)) {w : Writer} (h : Unbounded w) :
    putAll w chunks = wappend w chunks.flatten ∧ Unbounded (wappend w chunks.flatten) := by
  refine ⟨?_, h.wappend _⟩
  unfold putAll
  induction chunks generalizing w with
  | nil => simp [wappend_nil]
  | cons c cs ih =>
    rw [List.foldl_cons, (put_unbounded h c).1, ih (h.wappend c), wappend_wappend, List.flatten_cons]

theorem wres_unbounded {w : Writer} (h : Unbounded w) : wres w = .ok w := by
  simp [wres, h.2]

theorem sinkProcess_pure (sink : SinkCfg) (n : Nat) {w : Writer} (h : Unbounded w) (ctx : Ctx) :
    sinkProcess sink n w ctx = .ok (wappend w (sinkBytes sink n ctx)) := by
  cases sink with
  | json o sep =>
    simp only [sinkProcess, sinkBytes]
    rw [(putAll_unbounded _ h).1, wres_unbounded (h.wappend _)]
    simp
  | text o sep =>
    simp only [sinkProcess, sinkBytes]
    split
    · rw [(putAll_unbounded _ h).1, wres_unbounded (h.wappend _)]
    · rw [(putAll_unbounded _ h).1, wres_unbounded (h.wappend _)]
      simp

/-! ### the evaluator -/

theorem NoAbort.tail {orc : Oracles} {c : StageCfg} {cs : List StageCfg} (h : NoAbort orc (c :: cs)) :
    NoAbort orc cs :=
  fun c' hc' => h c' (List.mem_cons_of_mem _ hc')

theorem NoAbort.head {orc : Oracles} {c : StageCfg} {cs : List StageCfg} (h : NoAbort orc (c :: cs)) :
    ∀ e ∈ stageExprs c, ∀ ctx : Ctx, ∃ v, eval orc evalFuel e ctx = .ok v :=
  h c List.mem_cons_self

theorem evalE_pure {orc : Oracles} {e : Expr} {ctx : Ctx}
    (h : ∃ v, eval orc evalFuel e ctx = .ok v) (w : Writer) :
    evalE orc w e ctx = .ok (evalT orc e ctx) := by
  obtain ⟨v, hv⟩ := h
  simp [evalE, evalT, liftR, hv]

/-! ### A2/A3: the machine -/

/-- the monadic result that corresponds to a pure step started with writer `w` -/
def okStep (sink : SinkCfg) (n : Nat) (w : Writer) (r : Step) : Res (PState × Decision) :=
  .ok (⟨r.1, wappend w (r.2.1.flatMap (sinkBytes sink n))⟩, r.2.2)

/-- `feedUntilBreak next` refines `feedBrk nextP` whenever `next` refines `nextP` on states
satisfying an invariant `P` that `nextP` preserves -/
theorem feedUntilBreak_gen (sink : SinkCfg) (n : Nat)
    (next : List StageSt → Writer → Ctx → Res (PState × Decision))
    (nextP : List StageSt → Ctx → Step) (P : List StageSt → Prop)
    (H : ∀ sts w ctx, Unbounded w → P sts →
      next sts w ctx = okStep sink n w (nextP sts ctx) ∧ P (nextP sts ctx).1)
    (rows : List Ctx) (sts : List StageSt) (w : Writer) (hw : Unbounded w) (hs : P sts) :
    feedUntilBreak next sts w rows = okStep sink n w (feedBrk nextP sts rows)
      ∧ P (feedBrk nextP sts rows).1 := by
  induction rows generalizing sts w with
  | nil => simp [feedUntilBreak, feedBrk, okStep, wappend_nil, hs]
  | cons c cs ih =>
    obtain ⟨h1, h2⟩ := H sts w c hw hs
    rcases hr : nextP sts c with ⟨s1, o1, d⟩
    rw [hr] at h1 h2
    cases d with
    | brk =>
      simp only [feedUntilBreak, feedBrk, hr, h1, okStep, bind, Except.bind]
      exact ⟨by simp, h2⟩
    | cont =>
      obtain ⟨i1, i2⟩ := ih s1 (wappend w (o1.flatMap (sinkBytes sink n))) (hw.wappend _) h2
      simp only [feedUntilBreak, feedBrk, hr, h1, okStep, bind, Except.bind]
      simp only [okStep] at i1
      refine ⟨?_, i2⟩
      simp [i1, wappend_wappend]

/-- `feedAllIgnoring next` refines `feedAll nextP` under the same assumptions -/
theorem feedAllIgnoring_gen (sink : SinkCfg) (n : Nat)
    (next : List StageSt → Writer → Ctx → Res (PState × Decision))
    (nextP : List StageSt → Ctx → Step) (P : List StageSt → Prop)
    (H : ∀ sts w ctx, Unbounded w → P sts →
      next sts w ctx = okStep sink n w (nextP sts ctx) ∧ P (nextP sts ctx).1)
    (rows : List Ctx) (sts : List StageSt) (w : Writer) (hw : Unbounded w) (hs : P sts) :
    feedAllIgnoring next sts w rows
        = .ok ⟨(feedAll nextP sts rows).1,
            wappend w ((feedAll nextP sts rows).2.flatMap (sinkBytes sink n))⟩
      ∧ P (feedAll nextP sts rows).1 := by
  induction rows generalizing sts w with
  | nil => simp [feedAllIgnoring, feedAll, wappend_nil, hs]
  | cons c cs ih =>
    obtain ⟨h1, h2⟩ := H sts w c hw hs
    obtain ⟨i1, i2⟩ := ih (nextP sts c).1 (wappend w ((nextP sts c).2.1.flatMap (sinkBytes sink n)))
      (hw.wappend _) h2
    simp only [feedAllIgnoring, feedAll, h1, okStep, bind, Except.bind]
    refine ⟨?_, i2⟩
    simp [i1, wappend_wappend]


theorem Shape.tail {c : StageCfg} {cs : List StageCfg} {st : StageSt} {sts : List StageSt}
    (h : Shape (c :: cs) (st :: sts)) : Shape cs sts := h.2

/-- A2, in `okStep` form -/
theorem process_okStep (orc : Oracles) (sink : SinkCfg) (n : Nat) (cfgs : List StageCfg)
    (sts : List StageSt) (w : Writer) (ctx : Ctx)
    (hna : NoAbort orc cfgs) (hw : Unbounded w) (hs : Shape cfgs sts) :
    process orc sink n cfgs sts w ctx = okStep sink n w (processP (evalT orc) cfgs sts ctx)
      ∧ Shape cfgs (processP (evalT orc) cfgs sts ctx).1 := by
  induction cfgs generalizing sts w ctx with
  | nil =>
    simp [process, processP, okStep, sinkProcess_pure sink n hw, Shape, bind, Except.bind]
  | cons c cs ih =>
    cases sts with
    | nil => exact absurd hs (by simp [Shape])
    | cons st sts =>
      have hna' := hna.tail
      have hev := hna.head
      have hs' : Shape cs sts := hs.2
      have hc := hs.1
      have IH := fun sts w ctx hw hs => ih sts w ctx hna' hw hs
      cases c with
      | preset vars defs =>
        obtain ⟨i1, i2⟩ := IH sts w ((ctx.withVariables vars).withDefinitions defs) hw hs'
        simp only [process, processP, i1, okStep, bind, Except.bind]
        exact ⟨trivial, hc, i2⟩
      | split e =>
        have he := evalE_pure (hev e (by simp [stageExprs]) ctx) w
        have F := fun l => feedUntilBreak_gen sink n (process orc sink n cs) (processP (evalT orc) cs)
          (Shape cs) IH (List.map ctx.withInput l) sts w hw hs'
        simp only [process, processP, he, bind, Except.bind]
        rcases hv : evalT orc e ctx with _ | v
        · simp [okStep, wappend_nil, Shape, hs']
        · cases v <;> try (simp [okStep, wappend_nil, Shape, hs']; done)
          rename_i l
          obtain ⟨f1, f2⟩ := F l
          simp only [f1, okStep]
          exact ⟨trivial, hc, f2⟩
      | filter e =>
        have he := evalE_pure (hev e (by simp [stageExprs]) ctx) w
        obtain ⟨i1, i2⟩ := IH sts w ctx hw hs'
        simp only [process, processP, he, bind, Except.bind]
        rcases hv : evalT orc e ctx with _ | v
        · simp [okStep, wappend_nil, Shape, hs']
        · cases v <;> try (simp [okStep, wappend_nil, Shape, hs']; done)
          rename_i b
          cases b
          · simp [okStep, wappend_nil, Shape, hs']
          · simp only [i1, okStep]
            exact ⟨trivial, hc, i2⟩
      | select name e =>
        have he := evalE_pure (hev e (by simp [stageExprs]) ctx) w
        obtain ⟨i1, i2⟩ := IH sts w (ctx.withResult name (evalT orc e ctx)) hw hs'
        simp only [process, processP, he, i1, okStep, bind, Except.bind]
        exact ⟨trivial, hc, i2⟩
      | unique =>
        cases st <;> try (exact False.elim hc)
        rename_i seen
        obtain ⟨i1, i2⟩ := IH sts w ctx hw hs'
        simp only [process, processP]
        split
        · simp [okStep, wappend_nil, Shape, hs']
        · simp only [i1, okStep, bind, Except.bind]
          exact ⟨trivial, trivial, i2⟩
      | sort key desc =>
        cases st <;> try (exact False.elim hc)
        rename_i data space
        have he := evalE_pure (hev key (by simp [stageExprs]) ctx) w
        simp only [process, processP, he, bind, Except.bind]
        rcases hv : evalT orc key ctx with _ | v
        · simp [okStep, wappend_nil, Shape, hs']
        · simp [okStep, wappend_nil, Shape, hs']
      | limit skip take =>
        cases st <;> try (exact False.elim hc)
        rename_i skipped passed
        obtain ⟨i1, i2⟩ := IH sts w ctx hw hs'
        simp only [process, processP]
        split
        · simp [okStep, wappend_nil, Shape, hs']
        · cases take with
          | none =>
            simp only [i1, okStep, bind, Except.bind]
            exact ⟨trivial, trivial, i2⟩
          | some l =>
            simp only []
            split
            · simp [okStep, wappend_nil, Shape, hs']
            · simp only [i1, okStep, bind, Except.bind]
              exact ⟨trivial, trivial, i2⟩
      | group e =>
        cases st <;> try (exact False.elim hc)
        rename_i data
        have he := evalE_pure (hev e (by simp [stageExprs]) ctx) w
        simp only [process, processP, he, bind, Except.bind]
        rcases hv : evalT orc e ctx with _ | v
        · simp [okStep, wappend_nil, Shape, hs']
        · cases v <;> simp [okStep, wappend_nil, Shape, hs']
      | merge =>
        cases st <;> try (exact False.elim hc)
        rename_i data
        simp [process, processP, okStep, wappend_nil, Shape, hs']

/-- A2 `process_pure`: one step of the chain is one step of the effect-free machine, the bytes of
the delivered rows are appended to the writer, and the state keeps its shape -/
theorem process_pure (orc : Oracles) (sink : SinkCfg) (n : Nat) (cfgs : List StageCfg)
    (sts : List StageSt) (w : Writer) (ctx : Ctx)
    (hna : NoAbort orc cfgs) (hw : Unbounded w) (hs : Shape cfgs sts) :
    process orc sink n cfgs sts w ctx
        = .ok (⟨(processP (evalT orc) cfgs sts ctx).1,
                wappend w (((processP (evalT orc) cfgs sts ctx).2.1).flatMap (sinkBytes sink n))⟩,
               (processP (evalT orc) cfgs sts ctx).2.2)
      ∧ Shape cfgs (processP (evalT orc) cfgs sts ctx).1 :=
  process_okStep orc sink n cfgs sts w ctx hna hw hs

/-- A3 `feedUntilBreak_pure` -/
theorem feedUntilBreak_pure (orc : Oracles) (sink : SinkCfg) (n : Nat) (cfgs : List StageCfg)
    (sts : List StageSt) (w : Writer) (rows : List Ctx)
    (hna : NoAbort orc cfgs) (hw : Unbounded w) (hs : Shape cfgs sts) :
    feedUntilBreak (process orc sink n cfgs) sts w rows
        = .ok (⟨(feedBrk (processP (evalT orc) cfgs) sts rows).1,
                wappend w (((feedBrk (processP (evalT orc) cfgs) sts rows).2.1).flatMap
                  (sinkBytes sink n))⟩,
               (feedBrk (processP (evalT orc) cfgs) sts rows).2.2)
      ∧ Shape cfgs (feedBrk (processP (evalT orc) cfgs) sts rows).1 :=
  feedUntilBreak_gen sink n _ _ (Shape cfgs)
    (fun sts w ctx hw hs => process_okStep orc sink n cfgs sts w ctx hna hw hs) rows sts w hw hs

/-- A3 `feedAllIgnoring_pure` -/
theorem feedAllIgnoring_pure (orc : Oracles) (sink : SinkCfg) (n : Nat) (cfgs : List StageCfg)
    (sts : List StageSt) (w : Writer) (rows : List Ctx)
    (hna : NoAbort orc cfgs) (hw : Unbounded w) (hs : Shape cfgs sts) :
    feedAllIgnoring (process orc sink n cfgs) sts w rows
        = .ok ⟨(feedAll (processP (evalT orc) cfgs) sts rows).1,
               wappend w (((feedAll (processP (evalT orc) cfgs) sts rows).2).flatMap
                 (sinkBytes sink n))⟩
      ∧ Shape cfgs (feedAll (processP (evalT orc) cfgs) sts rows).1 :=
  feedAllIgnoring_gen sink n _ _ (Shape cfgs)
    (fun sts w ctx hw hs => process_okStep orc sink n cfgs sts w ctx hna hw hs) rows sts w hw hs

/-- A3 `complete_pure` -/
theorem complete_pure (orc : Oracles) (sink : SinkCfg) (n : Nat) (cfgs : List StageCfg)
    (sts : List StageSt) (w : Writer)
    (hna : NoAbort orc cfgs) (hw : Unbounded w) (hs : Shape cfgs sts) :
    complete orc sink n cfgs sts w
      = .ok (wappend w ((completeP (evalT orc) cfgs sts).flatMap (sinkBytes sink n))) := by
  induction cfgs generalizing sts w with
  | nil => simp [complete, completeP, wappend_nil]
  | cons c cs ih =>
    cases sts with
    | nil => exact absurd hs (by simp [Shape])
    | cons st sts =>
      have hna' := hna.tail
      have hs' : Shape cs sts := hs.2
      have hc := hs.1
      have IH := fun sts w hw hs => ih sts w hna' hw hs
      cases c with
      | preset vars defs => simpa [complete, completeP] using IH sts w hw hs'
      | split e => simpa [complete, completeP] using IH sts w hw hs'
      | filter e => simpa [complete, completeP] using IH sts w hw hs'
      | select name e => simpa [complete, completeP] using IH sts w hw hs'
      | unique =>
        cases st <;> try (exact False.elim hc)
        simpa [complete, completeP] using IH sts w hw hs'
      | limit skip take =>
        cases st <;> try (exact False.elim hc)
        simpa [complete, completeP] using IH sts w hw hs'
      | sort key desc =>
        cases st <;> try (exact False.elim hc)
        rename_i data space
        obtain ⟨f1, f2⟩ := feedAllIgnoring_pure orc sink n cs sts w (bucketsEmit desc data) hna' hw hs'
        simp only [complete, completeP, f1, bind, Except.bind]
        rw [IH _ _ (hw.wappend _) f2, wappend_wappend, List.flatMap_append]
      | group e =>
        cases st <;> try (exact False.elim hc)
        rename_i data
        obtain ⟨p1, _⟩ := process_pure orc sink n cs sts w
          { input := JV.obj (data.map (fun (k, vs) => (k, JV.arr vs))) } hna' hw hs'
        simp only [complete, completeP, groupValue, p1, bind, Except.bind]
      | merge =>
        cases st <;> try (exact False.elim hc)
        rename_i data
        obtain ⟨p1, _⟩ := process_pure orc sink n cs sts w { input := .arr data } hna' hw hs'
        simp only [complete, completeP, p1, bind, Except.bind]

/-- A4 `total_pure`: the driver's loop (feed until `Break`, then `complete`) succeeds and writes
exactly the sink's bytes of `runP`'s rows after what was already written -/
theorem total_pure (orc : Oracles) (sink : SinkCfg) (n : Nat) (cfgs : List StageCfg)
    (sts : List StageSt) (w : Writer) (rows : List Ctx)
    (hna : NoAbort orc cfgs) (hw : Unbounded w) (hs : Shape cfgs sts) :
    (feedUntilBreak (process orc sink n cfgs) sts w rows >>= fun r =>
        complete orc sink n cfgs r.1.sts r.1.w)
      = .ok (wappend w ((runP (evalT orc) cfgs sts rows).flatMap (sinkBytes sink n))) := by
  obtain ⟨f1, f2⟩ := feedUntilBreak_pure orc sink n cfgs sts w rows hna hw hs
  simp only [f1, bind, Except.bind]
  rw [complete_pure orc sink n cfgs _ _ hna (hw.wappend _) f2, wappend_wappend, runP,
    List.flatMap_append]

/-- the same, on the output bytes -/
theorem total_pure_out (orc : Oracles) (sink : SinkCfg) (n : Nat) (cfgs : List StageCfg)
    (sts : List StageSt) (w : Writer) (rows : List Ctx)
    (hna : NoAbort orc cfgs) (hw : Unbounded w) (hs : Shape cfgs sts) :
    ∃ w', (feedUntilBreak (process orc sink n cfgs) sts w rows >>= fun r =>
        complete orc sink n cfgs r.1.sts r.1.w) = .ok w' ∧ Unbounded w' ∧
      w'.out = w.out ++ (runP (evalT orc) cfgs sts rows).flatMap (sinkBytes sink n) :=
  ⟨_, total_pure orc sink n cfgs sts w rows hna hw hs, hw.wappend _, rfl⟩

/-! ### non-vacuity -/

/-- the concrete chain used in the examples -/
def exampleChain : List StageCfg :=
  [.filter (.extract 0 [Jawk.Step.key "k".toList]), .select "x".toList (.extract 0 []), .unique,
   .sort (.extract 0 []) false, .limit 1 (some 2), .merge]

def exampleStates : List StageSt :=
  [.none, .none, .unique [], .sort [] (some 3), .limit 0 0, .merge []]

theorem exampleChain_noAbort (orc : Oracles) : NoAbort orc exampleChain := by
  intro c hc e he ctx
  simp only [exampleChain, List.mem_cons, List.not_mem_nil, or_false] at hc
  rcases hc with rfl | rfl | rfl | rfl | rfl | rfl <;>
    simp only [stageExprs, List.mem_singleton, List.not_mem_nil] at he <;>
    subst he <;> exact ⟨_, by simp only [evalFuel, eval]; rfl⟩

theorem exampleChain_shape : Shape exampleChain exampleStates := by
  simp [exampleChain, exampleStates, Shape]

example : Unbounded {} := ⟨rfl, rfl⟩

end Jawk.Pipe

/- axiom audit (all ⊆ {propext, Classical.choice, Quot.sound}):
#print axioms Jawk.Pipe.process_pure
#print axioms Jawk.Pipe.feedUntilBreak_pure
#print axioms Jawk.Pipe.feedAllIgnoring_pure
#print axioms Jawk.Pipe.complete_pure
#print axioms Jawk.Pipe.total_pure
-/
