/-
  Layer 2 → layer 3 of `Jawk/Spec/Pipeline.lean`: the effect-free machine (`processP` / `completeP`,
  driven by `runP`) computes the documented composition of list functions (`specRows`).
  Everything is generic in the total evaluator `ev`.
-/
import Jawk.Spec.Pipeline
import Jawk.Lemmas.Order
import Jawk.Lemmas.BucketSort
import Jawk.Lemmas.PipelinePure
namespace Jawk.Pipe
open Jawk

variable (ev : Expr → Ctx → Option JV)

/-! ### unfolding the drivers -/

theorem feedBrk_nil (next : List StageSt → Ctx → Step) (s : List StageSt) :
    feedBrk next s [] = (s, [], .cont) := rfl

theorem feedBrk_cons_brk {next : List StageSt → Ctx → Step} {s s1 : List StageSt} {x : Ctx}
    {o1 : List Ctx} (h : next s x = (s1, o1, .brk)) (xs : List Ctx) :
    feedBrk next s (x :: xs) = (s1, o1, .brk) := by
  simp [feedBrk, h]

theorem feedBrk_cons_cont {next : List StageSt → Ctx → Step} {s s1 : List StageSt} {x : Ctx}
    {o1 : List Ctx} (h : next s x = (s1, o1, .cont)) (xs : List Ctx) :
    feedBrk next s (x :: xs)
      = ((feedBrk next s1 xs).1, o1 ++ (feedBrk next s1 xs).2.1, (feedBrk next s1 xs).2.2) := by
  simp [feedBrk, h]

theorem feedAll_nil (next : List StageSt → Ctx → Step) (s : List StageSt) :
    feedAll next s [] = (s, []) := rfl

theorem feedAll_cons (next : List StageSt → Ctx → Step) (s : List StageSt) (x : Ctx) (xs : List Ctx) :
    feedAll next s (x :: xs)
      = ((feedAll next (next s x).1 xs).1, (next s x).2.1 ++ (feedAll next (next s x).1 xs).2) := rfl

theorem runAll_nil (cfgs : List StageCfg) (s : List StageSt) :
    runAll ev cfgs s [] = completeP ev cfgs s := by
  simp [runAll, feedAll]

theorem runAll_cons (cfgs : List StageCfg) (s : List StageSt) (x : Ctx) (more : List Ctx) :
    runAll ev cfgs s (x :: more)
      = (processP ev cfgs s x).2.1 ++ runAll ev cfgs (processP ev cfgs s x).1 more := by
  simp [runAll, feedAll]

theorem runP_nil (cfgs : List StageCfg) (s : List StageSt) :
    runP ev cfgs s [] = completeP ev cfgs s := by
  simp [runP, feedBrk]

theorem runP_cons_brk {cfgs : List StageCfg} {s s1 : List StageSt} {x : Ctx} {o1 : List Ctx}
    (h : processP ev cfgs s x = (s1, o1, .brk)) (more : List Ctx) :
    runP ev cfgs s (x :: more) = o1 ++ completeP ev cfgs s1 := by
  simp [runP, feedBrk_cons_brk h]

theorem runP_cons_cont {cfgs : List StageCfg} {s s1 : List StageSt} {x : Ctx} {o1 : List Ctx}
    (h : processP ev cfgs s x = (s1, o1, .cont)) (more : List Ctx) :
    runP ev cfgs s (x :: more) = o1 ++ runP ev cfgs s1 more := by
  simp [runP, feedBrk_cons_cont h]

/-! ### B1: break-insensitivity -/

/-- feeding anything more changes nothing that will ever reach the sink -/
def Settled (cfgs : List StageCfg) (s : List StageSt) : Prop :=
  ∀ more, runAll ev cfgs s more = completeP ev cfgs s

variable {ev}

/-- `Settled` is closed under steps, and a step's output is already accounted for -/
theorem Settled.step {cfgs : List StageCfg} {s : List StageSt} (h : Settled ev cfgs s) (x : Ctx) :
    (processP ev cfgs s x).2.1 ++ completeP ev cfgs (processP ev cfgs s x).1 = completeP ev cfgs s
      ∧ Settled ev cfgs (processP ev cfgs s x).1 := by
  have h1 := h [x]
  rw [runAll_cons, runAll_nil] at h1
  refine ⟨h1, fun more => ?_⟩
  have h2 := h (x :: more)
  rw [runAll_cons, ← h1] at h2
  exact List.append_cancel_left h2

theorem Settled.feedBrk {cfgs : List StageCfg} {s : List StageSt} (h : Settled ev cfgs s)
    (rows : List Ctx) :
    (feedBrk (processP ev cfgs) s rows).2.1 ++ completeP ev cfgs (feedBrk (processP ev cfgs) s rows).1
        = completeP ev cfgs s
      ∧ Settled ev cfgs (feedBrk (processP ev cfgs) s rows).1 := by
  induction rows generalizing s with
  | nil => exact ⟨by simp [feedBrk_nil], h⟩
  | cons x rows ih =>
    have hs := h.step x
    rcases hr : processP ev cfgs s x with ⟨s1, o1, d⟩
    rw [hr] at hs
    cases d with
    | brk => rw [feedBrk_cons_brk hr]; exact hs
    | cont =>
      rw [feedBrk_cons_cont hr]
      obtain ⟨i1, i2⟩ := ih hs.2
      refine ⟨?_, i2⟩
      simp only [List.append_assoc, i1]
      exact hs.1

/-- a stage that only transforms the list its successor sees inherits `Settled` from it -/
theorem Settled.lift {c : StageCfg} {cs : List StageCfg} {st : StageSt} {s : List StageSt}
    (hc : completeP ev (c :: cs) (st :: s) = completeP ev cs s)
    (hr : ∀ more, ∃ more', runAll ev (c :: cs) (st :: s) more = runAll ev cs s more')
    (h : Settled ev cs s) : Settled ev (c :: cs) (st :: s) := by
  intro more
  obtain ⟨more', e⟩ := hr more
  rw [e, h more', hc]

/-! ### the stages as list functions, for `runAll` and a general own state -/

variable (ev)

theorem runAll_preset (vars : List (Str × JV)) (defs : List (Str × Expr)) (cs : List StageCfg)
    (st : StageSt) (s : List StageSt) (rows : List Ctx) :
    runAll ev (.preset vars defs :: cs) (st :: s) rows
      = runAll ev cs s (rows.map (fun c => (c.withVariables vars).withDefinitions defs)) := by
  induction rows generalizing s with
  | nil => simp [runAll_nil, completeP]
  | cons x rows ih =>
    rw [runAll_cons, List.map_cons, runAll_cons]
    simp only [processP]
    rw [ih]

theorem runAll_filter (e : Expr) (cs : List StageCfg) (st : StageSt) (s : List StageSt)
    (rows : List Ctx) :
    runAll ev (.filter e :: cs) (st :: s) rows
      = runAll ev cs s (rows.filter (fun c => match ev e c with
          | some (.bool true) => true
          | _ => false)) := by
  induction rows generalizing s with
  | nil => simp [runAll_nil, completeP]
  | cons x rows ih =>
    rw [runAll_cons]
    simp only [processP, List.filter_cons]
    split
    · rename_i h
      simp only [h, ↓reduceIte, runAll_cons, ih]
    · rename_i h
      simp only [List.nil_append, ih]
      split
      · rename_i h2; cases h2
      · rfl

theorem runAll_select (name : Str) (e : Expr) (cs : List StageCfg) (st : StageSt)
    (s : List StageSt) (rows : List Ctx) :
    runAll ev (.select name e :: cs) (st :: s) rows
      = runAll ev cs s (rows.map (fun c => c.withResult name (ev e c))) := by
  induction rows generalizing s with
  | nil => simp [runAll_nil, completeP]
  | cons x rows ih =>
    rw [runAll_cons, List.map_cons, runAll_cons]
    simp only [processP]
    rw [ih]

theorem runAll_unique (cs : List StageCfg) (seen : List CtxKey) (s : List StageSt)
    (rows : List Ctx) :
    runAll ev (.unique :: cs) (.unique seen :: s) rows = runAll ev cs s (dedupFrom seen rows) := by
  induction rows generalizing s seen with
  | nil => simp [runAll_nil, completeP, dedupFrom]
  | cons x rows ih =>
    rw [runAll_cons]
    simp only [processP, dedupFrom]
    split
    · simp only [List.nil_append, ih]
    · simp only [runAll_cons, ih]

theorem runAll_limit_none (skip : Nat) (cs : List StageCfg) (skipped passed : Nat)
    (s : List StageSt) (rows : List Ctx) :
    runAll ev (.limit skip none :: cs) (.limit skipped passed :: s) rows
      = runAll ev cs s (rows.drop (skip - skipped)) := by
  induction rows generalizing s skipped with
  | nil => simp [runAll_nil, completeP]
  | cons x rows ih =>
    rw [runAll_cons]
    simp only [processP]
    split
    · rename_i h
      simp only [List.nil_append, ih]
      have : skip - skipped = (skip - (skipped + 1)) + 1 := by omega
      rw [this, List.drop_succ_cons]
    · rename_i h
      have : skip - skipped = 0 := by omega
      simp only [this, List.drop_zero, runAll_cons, ih]

/-! ### B1, main lemma: a state that answered `Break` is settled -/

/-- a saturated limiter drops everything and never changes -/
theorem feedAll_limit_saturated (skip l : Nat) (cs : List StageCfg) (skipped passed : Nat)
    (s : List StageSt) (h1 : ¬ skipped < skip) (h2 : passed ≥ l) (rows : List Ctx) :
    feedAll (processP ev (.limit skip (some l) :: cs)) (.limit skipped passed :: s) rows
      = (.limit skipped passed :: s, []) := by
  induction rows with
  | nil => rfl
  | cons x rows ih =>
    rw [feedAll_cons]
    simp only [processP, if_neg h1, if_pos h2]
    rw [ih]
    rfl

theorem settled_limit_saturated (skip l : Nat) (cs : List StageCfg) (skipped passed : Nat)
    (s : List StageSt) (h1 : ¬ skipped < skip) (h2 : passed ≥ l) :
    Settled ev (.limit skip (some l) :: cs) (.limit skipped passed :: s) := by
  intro more
  simp [runAll, feedAll_limit_saturated ev skip l cs skipped passed s h1 h2]

variable {ev}

theorem Settled.split (e : Expr) {cs : List StageCfg} (st : StageSt) {s : List StageSt}
    (h : Settled ev cs s) : Settled ev (.split e :: cs) (st :: s) := by
  intro more
  induction more generalizing s with
  | nil => rw [runAll_nil]
  | cons x more ih =>
    rw [runAll_cons]
    simp only [processP]
    split
    · rename_i l _
      have hf := h.feedBrk (l.map x.withInput)
      simp only []
      rw [ih hf.2]
      simpa [completeP] using hf.1
    · simpa using ih h

theorem feedBrk_brk_settled {cs : List StageCfg}
    (IH : ∀ sts ctx, (processP ev cs sts ctx).2.2 = .brk → Settled ev cs (processP ev cs sts ctx).1)
    (rows : List Ctx) (s : List StageSt) (h : (feedBrk (processP ev cs) s rows).2.2 = .brk) :
    Settled ev cs (feedBrk (processP ev cs) s rows).1 := by
  induction rows generalizing s with
  | nil => simp [feedBrk_nil] at h
  | cons x rows ih =>
    rcases hr : processP ev cs s x with ⟨s1, o1, d⟩
    cases d with
    | brk =>
      rw [feedBrk_cons_brk hr]
      have := IH s x
      rw [hr] at this
      exact this rfl
    | cont =>
      rw [feedBrk_cons_cont hr] at h ⊢
      exact ih s1 h

/-- MAIN LEMMA of B1 (projection form, no assumption on the shape of the states) -/
theorem brk_settled_proj (cfgs : List StageCfg) : ∀ (sts : List StageSt) (ctx : Ctx),
    (processP ev cfgs sts ctx).2.2 = .brk → Settled ev cfgs (processP ev cfgs sts ctx).1 := by
  induction cfgs with
  | nil => intro sts ctx h; simp [processP] at h
  | cons c cs ih =>
    intro sts ctx h
    cases sts with
    | nil => simp [processP] at h
    | cons st sts =>
      cases c with
      | preset vars defs =>
        simp only [processP] at h ⊢
        exact Settled.lift (by simp [completeP]) (fun more => ⟨_, runAll_preset ev ..⟩) (ih _ _ h)
      | split e =>
        simp only [processP] at h ⊢
        split at h
        · rename_i l hl
          simp only []
          exact Settled.split e st (feedBrk_brk_settled ih _ _ h)
        · simp at h
      | filter e =>
        simp only [processP] at h ⊢
        split at h
        · rename_i hl
          simp only []
          exact Settled.lift (by simp [completeP]) (fun more => ⟨_, runAll_filter ev ..⟩) (ih _ _ h)
        · simp at h
      | select name e =>
        simp only [processP] at h ⊢
        exact Settled.lift (by simp [completeP]) (fun more => ⟨_, runAll_select ev ..⟩) (ih _ _ h)
      | unique =>
        cases st <;> try (simp [processP] at h; done)
        rename_i seen
        simp only [processP] at h ⊢
        split at h
        · simp at h
        · rename_i hl
          simp only [if_neg hl]
          exact Settled.lift (by simp [completeP]) (fun more => ⟨_, runAll_unique ev ..⟩) (ih _ _ h)
      | sort key desc =>
        cases st <;> try (simp [processP] at h; done)
        simp only [processP] at h
        split at h <;> simp at h
      | limit skip take =>
        cases st <;> try (simp [processP] at h; done)
        rename_i skipped passed
        simp only [processP] at h ⊢
        split at h
        · simp at h
        · rename_i h1
          simp only [if_neg h1]
          cases take with
          | none =>
            simp only [] at h ⊢
            exact Settled.lift (by simp [completeP]) (fun more => ⟨_, runAll_limit_none ev ..⟩)
              (ih _ _ h)
          | some l =>
            simp only [] at h ⊢
            split at h
            · rename_i h2
              simp only [if_pos h2]
              exact settled_limit_saturated ev skip l cs skipped passed sts h1 h2
            · rename_i h2
              simp only [if_neg h2]
              split at h
              · rename_i h3
                exact settled_limit_saturated ev skip l cs skipped (passed + 1) _ h1 h3
              · simp at h
      | group e =>
        cases st <;> try (simp [processP] at h; done)
        simp only [processP] at h
        split at h <;> simp at h
      | merge =>
        cases st <;> simp [processP] at h

/-- MAIN LEMMA `brk_settled` (the `Shape` assumption of the plan is not needed) -/
theorem brk_settled' {cfgs : List StageCfg} {sts s' : List StageSt} {ctx : Ctx} {o : List Ctx}
    (h : processP ev cfgs sts ctx = (s', o, .brk)) : Settled ev cfgs s' := by
  have := brk_settled_proj (ev := ev) cfgs sts ctx
  rw [h] at this
  exact this rfl

theorem brk_settled {cfgs : List StageCfg} {sts s' : List StageSt} {ctx : Ctx} {o : List Ctx}
    (h : processP ev cfgs sts ctx = (s', o, .brk)) (_hs : Shape cfgs sts) : Settled ev cfgs s' :=
  brk_settled' h

variable (ev)

/-- never stopping early delivers the same rows as stopping at the first `Break` -/
theorem runAll_eq_runP' (cfgs : List StageCfg) (sts : List StageSt) (rows : List Ctx) :
    runAll ev cfgs sts rows = runP ev cfgs sts rows := by
  induction rows generalizing sts with
  | nil => rw [runAll_nil, runP_nil]
  | cons x rows ih =>
    rw [runAll_cons]
    rcases hr : processP ev cfgs sts x with ⟨s1, o1, d⟩
    cases d with
    | brk => rw [runP_cons_brk ev hr, brk_settled' hr rows]
    | cont => rw [runP_cons_cont ev hr, ih]

theorem runAll_eq_runP {cfgs : List StageCfg} {sts : List StageSt} (_hs : Shape cfgs sts)
    (rows : List Ctx) : runAll ev cfgs sts rows = runP ev cfgs sts rows :=
  runAll_eq_runP' ev cfgs sts rows

/-! ### B2: the remaining stages as list functions -/

/-- feeding `A ++ B` without ever stopping = feeding `A` until `Break`, then `B` without stopping -/
theorem runAll_append_feedBrk (cs : List StageCfg) (s : List StageSt) (A B : List Ctx) :
    runAll ev cs s (A ++ B)
      = (feedBrk (processP ev cs) s A).2.1 ++ runAll ev cs (feedBrk (processP ev cs) s A).1 B := by
  induction A generalizing s with
  | nil => simp [feedBrk_nil]
  | cons x A ih =>
    rw [List.cons_append, runAll_cons]
    rcases hr : processP ev cs s x with ⟨s1, o1, d⟩
    cases d with
    | brk =>
      rw [feedBrk_cons_brk hr]
      simp only []
      rw [brk_settled' hr (A ++ B), brk_settled' hr B]
    | cont =>
      rw [feedBrk_cons_cont hr]
      simp only [ih, List.append_assoc]

theorem runAll_split (e : Expr) (cs : List StageCfg) (st : StageSt) (s : List StageSt)
    (rows : List Ctx) :
    runAll ev (.split e :: cs) (st :: s) rows
      = runAll ev cs s (rows.flatMap (fun c => match ev e c with
          | some (.arr l) => l.map c.withInput
          | _ => [])) := by
  induction rows generalizing s with
  | nil => simp [runAll_nil, completeP]
  | cons x rows ih =>
    rw [runAll_cons, List.flatMap_cons]
    simp only [processP]
    split
    · rename_i l h
      simp only [h]
      rw [runAll_append_feedBrk, ih]
    · rename_i h
      simp only [List.nil_append, ih]

theorem runAll_limit_some (skip l : Nat) (cs : List StageCfg) (skipped passed : Nat)
    (s : List StageSt) (rows : List Ctx) :
    runAll ev (.limit skip (some l) :: cs) (.limit skipped passed :: s) rows
      = runAll ev cs s ((rows.drop (skip - skipped)).take (l - passed)) := by
  induction rows generalizing s skipped passed with
  | nil => simp [runAll_nil, completeP]
  | cons x rows ih =>
    rw [runAll_cons]
    simp only [processP]
    split
    · rename_i h
      simp only [List.nil_append, ih]
      have : skip - skipped = (skip - (skipped + 1)) + 1 := by omega
      rw [this, List.drop_succ_cons]
    · rename_i h
      have h0 : skip - skipped = 0 := by omega
      simp only [h0, List.drop_zero]
      split
      · rename_i h2
        have : l - passed = 0 := by omega
        simp only [List.nil_append, ih, h0, this, List.take_zero]
      · rename_i h2
        have : l - passed = (l - (passed + 1)) + 1 := by omega
        rw [this, List.take_succ_cons, runAll_cons, ih, h0]
        simp only [List.drop_zero]

/-- the limiter with counters `(skipped, passed)`: drop what is left to skip, keep what is left to take -/
theorem runAll_limit (skip : Nat) (take : Option Nat) (cs : List StageCfg) (skipped passed : Nat)
    (s : List StageSt) (rows : List Ctx) :
    runAll ev (.limit skip take :: cs) (.limit skipped passed :: s) rows
      = runAll ev cs s (takeOpt (take.map (· - passed)) (rows.drop (skip - skipped))) := by
  cases take with
  | none => exact runAll_limit_none ev skip cs skipped passed s rows
  | some l => exact runAll_limit_some ev skip l cs skipped passed s rows

/-- the sorter's buffer after `rows`, starting from `(data, space)` -/
def sortFold (key : Expr) (desc : Bool) (st : Buckets × Option Nat) (rows : List Ctx) :
    Buckets × Option Nat :=
  (keyed ev key rows).foldl (fun s r => sortStep desc r.1 r.2 s) st

theorem feedAll_sort (key : Expr) (desc : Bool) (cs : List StageCfg) (data : Buckets)
    (space : Option Nat) (s : List StageSt) (rows : List Ctx) :
    feedAll (processP ev (.sort key desc :: cs)) (.sort data space :: s) rows
      = (.sort (sortFold ev key desc (data, space) rows).1 (sortFold ev key desc (data, space) rows).2 :: s,
         []) := by
  induction rows generalizing data space with
  | nil => rfl
  | cons x rows ih =>
    rw [feedAll_cons]
    cases h : ev key x with
    | none =>
      have e1 : processP ev (.sort key desc :: cs) (.sort data space :: s) x
          = (.sort data space :: s, [], .cont) := by simp [processP, h]
      have e2 : sortFold ev key desc (data, space) (x :: rows)
          = sortFold ev key desc (data, space) rows := by simp [sortFold, keyed, h]
      rw [e1, e2]
      simp only [ih, List.nil_append]
    | some k =>
      have e1 : processP ev (.sort key desc :: cs) (.sort data space :: s) x
          = (.sort (sortStep desc k x (data, space)).1 (sortStep desc k x (data, space)).2 :: s,
              [], .cont) := by simp [processP, h]
      have e2 : sortFold ev key desc (data, space) (x :: rows)
          = sortFold ev key desc (sortStep desc k x (data, space)) rows := by
        simp [sortFold, keyed, h]
      rw [e1, e2]
      simp only [ih, List.nil_append]

/-- the sorter buffers everything; at the end of input its successor sees the emitted buffer -/
theorem runAll_sort (key : Expr) (desc : Bool) (cs : List StageCfg) (data : Buckets)
    (space : Option Nat) (s : List StageSt) (rows : List Ctx) :
    runAll ev (.sort key desc :: cs) (.sort data space :: s) rows
      = runAll ev cs s (bucketsEmit desc (sortFold ev key desc (data, space) rows).1) := by
  simp only [runAll, feedAll_sort, completeP, List.nil_append]

/-- from the empty buffer: the (bounded) stable sort -/
theorem bucketsEmit_sortFold_init (key : Expr) (desc : Bool) (space : Option Nat) (rows : List Ctx) :
    bucketsEmit desc (sortFold ev key desc ([], space) rows).1
      = stageSpec ev (.sort key desc) space rows := by
  cases space with
  | none =>
    exact BucketSort.bucketsEmit_runUnbounded Order.cmp_total_preorder desc (keyed ev key rows)
  | some cap =>
    exact BucketSort.bucketsEmit_run Order.cmp_total_preorder desc cap (keyed ev key rows)

theorem runAll_sort_init (key : Expr) (desc : Bool) (cs : List StageCfg) (space : Option Nat)
    (s : List StageSt) (rows : List Ctx) :
    runAll ev (.sort key desc :: cs) (.sort [] space :: s) rows
      = runAll ev cs s (stageSpec ev (.sort key desc) space rows) := by
  rw [runAll_sort, bucketsEmit_sortFold_init]

/-- the group object after `rows`, starting from `data` -/
def groupFold (e : Expr) (data : List (Str × List JV)) (rows : List Ctx) : List (Str × List JV) :=
  rows.foldl (fun data c => match ev e c with
    | some (.str k) => groupInsert k c.build data
    | _ => data) data

theorem groupOf_eq_groupFold (e : Expr) (rows : List Ctx) : groupOf ev e rows = groupFold ev e [] rows :=
  rfl

theorem feedAll_group (e : Expr) (cs : List StageCfg) (data : List (Str × List JV))
    (s : List StageSt) (rows : List Ctx) :
    feedAll (processP ev (.group e :: cs)) (.group data :: s) rows
      = (.group (groupFold ev e data rows) :: s, []) := by
  induction rows generalizing data with
  | nil => rfl
  | cons x rows ih =>
    rw [feedAll_cons]
    have e2 : groupFold ev e data (x :: rows)
        = groupFold ev e (match ev e x with
            | some (.str k) => groupInsert k x.build data
            | _ => data) rows := rfl
    have e1 : processP ev (.group e :: cs) (.group data :: s) x
        = (.group (match ev e x with
            | some (.str k) => groupInsert k x.build data
            | _ => data) :: s, [], .cont) := by
      cases h : ev e x with
      | none => simp [processP, h]
      | some v => cases v <;> simp [processP, h]
    rw [e1, e2]
    simp only [ih, List.nil_append]

theorem runAll_group (e : Expr) (cs : List StageCfg) (data : List (Str × List JV))
    (s : List StageSt) (rows : List Ctx) :
    runAll ev (.group e :: cs) (.group data :: s) rows
      = (processP ev cs s { input := groupValue (groupFold ev e data rows) }).2.1 := by
  simp only [runAll, feedAll_group, completeP, List.nil_append]

theorem feedAll_merge (cs : List StageCfg) (data : List JV) (s : List StageSt) (rows : List Ctx) :
    feedAll (processP ev (.merge :: cs)) (.merge data :: s) rows
      = (.merge (data ++ rows.map Ctx.build) :: s, []) := by
  induction rows generalizing data with
  | nil => simp [feedAll_nil]
  | cons x rows ih =>
    rw [feedAll_cons]
    have e1 : processP ev (.merge :: cs) (.merge data :: s) x
        = (.merge (data ++ [x.build]) :: s, [], .cont) := by simp [processP]
    rw [e1]
    simp only [ih, List.nil_append, List.map_cons, List.append_assoc, List.singleton_append]

theorem runAll_merge (cs : List StageCfg) (data : List JV) (s : List StageSt) (rows : List Ctx) :
    runAll ev (.merge :: cs) (.merge data :: s) rows
      = (processP ev cs s { input := .arr (data ++ rows.map Ctx.build) }).2.1 := by
  simp only [runAll, feedAll_merge, completeP, List.nil_append]

/-- the empty chain delivers every row to the sink -/
theorem runAll_nil_chain (s : List StageSt) (rows : List Ctx) : runAll ev [] s rows = rows := by
  induction rows generalizing s with
  | nil => simp [runAll_nil, completeP]
  | cons x rows ih => rw [runAll_cons]; simp [processP, ih]

/-! ### B2, as stated: one lemma per stage for `runP` and a general own state -/

theorem runP_preset (vars : List (Str × JV)) (defs : List (Str × Expr)) (cs : List StageCfg)
    (st : StageSt) (s : List StageSt) (rows : List Ctx) :
    runP ev (.preset vars defs :: cs) (st :: s) rows
      = runP ev cs s (rows.map (fun c => (c.withVariables vars).withDefinitions defs)) := by
  rw [← runAll_eq_runP', ← runAll_eq_runP', runAll_preset]

theorem runP_split (e : Expr) (cs : List StageCfg) (st : StageSt) (s : List StageSt)
    (rows : List Ctx) :
    runP ev (.split e :: cs) (st :: s) rows
      = runP ev cs s (rows.flatMap (fun c => match ev e c with
          | some (.arr l) => l.map c.withInput
          | _ => [])) := by
  rw [← runAll_eq_runP', ← runAll_eq_runP', runAll_split]

theorem runP_filter (e : Expr) (cs : List StageCfg) (st : StageSt) (s : List StageSt)
    (rows : List Ctx) :
    runP ev (.filter e :: cs) (st :: s) rows
      = runP ev cs s (rows.filter (fun c => match ev e c with
          | some (.bool true) => true
          | _ => false)) := by
  rw [← runAll_eq_runP', ← runAll_eq_runP', runAll_filter]

theorem runP_select (name : Str) (e : Expr) (cs : List StageCfg) (st : StageSt)
    (s : List StageSt) (rows : List Ctx) :
    runP ev (.select name e :: cs) (st :: s) rows
      = runP ev cs s (rows.map (fun c => c.withResult name (ev e c))) := by
  rw [← runAll_eq_runP', ← runAll_eq_runP', runAll_select]

theorem runP_unique (cs : List StageCfg) (seen : List CtxKey) (s : List StageSt)
    (rows : List Ctx) :
    runP ev (.unique :: cs) (.unique seen :: s) rows = runP ev cs s (dedupFrom seen rows) := by
  rw [← runAll_eq_runP', ← runAll_eq_runP', runAll_unique]

theorem runP_limit (skip : Nat) (take : Option Nat) (cs : List StageCfg) (skipped passed : Nat)
    (s : List StageSt) (rows : List Ctx) :
    runP ev (.limit skip take :: cs) (.limit skipped passed :: s) rows
      = runP ev cs s (takeOpt (take.map (· - passed)) (rows.drop (skip - skipped))) := by
  rw [← runAll_eq_runP', ← runAll_eq_runP', runAll_limit]

theorem runP_sort (key : Expr) (desc : Bool) (cs : List StageCfg) (data : Buckets)
    (space : Option Nat) (s : List StageSt) (rows : List Ctx) :
    runP ev (.sort key desc :: cs) (.sort data space :: s) rows
      = runP ev cs s (bucketsEmit desc (sortFold ev key desc (data, space) rows).1) := by
  rw [← runAll_eq_runP', ← runAll_eq_runP', runAll_sort]

theorem runP_sort_init (key : Expr) (desc : Bool) (cs : List StageCfg) (space : Option Nat)
    (s : List StageSt) (rows : List Ctx) :
    runP ev (.sort key desc :: cs) (.sort [] space :: s) rows
      = runP ev cs s (takeOpt space
          ((SortSpec.sortDir JV.cmp (·.1) desc (keyed ev key rows)).map (·.2))) := by
  rw [← runAll_eq_runP', ← runAll_eq_runP', runAll_sort_init]
  rfl

theorem runP_group (e : Expr) (cs : List StageCfg) (data : List (Str × List JV))
    (s : List StageSt) (rows : List Ctx) :
    runP ev (.group e :: cs) (.group data :: s) rows
      = (processP ev cs s { input := groupValue (groupFold ev e data rows) }).2.1 := by
  rw [← runAll_eq_runP', runAll_group]

theorem runP_group_last (e : Expr) (data : List (Str × List JV)) (s : List StageSt)
    (rows : List Ctx) :
    runP ev [.group e] (.group data :: s) rows
      = [{ input := groupValue (groupFold ev e data rows) }] := by
  rw [runP_group]; rfl

theorem runP_merge (cs : List StageCfg) (data : List JV) (s : List StageSt) (rows : List Ctx) :
    runP ev (.merge :: cs) (.merge data :: s) rows
      = (processP ev cs s { input := .arr (data ++ rows.map Ctx.build) }).2.1 := by
  rw [← runAll_eq_runP', runAll_merge]

theorem runP_merge_last (data : List JV) (s : List StageSt) (rows : List Ctx) :
    runP ev [.merge] (.merge data :: s) rows = [{ input := .arr (data ++ rows.map Ctx.build) }] := by
  rw [runP_merge]; rfl

theorem runP_nil_chain (s : List StageSt) (rows : List Ctx) : runP ev [] s rows = rows := by
  rw [← runAll_eq_runP', runAll_nil_chain]

/-! ### B3: the main theorem -/

theorem Initial.shape : ∀ {cfgs : List StageCfg} {sts : List StageSt},
    Initial cfgs sts → Shape cfgs sts := by
  intro cfgs
  induction cfgs with
  | nil => intro sts _; trivial
  | cons c cs ih =>
    intro sts h
    cases sts with
    | nil => exact h.elim
    | cons st sts =>
      refine ⟨?_, ih h.2⟩
      have hc := h.1
      cases c <;> cases st <;> first | trivial | exact hc.elim

theorem runAll_eq_spec (cfgs : List StageCfg) (sts : List StageSt) (rows : List Ctx)
    (hi : Initial cfgs sts) (hg : GroupLast cfgs) :
    runAll ev cfgs sts rows = specRows ev cfgs sts rows := by
  induction cfgs generalizing sts rows with
  | nil => simp [runAll_nil_chain, specRows]
  | cons c cs ih =>
    cases sts with
    | nil => exact hi.elim
    | cons st sts =>
      obtain ⟨hc, hi'⟩ := hi
      cases c with
      | preset vars defs => rw [runAll_preset, ih _ _ hi' hg]; rfl
      | split e => rw [runAll_split, ih _ _ hi' hg]; rfl
      | filter e => rw [runAll_filter, ih _ _ hi' hg]; rfl
      | select name e => rw [runAll_select, ih _ _ hi' hg]; rfl
      | unique =>
        cases st <;> try (exact hc.elim)
        rename_i seen
        have : seen = [] := hc
        subst this
        rw [runAll_unique, ih _ _ hi' hg]; rfl
      | sort key desc =>
        cases st <;> try (exact hc.elim)
        rename_i data space
        have : data = [] := hc
        subst this
        rw [runAll_sort_init, ih _ _ hi' hg]; rfl
      | limit skip take =>
        cases st <;> try (exact hc.elim)
        rename_i skipped passed
        have : skipped = 0 ∧ passed = 0 := hc
        obtain ⟨rfl, rfl⟩ := this
        rw [runAll_limit, ih _ _ hi' hg]
        cases take <;> rfl
      | group e =>
        cases st <;> try (exact hc.elim)
        rename_i data
        have : data = [] := hc
        subst this
        have : cs = [] := hg
        subst this
        rw [runAll_group]; rfl
      | merge =>
        cases st <;> try (exact hc.elim)
        rename_i data
        have : data = [] := hc
        subst this
        have : cs = [] := hg
        subst this
        rw [runAll_merge]; rfl

/-- MAIN THEOREM: from its initial states, a chain whose grouper/merger (if any) is last delivers to
the sink exactly the rows of the documented composition -/
theorem runP_eq_spec {cfgs : List StageCfg} {sts : List StageSt} (hi : Initial cfgs sts)
    (hg : GroupLast cfgs) (rows : List Ctx) :
    runP ev cfgs sts rows = specRows ev cfgs sts rows := by
  rw [← runAll_eq_runP', runAll_eq_spec ev cfgs sts rows hi hg]

/-- non-vacuity of `brk_settled`: a limiter with `take = 0` answers `Break` at once -/
example (ctx : Ctx) :
    processP ev [.limit 0 (some 0)] [.limit 0 0] ctx = ([.limit 0 0], [], .brk)
      ∧ Shape [.limit 0 (some 0)] [.limit 0 0] := by
  simp [processP, Shape]

/-- non-vacuity of `runP_eq_spec`: the hypotheses hold for a chain with every kind of stateful stage -/
example : Initial exampleChain exampleStates ∧ GroupLast exampleChain := by
  simp [exampleChain, exampleStates, Initial, GroupLast]

example (rows : List Ctx) :
    runP ev exampleChain exampleStates rows = specRows ev exampleChain exampleStates rows :=
  runP_eq_spec ev (by simp [exampleChain, exampleStates, Initial])
    (by simp [exampleChain, GroupLast]) rows

/-! ### layers 1 → 3 -/

/-- end to end: when no expression aborts and the writer never fails, the model of the `Process`
chain, started from its initial states and driven as `go` drives it, writes exactly the sink's bytes
of the rows of the documented composition -/
theorem total_spec (orc : Oracles) (sink : SinkCfg) (n : Nat) {cfgs : List StageCfg}
    {sts : List StageSt} (w : Writer) (rows : List Ctx)
    (hna : NoAbort orc cfgs) (hw : Unbounded w) (hi : Initial cfgs sts) (hg : GroupLast cfgs) :
    (feedUntilBreak (process orc sink n cfgs) sts w rows >>= fun r =>
        complete orc sink n cfgs r.1.sts r.1.w)
      = .ok (wappend w ((specRows (evalT orc) cfgs sts rows).flatMap (sinkBytes sink n))) := by
  rw [total_pure orc sink n cfgs sts w rows hna hw hi.shape, runP_eq_spec (evalT orc) hi hg]

/-! ### B4: corollaries cited by the properties -/

/-- `--skip 0` without `--take` is the identity -/
theorem limit_zero_none_id (cap : Option Nat) (rows : List Ctx) :
    stageSpec ev (.limit 0 none) cap rows = rows := rfl

/-- the composition splits at any point of the chain (states aligned with stages) -/
theorem specRows_append (pre post : List StageCfg) (spre spost : List StageSt) (rows : List Ctx)
    (hlen : spre.length = pre.length) :
    specRows ev (pre ++ post) (spre ++ spost) rows
      = specRows ev post spost (specRows ev pre spre rows) := by
  induction pre generalizing spre rows with
  | nil =>
    have : spre = [] := List.eq_nil_of_length_eq_zero hlen
    subst this
    simp [specRows]
  | cons c pre ih =>
    cases spre with
    | nil => simp at hlen
    | cons st spre =>
      simp only [List.cons_append, specRows]
      exact ih spre _ (by simpa using hlen)

theorem Initial.append {pre post : List StageCfg} {spre spost : List StageSt}
    (hlen : spre.length = pre.length) (h1 : Initial pre spre) (h2 : Initial post spost) :
    Initial (pre ++ post) (spre ++ spost) := by
  induction pre generalizing spre with
  | nil =>
    have : spre = [] := List.eq_nil_of_length_eq_zero hlen
    subst this
    exact h2
  | cons c pre ih =>
    cases spre with
    | nil => simp at hlen
    | cons st spre => exact ⟨h1.1, ih (by simpa using hlen) h1.2⟩

theorem GroupLast.prefix {pre post : List StageCfg} (h : GroupLast (pre ++ post)) : GroupLast pre := by
  induction pre with
  | nil => trivial
  | cons c pre ih =>
    cases c with
    | group e =>
      have : pre ++ post = [] := h
      exact (List.append_eq_nil_iff.mp this).1
    | merge =>
      have : pre ++ post = [] := h
      exact (List.append_eq_nil_iff.mp this).1
    | preset vars defs => exact ih h
    | split e => exact ih h
    | filter e => exact ih h
    | select name e => exact ih h
    | unique => exact ih h
    | sort key desc => exact ih h
    | limit skip take => exact ih h

/-- C08 `skip_take_window`: a limiter at the end of the chain delivers the window
`[skip, skip + take)` of what the chain before it delivers -/
theorem skip_take_window (pre : List StageCfg) (spre : List StageSt) (skip : Nat) (take : Option Nat)
    (rows : List Ctx) (hlen : spre.length = pre.length) (hi : Initial pre spre)
    (hg : GroupLast (pre ++ [.limit skip take])) :
    runP ev (pre ++ [.limit skip take]) (spre ++ [.limit 0 0]) rows
      = takeOpt take ((runP ev pre spre rows).drop skip) := by
  have hi2 : Initial [StageCfg.limit skip take] [StageSt.limit 0 0] := ⟨⟨rfl, rfl⟩, trivial⟩
  rw [runP_eq_spec ev (hi.append hlen hi2) hg, runP_eq_spec ev hi hg.prefix,
    specRows_append ev _ _ _ _ _ hlen]
  rfl

/-- why `skip_take_window` needs `spre.length = pre.length`: `Initial [] [.none]` holds, but the
extra state misaligns the limiter's own state and nothing is delivered -/
example (c : Ctx) :
    Initial [] [StageSt.none]
      ∧ runP ev ([] ++ [.limit 0 none]) ([.none] ++ [.limit 0 0]) [c] = []
      ∧ takeOpt none ((runP ev [] [.none] [c]).drop 0) = [c] := by
  simp [runP, feedBrk, processP, completeP, takeOpt, Initial]

theorem take_drop_take {α : Type} (L : List α) (skip t c : Nat) (h : skip + t ≤ c) :
    ((L.take c).drop skip).take t = (L.drop skip).take t := by
  rw [List.drop_take, List.take_take]
  congr 1
  omega

/-- the pure list fact behind the top-N shortcut -/
theorem takeOpt_drop_takeOpt {α : Type} (L : List α) (skip t c : Nat) (h : skip + t ≤ c) :
    takeOpt (some t) ((takeOpt (some c) L).drop skip) = takeOpt (some t) (L.drop skip) :=
  take_drop_take L skip t c h

/-- C08, the top-N shortcut: a sorter bounded by `c ≥ skip + t` directly followed by
`--skip skip --take t` yields the same rows as the unbounded sorter -/
theorem topN_shortcut (key : Expr) (desc : Bool) (skip t c : Nat) (h : skip + t ≤ c)
    (post : List StageCfg) (d1 d2 : Buckets) (l1 l2 : StageSt) (spost : List StageSt)
    (rows : List Ctx) :
    specRows ev (.sort key desc :: .limit skip (some t) :: post)
        (.sort d1 (some c) :: l1 :: spost) rows
      = specRows ev (.sort key desc :: .limit skip (some t) :: post)
        (.sort d2 none :: l2 :: spost) rows := by
  simp only [specRows, stageSpec, capOf]
  rw [takeOpt_drop_takeOpt _ skip t c h]
  rfl

theorem topN_shortcut_runP (key : Expr) (desc : Bool) (skip t c : Nat) (h : skip + t ≤ c)
    {post : List StageCfg} {spost : List StageSt} (hi : Initial post spost) (hg : GroupLast post)
    (rows : List Ctx) :
    runP ev (.sort key desc :: .limit skip (some t) :: post)
        (.sort [] (some c) :: .limit 0 0 :: spost) rows
      = runP ev (.sort key desc :: .limit skip (some t) :: post)
        (.sort [] none :: .limit 0 0 :: spost) rows := by
  have hi1 : Initial (.sort key desc :: .limit skip (some t) :: post)
      (.sort [] (some c) :: .limit 0 0 :: spost) := ⟨rfl, ⟨rfl, rfl⟩, hi⟩
  have hi2 : Initial (.sort key desc :: .limit skip (some t) :: post)
      (.sort [] none :: .limit 0 0 :: spost) := ⟨rfl, ⟨rfl, rfl⟩, hi⟩
  have hg' : GroupLast (.sort key desc :: .limit skip (some t) :: post) := hg
  rw [runP_eq_spec ev hi1 hg', runP_eq_spec ev hi2 hg']
  exact topN_shortcut ev key desc skip t c h post _ _ _ _ spost rows

/-- the stages that look at one row at a time -/
def StageCfg.stateless : StageCfg → Bool
  | .preset _ _ => true
  | .split _ => true
  | .filter _ => true
  | .select _ _ => true
  | _ => false

theorem specRows_stateless_nil (cfgs : List StageCfg) (sts : List StageSt)
    (h : ∀ c ∈ cfgs, StageCfg.stateless c = true) : specRows ev cfgs sts [] = [] := by
  induction cfgs generalizing sts with
  | nil => rfl
  | cons c cs ih =>
    cases sts with
    | nil => rfl
    | cons st sts =>
      have hc := h c List.mem_cons_self
      have ih' := ih sts (fun c hc => h c (List.mem_cons_of_mem _ hc))
      cases c <;> first | exact ih' | exact absurd hc (by simp [StageCfg.stateless])

/-- C11 `stateless_hom`: a chain of per-row stages distributes over concatenation of the input -/
theorem stateless_hom (cfgs : List StageCfg) (sts : List StageSt)
    (h : ∀ c ∈ cfgs, StageCfg.stateless c = true) (A B : List Ctx) :
    specRows ev cfgs sts (A ++ B) = specRows ev cfgs sts A ++ specRows ev cfgs sts B := by
  induction cfgs generalizing sts A B with
  | nil => rfl
  | cons c cs ih =>
    cases sts with
    | nil => rfl
    | cons st sts =>
      have hc := h c List.mem_cons_self
      have ih' := ih sts (fun c hc => h c (List.mem_cons_of_mem _ hc))
      cases c with
      | preset vars defs => simp only [specRows, stageSpec, List.map_append, ih']
      | split e => simp only [specRows, stageSpec, List.flatMap_append, ih']
      | filter e => simp only [specRows, stageSpec, List.filter_append, ih']
      | select name e => simp only [specRows, stageSpec, List.map_append, ih']
      | unique => exact absurd hc (by simp [StageCfg.stateless])
      | sort key desc => exact absurd hc (by simp [StageCfg.stateless])
      | limit skip take => exact absurd hc (by simp [StageCfg.stateless])
      | group e => exact absurd hc (by simp [StageCfg.stateless])
      | merge => exact absurd hc (by simp [StageCfg.stateless])

/-- C11: the output is the concatenation of the outputs for the rows taken one at a time -/
theorem stateless_flatMap (cfgs : List StageCfg) (sts : List StageSt)
    (h : ∀ c ∈ cfgs, StageCfg.stateless c = true) (rows : List Ctx) :
    specRows ev cfgs sts rows = rows.flatMap (fun r => specRows ev cfgs sts [r]) := by
  induction rows with
  | nil => simp [specRows_stateless_nil ev cfgs sts h]
  | cons r rows ih =>
    rw [List.flatMap_cons, ← ih, ← stateless_hom ev cfgs sts h]
    rfl

/-- every state is initial for a stateless stage -/
theorem initial_of_stateless : ∀ (cfgs : List StageCfg) (sts : List StageSt),
    (∀ c ∈ cfgs, StageCfg.stateless c = true) → sts.length = cfgs.length →
    Initial cfgs sts ∧ GroupLast cfgs := by
  intro cfgs
  induction cfgs with
  | nil => intro sts _ _; exact ⟨trivial, trivial⟩
  | cons c cs ih =>
    intro sts h hlen
    cases sts with
    | nil => simp at hlen
    | cons st sts =>
      have hc := h c List.mem_cons_self
      obtain ⟨i1, i2⟩ := ih sts (fun c hc => h c (List.mem_cons_of_mem _ hc)) (by simpa using hlen)
      cases c <;> first
        | exact ⟨⟨trivial, i1⟩, i2⟩
        | exact absurd hc (by simp [StageCfg.stateless])

/-- C11 for the machine itself -/
theorem stateless_hom_runP (cfgs : List StageCfg) (sts : List StageSt)
    (h : ∀ c ∈ cfgs, StageCfg.stateless c = true) (hlen : sts.length = cfgs.length)
    (A B : List Ctx) :
    runP ev cfgs sts (A ++ B) = runP ev cfgs sts A ++ runP ev cfgs sts B := by
  obtain ⟨hi, hg⟩ := initial_of_stateless cfgs sts h hlen
  simp only [runP_eq_spec ev hi hg, stateless_hom ev cfgs sts h]

example : ∀ c ∈ [StageCfg.split (.extract 0 []), .filter (.extract 0 [Jawk.Step.key "k".toList]),
    .select "x".toList (.extract 0 [])], StageCfg.stateless c = true := by
  simp [StageCfg.stateless]

/-! #### C10: `--unique` -/

theorem dedupFrom_sublist (seen : List CtxKey) (rows : List Ctx) :
    (dedupFrom seen rows).Sublist rows := by
  induction rows generalizing seen with
  | nil => exact List.Sublist.slnil
  | cons c cs ih =>
    simp only [dedupFrom]
    split
    · exact (ih seen).cons c
    · exact (ih _).cons_cons c

/-- the first row is always kept -/
theorem dedupFrom_first (c : Ctx) (rows : List Ctx) :
    dedupFrom [] (c :: rows) = c :: dedupFrom [c.key] rows := by
  simp [dedupFrom]

theorem dedupFrom_append (seen : List CtxKey) (A B : List Ctx) :
    dedupFrom seen (A ++ B)
      = dedupFrom seen A ++ dedupFrom (seen ++ (dedupFrom seen A).map Ctx.key) B := by
  induction A generalizing seen with
  | nil => simp [dedupFrom]
  | cons x A ih =>
    simp only [List.cons_append, dedupFrom]
    split
    · exact ih seen
    · simp only [ih, List.cons_append, List.map_cons, List.append_assoc, List.nil_append]

/-- a row is dropped iff an earlier KEPT row has the same key; what follows only depends on the keys kept -/
theorem dedup_drop_iff (pre : List Ctx) (c : Ctx) (post : List Ctx) :
    dedupFrom [] (pre ++ c :: post)
      = if (dedupFrom [] pre).any (fun r => CtxKey.same r.key c.key) then
          dedupFrom [] pre ++ dedupFrom ((dedupFrom [] pre).map Ctx.key) post
        else
          dedupFrom [] pre ++ c :: dedupFrom ((dedupFrom [] pre).map Ctx.key ++ [c.key]) post := by
  rw [dedupFrom_append]
  simp only [List.nil_append, dedupFrom, List.any_map]
  have : ((fun s => CtxKey.same s c.key) ∘ Ctx.key) = fun r => CtxKey.same r.key c.key := rfl
  rw [this]
  split <;> rfl

/-- no kept row has the key of an earlier kept row, nor a key already seen -/
theorem dedupFrom_distinct (seen : List CtxKey) (rows : List Ctx) :
    (dedupFrom seen rows).Pairwise (fun a b => CtxKey.same a.key b.key = false)
      ∧ ∀ s ∈ seen, ∀ r ∈ dedupFrom seen rows, CtxKey.same s r.key = false := by
  induction rows generalizing seen with
  | nil => simp [dedupFrom]
  | cons c cs ih =>
    simp only [dedupFrom]
    split
    · exact ih seen
    · rename_i h
      obtain ⟨i1, i2⟩ := ih (seen ++ [c.key])
      refine ⟨List.pairwise_cons.mpr ⟨fun r hr => i2 c.key (by simp) r hr, i1⟩, ?_⟩
      intro s hs r hr
      rcases List.mem_cons.mp hr with rfl | hr
      · cases hsame : CtxKey.same s r.key with
        | false => rfl
        | true => exact absurd (List.any_eq_true.mpr ⟨s, hs, hsame⟩) h
      · exact i2 s (List.mem_append_left _ hs) r hr

/-! #### C09: `--group-by` / `--merge` -/

/-- C09 `group_emits_once`: the grouper emits exactly one row at the end of input, the object of
the groups of what the chain before it delivers -/
theorem group_emits_once (pre : List StageCfg) (spre : List StageSt) (e : Expr) (rows : List Ctx)
    (hlen : spre.length = pre.length) (hi : Initial pre spre) (hg : GroupLast (pre ++ [.group e])) :
    runP ev (pre ++ [.group e]) (spre ++ [.group []]) rows
      = [{ input := groupValue (groupOf ev e (runP ev pre spre rows)) }] := by
  have hi2 : Initial [StageCfg.group e] [StageSt.group []] := ⟨rfl, trivial⟩
  rw [runP_eq_spec ev (hi.append hlen hi2) hg, runP_eq_spec ev hi hg.prefix,
    specRows_append ev _ _ _ _ _ hlen]
  rfl

theorem merge_emits_once (pre : List StageCfg) (spre : List StageSt) (rows : List Ctx)
    (hlen : spre.length = pre.length) (hi : Initial pre spre) (hg : GroupLast (pre ++ [.merge])) :
    runP ev (pre ++ [.merge]) (spre ++ [.merge []]) rows
      = [{ input := .arr ((runP ev pre spre rows).map Ctx.build) }] := by
  have hi2 : Initial [StageCfg.merge] [StageSt.merge []] := ⟨rfl, trivial⟩
  rw [runP_eq_spec ev (hi.append hlen hi2) hg, runP_eq_spec ev hi hg.prefix,
    specRows_append ev _ _ _ _ _ hlen]
  rfl

/-- even with no input at all -/
theorem group_emits_once_empty (e : Expr) :
    runP ev [.group e] [.group []] [] = [{ input := .obj [] }] := rfl

theorem merge_emits_once_empty : runP ev [.merge] [.merge []] [] = [{ input := .arr [] }] := rfl

/-- the (decidable) test "the group key of `c` is the string `k`" -/
def hasKey (e : Expr) (k : Str) (c : Ctx) : Bool :=
  match ev e c with
  | some (.str k') => k' == k
  | _ => false

theorem groupInsert_keys (k : Str) (v : JV) (data : List (Str × List JV)) :
    (groupInsert k v data).map (·.1)
      = if k ∈ data.map (·.1) then data.map (·.1) else data.map (·.1) ++ [k] := by
  induction data with
  | nil => simp [groupInsert]
  | cons b rest ih =>
    obtain ⟨k0, vs⟩ := b
    simp only [groupInsert]
    split
    · rename_i h
      simp [h]
    · rename_i h
      have : ¬ k = k0 := fun h' => h h'.symm
      simp only [List.map_cons, ih, List.mem_cons, this, false_or]
      split <;> simp

theorem lookup_groupInsert (k k' : Str) (v : JV) (data : List (Str × List JV)) :
    (groupInsert k' v data).lookup k
      = if k' = k then some ((data.lookup k).getD [] ++ [v]) else data.lookup k := by
  induction data with
  | nil =>
    simp only [groupInsert, List.lookup_cons, List.lookup_nil]
    by_cases h : k' = k
    · subst h; simp
    · have : (k == k') = false := by simpa using fun h' => h h'.symm
      simp [this, h]
  | cons b rest ih =>
    obtain ⟨k0, vs⟩ := b
    simp only [groupInsert]
    by_cases h0 : k0 = k'
    · subst h0
      simp only [↓reduceIte, List.lookup_cons]
      by_cases h : k0 = k
      · subst h; simp
      · have : (k == k0) = false := by simpa using fun h' => h h'.symm
        simp [this, h]
    · simp only [h0, ↓reduceIte, List.lookup_cons, ih]
      by_cases h : k' = k
      · subst h
        have : (k' == k0) = false := by simpa using fun h' => h0 h'.symm
        simp [this]
      · simp [h]

/-- one step of the grouper on its object -/
def groupStep (e : Expr) (data : List (Str × List JV)) (c : Ctx) : List (Str × List JV) :=
  match ev e c with
  | some (.str k) => groupInsert k c.build data
  | _ => data

theorem groupFold_cons (e : Expr) (data : List (Str × List JV)) (c : Ctx) (rows : List Ctx) :
    groupFold ev e data (c :: rows) = groupFold ev e (groupStep ev e data c) rows := rfl

theorem groupFold_snoc (e : Expr) (data : List (Str × List JV)) (rows : List Ctx) (c : Ctx) :
    groupFold ev e data (rows ++ [c]) = groupStep ev e (groupFold ev e data rows) c := by
  simp [groupFold, groupStep, List.foldl_append]

theorem groupStep_keys (e : Expr) (data : List (Str × List JV)) (c : Ctx) :
    (groupStep ev e data c).map (·.1)
      = match ev e c with
        | some (.str k) => if k ∈ data.map (·.1) then data.map (·.1) else data.map (·.1) ++ [k]
        | _ => data.map (·.1) := by
  unfold groupStep
  split
  · rename_i k h; simp only [groupInsert_keys]
  · rfl

theorem groupStep_lookup (e : Expr) (k : Str) (data : List (Str × List JV)) (c : Ctx) :
    (groupStep ev e data c).lookup k
      = if hasKey ev e k c then some ((data.lookup k).getD [] ++ [c.build]) else data.lookup k := by
  unfold groupStep hasKey
  cases h : ev e c with
  | none => simp
  | some v =>
    cases v <;> try (simp; done)
    rename_i k'
    simp only [lookup_groupInsert, beq_iff_eq]

/-- the keys of the group object are distinct -/
theorem groupFold_keys_nodup (e : Expr) (data : List (Str × List JV)) (rows : List Ctx)
    (h : (data.map (·.1)).Nodup) : ((groupFold ev e data rows).map (·.1)).Nodup := by
  induction rows generalizing data with
  | nil => exact h
  | cons c rows ih =>
    rw [groupFold_cons]
    apply ih
    rw [groupStep_keys]
    split
    · split
      · exact h
      · rename_i hk
        exact List.nodup_append.mpr ⟨h, by simp, fun a ha b hb => by
          rw [List.mem_singleton.mp hb]; exact fun h' => hk (h' ▸ ha)⟩
    · exact h

theorem groupOf_keys_nodup (e : Expr) (rows : List Ctx) : ((groupOf ev e rows).map (·.1)).Nodup :=
  groupFold_keys_nodup ev e [] rows List.nodup_nil

/-- first-seen order: a key is appended at the end the first time it is seen, and never moves -/
theorem groupOf_keys_snoc (e : Expr) (rows : List Ctx) (c : Ctx) :
    (groupOf ev e (rows ++ [c])).map (·.1)
      = match ev e c with
        | some (.str k) =>
          if k ∈ (groupOf ev e rows).map (·.1) then (groupOf ev e rows).map (·.1)
          else (groupOf ev e rows).map (·.1) ++ [k]
        | _ => (groupOf ev e rows).map (·.1) := by
  rw [groupOf_eq_groupFold, groupFold_snoc, groupStep_keys]
  rfl

/-- the member list of key `k`: the rows with that key, in arrival order -/
theorem groupFold_lookup (e : Expr) (k : Str) (data : List (Str × List JV)) (rows : List Ctx) :
    (groupFold ev e data rows).lookup k
      = if (data.lookup k).isSome || rows.any (hasKey ev e k) then
          some ((data.lookup k).getD [] ++ (rows.filter (hasKey ev e k)).map Ctx.build)
        else none := by
  induction rows generalizing data with
  | nil =>
    show data.lookup k = _
    generalize data.lookup k = o
    cases o <;> simp
  | cons c rows ih =>
    rw [groupFold_cons, ih, groupStep_lookup, List.any_cons, List.filter_cons]
    cases hasKey ev e k c with
    | true => simp
    | false =>
      simp only [Bool.false_or, Bool.false_eq_true, ↓reduceIte]

theorem groupOf_lookup (e : Expr) (k : Str) (rows : List Ctx)
    (h : rows.any (hasKey ev e k) = true) :
    (groupOf ev e rows).lookup k = some ((rows.filter (hasKey ev e k)).map Ctx.build) := by
  rw [groupOf_eq_groupFold, groupFold_lookup]
  simp [h]

theorem groupOf_lookup_none (e : Expr) (k : Str) (rows : List Ctx)
    (h : rows.any (hasKey ev e k) = false) : (groupOf ev e rows).lookup k = none := by
  rw [groupOf_eq_groupFold, groupFold_lookup]
  simp [h]

/-- a key is present iff some row has it -/
theorem groupOf_mem_keys (e : Expr) (k : Str) (rows : List Ctx) :
    k ∈ (groupOf ev e rows).map (·.1) ↔ rows.any (hasKey ev e k) = true := by
  suffices H : ∀ data : List (Str × List JV),
      k ∈ (groupFold ev e data rows).map (·.1) ↔ k ∈ data.map (·.1) ∨ rows.any (hasKey ev e k) = true by
    simpa [groupOf_eq_groupFold] using H []
  induction rows with
  | nil => intro data; simp [groupFold]
  | cons c rows ih =>
    intro data
    rw [groupFold_cons, ih, groupStep_keys, List.any_cons, Bool.or_eq_true]
    unfold hasKey
    cases h : ev e c with
    | none => simp
    | some v =>
      cases v <;> try (simp; done)
      rename_i k'
      simp only [beq_iff_eq]
      by_cases hk : k' ∈ data.map (·.1)
      · simp only [hk, ↓reduceIte]
        constructor
        · rintro (h1 | h2)
          · exact Or.inl h1
          · exact Or.inr (Or.inr h2)
        · rintro (h1 | h2 | h3)
          · exact Or.inl h1
          · exact Or.inl (h2 ▸ hk)
          · exact Or.inr h3
      · simp only [hk, ↓reduceIte, List.mem_append, List.mem_singleton]
        constructor
        · rintro ((h1 | h2) | h3)
          · exact Or.inl h1
          · exact Or.inr (Or.inl h2.symm)
          · exact Or.inr (Or.inr h3)
        · rintro (h1 | h2 | h3)
          · exact Or.inl (Or.inl h1)
          · exact Or.inl (Or.inr h2.symm)
          · exact Or.inr h3

/-! #### appending one stage to a chain; windows in the middle of a chain -/

/-- a chain followed by one more stage delivers that stage's list function applied to what the
chain delivers (this subsumes `skip_take_window`, `group_emits_once`, `merge_emits_once`) -/
theorem runP_snoc (pre : List StageCfg) (spre : List StageSt) (c : StageCfg) (st : StageSt)
    (rows : List Ctx) (hlen : spre.length = pre.length) (hi : Initial pre spre)
    (hc : Initial [c] [st]) (hg : GroupLast (pre ++ [c])) :
    runP ev (pre ++ [c]) (spre ++ [st]) rows = stageSpec ev c (capOf st) (runP ev pre spre rows) := by
  rw [runP_eq_spec ev (hi.append hlen hc) hg, runP_eq_spec ev hi hg.prefix,
    specRows_append ev _ _ _ _ _ hlen]
  rfl

/-- C10 at the end of a chain -/
theorem unique_last (pre : List StageCfg) (spre : List StageSt) (rows : List Ctx)
    (hlen : spre.length = pre.length) (hi : Initial pre spre) (hg : GroupLast (pre ++ [.unique])) :
    runP ev (pre ++ [.unique]) (spre ++ [.unique []]) rows = dedupFrom [] (runP ev pre spre rows) :=
  runP_snoc ev pre spre .unique (.unique []) rows hlen hi ⟨rfl, trivial⟩ hg

/-- C08 in the middle of a chain: the limiter hands the window to the stages after it -/
theorem specRows_limit_window (pre post : List StageCfg) (spre spost : List StageSt) (skip : Nat)
    (take : Option Nat) (st : StageSt) (rows : List Ctx) (hlen : spre.length = pre.length) :
    specRows ev (pre ++ .limit skip take :: post) (spre ++ st :: spost) rows
      = specRows ev post spost (takeOpt take ((specRows ev pre spre rows).drop skip)) := by
  rw [specRows_append ev _ _ _ _ _ hlen]
  rfl

/-! #### non-vacuity of the corollaries -/

example : ([StageSt.none, .unique [], .sort [] (some 5)] : List StageSt).length
      = ([StageCfg.filter (.extract 0 []), .unique, .sort (.extract 0 []) true] : List StageCfg).length
    ∧ Initial [StageCfg.filter (.extract 0 []), .unique, .sort (.extract 0 []) true]
        [StageSt.none, .unique [], .sort [] (some 5)]
    ∧ GroupLast ([StageCfg.filter (.extract 0 []), .unique, .sort (.extract 0 []) true]
        ++ [.limit 1 (some 2)])
    ∧ GroupLast ([StageCfg.filter (.extract 0 []), .unique, .sort (.extract 0 []) true]
        ++ [.group (.extract 0 [])])
    ∧ GroupLast ([StageCfg.filter (.extract 0 []), .unique, .sort (.extract 0 []) true]
        ++ [.merge]) := by
  simp [Initial, GroupLast]

/-- `groupOf` on a concrete input: keys in first-seen order, members in arrival order -/
example :
    groupOf (fun _ c => some c.input) (.extract 0 [])
        [{ input := .str ['a'] }, { input := .str ['b'] }, { input := .null }, { input := .str ['a'] }]
      = [(['a'], [JV.str ['a'], JV.str ['a']]), (['b'], [JV.str ['b']])] := by
  simp [groupOf, groupInsert, Ctx.build]

example :
    ([{ input := .str ['a'] }, { input := .null }] : List Ctx).any
      (hasKey (fun _ c => some c.input) (.extract 0 []) ['a']) = true := by
  simp [hasKey]

end Jawk.Pipe

/- axiom audit (all ⊆ {propext, Classical.choice, Quot.sound}):
#print axioms Jawk.Pipe.brk_settled
#print axioms Jawk.Pipe.runAll_eq_runP
#print axioms Jawk.Pipe.runP_eq_spec
#print axioms Jawk.Pipe.total_spec
#print axioms Jawk.Pipe.skip_take_window
#print axioms Jawk.Pipe.topN_shortcut
#print axioms Jawk.Pipe.topN_shortcut_runP
#print axioms Jawk.Pipe.stateless_hom
#print axioms Jawk.Pipe.stateless_flatMap
#print axioms Jawk.Pipe.stateless_hom_runP
#print axioms Jawk.Pipe.dedupFrom_sublist
#print axioms Jawk.Pipe.dedup_drop_iff
#print axioms Jawk.Pipe.dedupFrom_distinct
#print axioms Jawk.Pipe.group_emits_once
#print axioms Jawk.Pipe.merge_emits_once
#print axioms Jawk.Pipe.groupOf_keys_nodup
#print axioms Jawk.Pipe.groupOf_keys_snoc
#print axioms Jawk.Pipe.groupOf_lookup
#print axioms Jawk.Pipe.groupOf_mem_keys
#print axioms Jawk.Pipe.runP_snoc
-/
