/-
  Property C02, printer side: what jawk prints is a conforming RFC 8259 text (in the sense of the
  independent grammar `Jawk.Ser.Ser` of `Jawk/Spec/Json.lean`) whose value is the printed value.

  Main theorems: `printJson_ser_printable` (for `RT.Printable`), `printJson_ser` (for `Ser.Parsed`),
  `printJson_ser_styles`, `row_is_ser`.
-/
import Jawk.Lemmas.ParseSer
namespace Jawk.PrintSer
open Jawk Reader Jawk.RT Jawk.Ser Jawk.F64 Jawk.F64RT

/-! ### 1. White space -/

theorem ws_of_isWs {w : List Byte} (h : ∀ b ∈ w, isWs b = true) : Ws w :=
  fun b hb => IsWs_of_isWs (h b hb)

theorem ws_nil : Ws [] := by intro b hb; cases hb

theorem ws_append' {a b : List Byte} (ha : Ws a) (hb : Ws b) : Ws (a ++ b) := by
  intro x hx
  rcases List.mem_append.1 hx with h | h
  · exact ha x h
  · exact hb x h

/-- the indentation of the pretty style (nothing in the other styles) is white space -/
theorem indent_Ws (o : JsonOpts) (ind : Nat) : Ws (utf8 (indentText o ind)) :=
  ws_of_isWs (indent_ws o ind)

/-- what follows the comma (a blank in the one-line style) is white space -/
theorem commaWs_Ws (o : JsonOpts) : Ws (commaWs o) := ws_of_isWs (commaWs_ws o)

/-- what follows the colon (a blank except in the `consise` style) is white space -/
theorem colonWs_Ws (o : JsonOpts) : Ws (colonWs o) := ws_of_isWs (colonWs_ws o)

/-! ### 2. Strings -/

/-- the two-character escapes the printer writes are escapes of the grammar, denoting the character -/
theorem printEscape_esc (c e : Char) (h : printEscape c = some e) :
    utf8 ['\\', e] = [92, byteOf e] ∧ escapeChar? (byteOf e) = some c := by
  unfold printEscape at h
  repeat' split at h
  all_goals first
    | (cases h; subst_vars; exact ⟨rfl, rfl⟩)
    | cases h

theorem utf8_single (c : Char) : utf8 [c] = String.utf8EncodeChar c := by
  rw [utf8_cons, utf8_nil, List.append_nil]

/-- `\u` + `{:04x}` as bytes -/
theorem utf8_uni (n : Nat) (h : n < 65536) :
    utf8 ('\\' :: 'u' :: hex4 n) =
      [92, 117, byteOf (Nat.digitChar (n / 4096)), byteOf (Nat.digitChar (n / 256 % 16)),
        byteOf (Nat.digitChar (n / 16 % 16)), byteOf (Nat.digitChar (n % 16))] := by
  have e1 := (hexVal_digitChar (n / 4096) (by omega)).1
  have e2 := (hexVal_digitChar (n / 256 % 16) (by omega)).1
  have e3 := (hexVal_digitChar (n / 16 % 16) (by omega)).1
  have e4 := (hexVal_digitChar (n % 16) (by omega)).1
  have hb : String.utf8EncodeChar '\\' = [92] := rfl
  have hu : String.utf8EncodeChar 'u' = [117] := rfl
  rw [hex4_eq n h]
  simp only [utf8_cons, utf8_nil, e1, e2, e3, e4, hb, hu, List.cons_append, List.nil_append]

/-- every character is printed as one item of the string grammar denoting it -/
theorem printChar_item (o : JsonOpts) (c : Char) (hc : CharOK o c) :
    StrItem c (utf8 (printChar o c)) := by
  unfold printChar
  split
  · rename_i e he
    obtain ⟨h1, h2⟩ := printEscape_esc c e he
    rw [h1]
    exact StrItem.esc _ _ h2
  · rename_i he
    obtain ⟨hq, hb⟩ := printEscape_none c he
    split
    · rename_i hraw
      rw [utf8_single]
      refine StrItem.raw c hq hb ?_
      rcases hraw with ⟨h1, _⟩ | ⟨_, h2⟩
      · have := (char_le_iff _ _).1 h1
        have e : (' ' : Char).toNat = 32 := rfl
        omega
      · have := (char_lt_iff _ _).1 h2
        have e : ('~' : Char).toNat = 126 := rfl
        omega
    · rename_i hraw
      have hlt : c.toNat < 65536 := by
        rcases hc with h | h
        · omega
        · have hnot : ¬ ' ' ≤ c := by
            intro h1
            by_cases h2 : c ≤ '~'
            · exact hraw (Or.inl ⟨h1, h2⟩)
            · apply hraw
              refine Or.inr ⟨h, ?_⟩
              rw [char_lt_iff]
              rw [char_le_iff] at h2
              omega
          rw [char_le_iff] at hnot
          have e : (' ' : Char).toNat = 32 := rfl
          omega
      rw [utf8_uni c.toNat hlt]
      have d1 := (hexVal_digitChar (c.toNat / 4096) (by omega)).2
      have d2 := (hexVal_digitChar (c.toNat / 256 % 16) (by omega)).2
      have d3 := (hexVal_digitChar (c.toNat / 16 % 16) (by omega)).2
      have d4 := (hexVal_digitChar (c.toNat % 16) (by omega)).2
      rw [← hexDigit_eq_hexVal] at d1 d2 d3 d4
      have hsum : ((c.toNat / 4096 * 16 + c.toNat / 256 % 16) * 16 + c.toNat / 16 % 16) * 16 + c.toNat % 16
          = c.toNat := by omega
      have hv : c.toNat.isValidChar := c.valid
      have := StrItem.uni _ _ _ _ _ _ _ _ d1 d2 d3 d4 (by
        rw [hsum]
        rcases hv with h | h
        · exact Or.inl (by omega)
        · exact Or.inr (by omega))
      rw [hsum, Char.ofNat_toNat] at this
      exact this

/-- the printed characters of a string form a string body denoting the string -/
theorem strBody_ser (o : JsonOpts) (s : Str) (hs : StrOK o s) : StrBody s (strBody o s) := by
  induction s with
  | nil => exact StrBody.nil
  | cons c s ih =>
    rw [strBody_cons]
    exact StrBody.cons (printChar_item o c (hs c (by simp))) (ih (fun d hd => hs d (by simp [hd])))

/-- **strings**: the printed string is a conforming string text denoting the string -/
theorem printString_ser (o : JsonOpts) (s : Str) (hs : StrOK o s) :
    Ser.Ser (.str s) (utf8 (printString o s)) := by
  rw [utf8_printString]
  exact Ser.str (strBody_ser o s hs)

/-! ### 3. Numbers -/

/-- the number text `[-]ip[.fp]` (no exponent) given by its characters -/
def numTextOf (neg : Bool) (ip : Str) (fp : Option Str) : NumText :=
  ⟨neg, utf8 ip, fp.map utf8, none⟩

/-- the characters of `[-]ip[.fp]` -/
def numStr (neg : Bool) (ip : Str) (fp : Option Str) : Str := signChars neg ++ ip ++ fracChars fp

theorem numTextOf_bytes (neg : Bool) (ip : Str) (fp : Option Str) :
    (numTextOf neg ip fp).bytes = utf8 (numStr neg ip fp) := by
  have hm : String.utf8EncodeChar '-' = [45] := rfl
  have hd : String.utf8EncodeChar '.' = [46] := rfl
  cases neg <;> cases fp <;>
    simp [NumText.bytes, numTextOf, numStr, signChars, fracChars, fracBytes, utf8_append, utf8_cons,
      hm, hd]

theorem numTextOf_norm (neg : Bool) (ip : Str) (fp : Option Str) :
    (numTextOf neg ip fp).norm = (numTextOf neg ip fp).bytes := rfl

theorem asciiStr_utf8 (s : Str) (h : ∀ c ∈ s, c.toNat < 128) : asciiStr (utf8 s) = s := by
  rw [utf8_ascii s h, asciiStr_eq, bytesToStr_map_byteOf s h]

theorem allDigits_ascii {ds : Str} (h : AllDigits ds) : ∀ c ∈ ds, c.toNat < 128 :=
  fun c hc => isDigit_ascii c (h c hc)

theorem numStr_ascii (neg : Bool) (ip : Str) (fp : Option Str) (hip : AllDigits ip)
    (hfp : ∀ d, fp = some d → AllDigits d) : ∀ c ∈ numStr neg ip fp, c.toNat < 128 := by
  intro c hc
  simp only [numStr, List.mem_append] at hc
  rcases hc with (hc | hc) | hc
  · cases neg
    · simp [signChars] at hc
    · simp only [signChars, if_true, List.mem_cons, List.not_mem_nil, or_false] at hc
      subst hc; decide
  · exact allDigits_ascii hip c hc
  · cases fp with
    | none => simp [fracChars] at hc
    | some d =>
      simp only [fracChars, List.mem_cons] at hc
      rcases hc with rfl | hc
      · decide
      · exact allDigits_ascii (hfp d rfl) c hc

/-- the grammar side conditions, from the character-level shape -/
theorem numTextOf_wf (neg : Bool) (ip : Str) (fp : Option Str) (hip : AllDigits ip) (hne : ip ≠ [])
    (hz : NoLeadingZero ip) (hfp : ∀ d, fp = some d → AllDigits d ∧ d ≠ []) :
    (numTextOf neg ip fp).WF := by
  have run : ∀ ds : Str, AllDigits ds → ds ≠ [] → DigitRun (utf8 ds) := by
    intro ds h1 h2
    obtain ⟨e1, e2, _⟩ := digits_bytes ds h1
    rw [e1]
    exact ⟨by simpa using h2, fun b hb => (isDigit_iff b).1 (e2 b hb)⟩
  refine ⟨⟨run ip hip hne, ?_⟩, ?_, True.intro⟩
  · show (utf8 ip).head? = some 48 → utf8 ip = [48]
    rw [(digits_bytes ip hip).1]
    rcases hz with rfl | hz
    · intro _; rfl
    · intro h
      exfalso
      cases ip with
      | nil => exact hne rfl
      | cons c r =>
        simp only [List.map_cons, List.head?_cons, Option.some.injEq] at h
        apply hz
        have hc := isDigit_ascii c (hip c (by simp))
        have := byteOf_eq_iff c hc 48 (by decide) h
        rw [List.head?_cons, char_eq_of_toNat c 48 this]
  · show OptAll DigitRun (fp.map utf8)
    cases fp with
    | none => exact True.intro
    | some d => exact run d (hfp d rfl).1 (hfp d rfl).2

/-- the value of an integer text in range -/
theorem numTextOf_value_int (neg : Bool) (ip : Str) (hip : AllDigits ip)
    (hr : if neg then digitsToNat ip ≤ 2 ^ 63 else digitsToNat ip < 2 ^ 64) :
    (numTextOf neg ip none).value? =
      some (if neg then .neg (-(digitsToNat ip : Int)) else .pos (digitsToNat ip)) := by
  have e : asciiStr (numTextOf neg ip none).int = ip := asciiStr_utf8 ip (allDigits_ascii hip)
  unfold NumText.value?
  simp only [e]
  rw [if_pos ⟨rfl, rfl, hr⟩]
  rfl

/-- the value of a text with a fraction, or whose integer is out of range: through `str::parse::<f64>` -/
theorem numTextOf_value_flt (neg : Bool) (ip : Str) (fp : Option Str) (hip : AllDigits ip)
    (hfp : ∀ d, fp = some d → AllDigits d)
    (hr : fp = none → ¬ (if neg then digitsToNat ip ≤ 2 ^ 63 else digitsToNat ip < 2 ^ 64))
    (f : F64) (hp : parseDecimal (numStr neg ip fp) = some f) (hfin : f.isFinite = true) :
    (numTextOf neg ip fp).value? = some (Num.ofF64 f) := by
  have e : asciiStr (numTextOf neg ip fp).int = ip := asciiStr_utf8 ip (allDigits_ascii hip)
  have e2 : asciiStr (numTextOf neg ip fp).norm = numStr neg ip fp := by
    rw [numTextOf_norm, numTextOf_bytes, asciiStr_utf8 _ (numStr_ascii neg ip fp hip hfp)]
  unfold NumText.value?
  simp only [e, e2, hp, hfin, if_true]
  rw [if_neg]
  rintro ⟨h1, _, h3⟩
  apply hr _ h3
  cases fp with
  | none => rfl
  | some d => simp [numTextOf] at h1

/-! #### integers -/

theorem noLeadingZero_toDigits (n : Nat) : NoLeadingZero (Nat.toDigits 10 n) := by
  by_cases h : n = 0
  · subst h; exact Or.inl rfl
  · exact Or.inr (head_toDigits_ne_zero n h)

/-- `[-]digits` of an integer in range is a number text denoting that integer -/
theorem digits_ser (neg : Bool) (n : Nat) (hr : if neg then n ≤ 2 ^ 63 else n < 2 ^ 64) :
    Ser.Ser (.num (if neg then .neg (-(n : Int)) else .pos n)) (utf8 (signChars neg ++ Nat.toDigits 10 n)) := by
  have hd : AllDigits (Nat.toDigits 10 n) := allDigits_toDigits n
  have hv := numTextOf_value_int neg (Nat.toDigits 10 n) hd
    (by rw [F64RT.digitsToNat_toDigits]; exact hr)
  rw [F64RT.digitsToNat_toDigits] at hv
  have hwf := numTextOf_wf neg _ none hd Nat.toDigits_ne_nil (noLeadingZero_toDigits n)
    (by intro d h; cases h)
  have := Ser.num hwf hv
  rw [numTextOf_bytes] at this
  simpa [numStr, fracChars] using this

/-! #### floats -/

theorem unsignedJson_split {b : Str} (h : UnsignedJsonShape b) :
    ∃ (ip : Str) (fp : Option Str), b = ip ++ fracChars fp ∧ AllDigits ip ∧ ip ≠ [] ∧ NoLeadingZero ip ∧
      (∀ d, fp = some d → AllDigits d ∧ d ≠ []) := by
  rcases h with ⟨h1, h2, h3⟩ | ⟨ip, fp, rfl, h2, h3, h4, h5, h6⟩
  · exact ⟨b, none, by simp [fracChars], h1, h2, h3, by intro d hd; cases hd⟩
  · exact ⟨ip, some fp, rfl, h2, h3, h4, by intro d hd; cases hd; exact ⟨h5, h6⟩⟩

/-- a text of the JSON number shape, split into sign, integer part and fraction -/
theorem json_split {t : Str} (h : JsonNumberShape t) :
    ∃ (neg : Bool) (ip : Str) (fp : Option Str), t = numStr neg ip fp ∧ AllDigits ip ∧ ip ≠ [] ∧
      NoLeadingZero ip ∧ (∀ d, fp = some d → AllDigits d ∧ d ≠ []) := by
  rcases h with h | ⟨b, rfl, h⟩
  · obtain ⟨ip, fp, h1, h2⟩ := unsignedJson_split h
    exact ⟨false, ip, fp, by simpa [numStr, signChars] using h1, h2⟩
  · obtain ⟨ip, fp, h1, h2⟩ := unsignedJson_split h
    exact ⟨true, ip, fp, by simp [numStr, signChars, h1], h2⟩

theorem noDigitHead_frac (fp : Option Str) : NoDigitHead (fracChars fp) := by
  cases fp with
  | none => exact True.intro
  | some d => show ('.' : Char).isDigit = false; rfl

/-- the split of a text without fraction is unique -/
theorem split_unique_int {neg neg' : Bool} {ip ip' : Str} {fp' : Option Str}
    (h : numStr neg ip none = numStr neg' ip' fp') (hip : AllDigits ip) (hne : ip ≠ [])
    (hip' : AllDigits ip') (hne' : ip' ≠ []) : neg = neg' ∧ ip = ip' ∧ fp' = none := by
  have core : ip ++ fracChars none = ip' ++ fracChars fp' → ip = ip' ∧ fp' = none := by
    intro h
    have := congrArg takeDigits h
    rw [takeDigits_append _ _ hip (noDigitHead_frac _), takeDigits_append _ _ hip' (noDigitHead_frac _)] at this
    simp only [Prod.mk.injEq] at this
    refine ⟨this.1, ?_⟩
    cases fp' with
    | none => rfl
    | some d => simp [fracChars] at this
  obtain ⟨c, r, rfl⟩ := List.exists_cons_of_ne_nil hne
  obtain ⟨c', r', rfl⟩ := List.exists_cons_of_ne_nil hne'
  have hc : c.isDigit = true := hip c (by simp)
  have hc' : c'.isDigit = true := hip' c' (by simp)
  cases neg <;> cases neg' <;>
    simp only [numStr, signChars, if_true, if_false, Bool.false_eq_true, List.nil_append, List.cons_append,
      List.cons.injEq] at h
  · obtain ⟨h1, h2⟩ := core (by simpa using h)
    exact ⟨rfl, h1, h2⟩
  · obtain ⟨rfl, _⟩ := h
    exact absurd hc (by decide)
  · obtain ⟨rfl, _⟩ := h
    exact absurd hc' (by decide)
  · obtain ⟨h1, h2⟩ := core (by simpa using h.2)
    exact ⟨rfl, h1, h2⟩

/-- the digit search succeeded on a float satisfying `FloatRT` (its display text is not the `<?>` of the model) -/
theorem floatRT_display {f : F64} (hf : FloatRT f) : ∃ t, toDisplay? f = some t ∧ toDisplay f = t := by
  cases h : toDisplay? f with
  | some t => exact ⟨t, rfl, by simp [toDisplay, h]⟩
  | none =>
    exfalso
    obtain ⟨neg, ip, fp, h1, h2, h3, _⟩ := hf.shape
    have e : toDisplay f = ['<', '?', '>'] := by simp [toDisplay, h]
    rw [e] at h1
    obtain ⟨c, r, rfl⟩ := List.exists_cons_of_ne_nil h2
    have hc : c.isDigit = true := h3 c (by simp)
    cases neg <;>
      simp only [signChars, if_true, if_false, Bool.false_eq_true, List.nil_append, List.cons_append,
        List.cons.injEq] at h1
    · obtain ⟨rfl, _⟩ := h1
      exact absurd hc (by decide)
    · exact absurd h1.1 (by decide)

/-- **floats**: the display text of a float satisfying `FloatRT` is a number text denoting that float -/
theorem float_ser (f : F64) (hf : FloatRT f) : Ser.Ser (.num (.flt f)) (utf8 (toDisplay f)) := by
  obtain ⟨t, ht, hdisp⟩ := floatRT_display hf
  have hfin := hf.finite
  cases f with
  | nan => simp [isFinite] at hfin
  | inf s => simp [isFinite] at hfin
  | fin s m e =>
    have hm : m ≠ 0 := flt_stable_ne_zero hf.stays
    have hparse : parseDecimal t = some (fin s m e) := display_parse rfl hm ht
    obtain ⟨neg, ip, fp, rfl, h2, h3, h4, h5⟩ := json_split (toDisplay_jsonShape ht)
    have hfp : ∀ d, fp = some d → AllDigits d := fun d hd => (h5 d hd).1
    have hrange : fp = none → ¬ (if neg then digitsToNat ip ≤ 2 ^ 63 else digitsToNat ip < 2 ^ 64) := by
      intro hnone
      subst hnone
      obtain ⟨neg', ip', fp', g1, g2, g3, _, g5⟩ := hf.shape
      rw [hdisp] at g1
      obtain ⟨rfl, rfl, rfl⟩ := split_unique_int g1 h2 h3 g3 g2
      have := g5 rfl
      cases neg <;> simp only [if_true, if_false, Bool.false_eq_true] at this ⊢ <;> omega
    have hv := numTextOf_value_flt neg ip fp h2 hfp hrange _ hparse hfin
    rw [hf.stays] at hv
    have := Ser.num (numTextOf_wf neg ip fp h2 h3 h4 h5) hv
    rw [numTextOf_bytes] at this
    rw [hdisp]
    exact this

/-- **numbers**: the printed number is a number text denoting the number (a non-negative `neg i`, printed
without sign, denotes `pos i`) -/
theorem printNum_ser (n : Num) (hn : NumPrintable n) : Ser.Ser (.num (normNum n)) (utf8 (printNum n)) := by
  cases n with
  | pos n =>
    have := digits_ser false n hn
    simpa [signChars, normNum, printNum] using this
  | neg i =>
    obtain ⟨h1, h2⟩ := hn
    simp only [normNum, printNum]
    by_cases hi : i < 0
    · rw [if_pos hi, if_pos hi]
      have := digits_ser true i.natAbs (by simp only [if_true]; omega)
      have e : -(i.natAbs : Int) = i := by omega
      simpa [signChars, e] using this
    · rw [if_neg hi, if_neg hi]
      have := digits_ser false i.natAbs (by simp only [Bool.false_eq_true, if_false]; omega)
      have e : i.natAbs = i.toNat := by omega
      simpa [signChars, e] using this
  | flt f => exact float_ser f hn

/-! ### 4. Arrays and objects -/

/-- the claim for one value, at every indentation depth -/
def ValSer (o : JsonOpts) (ind : Nat) (v : JV) : Prop :=
  Printable o v → Ser.Ser (norm v) (utf8 (printJsonAt o ind v))

/-- the elements (without the indentation of the first one), followed by any white space, form an element list -/
def ElemsSer (o : JsonOpts) (ind : Nat) (vs : List JV) : Prop :=
  vs ≠ [] → PrintableList o vs → ∀ trail, Ws trail → Elems (normList vs) (utf8 (elemsTail o ind vs) ++ trail)

/-- the members (without the indentation of the first one), followed by any white space, form a member list -/
def MembersSer (o : JsonOpts) (ind : Nat) (kvs : List (Str × JV)) : Prop :=
  kvs ≠ [] → PrintableMembers o kvs → ∀ trail, Ws trail →
    Members (normMembers kvs) (utf8 (membersTail o ind kvs) ++ trail)

theorem elems_cons (o : JsonOpts) (ind : Nat) (v : JV) (vs : List JV)
    (hv : ValSer o ind v) (hvs : ElemsSer o ind vs) : ElemsSer o ind (v :: vs) := by
  intro _ hp trail htrail
  rw [PrintableList] at hp
  cases vs with
  | nil =>
    rw [elemsTail, normList, normList]
    exact Elems.one (hv hp.1) htrail
  | cons w vs =>
    have hrest := hvs (by simp) hp.2 trail htrail
    rw [elemsTail, normList]
    have := Elems.cons (w1 := []) (w2 := commaWs o ++ utf8 (indentText o ind)) (hv hp.1) ws_nil
      (ws_append' (commaWs_Ws o) (indent_Ws o ind)) hrest
    simpa only [utf8_append, utf8_commaText, List.append_assoc, List.cons_append, List.nil_append] using this

theorem members_cons (o : JsonOpts) (ind : Nat) (k : Str) (v : JV) (kvs : List (Str × JV))
    (hv : ValSer o ind v) (hkvs : MembersSer o ind kvs) : MembersSer o ind ((k, v) :: kvs) := by
  intro _ hp trail htrail
  rw [PrintableMembers] at hp
  have hk := printString_ser o k hp.1
  cases kvs with
  | nil =>
    rw [membersTail, normMembers, normMembers]
    have := Members.one (w1 := []) (w2 := colonWs o) hk ws_nil (colonWs_Ws o) (hv hp.2.1) htrail
    simpa only [utf8_append, utf8_colonText, List.append_assoc, List.cons_append, List.nil_append] using this
  | cons kv kvs =>
    have hrest := hkvs (by simp) hp.2.2 trail htrail
    rw [membersTail, normMembers]
    have := Members.cons (w1 := []) (w2 := colonWs o) (w3 := []) (w4 := commaWs o ++ utf8 (indentText o ind))
      hk ws_nil (colonWs_Ws o) (hv hp.2.1) ws_nil (ws_append' (commaWs_Ws o) (indent_Ws o ind)) hrest
    simpa only [utf8_append, utf8_colonText, utf8_commaText, List.append_assoc, List.cons_append,
      List.nil_append] using this

theorem ser_arr (o : JsonOpts) (ind : Nat) (vs : List JV) (hvs : ElemsSer o (ind + 1) vs) :
    ValSer o ind (.arr vs) := by
  intro hp
  rw [Printable] at hp
  rw [norm]
  cases vs with
  | nil =>
    rw [normList, printJsonAt]
    exact Ser.arrEmpty (w := []) ws_nil
  | cons v vs =>
    have hb := hvs (by simp) hp _ (indent_Ws o ind)
    have := Ser.arr (indent_Ws o (ind + 1)) hb
    rw [printJsonAt, printElems_eq o (ind + 1) (v :: vs) (by simp)]
    have e1 : utf8 [']'] = [93] := rfl
    have e2 : String.utf8EncodeChar '[' = [91] := rfl
    simpa only [utf8_cons, utf8_append, e1, e2, List.append_assoc, List.cons_append, List.nil_append]
      using this

theorem ser_obj (o : JsonOpts) (ind : Nat) (kvs : List (Str × JV)) (hkvs : MembersSer o (ind + 1) kvs) :
    ValSer o ind (.obj kvs) := by
  intro hp
  rw [Printable] at hp
  rw [norm]
  cases kvs with
  | nil =>
    rw [normMembers, printJsonAt]
    exact Ser.objEmpty (w := []) ws_nil
  | cons kv kvs =>
    have hb := hkvs (by simp) hp.1 _ (indent_Ws o ind)
    have := Ser.obj (indent_Ws o (ind + 1)) hb (by rw [normMembers_keys]; exact hp.2)
    rw [printJsonAt, printMembers_eq o (ind + 1) (kv :: kvs) (by simp)]
    have e1 : utf8 ['}'] = [125] := rfl
    have e2 : String.utf8EncodeChar '{' = [123] := rfl
    simpa only [utf8_cons, utf8_append, e1, e2, List.append_assoc, List.cons_append, List.nil_append]
      using this

mutual
theorem value_ser (o : JsonOpts) : ∀ (ind : Nat) (v : JV), ValSer o ind v
  | _, .null => fun _ => by rw [norm, printJsonAt]; exact Ser.null
  | _, .bool true => fun _ => by rw [norm, printJsonAt]; exact Ser.true
  | _, .bool false => fun _ => by rw [norm, printJsonAt]; exact Ser.false
  | _, .num n => fun h => by
    rw [Printable] at h; rw [norm, printJsonAt]; exact printNum_ser n h
  | _, .str s => fun h => by
    rw [Printable] at h; rw [norm, printJsonAt]; exact printString_ser o s h
  | ind, .arr vs => ser_arr o ind vs (elems_ser o (ind + 1) vs)
  | ind, .obj kvs => ser_obj o ind kvs (members_ser o (ind + 1) kvs)
theorem elems_ser (o : JsonOpts) : ∀ (ind : Nat) (vs : List JV), ElemsSer o ind vs
  | _, [] => fun h => absurd rfl h
  | ind, v :: vs => elems_cons o ind v vs (value_ser o ind v) (elems_ser o ind vs)
theorem members_ser (o : JsonOpts) : ∀ (ind : Nat) (kvs : List (Str × JV)), MembersSer o ind kvs
  | _, [] => fun h => absurd rfl h
  | ind, (k, v) :: kvs => members_cons o ind k v kvs (value_ser o ind v) (members_ser o ind kvs)
end

/-! ### Main theorems -/

/-- **C02, printer side (for `RT.Printable`).** The printed text of a printable value is a conforming JSON
text whose value is the value (up to `RT.norm`), in every style and both string modes. -/
theorem printJson_ser_printable (o : JsonOpts) (v : JV) (hv : Printable o v) :
    Ser.Ser (RT.norm v) (utf8 (printJson o v)) :=
  value_ser o 0 v hv

/-- the printed text of a printable value is a conforming JSON text whose value is the value (up to `RT.norm`:
a `neg i` with `i ≥ 0`, which prints without sign, denotes `pos i`), in every style and both string modes -/
theorem printJson_ser (o : JsonOpts) (v : JV) (hv : Parsed o v) :
    Ser.Ser (RT.norm v) (utf8 (printJson o v)) :=
  printJson_ser_printable o v (printable_of_parsed o v hv)

/-! ### Corollaries -/

theorem strOK_opts {o o' : JsonOpts} (h : o.utf8Strings = o'.utf8Strings) {s : Str} (hs : StrOK o s) :
    StrOK o' s := by
  intro c hc
  rcases hs c hc with h1 | h1
  · exact Or.inl h1
  · exact Or.inr (h ▸ h1)

mutual
/-- `Printable` depends on the options only through the string mode -/
theorem printable_opts (o o' : JsonOpts) (h : o.utf8Strings = o'.utf8Strings) :
    ∀ (v : JV), Printable o v → Printable o' v
  | .null, _ => by rw [Printable]; exact True.intro
  | .bool _, _ => by rw [Printable]; exact True.intro
  | .num n, hv => by rw [Printable] at hv ⊢; exact hv
  | .str s, hv => by rw [Printable] at hv ⊢; exact strOK_opts h hv
  | .arr vs, hv => by rw [Printable] at hv ⊢; exact printableList_opts o o' h vs hv
  | .obj kvs, hv => by rw [Printable] at hv ⊢; exact ⟨printableMembers_opts o o' h kvs hv.1, hv.2⟩
theorem printableList_opts (o o' : JsonOpts) (h : o.utf8Strings = o'.utf8Strings) :
    ∀ (vs : List JV), PrintableList o vs → PrintableList o' vs
  | [], _ => by rw [PrintableList]; exact True.intro
  | v :: vs, hv => by
    rw [PrintableList] at hv ⊢
    exact ⟨printable_opts o o' h v hv.1, printableList_opts o o' h vs hv.2⟩
theorem printableMembers_opts (o o' : JsonOpts) (h : o.utf8Strings = o'.utf8Strings) :
    ∀ (kvs : List (Str × JV)), PrintableMembers o kvs → PrintableMembers o' kvs
  | [], _ => by rw [PrintableMembers]; exact True.intro
  | (k, v) :: kvs, hv => by
    rw [PrintableMembers] at hv ⊢
    exact ⟨strOK_opts h hv.1, printable_opts o o' h v hv.2.1, printableMembers_opts o o' h kvs hv.2.2⟩
end

/-- the three styles (same string mode) give conforming texts of the SAME value -/
theorem printJson_ser_styles (o : JsonOpts) (v : JV) (hv : Parsed o v) (st : JsonStyle) :
    Ser.Ser (RT.norm v) (utf8 (printJson { o with style := st } v)) :=
  printJson_ser_printable _ v (printable_opts o { o with style := st } rfl v (printable_of_parsed o v hv))

/-- the same, spelled out: one value, three conforming texts -/
theorem printJson_ser_three (o : JsonOpts) (v : JV) (hv : Parsed o v) :
    Ser.Ser (RT.norm v) (utf8 (printJson { o with style := .oneLine } v)) ∧
    Ser.Ser (RT.norm v) (utf8 (printJson { o with style := .consise } v)) ∧
    Ser.Ser (RT.norm v) (utf8 (printJson { o with style := .pretty } v)) :=
  ⟨printJson_ser_styles o v hv _, printJson_ser_styles o v hv _, printJson_ser_styles o v hv _⟩

/-- a row printed with the default options (one line, ASCII strings) is a conforming text of the value -/
theorem row_is_ser (v : JV) (hv : Parsed {} v) : Ser.Ser (RT.norm v) (utf8 (printJson {} v)) :=
  printJson_ser {} v hv

/-- `Display for JsonValue` -/
theorem display_is_ser (v : JV) (hv : Parsed {} v) : Ser.Ser (RT.norm v) (utf8 (JV.display v)) :=
  row_is_ser v hv

/-- the reader model reads the printed text back as the value THROUGH the independent grammar
(`Ser.nextJson_ser` applied to `printJson_ser`): after any white space, before any `rest` that does not
extend a number -/
theorem nextJson_printed (o : JsonOpts) (v : JV) (hv : Parsed o v) (rest : List Byte)
    (hd : Delimited (RT.norm v) rest) (ws : List Byte) (hws : Ws ws) (r : Reader)
    (hr : Ready r (ws ++ utf8 (printJson o v) ++ rest)) :
    ∃ r', r.nextJson = (.ok (some (RT.norm v)), r') ∧ Ready r' rest :=
  nextJson_ser (printJson_ser o v hv) rest hd ws hws r hr

/-! ### Non-vacuity -/

/-- a nested value with a float (`0.1`), integers of both signs, two-character escapes (`\n`, `\"`, `\/`),
a non-ASCII character, a control character, an empty object and an empty array -/
def sample : JV :=
  .obj [(['a', '/'], .arr [.num (.flt (.fin false 7205759403792794 (-56))), .num (.pos 7), .num (.neg (-12)),
          .str ['x', '\n', '"', 'é', '\x7f', '\x01'], .obj [], .arr [], .null]),
        (['é'], .bool true)]

theorem sample_parsed (o : JsonOpts) : Parsed o sample := by
  have hs : ∀ s : Str, (∀ c ∈ s, c.toNat ≤ 0xFFFF) → StrOK o s := fun s h c hc => Or.inl (h c hc)
  have hf : Parsed o (.num (.flt (.fin false 7205759403792794 (-56)))) := by
    rw [Parsed]
    exact ⟨⟨rfl, by decide +kernel⟩, by intro f hf; cases hf; decide +kernel⟩
  have h7 : Parsed o (.num (.pos 7)) := by
    rw [Parsed]; exact ⟨(by decide : (7 : Nat) < 2 ^ 64), by intro f hf; cases hf⟩
  have h12 : Parsed o (.num (.neg (-12))) := by
    rw [Parsed]
    exact ⟨(by decide : -(2 ^ 63 : Int) ≤ -12 ∧ (-12 : Int) ≤ 0), by intro f hf; cases hf⟩
  have hstr : Parsed o (.str ['x', '\n', '"', 'é', '\x7f', '\x01']) := by
    rw [Parsed]; exact hs _ (by decide)
  have hobj : Parsed o (.obj []) := by
    rw [Parsed, ParsedMembers]; exact ⟨True.intro, by decide⟩
  have harr : Parsed o (.arr []) := by rw [Parsed, ParsedList]; exact True.intro
  have hnull : Parsed o .null := by rw [Parsed]; exact True.intro
  have htrue : Parsed o (.bool true) := by rw [Parsed]; exact True.intro
  have hin : Parsed o (.arr [.num (.flt (.fin false 7205759403792794 (-56))), .num (.pos 7), .num (.neg (-12)),
      .str ['x', '\n', '"', 'é', '\x7f', '\x01'], .obj [], .arr [], .null]) := by
    rw [Parsed]
    simp only [ParsedList]
    exact ⟨hf, h7, h12, hstr, hobj, harr, hnull, True.intro⟩
  rw [sample, Parsed]
  simp only [ParsedMembers]
  exact ⟨⟨hs _ (by decide), hin, hs _ (by decide), htrue, True.intro⟩, by decide⟩

theorem sample_norm : RT.norm sample = sample := by
  simp [sample, norm, normList, normMembers, normNum]

/-- the pretty-printed sample, ASCII mode (`é` is written `\u00e9`) -/
theorem sample_pretty_ascii : printJson { style := .pretty } sample =
    "{\n  \"a\\/\": [\n    0.1,\n    7,\n    -12,\n    \"x\\n\\\"\\u00e9\\u007f\\u0001\",\n    {},\n    [],\n    null\n  ],\n  \"\\u00e9\": true\n}".toList := by
  decide +kernel

/-- the pretty-printed sample, UTF-8 mode (`é` and DEL are written raw) -/
theorem sample_pretty_utf8 : printJson { style := .pretty, utf8Strings := true } sample =
    "{\n  \"a\\/\": [\n    0.1,\n    7,\n    -12,\n    \"x\\n\\\"é\x7f\\u0001\",\n    {},\n    [],\n    null\n  ],\n  \"é\": true\n}".toList := by
  decide +kernel

/-- the main theorem on the sample, pretty style: that concrete text is a conforming text of the sample -/
example : Ser.Ser sample (utf8 "{\n  \"a\\/\": [\n    0.1,\n    7,\n    -12,\n    \"x\\n\\\"\\u00e9\\u007f\\u0001\",\n    {},\n    [],\n    null\n  ],\n  \"\\u00e9\": true\n}".toList) := by
  have := printJson_ser { style := .pretty } sample (sample_parsed _)
  rwa [sample_norm, sample_pretty_ascii] at this

example : Ser.Ser sample (utf8 (printJson { style := .pretty, utf8Strings := true } sample)) := by
  have := printJson_ser { style := .pretty, utf8Strings := true } sample (sample_parsed _)
  rwa [sample_norm] at this

/-- the `Printable` version on the sample, `consise` style -/
example : Ser.Ser sample (utf8 (printJson { style := .consise } sample)) := by
  have := printJson_ser_printable { style := .consise } sample (printable_of_parsed _ _ (sample_parsed _))
  rwa [sample_norm] at this

/-- `nextJson_printed` on the sample: a fresh reader over the pretty-printed text yields the sample -/
example : ∃ r', (Reader.ofBytes (utf8 (printJson { style := .pretty } sample))).nextJson
    = (.ok (some sample), r') ∧ Ready r' [] := by
  have := nextJson_printed { style := .pretty } sample (sample_parsed _) []
    (delimited_of_delim (Delim.of_numDelim numDelim_nil)) [] ws_nil _
    (by simpa using ready_ofBytes (utf8 (printJson { style := .pretty } sample)) none)
  rwa [sample_norm] at this

/-- `neg 0` is printed `0`, which denotes `pos 0`: the reason for `RT.norm` in the statement -/
example : Ser.Ser (.num (.pos 0)) (utf8 (printJson {} (.num (.neg 0)))) :=
  printJson_ser {} (.num (.neg 0)) (by
    rw [Parsed]; exact ⟨(by decide : -(2 ^ 63 : Int) ≤ 0 ∧ (0 : Int) ≤ 0), by intro f hf; cases hf⟩)

/-- Outside the hypothesis (`StrOK`): in ASCII mode a character above the Basic Multilingual Plane is printed
as `\u` + FIVE hex digits (`{:04x}`), which is still a conforming text, but of a DIFFERENT string
(U+1F600 comes out as the text of U+1F60 followed by `0`). With `utf8Strings` it is written raw. -/
theorem astral_ascii_differs :
    Ser.Ser (.str [Char.ofNat 0x1F60, '0']) (utf8 (printJson {} (.str [Char.ofNat 0x1F600]))) := by
  have e : utf8 (printJson {} (.str [Char.ofNat 0x1F600])) =
      34 :: (([92, 117, 49, 102, 54, 48] ++ ([48] ++ [])) ++ [34]) := by decide +kernel
  rw [e]
  exact Ser.str (StrBody.cons (StrItem.uni 49 102 54 48 1 15 6 0 rfl rfl rfl rfl (Or.inl (by decide)))
    (StrBody.cons (StrItem.raw '0' (by decide) (by decide) (by decide)) StrBody.nil))

end Jawk.PrintSer

-- #print axioms Jawk.PrintSer.printJson_ser_printable
-- #print axioms Jawk.PrintSer.printJson_ser
-- #print axioms Jawk.PrintSer.printJson_ser_styles
-- #print axioms Jawk.PrintSer.row_is_ser
-- #print axioms Jawk.PrintSer.nextJson_printed
