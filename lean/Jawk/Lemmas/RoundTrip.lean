/-
  Round trip printer → parser (properties C01, C02): `nextValue` reads back exactly what
  `printJson` wrote, in all three styles and both string modes.
-/
import Jawk.Lemmas.RoundTripLex
namespace Jawk.RT
open Jawk Reader

/-! ### Printable values, the normal form the parser yields, delimiters -/

mutual
/-- The values for which the round trip is claimed:
* numbers: `pos n` with `n < 2^64`; `neg i` with `-2^63 ≤ i < 2^64`; floats satisfying `FloatRT`;
* strings (and member names): every character is in the BMP unless `utf8Strings` is set;
* objects: member names pairwise distinct (guaranteed by the real `IndexMap`). -/
def Printable (o : JsonOpts) : JV → Prop
  | .null => True
  | .bool _ => True
  | .num n => NumPrintable n
  | .str s => StrOK o s
  | .arr vs => PrintableList o vs
  | .obj kvs => PrintableMembers o kvs ∧ (kvs.map (·.1)).Nodup
def PrintableList (o : JsonOpts) : List JV → Prop
  | [] => True
  | v :: vs => Printable o v ∧ PrintableList o vs
def PrintableMembers (o : JsonOpts) : List (Str × JV) → Prop
  | [] => True
  | (k, v) :: kvs => StrOK o k ∧ Printable o v ∧ PrintableMembers o kvs
end

mutual
/-- What the parser yields for the printed text of `v`: `v` itself, except that a number
`neg i` with `i ≥ 0` (printed without sign) comes back as `pos i`. -/
def norm : JV → JV
  | .null => .null
  | .bool b => .bool b
  | .num n => .num (normNum n)
  | .str s => .str s
  | .arr vs => .arr (normList vs)
  | .obj kvs => .obj (normMembers kvs)
def normList : List JV → List JV
  | [] => []
  | v :: vs => norm v :: normList vs
def normMembers : List (Str × JV) → List (Str × JV)
  | [] => []
  | (k, v) :: kvs => (k, norm v) :: normMembers kvs
end

/-- What may follow the printed value: after a number, no byte that would extend it. -/
def Delim : JV → List Byte → Prop
  | .num _, rest => NumDelim rest
  | _, _ => True

theorem Delim.of_numDelim {v : JV} {rest : List Byte} (h : NumDelim rest) : Delim v rest := by
  cases v <;> first | exact h | exact True.intro

theorem numDelim_nil : NumDelim [] := by
  intro b hb; simp at hb

theorem numDelim_cons (b : Byte) (l : List Byte)
    (h : isDigit b = false ∧ b ≠ 46 ∧ b ≠ 101 ∧ b ≠ 69) : NumDelim (b :: l) := by
  intro c hc
  simp only [List.head?_cons, Option.mem_def, Option.some.injEq] at hc
  subst hc; exact h

theorem isWs_numDelim {b : Byte} (h : isWs b = true) :
    isDigit b = false ∧ b ≠ 46 ∧ b ≠ 101 ∧ b ≠ 69 := by
  simp only [isWs, Bool.or_eq_true, decide_eq_true_eq] at h
  rcases h with ((rfl | rfl) | rfl) | rfl <;> decide

/-- white space followed by a punctuation byte delimits a number -/
theorem numDelim_ws_punct (ws : List Byte) (hws : ∀ b ∈ ws, isWs b = true) (c : Byte) (rest : List Byte)
    (hc : isDigit c = false ∧ c ≠ 46 ∧ c ≠ 101 ∧ c ≠ 69) : NumDelim (ws ++ c :: rest) := by
  cases ws with
  | nil => exact numDelim_cons c rest hc
  | cons w ws => exact numDelim_cons w _ (isWs_numDelim (hws w (by simp)))

/-! ### Dispatch of `next_json_value` -/

/-- the body of `next_json_value` after white space has been skipped and the first byte `c` peeked -/
def dispatch (fuel : Nat) (c : Byte) : PM (Option JV) :=
  if c = 116 then do
    readWordTail "true" [114, 117, 101]
    pure (some (.bool true))
  else if c = 102 then do
    readWordTail "false" [97, 108, 115, 101]
    pure (some (.bool false))
  else if c = 110 then do
    readWordTail "null" [117, 108, 108]
    pure (some .null)
  else if c = 34 then do
    let s ← readStringLoop (fuel + 1) []
    pure (some (.str s))
  else if c = 45 || isDigit c then do
    let v ← readNumber (fuel + 1)
    pure (some v)
  else if c = 91 then do
    let v ← readArray fuel
    pure (some v)
  else if c = 123 then do
    let v ← readObject fuel
    pure (some v)
  else do
    let _ ← next
    locErr (fun l => .unexpectedChar l c valueExpected)

theorem nextValue_dispatch (ws : List Byte) (hws : ∀ b ∈ ws, isWs b = true) (c : Byte) (bs : List Byte)
    (hc : isWs c = false) (r : Reader) (hr : Ready r (ws ++ c :: bs)) (fuel : Nat)
    (hf : ws.length < fuel + 1) :
    ∃ r1, At r1 c bs ∧ nextValue (fuel + 1) r = dispatch fuel c r1 := by
  obtain ⟨r1, he, hr1⟩ := eatWhitespace_ready ws hws (c :: bs)
    (by intro b hb; simp at hb; subst hb; exact hc) r hr (fuel + 1) hf
  refine ⟨r1, hr1, ?_⟩
  rw [nextValue, PM.bind_ok he, PM.bind_ok (peek_at hr1)]
  rfl

/-! ### The statement proved by mutual induction -/

/-- `nextValue` reads the text of `v` printed at nesting depth `ind`, after any white space `ws`,
and leaves the reader ready for `rest` -/
def ValueSpec (o : JsonOpts) (ind : Nat) (v : JV) : Prop :=
  Printable o v → ∀ (ws : List Byte), (∀ b ∈ ws, isWs b = true) → ∀ (rest : List Byte), Delim v rest →
    ∀ (r : Reader), Ready r (ws ++ (utf8 (printJsonAt o ind v) ++ rest)) →
    ∀ (fuel : Nat), 2 * (ws.length + (utf8 (printJsonAt o ind v)).length) + 2 ≤ fuel →
    ∃ r', nextValue fuel r = (.ok (some (norm v)), r') ∧ Ready r' rest

theorem spec_word (o : JsonOpts) (ind : Nat) (v : JV) (word : String) (c : Byte) (tail : List Byte)
    (htext : utf8 (printJsonAt o ind v) = c :: tail) (hc : isWs c = false)
    (hd : ∀ fuel, dispatch fuel c = (do readWordTail word tail; pure (some (norm v)))) :
    ValueSpec o ind v := by
  intro _ ws hws rest _ r hr fuel hf
  obtain ⟨fuel, rfl⟩ : ∃ k, fuel = k + 1 := ⟨fuel - 1, by omega⟩
  rw [htext] at hr
  obtain ⟨r1, hr1, hnv⟩ := nextValue_dispatch ws hws c (tail ++ rest) hc r (by simpa using hr) fuel
    (by omega)
  obtain ⟨r2, hw, hr2⟩ := readWordTail_at word tail rest r1 c hr1
  refine ⟨r2, ?_, hr2⟩
  rw [hnv, hd, PM.bind_ok hw]
  rfl

theorem spec_null (o : JsonOpts) (ind : Nat) : ValueSpec o ind .null :=
  spec_word o ind .null "null" 110 [117, 108, 108] rfl rfl (fun _ => rfl)

theorem spec_true (o : JsonOpts) (ind : Nat) : ValueSpec o ind (.bool true) :=
  spec_word o ind (.bool true) "true" 116 [114, 117, 101] rfl rfl (fun _ => rfl)

theorem spec_false (o : JsonOpts) (ind : Nat) : ValueSpec o ind (.bool false) :=
  spec_word o ind (.bool false) "false" 102 [97, 108, 115, 101] rfl rfl (fun _ => rfl)

theorem spec_str (o : JsonOpts) (ind : Nat) (s : Str) : ValueSpec o ind (.str s) := by
  intro hv ws hws rest _ r hr fuel hf
  obtain ⟨fuel, rfl⟩ : ∃ k, fuel = k + 1 := ⟨fuel - 1, by omega⟩
  have htext : utf8 (printJsonAt o ind (.str s)) = 34 :: (strBody o s ++ [34]) := by
    rw [printJsonAt, utf8_printString]
  rw [htext] at hr hf
  obtain ⟨r1, hr1, hnv⟩ := nextValue_dispatch ws hws 34 (strBody o s ++ 34 :: rest) rfl r
    (by simpa using hr) fuel (by omega)
  obtain ⟨r2, hw, hr2⟩ := readString_print o s hv rest r1 34 hr1 (fuel + 1)
    (by simp at hf; omega)
  refine ⟨r2, ?_, hr2⟩
  rw [hnv]
  simp only [dispatch, show ¬ ((34 : Byte) = 116) by decide, show ¬ ((34 : Byte) = 102) by decide,
    show ¬ ((34 : Byte) = 110) by decide, if_false, if_true]
  rw [PM.bind_ok hw]
  rfl

theorem dispatch_num (fuel : Nat) (c : Byte) (hc : c = 45 ∨ isDigit c = true) :
    dispatch fuel c = (do let v ← readNumber (fuel + 1); pure (some v)) := by
  have h : c ≠ 116 ∧ c ≠ 102 ∧ c ≠ 110 ∧ c ≠ 34 ∧ (decide (c = 45) || isDigit c) = true := by
    rcases hc with rfl | hc
    · decide
    · have hc0 := hc
      simp only [isDigit, Bool.and_eq_true, decide_eq_true_eq, UInt8.le_iff_toNat_le] at hc
      refine ⟨?_, ?_, ?_, ?_, ?_⟩
      · intro h; subst h; simp at hc
      · intro h; subst h; simp at hc
      · intro h; subst h; simp at hc
      · intro h; subst h; simp at hc
      · simp [hc0]
  simp only [dispatch, h.1, h.2.1, h.2.2.1, h.2.2.2.1, h.2.2.2.2, if_false, if_true]

theorem isWs_false_of_num (c : Byte) (hc : c = 45 ∨ isDigit c = true) : isWs c = false := by
  rcases hc with rfl | hc
  · decide
  · simp only [isDigit, Bool.and_eq_true, decide_eq_true_eq, UInt8.le_iff_toNat_le] at hc
    simp only [isWs, Bool.or_eq_false_iff, decide_eq_false_iff_not]
    refine ⟨⟨⟨?_, ?_⟩, ?_⟩, ?_⟩ <;> (intro h; subst h; simp at hc)

theorem spec_num (o : JsonOpts) (ind : Nat) (n : Num) : ValueSpec o ind (.num n) := by
  intro hv ws hws rest hd r hr fuel hf
  obtain ⟨fuel, rfl⟩ : ∃ k, fuel = k + 1 := ⟨fuel - 1, by omega⟩
  have htext : printJsonAt o ind (.num n) = printNum n := by rw [printJsonAt]
  rw [htext] at hr hf
  obtain ⟨c, bs, hcb, hc⟩ := printNum_head n hv
  have hr0 := hr
  rw [hcb] at hr
  obtain ⟨r1, hr1, hnv⟩ := nextValue_dispatch ws hws c (bs ++ rest) (isWs_false_of_num c hc) r
    (by simpa using hr) fuel (by omega)
  obtain ⟨r2, hw, hr2⟩ := readNumber_printNum n hv rest hd r1
    (by rw [hcb]; simpa using hr1.ready) (fuel + 1) (by omega)
  refine ⟨r2, ?_, hr2.ready⟩
  rw [hnv, dispatch_num fuel c hc, PM.bind_ok hw]
  rfl

/-! ### White space and punctuation of the three styles -/

theorem utf8_spaces (n : Nat) : ∀ b ∈ utf8 (List.replicate n [' ', ' ']).flatten, isWs b = true := by
  induction n with
  | zero => intro b hb; simp [utf8_nil] at hb
  | succ n ih =>
    intro b hb
    rw [List.replicate_succ, List.flatten_cons, utf8_append] at hb
    rcases List.mem_append.1 hb with h | h
    · have : utf8 [' ', ' '] = [32, 32] := rfl
      rw [this] at h
      simp only [List.mem_cons, List.not_mem_nil, or_false, or_self] at h
      subst h; rfl
    · exact ih b h

theorem indent_ws (o : JsonOpts) (ind : Nat) : ∀ b ∈ utf8 (indentText o ind), isWs b = true := by
  unfold indentText
  cases o.style with
  | pretty =>
    intro b hb
    simp only [utf8_cons] at hb
    rcases List.mem_append.1 hb with h | h
    · have : String.utf8EncodeChar '\n' = [10] := rfl
      rw [this] at h
      simp only [List.mem_cons, List.not_mem_nil, or_false] at h
      subst h; rfl
    · exact utf8_spaces ind b h
  | oneLine => intro b hb; simp [utf8_nil] at hb
  | consise => intro b hb; simp [utf8_nil] at hb

/-- the blank after the comma in the one-line style -/
def commaWs (o : JsonOpts) : List Byte :=
  match o.style with
  | .oneLine => [32]
  | _ => []

/-- the blank after the colon (all styles but `consise`) -/
def colonWs (o : JsonOpts) : List Byte :=
  match o.style with
  | .consise => []
  | _ => [32]

theorem utf8_commaText (o : JsonOpts) : utf8 (commaText o) = 44 :: commaWs o := by
  unfold commaText commaWs; cases o.style <;> rfl

theorem utf8_colonText (o : JsonOpts) : utf8 (colonText o) = 58 :: colonWs o := by
  unfold colonText colonWs; cases o.style <;> rfl

theorem commaWs_ws (o : JsonOpts) : ∀ b ∈ commaWs o, isWs b = true := by
  unfold commaWs; cases o.style <;> simp <;> rfl

theorem colonWs_ws (o : JsonOpts) : ∀ b ∈ colonWs o, isWs b = true := by
  unfold colonWs; cases o.style <;> simp <;> rfl

theorem ws_append {a b : List Byte} (ha : ∀ x ∈ a, isWs x = true) (hb : ∀ x ∈ b, isWs x = true) :
    ∀ x ∈ a ++ b, isWs x = true := by
  intro x hx
  rcases List.mem_append.1 hx with h | h
  · exact ha x h
  · exact hb x h

/-! ### First byte of a printed value -/

/-- a byte that can start a value: not white space, not a closing bracket -/
def HeadOK (c : Byte) : Prop := isWs c = false ∧ c ≠ 93 ∧ c ≠ 125

instance (c : Byte) : Decidable (HeadOK c) := by unfold HeadOK; infer_instance

theorem print_head (o : JsonOpts) (ind : Nat) (v : JV) (hv : Printable o v) :
    ∃ c bs, utf8 (printJsonAt o ind v) = c :: bs ∧ HeadOK c := by
  cases v with
  | null => exact ⟨110, _, rfl, by decide⟩
  | bool b =>
    cases b with
    | false => exact ⟨102, _, rfl, by decide⟩
    | true => exact ⟨116, _, rfl, by decide⟩
  | str s => exact ⟨34, _, by rw [printJsonAt, utf8_printString], by decide⟩
  | num n =>
    obtain ⟨c, bs, h1, h2⟩ := printNum_head n hv
    refine ⟨c, bs, by rw [printJsonAt]; exact h1, isWs_false_of_num c h2, ?_, ?_⟩
    · rcases h2 with rfl | h2
      · decide
      · intro h; subst h; simp [isDigit] at h2
    · rcases h2 with rfl | h2
      · decide
      · intro h; subst h; simp [isDigit] at h2
  | arr vs =>
    cases vs with
    | nil => exact ⟨91, _, rfl, by decide⟩
    | cons v vs => exact ⟨91, _, by rw [printJsonAt]; simp only [List.cons_append, utf8_cons]; rfl, by decide⟩
  | obj kvs =>
    cases kvs with
    | nil => exact ⟨123, _, rfl, by decide⟩
    | cons kv kvs => exact ⟨123, _, by rw [printJsonAt]; simp only [List.cons_append, utf8_cons]; rfl, by decide⟩

/-! ### Arrays -/

/-- `printElems` without the indentation of the first element -/
def elemsTail (o : JsonOpts) (ind : Nat) : List JV → Str
  | [] => []
  | [v] => printJsonAt o ind v
  | v :: w :: vs => printJsonAt o ind v ++ commaText o ++ indentText o ind ++ elemsTail o ind (w :: vs)

theorem printElems_eq (o : JsonOpts) (ind : Nat) :
    ∀ vs, vs ≠ [] → printElems o ind vs = indentText o ind ++ elemsTail o ind vs
  | [], h => absurd rfl h
  | [v], _ => by rw [printElems, elemsTail]
  | v :: w :: vs, _ => by
    rw [printElems, printElems_eq o ind (w :: vs) (by simp), elemsTail]
    simp only [List.append_assoc]

theorem elemsTail_head (o : JsonOpts) (ind : Nat) (v : JV) (vs : List JV) (hv : Printable o v) :
    ∃ c bs, utf8 (elemsTail o ind (v :: vs)) = c :: bs ∧ HeadOK c := by
  obtain ⟨c, bs, h1, h2⟩ := print_head o ind v hv
  cases vs with
  | nil => exact ⟨c, bs, by rw [elemsTail]; exact h1, h2⟩
  | cons w vs =>
    refine ⟨c, bs ++ utf8 (commaText o ++ indentText o ind ++ elemsTail o ind (w :: vs)), ?_, h2⟩
    rw [elemsTail]
    simp only [utf8_append, h1, List.cons_append, List.append_assoc]

/-- `readArrayLoop` reads the elements `vs` (the indentation of the first one already skipped, possibly
other white space `ws0` pending), up to and including the closing bracket -/
def ElemsSpec (o : JsonOpts) (ind : Nat) (vs : List JV) : Prop :=
  vs ≠ [] → PrintableList o vs →
    ∀ (ws0 : List Byte), (∀ b ∈ ws0, isWs b = true) → ∀ (tailWs : List Byte), (∀ b ∈ tailWs, isWs b = true) →
    ∀ (rest : List Byte) (acc : List JV) (r : Reader),
    Ready r (ws0 ++ (utf8 (elemsTail o ind vs) ++ (tailWs ++ 93 :: rest))) →
    ∀ (fuel : Nat), 2 * (ws0.length + (utf8 (elemsTail o ind vs)).length + tailWs.length) + 3 ≤ fuel →
    ∃ r', readArrayLoop fuel acc r = (.ok (.arr (acc ++ normList vs)), r') ∧ Ready r' rest

theorem punct_numDelim_93 : isDigit 93 = false ∧ (93 : Byte) ≠ 46 ∧ (93 : Byte) ≠ 101 ∧ (93 : Byte) ≠ 69 := by decide
theorem punct_numDelim_125 : isDigit 125 = false ∧ (125 : Byte) ≠ 46 ∧ (125 : Byte) ≠ 101 ∧ (125 : Byte) ≠ 69 := by decide
theorem punct_numDelim_44 : isDigit 44 = false ∧ (44 : Byte) ≠ 46 ∧ (44 : Byte) ≠ 101 ∧ (44 : Byte) ≠ 69 := by decide

theorem spec_elems_cons (o : JsonOpts) (ind : Nat) (v : JV) (vs : List JV)
    (hv : ValueSpec o ind v) (hvs : ElemsSpec o ind vs) : ElemsSpec o ind (v :: vs) := by
  intro _ hp ws0 hws0 tailWs htail rest acc r hr fuel hf
  obtain ⟨fuel, rfl⟩ : ∃ k, fuel = k + 1 := ⟨fuel - 1, by omega⟩
  obtain ⟨hpv, hpvs⟩ := hp
  cases vs with
  | nil =>
    rw [elemsTail] at hr hf
    obtain ⟨r1, h1, hr1⟩ := hv hpv ws0 hws0 (tailWs ++ 93 :: rest)
      (Delim.of_numDelim (numDelim_ws_punct tailWs htail 93 rest punct_numDelim_93)) r hr fuel (by omega)
    obtain ⟨r2, h2, hr2⟩ := eatWhitespace_ready tailWs htail (93 :: rest)
      (by intro b hb; simp at hb; subst hb; rfl) r1 hr1 (fuel + 1) (by omega)
    obtain ⟨x, r3, h3, hr3⟩ := next_at_ready (show At r2 93 rest from hr2)
    refine ⟨r3, ?_, hr3⟩
    rw [readArrayLoop, PM.bind_ok h1]
    simp only []
    rw [PM.bind_ok h2, PM.bind_ok (peek_at hr2)]
    simp only [if_true]
    rw [PM.bind_ok h3]
    simp [normList]
  | cons w vs =>
    rw [elemsTail] at hr hf
    simp only [utf8_append, utf8_commaText, List.append_assoc, List.cons_append, List.length_append,
      List.length_cons] at hr hf
    obtain ⟨r1, h1, hr1⟩ := hv hpv ws0 hws0
      (44 :: (commaWs o ++ (utf8 (indentText o ind) ++ (utf8 (elemsTail o ind (w :: vs)) ++ (tailWs ++ 93 :: rest)))))
      (Delim.of_numDelim (numDelim_cons 44 _ punct_numDelim_44)) r hr fuel (by omega)
    obtain ⟨r2, h2, hr2⟩ := eatWhitespace_ready [] (by simp) _
      (by intro b hb; simp at hb; subst hb; rfl) r1 hr1 (fuel + 1) (by simp)
    obtain ⟨r3, h3, hr3⟩ := next_at (show At r2 44 _ from hr2)
    obtain ⟨r4, h4, hr4⟩ := hvs (by simp) hpvs (commaWs o ++ utf8 (indentText o ind))
      (ws_append (commaWs_ws o) (indent_ws o ind)) tailWs htail rest (acc ++ [norm v]) r3
      (by simpa using hr3.ready) fuel (by simp only [List.length_append]; omega)
    refine ⟨r4, ?_, hr4⟩
    rw [readArrayLoop, PM.bind_ok h1]
    simp only []
    rw [PM.bind_ok h2, PM.bind_ok (peek_at hr2)]
    simp only [show ¬ ((44 : Byte) = 93) by decide, if_false, if_true]
    rw [PM.bind_ok h3, h4]
    simp [normList]

theorem dispatch_arr (fuel : Nat) : dispatch fuel 91 = (do let v ← readArray fuel; pure (some v)) := rfl

theorem spec_arr (o : JsonOpts) (ind : Nat) (vs : List JV) (hvs : ElemsSpec o (ind + 1) vs) :
    ValueSpec o ind (.arr vs) := by
  intro hp ws hws rest _ r hr fuel hf
  obtain ⟨fuel, rfl⟩ : ∃ k, fuel = k + 1 := ⟨fuel - 1, by omega⟩
  cases vs with
  | nil =>
    have htext : utf8 (printJsonAt o ind (.arr [])) = [91, 93] := rfl
    rw [htext] at hr hf
    obtain ⟨fuel, rfl⟩ : ∃ k, fuel = k + 1 := ⟨fuel - 1, by simp at hf; omega⟩
    obtain ⟨r1, hr1, hnv⟩ := nextValue_dispatch ws hws 91 (93 :: rest) rfl r (by simpa using hr)
      (fuel + 1) (by omega)
    obtain ⟨r2, h2, hr2⟩ := next_at hr1
    obtain ⟨r3, h3, hr3⟩ := eatWhitespace_ready [] (by simp) (93 :: rest)
      (by intro b hb; simp at hb; subst hb; rfl) r2 hr2.ready (fuel + 1) (by simp)
    obtain ⟨x, r4, h4, hr4⟩ := next_at_ready (show At r3 93 rest from hr3)
    refine ⟨r4, ?_, hr4⟩
    rw [hnv, dispatch_arr, readArray, PM.bind_ok]
    rotate_left
    · rw [PM.bind_ok h2, PM.bind_ok h3, PM.bind_ok (peek_at hr3)]
      simp only [if_true]
      rw [PM.bind_ok h4]
      rfl
    · rfl
  | cons v vs =>
    have htext : utf8 (printJsonAt o ind (.arr (v :: vs))) =
        91 :: (utf8 (indentText o (ind + 1)) ++ (utf8 (elemsTail o (ind + 1) (v :: vs)) ++
          (utf8 (indentText o ind) ++ [93]))) := by
      rw [printJsonAt, printElems_eq o (ind + 1) (v :: vs) (by simp)]
      simp only [List.cons_append, utf8_cons, utf8_append, List.append_assoc]
      rfl
    rw [htext] at hr hf
    simp only [List.length_cons, List.length_append, List.length_nil] at hf
    obtain ⟨fuel, rfl⟩ : ∃ k, fuel = k + 1 := ⟨fuel - 1, by omega⟩
    obtain ⟨r1, hr1, hnv⟩ := nextValue_dispatch ws hws 91 _ rfl r (by simpa using hr)
      (fuel + 1) (by omega)
    obtain ⟨r2, h2, hr2⟩ := next_at hr1
    obtain ⟨c, bs, hc1, hc2⟩ := elemsTail_head o (ind + 1) v vs hp.1
    have hr2' : Ready r2 (utf8 (indentText o (ind + 1)) ++ (c :: (bs ++ (utf8 (indentText o ind) ++ 93 :: rest)))) := by
      have := hr2.ready
      rw [hc1] at this
      simpa using this
    obtain ⟨r3, h3, hr3⟩ := eatWhitespace_ready _ (indent_ws o (ind + 1)) _
      (by intro b hb; simp at hb; subst hb; exact hc2.1) r2 hr2' (fuel + 1) (by omega)
    obtain ⟨r4, h4, hr4⟩ := hvs (by simp) hp [] (by simp) (utf8 (indentText o ind)) (indent_ws o ind)
      rest [] r3 (by rw [hc1]; simpa using hr3.ready) fuel (by simp; omega)
    refine ⟨r4, ?_, hr4⟩
    rw [hnv, dispatch_arr, readArray, PM.bind_ok]
    rotate_left
    · rw [PM.bind_ok h2, PM.bind_ok h3, PM.bind_ok (peek_at hr3)]
      simp only [Option.some.injEq, hc2.2.1, if_false]
      exact h4
    · simp [norm]

/-! ### Objects -/

/-- `printMembers` without the indentation of the first member -/
def membersTail (o : JsonOpts) (ind : Nat) : List (Str × JV) → Str
  | [] => []
  | [(k, v)] => printString o k ++ colonText o ++ printJsonAt o ind v
  | (k, v) :: kv :: kvs =>
    printString o k ++ colonText o ++ printJsonAt o ind v ++ commaText o ++ indentText o ind
      ++ membersTail o ind (kv :: kvs)

theorem printMembers_eq (o : JsonOpts) (ind : Nat) :
    ∀ kvs, kvs ≠ [] → printMembers o ind kvs = indentText o ind ++ membersTail o ind kvs
  | [], h => absurd rfl h
  | [(k, v)], _ => by rw [printMembers, membersTail]; simp only [List.append_assoc]
  | (k, v) :: kv :: kvs, _ => by
    rw [printMembers, printMembers_eq o ind (kv :: kvs) (by simp), membersTail]
    simp only [List.append_assoc]

theorem membersTail_head (o : JsonOpts) (ind : Nat) (kv : Str × JV) (kvs : List (Str × JV)) :
    ∃ bs, utf8 (membersTail o ind (kv :: kvs)) = 34 :: bs := by
  obtain ⟨k, v⟩ := kv
  cases kvs with
  | nil =>
    rw [membersTail]
    simp only [utf8_append, utf8_printString, List.cons_append]
    exact ⟨_, rfl⟩
  | cons kv' kvs =>
    rw [membersTail]
    simp only [utf8_append, utf8_printString, List.cons_append]
    exact ⟨_, rfl⟩

/-- `IndexMap::insert` of a list of members, in order -/
def insertAll (acc l : List (Str × JV)) : List (Str × JV) :=
  l.foldl (fun a kv => objInsert a kv.1 kv.2) acc

theorem objInsert_fresh (acc : List (Str × JV)) (k : Str) (v : JV) (h : k ∉ acc.map (·.1)) :
    objInsert acc k v = acc ++ [(k, v)] := by
  induction acc with
  | nil => rfl
  | cons kv acc ih =>
    obtain ⟨k', v'⟩ := kv
    simp only [List.map_cons, List.mem_cons, not_or] at h
    have hne : ¬ (k' = k) := fun e => h.1 e.symm
    simp only [objInsert, hne, if_false, ih h.2, List.cons_append]

/-- inserting members with pairwise distinct fresh names appends them -/
theorem insertAll_nodup (acc l : List (Str × JV)) (h : ((acc ++ l).map (·.1)).Nodup) :
    insertAll acc l = acc ++ l := by
  induction l generalizing acc with
  | nil => simp [insertAll]
  | cons kv l ih =>
    have hfresh : kv.1 ∉ acc.map (·.1) := by
      intro hmem
      rw [List.map_append, List.map_cons] at h
      have := (List.nodup_append.1 h).2.2 _ hmem _ (List.mem_cons_self)
      exact this rfl
    have : insertAll acc (kv :: l) = insertAll (acc ++ [kv]) l := by
      simp only [insertAll, List.foldl_cons, objInsert_fresh acc kv.1 kv.2 hfresh]
    rw [this, ih (acc ++ [kv]) (by simpa using h)]
    simp

theorem normMembers_keys (kvs : List (Str × JV)) : (normMembers kvs).map (·.1) = kvs.map (·.1) := by
  induction kvs with
  | nil => simp [normMembers]
  | cons kv kvs ih =>
    obtain ⟨k, v⟩ := kv
    simp [normMembers, ih]

/-- `readObjectLoop` reads the members `kvs` (indentation of the first one already skipped), up to and
including the closing brace, inserting them into `acc` -/
def MembersSpec (o : JsonOpts) (ind : Nat) (kvs : List (Str × JV)) : Prop :=
  kvs ≠ [] → PrintableMembers o kvs →
    ∀ (ws0 : List Byte), (∀ b ∈ ws0, isWs b = true) → ∀ (tailWs : List Byte), (∀ b ∈ tailWs, isWs b = true) →
    ∀ (rest : List Byte) (acc : List (Str × JV)) (r : Reader),
    Ready r (ws0 ++ (utf8 (membersTail o ind kvs) ++ (tailWs ++ 125 :: rest))) →
    ∀ (fuel : Nat), 2 * (ws0.length + (utf8 (membersTail o ind kvs)).length + tailWs.length) + 3 ≤ fuel →
    ∃ r', readObjectLoop fuel acc r = (.ok (.obj (insertAll acc (normMembers kvs))), r') ∧ Ready r' rest

theorem norm_str (k : Str) : norm (.str k) = .str k := by rw [norm]

theorem spec_members_cons (o : JsonOpts) (ind : Nat) (k : Str) (v : JV) (kvs : List (Str × JV))
    (hv : ValueSpec o ind v) (hkvs : MembersSpec o ind kvs) : MembersSpec o ind ((k, v) :: kvs) := by
  intro _ hp ws0 hws0 tailWs htail rest acc r hr fuel hf
  obtain ⟨fuel, rfl⟩ : ∃ k, fuel = k + 1 := ⟨fuel - 1, by omega⟩
  obtain ⟨hpk, hpv, hpkvs⟩ := hp
  have hkey := spec_str o ind k hpk ws0 hws0
  rw [norm_str] at hkey
  have hks : printJsonAt o ind (.str k) = printString o k := by rw [printJsonAt]
  rw [hks] at hkey
  cases kvs with
  | nil =>
    rw [membersTail] at hr hf
    simp only [utf8_append, utf8_colonText, List.append_assoc, List.cons_append, List.length_append,
      List.length_cons] at hr hf
    obtain ⟨r1, h1, hr1⟩ := hkey _ True.intro r hr fuel (by omega)
    obtain ⟨r2, h2, hr2⟩ := eatWhitespace_ready [] (by simp) _
      (by intro b hb; simp at hb; subst hb; rfl) r1 hr1 (fuel + 1) (by simp)
    obtain ⟨r3, h3, hr3⟩ := next_at (show At r2 58 _ from hr2)
    obtain ⟨r4, h4, hr4⟩ := hv hpv (colonWs o) (colonWs_ws o) (tailWs ++ 125 :: rest)
      (Delim.of_numDelim (numDelim_ws_punct tailWs htail 125 rest punct_numDelim_125)) r3 hr3.ready
      fuel (by omega)
    obtain ⟨r5, h5, hr5⟩ := eatWhitespace_ready tailWs htail (125 :: rest)
      (by intro b hb; simp at hb; subst hb; rfl) r4 hr4 (fuel + 1) (by omega)
    obtain ⟨x, r6, h6, hr6⟩ := next_at_ready (show At r5 125 rest from hr5)
    refine ⟨r6, ?_, hr6⟩
    rw [readObjectLoop, PM.bind_ok h1]
    simp only []
    rw [PM.bind_ok h2, PM.bind_ok (peek_at hr2)]
    simp only [ne_eq, not_true_eq_false, if_false]
    rw [PM.bind_ok h3, PM.bind_ok h4]
    simp only []
    rw [PM.bind_ok h5, PM.bind_ok (peek_at hr5)]
    simp only [if_true]
    rw [PM.bind_ok h6]
    simp [normMembers, insertAll]
  | cons kv kvs =>
    rw [membersTail] at hr hf
    simp only [utf8_append, utf8_colonText, utf8_commaText, List.append_assoc, List.cons_append,
      List.length_append, List.length_cons] at hr hf
    obtain ⟨r1, h1, hr1⟩ := hkey _ True.intro r hr fuel (by omega)
    obtain ⟨r2, h2, hr2⟩ := eatWhitespace_ready [] (by simp) _
      (by intro b hb; simp at hb; subst hb; rfl) r1 hr1 (fuel + 1) (by simp)
    obtain ⟨r3, h3, hr3⟩ := next_at (show At r2 58 _ from hr2)
    obtain ⟨r4, h4, hr4⟩ := hv hpv (colonWs o) (colonWs_ws o)
      (44 :: (commaWs o ++ (utf8 (indentText o ind) ++ (utf8 (membersTail o ind (kv :: kvs)) ++ (tailWs ++ 125 :: rest)))))
      (Delim.of_numDelim (numDelim_cons 44 _ punct_numDelim_44)) r3 hr3.ready fuel (by omega)
    obtain ⟨r5, h5, hr5⟩ := eatWhitespace_ready [] (by simp) _
      (by intro b hb; simp at hb; subst hb; rfl) r4 hr4 (fuel + 1) (by simp)
    obtain ⟨r6, h6, hr6⟩ := next_at (show At r5 44 _ from hr5)
    obtain ⟨r7, h7, hr7⟩ := hkvs (by simp) hpkvs (commaWs o ++ utf8 (indentText o ind))
      (ws_append (commaWs_ws o) (indent_ws o ind)) tailWs htail rest (objInsert acc k (norm v)) r6
      (by simpa using hr6.ready) fuel (by simp only [List.length_append]; omega)
    refine ⟨r7, ?_, hr7⟩
    rw [readObjectLoop, PM.bind_ok h1]
    simp only []
    rw [PM.bind_ok h2, PM.bind_ok (peek_at hr2)]
    simp only [ne_eq, not_true_eq_false, if_false]
    rw [PM.bind_ok h3, PM.bind_ok h4]
    simp only []
    rw [PM.bind_ok h5, PM.bind_ok (peek_at hr5)]
    simp only [show ¬ ((44 : Byte) = 125) by decide, if_false, if_true]
    rw [PM.bind_ok h6, h7]
    simp [normMembers, insertAll]

theorem dispatch_obj (fuel : Nat) : dispatch fuel 123 = (do let v ← readObject fuel; pure (some v)) := rfl

theorem spec_obj (o : JsonOpts) (ind : Nat) (kvs : List (Str × JV)) (hkvs : MembersSpec o (ind + 1) kvs) :
    ValueSpec o ind (.obj kvs) := by
  intro hp ws hws rest _ r hr fuel hf
  obtain ⟨fuel, rfl⟩ : ∃ k, fuel = k + 1 := ⟨fuel - 1, by omega⟩
  cases kvs with
  | nil =>
    have htext : utf8 (printJsonAt o ind (.obj [])) = [123, 125] := rfl
    rw [htext] at hr hf
    obtain ⟨fuel, rfl⟩ : ∃ k, fuel = k + 1 := ⟨fuel - 1, by simp at hf; omega⟩
    obtain ⟨r1, hr1, hnv⟩ := nextValue_dispatch ws hws 123 (125 :: rest) rfl r (by simpa using hr)
      (fuel + 1) (by omega)
    obtain ⟨r2, h2, hr2⟩ := next_at hr1
    obtain ⟨r3, h3, hr3⟩ := eatWhitespace_ready [] (by simp) (125 :: rest)
      (by intro b hb; simp at hb; subst hb; rfl) r2 hr2.ready (fuel + 1) (by simp)
    obtain ⟨x, r4, h4, hr4⟩ := next_at_ready (show At r3 125 rest from hr3)
    refine ⟨r4, ?_, hr4⟩
    rw [hnv, dispatch_obj, readObject, PM.bind_ok]
    rotate_left
    · rw [PM.bind_ok h2, PM.bind_ok h3, PM.bind_ok (peek_at hr3)]
      simp only [if_true]
      rw [PM.bind_ok h4]
      rfl
    · rfl
  | cons kv kvs =>
    have htext : utf8 (printJsonAt o ind (.obj (kv :: kvs))) =
        123 :: (utf8 (indentText o (ind + 1)) ++ (utf8 (membersTail o (ind + 1) (kv :: kvs)) ++
          (utf8 (indentText o ind) ++ [125]))) := by
      rw [printJsonAt, printMembers_eq o (ind + 1) (kv :: kvs) (by simp)]
      simp only [List.cons_append, utf8_cons, utf8_append, List.append_assoc]
      rfl
    rw [htext] at hr hf
    simp only [List.length_cons, List.length_append, List.length_nil] at hf
    obtain ⟨fuel, rfl⟩ : ∃ k, fuel = k + 1 := ⟨fuel - 1, by omega⟩
    obtain ⟨r1, hr1, hnv⟩ := nextValue_dispatch ws hws 123 _ rfl r (by simpa using hr)
      (fuel + 1) (by omega)
    obtain ⟨r2, h2, hr2⟩ := next_at hr1
    obtain ⟨bs, hc1⟩ := membersTail_head o (ind + 1) kv kvs
    have hr2' : Ready r2 (utf8 (indentText o (ind + 1)) ++ (34 :: (bs ++ (utf8 (indentText o ind) ++ 125 :: rest)))) := by
      have := hr2.ready
      rw [hc1] at this
      simpa using this
    obtain ⟨r3, h3, hr3⟩ := eatWhitespace_ready _ (indent_ws o (ind + 1)) _
      (by intro b hb; simp at hb; subst hb; rfl) r2 hr2' (fuel + 1) (by omega)
    obtain ⟨r4, h4, hr4⟩ := hkvs (by simp) hp.1 [] (by simp) (utf8 (indentText o ind)) (indent_ws o ind)
      rest [] r3 (by rw [hc1]; simpa using hr3.ready) fuel (by simp; omega)
    refine ⟨r4, ?_, hr4⟩
    have hins : insertAll [] (normMembers (kv :: kvs)) = normMembers (kv :: kvs) := by
      rw [insertAll_nodup [] _ (by simpa [normMembers_keys] using hp.2)]; simp
    rw [hins] at h4
    rw [hnv, dispatch_obj, readObject, PM.bind_ok]
    rotate_left
    · rw [PM.bind_ok h2, PM.bind_ok h3, PM.bind_ok (peek_at hr3)]
      simp only [Option.some.injEq, show ¬ ((34 : Byte) = 125) by decide, if_false]
      exact h4
    · simp [norm]

/-! ### The mutual induction -/

mutual
theorem value_spec (o : JsonOpts) : ∀ (ind : Nat) (v : JV), ValueSpec o ind v
  | ind, .null => spec_null o ind
  | ind, .bool true => spec_true o ind
  | ind, .bool false => spec_false o ind
  | ind, .num n => spec_num o ind n
  | ind, .str s => spec_str o ind s
  | ind, .arr vs => spec_arr o ind vs (elems_spec o (ind + 1) vs)
  | ind, .obj kvs => spec_obj o ind kvs (members_spec o (ind + 1) kvs)
theorem elems_spec (o : JsonOpts) : ∀ (ind : Nat) (vs : List JV), ElemsSpec o ind vs
  | _, [] => fun h => absurd rfl h
  | ind, v :: vs => spec_elems_cons o ind v vs (value_spec o ind v) (elems_spec o ind vs)
theorem members_spec (o : JsonOpts) : ∀ (ind : Nat) (kvs : List (Str × JV)), MembersSpec o ind kvs
  | _, [] => fun h => absurd rfl h
  | ind, (k, v) :: kvs => spec_members_cons o ind k v kvs (value_spec o ind v) (members_spec o ind kvs)
end

/-- the fuel that suffices to read back `v` printed with options `o` -/
def fuelBound (o : JsonOpts) (v : JV) : Nat := 2 * (utf8 (printJson o v)).length + 2

/-- **C01/C02.** The parser reads back exactly what the printer wrote (all three styles, both string
modes): positioned before the printed text of a printable `v` followed by any `rest` that does not
extend a number, `nextValue` returns `norm v` and leaves the reader before `rest`. -/
theorem parse_print_ready (o : JsonOpts) (v : JV) (hv : Printable o v) (rest : List Byte)
    (hd : Delim v rest) (r : Reader) (hr : Ready r (utf8 (printJson o v) ++ rest))
    (fuel : Nat) (hf : fuelBound o v ≤ fuel) :
    ∃ r', nextValue fuel r = (.ok (some (norm v)), r') ∧ Ready r' rest :=
  value_spec o 0 v hv [] (by simp) rest hd r (by simpa [printJson] using hr) fuel
    (by simpa [fuelBound, printJson] using hf)

/-- the same with leading white space (e.g. a row separator) -/
theorem parse_print_ws (o : JsonOpts) (v : JV) (hv : Printable o v) (ws : List Byte)
    (hws : ∀ b ∈ ws, isWs b = true) (rest : List Byte)
    (hd : Delim v rest) (r : Reader) (hr : Ready r (ws ++ (utf8 (printJson o v) ++ rest)))
    (fuel : Nat) (hf : 2 * ws.length + fuelBound o v ≤ fuel) :
    ∃ r', nextValue fuel r = (.ok (some (norm v)), r') ∧ Ready r' rest :=
  value_spec o 0 v hv ws hws rest hd r hr fuel
    (by simp only [fuelBound, printJson] at hf; omega)

/-- **C01/C02** in the form asked for: clean input, reader not at end of input. -/
theorem parse_print (o : JsonOpts) (v : JV) (hv : Printable o v) (rest : List Byte) (hd : Delim v rest)
    (r : Reader) (hr : r.pending = cleanInput (utf8 (printJson o v) ++ rest)) (hclean : r.eof = false)
    (fuel : Nat) (hf : fuelBound o v ≤ fuel) :
    ∃ r', nextValue fuel r = (.ok (some (norm v)), r') ∧ r'.pending = cleanInput rest ∧
      (r'.eof = false ∨ rest = []) := by
  obtain ⟨r', h1, h2⟩ := parse_print_ready o v hv rest hd r (Ready.of_eof_false hr hclean) fuel hf
  refine ⟨r', h1, h2.1, ?_⟩
  cases h : r'.eof with
  | false => exact Or.inl rfl
  | true => exact Or.inr (h2.2 h)

/-! ### M5 (a). Rows separated by white space -/

/-- the bytes of the rows `vs`, each followed by the separator `sep` -/
def rowsText (o : JsonOpts) (sep : List Byte) : List JV → List Byte
  | [] => []
  | v :: vs => utf8 (printJson o v) ++ (sep ++ rowsText o sep vs)

/-- successive `next_json_value` calls yield the values `vs`, ending in reader `r'` -/
inductive Reads : Reader → List JV → Reader → Prop
  | nil (r : Reader) : Reads r [] r
  | cons {r r1 r' : Reader} {v : JV} {vs : List JV} :
      r.nextJson = (.ok (some v), r1) → Reads r1 vs r' → Reads r (v :: vs) r'

theorem ready_length {r : Reader} {bs : List Byte} (h : Ready r bs) : bs.length ≤ r.rest.length + 1 := by
  have := congrArg List.length h.1
  simp only [Reader.pending, cleanInput, List.length_append, List.length_map] at this
  cases hc : r.cur <;> simp [hc] at this <;> omega

/-- the fuel of `Reader.nextJson` covers `fuelBound`: one `nextJson` call reads one printed value -/
theorem nextJson_print (o : JsonOpts) (v : JV) (hv : Printable o v) (ws : List Byte)
    (hws : ∀ b ∈ ws, isWs b = true) (rest : List Byte) (hd : Delim v rest) (r : Reader)
    (hr : Ready r (ws ++ (utf8 (printJson o v) ++ rest))) :
    ∃ r', r.nextJson = (.ok (some (norm v)), r') ∧ Ready r' rest := by
  have hl := ready_length hr
  simp only [List.length_append] at hl
  exact parse_print_ws o v hv ws hws rest hd r hr _ (by simp only [fuelBound]; omega)

/-- at the end of the input (only white space left) `next_json_value` returns `None` -/
theorem nextJson_end (ws : List Byte) (hws : ∀ b ∈ ws, isWs b = true) (r : Reader) (hr : Ready r ws) :
    ∃ r', r.nextJson = (.ok none, r') ∧ Ready r' [] := by
  have hl := ready_length hr
  obtain ⟨r1, h1, hr1⟩ := eatWhitespace_ready ws hws [] (by simp) r (by simpa using hr)
    (4 * r.rest.length + 9 + 1) (by omega)
  refine ⟨r1, ?_, Peeked.ready hr1⟩
  rw [Reader.nextJson, show 4 * r.rest.length + 10 = 4 * r.rest.length + 9 + 1 from rfl, nextValue,
    PM.bind_ok h1, PM.bind_ok (peek_peeked hr1)]
  rfl

theorem rows_framed_aux (o : JsonOpts) (sep : List Byte) (hsep : ∀ b ∈ sep, isWs b = true) (hne : sep ≠ [])
    (vs : List JV) (hvs : ∀ v ∈ vs, Printable o v) (ws : List Byte) (hws : ∀ b ∈ ws, isWs b = true)
    (r : Reader) (hr : Ready r (ws ++ rowsText o sep vs)) :
    ∃ r' r'', Reads r (vs.map norm) r' ∧ r'.nextJson = (.ok none, r'') := by
  induction vs generalizing ws r with
  | nil =>
    obtain ⟨r'', h, _⟩ := nextJson_end ws hws r (by simpa [rowsText] using hr)
    exact ⟨r, r'', Reads.nil r, h⟩
  | cons v vs ih =>
    have hd : Delim v (sep ++ rowsText o sep vs) := by
      apply Delim.of_numDelim
      cases sep with
      | nil => exact absurd rfl hne
      | cons s sep => exact numDelim_cons s _ (isWs_numDelim (hsep s (by simp)))
    obtain ⟨r1, h1, hr1⟩ := nextJson_print o v (hvs v (by simp)) ws hws _ hd r hr
    obtain ⟨r', r'', h2, h3⟩ := ih (fun w hw => hvs w (by simp [hw])) sep hsep r1 hr1
    exact ⟨r', r'', Reads.cons h1 h2, h3⟩

/-- **rows_framed.** Rows printed in any style, each followed by a non-empty white-space separator
(e.g. `"\n"`, `"\r\n"`): successive `Reader.nextJson` calls (with the fuel `nextJson` itself uses)
return the normal forms of the values in order, and then `none`. -/
theorem rows_framed (o : JsonOpts) (sep : List Byte) (hsep : ∀ b ∈ sep, isWs b = true) (hne : sep ≠ [])
    (vs : List JV) (hvs : ∀ v ∈ vs, Printable o v) (name : Option Str) :
    ∃ r' r'', Reads (Reader.ofBytes (rowsText o sep vs) name) (vs.map norm) r' ∧
      r'.nextJson = (.ok none, r'') :=
  rows_framed_aux o sep hsep hne vs hvs [] (by simp) _ (by simpa using ready_ofBytes _ name)

/-! ### M5 (b). The three styles differ in white space outside strings only -/

def isWsChar (c : Char) : Bool := c = ' ' || c = '\n' || c = '\t' || c = '\r'

/-- remove the white space outside string literals (the flag says whether we are inside one;
inside, a backslash protects the next character) -/
def stripWs : Bool → Str → Str
  | _, [] => []
  | false, c :: cs =>
    if c = '"' then c :: stripWs true cs
    else if isWsChar c then stripWs false cs
    else c :: stripWs false cs
  | true, [c] => [c]
  | true, c :: d :: ds =>
    if c = '\\' then c :: d :: stripWs true ds
    else if c = '"' then c :: stripWs false (d :: ds)
    else c :: stripWs true (d :: ds)

/-- a character that is kept outside strings and does not open one -/
def Plain (c : Char) : Prop := c ≠ '"' ∧ isWsChar c = false

instance (c : Char) : Decidable (Plain c) := by unfold Plain; infer_instance

/-- a character that is kept inside strings and neither closes it nor escapes -/
def InStr (c : Char) : Prop := c ≠ '"' ∧ c ≠ '\\'

theorem strip_plain (t : Str) (h : ∀ c ∈ t, Plain c) (rest : Str) :
    stripWs false (t ++ rest) = t ++ stripWs false rest := by
  induction t with
  | nil => rfl
  | cons c t ih =>
    have hc := h c (by simp)
    simp only [List.cons_append, stripWs, hc.1, hc.2, if_false, Bool.false_eq_true]
    rw [ih (fun d hd => h d (by simp [hd]))]

theorem strip_ws (t : Str) (h : ∀ c ∈ t, isWsChar c = true) (rest : Str) :
    stripWs false (t ++ rest) = stripWs false rest := by
  induction t with
  | nil => rfl
  | cons c t ih =>
    have hc := h c (by simp)
    have hq : c ≠ '"' := by intro e; subst e; simp [isWsChar] at hc
    simp only [List.cons_append, stripWs, hq, hc, if_false, if_true]
    exact ih (fun d hd => h d (by simp [hd]))

theorem strip_instr (t : Str) (h : ∀ c ∈ t, InStr c) (q : Char) (rest : Str) :
    stripWs true (t ++ q :: rest) = t ++ stripWs true (q :: rest) := by
  induction t with
  | nil => rfl
  | cons c t ih =>
    have hc := h c (by simp)
    have ih' := ih (fun d hd => h d (by simp [hd]))
    cases hl : t ++ q :: rest with
    | nil => simp at hl
    | cons d ds =>
      rw [hl] at ih'
      simp only [List.cons_append, hl, stripWs, hc.1, hc.2, if_false]
      rw [ih']

theorem strip_esc (e : Char) (rest : Str) :
    stripWs true ('\\' :: e :: rest) = '\\' :: e :: stripWs true rest := by
  simp [stripWs]

theorem strip_quote (rest : Str) : stripWs true ('"' :: rest) = '"' :: stripWs false rest := by
  cases rest with
  | nil => simp [stripWs]
  | cons d ds => simp [stripWs]

/-- the digits of `Nat.toDigits` are `digitChar`s below the base -/
theorem mem_toDigits (b : Nat) (hb : 1 < b) (n : Nat) :
    ∀ c ∈ Nat.toDigits b n, ∃ d, d < b ∧ c = Nat.digitChar d := by
  induction n using Nat.strongRecOn with
  | _ n ih =>
    intro c hc
    rw [Nat.toDigits_eq_if hb] at hc
    split at hc
    · rename_i h
      simp only [List.mem_cons, List.not_mem_nil, or_false] at hc
      exact ⟨n, h, hc⟩
    · rename_i h
      rcases List.mem_append.1 hc with h1 | h1
      · exact ih (n / b) (Nat.div_lt_self (by omega) hb) c h1
      · simp only [List.mem_cons, List.not_mem_nil, or_false] at h1
        exact ⟨n % b, Nat.mod_lt _ (by omega), h1⟩

theorem digitChar_instr : ∀ d, d < 16 → InStr (Nat.digitChar d) := by
  unfold InStr; decide

theorem hex4_instr (n : Nat) : ∀ c ∈ hex4 n, InStr c := by
  intro c hc
  unfold hex4 at hc
  rcases List.mem_append.1 hc with h | h
  · have := (List.mem_replicate.1 h).2
    subst this; exact ⟨by decide, by decide⟩
  · obtain ⟨d, hd, rfl⟩ := mem_toDigits 16 (by decide) n c h
    exact digitChar_instr d hd

theorem strip_printChar (o : JsonOpts) (c : Char) (q : Char) (rest : Str) :
    stripWs true (printChar o c ++ q :: rest) = printChar o c ++ stripWs true (q :: rest) := by
  unfold printChar
  cases hpe : printEscape c with
  | some e => simp only [List.cons_append, List.nil_append, strip_esc]
  | none =>
    simp only []
    split
    · have hne := printEscape_none c hpe
      exact strip_instr [c] (by intro d hd; simp at hd; subst hd; exact hne) q rest
    · simp only [List.cons_append, strip_esc]
      rw [strip_instr _ (hex4_instr c.toNat)]

theorem strip_strBody (o : JsonOpts) (s : Str) (rest : Str) :
    stripWs true (s.flatMap (printChar o) ++ '"' :: rest) =
      s.flatMap (printChar o) ++ '"' :: stripWs false rest := by
  induction s with
  | nil => simp [strip_quote]
  | cons c s ih =>
    simp only [List.flatMap_cons, List.append_assoc]
    cases hl : s.flatMap (printChar o) ++ '"' :: rest with
    | nil => simp at hl
    | cons q rest' =>
      rw [strip_printChar, ← hl, ih]

theorem strip_printString (o : JsonOpts) (s : Str) (rest : Str) :
    stripWs false (printString o s ++ rest) = printString o s ++ stripWs false rest := by
  simp only [printString, List.cons_append, List.append_assoc, stripWs, if_true]
  simp only [List.nil_append]
  rw [strip_strBody]

/-! #### numbers contain neither white space nor quotes -/

def NumCh (c : Char) : Prop := c.isDigit = true ∨ c = '.' ∨ c = '-'

theorem NumCh.plain {c : Char} (h : NumCh c) : Plain c := by
  rcases h with h | rfl | rfl
  · have := isDigit_lt c h
    constructor
    · intro e; subst e; simp at this
    · simp only [isWsChar, Bool.or_eq_false_iff, decide_eq_false_iff_not]
      refine ⟨⟨⟨?_, ?_⟩, ?_⟩, ?_⟩ <;> (intro e; subst e; simp at this)
  · exact ⟨by decide, by decide⟩
  · exact ⟨by decide, by decide⟩

theorem toDigits_numCh (n : Nat) : ∀ c ∈ Nat.toDigits 10 n, NumCh c :=
  fun c hc => Or.inl (toDigits_isDigit n c hc)

theorem render_numCh (s : Bool) (d : Nat) (p : Int) : ∀ c ∈ F64.render s d p, NumCh c := by
  intro c hc
  unfold F64.render at hc
  have hz : NumCh '0' := Or.inl (by decide)
  have hbody : ∀ (digits : Nat) (p : Int), ∀ c ∈ (
      if digits = 0 then ['0']
      else if 0 ≤ p then Nat.toDigits 10 digits ++ List.replicate p.toNat '0'
      else
        if (Nat.toDigits 10 digits).length > (-p).toNat then
          (Nat.toDigits 10 digits).take ((Nat.toDigits 10 digits).length - (-p).toNat) ++ ['.'] ++
            (Nat.toDigits 10 digits).drop ((Nat.toDigits 10 digits).length - (-p).toNat)
        else ['0', '.'] ++ List.replicate ((-p).toNat - (Nat.toDigits 10 digits).length) '0' ++
          Nat.toDigits 10 digits : List Char), NumCh c := by
    intro digits p c hc
    split at hc
    · simp at hc; subst hc; exact hz
    · split at hc
      · rcases List.mem_append.1 hc with h | h
        · exact toDigits_numCh _ c h
        · rw [(List.mem_replicate.1 h).2]; exact hz
      · split at hc
        · simp only [List.append_assoc, List.mem_append, List.mem_cons, List.not_mem_nil, or_false] at hc
          rcases hc with h | rfl | h
          · exact toDigits_numCh _ c (List.mem_of_mem_take h)
          · exact Or.inr (Or.inl rfl)
          · exact toDigits_numCh _ c (List.mem_of_mem_drop h)
        · simp only [List.append_assoc, List.mem_append, List.mem_cons, List.not_mem_nil, or_false] at hc
          rcases hc with (rfl | rfl) | h | h
          · exact hz
          · exact Or.inr (Or.inl rfl)
          · rw [(List.mem_replicate.1 h).2]; exact hz
          · exact toDigits_numCh _ c h
  simp only [] at hc
  split at hc
  · simp only [List.mem_cons] at hc
    rcases hc with rfl | h
    · exact Or.inr (Or.inr rfl)
    · exact hbody _ _ c h
  · exact hbody _ _ c hc

theorem toDisplay_plain (f : F64) : ∀ c ∈ F64.toDisplay f, Plain c := by
  intro c hc
  unfold F64.toDisplay F64.toDisplay? at hc
  have hlit : ∀ (l : Str), (∀ x ∈ l, x ≠ '"' ∧ isWsChar x = false) → c ∈ l → Plain c := fun l h hc => h c hc
  cases f with
  | nan => exact hlit _ (by decide) hc
  | inf s => cases s <;> exact hlit _ (by decide) hc
  | fin s m e =>
    simp only [] at hc
    split at hc
    · exact (render_numCh _ _ _ c hc).plain
    · exact hlit _ (by decide) hc

theorem printNum_plain (n : Num) : ∀ c ∈ printNum n, Plain c := by
  intro c hc
  cases n with
  | pos n => exact (toDigits_numCh n c hc).plain
  | flt f => exact toDisplay_plain f c hc
  | neg i =>
    simp only [printNum] at hc
    split at hc
    · simp only [List.mem_cons] at hc
      rcases hc with rfl | h
      · exact ⟨by decide, by decide⟩
      · exact (toDigits_numCh _ c h).plain
    · exact (toDigits_numCh _ c hc).plain

/-- the same options with the `consise` style -/
def consiseOf (o : JsonOpts) : JsonOpts := { o with style := .consise }

theorem indent_wsChar (o : JsonOpts) (ind : Nat) : ∀ c ∈ indentText o ind, isWsChar c = true := by
  unfold indentText
  cases o.style with
  | pretty =>
    intro c hc
    simp only [List.mem_cons, List.mem_flatten, List.mem_replicate] at hc
    rcases hc with rfl | ⟨l, ⟨_, rfl⟩, hc⟩
    · rfl
    · simp only [List.mem_cons, List.not_mem_nil, or_false, or_self] at hc
      subst hc; rfl
  | oneLine => intro c hc; simp at hc
  | consise => intro c hc; simp at hc

theorem strip_indent (o : JsonOpts) (ind : Nat) (rest : Str) :
    stripWs false (indentText o ind ++ rest) = stripWs false rest :=
  strip_ws _ (indent_wsChar o ind) rest

theorem strip_comma (o : JsonOpts) (rest : Str) :
    stripWs false (commaText o ++ rest) = ',' :: stripWs false rest := by
  unfold commaText
  cases o.style <;> simp [stripWs, isWsChar]

theorem strip_colon (o : JsonOpts) (rest : Str) :
    stripWs false (colonText o ++ rest) = ':' :: stripWs false rest := by
  unfold colonText
  cases o.style <;> simp [stripWs, isWsChar]

theorem strip_punct (c : Char) (hc : Plain c) (rest : Str) :
    stripWs false (c :: rest) = c :: stripWs false rest :=
  strip_plain [c] (by intro d hd; simp at hd; subst hd; exact hc) rest

def StripSpec (o : JsonOpts) (ind : Nat) (v : JV) : Prop :=
  ∀ rest, stripWs false (printJsonAt o ind v ++ rest) = printJsonAt (consiseOf o) ind v ++ stripWs false rest

def ElemsStrip (o : JsonOpts) (ind : Nat) (vs : List JV) : Prop :=
  ∀ rest, stripWs false (printElems o ind vs ++ rest) = printElems (consiseOf o) ind vs ++ stripWs false rest

def MembersStrip (o : JsonOpts) (ind : Nat) (kvs : List (Str × JV)) : Prop :=
  ∀ rest, stripWs false (printMembers o ind kvs ++ rest) =
    printMembers (consiseOf o) ind kvs ++ stripWs false rest

theorem printString_consise (o : JsonOpts) (s : Str) : printString (consiseOf o) s = printString o s := rfl

theorem strip_spec_plain (o : JsonOpts) (ind : Nat) (v : JV) (t : Str) (h1 : printJsonAt o ind v = t)
    (h2 : printJsonAt (consiseOf o) ind v = t) (ht : ∀ c ∈ t, Plain c) : StripSpec o ind v := by
  intro rest
  rw [h1, h2, strip_plain t ht]

theorem strip_spec_arr (o : JsonOpts) (ind : Nat) (vs : List JV) (h : ElemsStrip o (ind + 1) vs) :
    StripSpec o ind (.arr vs) := by
  cases vs with
  | nil => exact strip_spec_plain o ind _ ['[', ']'] rfl rfl (by decide)
  | cons v vs =>
    intro rest
    rw [printJsonAt, printJsonAt]
    simp only [List.cons_append, List.append_assoc]
    rw [strip_punct '[' (by decide), h, strip_indent, strip_punct ']' (by decide)]
    rfl

theorem strip_spec_obj (o : JsonOpts) (ind : Nat) (kvs : List (Str × JV)) (h : MembersStrip o (ind + 1) kvs) :
    StripSpec o ind (.obj kvs) := by
  cases kvs with
  | nil => exact strip_spec_plain o ind _ ['{', '}'] rfl rfl (by decide)
  | cons kv kvs =>
    intro rest
    rw [printJsonAt, printJsonAt]
    simp only [List.cons_append, List.append_assoc]
    rw [strip_punct '{' (by decide), h, strip_indent, strip_punct '}' (by decide)]
    rfl

theorem strip_elems_cons (o : JsonOpts) (ind : Nat) (v : JV) (vs : List JV)
    (hv : StripSpec o ind v) (hvs : ElemsStrip o ind vs) : ElemsStrip o ind (v :: vs) := by
  intro rest
  cases vs with
  | nil =>
    rw [printElems, printElems]
    simp only [List.append_assoc]
    rw [strip_indent, hv]
    rfl
  | cons w vs =>
    rw [printElems, printElems]
    simp only [List.append_assoc]
    rw [strip_indent, hv, strip_comma, hvs]
    rfl

theorem strip_members_cons (o : JsonOpts) (ind : Nat) (k : Str) (v : JV) (kvs : List (Str × JV))
    (hv : StripSpec o ind v) (hkvs : MembersStrip o ind kvs) : MembersStrip o ind ((k, v) :: kvs) := by
  intro rest
  cases kvs with
  | nil =>
    rw [printMembers, printMembers]
    simp only [List.append_assoc]
    rw [strip_indent, strip_printString, strip_colon, hv]
    rfl
  | cons kv kvs =>
    rw [printMembers, printMembers]
    simp only [List.append_assoc]
    rw [strip_indent, strip_printString, strip_colon, hv, strip_comma, hkvs]
    rfl

mutual
theorem strip_value (o : JsonOpts) : ∀ (ind : Nat) (v : JV), StripSpec o ind v
  | ind, .null => strip_spec_plain o ind _ "null".toList rfl rfl (by decide)
  | ind, .bool true => strip_spec_plain o ind _ "true".toList rfl rfl (by decide)
  | ind, .bool false => strip_spec_plain o ind _ "false".toList rfl rfl (by decide)
  | ind, .num n => strip_spec_plain o ind _ (printNum n) (by rw [printJsonAt]) (by rw [printJsonAt])
      (printNum_plain n)
  | ind, .str s => fun rest => by
      rw [printJsonAt, printJsonAt, printString_consise, strip_printString]
  | ind, .arr vs => strip_spec_arr o ind vs (strip_elems o (ind + 1) vs)
  | ind, .obj kvs => strip_spec_obj o ind kvs (strip_members o (ind + 1) kvs)
theorem strip_elems (o : JsonOpts) : ∀ (ind : Nat) (vs : List JV), ElemsStrip o ind vs
  | _, [] => fun _ => rfl
  | ind, v :: vs => strip_elems_cons o ind v vs (strip_value o ind v) (strip_elems o ind vs)
theorem strip_members (o : JsonOpts) : ∀ (ind : Nat) (kvs : List (Str × JV)), MembersStrip o ind kvs
  | _, [] => fun _ => rfl
  | ind, (k, v) :: kvs => strip_members_cons o ind k v kvs (strip_value o ind v) (strip_members o ind kvs)
end

/-- **styles_differ_in_ws_only.** For every value (no hypothesis), every style and string mode:
removing the white space outside string literals from the printed text gives the `consise` text. -/
theorem styles_differ_in_ws_only (o : JsonOpts) (v : JV) :
    stripWs false (printJson o v) = printJson { o with style := .consise } v := by
  have := strip_value o 0 v []
  simpa [printJson, consiseOf, stripWs] using this

end Jawk.RT
namespace Jawk.RT
open Jawk Reader

/-! ### The hypotheses are satisfiable; an end-to-end instance -/

/-- a nested value with every kind of member -/
def sample : JV :=
  .obj [("a".toList, .arr [.num (.pos 1), .num (.neg (-5)), .num (.flt (.fin false (3 * 2 ^ 51) (-52))),
                           .str ['x', '\n', '"', 'é'], .arr [], .null]),
        ("b".toList, .obj []), ("c".toList, .bool true)]

theorem sample_printable (o : JsonOpts) : Printable o sample := by
  have hf : FloatRT (.fin false (3 * 2 ^ 51) (-52)) := by
    refine ⟨⟨false, ['1'], some ['5'], ?_, ?_, ?_, ?_, ?_⟩, ?_, ?_, ?_⟩
    · decide +kernel
    · decide
    · decide
    · intro d hd; cases hd; decide
    · intro h; cases h
    · decide +kernel
    · rfl
    · decide +kernel
  have hs : ∀ s : Str, (∀ c ∈ s, c.toNat ≤ 0xFFFF) → StrOK o s := fun s h c hc => Or.inl (h c hc)
  refine ⟨⟨hs _ (by decide), ⟨?_, ?_, hf, hs _ (by decide), True.intro, True.intro, True.intro⟩,
    hs _ (by decide), ⟨True.intro, by decide⟩, hs _ (by decide), True.intro, True.intro⟩, by decide⟩
  · show (1 : Nat) < 2 ^ 64; decide
  · show -(2 ^ 63 : Int) ≤ -5 ∧ (-5 : Int) < 2 ^ 64; decide

theorem sample_norm : norm sample = sample := by
  simp [sample, norm, normList, normMembers, normNum]

/-- the sample, pretty-printed, is read back from a fresh reader -/
example : ∃ r', nextValue (fuelBound { style := .pretty } sample)
      (Reader.ofBytes (utf8 (printJson { style := .pretty } sample))) = (.ok (some sample), r') ∧
      Ready r' [] := by
  have := parse_print_ready { style := .pretty } sample (sample_printable _) [] True.intro
    (Reader.ofBytes (utf8 (printJson { style := .pretty } sample)))
    (by simpa using ready_ofBytes _ none) _ (Nat.le_refl _)
  rwa [sample_norm] at this

end Jawk.RT

/-
Why the hypotheses of `Printable` are needed (`#eval` on the model, `parseJsonStr (printJson {} v)`):
* `v = .str [Char.ofNat 0x1F603]` without `utf8Strings`: printed `"\u1f603"` (five hex digits), read back
  as the TWO characters U+1F60 and `'3'` — no error, a different string (hence `StrOK`);
  with `utf8Strings := true` it is read back correctly.
* `v = .num (.neg 0)` / `.num (.neg 5)`: printed `0` / `5`, read back as `pos 0` / `pos 5` (hence `norm`).
* `v = .num (.flt 4503599627370496.0)`, `.num (.flt 0.0)`: printed `4503599627370496`, `0`, read back as `pos …`;
  `.num (.flt (-0.0))`: printed `-0`, read back as `neg 0` (all excluded by `FloatRT.stays`:
  `From<f64>` never builds these).
* `v = .obj [("a", null), ("a", true)]`: read back as `{"a": true}` (hence `Nodup`).

#print axioms Jawk.RT.parse_print              -- [propext, Classical.choice, Quot.sound]
#print axioms Jawk.RT.parse_print_ready
#print axioms Jawk.RT.parse_print_ws
#print axioms Jawk.RT.rows_framed
#print axioms Jawk.RT.styles_differ_in_ws_only
-/
