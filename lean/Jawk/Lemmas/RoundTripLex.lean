/-
  Round trip printer → parser, lexical part: reader primitives phrased on `pending`,
  white space, digit runs, reserved words, integers, floats (under `FloatRT`), strings.
-/
import Jawk.Lemmas.PM
import Jawk.Model.Parser
import Jawk.Model.Print
namespace Jawk.RT
open Jawk Reader

/-! ### M1. Reader states -/

/-- The reader stands before the bytes `bs` (with or without a look-ahead byte) and the
input is clean (no I/O error items).  At end of input `bs = []`. -/
def Ready (r : Reader) (bs : List Byte) : Prop :=
  r.pending = cleanInput bs ∧ (r.eof = true → bs = [])

/-- `b` is the current byte (pulled, not consumed), `bs` is unread. -/
def At (r : Reader) (b : Byte) (bs : List Byte) : Prop :=
  r.cur = some b ∧ r.rest = cleanInput bs ∧ r.eof = false

/-- The state after a `peek`: the first byte (if any) is the current byte. -/
def Peeked (r : Reader) : List Byte → Prop
  | [] => r.cur = none ∧ r.rest = [] ∧ r.eof = true
  | b :: bs => At r b bs

/-- the reader after `next` pulled the byte `b` -/
def stepTo (r : Reader) (b : Byte) (rest : List RItem) : Reader :=
  { r with rest := rest, cur := some b,
           loc := if b = 10 then { r.loc with line := r.loc.line + 1, col := 1 }
                  else { r.loc with col := r.loc.col + 1 },
           pulled := r.pulled + 1 }

theorem PM.bind_ok {α β} {m : PM α} {f : α → PM β} {r r' : Reader} {a : α}
    (h : m r = (.ok a, r')) : (m >>= f) r = f a r' := by
  simp [PM.bind_apply, h]

theorem At.ready {r b bs} (h : At r b bs) : Ready r (b :: bs) := by
  obtain ⟨h1, h2, h3⟩ := h
  simp [Ready, Reader.pending, h1, h2, h3, cleanInput]

theorem Peeked.ready {r bs} (h : Peeked r bs) : Ready r bs := by
  cases bs with
  | nil => obtain ⟨h1, h2, h3⟩ := h; simp [Ready, Reader.pending, h1, h2, cleanInput]
  | cons b bs => exact At.ready h

theorem Ready.of_eof_false {r : Reader} {bs} (h : r.pending = cleanInput bs) (he : r.eof = false) :
    Ready r bs := ⟨h, by simp [he]⟩

theorem ready_ofBytes (bs : List Byte) (name : Option Str) : Ready (Reader.ofBytes bs name) bs := by
  simp [Ready, Reader.ofBytes, Reader.ofItems, Reader.pending]

/-- `peek` on a peeked reader changes nothing -/
theorem peek_peeked {r bs} (h : Peeked r bs) : Reader.peek r = (.ok bs.head?, r) := by
  cases bs with
  | nil => obtain ⟨h1, h2, h3⟩ := h; simp [Reader.peek, Reader.next, h1, h3]
  | cons b bs => obtain ⟨h1, h2, h3⟩ := h; simp [Reader.peek, h1]

theorem peek_at {r b bs} (h : At r b bs) : Reader.peek r = (.ok (some b), r) :=
  peek_peeked (bs := b :: bs) h

theorem peek_ready {r bs} (h : Ready r bs) :
    ∃ r', Reader.peek r = (.ok bs.head?, r') ∧ Peeked r' bs := by
  obtain ⟨hp, he⟩ := h
  cases hc : r.cur with
  | some c =>
    cases bs with
    | nil => simp [Reader.pending, hc, cleanInput] at hp
    | cons b bs =>
      have hne : r.eof = false := by
        cases h : r.eof with
        | false => rfl
        | true => simpa using he h
      simp only [Reader.pending, hc, cleanInput, List.map_cons, List.cons_append, List.nil_append,
        List.cons.injEq, RItem.byte.injEq] at hp
      refine ⟨r, ?_, ?_⟩
      · simp [Reader.peek, hc, hp.1]
      · exact ⟨by rw [hc, hp.1], hp.2, hne⟩
  | none =>
    simp only [Reader.pending, hc, List.nil_append] at hp
    cases bs with
    | nil =>
      cases h : r.eof with
      | true =>
        exact ⟨r, by simp [Reader.peek, hc, Reader.next, h], hc, by simpa [cleanInput] using hp, h⟩
      | false =>
        have hr : r.rest = [] := by simpa [cleanInput] using hp
        exact ⟨{ r with eof := true, cur := none }, by simp [Reader.peek, hc, Reader.next, h, hr],
          rfl, hr, rfl⟩
    | cons b bs =>
      have hne : r.eof = false := by
        cases h : r.eof with
        | false => rfl
        | true => simpa using he h
      have hr : r.rest = RItem.byte b :: cleanInput bs := by simpa [cleanInput] using hp
      refine ⟨stepTo r b (cleanInput bs), ?_, rfl, rfl, hne⟩
      simp [Reader.peek, hc, Reader.next, hne, hr, stepTo]

/-- `next` with a current byte: that byte is consumed, the following one becomes current -/
theorem next_at {r b bs} (h : At r b bs) :
    ∃ r', Reader.next r = (.ok bs.head?, r') ∧ Peeked r' bs := by
  obtain ⟨h1, h2, h3⟩ := h
  cases bs with
  | nil =>
    have hr : r.rest = [] := by simpa [cleanInput] using h2
    exact ⟨{ r with eof := true, cur := none }, by simp [Reader.next, h3, hr], rfl, hr, rfl⟩
  | cons c bs =>
    have hr : r.rest = RItem.byte c :: cleanInput bs := by simpa [cleanInput] using h2
    exact ⟨stepTo r c (cleanInput bs), by simp [Reader.next, h3, hr, stepTo], rfl, rfl, h3⟩

theorem next_at_cons {r b c bs} (h : At r b (c :: bs)) :
    ∃ r', Reader.next r = (.ok (some c), r') ∧ At r' c bs := next_at h

/-- `next` after the last byte of a token: whatever it returns, the reader is ready for the rest -/
theorem next_at_ready {r b bs} (h : At r b bs) :
    ∃ x r', Reader.next r = (.ok x, r') ∧ Ready r' bs := by
  obtain ⟨r', h1, h2⟩ := next_at h
  exact ⟨_, r', h1, h2.ready⟩

/-! ### White space and digit runs -/

theorem eatWhitespace_ready (ws : List Byte) (hws : ∀ b ∈ ws, isWs b = true) (rest : List Byte)
    (hrest : ∀ b ∈ rest.head?, isWs b = false) (r : Reader) (hr : Ready r (ws ++ rest))
    (fuel : Nat) (hf : ws.length < fuel) :
    ∃ r', eatWhitespace fuel r = (.ok (), r') ∧ Peeked r' rest := by
  induction ws generalizing r fuel with
  | nil =>
    obtain ⟨fuel, rfl⟩ : ∃ k, fuel = k + 1 := ⟨fuel - 1, by omega⟩
    obtain ⟨r', hp, hr'⟩ := peek_ready hr
    refine ⟨r', ?_, hr'⟩
    simp only [List.nil_append] at hp
    unfold eatWhitespace
    rw [PM.bind_ok hp]
    cases rest with
    | nil => rfl
    | cons b bs =>
      have := hrest b (by simp)
      simp [this]
  | cons w ws ih =>
    obtain ⟨fuel, rfl⟩ : ∃ k, fuel = k + 1 := ⟨fuel - 1, by omega⟩
    obtain ⟨r1, hp, hr1⟩ := peek_ready hr
    obtain ⟨r2, hn, hr2⟩ := next_at (show At r1 w (ws ++ rest) from hr1)
    obtain ⟨r3, he, hr3⟩ := ih (fun b hb => hws b (by simp [hb])) r2 hr2.ready fuel
      (by simp at hf; omega)
    refine ⟨r3, ?_, hr3⟩
    unfold eatWhitespace
    simp only [List.cons_append, List.head?_cons] at hp
    rw [PM.bind_ok hp]
    simp only [hws w (by simp), if_true]
    rw [PM.bind_ok hn]
    exact he

theorem readDigits_ready (ds : List Byte) (hds : ∀ b ∈ ds, isDigit b = true) (rest : List Byte)
    (hrest : ∀ b ∈ rest.head?, isDigit b = false) (r : Reader) (hr : Ready r (ds ++ rest))
    (fuel : Nat) (hf : ds.length < fuel) (acc : List Byte) :
    ∃ r', readDigits fuel acc r = (.ok (acc ++ ds), r') ∧ Peeked r' rest := by
  induction ds generalizing r fuel acc with
  | nil =>
    obtain ⟨fuel, rfl⟩ : ∃ k, fuel = k + 1 := ⟨fuel - 1, by omega⟩
    obtain ⟨r', hp, hr'⟩ := peek_ready hr
    refine ⟨r', ?_, hr'⟩
    simp only [List.nil_append] at hp
    unfold readDigits
    rw [PM.bind_ok hp]
    cases rest with
    | nil => simp
    | cons b bs =>
      have := hrest b (by simp)
      simp [this]
  | cons w ws ih =>
    obtain ⟨fuel, rfl⟩ : ∃ k, fuel = k + 1 := ⟨fuel - 1, by omega⟩
    obtain ⟨r1, hp, hr1⟩ := peek_ready hr
    obtain ⟨r2, hn, hr2⟩ := next_at (show At r1 w (ws ++ rest) from hr1)
    obtain ⟨r3, he, hr3⟩ := ih (fun b hb => hds b (by simp [hb])) r2 hr2.ready fuel
      (by simp at hf; omega) (acc ++ [w])
    refine ⟨r3, ?_, hr3⟩
    unfold readDigits
    simp only [List.cons_append, List.head?_cons] at hp
    rw [PM.bind_ok hp]
    simp only [hds w (by simp), if_true]
    rw [PM.bind_ok hn]
    simpa using he

/-- `read_reserved_word`: the first letter is current, the tail follows -/
theorem readWordTail_at (word : String) (tail : List Byte) (rest : List Byte) (r : Reader) (b : Byte)
    (hr : At r b (tail ++ rest)) :
    ∃ r', readWordTail word tail r = (.ok (), r') ∧ Ready r' rest := by
  induction tail generalizing r b with
  | nil =>
    obtain ⟨x, r', hn, hr'⟩ := next_at_ready hr
    refine ⟨r', ?_, hr'⟩
    unfold readWordTail
    rw [PM.bind_ok hn]; rfl
  | cons e es ih =>
    obtain ⟨r1, hn, hr1⟩ := next_at_cons (show At r b (e :: (es ++ rest)) from hr)
    obtain ⟨r2, h2, hr2⟩ := ih r1 e hr1
    refine ⟨r2, ?_, hr2⟩
    unfold readWordTail
    rw [PM.bind_ok hn]
    simpa using h2

/-! ### ASCII text as bytes -/

theorem utf8_nil : utf8 [] = [] := rfl
theorem utf8_append (a b : Str) : utf8 (a ++ b) = utf8 a ++ utf8 b := by simp [utf8]
theorem utf8_cons (c : Char) (s : Str) : utf8 (c :: s) = String.utf8EncodeChar c ++ utf8 s := by
  simp [utf8]

/-- the byte of an ASCII character -/
def byteOf (c : Char) : Byte := UInt8.ofNat c.toNat

theorem utf8EncodeChar_ascii (c : Char) (h : c.toNat < 128) : String.utf8EncodeChar c = [byteOf c] := by
  have h' : c.toNat ≤ 127 := by omega
  simp [String.utf8EncodeChar, h', byteOf]

theorem utf8_ascii (s : Str) (h : ∀ c ∈ s, c.toNat < 128) : utf8 s = s.map byteOf := by
  induction s with
  | nil => rfl
  | cons c s ih =>
    rw [utf8_cons, utf8EncodeChar_ascii c (h c (by simp)), ih (fun d hd => h d (by simp [hd]))]
    rfl

theorem byteToChar_byteOf (c : Char) (h : c.toNat < 128) : byteToChar (byteOf c) = c := by
  have : (UInt8.ofNat c.toNat).toNat = c.toNat := by
    simp only [UInt8.toNat_ofNat']; omega
  simp [byteToChar, byteOf, this]

theorem bytesToStr_map_byteOf (s : Str) (h : ∀ c ∈ s, c.toNat < 128) :
    bytesToStr (s.map byteOf) = s := by
  induction s with
  | nil => rfl
  | cons c s ih =>
    simp only [bytesToStr, List.map_cons, List.map_map] at ih ⊢
    rw [ih (fun d hd => h d (by simp [hd]))]
    simp [byteToChar_byteOf c (h c (by simp))]

theorem bytesToStr_append (a b : List Byte) : bytesToStr (a ++ b) = bytesToStr a ++ bytesToStr b := by
  simp [bytesToStr]

theorem isDigit_lt (c : Char) (h : c.isDigit = true) : 48 ≤ c.toNat ∧ c.toNat ≤ 57 := by
  simp only [Char.isDigit, ge_iff_le, Bool.and_eq_true, decide_eq_true_eq, UInt32.le_iff_toNat_le] at h
  simpa using h

theorem isDigit_byteOf (c : Char) (h : c.isDigit = true) : isDigit (byteOf c) = true := by
  have := isDigit_lt c h
  have h2 : (UInt8.ofNat c.toNat).toNat = c.toNat := by
    simp only [UInt8.toNat_ofNat']; omega
  simp only [isDigit, byteOf, Bool.and_eq_true, decide_eq_true_eq, UInt8.le_iff_toNat_le, h2]
  exact this

/-! ### M2. Numbers -/

/-- the sign part of `read_number` -/
def signBlock : PM Bool := do
  if (← peek) = some 45 then
    match (← next) with
    | none => locErr .unexpectedEof
    | some _ => pure true
  else pure false

/-- the fraction part of `read_number` -/
def fracBlock (fuel : Nat) (chars : List Byte) : PM (List Byte × Bool) := do
  if (← peek) = some 46 then
    let _ ← next
    let fr ← readDigits fuel []
    pure (chars ++ [46] ++ fr, true)
  else pure (chars, false)

/-- the exponent part of `read_number` -/
def expBlock (fuel : Nat) (chars : List Byte) (double : Bool) : PM (List Byte × Bool) := do
  let p ← peek
  if p = some 101 ∨ p = some 69 then
    let _ ← next
    let chars := chars ++ [69]
    let chars ← (do
      match (← peek) with
      | some 45 => do
        let _ ← next
        pure (chars ++ [45])
      | some 43 => do
        let _ ← next
        pure chars
      | _ => pure chars)
    let ex ← readDigits fuel []
    pure (chars ++ ex, true)
  else pure (chars, double)

/-- the conversion at the end of `read_number` -/
def finishNumber (negative : Bool) (intDigits chars : List Byte) (double : Bool) : PM JV :=
  if double then parseToDouble chars
  else if negative then
    match parseI64Neg intDigits with
    | .ok i => pure (.num (.neg i))
    | .overflow => parseToDouble chars
    | .invalid => locErr .parseInt
  else
    match parseU64 intDigits with
    | some n => pure (.num (.pos n))
    | none => parseToDouble chars

theorem readNumber_eq (fuel : Nat) : readNumber fuel = (do
    let negative ← signBlock
    let intDigits ← readDigits fuel []
    let (chars, double) ← fracBlock fuel ((if negative then [45] else []) ++ intDigits)
    let (chars, double) ← expBlock fuel chars double
    finishNumber negative intDigits chars double) := rfl

theorem signBlock_neg {r : Reader} {c : Byte} {bs : List Byte} (hr : Ready r (45 :: c :: bs)) :
    ∃ r', signBlock r = (.ok true, r') ∧ At r' c bs := by
  obtain ⟨r1, hp, hr1⟩ := peek_ready hr
  obtain ⟨r2, hn, hr2⟩ := next_at_cons (show At r1 45 (c :: bs) from hr1)
  refine ⟨r2, ?_, hr2⟩
  unfold signBlock
  simp only [List.head?_cons] at hp
  rw [PM.bind_ok hp, if_pos rfl, PM.bind_ok hn]
  rfl

theorem signBlock_pos {r : Reader} {bs : List Byte} (hr : Ready r bs) (h : bs.head? ≠ some 45) :
    ∃ r', signBlock r = (.ok false, r') ∧ Peeked r' bs := by
  obtain ⟨r1, hp, hr1⟩ := peek_ready hr
  refine ⟨r1, ?_, hr1⟩
  unfold signBlock
  rw [PM.bind_ok hp]
  simp [h]

theorem fracBlock_none {r : Reader} {bs : List Byte} (hr : Peeked r bs) (h : bs.head? ≠ some 46)
    (fuel : Nat) (chars : List Byte) : fracBlock fuel chars r = (.ok (chars, false), r) := by
  unfold fracBlock
  rw [PM.bind_ok (peek_peeked hr)]
  simp [h]

theorem fracBlock_some {r : Reader} (fp rest : List Byte) (hfp : ∀ b ∈ fp, isDigit b = true)
    (hrest : ∀ b ∈ rest.head?, isDigit b = false) (hr : Peeked r (46 :: (fp ++ rest)))
    (fuel : Nat) (hf : fp.length < fuel) (chars : List Byte) :
    ∃ r', fracBlock fuel chars r = (.ok (chars ++ [46] ++ fp, true), r') ∧ Peeked r' rest := by
  obtain ⟨r1, hn, hr1⟩ := next_at (show At r 46 (fp ++ rest) from hr)
  obtain ⟨r2, hd, hr2⟩ := readDigits_ready fp hfp rest hrest r1 hr1.ready fuel hf []
  refine ⟨r2, ?_, hr2⟩
  unfold fracBlock
  have hp := peek_peeked hr
  simp only [List.head?_cons] at hp
  rw [PM.bind_ok hp, if_pos rfl, PM.bind_ok hn, PM.bind_ok hd]
  rfl

theorem expBlock_none {r : Reader} {bs : List Byte} (hr : Peeked r bs)
    (h1 : bs.head? ≠ some 101) (h2 : bs.head? ≠ some 69)
    (fuel : Nat) (chars : List Byte) (double : Bool) :
    expBlock fuel chars double r = (.ok (chars, double), r) := by
  unfold expBlock
  rw [PM.bind_ok (peek_peeked hr)]
  simp [h1, h2]

/-- what may follow a number: not a digit, `.`, `e`, `E` -/
def NumDelim (rest : List Byte) : Prop :=
  ∀ b ∈ rest.head?, isDigit b = false ∧ b ≠ 46 ∧ b ≠ 101 ∧ b ≠ 69

def fracText : Option (List Byte) → List Byte
  | none => []
  | some d => 46 :: d

/-- the bytes of `[-]digits[.digits]` -/
def numText (neg : Bool) (ip : List Byte) (fp : Option (List Byte)) : List Byte :=
  (if neg then [45] else []) ++ ip ++ fracText fp

def numChars (neg : Bool) (ip : List Byte) (fp : Option (List Byte)) : List Byte :=
  match fp with
  | none => (if neg then [45] else []) ++ ip
  | some d => (if neg then [45] else []) ++ ip ++ [46] ++ d

theorem numChars_eq_numText (neg ip fp) : numChars neg ip fp = numText neg ip fp := by
  cases fp <;> simp [numChars, numText, fracText]

theorem isDigit_ne {b : Byte} (h : isDigit b = true) : b ≠ 45 ∧ b ≠ 46 ∧ b ≠ 101 ∧ b ≠ 69 := by
  simp only [isDigit, Bool.and_eq_true, decide_eq_true_eq, UInt8.le_iff_toNat_le] at h
  refine ⟨?_, ?_, ?_, ?_⟩ <;> (intro hb; subst hb; simp at h)

/-- `read_number` on `[-]digits[.digits]` followed by a delimiter: the text is consumed and handed to the conversion -/
theorem readNumber_text (neg : Bool) (ip : List Byte) (fp : Option (List Byte)) (rest : List Byte)
    (hip : ∀ b ∈ ip, isDigit b = true) (hne : ip ≠ [])
    (hfp : ∀ d, fp = some d → ∀ b ∈ d, isDigit b = true)
    (hrest : NumDelim rest) (r : Reader) (hr : Ready r (numText neg ip fp ++ rest))
    (fuel : Nat) (hf : (numText neg ip fp).length < fuel) :
    ∃ r', readNumber fuel r = finishNumber neg ip (numChars neg ip fp) fp.isSome r' ∧ Peeked r' rest := by
  obtain ⟨c, ip', rfl⟩ : ∃ c ip', ip = c :: ip' := by
    cases ip with
    | nil => exact absurd rfl hne
    | cons c ip' => exact ⟨c, ip', rfl⟩
  have hc := isDigit_ne (hip c (by simp))
  -- sign
  have hsign : ∃ r1, signBlock r = (.ok neg, r1) ∧
      Ready r1 ((c :: ip') ++ (fracText fp ++ rest)) := by
    cases neg with
    | true =>
      obtain ⟨r1, h1, h2⟩ := signBlock_neg (r := r) (c := c)
        (bs := ip' ++ (fracText fp ++ rest))
        (by simpa [numText] using hr)
      exact ⟨r1, h1, h2.ready⟩
    | false =>
      obtain ⟨r1, h1, h2⟩ := signBlock_pos (r := r)
        (bs := (c :: ip') ++ (fracText fp ++ rest))
        (by simpa [numText] using hr) (by simp; exact hc.1)
      exact ⟨r1, h1, h2.ready⟩
  obtain ⟨r1, hs, hr1⟩ := hsign
  have hlen : (c :: ip').length < fuel ∧ ∀ d, fp = some d → d.length < fuel := by
    constructor
    · simp [numText] at hf ⊢; omega
    · intro d hd; subst hd; simp [numText, fracText] at hf; omega
  -- integer digits
  have hnd : ∀ b ∈ (fracText fp ++ rest).head?, isDigit b = false := by
    intro b hb
    cases fp with
    | none => simp [fracText] at hb; exact (hrest b (by simpa using hb)).1
    | some d => simp [fracText] at hb; subst hb; rfl
  obtain ⟨r2, hd2, hr2⟩ := readDigits_ready (c :: ip') hip _ hnd r1 hr1 fuel hlen.1 []
  simp only [List.nil_append] at hd2
  rw [readNumber_eq]
  rw [PM.bind_ok hs, PM.bind_ok hd2]
  cases fp with
  | none =>
    simp only [fracText, List.nil_append] at hr2
    have hh := fun b hb => hrest b hb
    have h46 : rest.head? ≠ some 46 := fun h => (hrest 46 (by simp [h])).2.1 rfl
    have h101 : rest.head? ≠ some 101 := fun h => (hrest 101 (by simp [h])).2.2.1 rfl
    have h69 : rest.head? ≠ some 69 := fun h => (hrest 69 (by simp [h])).2.2.2 rfl
    rw [PM.bind_ok (fracBlock_none hr2 h46 fuel _)]
    simp only []
    rw [PM.bind_ok (expBlock_none hr2 h101 h69 fuel _ _)]
    exact ⟨r2, by simp [numChars], hr2⟩
  | some d =>
    have hrd : ∀ b ∈ rest.head?, isDigit b = false := fun b hb => (hrest b hb).1
    obtain ⟨r3, hf3, hr3⟩ := fracBlock_some d rest (hfp d rfl) hrd (r := r2) (by simpa [fracText] using hr2) fuel
      (hlen.2 d rfl) ((if neg then [45] else []) ++ (c :: ip'))
    have h101 : rest.head? ≠ some 101 := fun h => (hrest 101 (by simp [h])).2.2.1 rfl
    have h69 : rest.head? ≠ some 69 := fun h => (hrest 69 (by simp [h])).2.2.2 rfl
    rw [PM.bind_ok hf3]
    simp only []
    rw [PM.bind_ok (expBlock_none hr3 h101 h69 fuel _ _)]
    exact ⟨r3, by simp [numChars], hr3⟩

/-! #### decimal digits -/

theorem digitsToNat_append_single (l : List Char) (c : Char) :
    F64.digitsToNat (l ++ [c]) = F64.digitsToNat l * 10 + F64.digitVal c := by
  simp [F64.digitsToNat, List.foldl_append]

theorem digitVal_digitChar (d : Nat) (h : d < 10) : F64.digitVal (Nat.digitChar d) = d := by
  have : ('0' : Char).toNat = 48 := rfl
  simp only [F64.digitVal, this]
  exact Nat.toNat_digitChar_sub_48_of_lt_ten h

/-- `str::parse` of the decimal rendering of a natural number gives it back -/
theorem digitsToNat_toDigits (n : Nat) : F64.digitsToNat (Nat.toDigits 10 n) = n := by
  induction n using Nat.strongRecOn with
  | _ n ih =>
    rw [Nat.toDigits_eq_if (by decide)]
    split
    · rename_i h
      have := digitVal_digitChar n h
      simp [F64.digitsToNat, this]
    · rw [digitsToNat_append_single, ih (n / 10) (by omega),
        digitVal_digitChar _ (Nat.mod_lt _ (by decide))]
      omega

theorem toDigits_isDigit (n : Nat) : ∀ c ∈ Nat.toDigits 10 n, c.isDigit = true :=
  fun _ hc => Nat.isDigit_of_mem_toDigits (by decide) (by decide) hc

theorem isDigit_ascii (c : Char) (h : c.isDigit = true) : c.toNat < 128 := by
  have := isDigit_lt c h; omega

/-- a digit string as bytes -/
theorem digits_bytes (ds : Str) (h : ∀ c ∈ ds, c.isDigit = true) :
    utf8 ds = ds.map byteOf ∧ (∀ b ∈ ds.map byteOf, isDigit b = true) ∧
      bytesToStr (ds.map byteOf) = ds := by
  refine ⟨utf8_ascii ds (fun c hc => isDigit_ascii c (h c hc)), ?_,
    bytesToStr_map_byteOf ds (fun c hc => isDigit_ascii c (h c hc))⟩
  intro b hb
  obtain ⟨c, hc, rfl⟩ := List.mem_map.1 hb
  exact isDigit_byteOf c (h c hc)

/-! #### floats: the hypothesis `FloatRT` -/

def signChars (neg : Bool) : Str := if neg then ['-'] else []

def fracChars : Option Str → Str
  | none => []
  | some d => '.' :: d

/-- What the round trip needs from `Display for f64` and `str::parse::<f64>` for the float `f`
(a hypothesis of this development, proved elsewhere):
* the rendering is `[-]digits[.digits]` with at least one digit before the point;
* when there is no point the digits overflow `u64` (resp. `i64` when negative), so that `read_number`
  falls through to the float conversion;
* parsing the rendering gives `f` back, `f` is finite, and `From<f64>` keeps `f` a float. -/
structure FloatRT (f : F64) : Prop where
  shape : ∃ (neg : Bool) (ip : Str) (fp : Option Str),
    F64.toDisplay f = signChars neg ++ ip ++ fracChars fp ∧ ip ≠ [] ∧
    (∀ c ∈ ip, c.isDigit = true) ∧ (∀ d, fp = some d → ∀ c ∈ d, c.isDigit = true) ∧
    (fp = none → if neg then 2 ^ 63 < F64.digitsToNat ip else 2 ^ 64 ≤ F64.digitsToNat ip)
  parse : F64.parseDecimal (F64.toDisplay f) = some f
  finite : f.isFinite = true
  stays : Num.ofF64 f = .flt f

/-- `FloatRT` is satisfiable: the double `1.5` (printed `1.5`) -/
example : FloatRT (.fin false (3 * 2 ^ 51) (-52)) := by
  refine ⟨⟨false, ['1'], some ['5'], ?_, ?_, ?_, ?_, ?_⟩, ?_, ?_, ?_⟩
  · decide +kernel
  · decide
  · decide
  · intro d hd; cases hd; decide
  · intro h; cases h
  · decide +kernel
  · rfl
  · decide +kernel

/-- numbers the printer/parser pair handles -/
def NumPrintable : Num → Prop
  | .pos n => n < 2 ^ 64
  | .neg i => -(2 ^ 63 : Int) ≤ i ∧ i < 2 ^ 64
  | .flt f => FloatRT f

/-- what the parser makes of a printed number: a non-negative `neg i` comes back as `pos i` -/
def normNum : Num → Num
  | .neg i => if i < 0 then .neg i else .pos i.toNat
  | n => n

theorem readNumber_nat (n : Nat) (hn : n < 2 ^ 64) (rest : List Byte) (hd : NumDelim rest) (r : Reader)
    (hr : Ready r (utf8 (Nat.toDigits 10 n) ++ rest))
    (fuel : Nat) (hf : (utf8 (Nat.toDigits 10 n)).length < fuel) :
    ∃ r', readNumber fuel r = (.ok (.num (.pos n)), r') ∧ Peeked r' rest := by
  obtain ⟨h1, h2, h3⟩ := digits_bytes _ (toDigits_isDigit n)
  rw [h1] at hr hf
  have hne : (Nat.toDigits 10 n).map byteOf ≠ [] := by simp
  obtain ⟨r', hrn, hr'⟩ := readNumber_text false _ none rest h2 hne (by simp) hd r
    (by simpa [numText, fracText] using hr) fuel (by simpa [numText, fracText] using hf)
  refine ⟨r', ?_, hr'⟩
  rw [hrn]
  simp [finishNumber, parseU64, h3, digitsToNat_toDigits, hn]

theorem readNumber_negInt (i : Int) (hi : -(2 ^ 63 : Int) ≤ i) (hneg : i < 0) (rest : List Byte)
    (hd : NumDelim rest) (r : Reader)
    (hr : Ready r (utf8 ('-' :: Nat.toDigits 10 i.natAbs) ++ rest))
    (fuel : Nat) (hf : (utf8 ('-' :: Nat.toDigits 10 i.natAbs)).length < fuel) :
    ∃ r', readNumber fuel r = (.ok (.num (.neg i)), r') ∧ Peeked r' rest := by
  obtain ⟨h1, h2, h3⟩ := digits_bytes _ (toDigits_isDigit i.natAbs)
  have hm : utf8 ('-' :: Nat.toDigits 10 i.natAbs) = 45 :: (Nat.toDigits 10 i.natAbs).map byteOf := by
    rw [utf8_cons, h1]; rfl
  rw [hm] at hr hf
  have hne : (Nat.toDigits 10 i.natAbs).map byteOf ≠ [] := by simp
  obtain ⟨r', hrn, hr'⟩ := readNumber_text true _ none rest h2 hne (by simp) hd r
    (by simpa [numText, fracText] using hr) fuel (by simpa [numText, fracText] using hf)
  refine ⟨r', ?_, hr'⟩
  rw [hrn]
  have hle : i.natAbs ≤ 2 ^ 63 := by omega
  have hi' : -(i.natAbs : Int) = i := by omega
  simp [finishNumber, parseI64Neg, h3, digitsToNat_toDigits, hle, hi']

theorem parseToDouble_display (f : F64) (hf : FloatRT f) (text : List Byte)
    (ht : bytesToStr text = F64.toDisplay f) (r : Reader) :
    parseToDouble text r = (.ok (.num (.flt f)), r) := by
  simp [parseToDouble, ht, hf.parse, hf.finite, hf.stays]

theorem readNumber_float (f : F64) (hfl : FloatRT f) (rest : List Byte) (hd : NumDelim rest) (r : Reader)
    (hr : Ready r (utf8 (F64.toDisplay f) ++ rest))
    (fuel : Nat) (hf : (utf8 (F64.toDisplay f)).length < fuel) :
    ∃ r', readNumber fuel r = (.ok (.num (.flt f)), r') ∧ Peeked r' rest := by
  obtain ⟨neg, ip, fp, hshape, hne, hip, hfp, hbig⟩ := hfl.shape
  obtain ⟨i1, i2, i3⟩ := digits_bytes ip hip
  have hsign : utf8 (signChars neg) = (if neg then [45] else []) ∧
      bytesToStr (if neg then [45] else []) = signChars neg := by
    cases neg <;> exact ⟨rfl, rfl⟩
  have hneB : ip.map byteOf ≠ [] := by simpa using hne
  cases fp with
  | none =>
    have htext : utf8 (F64.toDisplay f) = numText neg (ip.map byteOf) none := by
      rw [hshape, utf8_append, utf8_append, hsign.1, i1]; simp [numText, fracText, fracChars, utf8_nil]
    rw [htext] at hr hf
    obtain ⟨r', hrn, hr'⟩ := readNumber_text neg _ none rest i2 hneB (by simp) hd r hr fuel hf
    refine ⟨r', ?_, hr'⟩
    rw [hrn]
    have hb : bytesToStr (numChars neg (ip.map byteOf) none) = F64.toDisplay f := by
      rw [hshape]; simp [numChars, bytesToStr_append, hsign.2, i3, fracChars]
    have hpd := parseToDouble_display f hfl _ hb r'
    have hbig' := hbig rfl
    cases neg with
    | true =>
      have h1 : ¬ (F64.digitsToNat ip ≤ 2 ^ 63) := by simpa using hbig'
      have h2 : (ip.map byteOf).isEmpty = false := by simpa using hne
      simp only [finishNumber, Option.isSome_none, Bool.false_eq_true, if_false, if_true, parseI64Neg, h2, i3, h1]
      exact hpd
    | false =>
      have h1 : ¬ (F64.digitsToNat ip < 2 ^ 64) := by simpa using hbig'
      simp only [finishNumber, Option.isSome_none, Bool.false_eq_true, if_false, parseU64, i3, h1]
      exact hpd
  | some d =>
    obtain ⟨d1, d2, d3⟩ := digits_bytes d (hfp d rfl)
    have htext : utf8 (F64.toDisplay f) = numText neg (ip.map byteOf) (some (d.map byteOf)) := by
      rw [hshape, utf8_append, utf8_append, hsign.1, i1]
      simp only [fracChars, utf8_cons, d1, numText, fracText]
      rfl
    rw [htext] at hr hf
    obtain ⟨r', hrn, hr'⟩ := readNumber_text neg _ (some (d.map byteOf)) rest i2 hneB
      (by intro d' hd'; cases hd'; exact d2) hd r hr fuel hf
    refine ⟨r', ?_, hr'⟩
    rw [hrn]
    have hb : bytesToStr (numChars neg (ip.map byteOf) (some (d.map byteOf))) = F64.toDisplay f := by
      rw [hshape]
      simp only [numChars, bytesToStr_append, hsign.2, i3, d3, fracChars]
      simp [bytesToStr, byteToChar]
    simp only [finishNumber, Option.isSome_some, if_true]
    exact parseToDouble_display f hfl _ hb r'

/-- M2, numbers: `read_number` reads back what `printNum` wrote -/
theorem readNumber_printNum (n : Num) (hn : NumPrintable n) (rest : List Byte) (hd : NumDelim rest)
    (r : Reader) (hr : Ready r (utf8 (printNum n) ++ rest))
    (fuel : Nat) (hf : (utf8 (printNum n)).length < fuel) :
    ∃ r', readNumber fuel r = (.ok (.num (normNum n)), r') ∧ Peeked r' rest := by
  cases n with
  | pos n => exact readNumber_nat n hn rest hd r hr fuel hf
  | flt f => exact readNumber_float f hn rest hd r hr fuel hf
  | neg i =>
    by_cases hneg : i < 0
    · simp only [printNum, hneg, if_true] at hr hf
      simp only [normNum, hneg, if_true]
      exact readNumber_negInt i hn.1 hneg rest hd r hr fuel hf
    · simp only [printNum, hneg, if_false] at hr hf
      simp only [normNum, hneg, if_false]
      have : i.natAbs = i.toNat := by omega
      rw [this] at hr hf
      exact readNumber_nat i.toNat (by have := hn.2; omega) rest hd r hr fuel hf

/-- the first byte of a printed number is `-` or a digit -/
theorem printNum_head (n : Num) (hn : NumPrintable n) :
    ∃ c bs, utf8 (printNum n) = c :: bs ∧ (c = 45 ∨ isDigit c = true) := by
  have hdig : ∀ (ds : Str), ds ≠ [] → (∀ c ∈ ds, c.isDigit = true) → ∀ tail : List Byte,
      ∃ c bs, utf8 ds ++ tail = c :: bs ∧ (c = 45 ∨ isDigit c = true) := by
    intro ds hne h tail
    obtain ⟨h1, h2, _⟩ := digits_bytes ds h
    cases ds with
    | nil => exact absurd rfl hne
    | cons c cs =>
      rw [h1]
      exact ⟨byteOf c, _, rfl, Or.inr (h2 _ (by simp))⟩
  have hnat : ∀ k : Nat, ∃ c bs, utf8 (Nat.toDigits 10 k) = c :: bs ∧ (c = 45 ∨ isDigit c = true) := by
    intro k
    simpa using hdig _ (Nat.toDigits_ne_nil) (toDigits_isDigit k) []
  cases n with
  | pos n => exact hnat n
  | neg i =>
    by_cases hneg : i < 0
    · simp only [printNum, hneg, if_true, utf8_cons]
      exact ⟨45, _, rfl, Or.inl rfl⟩
    · simp only [printNum, hneg, if_false]
      exact hnat _
  | flt f =>
    obtain ⟨neg, ip, fp, hshape, hne, hip, -⟩ := (show FloatRT f from hn).shape
    simp only [printNum, hshape, utf8_append]
    cases neg with
    | true => exact ⟨45, _, rfl, Or.inl rfl⟩
    | false =>
      simp only [signChars, Bool.false_eq_true, if_false, utf8_nil, List.nil_append]
      exact hdig ip hne hip _

/-! ### M3. Strings -/

theorem char_le_iff (a b : Char) : a ≤ b ↔ a.toNat ≤ b.toNat := by
  simp [Char.le_def, UInt32.le_iff_toNat_le]

theorem char_lt_iff (a b : Char) : a < b ↔ a.toNat < b.toNat := by
  simp [Char.lt_def, UInt32.lt_iff_toNat_lt]

theorem toByteArray_eq (l : List UInt8) : l.toByteArray = ⟨l.toArray⟩ := by
  have := List.toList_data_toByteArray (l := l)
  cases h : l.toByteArray with
  | mk data =>
    rw [h] at this
    simp at this
    subst this
    simp

/-- `String::from_utf8(s.as_bytes()) = s` (from core's `List.utf8Decode?_utf8Encode`) -/
theorem utf8Decode_utf8 (s : Str) : utf8Decode? (utf8 s) = some s := by
  have := List.utf8Decode?_utf8Encode (l := s)
  simp only [List.utf8Encode, toByteArray_eq] at this
  simp [utf8Decode?, utf8, this]

theorem ofNat_high (n : Nat) (h1 : 128 ≤ n) (h2 : n < 256) : UInt8.ofNat n ≠ 34 ∧ UInt8.ofNat n ≠ 92 := by
  constructor <;> intro h <;> {
    have := congrArg UInt8.toNat h
    simp only [UInt8.toNat_ofNat'] at this
    have h3 : n % 256 = n := Nat.mod_eq_of_lt h2
    simp at this
    omega }

/-- the UTF-8 bytes of a character above `~` are neither `"` nor `\` -/
theorem utf8EncodeChar_high (c : Char) (h : 127 ≤ c.toNat) :
    ∀ x ∈ String.utf8EncodeChar c, x ≠ 34 ∧ x ≠ 92 := by
  intro x hx
  simp only [String.utf8EncodeChar, Char.toNat_val] at hx
  split at hx
  · simp at hx; subst hx
    have : c.toNat = 127 := by omega
    rw [this]; decide
  · split at hx
    · simp only [List.mem_cons, List.not_mem_nil, or_false] at hx
      rcases hx with rfl | rfl <;> apply ofNat_high <;> omega
    · split at hx
      · simp only [List.mem_cons, List.not_mem_nil, or_false] at hx
        rcases hx with rfl | rfl | rfl <;> apply ofNat_high <;> omega
      · simp only [List.mem_cons, List.not_mem_nil, or_false] at hx
        rcases hx with rfl | rfl | rfl | rfl <;> apply ofNat_high <;> omega

/-- raw bytes (neither quote nor backslash) go to the accumulator, one loop turn each -/
theorem readStringLoop_raw (bs : List Byte) (hbs : ∀ x ∈ bs, x ≠ 34 ∧ x ≠ 92) (tail : List Byte)
    (r : Reader) (b : Byte) (hr : At r b (bs ++ tail)) (fuel : Nat) (acc : List Byte) :
    ∃ r' b', readStringLoop (fuel + bs.length) acc r = readStringLoop fuel (acc ++ bs) r' ∧
      At r' b' tail := by
  induction bs generalizing r b acc with
  | nil => exact ⟨r, b, by simp, by simpa using hr⟩
  | cons x xs ih =>
    obtain ⟨r1, hn, hr1⟩ := next_at_cons (show At r b (x :: (xs ++ tail)) from hr)
    obtain ⟨r2, b2, h2, hr2⟩ := ih (fun y hy => hbs y (by simp [hy])) r1 x hr1 (acc ++ [x])
    refine ⟨r2, b2, ?_, hr2⟩
    have hx := hbs x (by simp)
    rw [show fuel + (x :: xs).length = (fuel + xs.length) + 1 by simp; omega, readStringLoop,
      PM.bind_ok hn]
    simp only [hx.1, hx.2, if_false]
    simpa using h2

theorem printEscape_some (c e : Char) (h : printEscape c = some e) :
    utf8 ['\\', e] = [92, byteOf e] ∧ simpleEscape (byteOf e) = some (byteOf c) ∧
      String.utf8EncodeChar c = [byteOf c] := by
  unfold printEscape at h
  repeat' split at h
  all_goals first
    | (cases h; subst_vars; exact ⟨rfl, rfl, rfl⟩)
    | cases h

theorem printEscape_none (c : Char) (h : printEscape c = none) : c ≠ '"' ∧ c ≠ '\\' := by
  constructor <;> intro hc <;> subst hc <;> simp [printEscape] at h

theorem char_eq_of_toNat (c : Char) (n : Nat) (h : c.toNat = n) : c = Char.ofNat n := by
  rw [← h, Char.ofNat_toNat]

theorem byteOf_eq_iff (c : Char) (h : c.toNat < 128) (n : Nat) (hn : n < 128) :
    byteOf c = UInt8.ofNat n → c.toNat = n := by
  intro hb
  have := congrArg UInt8.toNat hb
  simp only [byteOf, UInt8.toNat_ofNat'] at this
  omega

/-! #### `\uXXXX` -/

theorem toDigits16_1 (n : Nat) (h : n < 16) : Nat.toDigits 16 n = [Nat.digitChar n] :=
  Nat.toDigits_of_lt_base h

theorem toDigits16_2 (n : Nat) (h1 : 16 ≤ n) (h : n < 256) :
    Nat.toDigits 16 n = [Nat.digitChar (n / 16), Nat.digitChar (n % 16)] := by
  rw [Nat.toDigits_of_base_le (by decide) h1, toDigits16_1 (n / 16) (by omega)]; rfl

theorem toDigits16_3 (n : Nat) (h1 : 256 ≤ n) (h : n < 4096) :
    Nat.toDigits 16 n = [Nat.digitChar (n / 256), Nat.digitChar (n / 16 % 16), Nat.digitChar (n % 16)] := by
  rw [Nat.toDigits_of_base_le (by decide) (by omega), toDigits16_2 (n / 16) (by omega) (by omega)]
  simp [Nat.div_div_eq_div_mul]

theorem toDigits16_4 (n : Nat) (h1 : 4096 ≤ n) (h : n < 65536) :
    Nat.toDigits 16 n = [Nat.digitChar (n / 4096), Nat.digitChar (n / 256 % 16),
      Nat.digitChar (n / 16 % 16), Nat.digitChar (n % 16)] := by
  rw [Nat.toDigits_of_base_le (by decide) (by omega), toDigits16_3 (n / 16) (by omega) (by omega)]
  simp [Nat.div_div_eq_div_mul]

/-- `{:04x}` of a 16-bit number: exactly four digits -/
theorem hex4_eq (n : Nat) (h : n < 65536) :
    hex4 n = [Nat.digitChar (n / 4096), Nat.digitChar (n / 256 % 16),
      Nat.digitChar (n / 16 % 16), Nat.digitChar (n % 16)] := by
  unfold hex4
  by_cases h1 : n < 16
  · have e1 : n / 4096 = 0 := by omega
    have e2 : n / 256 % 16 = 0 := by omega
    have e3 : n / 16 % 16 = 0 := by omega
    have e4 : n % 16 = n := by omega
    simp [toDigits16_1 n h1, e1, e2, e3, e4, List.replicate]
  · by_cases h2 : n < 256
    · have e1 : n / 4096 = 0 := by omega
      have e2 : n / 256 % 16 = 0 := by omega
      have e3 : n / 16 % 16 = n / 16 := by omega
      simp [toDigits16_2 n (by omega) h2, e1, e2, e3, List.replicate]
    · by_cases h3 : n < 4096
      · have e1 : n / 4096 = 0 := by omega
        have e2 : n / 256 % 16 = n / 256 := by omega
        simp [toDigits16_3 n (by omega) h3, e1, e2]
      · simp [toDigits16_4 n (by omega) h]

theorem hexVal_digitChar : ∀ d, d < 16 →
    String.utf8EncodeChar (Nat.digitChar d) = [byteOf (Nat.digitChar d)] ∧
    hexVal (byteOf (Nat.digitChar d)) = some d := by
  decide

theorem readHex4_digits (ds : List Nat) (hds : ∀ d ∈ ds, d < 16) (tail : List Byte)
    (r : Reader) (b : Byte) (hr : At r b (utf8 (ds.map Nat.digitChar) ++ tail)) (acc : Nat) :
    ∃ r' b', readHex4 ds.length acc r = (.ok (ds.foldl (fun a d => a * 16 + d) acc), r') ∧
      At r' b' tail := by
  induction ds generalizing r b acc with
  | nil => exact ⟨r, b, rfl, by simpa [utf8_nil] using hr⟩
  | cons d ds ih =>
    obtain ⟨e1, e2⟩ := hexVal_digitChar d (hds d (by simp))
    simp only [List.map_cons, utf8_cons, e1, List.cons_append, List.nil_append] at hr
    obtain ⟨r1, hn, hr1⟩ := next_at_cons hr
    obtain ⟨r2, b2, h2, hr2⟩ := ih (fun y hy => hds y (by simp [hy])) r1 _ hr1 (acc * 16 + d)
    refine ⟨r2, b2, ?_, hr2⟩
    simp only [List.length_cons, readHex4]
    rw [PM.bind_ok hn]
    simp only [e2]
    simpa using h2

theorem charOfNat_toNat (c : Char) : charOfNat? c.toNat = some c := by
  have hv : c.toNat.isValidChar := c.valid
  simp only [charOfNat?, hv, dite_true, Option.some.injEq]
  apply Char.ext
  show UInt32.ofNat c.toNat = c.val
  apply UInt32.toNat_inj.1
  have := c.val.toNat_lt
  simp [UInt32.toNat_ofNat']
  simpa using this

/-- the characters `print_string` can write so that `read_string` reads them back:
without `utf8Strings` only the Basic Multilingual Plane (`{:04x}` gives five digits above it) -/
def CharOK (o : JsonOpts) (c : Char) : Prop := c.toNat ≤ 0xFFFF ∨ o.utf8Strings = true

def StrOK (o : JsonOpts) (s : Str) : Prop := ∀ c ∈ s, CharOK o c

/-- `StrOK` is satisfiable, also without `utf8Strings` -/
example : StrOK {} ['a', '"', '\n', 'é', '\x7f'] := by
  intro c hc
  simp only [List.mem_cons, List.not_mem_nil, or_false] at hc
  rcases hc with rfl | rfl | rfl | rfl | rfl <;> exact Or.inl (by decide)

example : StrOK { utf8Strings := true } [Char.ofNat 0x1F603] := fun _ _ => Or.inr rfl

/-- one printed character is read back as its UTF-8 bytes, in at most as many loop turns as it has bytes -/
theorem readStringLoop_char (o : JsonOpts) (c : Char) (hc : CharOK o c) (tail : List Byte) :
    ∃ k, k ≤ (utf8 (printChar o c)).length ∧
      ∀ (r : Reader) (b : Byte), At r b (utf8 (printChar o c) ++ tail) → ∀ (fuel : Nat) (acc : List Byte),
      ∃ r' b', readStringLoop (fuel + k) acc r = readStringLoop fuel (acc ++ String.utf8EncodeChar c) r' ∧
        At r' b' tail := by
  unfold printChar
  cases hpe : printEscape c with
  | some e =>
    obtain ⟨e1, e2, e3⟩ := printEscape_some c e hpe
    simp only [e1]
    refine ⟨1, by simp, ?_⟩
    intro r b hr fuel acc
    obtain ⟨r1, hn1, hr1⟩ := next_at_cons (show At r b (92 :: (byteOf e :: tail)) from hr)
    obtain ⟨r2, hn2, hr2⟩ := next_at_cons hr1
    refine ⟨r2, _, ?_, hr2⟩
    rw [readStringLoop, PM.bind_ok hn1]
    simp only [show ¬ ((92 : Byte) = 34) by decide, if_false, if_true]
    rw [PM.bind_ok hn2]
    simp only [e2, e3]
  | none =>
    simp only []
    split
    · -- raw
      rename_i hraw
      have hb : ∀ x ∈ String.utf8EncodeChar c, x ≠ 34 ∧ x ≠ 92 := by
        rcases hraw with ⟨h1, h2⟩ | ⟨_, h2⟩
        · rw [char_le_iff] at h1 h2
          have h2' : c.toNat ≤ 126 := h2
          have hlt : c.toNat < 128 := by omega
          have hne := printEscape_none c hpe
          rw [utf8EncodeChar_ascii c hlt]
          intro x hx
          simp only [List.mem_cons, List.not_mem_nil, or_false] at hx
          subst hx
          constructor
          · intro hq
            exact hne.1 (char_eq_of_toNat c 34 (byteOf_eq_iff c hlt 34 (by decide) hq))
          · intro hq
            exact hne.2 (char_eq_of_toNat c 92 (byteOf_eq_iff c hlt 92 (by decide) hq))
        · rw [char_lt_iff] at h2
          have h2' : 126 < c.toNat := h2
          exact utf8EncodeChar_high c (by omega)
      simp only [utf8_cons, utf8_nil, List.append_nil]
      refine ⟨_, Nat.le_refl _, ?_⟩
      intro r b hr fuel acc
      exact readStringLoop_raw _ hb tail r b hr fuel acc
    · -- \\uXXXX
      rename_i hraw
      have hle : c.toNat < 65536 := by
        rcases hc with h | h
        · exact Nat.lt_succ_of_le h
        · have : ¬ ('~' < c) := fun hlt => hraw (Or.inr ⟨h, hlt⟩)
          rw [char_lt_iff] at this
          have : ¬ (126 < c.toNat) := this
          omega
      rw [hex4_eq c.toNat hle]
      have hu : utf8 ('\\' :: 'u' :: [Nat.digitChar (c.toNat / 4096), Nat.digitChar (c.toNat / 256 % 16),
          Nat.digitChar (c.toNat / 16 % 16), Nat.digitChar (c.toNat % 16)]) =
          92 :: 117 :: utf8 ([c.toNat / 4096, c.toNat / 256 % 16, c.toNat / 16 % 16, c.toNat % 16].map
            Nat.digitChar) := by
        rw [utf8_cons, utf8_cons]; rfl
      rw [hu]
      refine ⟨1, by simp, ?_⟩
      intro r b hr fuel acc
      obtain ⟨r1, hn1, hr1⟩ := next_at_cons (show At r b (92 :: (117 :: _ ++ tail)) from hr)
      obtain ⟨r2, hn2, hr2⟩ := next_at_cons hr1
      obtain ⟨r3, b3, hh, hr3⟩ := readHex4_digits
        [c.toNat / 4096, c.toNat / 256 % 16, c.toNat / 16 % 16, c.toNat % 16]
        (by intro d hd; simp only [List.mem_cons, List.not_mem_nil, or_false] at hd; omega)
        tail r2 _ hr2 0
      have hfold : ([c.toNat / 4096, c.toNat / 256 % 16, c.toNat / 16 % 16, c.toNat % 16].foldl
          (fun a d => a * 16 + d) 0) = c.toNat := by
        simp only [List.foldl_cons, List.foldl_nil]; omega
      rw [hfold] at hh
      simp only [List.length_cons, List.length_nil, Nat.zero_add, Nat.reduceAdd] at hh
      refine ⟨r3, b3, ?_, hr3⟩
      rw [readStringLoop, PM.bind_ok hn1]
      simp only [show ¬ ((92 : Byte) = 34) by decide, if_false, if_true]
      rw [PM.bind_ok hn2]
      simp only [show simpleEscape 117 = none by decide, if_true]
      rw [PM.bind_ok hh]
      simp only [charOfNat_toNat]

/-- the printed characters of a string, as bytes -/
def strBody (o : JsonOpts) (s : Str) : List Byte := utf8 (s.flatMap (printChar o))

theorem strBody_cons (o : JsonOpts) (c : Char) (s : Str) :
    strBody o (c :: s) = utf8 (printChar o c) ++ strBody o s := by
  simp [strBody, utf8_append]

theorem utf8_printString (o : JsonOpts) (s : Str) :
    utf8 (printString o s) = 34 :: (strBody o s ++ [34]) := by
  simp only [printString, utf8_cons, utf8_append, strBody]; rfl

theorem readStringLoop_body (o : JsonOpts) (s : Str) (hs : StrOK o s) (tail : List Byte) :
    ∃ k, k ≤ (strBody o s).length ∧
      ∀ (r : Reader) (b : Byte), At r b (strBody o s ++ tail) → ∀ (fuel : Nat) (acc : List Byte),
      ∃ r' b', readStringLoop (fuel + k) acc r = readStringLoop fuel (acc ++ utf8 s) r' ∧
        At r' b' tail := by
  induction s with
  | nil =>
    refine ⟨0, by simp, ?_⟩
    intro r b hr fuel acc
    exact ⟨r, b, by simp [utf8_nil], by simpa [strBody, utf8_nil] using hr⟩
  | cons c s ih =>
    obtain ⟨k2, hk2, h2⟩ := ih (fun d hd => hs d (by simp [hd]))
    obtain ⟨k1, hk1, h1⟩ := readStringLoop_char o c (hs c (by simp)) (strBody o s ++ tail)
    refine ⟨k2 + k1, by rw [strBody_cons]; simp; omega, ?_⟩
    intro r b hr fuel acc
    rw [strBody_cons, List.append_assoc] at hr
    obtain ⟨r1, b1, e1, hr1⟩ := h1 r b hr (fuel + k2) acc
    obtain ⟨r2, b2, e2, hr2⟩ := h2 r1 b1 hr1 fuel (acc ++ String.utf8EncodeChar c)
    refine ⟨r2, b2, ?_, hr2⟩
    rw [← Nat.add_assoc, e1, e2, utf8_cons, List.append_assoc]

/-- M3: `read_string` (the opening quote is the current byte) reads back what `print_string` wrote,
and leaves the reader ready for what follows the closing quote -/
theorem readString_print (o : JsonOpts) (s : Str) (hs : StrOK o s) (rest : List Byte) (r : Reader)
    (b : Byte) (hr : At r b (strBody o s ++ 34 :: rest)) (fuel : Nat) (hf : (strBody o s).length < fuel) :
    ∃ r', readStringLoop fuel [] r = (.ok s, r') ∧ Ready r' rest := by
  obtain ⟨k, hk, h⟩ := readStringLoop_body o s hs (34 :: rest)
  obtain ⟨r1, b1, e1, hr1⟩ := h r b hr (fuel - k - 1 + 1) []
  obtain ⟨r2, hn2, hr2⟩ := next_at_cons hr1
  obtain ⟨x, r3, hn3, hr3⟩ := next_at_ready hr2
  refine ⟨r3, ?_, hr3⟩
  rw [show fuel = fuel - k - 1 + 1 + k by omega, e1, readStringLoop, PM.bind_ok hn2]
  simp only [if_true]
  rw [PM.bind_ok hn3]
  simp [utf8Decode_utf8]

end Jawk.RT
