/-
  Configuration-level corollaries (C08, C09, C10, C03): a run WITH an option compared with the run WITHOUT it.
-/
import Jawk.Lemmas.RunSpec
namespace Jawk.RunCor
open Jawk Jawk.Pipe Jawk.RunSpec

/-! ### A: `build` in closed form -/

def sinkPart (c : Cfg) : Except Fail SinkCfg := cfgErr (buildSink c)

def grpPart (c : Cfg) : Except Fail (List StageCfg) :=
  match c.group with
  | some (some g) => do
    let e ← cfgErr (parseOptionExpr g)
    .ok [StageCfg.group e]
  | some none => .ok [StageCfg.merge]
  | none => .ok []

def sortPart (c : Cfg) : Except Fail (List (Expr × Bool)) :=
  mapRes (fun s => cfgErr (parseSorter s)) c.sorts

def selPart (c : Cfg) : Except Fail (List (Str × Expr)) :=
  mapRes (fun s => cfgErr (parseSelection s)) c.selects.reverse

def filPart (c : Cfg) : Except Fail (List StageCfg) :=
  match c.filter with
  | some f => do
    let e ← cfgErr (parseOptionExpr f)
    .ok [StageCfg.filter e]
  | none => .ok []

def splPart (c : Cfg) : Except Fail (List StageCfg) :=
  match c.split with
  | some f => do
    let e ← cfgErr (parseOptionExpr f)
    .ok [StageCfg.split e]
  | none => .ok []

def prePart (orc : Oracles) (c : Cfg) : Except Fail (List StageCfg) :=
  if c.sets.isEmpty then .ok [] else do
    let ps ← mapRes (parsePreSet orc) c.sets
    build.collect [] [] ps

/-- the pipeline record made from the sink and the assembled chain -/
def mkPipeline (sink : SinkCfg) (all : List (StageCfg × StageSt)) : Pipeline :=
  { cfgs := all.map (·.1), sts := all.map (·.2), sink := sink,
    sinkLen := (titlesAtSink (all.map (·.1)) []).length, titles := titlesAtSink (all.map (·.1)) [] }

theorem build_eq_assemble (orc : Oracles) (c : Cfg) :
    build orc c = (do
      let sink ← sinkPart c
      let grp ← grpPart c
      let sorters ← sortPart c
      let sels ← selPart c
      let fil ← filPart c
      let spl ← splPart c
      let pre ← prePart orc c
      .ok (mkPipeline sink (assemble c pre spl fil sels sorters grp))) := by
  rfl

/-- `build` succeeds exactly when every option text parses; the result is the assembled chain -/
theorem build_ok_iff (orc : Oracles) (c : Cfg) (p : Pipeline) :
    build orc c = .ok p ↔
      ∃ sink grp sorters sels fil spl pre,
        sinkPart c = .ok sink ∧ grpPart c = .ok grp ∧ sortPart c = .ok sorters ∧ selPart c = .ok sels ∧
        filPart c = .ok fil ∧ splPart c = .ok spl ∧ prePart orc c = .ok pre ∧
        p = mkPipeline sink (assemble c pre spl fil sels sorters grp) := by
  rw [build_eq_assemble]
  simp only [bind, Except.bind]
  constructor
  · intro h
    cases h1 : sinkPart c with
    | error e => rw [h1] at h; cases h
    | ok sink =>
    cases h2 : grpPart c with
    | error e => rw [h1, h2] at h; cases h
    | ok grp =>
    cases h3 : sortPart c with
    | error e => rw [h1, h2, h3] at h; cases h
    | ok sorters =>
    cases h4 : selPart c with
    | error e => rw [h1, h2, h3, h4] at h; cases h
    | ok sels =>
    cases h5 : filPart c with
    | error e => rw [h1, h2, h3, h4, h5] at h; cases h
    | ok fil =>
    cases h6 : splPart c with
    | error e => rw [h1, h2, h3, h4, h5, h6] at h; cases h
    | ok spl =>
    cases h7 : prePart orc c with
    | error e => rw [h1, h2, h3, h4, h5, h6, h7] at h; cases h
    | ok pre =>
    rw [h1, h2, h3, h4, h5, h6, h7] at h
    cases h
    exact ⟨_, _, _, _, _, _, _, rfl, rfl, rfl, rfl, rfl, rfl, rfl, rfl⟩
  · rintro ⟨sink, grp, sorters, sels, fil, spl, pre, h1, h2, h3, h4, h5, h6, h7, rfl⟩
    rw [h1, h2, h3, h4, h5, h6, h7]

/-- converse direction, ready to use -/
theorem build_of_parts (orc : Oracles) (c : Cfg) {sink grp sorters sels fil spl pre}
    (h1 : sinkPart c = .ok sink) (h2 : grpPart c = .ok grp) (h3 : sortPart c = .ok sorters)
    (h4 : selPart c = .ok sels) (h5 : filPart c = .ok fil) (h6 : splPart c = .ok spl)
    (h7 : prePart orc c = .ok pre) :
    build orc c = .ok (mkPipeline sink (assemble c pre spl fil sels sorters grp)) :=
  (build_ok_iff orc c _).mpr ⟨_, _, _, _, _, _, _, h1, h2, h3, h4, h5, h6, h7, rfl⟩

/-! ### B: the chain as a list of (stage, state) pairs -/

abbrev Pairs := List (StageCfg × StageSt)

/-- the rows that reach the printer -/
def R (orc : Oracles) (p : Pipeline) (rows : List Ctx) : List Ctx :=
  specRows (evalT orc) p.cfgs p.sts rows

variable (ev : Expr → Ctx → Option JV)

def specPairs (L : Pairs) (rows : List Ctx) : List Ctx :=
  specRows ev (L.map (·.1)) (L.map (·.2)) rows

theorem specPairs_nil (rows : List Ctx) : specPairs ev [] rows = rows := rfl

theorem specPairs_cons (c : StageCfg) (st : StageSt) (L : Pairs) (rows : List Ctx) :
    specPairs ev ((c, st) :: L) rows = specPairs ev L (stageSpec ev c (capOf st) rows) := rfl

theorem specPairs_append (A B : Pairs) (rows : List Ctx) :
    specPairs ev (A ++ B) rows = specPairs ev B (specPairs ev A rows) := by
  unfold specPairs
  rw [List.map_append, List.map_append, specRows_append ev _ _ _ _ _ (by simp)]

theorem R_mkPipeline (orc : Oracles) (sink : SinkCfg) (all : Pairs) (rows : List Ctx) :
    R orc (mkPipeline sink all) rows = specPairs (evalT orc) all rows := rfl

def simple (l : List StageCfg) : Pairs := l.map (fun s => (s, s.init none))

def selStages (sels : List (Str × Expr)) : List StageCfg :=
  sels.reverse.map (fun (n, e) => StageCfg.select n e)

/-- the stages before `--unique`: preset, split, filter, selections -/
def front (pre spl fil : List StageCfg) (sels : List (Str × Expr)) : Pairs :=
  simple pre ++ simple spl ++ simple fil ++ simple (selStages sels)

def uniqStage (u : Bool) : Pairs := simple (if u then [.unique] else [])

def sortStages (cap : Option Nat) (sorters : List (Expr × Bool)) : Pairs :=
  (sorters.zipIdx.map (fun ((e, desc), i) =>
    (StageCfg.sort e desc, StageSt.sort [] (if i = 0 then cap else none)))).reverse

def limitStage (skip : Nat) (take : Option Nat) : Pairs :=
  simple (if skip = 0 ∧ take.isNone then [] else [.limit skip take])

theorem assemble_eq (c : Cfg) (pre spl fil : List StageCfg) (sels : List (Str × Expr))
    (sorters : List (Expr × Bool)) (grp : List StageCfg) :
    assemble c pre spl fil sels sorters grp
      = front pre spl fil sels ++ uniqStage c.unique ++
        sortStages (c.take.map (fun t => c.skip + t)) sorters ++ limitStage c.skip c.take ++ simple grp := rfl

/-- the composition of a built chain, stage group by stage group -/
theorem specPairs_assemble (c : Cfg) (pre spl fil : List StageCfg) (sels : List (Str × Expr))
    (sorters : List (Expr × Bool)) (grp : List StageCfg) (rows : List Ctx) :
    specPairs ev (assemble c pre spl fil sels sorters grp) rows
      = specPairs ev (simple grp) (specPairs ev (limitStage c.skip c.take)
          (specPairs ev (sortStages (c.take.map (fun t => c.skip + t)) sorters)
            (specPairs ev (uniqStage c.unique) (specPairs ev (front pre spl fil sels) rows)))) := by
  rw [assemble_eq]
  simp only [specPairs_append]

theorem specPairs_uniq_true (rows : List Ctx) : specPairs ev (uniqStage true) rows = dedupFrom [] rows := rfl

theorem specPairs_uniq_false (rows : List Ctx) : specPairs ev (uniqStage false) rows = rows := rfl

theorem specPairs_limit (skip : Nat) (take : Option Nat) (rows : List Ctx) :
    specPairs ev (limitStage skip take) rows = takeOpt take (rows.drop skip) := by
  unfold limitStage
  split
  · rename_i h
    obtain ⟨h1, h2⟩ := h
    subst h1
    cases take with
    | none => rfl
    | some t => cases h2
  · rfl

theorem limitStage_zero_none : limitStage 0 none = [] := rfl

theorem specPairs_grp_nil (rows : List Ctx) : specPairs ev (simple []) rows = rows := rfl

theorem specPairs_grp_group (e : Expr) (rows : List Ctx) :
    specPairs ev (simple [.group e]) rows = [{ input := groupValue (groupOf ev e rows) }] := rfl

theorem specPairs_grp_merge (rows : List Ctx) :
    specPairs ev (simple [.merge]) rows = [{ input := .arr (rows.map Ctx.build) }] := rfl

/-- sorters without any bound, last given outermost -/
def plainSort (sorters : List (Expr × Bool)) : Pairs :=
  (sorters.map (fun (x : Expr × Bool) => (StageCfg.sort x.1 x.2, StageSt.sort [] none))).reverse

theorem sortStages_nil (cap : Option Nat) : sortStages cap [] = [] := rfl

/-- only the first given sorter (innermost, next to the limiter) carries the bound -/
theorem sortStages_cons (cap : Option Nat) (s : Expr × Bool) (rest : List (Expr × Bool)) :
    sortStages cap (s :: rest) = plainSort rest ++ [(.sort s.1 s.2, .sort [] cap)] := by
  unfold sortStages plainSort
  rw [List.zipIdx_cons, List.map_cons, List.reverse_cons]
  congr 2
  have : ∀ x ∈ rest.zipIdx (0 + 1),
      (fun (x : (Expr × Bool) × Nat) =>
        (StageCfg.sort x.1.1 x.1.2, StageSt.sort [] (if x.2 = 0 then cap else none))) x
      = ((fun (x : Expr × Bool) => (StageCfg.sort x.1 x.2, StageSt.sort [] none)) ∘ Prod.fst) x := by
    intro x hx
    have := List.le_snd_of_mem_zipIdx hx
    have h0 : x.2 ≠ 0 := by omega
    simp [h0]
  rw [List.map_congr_left this, ← List.map_map, List.zipIdx_map_fst]

theorem sortStages_none (sorters : List (Expr × Bool)) : sortStages none sorters = plainSort sorters := by
  cases sorters with
  | nil => rfl
  | cons s rest =>
    rw [sortStages_cons]
    simp [plainSort]

/-- a bounded sorter chain is the unbounded one cut at the bound -/
theorem specPairs_sortStages (cap : Option Nat) (sorters : List (Expr × Bool)) (rows : List Ctx) :
    specPairs ev (sortStages cap sorters) rows
      = if sorters = [] then rows else takeOpt cap (specPairs ev (sortStages none sorters) rows) := by
  cases sorters with
  | nil => rfl
  | cons s rest =>
    simp only [sortStages_cons, specPairs_append, reduceCtorEq, if_false]
    rfl

/-- C08 core: behind the sorters, `--skip S --take T` sees the same window whether or not the innermost
sorter is bounded by `S + T` -/
theorem window_sortStages (skip : Nat) (take : Option Nat) (sorters : List (Expr × Bool)) (rows : List Ctx) :
    takeOpt take ((specPairs ev (sortStages (take.map (fun t => skip + t)) sorters) rows).drop skip)
      = takeOpt take ((specPairs ev (sortStages none sorters) rows).drop skip) := by
  cases take with
  | none => rfl
  | some t =>
    rw [specPairs_sortStages]
    split
    · rename_i h; subst h; rfl
    · exact takeOpt_drop_takeOpt _ skip t (skip + t) (Nat.le_refl _)

/-! ### C: normal form of what a built chain computes -/

/-- the function a built chain computes, in terms of the parsed parts and the three plain options -/
def chainFn (F : Pairs) (u : Bool) (sorters : List (Expr × Bool)) (skip : Nat) (take : Option Nat)
    (grp : List StageCfg) (rows : List Ctx) : List Ctx :=
  specPairs ev (simple grp)
    (takeOpt take ((specPairs ev (plainSort sorters) (specPairs ev (uniqStage u) (specPairs ev F rows))).drop skip))

theorem specPairs_assemble_chainFn (c : Cfg) (pre spl fil : List StageCfg) (sels : List (Str × Expr))
    (sorters : List (Expr × Bool)) (grp : List StageCfg) (rows : List Ctx) :
    specPairs ev (assemble c pre spl fil sels sorters grp) rows
      = chainFn ev (front pre spl fil sels) c.unique sorters c.skip c.take grp rows := by
  rw [specPairs_assemble, specPairs_limit, window_sortStages, sortStages_none]
  rfl

/-- the parsed parts of a configuration (everything `build` obtains by parsing option texts) -/
structure Parts where
  sink : SinkCfg
  grp : List StageCfg
  sorters : List (Expr × Bool)
  sels : List (Str × Expr)
  fil : List StageCfg
  spl : List StageCfg
  pre : List StageCfg

def HasParts (orc : Oracles) (c : Cfg) (P : Parts) : Prop :=
  sinkPart c = .ok P.sink ∧ grpPart c = .ok P.grp ∧ sortPart c = .ok P.sorters ∧ selPart c = .ok P.sels ∧
    filPart c = .ok P.fil ∧ splPart c = .ok P.spl ∧ prePart orc c = .ok P.pre

def Parts.front (P : Parts) : Pairs := RunCor.front P.pre P.spl P.fil P.sels

def Parts.pipeline (P : Parts) (c : Cfg) : Pipeline :=
  mkPipeline P.sink (assemble c P.pre P.spl P.fil P.sels P.sorters P.grp)

theorem build_parts_iff (orc : Oracles) (c : Cfg) (p : Pipeline) :
    build orc c = .ok p ↔ ∃ P, HasParts orc c P ∧ p = P.pipeline c := by
  rw [build_ok_iff]
  constructor
  · rintro ⟨sink, grp, sorters, sels, fil, spl, pre, h1, h2, h3, h4, h5, h6, h7, rfl⟩
    exact ⟨⟨sink, grp, sorters, sels, fil, spl, pre⟩, ⟨h1, h2, h3, h4, h5, h6, h7⟩, rfl⟩
  · rintro ⟨P, ⟨h1, h2, h3, h4, h5, h6, h7⟩, rfl⟩
    exact ⟨_, _, _, _, _, _, _, h1, h2, h3, h4, h5, h6, h7, rfl⟩

theorem R_pipeline (orc : Oracles) (P : Parts) (c : Cfg) (rows : List Ctx) :
    R orc (P.pipeline c) rows
      = chainFn (evalT orc) P.front c.unique P.sorters c.skip c.take P.grp rows := by
  unfold Parts.pipeline
  rw [R_mkPipeline, specPairs_assemble_chainFn]
  rfl

theorem grpPart_of_none {c : Cfg} (h : c.group = none) : grpPart c = .ok [] := by
  unfold grpPart; rw [h]

theorem grpPart_of_merge {c : Cfg} (h : c.group = some none) : grpPart c = .ok [.merge] := by
  unfold grpPart; rw [h]

theorem grpPart_of_group {c : Cfg} {g : Str} {grp : List StageCfg} (h : c.group = some (some g))
    (hp : grpPart c = .ok grp) : ∃ e, parseOptionExpr g = .ok e ∧ grp = [.group e] := by
  unfold grpPart at hp
  rw [h] at hp
  simp only [bind, Except.bind] at hp
  cases he : parseOptionExpr g with
  | error x => rw [he] at hp; cases hp
  | ok e =>
    rw [he] at hp
    cases hp
    exact ⟨e, rfl, rfl⟩

/-- dropping `--group-by` / `--merge` keeps every other part -/
def Parts.noGrp (P : Parts) : Parts := { P with grp := [] }

theorem HasParts.noGrp {orc : Oracles} {c c' : Cfg} {P : Parts} (h : HasParts orc c P)
    (hg : c'.group = none) (h1 : sinkPart c' = sinkPart c) (h3 : sortPart c' = sortPart c)
    (h4 : selPart c' = selPart c) (h5 : filPart c' = filPart c) (h6 : splPart c' = splPart c)
    (h7 : prePart orc c' = prePart orc c) : HasParts orc c' P.noGrp := by
  obtain ⟨a1, -, a3, a4, a5, a6, a7⟩ := h
  exact ⟨h1 ▸ a1, grpPart_of_none hg, h3 ▸ a3, h4 ▸ a4, h5 ▸ a5, h6 ▸ a6, h7 ▸ a7⟩

/-! ### D: C08 — `--skip` / `--take` -/

/-- C08 `skip_take_config`, without grouping: the rows printed with `--skip S --take T` are rows
`S .. S+T-1` of the rows printed without them; this includes the bounded sorter (`--sort-by` present) -/
theorem skip_take_config (orc : Oracles) (c : Cfg) (p : Pipeline) (h : build orc c = .ok p)
    (hg : c.group = none) :
    ∃ p0, build orc { c with skip := 0, take := none } = .ok p0 ∧
      ∀ rows, R orc p rows = takeOpt c.take ((R orc p0 rows).drop c.skip) := by
  obtain ⟨P, hP, rfl⟩ := (build_parts_iff orc c p).mp h
  have hP0 : HasParts orc { c with skip := 0, take := none } P := hP
  refine ⟨P.pipeline { c with skip := 0, take := none }, (build_parts_iff orc _ _).mpr ⟨P, hP0, rfl⟩, ?_⟩
  intro rows
  have hgrp : P.grp = [] := by
    have := hP.2.1
    rw [grpPart_of_none hg] at this
    exact (Except.ok.inj this).symm
  rw [R_pipeline, R_pipeline, hgrp]
  rfl

/-- the grouper / merger (if any) is applied to the window of the ungrouped, unlimited chain -/
theorem R_pipeline_window (orc : Oracles) (P : Parts) (c : Cfg) (rows : List Ctx) :
    R orc (P.pipeline c) rows
      = specPairs (evalT orc) (simple P.grp)
          (takeOpt c.take
            ((R orc (P.noGrp.pipeline { c with skip := 0, take := none, group := none }) rows).drop c.skip)) := by
  rw [R_pipeline, R_pipeline]
  rfl

theorem hasParts_noGrp_unlimited {orc : Oracles} {c : Cfg} {P : Parts} (h : HasParts orc c P) :
    HasParts orc { c with skip := 0, take := none, group := none } P.noGrp :=
  h.noGrp rfl rfl rfl rfl rfl rfl rfl

/-- C08 `skip_take_config` with `--group-by E`: the group object is built from exactly the retained rows
(rows `S .. S+T-1` of the ungrouped, unlimited run) and is still emitted -/
theorem skip_take_config_group (orc : Oracles) (c : Cfg) (p : Pipeline) (h : build orc c = .ok p)
    (g : Str) (hg : c.group = some (some g)) :
    ∃ e p0', parseOptionExpr g = .ok e ∧
      build orc { c with skip := 0, take := none, group := none } = .ok p0' ∧
      ∀ rows, R orc p rows
        = [{ input := groupValue (groupOf (evalT orc) e (takeOpt c.take ((R orc p0' rows).drop c.skip))) }] := by
  obtain ⟨P, hP, rfl⟩ := (build_parts_iff orc c p).mp h
  obtain ⟨e, he, hgrp⟩ := grpPart_of_group hg hP.2.1
  refine ⟨e, _, he, (build_parts_iff orc _ _).mpr ⟨P.noGrp, hasParts_noGrp_unlimited hP, rfl⟩, ?_⟩
  intro rows
  rw [R_pipeline_window, hgrp, specPairs_grp_group]

/-- C08 `skip_take_config` with `--merge`: the merged array holds exactly the retained rows -/
theorem skip_take_config_merge (orc : Oracles) (c : Cfg) (p : Pipeline) (h : build orc c = .ok p)
    (hg : c.group = some none) :
    ∃ p0', build orc { c with skip := 0, take := none, group := none } = .ok p0' ∧
      ∀ rows, R orc p rows
        = [{ input := .arr ((takeOpt c.take ((R orc p0' rows).drop c.skip)).map Ctx.build) }] := by
  obtain ⟨P, hP, rfl⟩ := (build_parts_iff orc c p).mp h
  have hgrp : P.grp = [.merge] := by
    have := hP.2.1
    rw [grpPart_of_merge hg] at this
    exact (Except.ok.inj this).symm
  refine ⟨_, (build_parts_iff orc _ _).mpr ⟨P.noGrp, hasParts_noGrp_unlimited hP, rfl⟩, ?_⟩
  intro rows
  rw [R_pipeline_window, hgrp, specPairs_grp_merge]

/-! #### titles: only selections and the grouper / merger matter -/

/-- stages that leave the titles alone -/
def NoTitle : StageCfg → Prop
  | .select _ _ => False
  | .group _ => False
  | .merge => False
  | _ => True

theorem titlesAtSink_append (A B : List StageCfg) (ts : List Str) :
    titlesAtSink (A ++ B) ts = titlesAtSink B (titlesAtSink A ts) := by
  induction A generalizing ts with
  | nil => rfl
  | cons c A ih => cases c <;> simp only [List.cons_append, titlesAtSink, ih]

theorem titlesAtSink_noTitle (A : List StageCfg) (ts : List Str) (h : ∀ c ∈ A, NoTitle c) :
    titlesAtSink A ts = ts := by
  induction A generalizing ts with
  | nil => rfl
  | cons c A ih =>
    have hc := h c List.mem_cons_self
    have := fun ts => ih ts (fun y hy => h y (List.mem_cons_of_mem _ hy))
    cases c <;> first | exact hc.elim | (simp only [titlesAtSink]; exact this ts)

theorem titlesAtSink_selects (l : List (Str × Expr)) (ts : List Str) :
    titlesAtSink (l.map (fun (n, e) => StageCfg.select n e)) ts = ts ++ l.map (·.1) := by
  induction l generalizing ts with
  | nil => simp [titlesAtSink]
  | cons x l ih =>
    obtain ⟨n, e⟩ := x
    simp only [List.map_cons, titlesAtSink, ih, List.append_assoc, List.cons_append, List.nil_append]

theorem simple_cfgs (l : List StageCfg) : (simple l).map (·.1) = l := by
  simp [simple, List.map_map, Function.comp_def]

theorem filPart_shape {c : Cfg} {fil : List StageCfg} (h : filPart c = .ok fil) :
    fil = [] ∨ ∃ e, fil = [.filter e] := by
  unfold filPart at h
  split at h
  · simp only [bind, Except.bind] at h
    split at h
    · cases h
    · exact .inr ⟨_, (Except.ok.inj h).symm⟩
  · exact .inl (Except.ok.inj h).symm

theorem splPart_shape {c : Cfg} {spl : List StageCfg} (h : splPart c = .ok spl) :
    spl = [] ∨ ∃ e, spl = [.split e] := by
  unfold splPart at h
  split at h
  · simp only [bind, Except.bind] at h
    split at h
    · cases h
    · exact .inr ⟨_, (Except.ok.inj h).symm⟩
  · exact .inl (Except.ok.inj h).symm

theorem prePart_shape {orc : Oracles} {c : Cfg} {pre : List StageCfg} (h : prePart orc c = .ok pre) :
    pre = [] ∨ ∃ vars defs, pre = [.preset vars defs] := by
  unfold prePart at h
  split at h
  · exact .inl (Except.ok.inj h).symm
  · simp only [bind, Except.bind] at h
    split at h
    · cases h
    · exact .inr (collect_shape _ _ _ _ h)

theorem grpPart_shape {c : Cfg} {grp : List StageCfg} (h : grpPart c = .ok grp) :
    grp = [] ∨ (∃ e, grp = [.group e]) ∨ grp = [.merge] := by
  cases hg : c.group with
  | none => rw [grpPart_of_none hg] at h; exact .inl (Except.ok.inj h).symm
  | some o =>
    cases o with
    | none => rw [grpPart_of_merge hg] at h; exact .inr (.inr (Except.ok.inj h).symm)
    | some g =>
      obtain ⟨e, -, he⟩ := grpPart_of_group hg h
      exact .inr (.inl ⟨e, he⟩)

theorem sortStages_noTitle (cap : Option Nat) (sorters : List (Expr × Bool)) :
    ∀ c ∈ (sortStages cap sorters).map (·.1), NoTitle c := by
  intro c hc
  unfold sortStages at hc
  simp only [List.map_reverse, List.mem_reverse, List.mem_map] at hc
  obtain ⟨_, ⟨x, -, rfl⟩, rfl⟩ := hc
  trivial

theorem uniqStage_noTitle (u : Bool) : ∀ c ∈ (uniqStage u).map (·.1), NoTitle c := by
  intro c hc
  cases u
  · cases hc
  · simp only [uniqStage, if_true, simple_cfgs, List.mem_singleton] at hc
    subst hc; trivial

theorem limitStage_noTitle (skip : Nat) (take : Option Nat) :
    ∀ c ∈ (limitStage skip take).map (·.1), NoTitle c := by
  intro c hc
  unfold limitStage at hc
  rw [simple_cfgs] at hc
  split at hc
  · cases hc
  · simp only [List.mem_singleton] at hc
    subst hc; trivial

/-- the names of the selections, in the order given on the command line -/
def Parts.names (P : Parts) : List Str := P.sels.reverse.map (·.1)

/-- the titles of a built pipeline: the selection names in command-line order; none behind a grouper / merger -/
theorem titles_pipeline {orc : Oracles} {c0 : Cfg} {P : Parts} (hP : HasParts orc c0 P) (c : Cfg) :
    (P.pipeline c).titles = if P.grp = [] then P.names else [] := by
  obtain ⟨-, h2, -, -, h5, h6, h7⟩ := hP
  show titlesAtSink ((assemble c P.pre P.spl P.fil P.sels P.sorters P.grp).map (·.1)) [] = _
  rw [assemble_eq]
  unfold front
  simp only [List.map_append, titlesAtSink_append, simple_cfgs]
  rw [titlesAtSink_noTitle P.pre, titlesAtSink_noTitle P.spl, titlesAtSink_noTitle P.fil]
  · unfold selStages
    rw [titlesAtSink_selects, titlesAtSink_noTitle _ _ (uniqStage_noTitle _),
      titlesAtSink_noTitle _ _ (sortStages_noTitle _ _), titlesAtSink_noTitle _ _ (limitStage_noTitle _ _)]
    rcases grpPart_shape h2 with hg | ⟨e, hg⟩ | hg <;> rw [hg] <;> simp [titlesAtSink, Parts.names]
  · rcases filPart_shape h5 with hf | ⟨e, hf⟩ <;> rw [hf] <;> simp [NoTitle]
  · rcases splPart_shape h6 with hf | ⟨e, hf⟩ <;> rw [hf] <;> simp [NoTitle]
  · rcases prePart_shape h7 with hf | ⟨v, d, hf⟩ <;> rw [hf] <;> simp [NoTitle]

theorem sinkLen_pipeline (P : Parts) (c : Cfg) : (P.pipeline c).sinkLen = (P.pipeline c).titles.length := rfl

/-- the configuration without `--skip` / `--take` builds whenever the one with them does (the option texts
parse the same way), whatever the grouping -/
theorem skip_take_build (orc : Oracles) (c : Cfg) (p : Pipeline) (h : build orc c = .ok p) :
    ∃ p0, build orc { c with skip := 0, take := none } = .ok p0 ∧
      p0.sink = p.sink ∧ p0.titles = p.titles ∧ p0.sinkLen = p.sinkLen := by
  obtain ⟨P, hP, rfl⟩ := (build_parts_iff orc c p).mp h
  have hP0 : HasParts orc { c with skip := 0, take := none } P := hP
  refine ⟨_, (build_parts_iff orc _ _).mpr ⟨P, hP0, rfl⟩, rfl, ?_⟩
  have ht : (P.pipeline { c with skip := 0, take := none }).titles = (P.pipeline c).titles := by
    rw [titles_pipeline hP, titles_pipeline hP]
  exact ⟨ht, by rw [sinkLen_pipeline, sinkLen_pipeline, ht]⟩

/-! #### non-vacuity (C08) -/

/-- recogniser used to let the kernel evaluate a selection parse (`Expr` has no `DecidableEq`) -/
def isExtractSel (n : Str) (steps : List Jawk.Step) : Except String (Str × Expr) → Bool
  | .ok (n', .extract 0 steps') => n' == n && steps' == steps
  | _ => false

theorem isExtractSel_sound {n : Str} {steps : List Jawk.Step} {r : Except String (Str × Expr)}
    (h : isExtractSel n steps r = true) : r = .ok (n, .extract 0 steps) := by
  unfold isExtractSel at h
  split at h
  · simp only [Bool.and_eq_true, beq_iff_eq] at h
    rw [h.1, h.2]
  · cases h

/-- `.k` -/
abbrev dotK : Expr := .extract 0 [Jawk.Step.key "k".toList]

theorem parseSelection_kx : parseSelection ".k=x".toList = .ok ("x".toList, dotK) :=
  isExtractSel_sound (n := "x".toList) (steps := [Jawk.Step.key "k".toList])
    (r := parseSelection ".k=x".toList) (by decide +kernel)

theorem parseSorter_k : parseSorter ".k".toList = .ok (dotK, false) := by rfl

theorem parseOptionExpr_k : parseOptionExpr ".k".toList = .ok dotK := by rfl

theorem mapRes_singleton {α β} (f : α → Except Fail β) (x : α) (y : β) (h : f x = .ok y) :
    mapRes f [x] = .ok [y] := by
  simp only [mapRes, h, bind, Except.bind]

/-- `-s .k=x -o .k --skip 1 --take 2` -/
def exWindow : Cfg :=
  { selects := [".k=x".toList], sorts := [".k".toList], skip := 1, take := some 2 }

def exWindowParts : Parts :=
  { sink := .json {} ['\n'], grp := [], sorters := [(dotK, false)], sels := [("x".toList, dotK)],
    fil := [], spl := [], pre := [] }

theorem exWindow_parts (orc : Oracles) : HasParts orc exWindow exWindowParts :=
  ⟨rfl, rfl, mapRes_singleton _ _ _ (by rw [parseSorter_k]; rfl),
    mapRes_singleton _ _ _ (by rw [parseSelection_kx]; rfl), rfl, rfl, rfl⟩

theorem exWindow_builds (orc : Oracles) : build orc exWindow = .ok (exWindowParts.pipeline exWindow) :=
  (build_parts_iff orc _ _).mpr ⟨_, exWindow_parts orc, rfl⟩

example : (exWindowParts.pipeline exWindow).cfgs = [.select "x".toList dotK, .sort dotK false, .limit 1 (some 2)]
    ∧ (exWindowParts.pipeline exWindow).sts = [.none, .sort [] (some 3), .limit 0 0] := ⟨rfl, rfl⟩

/-- with a sorter: `p` has the bounded sorter (`some 3`), `p0` the unbounded one, and the printed rows of
`p` are rows 1..2 of those of `p0` -/
example (orc : Oracles) : ∃ p p0, build orc exWindow = .ok p ∧
    build orc { exWindow with skip := 0, take := none } = .ok p0 ∧
    p.sts = [.none, .sort [] (some 3), .limit 0 0] ∧ p0.sts = [.none, .sort [] none] ∧
    ∀ rows, R orc p rows = ((R orc p0 rows).drop 1).take 2 := by
  obtain ⟨p0, hp0, h⟩ := skip_take_config orc exWindow _ (exWindow_builds orc) rfl
  refine ⟨_, p0, exWindow_builds orc, hp0, rfl, ?_, h⟩
  have hb : build orc { exWindow with skip := 0, take := none }
      = .ok (exWindowParts.pipeline { exWindow with skip := 0, take := none }) :=
    (build_parts_iff orc _ _).mpr ⟨_, exWindow_parts orc, rfl⟩
  rw [hb] at hp0
  rw [← Except.ok.inj hp0]
  rfl

/-- the same configuration with `--group-by .k` and with `--merge` builds too -/
example (orc : Oracles) : ∃ p, build orc { exWindow with group := some (some ".k".toList) } = .ok p :=
  ⟨_, (build_parts_iff orc _ _).mpr ⟨{ exWindowParts with grp := [.group dotK] },
    ⟨rfl, by show grpPart _ = _; unfold grpPart; simp only [parseOptionExpr_k]; rfl,
      (exWindow_parts orc).2.2.1, (exWindow_parts orc).2.2.2.1, rfl, rfl, rfl⟩, rfl⟩⟩

example (orc : Oracles) : ∃ p, build orc { exWindow with group := some none } = .ok p :=
  ⟨_, (build_parts_iff orc _ _).mpr ⟨{ exWindowParts with grp := [.merge] },
    ⟨rfl, rfl, (exWindow_parts orc).2.2.1, (exWindow_parts orc).2.2.2.1, rfl, rfl, rfl⟩, rfl⟩⟩

/-! ### E: C09 — `--group-by` / `--merge` -/

theorem R_pipeline_grp (orc : Oracles) (P : Parts) (c : Cfg) (rows : List Ctx) :
    R orc (P.pipeline c) rows
      = specPairs (evalT orc) (simple P.grp) (R orc (P.noGrp.pipeline { c with group := none }) rows) := by
  rw [R_pipeline, R_pipeline]
  rfl

theorem hasParts_noGrp {orc : Oracles} {c : Cfg} {P : Parts} (h : HasParts orc c P) :
    HasParts orc { c with group := none } P.noGrp :=
  h.noGrp rfl rfl rfl rfl rfl rfl rfl

/-- C09 `group_config`: with `--group-by E` exactly one row is printed, the group object of the rows the
same configuration without `--group-by` prints -/
theorem group_config (orc : Oracles) (c : Cfg) (p : Pipeline) (h : build orc c = .ok p)
    (g : Str) (hg : c.group = some (some g)) (e : Expr) (he : parseOptionExpr g = .ok e) :
    ∃ p', build orc { c with group := none } = .ok p' ∧
      ∀ rows, R orc p rows = [{ input := groupValue (groupOf (evalT orc) e (R orc p' rows)) }] := by
  obtain ⟨P, hP, rfl⟩ := (build_parts_iff orc c p).mp h
  obtain ⟨e', he', hgrp⟩ := grpPart_of_group hg hP.2.1
  have : e' = e := Except.ok.inj (he'.symm.trans he)
  subst this
  refine ⟨_, (build_parts_iff orc _ _).mpr ⟨P.noGrp, hasParts_noGrp hP, rfl⟩, ?_⟩
  intro rows
  rw [R_pipeline_grp, hgrp, specPairs_grp_group]

/-- a configuration with `--group-by E` that builds has a parsable `E` (so `group_config` applies) -/
theorem group_config_parses (orc : Oracles) (c : Cfg) (p : Pipeline) (h : build orc c = .ok p)
    (g : Str) (hg : c.group = some (some g)) : ∃ e, parseOptionExpr g = .ok e := by
  obtain ⟨P, hP, rfl⟩ := (build_parts_iff orc c p).mp h
  obtain ⟨e, he, -⟩ := grpPart_of_group hg hP.2.1
  exact ⟨e, he⟩

/-- C09 `merge_config`: with `--merge` exactly one row is printed, the array of the rows the same
configuration without `--merge` prints -/
theorem merge_config (orc : Oracles) (c : Cfg) (p : Pipeline) (h : build orc c = .ok p)
    (hg : c.group = some none) :
    ∃ p', build orc { c with group := none } = .ok p' ∧
      ∀ rows, R orc p rows = [{ input := .arr ((R orc p' rows).map Ctx.build) }] := by
  obtain ⟨P, hP, rfl⟩ := (build_parts_iff orc c p).mp h
  have hgrp : P.grp = [.merge] := by
    have := hP.2.1
    rw [grpPart_of_merge hg] at this
    exact (Except.ok.inj this).symm
  refine ⟨_, (build_parts_iff orc _ _).mpr ⟨P.noGrp, hasParts_noGrp hP, rfl⟩, ?_⟩
  intro rows
  rw [R_pipeline_grp, hgrp, specPairs_grp_merge]

/-- exactly one row reaches the printer as soon as `--group-by` / `--merge` is given, whatever the input -/
theorem group_one_row (orc : Oracles) (c : Cfg) (p : Pipeline) (h : build orc c = .ok p)
    (hg : c.group ≠ none) (rows : List Ctx) : (R orc p rows).length = 1 := by
  cases hgo : c.group with
  | none => exact absurd hgo hg
  | some o =>
    cases o with
    | none =>
      obtain ⟨p', -, hr⟩ := merge_config orc c p h hgo
      rw [hr]; rfl
    | some g =>
      obtain ⟨e, he⟩ := group_config_parses orc c p h g hgo
      obtain ⟨p', -, hr⟩ := group_config orc c p h g hgo e he
      rw [hr]; rfl

/-- stages other than the grouper / merger deliver nothing when given nothing -/
theorem stageSpec_nil (c : StageCfg) (cap : Option Nat) (h : NotGrp c) : stageSpec ev c cap [] = [] := by
  cases c with
  | group e => exact h.elim
  | merge => exact h.elim
  | sort k d => cases cap <;> simp [stageSpec, takeOpt, keyed, SortSpec.sortDir]
  | limit s t => cases t <;> simp [stageSpec, takeOpt]
  | _ => rfl

theorem specPairs_nil_rows (L : Pairs) (h : ∀ x ∈ L, NotGrp x.1) : specPairs ev L [] = [] := by
  induction L with
  | nil => rfl
  | cons x L ih =>
    obtain ⟨c, st⟩ := x
    rw [specPairs_cons, stageSpec_nil ev c _ (h _ List.mem_cons_self)]
    exact ih (fun y hy => h y (List.mem_cons_of_mem _ hy))

theorem front_notGrp {orc : Oracles} {c : Cfg} {P : Parts} (hP : HasParts orc c P) :
    ∀ x ∈ P.front, NotGrp x.1 := by
  obtain ⟨-, -, -, -, h5, h6, h7⟩ := hP
  intro x hx
  unfold Parts.front front simple selStages at hx
  simp only [List.mem_append, List.mem_map, List.mem_reverse] at hx
  rcases hx with ((⟨s, hm, rfl⟩ | ⟨s, hm, rfl⟩) | ⟨s, hm, rfl⟩) | ⟨_, ⟨s, hm, rfl⟩, rfl⟩
  · rcases prePart_shape h7 with hf | ⟨v, d, hf⟩ <;> rw [hf] at hm
    · cases hm
    · simp only [List.mem_singleton] at hm; subst hm; trivial
  · rcases splPart_shape h6 with hf | ⟨e, hf⟩ <;> rw [hf] at hm
    · cases hm
    · simp only [List.mem_singleton] at hm; subst hm; trivial
  · rcases filPart_shape h5 with hf | ⟨e, hf⟩ <;> rw [hf] at hm
    · cases hm
    · simp only [List.mem_singleton] at hm; subst hm; trivial
  · trivial

theorem plainSort_notGrp (sorters : List (Expr × Bool)) : ∀ x ∈ plainSort sorters, NotGrp x.1 := by
  intro x hx
  unfold plainSort at hx
  simp only [List.mem_reverse, List.mem_map] at hx
  obtain ⟨s, -, rfl⟩ := hx
  trivial

theorem uniqStage_notGrp (u : Bool) : ∀ x ∈ uniqStage u, NotGrp x.1 := by
  intro x hx
  cases u
  · cases hx
  · simp only [uniqStage, simple, if_true, List.map_cons, List.map_nil, List.mem_singleton] at hx
    subst hx; trivial

/-- without `--group-by` / `--merge`, no input gives no output -/
theorem R_nil_of_no_group (orc : Oracles) (c : Cfg) (p : Pipeline) (h : build orc c = .ok p)
    (hg : c.group = none) : R orc p [] = [] := by
  obtain ⟨P, hP, rfl⟩ := (build_parts_iff orc c p).mp h
  have hgrp : P.grp = [] := by
    have := hP.2.1
    rw [grpPart_of_none hg] at this
    exact (Except.ok.inj this).symm
  rw [R_pipeline, hgrp]
  unfold chainFn
  rw [specPairs_nil_rows _ _ (front_notGrp hP), specPairs_nil_rows _ _ (uniqStage_notGrp _),
    specPairs_nil_rows _ _ (plainSort_notGrp _)]
  cases c.take <;> simp [specPairs_grp_nil, takeOpt]

/-- C09 on empty input: `--group-by` still prints one row, the empty object; `--merge` the empty array -/
theorem group_config_empty (orc : Oracles) (c : Cfg) (p : Pipeline) (h : build orc c = .ok p)
    (g : Str) (hg : c.group = some (some g)) : R orc p [] = [{ input := .obj [] }] := by
  obtain ⟨e, he⟩ := group_config_parses orc c p h g hg
  obtain ⟨p', hp', hr⟩ := group_config orc c p h g hg e he
  rw [hr, R_nil_of_no_group orc _ p' hp' rfl]
  rfl

theorem merge_config_empty (orc : Oracles) (c : Cfg) (p : Pipeline) (h : build orc c = .ok p)
    (hg : c.group = some none) : R orc p [] = [{ input := .arr [] }] := by
  obtain ⟨p', hp', hr⟩ := merge_config orc c p h hg
  rw [hr, R_nil_of_no_group orc _ p' hp' rfl]
  rfl

/-! #### non-vacuity (C09) -/

/-- `-s .k=x -o .k --skip 1 --take 2 --group-by .k` -/
def exGroup : Cfg := { exWindow with group := some (some ".k".toList) }

theorem exGroup_builds (orc : Oracles) :
    build orc exGroup = .ok (Parts.pipeline { exWindowParts with grp := [.group dotK] } exGroup) :=
  (build_parts_iff orc _ _).mpr ⟨{ exWindowParts with grp := [.group dotK] },
    ⟨rfl, by show grpPart _ = _; unfold grpPart; simp only [exGroup, parseOptionExpr_k]; rfl,
      (exWindow_parts orc).2.2.1, (exWindow_parts orc).2.2.2.1, rfl, rfl, rfl⟩, rfl⟩

example (orc : Oracles) : ∃ p p', build orc exGroup = .ok p ∧ build orc exWindow = .ok p' ∧
    ∀ rows, R orc p rows = [{ input := groupValue (groupOf (evalT orc) dotK (R orc p' rows)) }] := by
  obtain ⟨p', hp', h⟩ := group_config orc exGroup _ (exGroup_builds orc) _ rfl dotK parseOptionExpr_k
  exact ⟨_, p', exGroup_builds orc, hp', h⟩

/-! ### F: C10 — `--unique` -/

/-- the unique stage with its initial state (nothing seen) -/
def uniqPair : StageCfg × StageSt := (StageCfg.unique, StageSt.unique [])

/-- the stages behind `--unique`: sorters (the innermost one bounded), limiter, grouper / merger -/
def Parts.back (P : Parts) (c : Cfg) : Pairs :=
  sortStages (c.take.map (fun t => c.skip + t)) P.sorters ++ limitStage c.skip c.take ++ simple P.grp

theorem pipeline_chain (P : Parts) (c : Cfg) :
    (P.pipeline c).cfgs = (P.front ++ uniqStage c.unique ++ P.back c).map (·.1) ∧
    (P.pipeline c).sts = (P.front ++ uniqStage c.unique ++ P.back c).map (·.2) := by
  unfold Parts.pipeline Parts.back Parts.front mkPipeline
  rw [assemble_eq]
  simp only [List.append_assoc, and_self]

theorem front_stateless {orc : Oracles} {c : Cfg} {P : Parts} (hP : HasParts orc c P) :
    ∀ x ∈ P.front, StageCfg.stateless x.1 = true := by
  obtain ⟨-, -, -, -, h5, h6, h7⟩ := hP
  intro x hx
  unfold Parts.front front simple selStages at hx
  simp only [List.mem_append, List.mem_map, List.mem_reverse] at hx
  rcases hx with ((⟨s, hm, rfl⟩ | ⟨s, hm, rfl⟩) | ⟨s, hm, rfl⟩) | ⟨_, ⟨s, hm, rfl⟩, rfl⟩
  · rcases prePart_shape h7 with hf | ⟨v, d, hf⟩ <;> rw [hf] at hm
    · cases hm
    · simp only [List.mem_singleton] at hm; subst hm; rfl
  · rcases splPart_shape h6 with hf | ⟨e, hf⟩ <;> rw [hf] at hm
    · cases hm
    · simp only [List.mem_singleton] at hm; subst hm; rfl
  · rcases filPart_shape h5 with hf | ⟨e, hf⟩ <;> rw [hf] at hm
    · cases hm
    · simp only [List.mem_singleton] at hm; subst hm; rfl
  · rfl

/-- C10 `unique_config` (general form).  `A` = the stages before `--unique` (preset / split / filter /
selections, all per-row), `B` = the stages after it (sorters, limiter, grouper / merger).  The chain with
`--unique` is `A, unique, B`; the chain without it is `A, B`; what leaves the unique stage is what enters it
minus every row that equals an earlier row; hence `R p = B ∘ dedup ∘ A` and `R pu = B ∘ A`. -/
theorem unique_config (orc : Oracles) (c : Cfg) (p : Pipeline) (h : build orc c = .ok p)
    (hu : c.unique = true) :
    ∃ (pu : Pipeline) (A B : Pairs), build orc { c with unique := false } = .ok pu ∧
      (∀ x ∈ A, StageCfg.stateless x.1 = true) ∧
      p.cfgs = (A ++ [uniqPair] ++ B).map (·.1) ∧
      p.sts = (A ++ [uniqPair] ++ B).map (·.2) ∧
      pu.cfgs = (A ++ B).map (·.1) ∧ pu.sts = (A ++ B).map (·.2) ∧
      (∀ rows, specPairs (evalT orc) (A ++ [uniqPair]) rows
          = dedupFrom [] (specPairs (evalT orc) A rows)) ∧
      (∀ rows, R orc p rows = specPairs (evalT orc) B (dedupFrom [] (specPairs (evalT orc) A rows))) ∧
      (∀ rows, R orc pu rows = specPairs (evalT orc) B (specPairs (evalT orc) A rows)) := by
  obtain ⟨P, hP, rfl⟩ := (build_parts_iff orc c p).mp h
  have hPu : HasParts orc { c with unique := false } P := hP
  have h1 := pipeline_chain P c
  have h2 := pipeline_chain P { c with unique := false }
  rw [hu] at h1
  refine ⟨_, P.front, P.back c, (build_parts_iff orc _ _).mpr ⟨P, hPu, rfl⟩, front_stateless hP,
    h1.1, h1.2, ?_, ?_, ?_, ?_, ?_⟩
  · rw [h2.1]; simp [uniqStage, simple, Parts.back]
  · rw [h2.2]; simp [uniqStage, simple, Parts.back]
  · intro rows
    rw [specPairs_append]; rfl
  · intro rows
    unfold R
    rw [h1.1, h1.2]
    show specPairs (evalT orc) (P.front ++ uniqStage true ++ P.back c) rows = _
    rw [specPairs_append, specPairs_append, specPairs_uniq_true]
  · intro rows
    unfold R
    rw [h2.1, h2.2]
    show specPairs (evalT orc) (P.front ++ uniqStage false ++ P.back c) rows = _
    rw [specPairs_append, specPairs_append, specPairs_uniq_false]

theorem sortPart_of_nil {c : Cfg} {sorters : List (Expr × Bool)} (h : c.sorts = [])
    (hp : sortPart c = .ok sorters) : sorters = [] := by
  unfold sortPart at hp
  rw [h] at hp
  exact (Except.ok.inj hp).symm

/-- C10 `unique_config` (plain form): with no sorter, limiter or grouper behind it, the output with
`--unique` is the output without it minus every row that equals an earlier row -/
theorem unique_config_plain (orc : Oracles) (c : Cfg) (p : Pipeline) (h : build orc c = .ok p)
    (hu : c.unique = true) (hs : c.sorts = []) (hk : c.skip = 0) (ht : c.take = none)
    (hg : c.group = none) :
    ∃ pu, build orc { c with unique := false } = .ok pu ∧
      ∀ rows, R orc p rows = dedupFrom [] (R orc pu rows) := by
  obtain ⟨P, hP, rfl⟩ := (build_parts_iff orc c p).mp h
  have hPu : HasParts orc { c with unique := false } P := hP
  refine ⟨_, (build_parts_iff orc _ _).mpr ⟨P, hPu, rfl⟩, ?_⟩
  intro rows
  have hgrp : P.grp = [] := by
    have := hP.2.1
    rw [grpPart_of_none hg] at this
    exact (Except.ok.inj this).symm
  have hsort : P.sorters = [] := sortPart_of_nil hs hP.2.2.1
  rw [R_pipeline, R_pipeline, hgrp, hsort]
  show chainFn (evalT orc) P.front c.unique [] c.skip c.take [] rows
    = dedupFrom [] (chainFn (evalT orc) P.front false [] c.skip c.take [] rows)
  rw [hu, hk, ht]
  rfl

/-- the rows printed with `--unique` (plain form) are pairwise different and a sublist of those printed
without it -/
theorem unique_config_sublist (orc : Oracles) (c : Cfg) (p pu : Pipeline) (h : build orc c = .ok p)
    (hpu : build orc { c with unique := false } = .ok pu)
    (hu : c.unique = true) (hs : c.sorts = []) (hk : c.skip = 0) (ht : c.take = none)
    (hg : c.group = none) (rows : List Ctx) : (R orc p rows).Sublist (R orc pu rows) := by
  obtain ⟨pu', hpu', hr⟩ := unique_config_plain orc c p h hu hs hk ht hg
  rw [hpu] at hpu'
  cases hpu'
  rw [hr]
  exact dedupFrom_sublist [] _

/-! #### non-vacuity (C10) -/

/-- `-f .k -s .k=x --unique` -/
def exUnique : Cfg := { selects := [".k=x".toList], filter := some ".k".toList, unique := true }

def exUniqueParts : Parts :=
  { sink := .json {} ['\n'], grp := [], sorters := [], sels := [("x".toList, dotK)],
    fil := [.filter dotK], spl := [], pre := [] }

theorem exUnique_parts (orc : Oracles) : HasParts orc exUnique exUniqueParts :=
  ⟨rfl, rfl, rfl, mapRes_singleton _ _ _ (by rw [parseSelection_kx]; rfl),
    by show filPart _ = _; unfold filPart; simp only [exUnique, parseOptionExpr_k]; rfl, rfl, rfl⟩

theorem exUnique_builds (orc : Oracles) : build orc exUnique = .ok (exUniqueParts.pipeline exUnique) :=
  (build_parts_iff orc _ _).mpr ⟨_, exUnique_parts orc, rfl⟩

example : (exUniqueParts.pipeline exUnique).cfgs = [.filter dotK, .select "x".toList dotK, .unique] := rfl

example (orc : Oracles) : ∃ p pu, build orc exUnique = .ok p ∧
    build orc { exUnique with unique := false } = .ok pu ∧
    ∀ rows, R orc p rows = dedupFrom [] (R orc pu rows) := by
  obtain ⟨pu, hpu, h⟩ := unique_config_plain orc exUnique _ (exUnique_builds orc) rfl rfl rfl rfl rfl
  exact ⟨_, pu, exUnique_builds orc, hpu, h⟩

/-- general form: `--unique` in front of a sorter and a window -/
example (orc : Oracles) : ∃ p, build orc { exWindow with unique := true } = .ok p :=
  ⟨_, (build_parts_iff orc _ _).mpr ⟨exWindowParts, exWindow_parts orc, rfl⟩⟩

/-! ### G: C03 — absent options are the identity, one option is exactly that stage -/

/-- the sink of a configuration without output options: one-line JSON rows -/
abbrev defaultSink : SinkCfg := .json {} ['\n']

/-- no option at all: no stage, every row read reaches the printer unchanged -/
theorem absent_options_identity (orc : Oracles) :
    build orc {} = .ok defaultPipeline ∧ defaultPipeline.cfgs = [] ∧ defaultPipeline.sts = [] ∧
      ∀ rows, R orc defaultPipeline rows = rows :=
  ⟨rfl, rfl, rfl, fun _ => rfl⟩

/-- only `--filter F` -/
theorem only_filter (orc : Oracles) (f : Str) (e : Expr) (hf : parseOptionExpr f = .ok e) :
    ∃ p, build orc { filter := some f } = .ok p ∧ p.cfgs = [.filter e] ∧
      ∀ rows, R orc p rows = rows.filter (fun c => match evalT orc e c with
        | some (.bool true) => true
        | _ => false) := by
  refine ⟨_, (build_parts_iff orc _ _).mpr
    ⟨⟨defaultSink, [], [], [], [.filter e], [], []⟩, ⟨rfl, rfl, rfl, rfl, ?_, rfl, rfl⟩, rfl⟩, rfl, fun _ => rfl⟩
  show filPart _ = _
  unfold filPart
  simp only [hf]
  rfl

/-- only `--break E` (the splitter) -/
theorem only_split (orc : Oracles) (f : Str) (e : Expr) (hf : parseOptionExpr f = .ok e) :
    ∃ p, build orc { split := some f } = .ok p ∧ p.cfgs = [.split e] ∧
      ∀ rows, R orc p rows = rows.flatMap (fun c => match evalT orc e c with
        | some (.arr l) => l.map c.withInput
        | _ => []) := by
  refine ⟨_, (build_parts_iff orc _ _).mpr
    ⟨⟨defaultSink, [], [], [], [], [.split e], []⟩, ⟨rfl, rfl, rfl, rfl, rfl, ?_, rfl⟩, rfl⟩, rfl, fun _ => rfl⟩
  show splPart _ = _
  unfold splPart
  simp only [hf]
  rfl

/-- only one `--select S` -/
theorem only_select (orc : Oracles) (s : Str) (n : Str) (e : Expr) (hs : parseSelection s = .ok (n, e)) :
    ∃ p, build orc { selects := [s] } = .ok p ∧ p.cfgs = [.select n e] ∧ p.titles = [n] ∧
      ∀ rows, R orc p rows = rows.map (fun c => c.withResult n (evalT orc e c)) := by
  refine ⟨_, (build_parts_iff orc _ _).mpr
    ⟨⟨defaultSink, [], [], [(n, e)], [], [], []⟩, ⟨rfl, rfl, rfl, ?_, rfl, rfl, rfl⟩, rfl⟩, rfl, rfl,
    fun _ => rfl⟩
  exact mapRes_singleton _ _ _ (by rw [hs]; rfl)

/-- only `--skip S --take T` -/
theorem only_skip_take (orc : Oracles) (S T : Nat) :
    ∃ p, build orc { skip := S, take := some T } = .ok p ∧ p.cfgs = [.limit S (some T)] ∧
      ∀ rows, R orc p rows = (rows.drop S).take T := by
  refine ⟨_, (build_parts_iff orc _ _).mpr
    ⟨⟨defaultSink, [], [], [], [], [], []⟩, ⟨rfl, rfl, rfl, rfl, rfl, rfl, rfl⟩, rfl⟩, ?_, ?_⟩
  · show (assemble _ _ _ _ _ _ _).map (·.1) = _
    simp [assemble]
  · intro rows
    rw [R_pipeline]
    rfl

/-- only `--skip S` -/
theorem only_skip (orc : Oracles) (S : Nat) :
    ∃ p, build orc { skip := S } = .ok p ∧ ∀ rows, R orc p rows = rows.drop S := by
  refine ⟨_, (build_parts_iff orc _ _).mpr
    ⟨⟨defaultSink, [], [], [], [], [], []⟩, ⟨rfl, rfl, rfl, rfl, rfl, rfl, rfl⟩, rfl⟩, ?_⟩
  intro rows
  rw [R_pipeline]
  rfl

/-- only `--take T` -/
theorem only_take (orc : Oracles) (T : Nat) :
    ∃ p, build orc { take := some T } = .ok p ∧ p.cfgs = [.limit 0 (some T)] ∧
      ∀ rows, R orc p rows = rows.take T :=
  ⟨_, (build_parts_iff orc _ _).mpr
    ⟨⟨defaultSink, [], [], [], [], [], []⟩, ⟨rfl, rfl, rfl, rfl, rfl, rfl, rfl⟩, rfl⟩, rfl, fun _ => rfl⟩

/-- only `--unique` -/
theorem only_unique (orc : Oracles) :
    ∃ p, build orc { unique := true } = .ok p ∧ p.cfgs = [.unique] ∧
      ∀ rows, R orc p rows = dedupFrom [] rows :=
  ⟨_, rfl, rfl, fun _ => rfl⟩

/-- only `--merge`: one row, the array of all rows -/
theorem only_merge (orc : Oracles) :
    ∃ p, build orc { group := some none } = .ok p ∧ p.cfgs = [.merge] ∧
      ∀ rows, R orc p rows = [{ input := .arr (rows.map Ctx.build) }] :=
  ⟨_, rfl, rfl, fun _ => rfl⟩

/-- only `--group-by G`: one row, the group object of all rows -/
theorem only_group (orc : Oracles) (g : Str) (e : Expr) (hg : parseOptionExpr g = .ok e) :
    ∃ p, build orc { group := some (some g) } = .ok p ∧ p.cfgs = [.group e] ∧
      ∀ rows, R orc p rows = [{ input := groupValue (groupOf (evalT orc) e rows) }] := by
  refine ⟨_, (build_parts_iff orc _ _).mpr
    ⟨⟨defaultSink, [.group e], [], [], [], [], []⟩, ⟨rfl, ?_, rfl, rfl, rfl, rfl, rfl⟩, rfl⟩, rfl, fun _ => rfl⟩
  show grpPart _ = _
  unfold grpPart
  simp only [hg]
  rfl

/-- only one `--sort-by K`: the rows that have a key, stably sorted by it (unbounded sorter) -/
theorem only_sort (orc : Oracles) (s : Str) (e : Expr) (d : Bool) (hs : parseSorter s = .ok (e, d)) :
    ∃ p, build orc { sorts := [s] } = .ok p ∧ p.cfgs = [.sort e d] ∧ p.sts = [.sort [] none] ∧
      ∀ rows, R orc p rows
        = (SortSpec.sortDir JV.cmp (·.1) d (keyed (evalT orc) e rows)).map (·.2) := by
  refine ⟨_, (build_parts_iff orc _ _).mpr
    ⟨⟨defaultSink, [], [(e, d)], [], [], [], []⟩, ⟨rfl, rfl, ?_, rfl, rfl, rfl, rfl⟩, rfl⟩, rfl, rfl,
    fun _ => rfl⟩
  exact mapRes_singleton _ _ _ (by rw [hs]; rfl)

/-- what "stably sorted" means for `only_sort`: the keyed rows are permuted, ordered in the requested
direction, and rows with equal keys keep their arrival order -/
theorem only_sort_props (orc : Oracles) (e : Expr) (d : Bool) (rows : List Ctx) :
    let out := SortSpec.sortDir JV.cmp (·.1) d (keyed (evalT orc) e rows)
    out.Perm (keyed (evalT orc) e rows) ∧ SortSpec.SortedDir JV.cmp (·.1) d out ∧
      ∀ k, out.filter (fun x => JV.cmp x.1 k = .eq)
        = (keyed (evalT orc) e rows).filter (fun x => JV.cmp x.1 k = .eq) :=
  ⟨SortSpec.sortDir_perm Order.cmp_total_preorder _ d _, SortSpec.sortDir_sorted Order.cmp_total_preorder _ d _,
    fun k => SortSpec.sortDir_stable Order.cmp_total_preorder _ d _ k⟩

/-! #### non-vacuity (C03, single options) -/

example (orc : Oracles) : ∃ p, build orc { filter := some ".k".toList } = .ok p ∧ p.cfgs = [.filter dotK] := by
  obtain ⟨p, h1, h2, -⟩ := only_filter orc ".k".toList dotK parseOptionExpr_k
  exact ⟨p, h1, h2⟩

example (orc : Oracles) : ∃ p, build orc { selects := [".k=x".toList] } = .ok p ∧ p.titles = ["x".toList] := by
  obtain ⟨p, h1, -, h2, -⟩ := only_select orc ".k=x".toList "x".toList dotK parseSelection_kx
  exact ⟨p, h1, h2⟩

example (orc : Oracles) : ∃ p, build orc { sorts := [".k".toList] } = .ok p ∧ p.cfgs = [.sort dotK false] := by
  obtain ⟨p, h1, h2, -⟩ := only_sort orc ".k".toList dotK false parseSorter_k
  exact ⟨p, h1, h2⟩

example (orc : Oracles) : ∃ p, build orc { group := some (some ".k".toList) } = .ok p ∧ p.cfgs = [.group dotK] := by
  obtain ⟨p, h1, h2, -⟩ := only_group orc ".k".toList dotK parseOptionExpr_k
  exact ⟨p, h1, h2⟩

/-! ### H: C03 — repeated options keep their command-line order -/

theorem mapRes_ok_iff {α β} (f : α → Except Fail β) (l : List α) (ys : List β) :
    mapRes f l = .ok ys ↔ l.map f = ys.map .ok := by
  induction l generalizing ys with
  | nil =>
    cases ys with
    | nil => simp [mapRes]
    | cons y ys => simp [mapRes]
  | cons x l ih =>
    cases ys with
    | nil =>
      simp only [mapRes, bind, Except.bind, List.map_cons, List.map_nil]
      cases f x <;> cases mapRes f l <;> simp
    | cons y ys =>
      rw [List.map_cons, List.map_cons, List.cons.injEq, ← ih ys]
      simp only [mapRes, bind, Except.bind]
      cases f x <;> cases mapRes f l <;> simp

/-- parsing the reversed list gives the reversed results -/
theorem mapRes_reverse {α β} (f : α → Except Fail β) (l : List α) (ys : List β)
    (h : mapRes f l.reverse = .ok ys) : mapRes f l = .ok ys.reverse := by
  rw [mapRes_ok_iff] at h ⊢
  rw [List.map_reverse] at h
  rw [List.map_reverse, ← h, List.reverse_reverse]

def isSelect : StageCfg → Bool
  | .select _ _ => true
  | _ => false

def isSort : StageCfg → Bool
  | .sort _ _ => true
  | _ => false

theorem filter_none {α} (q : α → Bool) (l : List α) (h : ∀ x ∈ l, q x = false) : l.filter q = [] :=
  List.filter_eq_nil_iff.mpr (fun x hx => by simp [h x hx])

theorem filter_all {α} (q : α → Bool) (l : List α) (h : ∀ x ∈ l, q x = true) : l.filter q = l :=
  List.filter_eq_self.mpr h

theorem isSelect_of_noTitle {c : StageCfg} (h : NoTitle c) : isSelect c = false := by
  cases c <;> first | rfl | exact h.elim

theorem back_noSelect (P : Parts) (c : Cfg) (hg : P.grp = [] ∨ (∃ e, P.grp = [.group e]) ∨ P.grp = [.merge]) :
    ∀ x ∈ (P.back c).map (·.1), isSelect x = false := by
  intro x hx
  unfold Parts.back at hx
  simp only [List.map_append, List.mem_append, simple_cfgs] at hx
  rcases hx with (hx | hx) | hx
  · exact isSelect_of_noTitle (sortStages_noTitle _ _ x hx)
  · exact isSelect_of_noTitle (limitStage_noTitle _ _ x hx)
  · rcases hg with hg | ⟨e, hg⟩ | hg <;> rw [hg] at hx
    · cases hx
    · simp only [List.mem_singleton] at hx; subst hx; rfl
    · simp only [List.mem_singleton] at hx; subst hx; rfl

theorem front_cfgs (P : Parts) :
    P.front.map (·.1) = P.pre ++ P.spl ++ P.fil ++ P.sels.reverse.map (fun (n, e) => StageCfg.select n e) := by
  unfold Parts.front front selStages
  simp only [List.map_append, simple_cfgs]

/-- C03 `selects_in_order`: the texts given with `-s` are parsed one by one (`parsed[i]` comes from
`c.selects[i]`), the select stages of the chain are exactly these, in command-line order, placed after
preset / split / filter and before everything else; the titles are the names in that order (none behind a
grouper / merger) -/
theorem selects_in_order (orc : Oracles) (c : Cfg) (p : Pipeline) (h : build orc c = .ok p) :
    ∃ (parsed : List (Str × Expr)) (A B : List StageCfg),
      mapRes (fun s => cfgErr (parseSelection s)) c.selects = .ok parsed ∧
      c.selects.map (fun s => cfgErr (parseSelection s)) = parsed.map .ok ∧
      p.cfgs = A ++ parsed.map (fun (n, e) => StageCfg.select n e) ++ B ∧
      (∀ x ∈ A, isSelect x = false) ∧ (∀ x ∈ B, isSelect x = false) ∧
      p.cfgs.filter isSelect = parsed.map (fun (n, e) => StageCfg.select n e) ∧
      (c.group = none → p.titles = parsed.map (·.1)) ∧
      (c.group ≠ none → p.titles = []) := by
  obtain ⟨P, hP, rfl⟩ := (build_parts_iff orc c p).mp h
  have hsel := mapRes_reverse _ _ _ hP.2.2.2.1
  have hcf : (P.pipeline c).cfgs
      = (P.pre ++ P.spl ++ P.fil) ++ P.sels.reverse.map (fun (n, e) => StageCfg.select n e)
        ++ ((uniqStage c.unique).map (·.1) ++ (P.back c).map (·.1)) := by
    rw [(pipeline_chain P c).1]
    simp only [List.map_append, front_cfgs, List.append_assoc]
  have hA : ∀ x ∈ P.pre ++ P.spl ++ P.fil, isSelect x = false := by
    intro x hx
    simp only [List.mem_append] at hx
    rcases hx with (hx | hx) | hx
    · rcases prePart_shape hP.2.2.2.2.2.2 with hf | ⟨v, d, hf⟩ <;> rw [hf] at hx
      · cases hx
      · simp only [List.mem_singleton] at hx; subst hx; rfl
    · rcases splPart_shape hP.2.2.2.2.2.1 with hf | ⟨e, hf⟩ <;> rw [hf] at hx
      · cases hx
      · simp only [List.mem_singleton] at hx; subst hx; rfl
    · rcases filPart_shape hP.2.2.2.2.1 with hf | ⟨e, hf⟩ <;> rw [hf] at hx
      · cases hx
      · simp only [List.mem_singleton] at hx; subst hx; rfl
  have hB : ∀ x ∈ (uniqStage c.unique).map (·.1) ++ (P.back c).map (·.1), isSelect x = false := by
    intro x hx
    rcases List.mem_append.mp hx with hx | hx
    · exact isSelect_of_noTitle (uniqStage_noTitle _ x hx)
    · exact back_noSelect P c (grpPart_shape hP.2.1) x hx
  have hS : ∀ x ∈ P.sels.reverse.map (fun (n, e) => StageCfg.select n e), isSelect x = true := by
    intro x hx
    obtain ⟨y, -, rfl⟩ := List.mem_map.mp hx
    rfl
  refine ⟨P.sels.reverse, _, _, hsel, (mapRes_ok_iff _ _ _).mp hsel, hcf, hA, hB, ?_, ?_, ?_⟩
  · rw [hcf, List.filter_append, List.filter_append, filter_none _ _ hA, filter_none _ _ hB,
      filter_all _ _ hS]
    simp
  · intro hg
    have hgrp : P.grp = [] := by
      have := hP.2.1
      rw [grpPart_of_none hg] at this
      exact (Except.ok.inj this).symm
    rw [titles_pipeline hP, if_pos hgrp]
    rfl
  · intro hg
    have hgrp : P.grp ≠ [] := by
      intro h0
      cases hgo : c.group with
      | none => exact hg hgo
      | some o =>
        cases o with
        | none =>
          have := hP.2.1
          rw [grpPart_of_merge hgo, h0] at this
          cases this
        | some g =>
          obtain ⟨e, -, he⟩ := grpPart_of_group hgo hP.2.1
          rw [h0] at he
          cases he
    rw [titles_pipeline hP, if_neg hgrp]

theorem zip_cfgs_sts (L : Pairs) : (L.map (·.1)).zip (L.map (·.2)) = L := by
  rw [List.zip_map']
  simp

theorem isSort_of_stateless {c : StageCfg} (h : StageCfg.stateless c = true) : isSort c = false := by
  cases c <;> first | rfl | exact absurd h (by simp [StageCfg.stateless])

/-- C03 `sorts_in_order`: the sort stages of the chain are the parsed `--sort-by` options in REVERSE
command-line order (last given outermost = applied first), all unbounded except the first given one, which
sits next to the limiter and is bounded by `skip + take` -/
theorem sorts_in_order (orc : Oracles) (c : Cfg) (p : Pipeline) (h : build orc c = .ok p) :
    ∃ sorters : List (Expr × Bool),
      mapRes (fun s => cfgErr (parseSorter s)) c.sorts = .ok sorters ∧
      c.sorts.map (fun s => cfgErr (parseSorter s)) = sorters.map .ok ∧
      (p.cfgs.zip p.sts).filter (fun x => isSort x.1)
        = sortStages (c.take.map (fun t => c.skip + t)) sorters ∧
      p.cfgs.filter isSort = (sorters.map (fun x => StageCfg.sort x.1 x.2)).reverse := by
  obtain ⟨P, hP, rfl⟩ := (build_parts_iff orc c p).mp h
  have hz : (P.pipeline c).cfgs.zip (P.pipeline c).sts
      = P.front ++ uniqStage c.unique ++ P.back c := by
    rw [(pipeline_chain P c).1, (pipeline_chain P c).2, zip_cfgs_sts]
  have h1 : ∀ x ∈ P.front, isSort x.1 = false :=
    fun x hx => isSort_of_stateless (front_stateless hP x hx)
  have h2 : ∀ x ∈ uniqStage c.unique, isSort x.1 = false := by
    intro x hx
    cases hu : c.unique <;> rw [hu] at hx
    · cases hx
    · simp only [uniqStage, simple, if_true, List.map_cons, List.map_nil, List.mem_singleton] at hx
      subst hx; rfl
  have h3 : ∀ x ∈ sortStages (c.take.map (fun t => c.skip + t)) P.sorters, isSort x.1 = true := by
    intro x hx
    unfold sortStages at hx
    simp only [List.mem_reverse, List.mem_map] at hx
    obtain ⟨y, -, rfl⟩ := hx
    rfl
  have h4 : ∀ x ∈ limitStage c.skip c.take, isSort x.1 = false := by
    intro x hx
    unfold limitStage simple at hx
    split at hx
    · cases hx
    · simp only [List.map_cons, List.map_nil, List.mem_singleton] at hx
      subst hx; rfl
  have h5 : ∀ x ∈ simple P.grp, isSort x.1 = false := by
    intro x hx
    unfold simple at hx
    obtain ⟨y, hy, rfl⟩ := List.mem_map.mp hx
    rcases grpPart_shape hP.2.1 with hg | ⟨e, hg⟩ | hg <;> rw [hg] at hy
    · cases hy
    · simp only [List.mem_singleton] at hy; subst hy; rfl
    · simp only [List.mem_singleton] at hy; subst hy; rfl
  have hpairs : ((P.pipeline c).cfgs.zip (P.pipeline c).sts).filter (fun x => isSort x.1)
      = sortStages (c.take.map (fun t => c.skip + t)) P.sorters := by
    rw [hz]
    unfold Parts.back
    simp only [List.filter_append]
    rw [filter_none _ _ h1, filter_none _ _ h2, filter_all _ _ h3, filter_none _ _ h4, filter_none _ _ h5]
    simp
  refine ⟨P.sorters, hP.2.2.1, (mapRes_ok_iff _ _ _).mp hP.2.2.1, hpairs, ?_⟩
  have : (P.pipeline c).cfgs.filter isSort
      = (((P.pipeline c).cfgs.zip (P.pipeline c).sts).filter (fun x => isSort x.1)).map (·.1) := by
    rw [hz]
    rw [(pipeline_chain P c).1]
    generalize P.front ++ uniqStage c.unique ++ P.back c = L
    induction L with
    | nil => rfl
    | cons x L ih =>
      simp only [List.map_cons, List.filter_cons]
      split <;> simp [ih]
  rw [this, hpairs]
  unfold sortStages
  rw [List.map_reverse, List.map_map]
  congr 1
  rw [← List.zipIdx_map_fst 0 P.sorters, List.map_map, List.zipIdx_map_fst]
  rfl

/-- C03 `sorts_first_most_significant`: `--sort-by K1 --sort-by K2` yields the stages
`[sort K2 (unbounded), sort K1 (bounded by skip + take)]` in that order: the rows are sorted by `K2` first and
then stably by `K1`, so the first given key is the most significant one -/
theorem sorts_first_most_significant (orc : Oracles) (c : Cfg) (p : Pipeline) (h : build orc c = .ok p)
    (k1 k2 : Str) (hs : c.sorts = [k1, k2]) (e1 e2 : Expr) (d1 d2 : Bool)
    (h1 : parseSorter k1 = .ok (e1, d1)) (h2 : parseSorter k2 = .ok (e2, d2)) :
    (p.cfgs.zip p.sts).filter (fun x => isSort x.1)
        = [(.sort e2 d2, .sort [] none), (.sort e1 d1, .sort [] (c.take.map (fun t => c.skip + t)))] ∧
      p.cfgs.filter isSort = [.sort e2 d2, .sort e1 d1] := by
  obtain ⟨sorters, -, hm, hz, hc⟩ := sorts_in_order orc c p h
  rw [hs] at hm
  have : sorters = [(e1, d1), (e2, d2)] := by
    simp only [List.map_cons, List.map_nil, h1, h2, cfgErr] at hm
    match sorters, hm with
    | [a, b], hm =>
      simp only [List.map_cons, List.map_nil, List.cons.injEq, Except.ok.injEq, and_true] at hm
      rw [← hm.1, ← hm.2]
  subst this
  exact ⟨hz, hc⟩

/-- the function computed with two sort keys and nothing else: sort by `K2`, then stably by `K1` -/
theorem two_sorts (orc : Oracles) (k1 k2 : Str) (e1 e2 : Expr) (d1 d2 : Bool)
    (h1 : parseSorter k1 = .ok (e1, d1)) (h2 : parseSorter k2 = .ok (e2, d2)) :
    ∃ p, build orc { sorts := [k1, k2] } = .ok p ∧ p.cfgs = [.sort e2 d2, .sort e1 d1] ∧
      ∀ rows, R orc p rows
        = (SortSpec.sortDir JV.cmp (·.1) d1 (keyed (evalT orc) e1
            ((SortSpec.sortDir JV.cmp (·.1) d2 (keyed (evalT orc) e2 rows)).map (·.2)))).map (·.2) := by
  refine ⟨_, (build_parts_iff orc _ _).mpr
    ⟨⟨defaultSink, [], [(e1, d1), (e2, d2)], [], [], [], []⟩, ⟨rfl, rfl, ?_, rfl, rfl, rfl, rfl⟩, rfl⟩, rfl,
    fun _ => rfl⟩
  show mapRes _ [k1, k2] = _
  simp only [mapRes, h1, h2, cfgErr, bind, Except.bind]

/-! #### non-vacuity (C03, order) -/

/-- `-s .k=x -s .k=x` … two selections and two sorters -/
def exOrder : Cfg := { selects := [".k=x".toList, ".k".toList], sorts := [".k".toList, ".k".toList] }

theorem parseSelection_k : parseSelection ".k".toList = .ok (".k".toList, dotK) :=
  isExtractSel_sound (n := ".k".toList) (steps := [Jawk.Step.key "k".toList])
    (r := parseSelection ".k".toList) (by decide +kernel)

theorem exOrder_builds (orc : Oracles) : ∃ p, build orc exOrder = .ok p :=
  ⟨_, (build_parts_iff orc _ _).mpr
    ⟨⟨defaultSink, [], [(dotK, false), (dotK, false)], [(".k".toList, dotK), ("x".toList, dotK)], [], [], []⟩,
      ⟨rfl, rfl, by show mapRes _ [_, _] = _; simp only [mapRes, parseSorter_k, cfgErr, bind, Except.bind],
        by show mapRes _ [_, _] = _
           simp only [mapRes, parseSelection_k, parseSelection_kx, cfgErr, bind, Except.bind],
        rfl, rfl, rfl⟩, rfl⟩⟩

example (orc : Oracles) : ∃ p, build orc exOrder = .ok p ∧ p.titles = ["x".toList, ".k".toList] := by
  obtain ⟨p, hp⟩ := exOrder_builds orc
  obtain ⟨parsed, A, B, -, hm, -, -, -, -, ht, -⟩ := selects_in_order orc exOrder p hp
  refine ⟨p, hp, ?_⟩
  rw [ht rfl]
  simp only [exOrder, List.map_cons, List.map_nil, parseSelection_k, parseSelection_kx, cfgErr] at hm
  match parsed, hm with
  | [a, b], hm =>
    simp only [List.map_cons, List.map_nil, List.cons.injEq, Except.ok.injEq, and_true] at hm
    rw [← hm.1, ← hm.2]
    rfl

/-! ### I: back to whole runs -/

/-- the rows read depend on the configuration only through `--only-objects-and-arrays` -/
theorem ctxsOf_congr (c c' : Cfg) (h : c.onlyObjectsAndArrays = c'.onlyObjectsAndArrays)
    (fuel : Nat) (r : Reader) (inFile idx : Nat) : ctxsOf c fuel r inFile idx = ctxsOf c' fuel r inFile idx := by
  induction fuel generalizing r inFile idx with
  | zero => rfl
  | succ fuel ih =>
    unfold ctxsOf
    rw [h]
    split
    · split
      · exact ih _ _ _
      · rw [ih]
    · rfl
    · split
      · exact ih _ _ _
      · rfl

theorem ctxsOfSources_congr (c c' : Cfg) (h : c.onlyObjectsAndArrays = c'.onlyObjectsAndArrays)
    (sources : List Source) (idx : Nat) : ctxsOfSources c sources idx = ctxsOfSources c' sources idx := by
  induction sources generalizing idx with
  | nil => rfl
  | cons src rest ih =>
    unfold ctxsOfSources
    simp only [ctxsOf_congr c c' h, ih]

/-- C08 at run level (no grouping, policy `ignore`): stdout of the run with `--skip S --take T` is the
header followed by the printed form of rows `S .. S+T-1` of the rows the run without them prints; both runs
read the same rows, use the same sink and print the same header -/
theorem run_skip_take (orc : Oracles) (c : Cfg) (sources : List Source) (wOut wErr : Writer) (p : Pipeline)
    (hpol : c.onError = .ignore) (hb : build orc c = .ok p) (hg : c.group = none)
    (hna : NoAbort orc p.cfgs) (hw : Unbounded wOut) (hcl : CleanIO sources) (hh : ¬ HeaderMissing p) :
    ∃ p0, build orc { c with skip := 0, take := none } = .ok p0 ∧
      headerBytes p0 = headerBytes p ∧
      (run orc c sources wOut wErr).result = .ok () ∧
      (run orc c sources wOut wErr).stdout
        = wOut.out ++ headerBytes p0 ++
          (takeOpt c.take
            ((R orc p0 (ctxsOfSources { c with skip := 0, take := none } sources 0)).drop c.skip)).flatMap
            (sinkBytes p0.sink p0.sinkLen) := by
  obtain ⟨p0, hp0, hr⟩ := skip_take_config orc c p hb hg
  obtain ⟨p0', hp0', hsink, htitles, hlen⟩ := skip_take_build orc c p hb
  rw [hp0] at hp0'
  cases hp0'
  obtain ⟨h1, h2, -⟩ := run_ignore_spec orc c sources wOut wErr p hpol hb hna hw hcl hh
  have hhdr : headerBytes p0 = headerBytes p := by
    unfold headerBytes
    rw [hsink, htitles]
  refine ⟨p0, hp0, hhdr, h1, ?_⟩
  rw [h2, hhdr, hsink, hlen, ← ctxsOfSources_congr c { c with skip := 0, take := none } rfl]
  congr 2
  exact hr _

theorem exWindow_noAbort (orc : Oracles) : NoAbort orc (exWindowParts.pipeline exWindow).cfgs := by
  intro c hc e he ctx
  have hcf : (exWindowParts.pipeline exWindow).cfgs
      = [.select "x".toList dotK, .sort dotK false, .limit 1 (some 2)] := rfl
  rw [hcf] at hc
  simp only [List.mem_cons, List.not_mem_nil, or_false] at hc
  rcases hc with rfl | rfl | rfl <;>
    simp only [stageExprs, List.mem_singleton, List.not_mem_nil] at he <;>
    subst he <;> exact ⟨_, by simp only [evalFuel, eval]; rfl⟩

/-- non-vacuity of `run_skip_take`: every hypothesis holds for `exWindow` on any plain-byte sources -/
example (orc : Oracles) (l : List (Option Str × List Byte)) :
    ∃ p0, build orc { exWindow with skip := 0, take := none } = .ok p0 ∧
      (run orc exWindow (l.map (fun x => ⟨x.1, cleanInput x.2⟩)) {} {}).result = .ok () := by
  obtain ⟨p0, h1, -, h2, -⟩ := run_skip_take orc exWindow (l.map (fun x => ⟨x.1, cleanInput x.2⟩)) {} {} _ rfl
    (exWindow_builds orc) rfl (exWindow_noAbort orc) ⟨rfl, rfl⟩ (cleanIO_of_bytes l) (fun h => h)
  exact ⟨p0, h1, h2⟩

end Jawk.RunCor

/- axiom audit (all ⊆ {propext, Classical.choice, Quot.sound}):
#print axioms Jawk.RunCor.build_ok_iff
#print axioms Jawk.RunCor.skip_take_config
#print axioms Jawk.RunCor.skip_take_config_group
#print axioms Jawk.RunCor.skip_take_config_merge
#print axioms Jawk.RunCor.skip_take_build
#print axioms Jawk.RunCor.group_config
#print axioms Jawk.RunCor.merge_config
#print axioms Jawk.RunCor.group_one_row
#print axioms Jawk.RunCor.group_config_empty
#print axioms Jawk.RunCor.unique_config
#print axioms Jawk.RunCor.unique_config_plain
#print axioms Jawk.RunCor.absent_options_identity
#print axioms Jawk.RunCor.only_filter
#print axioms Jawk.RunCor.only_select
#print axioms Jawk.RunCor.only_skip_take
#print axioms Jawk.RunCor.only_sort
#print axioms Jawk.RunCor.selects_in_order
#print axioms Jawk.RunCor.sorts_in_order
#print axioms Jawk.RunCor.sorts_first_most_significant
#print axioms Jawk.RunCor.two_sorts
#print axioms Jawk.RunCor.run_skip_take
-/
