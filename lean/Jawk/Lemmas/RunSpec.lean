/-
  A whole run writes exactly the documented composition of what it reads (C03, C01, C06, C11, C17).

  `run = build → sinkStart → readSources → complete`; under a policy that does not stop at malformed
  input (`ignore`, `stderr`), with no I/O error in the sources, a writer that never fails and no aborting
  expression, the bytes on stdout are the header followed by the sink's bytes of
  `specRows (ctxsOfSources …)`.
-/
import Jawk.Spec.Run
import Jawk.Lemmas.PipelineSpec
import Jawk.Lemmas.Fuel
namespace Jawk.RunSpec
open Jawk Jawk.Pipe Jawk.Fuel Reader

/-! ### A: a reader without I/O error items never reports `.io` -/

/-- no I/O error item is left in the underlying stream -/
def Clean (r : Reader) : Prop := ∀ it ∈ r.rest, it ≠ RItem.err

/-- on clean readers the action never reports `.io` and leaves a clean reader -/
structure PClean {α} (m : PM α) : Prop where
  clean : ∀ r, Clean r → (m r).1 ≠ .error .io ∧ Clean (m r).2

theorem pclean_pure {α} (a : α) : PClean (pure a : PM α) :=
  ⟨fun _ h => ⟨(fun e => by cases e), h⟩⟩

theorem pclean_fail {α} : PClean (PM.fail .outOfFuel : PM α) :=
  ⟨fun _ h => ⟨(fun e => by cases e), h⟩⟩

theorem pclean_locErr {α} (mk : Loc → PErr) (hmk : ∀ l, mk l ≠ .io) : PClean (locErr mk : PM α) :=
  ⟨fun r h => ⟨fun e => hmk r.loc (Except.error.inj e), h⟩⟩

theorem pclean_bind {α β} {m : PM α} {f : α → PM β} (hm : PClean m) (hf : ∀ a, PClean (f a)) :
    PClean (m >>= f) := by
  constructor
  intro r hr
  have h1 := hm.clean r hr
  simp only [PM.bind_apply]
  cases h : m r with
  | mk res r1 =>
    rw [h] at h1
    cases res with
    | error e =>
      dsimp only at h1 ⊢
      exact ⟨fun h' => h1.1 (by cases h'; rfl), h1.2⟩
    | ok a => dsimp only; exact (hf a).clean r1 h1.2

theorem next_pclean : PClean Reader.next := by
  constructor
  intro r hr
  cases r with
  | mk rest cur eof loc pulled =>
    cases eof with
    | true => exact ⟨(fun e => by cases e), hr⟩
    | false =>
      cases rest with
      | nil => exact ⟨(fun e => by cases e), (fun _ h => by cases h)⟩
      | cons it rest =>
        cases it with
        | err => exact absurd rfl (hr RItem.err List.mem_cons_self)
        | byte b =>
          exact ⟨(fun e => by cases e), fun it h => hr it (List.mem_cons_of_mem _ h)⟩

theorem peek_pclean : PClean Reader.peek := by
  constructor
  intro r hr
  unfold Reader.peek
  split
  · exact ⟨(fun e => by cases e), hr⟩
  · exact next_pclean.clean r hr

macro "pclean_step" : tactic => `(tactic| first
  | with_reducible exact pclean_pure _
  | with_reducible exact pclean_fail
  | with_reducible exact pclean_locErr _ (fun _ h => by cases h)
  | with_reducible exact next_pclean
  | with_reducible exact peek_pclean
  | with_reducible assumption
  | with_reducible apply pclean_bind
  | intro _
  | split)

syntax "pclean" ("[" term,* "]")? : tactic
macro_rules
  | `(tactic| pclean) => `(tactic| repeat' pclean_step)
  | `(tactic| pclean [$ts,*]) =>
    `(tactic| repeat' (first | pclean_step $[| with_reducible exact $ts]*))

theorem eatWhitespace_pclean (fuel : Nat) : PClean (eatWhitespace fuel) := by
  induction fuel with
  | zero => exact pclean_fail
  | succ fuel ih => unfold eatWhitespace; pclean

theorem readDigits_pclean (fuel : Nat) (acc : List Byte) : PClean (readDigits fuel acc) := by
  induction fuel generalizing acc with
  | zero => exact pclean_fail
  | succ fuel ih => unfold readDigits; pclean [ih _]

theorem readWordTail_pclean (word : String) (es : List Byte) : PClean (readWordTail word es) := by
  induction es with
  | nil => unfold readWordTail; pclean
  | cons e es ih => unfold readWordTail; pclean

theorem readHex4_pclean (k acc : Nat) : PClean (readHex4 k acc) := by
  induction k generalizing acc with
  | zero => exact pclean_pure _
  | succ k ih => unfold readHex4; pclean [ih _]

theorem readStringLoop_pclean (fuel : Nat) (acc : List Byte) : PClean (readStringLoop fuel acc) := by
  induction fuel generalizing acc with
  | zero => exact pclean_fail
  | succ fuel ih => unfold readStringLoop; pclean [ih _, readHex4_pclean _ _]

theorem parseToDouble_pclean (t : List Byte) : PClean (parseToDouble t) := by
  unfold parseToDouble; pclean

theorem readNumber_pclean (fuel : Nat) : PClean (readNumber fuel) := by
  unfold readNumber
  pclean [readDigits_pclean _ _, parseToDouble_pclean _]

structure ValueClean (fuel : Nat) : Prop where
  value : PClean (nextValue fuel)
  array : PClean (readArray fuel)
  arrayLoop : ∀ acc, PClean (readArrayLoop fuel acc)
  object : PClean (readObject fuel)
  objectLoop : ∀ acc, PClean (readObjectLoop fuel acc)

theorem valueClean (fuel : Nat) : ValueClean fuel := by
  induction fuel with
  | zero =>
    refine ⟨?_, ?_, fun _ => ?_, ?_, fun _ => ?_⟩
    · unfold nextValue; exact pclean_fail
    · unfold readArray; exact pclean_fail
    · unfold readArrayLoop; exact pclean_fail
    · unfold readObject; exact pclean_fail
    · unfold readObjectLoop; exact pclean_fail
  | succ fuel ih =>
    refine ⟨?_, ?_, fun _ => ?_, ?_, fun _ => ?_⟩
    · unfold nextValue
      pclean [eatWhitespace_pclean _, readWordTail_pclean _ _, readStringLoop_pclean _ _,
        readNumber_pclean _, ih.array, ih.object]
    · unfold readArray
      pclean [eatWhitespace_pclean _, ih.arrayLoop _]
    · unfold readArrayLoop
      pclean [eatWhitespace_pclean _, ih.arrayLoop _, ih.value]
    · unfold readObject
      pclean [eatWhitespace_pclean _, ih.objectLoop _]
    · unfold readObjectLoop
      pclean [eatWhitespace_pclean _, ih.objectLoop _, ih.value]

/-- on a reader without I/O error items `nextJson` never reports `.io`, and the reader stays clean -/
theorem nextJson_clean (r : Reader) (h : Clean r) :
    (Reader.nextJson r).1 ≠ .error .io ∧ Clean (Reader.nextJson r).2 :=
  (valueClean _).value.clean r h

theorem nextJson_canRecover {r r' : Reader} {e : PErr} (h : Clean r)
    (hn : Reader.nextJson r = (.error e, r')) : e.canRecover = true := by
  have := (nextJson_clean r h).1
  rw [hn] at this
  cases e <;> first | rfl | exact absurd rfl this

theorem clean_ofItems (items : List RItem) (name : Option Str) (h : ∀ it ∈ items, it ≠ RItem.err) :
    Clean (Reader.ofItems items name) := h

/-! ### B: the pure feeder over a concatenation -/

theorem feedBrk_append_brk (next : List StageSt → Ctx → Pipe.Step) (s : List StageSt) (A B : List Ctx)
    (h : (feedBrk next s A).2.2 = .brk) : feedBrk next s (A ++ B) = feedBrk next s A := by
  induction A generalizing s with
  | nil => simp [feedBrk] at h
  | cons x A ih =>
    rcases hx : next s x with ⟨s1, o1, d⟩
    cases d with
    | brk => rw [List.cons_append, feedBrk_cons_brk hx, feedBrk_cons_brk hx]
    | cont =>
      rw [feedBrk_cons_cont hx] at h
      rw [List.cons_append, feedBrk_cons_cont hx, feedBrk_cons_cont hx, ih s1 h]

theorem feedBrk_append_cont (next : List StageSt → Ctx → Pipe.Step) (s : List StageSt) (A B : List Ctx)
    (h : (feedBrk next s A).2.2 = .cont) :
    feedBrk next s (A ++ B)
      = ((feedBrk next (feedBrk next s A).1 B).1,
         (feedBrk next s A).2.1 ++ (feedBrk next (feedBrk next s A).1 B).2.1,
         (feedBrk next (feedBrk next s A).1 B).2.2) := by
  induction A generalizing s with
  | nil => simp [feedBrk]
  | cons x A ih =>
    rcases hx : next s x with ⟨s1, o1, d⟩
    cases d with
    | brk => rw [feedBrk_cons_brk hx] at h; cases h
    | cont =>
      rw [feedBrk_cons_cont hx] at h
      rw [List.cons_append, feedBrk_cons_cont hx, feedBrk_cons_cont hx, ih s1 h]
      simp

/-! ### C: the read loop under a policy that goes on after malformed input -/

/-- the recoverable errors the loop meets before it stops (at end of input, at an I/O error, or when the
chain answers `Break`) -/
def errsOf (ev : Expr → Ctx → Option JV) (c : Cfg) (cfgs : List StageCfg) :
    Nat → Reader → Nat → Nat → List StageSt → List PErr
  | 0, _, _, _, _ => []
  | fuel + 1, r, inFile, idx, sts =>
    match r.nextJson with
    | (.ok (some v), r') =>
      if c.onlyObjectsAndArrays && !v.isObjOrArr then errsOf ev c cfgs fuel r' inFile idx sts
      else
        match processP ev cfgs sts
          { input := v, ictx := some { startLoc := r.loc, endLoc := r'.loc, fileIndex := inFile, index := idx } } with
        | (_, _, .brk) => []
        | (s1, _, .cont) => errsOf ev c cfgs fuel r' (inFile + 1) (idx + 1) s1
    | (.ok none, _) => []
    | (.error e, r') => if e.canRecover then e :: errsOf ev c cfgs fuel r' inFile idx sts else []

/-- the error writer after the reports of `errs`, under policy `stderr`; untouched otherwise -/
def errW (c : Cfg) (w : Writer) (errs : List PErr) : Writer :=
  if c.onError = .stderr then wappend w (errs.flatMap reportBytes) else w

theorem errW_nil (c : Cfg) (w : Writer) : errW c w [] = w := by
  unfold errW; split <;> simp [wappend_nil]

theorem errW_ignore {c : Cfg} (h : c.onError = .ignore) (w : Writer) (errs : List PErr) :
    errW c w errs = w := by
  simp [errW, h]

theorem errW_cons_stderr {c : Cfg} (h : c.onError = .stderr) (w : Writer) (e : PErr) (errs : List PErr) :
    errW c w (e :: errs) = errW c (wappend w (reportBytes e)) errs := by
  simp [errW, h, wappend_wappend]

/-- the rows the loop reads, abbreviated -/
abbrev loopRes (orc : Oracles) (c : Cfg) (p : Pipeline) (fuel : Nat) (r : Reader) (inFile : Nat)
    (s : RunState) : Pipe.Step :=
  feedBrk (processP (evalT orc) p.cfgs) s.sts (ctxsOf c fuel r inFile s.index)

/-- Item 3 (general form, policies `ignore` and `stderr`): the read loop is the pure feeder on the rows
`ctxsOf` describes -/
theorem readLoop_spec (orc : Oracles) (c : Cfg) (p : Pipeline)
    (hpol : c.onError = .ignore ∨ c.onError = .stderr) (hna : NoAbort orc p.cfgs)
    (fuel : Nat) (r : Reader) (inFile : Nat) (s : RunState)
    (hw : Unbounded s.out) (he : c.onError = .stderr → Unbounded s.err)
    (hs : Shape p.cfgs s.sts) (hwf : WF r) (hcl : Clean r) (hf : μ r + 1 ≤ fuel) :
    ∃ s' r', readLoop orc c p fuel r inFile s = .ok (s', r', (loopRes orc c p fuel r inFile s).2.2)
      ∧ s'.sts = (loopRes orc c p fuel r inFile s).1
      ∧ s'.out = wappend s.out ((loopRes orc c p fuel r inFile s).2.1.flatMap (sinkBytes p.sink p.sinkLen))
      ∧ s'.err = errW c s.err (errsOf (evalT orc) c p.cfgs fuel r inFile s.index s.sts)
      ∧ ((loopRes orc c p fuel r inFile s).2.2 = .cont →
          s'.index = s.index + (ctxsOf c fuel r inFile s.index).length)
      ∧ Shape p.cfgs s'.sts := by
  induction fuel generalizing r inFile s with
  | zero => omega
  | succ fuel ih =>
    have hm := nextJson_mono r
    have hc2 := (nextJson_clean r hcl).2
    rcases hn : r.nextJson with ⟨res, r'⟩
    rw [hn] at hm hc2
    cases res with
    | error e =>
      have hp := nextJson_progress r hwf hn (by intro h; cases h)
      have hrec := nextJson_canRecover hcl hn
      simp only [loopRes, readLoop, ctxsOf, errsOf, hn, hrec, if_true]
      rcases hpol with hpol | hpol
      · obtain ⟨s', r'', h1, h2, h3, h4, h5, h6⟩ :=
          ih r' inFile s hw he hs (hm.wf hwf) hc2 (by omega)
        refine ⟨s', r'', ?_, h2, h3, ?_, h5, h6⟩
        · simpa [hpol] using h1
        · rw [h4, errW_ignore hpol, errW_ignore hpol]
      · have hpe := put_unbounded (he hpol) (reportBytes e)
        obtain ⟨s', r'', h1, h2, h3, h4, h5, h6⟩ :=
          ih r' inFile { s with err := wappend s.err (reportBytes e) } hw (fun _ => hpe.2) hs
            (hm.wf hwf) hc2 (by omega)
        refine ⟨s', r'', ?_, h2, h3, ?_, h5, h6⟩
        · simpa [hpol, hpe.1, hpe.2.2] using h1
        · rw [h4, errW_cons_stderr hpol]
    | ok o =>
      cases o with
      | none =>
        simp only [loopRes, readLoop, ctxsOf, errsOf, hn, feedBrk]
        exact ⟨s, r', rfl, rfl, by simp [wappend_nil], by rw [errW_nil], fun _ => rfl, hs⟩
      | some v =>
        have hp := nextJson_progress r hwf hn (by intro h; cases h)
        simp only [loopRes, readLoop, ctxsOf, errsOf, hn]
        split
        · exact ih r' inFile s hw he hs (hm.wf hwf) hc2 (by omega)
        · obtain ⟨p1, p2⟩ := process_pure orc p.sink p.sinkLen p.cfgs s.sts s.out
            { input := v, ictx := some { startLoc := r.loc, endLoc := r'.loc, fileIndex := inFile, index := s.index } }
            hna hw hs
          rcases hP : processP (evalT orc) p.cfgs s.sts
            { input := v, ictx := some { startLoc := r.loc, endLoc := r'.loc, fileIndex := inFile, index := s.index } }
            with ⟨s1, o1, d⟩
          rw [hP] at p1 p2
          cases d with
          | brk =>
            rw [feedBrk_cons_brk hP]
            simp only [p1]
            exact ⟨_, r', rfl, rfl, rfl, by rw [errW_nil], (fun h => by cases h), p2⟩
          | cont =>
            rw [feedBrk_cons_cont hP]
            simp only [p1]
            obtain ⟨s', r'', h1, h2, h3, h4, h5, h6⟩ :=
              ih r' (inFile + 1) { s with sts := s1, out := wappend s.out (o1.flatMap (sinkBytes p.sink p.sinkLen)),
                                          index := s.index + 1 }
                (hw.wappend _) he p2 (hm.wf hwf) hc2 (by omega)
            refine ⟨s', r'', h1, h2, ?_, h4, ?_, h6⟩
            · rw [h3, wappend_wappend, List.flatMap_append]
            · intro hd
              rw [h5 hd]
              simp only [List.length_cons]
              omega

/-- Item 3 as stated: policy `ignore` -/
theorem readLoop_ignore (orc : Oracles) (c : Cfg) (p : Pipeline)
    (hpol : c.onError = .ignore) (hna : NoAbort orc p.cfgs)
    (fuel : Nat) (r : Reader) (inFile : Nat) (s : RunState)
    (hw : Unbounded s.out) (hs : Shape p.cfgs s.sts) (hwf : WF r) (hcl : Clean r) (hf : μ r + 1 ≤ fuel) :
    ∃ s' r', readLoop orc c p fuel r inFile s = .ok (s', r', (loopRes orc c p fuel r inFile s).2.2)
      ∧ s'.sts = (loopRes orc c p fuel r inFile s).1
      ∧ s'.out = wappend s.out ((loopRes orc c p fuel r inFile s).2.1.flatMap (sinkBytes p.sink p.sinkLen))
      ∧ s'.err = s.err
      ∧ ((loopRes orc c p fuel r inFile s).2.2 = .cont →
          s'.index = s.index + (ctxsOf c fuel r inFile s.index).length)
      ∧ Shape p.cfgs s'.sts := by
  obtain ⟨s', r', h1, h2, h3, h4, h5, h6⟩ :=
    readLoop_spec orc c p (.inl hpol) hna fuel r inFile s hw (fun h => by rw [hpol] at h; cases h) hs hwf hcl hf
  exact ⟨s', r', h1, h2, h3, by rw [h4, errW_ignore hpol], h5, h6⟩

/-! ### D: the file loop -/

/-- the recoverable errors met in the sources that are opened, before the run stops -/
def errsOfSources (ev : Expr → Ctx → Option JV) (c : Cfg) (cfgs : List StageCfg) :
    List Source → Nat → List StageSt → List PErr
  | [], _, _ => []
  | src :: rest, idx, sts =>
    let r := Reader.ofItems src.items src.name
    let cs := ctxsOf c (src.items.length + 2) r 0 idx
    let res := feedBrk (processP ev cfgs) sts cs
    errsOf ev c cfgs (src.items.length + 2) r 0 idx sts ++
      (match res.2.2 with
        | .brk => []
        | .cont => errsOfSources ev c cfgs rest (idx + cs.length) res.1)

theorem errW_append (c : Cfg) (w : Writer) (a b : List PErr) :
    errW c w (a ++ b) = errW c (errW c w a) b := by
  unfold errW; split <;> simp [wappend_wappend]

theorem errW_unbounded (c : Cfg) {w : Writer} (h : Unbounded w) (errs : List PErr) :
    Unbounded (errW c w errs) := by
  unfold errW; split
  · exact h.wappend _
  · exact h

abbrev srcRes (orc : Oracles) (c : Cfg) (p : Pipeline) (sources : List Source) (s : RunState) : Pipe.Step :=
  feedBrk (processP (evalT orc) p.cfgs) s.sts (ctxsOfSources c sources s.index)

theorem CleanIO.head {src : Source} {rest : List Source} (h : CleanIO (src :: rest)) :
    Clean (Reader.ofItems src.items src.name) := h src List.mem_cons_self

theorem CleanIO.tail {src : Source} {rest : List Source} (h : CleanIO (src :: rest)) : CleanIO rest :=
  fun s hs => h s (List.mem_cons_of_mem _ hs)

/-- Item 4: the file loop is the pure feeder on the rows of all sources; sources after a `Break` are
never opened, and the feeder ignores their rows -/
theorem readSources_spec (orc : Oracles) (c : Cfg) (p : Pipeline)
    (hpol : c.onError = .ignore ∨ c.onError = .stderr) (hna : NoAbort orc p.cfgs)
    (sources : List Source) (s : RunState)
    (hw : Unbounded s.out) (he : c.onError = .stderr → Unbounded s.err)
    (hs : Shape p.cfgs s.sts) (hcl : CleanIO sources) :
    ∃ s', readSources orc c p sources s = .ok s'
      ∧ s'.sts = (srcRes orc c p sources s).1
      ∧ s'.out = wappend s.out ((srcRes orc c p sources s).2.1.flatMap (sinkBytes p.sink p.sinkLen))
      ∧ s'.err = errW c s.err (errsOfSources (evalT orc) c p.cfgs sources s.index s.sts)
      ∧ Shape p.cfgs s'.sts := by
  induction sources generalizing s with
  | nil =>
    refine ⟨s, rfl, rfl, ?_, ?_, hs⟩
    · simp [srcRes, ctxsOfSources, feedBrk, wappend_nil]
    · simp [errsOfSources, errW_nil]
  | cons src rest ih =>
    obtain ⟨s1, r1, h1, h2, h3, h4, h5, h6⟩ :=
      readLoop_spec orc c p hpol hna (src.items.length + 2) (Reader.ofItems src.items src.name) 0 s hw he hs
        (wf_ofItems _ _) hcl.head (by rw [μ_ofItems]; omega)
    simp only [srcRes, readSources, ctxsOfSources, errsOfSources, h1]
    simp only [loopRes] at h1 h2 h3 h4 h5
    rcases hd : (feedBrk (processP (evalT orc) p.cfgs) s.sts
        (ctxsOf c (src.items.length + 2) (Reader.ofItems src.items src.name) 0 s.index)).2.2 with _ | _
    · -- `.cont`: go on with the next source
      have hw1 : Unbounded s1.out := by rw [h3]; exact hw.wappend _
      have he1 : c.onError = .stderr → Unbounded s1.err := fun h => by
        rw [h4]; exact errW_unbounded c (he h) _
      obtain ⟨s', g1, g2, g3, g4, g5⟩ :=
        ih { s1 with pulled := s1.pulled ++ [r1.pulled] } hw1 he1 h6 hcl.tail
      simp only [srcRes] at g1 g2 g3 g4
      have hidx := h5 hd
      rw [feedBrk_append_cont _ _ _ _ hd]
      simp only [show (Decision.cont = Decision.brk) = False from by simp, if_false]
      refine ⟨s', g1, ?_, ?_, ?_, g5⟩
      · rw [g2, hidx, h2]
      · rw [g3, hidx, h2, h3, wappend_wappend, List.flatMap_append]
      · rw [g4, hidx, h2, h4, errW_append]
    · -- `.brk`: the remaining sources are not opened
      rw [feedBrk_append_brk _ _ _ _ hd]
      simp only [if_true]
      refine ⟨_, rfl, h2, h3, ?_, h6⟩
      simp [h4]

/-! ### E: the header -/

/-- the header row is required (`--headers` / csv) but there is no title to print -/
def HeaderMissing (p : Pipeline) : Prop :=
  match p.sink with
  | .json _ _ => False
  | .text o _ => o.headers = true ∧ p.titles = []

/-- Item 2: `start` of the sink on a writer that never fails -/
theorem sinkStart_unbounded (p : Pipeline) {w : Writer} (hw : Unbounded w) (hh : ¬ HeaderMissing p) :
    sinkStart p.sink p.titles w = .ok (wappend w (headerBytes p)) := by
  unfold sinkStart headerBytes
  unfold HeaderMissing at hh
  cases hsk : p.sink with
  | json o sep => simp [wappend_nil]
  | text o sep =>
    rw [hsk] at hh
    simp only at hh ⊢
    cases hhd : o.headers with
    | false => simp [wappend_nil]
    | true =>
      have hne : p.titles ≠ [] := fun h => hh ⟨hhd, h⟩
      have hlen : p.titles.length > 0 := List.length_pos_iff.mpr hne
      simp only [if_true, hlen]
      rw [(putAll_unbounded _ hw).1, wres_unbounded (hw.wappend _)]

theorem sinkStart_headerMissing (p : Pipeline) (w : Writer) (hh : HeaderMissing p) :
    sinkStart p.sink p.titles w = .error ⟨.invalidInput, w⟩ := by
  unfold sinkStart
  unfold HeaderMissing at hh
  cases hsk : p.sink with
  | json o sep => rw [hsk] at hh; exact hh.elim
  | text o sep =>
    rw [hsk] at hh
    simp only at hh ⊢
    simp [hh.1, hh.2]

/-! ### E2: `build` returns an initial chain, grouper / merger last -/

/-- the pair (stage, state) is an initial one -/
def InitPair (c : StageCfg) (st : StageSt) : Prop := Initial [c] [st]

theorem initPair_init (cap : Option Nat) (c : StageCfg) : InitPair c (c.init cap) := by
  cases c <;> simp [InitPair, Initial, StageCfg.init]

theorem initPair_sort (e : Expr) (d : Bool) (cap : Option Nat) : InitPair (.sort e d) (.sort [] cap) := by
  simp [InitPair, Initial]

theorem initial_pairs (L : List (StageCfg × StageSt)) (h : ∀ x ∈ L, InitPair x.1 x.2) :
    Initial (L.map (·.1)) (L.map (·.2)) := by
  induction L with
  | nil => trivial
  | cons x L ih =>
    refine ⟨?_, ih (fun y hy => h y (List.mem_cons_of_mem _ hy))⟩
    have := h x List.mem_cons_self
    exact this.1

/-- not a grouper / merger -/
def NotGrp : StageCfg → Prop
  | .group _ => False
  | .merge => False
  | _ => True

theorem groupLast_append (A G : List StageCfg) (hA : ∀ c ∈ A, NotGrp c) (hG : GroupLast G) :
    GroupLast (A ++ G) := by
  induction A with
  | nil => exact hG
  | cons c A ih =>
    have hc := hA c List.mem_cons_self
    have := ih (fun y hy => hA y (List.mem_cons_of_mem _ hy))
    cases c <;> first | exact hc.elim | exact this

theorem collect_shape (vars : List (Str × JV)) (defs : List (Str × Expr)) (l : List (Str × PreSetVal))
    (r : List StageCfg) (h : build.collect vars defs l = .ok r) : ∃ v d, r = [.preset v d] := by
  induction l generalizing vars defs with
  | nil =>
    unfold build.collect at h
    cases h
    exact ⟨_, _, rfl⟩
  | cons x xs ih =>
    obtain ⟨k, v⟩ := x
    cases v with
    | value v =>
      unfold build.collect at h
      split at h
      · cases h
      · exact ih _ _ h
    | macro_ e =>
      unfold build.collect at h
      split at h
      · cases h
      · exact ih _ _ h

/-- the chain `build` assembles from its parsed parts (outermost first) -/
def assemble (c : Cfg) (pre spl fil : List StageCfg) (sels : List (Str × Expr))
    (sorters : List (Expr × Bool)) (grp : List StageCfg) : List (StageCfg × StageSt) :=
  let simple (l : List StageCfg) : List (StageCfg × StageSt) := l.map (fun s => (s, s.init none))
  simple pre ++ simple spl ++ simple fil ++ simple (sels.reverse.map (fun (n, e) => StageCfg.select n e)) ++
    simple (if c.unique then [.unique] else []) ++
    (sorters.zipIdx.map (fun ((e, desc), i) =>
      (StageCfg.sort e desc, StageSt.sort [] (if i = 0 then c.take.map (fun t => c.skip + t) else none)))).reverse ++
    simple (if c.skip = 0 ∧ c.take.isNone then [] else [.limit c.skip c.take]) ++ simple grp

/-- what a successful `build` returns, part by part -/
theorem build_parts (orc : Oracles) (c : Cfg) (p : Pipeline) (h : build orc c = .ok p) :
    ∃ (pre spl fil : List StageCfg) (sels : List (Str × Expr)) (sorters : List (Expr × Bool))
      (grp : List StageCfg),
      (pre = [] ∨ ∃ vars defs, pre = [.preset vars defs]) ∧
      (spl = [] ∨ ∃ e, spl = [.split e]) ∧
      (fil = [] ∨ ∃ e, fil = [.filter e]) ∧
      mapRes (fun s => cfgErr (parseSelection s)) c.selects.reverse = .ok sels ∧
      mapRes (fun s => cfgErr (parseSorter s)) c.sorts = .ok sorters ∧
      (grp = [] ∨ (∃ e, grp = [.group e]) ∨ grp = [.merge]) ∧
      cfgErr (buildSink c) = .ok p.sink ∧
      p.cfgs = (assemble c pre spl fil sels sorters grp).map (·.1) ∧
      p.sts = (assemble c pre spl fil sels sorters grp).map (·.2) ∧
      p.titles = titlesAtSink p.cfgs [] ∧
      p.sinkLen = p.titles.length := by
  unfold build at h
  simp only [bind, Except.bind] at h
  split at h
  · cases h
  rename_i sink hsink
  split at h
  · cases h
  rename_i grp hgrp
  split at h
  · cases h
  rename_i sorters hsorters
  split at h
  · cases h
  rename_i sels hsels
  split at h
  · cases h
  rename_i fil hfil
  split at h
  · cases h
  rename_i spl hspl
  split at h
  · cases h
  rename_i pre hpre
  refine ⟨pre, spl, fil, sels, sorters, grp, ?_, ?_, ?_, hsels, hsorters, ?_, ?_⟩
  · split at hpre
    · cases hpre; exact .inl rfl
    · split at hpre
      · cases hpre
      · exact .inr (collect_shape _ _ _ _ hpre)
  · split at hspl
    · split at hspl
      · cases hspl
      · cases hspl; exact .inr ⟨_, rfl⟩
    · cases hspl; exact .inl rfl
  · split at hfil
    · split at hfil
      · cases hfil
      · cases hfil; exact .inr ⟨_, rfl⟩
    · cases hfil; exact .inl rfl
  · split at hgrp
    · split at hgrp
      · cases hgrp
      · cases hgrp; exact .inr (.inl ⟨_, rfl⟩)
    · cases hgrp; exact .inr (.inr rfl)
    · cases hgrp; exact .inl rfl
  · cases h
    exact ⟨hsink, rfl, rfl, rfl, rfl⟩

/-- Item 1: what `build` returns is an initial chain whose grouper / merger is last -/
theorem build_initial (orc : Oracles) (c : Cfg) (p : Pipeline) (h : build orc c = .ok p) :
    Initial p.cfgs p.sts ∧ GroupLast p.cfgs ∧ p.sts.length = p.cfgs.length
      ∧ p.sinkLen = p.titles.length := by
  obtain ⟨pre, spl, fil, sels, sorters, grp, hpre, hspl, hfil, -, -, hgrp, -, hc, hs, -, hlen⟩ :=
    build_parts orc c p h
  refine ⟨?_, ?_, ?_, hlen⟩
  · rw [hc, hs]
    apply initial_pairs
    intro x hx
    unfold assemble at hx
    simp only [List.mem_append, List.mem_map, List.mem_reverse] at hx
    rcases hx with ((((((⟨s, -, rfl⟩ | ⟨s, -, rfl⟩) | ⟨s, -, rfl⟩) | ⟨s, -, rfl⟩) | ⟨s, -, rfl⟩) |
      ⟨⟨⟨e, d⟩, i⟩, -, rfl⟩) | ⟨s, -, rfl⟩) | ⟨s, -, rfl⟩
    all_goals first | exact initPair_init _ _ | exact initPair_sort _ _ _
  · rw [hc]
    unfold assemble
    simp only [List.map_append]
    have hg : (grp.map (fun s => (s, StageCfg.init none s))).map (·.1) = grp := by
      simp [List.map_map, Function.comp_def]
    rw [hg]
    apply groupLast_append
    · intro x hx
      simp only [List.mem_append, List.mem_map, List.mem_reverse] at hx
      rcases hx with ((((((⟨_, ⟨s, hm, rfl⟩, rfl⟩ | ⟨_, ⟨s, hm, rfl⟩, rfl⟩) | ⟨_, ⟨s, hm, rfl⟩, rfl⟩) |
        ⟨_, ⟨_, ⟨s, hm, rfl⟩, rfl⟩, rfl⟩) | ⟨_, ⟨s, hm, rfl⟩, rfl⟩) | ⟨_, ⟨s, hm, rfl⟩, rfl⟩) |
        ⟨_, ⟨s, hm, rfl⟩, rfl⟩)
      · rcases hpre with rfl | ⟨v, d, rfl⟩
        · cases hm
        · simp only [List.mem_singleton] at hm; subst hm; trivial
      · rcases hspl with rfl | ⟨e, rfl⟩
        · cases hm
        · simp only [List.mem_singleton] at hm; subst hm; trivial
      · rcases hfil with rfl | ⟨e, rfl⟩
        · cases hm
        · simp only [List.mem_singleton] at hm; subst hm; trivial
      · trivial
      · split at hm
        · simp only [List.mem_singleton] at hm; subst hm; trivial
        · cases hm
      · trivial
      · split at hm
        · cases hm
        · simp only [List.mem_singleton] at hm; subst hm; trivial
    · rcases hgrp with rfl | ⟨e, rfl⟩ | rfl <;> simp [GroupLast]
  · rw [hc, hs]; simp

/-! ### F: the whole run -/

/-- MAIN (general form): policies `ignore` and `stderr`, `Initial`/`GroupLast` as hypotheses -/
theorem run_spec_gen (orc : Oracles) (c : Cfg) (sources : List Source) (wOut wErr : Writer) (p : Pipeline)
    (hpol : c.onError = .ignore ∨ c.onError = .stderr) (hb : build orc c = .ok p)
    (hi : Initial p.cfgs p.sts) (hg : GroupLast p.cfgs)
    (hna : NoAbort orc p.cfgs) (hw : Unbounded wOut) (he : c.onError = .stderr → Unbounded wErr)
    (hcl : CleanIO sources) (hh : ¬ HeaderMissing p) :
    (run orc c sources wOut wErr).result = .ok ()
      ∧ (run orc c sources wOut wErr).stdout
          = wOut.out ++ headerBytes p ++
            (specRows (evalT orc) p.cfgs p.sts (ctxsOfSources c sources 0)).flatMap (sinkBytes p.sink p.sinkLen)
      ∧ (run orc c sources wOut wErr).stderr
          = (errW c wErr (errsOfSources (evalT orc) c p.cfgs sources 0 p.sts)).out := by
  obtain ⟨s', g1, g2, g3, g4, g5⟩ :=
    readSources_spec orc c p hpol hna sources { sts := p.sts, out := wappend wOut (headerBytes p), err := wErr }
      (hw.wappend _) he hi.shape hcl
  have hw' : Unbounded s'.out := by rw [g3]; exact (hw.wappend _).wappend _
  have hcp := complete_pure orc p.sink p.sinkLen p.cfgs s'.sts s'.out hna hw' g5
  have hspec := runP_eq_spec (evalT orc) hi hg (ctxsOfSources c sources 0)
  simp only [run, hb, sinkStart_unbounded p hw hh, g1, hcp]
  refine ⟨trivial, ?_, ?_⟩
  · simp only [wappend_out, g3, g2, srcRes]
    rw [← hspec, runP, List.flatMap_append]
    simp [List.append_assoc]
  · rw [g4]

/-- MAIN (Item 5): under policy `ignore`, a run whose sources have no I/O error, whose stdout never fails
and whose expressions never abort succeeds; stdout receives the header and then the sink's bytes of the
documented composition applied to the rows read; stderr is untouched -/
theorem run_ignore_spec (orc : Oracles) (c : Cfg) (sources : List Source) (wOut wErr : Writer) (p : Pipeline)
    (hpol : c.onError = .ignore) (hb : build orc c = .ok p)
    (hna : NoAbort orc p.cfgs) (hw : Unbounded wOut) (hcl : CleanIO sources) (hh : ¬ HeaderMissing p) :
    (run orc c sources wOut wErr).result = .ok ()
      ∧ (run orc c sources wOut wErr).stdout
          = wOut.out ++ headerBytes p ++
            (specRows (evalT orc) p.cfgs p.sts (ctxsOfSources c sources 0)).flatMap (sinkBytes p.sink p.sinkLen)
      ∧ (run orc c sources wOut wErr).stderr = wErr.out := by
  obtain ⟨hi, hg, -, -⟩ := build_initial orc c p hb
  obtain ⟨h1, h2, h3⟩ := run_spec_gen orc c sources wOut wErr p (.inl hpol) hb hi hg hna hw
    (fun h => by rw [hpol] at h; cases h) hcl hh
  exact ⟨h1, h2, by rw [h3, errW_ignore hpol]⟩

/-- when the header is required but there is no title, the run fails with `invalidInput` before reading
anything, having written nothing -/
theorem run_headerMissing (orc : Oracles) (c : Cfg) (sources : List Source) (wOut wErr : Writer) (p : Pipeline)
    (hb : build orc c = .ok p) (hh : HeaderMissing p) :
    (run orc c sources wOut wErr).result = .error .invalidInput
      ∧ (run orc c sources wOut wErr).stdout = wOut.out
      ∧ (run orc c sources wOut wErr).stderr = wErr.out := by
  simp only [run, hb, sinkStart_headerMissing p wOut hh]
  exact ⟨trivial, trivial, trivial⟩

/-! ### G: corollaries -/

/-- the pipeline of the default configuration: no stage, one-line JSON rows -/
def defaultPipeline : Pipeline :=
  { cfgs := [], sts := [], sink := .json {} ['\n'], sinkLen := 0, titles := [] }

theorem build_default (orc : Oracles) : build orc {} = .ok defaultPipeline := rfl

theorem utf8_nl : utf8 ['\n'] = [10] := by decide

/-- the rows the read loop makes carry no selection yet -/
theorem ctxsOf_results (c : Cfg) (fuel : Nat) (r : Reader) (inFile idx : Nat) :
    ∀ ctx ∈ ctxsOf c fuel r inFile idx, ctx.results = [] := by
  induction fuel generalizing r inFile idx with
  | zero => intro ctx h; cases h
  | succ fuel ih =>
    intro ctx h
    unfold ctxsOf at h
    split at h
    · split at h
      · exact ih _ _ _ ctx h
      · rcases List.mem_cons.mp h with rfl | h
        · rfl
        · exact ih _ _ _ ctx h
    · cases h
    · split at h
      · exact ih _ _ _ ctx h
      · cases h

theorem ctxsOfSources_results (c : Cfg) (sources : List Source) (idx : Nat) :
    ∀ ctx ∈ ctxsOfSources c sources idx, ctx.results = [] := by
  induction sources generalizing idx with
  | nil => intro ctx h; cases h
  | cons src rest ih =>
    intro ctx h
    unfold ctxsOfSources at h
    rcases List.mem_append.mp h with h | h
    · exact ctxsOf_results _ _ _ _ _ ctx h
    · exact ih _ ctx h

theorem build_of_results_nil {ctx : Ctx} (h : ctx.results = []) : ctx.build = ctx.input := by
  simp [Ctx.build, h]

theorem flatMap_congr' {α β} {l : List α} {f g : α → List β} (h : ∀ a ∈ l, f a = g a) :
    l.flatMap f = l.flatMap g := by
  induction l with
  | nil => rfl
  | cons x l ih =>
    simp only [List.flatMap_cons]
    rw [h x List.mem_cons_self, ih (fun a ha => h a (List.mem_cons_of_mem _ ha))]

/-- C01 `default_rows`: without options every value read is written back as one one-line JSON row, in
input order, and nothing else is written -/
theorem default_rows (orc : Oracles) (sources : List Source) (wOut wErr : Writer)
    (hw : Unbounded wOut) (hcl : CleanIO sources) :
    (run orc {} sources wOut wErr).result = .ok ()
      ∧ (run orc {} sources wOut wErr).stdout
          = wOut.out ++ (ctxsOfSources {} sources 0).flatMap
              (fun ctx => utf8 (printJson {} ctx.input) ++ [10])
      ∧ (run orc {} sources wOut wErr).stderr = wErr.out := by
  obtain ⟨h1, h2, h3⟩ := run_ignore_spec orc {} sources wOut wErr defaultPipeline rfl (build_default orc)
    (fun c hc => by cases hc) hw hcl (fun h => h)
  refine ⟨h1, ?_, h3⟩
  rw [h2]
  have hh : headerBytes defaultPipeline = [] := rfl
  rw [hh, List.append_nil]
  congr 1
  show (ctxsOfSources {} sources 0).flatMap (sinkBytes defaultPipeline.sink defaultPipeline.sinkLen) = _
  apply flatMap_congr'
  intro ctx hctx
  simp only [defaultPipeline, sinkBytes,
    build_of_results_nil (ctxsOfSources_results _ _ _ ctx hctx), rowBytes]
  rw [utf8_nl]

/-- the same for a single stream on stdin -/
theorem default_rows_stdin (orc : Oracles) (items : List RItem) (wOut wErr : Writer)
    (hw : Unbounded wOut) (hcl : ∀ it ∈ items, it ≠ RItem.err) :
    (run orc {} [⟨none, items⟩] wOut wErr).result = .ok ()
      ∧ (run orc {} [⟨none, items⟩] wOut wErr).stdout
          = wOut.out ++ (ctxsOf {} (items.length + 2) (Reader.ofItems items none) 0 0).flatMap
              (fun ctx => utf8 (printJson {} ctx.input) ++ [10])
      ∧ (run orc {} [⟨none, items⟩] wOut wErr).stderr = wErr.out := by
  have hcl' : CleanIO [⟨none, items⟩] := by
    intro s hs
    simp only [List.mem_singleton] at hs
    subst hs
    exact hcl
  have := default_rows orc [⟨none, items⟩] wOut wErr hw hcl'
  simpa [ctxsOfSources] using this

/-- C06 `policy_stderr_same_rows`: under policy `stderr` (stderr never failing either) stdout is
exactly what it is under `ignore`; the reports of the recoverable errors go to stderr only -/
theorem policy_stderr_same_rows (orc : Oracles) (c : Cfg) (sources : List Source) (wOut wErr : Writer)
    (p : Pipeline) (hpol : c.onError = .stderr) (hb : build orc c = .ok p)
    (hna : NoAbort orc p.cfgs) (hw : Unbounded wOut) (he : Unbounded wErr) (hcl : CleanIO sources)
    (hh : ¬ HeaderMissing p) :
    (run orc c sources wOut wErr).result = .ok ()
      ∧ (run orc c sources wOut wErr).stdout
          = wOut.out ++ headerBytes p ++
            (specRows (evalT orc) p.cfgs p.sts (ctxsOfSources c sources 0)).flatMap (sinkBytes p.sink p.sinkLen)
      ∧ (run orc c sources wOut wErr).stderr
          = wErr.out ++ (errsOfSources (evalT orc) c p.cfgs sources 0 p.sts).flatMap reportBytes := by
  obtain ⟨hi, hg, -, -⟩ := build_initial orc c p hb
  obtain ⟨h1, h2, h3⟩ := run_spec_gen orc c sources wOut wErr p (.inr hpol) hb hi hg hna hw
    (fun _ => he) hcl hh
  refine ⟨h1, h2, ?_⟩
  rw [h3]
  simp [errW, hpol, wappend_out]

/-- C17 `concat_sources`: the rows of several sources are the rows of the first, then the rows of the
others with the run index going on -/
theorem concat_sources (c : Cfg) (s1 : Source) (rest : List Source) (idx : Nat) :
    ctxsOfSources c (s1 :: rest) idx
      = ctxsOf c (s1.items.length + 2) (Reader.ofItems s1.items s1.name) 0 idx
        ++ ctxsOfSources c rest
            (idx + (ctxsOf c (s1.items.length + 2) (Reader.ofItems s1.items s1.name) 0 idx).length) := rfl

/-- the `k`-th row of one source carries run index `idx + k` and index-in-file `inFile + k` -/
theorem ctxsOf_index (c : Cfg) (fuel : Nat) (r : Reader) (inFile idx k : Nat) (ctx : Ctx)
    (h : (ctxsOf c fuel r inFile idx)[k]? = some ctx) :
    ctx.ictx.map (·.index) = some (idx + k) ∧ ctx.ictx.map (·.fileIndex) = some (inFile + k) := by
  induction fuel generalizing r inFile idx k with
  | zero => simp [ctxsOf] at h
  | succ fuel ih =>
    unfold ctxsOf at h
    split at h
    · split at h
      · exact ih _ _ _ _ h
      · cases k with
        | zero =>
          simp only [List.getElem?_cons_zero, Option.some.injEq] at h
          subst h
          exact ⟨rfl, rfl⟩
        | succ k =>
          simp only [List.getElem?_cons_succ] at h
          obtain ⟨h1, h2⟩ := ih _ _ _ _ h
          exact ⟨by rw [h1]; congr 1; omega, by rw [h2]; congr 1; omega⟩
    · simp at h
    · split at h
      · exact ih _ _ _ _ h
      · simp at h

/-- the index-in-file restarts at 0 in every source -/
theorem fileIndex_restarts (c : Cfg) (src : Source) (idx k : Nat) (ctx : Ctx)
    (h : (ctxsOf c (src.items.length + 2) (Reader.ofItems src.items src.name) 0 idx)[k]? = some ctx) :
    ctx.ictx.map (·.fileIndex) = some k := by
  have := (ctxsOf_index c _ _ 0 idx k ctx h).2
  simpa using this

theorem ctxsOfSources_index (c : Cfg) (sources : List Source) (idx k : Nat) (ctx : Ctx)
    (h : (ctxsOfSources c sources idx)[k]? = some ctx) : ctx.ictx.map (·.index) = some (idx + k) := by
  induction sources generalizing idx k with
  | nil => simp [ctxsOfSources] at h
  | cons src rest ih =>
    rw [concat_sources, List.getElem?_append] at h
    split at h
    · exact (ctxsOf_index c _ _ 0 idx k ctx h).1
    · rename_i hk
      rw [ih _ _ h]
      congr 1
      omega

/-- C17 `index_exact`: the `k`-th row of a run carries `index = k` -/
theorem index_exact (c : Cfg) (sources : List Source) (k : Nat) (ctx : Ctx)
    (h : (ctxsOfSources c sources 0)[k]? = some ctx) : ctx.ictx.map (·.index) = some k := by
  simpa using ctxsOfSources_index c sources 0 k ctx h

/-! ### non-vacuity -/

theorem cleanInput_clean (bs : List Byte) : ∀ it ∈ cleanInput bs, it ≠ RItem.err := by
  intro it h
  obtain ⟨b, -, rfl⟩ := List.mem_map.mp h
  intro h'; cases h'

/-- sources made of plain bytes have no I/O error -/
theorem cleanIO_of_bytes (l : List (Option Str × List Byte)) :
    CleanIO (l.map (fun x => ⟨x.1, cleanInput x.2⟩)) := by
  intro s hs
  obtain ⟨x, -, rfl⟩ := List.mem_map.mp hs
  exact cleanInput_clean _

example : build {} {} = .ok defaultPipeline := rfl

example : CleanIO [⟨none, cleanInput [49, 10, 50]⟩] := cleanIO_of_bytes [(none, [49, 10, 50])]

example : Unbounded {} := ⟨rfl, rfl⟩

/-- the two values `1` and `2` on stdin come out as two lines -/
example (orc : Oracles) :
    (run orc {} [⟨none, cleanInput [49, 10, 50]⟩] {} {}).stdout = [49, 10, 50, 10] := by
  have h := (default_rows_stdin orc (cleanInput [49, 10, 50]) {} {} ⟨rfl, rfl⟩ (cleanInput_clean _)).2.1
  rw [h]
  decide


/-- a configuration with a filter, a selection, a sorter and a window: `-f .b -s .a -o .a --skip 1 -t 2` -/
def exampleCfg : Cfg :=
  { selects := [".a".toList], filter := some ".b".toList, sorts := [".a".toList], skip := 1, take := some 2 }

def examplePipeline : Pipeline :=
  { cfgs := [.filter (.extract 0 [Jawk.Step.key "b".toList]),
             .select ".a".toList (.extract 0 [Jawk.Step.key "a".toList]),
             .sort (.extract 0 [Jawk.Step.key "a".toList]) false,
             .limit 1 (some 2)],
    sts := [.none, .none, .sort [] (some 3), .limit 0 0],
    sink := .json {} ['\n'], sinkLen := 1, titles := [".a".toList] }

theorem build_example (orc : Oracles) : build orc exampleCfg = .ok examplePipeline := by
  rfl

theorem examplePipeline_noAbort (orc : Oracles) : NoAbort orc examplePipeline.cfgs := by
  intro c hc e he ctx
  simp only [examplePipeline, List.mem_cons, List.not_mem_nil, or_false] at hc
  rcases hc with rfl | rfl | rfl | rfl <;>
    simp only [stageExprs, List.mem_singleton, List.not_mem_nil] at he <;>
    subst he <;> exact ⟨_, by simp only [evalFuel, eval]; rfl⟩

/-- non-vacuity of `run_ignore_spec`: all hypotheses hold for `exampleCfg`, any clean sources -/
example (orc : Oracles) (l : List (Option Str × List Byte)) :
    let sources : List Source := l.map (fun x => ⟨x.1, cleanInput x.2⟩)
    (run orc exampleCfg sources {} {}).result = .ok ()
      ∧ (run orc exampleCfg sources {} {}).stdout
          = (specRows (evalT orc) examplePipeline.cfgs examplePipeline.sts
              (ctxsOfSources exampleCfg sources 0)).flatMap (sinkBytes examplePipeline.sink 1) := by
  intro sources
  obtain ⟨h1, h2, -⟩ := run_ignore_spec orc exampleCfg sources {} {} examplePipeline rfl (build_example orc)
    (examplePipeline_noAbort orc) ⟨rfl, rfl⟩ (cleanIO_of_bytes l) (fun h => h)
  exact ⟨h1, by simpa [headerBytes, examplePipeline] using h2⟩


/-! ### H: policy `stdout` — the reports are interleaved with the rows -/

/-- what is written, chunk by chunk: `(true, bytes)` is an error report, `(false, bytes)` the rows that
one step of the chain delivered -/
abbrev Chunks := List (Bool × List Byte)

def Chunks.bytes (ch : Chunks) : List Byte := ch.flatMap (·.2)
/-- the output with the report chunks removed -/
def Chunks.rowPart (ch : Chunks) : List Byte := (ch.filter (fun x => !x.1)).flatMap (·.2)
/-- the report chunks, in order -/
def Chunks.reports (ch : Chunks) : List (List Byte) := (ch.filter (·.1)).map (·.2)

theorem Chunks.bytes_append (a b : Chunks) : Chunks.bytes (a ++ b) = a.bytes ++ b.bytes := by
  simp [Chunks.bytes]
theorem Chunks.rowPart_append (a b : Chunks) : Chunks.rowPart (a ++ b) = a.rowPart ++ b.rowPart := by
  simp [Chunks.rowPart]
theorem Chunks.reports_append (a b : Chunks) : Chunks.reports (a ++ b) = a.reports ++ b.reports := by
  simp [Chunks.reports]

/-- the read loop under policy `stdout` -/
theorem readLoop_stdout (orc : Oracles) (c : Cfg) (p : Pipeline)
    (hpol : c.onError = .stdout) (hna : NoAbort orc p.cfgs)
    (fuel : Nat) (r : Reader) (inFile : Nat) (s : RunState)
    (hw : Unbounded s.out) (hs : Shape p.cfgs s.sts) (hwf : WF r) (hcl : Clean r) (hf : μ r + 1 ≤ fuel) :
    ∃ (s' : RunState) (r' : Reader) (ch : Chunks),
      readLoop orc c p fuel r inFile s = .ok (s', r', (loopRes orc c p fuel r inFile s).2.2)
      ∧ s'.sts = (loopRes orc c p fuel r inFile s).1
      ∧ s'.out = wappend s.out ch.bytes
      ∧ ch.rowPart = (loopRes orc c p fuel r inFile s).2.1.flatMap (sinkBytes p.sink p.sinkLen)
      ∧ ch.reports = (errsOf (evalT orc) c p.cfgs fuel r inFile s.index s.sts).map reportBytes
      ∧ s'.err = s.err
      ∧ ((loopRes orc c p fuel r inFile s).2.2 = .cont →
          s'.index = s.index + (ctxsOf c fuel r inFile s.index).length)
      ∧ Shape p.cfgs s'.sts := by
  induction fuel generalizing r inFile s with
  | zero => omega
  | succ fuel ih =>
    have hm := nextJson_mono r
    have hc2 := (nextJson_clean r hcl).2
    rcases hn : r.nextJson with ⟨res, r'⟩
    rw [hn] at hm hc2
    cases res with
    | error e =>
      have hp := nextJson_progress r hwf hn (by intro h; cases h)
      have hrec := nextJson_canRecover hcl hn
      simp only [loopRes, readLoop, ctxsOf, errsOf, hn, hrec, if_true]
      have hpe := put_unbounded hw (reportBytes e)
      obtain ⟨s', r'', ch, h1, h2, h3, h4, h5, h6, h7, h8⟩ :=
        ih r' inFile { s with out := wappend s.out (reportBytes e) } hpe.2 hs (hm.wf hwf) hc2 (by omega)
      refine ⟨s', r'', (true, reportBytes e) :: ch, ?_, h2, ?_, ?_, ?_, h6, h7, h8⟩
      · simpa [hpol, hpe.1, hpe.2.2] using h1
      · rw [h3]; simp [Chunks.bytes, wappend_wappend]
      · rw [← h4]; simp [Chunks.rowPart]
      · simp [Chunks.reports] at h5 ⊢
        exact h5
    | ok o =>
      cases o with
      | none =>
        simp only [loopRes, readLoop, ctxsOf, errsOf, hn, feedBrk]
        exact ⟨s, r', [], rfl, rfl, by simp [Chunks.bytes, wappend_nil], rfl, rfl, rfl, fun _ => rfl, hs⟩
      | some v =>
        have hp := nextJson_progress r hwf hn (by intro h; cases h)
        simp only [loopRes, readLoop, ctxsOf, errsOf, hn]
        split
        · exact ih r' inFile s hw hs (hm.wf hwf) hc2 (by omega)
        · obtain ⟨p1, p2⟩ := process_pure orc p.sink p.sinkLen p.cfgs s.sts s.out
            { input := v, ictx := some { startLoc := r.loc, endLoc := r'.loc, fileIndex := inFile, index := s.index } }
            hna hw hs
          rcases hP : processP (evalT orc) p.cfgs s.sts
            { input := v, ictx := some { startLoc := r.loc, endLoc := r'.loc, fileIndex := inFile, index := s.index } }
            with ⟨s1, o1, d⟩
          rw [hP] at p1 p2
          cases d with
          | brk =>
            rw [feedBrk_cons_brk hP]
            simp only [p1]
            refine ⟨_, r', [(false, o1.flatMap (sinkBytes p.sink p.sinkLen))], rfl, rfl, ?_, ?_, rfl, rfl,
              (fun h => by cases h), p2⟩
            · simp [Chunks.bytes]
            · simp [Chunks.rowPart]
          | cont =>
            rw [feedBrk_cons_cont hP]
            simp only [p1]
            obtain ⟨s', r'', ch, h1, h2, h3, h4, h5, h6, h7, h8⟩ :=
              ih r' (inFile + 1) { s with sts := s1, out := wappend s.out (o1.flatMap (sinkBytes p.sink p.sinkLen)),
                                          index := s.index + 1 }
                (hw.wappend _) p2 (hm.wf hwf) hc2 (by omega)
            refine ⟨s', r'', (false, o1.flatMap (sinkBytes p.sink p.sinkLen)) :: ch, h1, h2, ?_, ?_, ?_, h6, ?_, h8⟩
            · rw [h3]; simp [Chunks.bytes, wappend_wappend]
            · simp only [loopRes] at h4
              simp [Chunks.rowPart] at h4 ⊢
              rw [h4]
            · simp [Chunks.reports] at h5 ⊢
              exact h5
            · intro hd
              rw [h7 hd]
              simp only [List.length_cons]
              omega

/-- the file loop under policy `stdout` -/
theorem readSources_stdout (orc : Oracles) (c : Cfg) (p : Pipeline)
    (hpol : c.onError = .stdout) (hna : NoAbort orc p.cfgs)
    (sources : List Source) (s : RunState)
    (hw : Unbounded s.out) (hs : Shape p.cfgs s.sts) (hcl : CleanIO sources) :
    ∃ (s' : RunState) (ch : Chunks), readSources orc c p sources s = .ok s'
      ∧ s'.sts = (srcRes orc c p sources s).1
      ∧ s'.out = wappend s.out ch.bytes
      ∧ ch.rowPart = (srcRes orc c p sources s).2.1.flatMap (sinkBytes p.sink p.sinkLen)
      ∧ ch.reports = (errsOfSources (evalT orc) c p.cfgs sources s.index s.sts).map reportBytes
      ∧ s'.err = s.err
      ∧ Shape p.cfgs s'.sts := by
  induction sources generalizing s with
  | nil =>
    refine ⟨s, [], rfl, rfl, ?_, ?_, ?_, rfl, hs⟩
    · simp [Chunks.bytes, wappend_nil]
    · simp [srcRes, ctxsOfSources, feedBrk, Chunks.rowPart]
    · simp [errsOfSources, Chunks.reports]
  | cons src rest ih =>
    obtain ⟨s1, r1, ch1, h1, h2, h3, h4, h5, h6, h7, h8⟩ :=
      readLoop_stdout orc c p hpol hna (src.items.length + 2) (Reader.ofItems src.items src.name) 0 s hw hs
        (wf_ofItems _ _) hcl.head (by rw [μ_ofItems]; omega)
    simp only [srcRes, readSources, ctxsOfSources, errsOfSources, h1]
    simp only [loopRes] at h1 h2 h3 h4 h5 h7
    rcases hd : (feedBrk (processP (evalT orc) p.cfgs) s.sts
        (ctxsOf c (src.items.length + 2) (Reader.ofItems src.items src.name) 0 s.index)).2.2 with _ | _
    · have hw1 : Unbounded s1.out := by rw [h3]; exact hw.wappend _
      obtain ⟨s', ch2, g1, g2, g3, g4, g5, g6, g7⟩ :=
        ih { s1 with pulled := s1.pulled ++ [r1.pulled] } hw1 h8 hcl.tail
      simp only [srcRes] at g1 g2 g3 g4 g5
      have hidx := h7 hd
      rw [feedBrk_append_cont _ _ _ _ hd]
      simp only [show (Decision.cont = Decision.brk) = False from by simp, if_false]
      refine ⟨s', ch1 ++ ch2, g1, ?_, ?_, ?_, ?_, by rw [g6, h6], g7⟩
      · rw [g2, hidx, h2]
      · rw [g3, h3, wappend_wappend, Chunks.bytes_append]
      · rw [Chunks.rowPart_append, h4, g4, hidx, h2, List.flatMap_append]
      · rw [Chunks.reports_append, h5, g5, hidx, h2, List.map_append]
    · rw [feedBrk_append_brk _ _ _ _ hd]
      simp only [if_true]
      refine ⟨_, ch1, rfl, h2, h3, h4, ?_, h6, h8⟩
      simp [h5]

/-- C06 `policy_stdout`: under policy `stdout` the run succeeds as well; what it writes to stdout after the
header is a sequence of chunks, some of them error reports; with the report chunks removed it is exactly
the `ignore` output, and the report chunks are the reports of the recoverable errors met, in order -/
theorem policy_stdout (orc : Oracles) (c : Cfg) (sources : List Source) (wOut wErr : Writer) (p : Pipeline)
    (hpol : c.onError = .stdout) (hb : build orc c = .ok p)
    (hna : NoAbort orc p.cfgs) (hw : Unbounded wOut) (hcl : CleanIO sources) (hh : ¬ HeaderMissing p) :
    ∃ ch : Chunks,
      (run orc c sources wOut wErr).result = .ok ()
      ∧ (run orc c sources wOut wErr).stdout = wOut.out ++ headerBytes p ++ ch.bytes
      ∧ ch.rowPart
          = (specRows (evalT orc) p.cfgs p.sts (ctxsOfSources c sources 0)).flatMap (sinkBytes p.sink p.sinkLen)
      ∧ ch.reports = (errsOfSources (evalT orc) c p.cfgs sources 0 p.sts).map reportBytes
      ∧ (run orc c sources wOut wErr).stderr = wErr.out := by
  obtain ⟨hi, hg, -, -⟩ := build_initial orc c p hb
  obtain ⟨s', ch, g1, g2, g3, g4, g5, g6, g7⟩ :=
    readSources_stdout orc c p hpol hna sources { sts := p.sts, out := wappend wOut (headerBytes p), err := wErr }
      (hw.wappend _) hi.shape hcl
  have hw' : Unbounded s'.out := by rw [g3]; exact (hw.wappend _).wappend _
  have hcp := complete_pure orc p.sink p.sinkLen p.cfgs s'.sts s'.out hna hw' g7
  have hspec := runP_eq_spec (evalT orc) hi hg (ctxsOfSources c sources 0)
  refine ⟨ch ++ [(false, (completeP (evalT orc) p.cfgs s'.sts).flatMap (sinkBytes p.sink p.sinkLen))], ?_⟩
  simp only [run, hb, sinkStart_unbounded p hw hh, g1, hcp]
  refine ⟨trivial, ?_, ?_, ?_, ?_⟩
  · simp [wappend_out, g3, Chunks.bytes, List.append_assoc]
  · rw [Chunks.rowPart_append, g4, ← hspec, runP, List.flatMap_append, g2]
    simp [Chunks.rowPart, srcRes]
  · rw [Chunks.reports_append, g5]
    simp [Chunks.reports]
  · rw [g6]


end Jawk.RunSpec

/- axiom audit (all ⊆ {propext, Classical.choice, Quot.sound}):
#print axioms Jawk.RunSpec.build_initial
#print axioms Jawk.RunSpec.sinkStart_unbounded
#print axioms Jawk.RunSpec.readLoop_spec
#print axioms Jawk.RunSpec.readLoop_ignore
#print axioms Jawk.RunSpec.readSources_spec
#print axioms Jawk.RunSpec.run_ignore_spec
#print axioms Jawk.RunSpec.run_headerMissing
#print axioms Jawk.RunSpec.default_rows
#print axioms Jawk.RunSpec.default_rows_stdin
#print axioms Jawk.RunSpec.policy_stderr_same_rows
#print axioms Jawk.RunSpec.policy_stdout
#print axioms Jawk.RunSpec.concat_sources
#print axioms Jawk.RunSpec.index_exact
#print axioms Jawk.RunSpec.fileIndex_restarts
-/
