/-
  The sort functions of the expression language (`sort`, `sort_by`, `sort_unique`,
  `sort_by_keys`, `sort_by_values`, `sort_by_values_by`) and repeated `--sort-by`
  keys (property C07).  Core Lean only.

  1. `stableSortBy` (the model of Rust's stable `slice::sort_by`, a `List.mergeSort`) by a key
     under a total preorder: permutation, sorted, stable, and EQUAL to the specification's stable
     insertion sort `SortSpec.sortDir … false` (uniqueness of the stable sort).
  2. the instances for the functions of `Jawk/Model/Eval.lean`.
  3. two and n sort keys: sorting by the least significant key first and the most significant
     key last is the stable sort by the lexicographic comparison.
  4. the direction words `ASC` / `DESC` are case-insensitive.
-/
import Jawk.Model.Eval
import Jawk.Model.Run
import Jawk.Spec.Sort
import Jawk.Lemmas.Order
import Jawk.Lemmas.BucketSort

namespace Jawk
namespace SortFns
open SortSpec

/-! ## 1. Generic: `stableSortBy` by a key under a total preorder -/

section Generic
variable {α κ : Type} {cmp : κ → κ → Ordering}

/-- the Boolean `≤` handed to `List.mergeSort` -/
def leB (c : α → α → Ordering) (a b : α) : Bool := c a b != .gt

theorem stableSortBy_eq (c : α → α → Ordering) (l : List α) :
    stableSortBy c l = l.mergeSort (leB c) := rfl

theorem leB_iff (c : α → α → Ordering) (a b : α) : leB c a b = true ↔ c a b ≠ .gt := by
  unfold leB; cases c a b <;> decide

theorem leB_trans (H : TotalPreorderCmp cmp) (key : α → κ) (a b c : α) :
    leB (fun x y => cmp (key x) (key y)) a b = true →
    leB (fun x y => cmp (key x) (key y)) b c = true →
    leB (fun x y => cmp (key x) (key y)) a c = true := by
  simp only [leB_iff]; exact H.le_trans _ _ _

theorem leB_total (H : TotalPreorderCmp cmp) (key : α → κ) (a b : α) :
    (leB (fun x y => cmp (key x) (key y)) a b || leB (fun x y => cmp (key x) (key y)) b a) = true := by
  show (cmp (key a) (key b) != .gt || cmp (key b) (key a) != .gt) = true
  rw [H.swap (key a) (key b)]; cases cmp (key a) (key b) <;> decide

/-- no hypothesis at all is needed for the permutation property -/
theorem stableSortBy_perm' (c : α → α → Ordering) (l : List α) : (stableSortBy c l).Perm l :=
  List.mergeSort_perm l _

theorem stableSortBy_perm (_H : TotalPreorderCmp cmp) (key : α → κ) (l : List α) :
    (stableSortBy (fun x y => cmp (key x) (key y)) l).Perm l :=
  stableSortBy_perm' _ l

theorem stableSortBy_length (c : α → α → Ordering) (l : List α) :
    (stableSortBy c l).length = l.length := (stableSortBy_perm' c l).length_eq

theorem stableSortBy_sorted (H : TotalPreorderCmp cmp) (key : α → κ) (l : List α) :
    (stableSortBy (fun x y => cmp (key x) (key y)) l).Pairwise
      (fun a b => cmp (key a) (key b) ≠ .gt) := by
  have h := List.pairwise_mergeSort (le := leB (fun x y => cmp (key x) (key y)))
    (leB_trans H key) (leB_total H key) l
  rw [stableSortBy_eq]
  exact h.imp (fun {a b} hab => (leB_iff _ a b).mp hab)

/-- the same, in the vocabulary of the specification -/
theorem stableSortBy_sortedDir (H : TotalPreorderCmp cmp) (key : α → κ) (l : List α) :
    SortedDir cmp key false (stableSortBy (fun x y => cmp (key x) (key y)) l) := by
  unfold SortedDir
  simpa using stableSortBy_sorted H key l

/-- every sorted sub-sequence of the input survives in order (core's statement of stability) -/
theorem stableSortBy_sublist (H : TotalPreorderCmp cmp) (key : α → κ) {l ys : List α}
    (hs : ys.Pairwise (fun a b => cmp (key a) (key b) ≠ .gt)) (hsub : ys.Sublist l) :
    ys.Sublist (stableSortBy (fun x y => cmp (key x) (key y)) l) := by
  rw [stableSortBy_eq]
  exact List.sublist_mergeSort (leB_trans H key) (leB_total H key)
    (hs.imp (fun {a b} hab => (leB_iff _ a b).mpr hab)) hsub

/-- ties keep arrival order -/
theorem stableSortBy_stable (H : TotalPreorderCmp cmp) (key : α → κ) (l : List α) (k : κ) :
    (stableSortBy (fun x y => cmp (key x) (key y)) l).filter (fun x => cmp (key x) k = .eq)
      = l.filter (fun x => cmp (key x) k = .eq) := by
  have hpw : (l.filter (fun x => cmp (key x) k = .eq)).Pairwise
      (fun a b => cmp (key a) (key b) ≠ .gt) := by
    rw [List.pairwise_iff_forall_sublist]
    intro a b hab
    have ha : a ∈ l.filter (fun x => cmp (key x) k = .eq) := hab.subset (by simp)
    have hb : b ∈ l.filter (fun x => cmp (key x) k = .eq) := hab.subset (by simp)
    have ha' : cmp (key a) k = .eq := by simpa using (List.mem_filter.mp ha).2
    have hb' : cmp (key b) k = .eq := by simpa using (List.mem_filter.mp hb).2
    rw [H.eq_trans ha' (H.eq_symm hb')]; decide
  have hsub := stableSortBy_sublist H key hpw List.filter_sublist
  have hsub' := hsub.filter (fun x => decide (cmp (key x) k = .eq))
  rw [List.filter_filter] at hsub'
  simp only [Bool.and_self] at hsub'
  have hlen := ((stableSortBy_perm H key l).filter (fun x => decide (cmp (key x) k = .eq))).length_eq
  exact (hsub'.eq_of_length hlen.symm).symm

/-! ### uniqueness of the stable sort -/

/-- a list that is sorted is determined by its multiset and the order inside each class -/
theorem sorted_stable_unique (H : TotalPreorderCmp cmp) (key : α → κ) :
    ∀ (L₁ L₂ : List α), L₁.Perm L₂ →
      L₁.Pairwise (fun a b => cmp (key a) (key b) ≠ .gt) →
      L₂.Pairwise (fun a b => cmp (key a) (key b) ≠ .gt) →
      (∀ k, L₁.filter (fun x => cmp (key x) k = .eq) = L₂.filter (fun x => cmp (key x) k = .eq)) →
      L₁ = L₂
  | [], L₂, hp, _, _, _ => hp.nil_eq
  | a :: t₁, [], hp, _, _, _ => absurd hp.length_eq (by simp)
  | a :: t₁, b :: t₂, hp, h₁, h₂, hf => by
    rw [List.pairwise_cons] at h₁ h₂
    -- `a` and `b` are both minimal, hence in the same class
    have hab : cmp (key a) (key b) ≠ .gt := by
      have : b ∈ a :: t₁ := hp.mem_iff.mpr (List.mem_cons_self ..)
      rcases List.mem_cons.mp this with rfl | hb
      · rw [H.refl]; decide
      · exact h₁.1 b hb
    have hba : cmp (key b) (key a) ≠ .gt := by
      have : a ∈ b :: t₂ := hp.mem_iff.mp (List.mem_cons_self ..)
      rcases List.mem_cons.mp this with rfl | ha
      · rw [H.refl]; decide
      · exact h₂.1 a ha
    have hbe : cmp (key b) (key a) = .eq := by
      rw [H.swap (key a) (key b)] at hba
      rw [H.swap (key a) (key b)]
      cases h : cmp (key a) (key b) <;> simp_all
    have hae : cmp (key a) (key a) = .eq := H.refl _
    have e := hf (key a)
    rw [List.filter_cons, List.filter_cons] at e
    simp only [hae, hbe, decide_true, if_true] at e
    have hhead : a = b := (List.cons.inj e).1
    subst hhead
    congr 1
    refine sorted_stable_unique H key t₁ t₂ (List.Perm.cons_inv hp) h₁.2 h₂.2 ?_
    intro k
    have e := hf k
    rw [List.filter_cons, List.filter_cons] at e
    split at e
    · exact (List.cons.inj e).2
    · exact e

/-- BRIDGE: the model's stable sort is the specification's stable (insertion) sort -/
theorem stableSortBy_eq_sortDir (H : TotalPreorderCmp cmp) (key : α → κ) (l : List α) :
    stableSortBy (fun x y => cmp (key x) (key y)) l = sortDir cmp key false l := by
  apply sorted_stable_unique H key
  · exact (stableSortBy_perm H key l).trans (sortDir_perm H key false l).symm
  · exact stableSortBy_sorted H key l
  · have := sortDir_sorted H key false l
    unfold SortedDir at this
    simpa using this
  · intro k
    rw [stableSortBy_stable H key l k, sortDir_stable H key false l k]

/-! non-vacuity (`List.mergeSort` is defined by well-founded recursion and does not reduce in the
kernel, so the concrete instances are computed through the bridge) -/
example : stableSortBy JV.cmp [.bool true, .null, .bool false] = [.null, .bool false, .bool true] :=
  (stableSortBy_eq_sortDir Order.cmp_total_preorder id _).trans rfl
/-- ties keep arrival order -/
example : stableSortBy (fun (x y : Nat × Nat) => compare x.1 y.1) [(2, 0), (1, 1), (2, 2), (1, 3)]
    = [(1, 1), (1, 3), (2, 0), (2, 2)] :=
  (stableSortBy_eq_sortDir Order.compareNat_total_preorder (Prod.fst : Nat × Nat → Nat) _).trans (by decide)

end Generic

/-! ## 2. The sort functions of the expression language -/

section Functions

/-- `Option<JsonValue>::cmp` (`None` first) is a total preorder -/
theorem cmpOpt_total_preorder : TotalPreorderCmp cmpOpt where
  refl a := by cases a with
    | none => rfl
    | some a => exact Order.cmp_refl a
  swap a b := by cases a <;> cases b <;> first | rfl | exact Order.cmp_swap _ _
  le_trans a b c := by
    cases a <;> cases b <;> cases c <;> simp only [cmpOpt] <;> intro h1 h2 <;>
      first
        | exact Order.cmp_le_trans _ _ _ h1 h2
        | exact absurd rfl h1
        | exact absurd rfl h2
        | decide

theorem cmpOpt_none_first (v : JV) : cmpOpt none (some v) = .lt := rfl
theorem cmpOpt_some (a b : JV) : cmpOpt (some a) (some b) = JV.cmp a b := rfl

/-! ### `sort` : `stableSortBy JV.cmp l` -/

theorem callFn_sort (ev : Ev) (orc : Oracles) (args : List Expr) (ctx : Ctx) (l : List JV)
    (h : applyArg ev args ctx 0 = .ok (some (.arr l))) :
    callFn ev orc "sort" args ctx = .ok (some (.arr (stableSortBy JV.cmp l))) := by
  show (do match (← applyArg ev args ctx 0) with
          | some (.arr l) => .ok (some (.arr (stableSortBy JV.cmp l)))
          | _ => .ok none : R) = _
  rw [h]; rfl

theorem sort_perm (l : List JV) : (stableSortBy JV.cmp l).Perm l :=
  stableSortBy_perm' _ l

theorem sort_sorted (l : List JV) :
    (stableSortBy JV.cmp l).Pairwise (fun a b => JV.cmp a b ≠ .gt) :=
  stableSortBy_sorted Order.cmp_total_preorder id l

theorem sort_stable (l : List JV) (k : JV) :
    (stableSortBy JV.cmp l).filter (fun x => JV.cmp x k = .eq) = l.filter (fun x => JV.cmp x k = .eq) :=
  stableSortBy_stable Order.cmp_total_preorder id l k

theorem sort_eq_spec (l : List JV) : stableSortBy JV.cmp l = sortDir JV.cmp id false l :=
  stableSortBy_eq_sortDir Order.cmp_total_preorder id l

/-! ### `sort_by_values` : members of an object by value -/

theorem callFn_sort_by_values (ev : Ev) (orc : Oracles) (args : List Expr) (ctx : Ctx)
    (m : List (Str × JV)) (h : applyArg ev args ctx 0 = .ok (some (.obj m))) :
    callFn ev orc "sort_by_values" args ctx
      = .ok (some (.obj (stableSortBy (fun (x y : Str × JV) => JV.cmp x.2 y.2) m))) := by
  show (do match (← applyArg ev args ctx 0) with
          | some (.obj m) => .ok (some (.obj (stableSortBy (fun (x y : Str × JV) => JV.cmp x.2 y.2) m)))
          | _ => .ok none : R) = _
  rw [h]; rfl

theorem sort_by_values_perm (m : List (Str × JV)) :
    (stableSortBy (fun (x y : Str × JV) => JV.cmp x.2 y.2) m).Perm m :=
  stableSortBy_perm' _ m

theorem sort_by_values_sorted (m : List (Str × JV)) :
    (stableSortBy (fun (x y : Str × JV) => JV.cmp x.2 y.2) m).Pairwise
      (fun a b => JV.cmp a.2 b.2 ≠ .gt) :=
  stableSortBy_sorted Order.cmp_total_preorder (fun x : Str × JV => x.2) m

theorem sort_by_values_stable (m : List (Str × JV)) (k : JV) :
    (stableSortBy (fun (x y : Str × JV) => JV.cmp x.2 y.2) m).filter (fun x => JV.cmp x.2 k = .eq)
      = m.filter (fun x => JV.cmp x.2 k = .eq) :=
  stableSortBy_stable Order.cmp_total_preorder (fun x : Str × JV => x.2) m k

theorem sort_by_values_eq_spec (m : List (Str × JV)) :
    stableSortBy (fun (x y : Str × JV) => JV.cmp x.2 y.2) m
      = sortDir JV.cmp (fun x : Str × JV => x.2) false m :=
  stableSortBy_eq_sortDir Order.cmp_total_preorder (fun x : Str × JV => x.2) m

/-! ### `sort_by_keys` : members of an object by name (code point order) -/

theorem callFn_sort_by_keys (ev : Ev) (orc : Oracles) (args : List Expr) (ctx : Ctx)
    (m : List (Str × JV)) (h : applyArg ev args ctx 0 = .ok (some (.obj m))) :
    callFn ev orc "sort_by_keys" args ctx
      = .ok (some (.obj (stableSortBy (fun (x y : Str × JV) => cmpStr x.1 y.1) m))) := by
  show (do match (← applyArg ev args ctx 0) with
          | some (.obj m) => .ok (some (.obj (stableSortBy (fun (x y : Str × JV) => cmpStr x.1 y.1) m)))
          | _ => .ok none : R) = _
  rw [h]; rfl

theorem sort_by_keys_perm (m : List (Str × JV)) :
    (stableSortBy (fun (x y : Str × JV) => cmpStr x.1 y.1) m).Perm m :=
  stableSortBy_perm' _ m

theorem sort_by_keys_sorted (m : List (Str × JV)) :
    (stableSortBy (fun (x y : Str × JV) => cmpStr x.1 y.1) m).Pairwise
      (fun a b => cmpStr a.1 b.1 ≠ .gt) :=
  stableSortBy_sorted Order.cmpStr_total_preorder (fun x : Str × JV => x.1) m

theorem sort_by_keys_stable (m : List (Str × JV)) (k : Str) :
    (stableSortBy (fun (x y : Str × JV) => cmpStr x.1 y.1) m).filter (fun x => cmpStr x.1 k = .eq)
      = m.filter (fun x => cmpStr x.1 k = .eq) :=
  stableSortBy_stable Order.cmpStr_total_preorder (fun x : Str × JV => x.1) m k

theorem sort_by_keys_eq_spec (m : List (Str × JV)) :
    stableSortBy (fun (x y : Str × JV) => cmpStr x.1 y.1) m
      = sortDir cmpStr (fun x : Str × JV => x.1) false m :=
  stableSortBy_eq_sortDir Order.cmpStr_total_preorder (fun x : Str × JV => x.1) m

/-! ### `sort_by`, `sort_by_values_by` : by an evaluated key, a missing key first

The functions evaluate the key expression once per element (`mapM'`), zip, sort the pairs on the
second component and project.  A successful `mapM'` makes the key list a function of the elements
(`keyOf`), so the result is the stable sort of the ELEMENTS by that key. -/

/-- the key of an element, given the (successful) key evaluator -/
def keyOf {β : Type} (f : β → Except Abort (Option JV)) (v : β) : Option JV :=
  match f v with
  | .ok k => k
  | .error _ => none

theorem mapM'_ok {β : Type} (f : β → Except Abort (Option JV)) :
    ∀ (l : List β) (keys : List (Option JV)), mapM' f l = .ok keys → keys = l.map (keyOf f)
  | [], keys, h => by
    simp only [mapM'] at h
    cases h; rfl
  | x :: xs, keys, h => by
    simp only [mapM'] at h
    cases hx : f x with
    | error e => rw [hx] at h; cases h
    | ok k =>
      rw [hx] at h
      cases hxs : mapM' f xs with
      | error e => rw [hxs] at h; cases h
      | ok ks =>
        rw [hxs] at h
        have ih := mapM'_ok f xs ks hxs
        cases h
        simp only [List.map_cons, keyOf, hx, ih]

theorem mapM'_length {β : Type} (f : β → Except Abort (Option JV)) (l : List β)
    (keys : List (Option JV)) (h : mapM' f l = .ok keys) : keys.length = l.length := by
  rw [mapM'_ok f l keys h, List.length_map]

/-- sort the elements paired with their keys on the key, then forget the keys
(the body of `sort_by` / `sort_by_values_by`) -/
def sortZip {β : Type} (items : List β) (keys : List (Option JV)) : List β :=
  (stableSortBy (fun (x y : β × Option JV) => cmpOpt x.2 y.2) (items.zip keys)).map (·.1)

/-- when the keys are a function of the elements, `sortZip` is the stable sort by that key -/
theorem sortZip_map {β : Type} (g : β → Option JV) (items : List β) :
    sortZip items (items.map g) = stableSortBy (fun x y => cmpOpt (g x) (g y)) items := by
  unfold sortZip
  have h := List.map_mergeSort (r := leB (fun x y => cmpOpt (g x) (g y)))
    (s := leB (fun (x y : β × Option JV) => cmpOpt x.2 y.2)) (f := fun x => (x, g x)) (l := items)
    (fun a _ b _ => rfl)
  rw [← List.map_prod_left_eq_zip, stableSortBy_eq, stableSortBy_eq, ← h, List.map_map]
  simp [Function.comp_def]

/-- permutation even for an arbitrary key list of the right length -/
theorem sortZip_perm {β : Type} (items : List β) (keys : List (Option JV))
    (hlen : keys.length = items.length) : (sortZip items keys).Perm items := by
  unfold sortZip
  have h := (stableSortBy_perm' (fun (x y : β × Option JV) => cmpOpt x.2 y.2) (items.zip keys)).map
    (·.1)
  rwa [List.map_fst_zip (by omega)] at h

theorem callFn_sort_by (ev : Ev) (orc : Oracles) (args : List Expr) (ctx : Ctx) (l : List JV)
    (keys : List (Option JV)) (h : applyArg ev args ctx 0 = .ok (some (.arr l)))
    (hk : mapM' (fun v => applyArg ev args (ctx.withInput v) 1) l = .ok keys) :
    callFn ev orc "sort_by" args ctx = .ok (some (.arr (sortZip l keys))) := by
  show (do match (← applyArg ev args ctx 0) with
          | some (.arr l) =>
            let keys ← mapM' (fun v => applyArg ev args (ctx.withInput v) 1) l
            let sorted := stableSortBy (fun (x y : JV × Option JV) => cmpOpt x.2 y.2) (l.zip keys)
            .ok (some (.arr (sorted.map (·.1))))
          | _ => .ok none : R) = _
  rw [h]
  show (do
      let keys ← mapM' (fun v => applyArg ev args (ctx.withInput v) 1) l
      let sorted := stableSortBy (fun (x y : JV × Option JV) => cmpOpt x.2 y.2) (l.zip keys)
      .ok (some (.arr (sorted.map (·.1)))) : R) = _
  rw [hk]; rfl

/-- a failing key evaluation aborts `sort_by` with the same abort -/
theorem callFn_sort_by_error (ev : Ev) (orc : Oracles) (args : List Expr) (ctx : Ctx) (l : List JV)
    (e : Abort) (h : applyArg ev args ctx 0 = .ok (some (.arr l)))
    (hk : mapM' (fun v => applyArg ev args (ctx.withInput v) 1) l = .error e) :
    callFn ev orc "sort_by" args ctx = .error e := by
  show (do match (← applyArg ev args ctx 0) with
          | some (.arr l) =>
            let keys ← mapM' (fun v => applyArg ev args (ctx.withInput v) 1) l
            let sorted := stableSortBy (fun (x y : JV × Option JV) => cmpOpt x.2 y.2) (l.zip keys)
            .ok (some (.arr (sorted.map (·.1))))
          | _ => .ok none : R) = _
  rw [h]
  show (do
      let keys ← mapM' (fun v => applyArg ev args (ctx.withInput v) 1) l
      let sorted := stableSortBy (fun (x y : JV × Option JV) => cmpOpt x.2 y.2) (l.zip keys)
      .ok (some (.arr (sorted.map (·.1)))) : R) = _
  rw [hk]; rfl

/-- `sort_by` is the stable sort of the elements by their evaluated key under `cmpOpt` -/
theorem callFn_sort_by_eq (ev : Ev) (orc : Oracles) (args : List Expr) (ctx : Ctx) (l : List JV)
    (keys : List (Option JV)) (h : applyArg ev args ctx 0 = .ok (some (.arr l)))
    (hk : mapM' (fun v => applyArg ev args (ctx.withInput v) 1) l = .ok keys) :
    callFn ev orc "sort_by" args ctx = .ok (some (.arr (stableSortBy
      (fun x y => cmpOpt (keyOf (fun v => applyArg ev args (ctx.withInput v) 1) x)
                         (keyOf (fun v => applyArg ev args (ctx.withInput v) 1) y)) l))) := by
  rw [callFn_sort_by ev orc args ctx l keys h hk, mapM'_ok _ l keys hk, sortZip_map]

theorem callFn_sort_by_values_by (ev : Ev) (orc : Oracles) (args : List Expr) (ctx : Ctx)
    (m : List (Str × JV)) (keys : List (Option JV))
    (h : applyArg ev args ctx 0 = .ok (some (.obj m)))
    (hk : mapM' (fun (kv : Str × JV) => applyArg ev args (ctx.withInput kv.2) 1) m = .ok keys) :
    callFn ev orc "sort_by_values_by" args ctx = .ok (some (.obj (sortZip m keys))) := by
  show (do match (← applyArg ev args ctx 0) with
          | some (.obj m) =>
            let keys ← mapM' (fun (kv : Str × JV) => applyArg ev args (ctx.withInput kv.2) 1) m
            let sorted := stableSortBy (fun (x y : (Str × JV) × Option JV) => cmpOpt x.2 y.2) (m.zip keys)
            .ok (some (.obj (sorted.map (·.1))))
          | _ => .ok none : R) = _
  rw [h]
  show (do
      let keys ← mapM' (fun (kv : Str × JV) => applyArg ev args (ctx.withInput kv.2) 1) m
      let sorted := stableSortBy (fun (x y : (Str × JV) × Option JV) => cmpOpt x.2 y.2) (m.zip keys)
      .ok (some (.obj (sorted.map (·.1)))) : R) = _
  rw [hk]; rfl

theorem callFn_sort_by_values_by_eq (ev : Ev) (orc : Oracles) (args : List Expr) (ctx : Ctx)
    (m : List (Str × JV)) (keys : List (Option JV))
    (h : applyArg ev args ctx 0 = .ok (some (.obj m)))
    (hk : mapM' (fun (kv : Str × JV) => applyArg ev args (ctx.withInput kv.2) 1) m = .ok keys) :
    callFn ev orc "sort_by_values_by" args ctx = .ok (some (.obj (stableSortBy
      (fun x y =>
        cmpOpt (keyOf (fun (kv : Str × JV) => applyArg ev args (ctx.withInput kv.2) 1) x)
               (keyOf (fun (kv : Str × JV) => applyArg ev args (ctx.withInput kv.2) 1) y)) m))) := by
  rw [callFn_sort_by_values_by ev orc args ctx m keys h hk, mapM'_ok _ m keys hk, sortZip_map]

/-- the four properties of a sort by an evaluated key `g` (`g = keyOf …` for `sort_by` and
`sort_by_values_by`) -/
theorem sort_by_perm {β : Type} (g : β → Option JV) (l : List β) :
    (stableSortBy (fun x y => cmpOpt (g x) (g y)) l).Perm l := stableSortBy_perm' _ l

theorem sort_by_sorted {β : Type} (g : β → Option JV) (l : List β) :
    (stableSortBy (fun x y => cmpOpt (g x) (g y)) l).Pairwise (fun a b => cmpOpt (g a) (g b) ≠ .gt) :=
  stableSortBy_sorted cmpOpt_total_preorder g l

theorem sort_by_stable {β : Type} (g : β → Option JV) (l : List β) (k : Option JV) :
    (stableSortBy (fun x y => cmpOpt (g x) (g y)) l).filter (fun x => cmpOpt (g x) k = .eq)
      = l.filter (fun x => cmpOpt (g x) k = .eq) :=
  stableSortBy_stable cmpOpt_total_preorder g l k

theorem sort_by_eq_spec {β : Type} (g : β → Option JV) (l : List β) :
    stableSortBy (fun x y => cmpOpt (g x) (g y)) l = sortDir cmpOpt g false l :=
  stableSortBy_eq_sortDir cmpOpt_total_preorder g l

/-- elements without a key come first, in arrival order -/
theorem sort_by_none_first {β : Type} (g : β → Option JV) (l : List β) :
    (stableSortBy (fun x y => cmpOpt (g x) (g y)) l).filter (fun x => cmpOpt (g x) none = .eq)
      = l.filter (fun x => cmpOpt (g x) none = .eq) := sort_by_stable g l none

/-! ### `sort_unique` : sort, then `Vec::dedup` -/

/-- `R` holds between every two NEIGHBOURS of the list -/
def AdjacentAll {α : Type} (R : α → α → Prop) : List α → Prop
  | [] => True
  | [_] => True
  | a :: b :: t => R a b ∧ AdjacentAll R (b :: t)

theorem AdjacentAll.of_append {α : Type} {R : α → α → Prop} :
    ∀ {l : List α} (_ : AdjacentAll R l) (l₁ l₂ : List α) (a b : α), l = l₁ ++ a :: b :: l₂ → R a b
  | [], _, l₁, l₂, a, b, e => by cases l₁ <;> cases e
  | [x], _, l₁, l₂, a, b, e => by
    cases l₁ with
    | nil => cases e
    | cons y ys => cases ys <;> cases e
  | x :: y :: t, h, [], l₂, a, b, e => by
    cases e; exact h.1
  | x :: y :: t, h, z :: zs, l₂, a, b, e => by
    have e' : y :: t = zs ++ a :: b :: l₂ := (List.cons.inj e).2
    exact AdjacentAll.of_append h.2 zs l₂ a b e'

theorem AdjacentAll.getElem {α : Type} {R : α → α → Prop} {l : List α} (h : AdjacentAll R l)
    (i : Nat) (hi : i + 1 < l.length) : R (l[i]'(by omega)) (l[i + 1]'hi) := by
  induction l generalizing i with
  | nil => simp at hi
  | cons x t ih =>
    cases t with
    | nil => simp at hi
    | cons y t =>
      cases i with
      | zero => exact h.1
      | succ i => exact ih h.2 i (by simpa using hi)

/-- neighbours related by a transitive relation: all pairs related -/
theorem AdjacentAll.pairwise {α : Type} {R : α → α → Prop} (tr : ∀ a b c, R a b → R b c → R a c) :
    ∀ {l : List α}, AdjacentAll R l → l.Pairwise R
  | [], _ => List.Pairwise.nil
  | [x], _ => by simp
  | x :: y :: t, h => by
    have ih := AdjacentAll.pairwise tr h.2
    rw [List.pairwise_cons] at ih ⊢
    refine ⟨?_, List.pairwise_cons.mpr ih⟩
    intro z hz
    rcases List.mem_cons.mp hz with rfl | hz
    · exact h.1
    · exact tr _ _ _ h.1 (ih.1 z hz)

theorem dedupBy_cons_cons (eq : JV → JV → Bool) (x y : JV) (rest : List JV) :
    dedupBy eq (x :: y :: rest)
      = if eq x y then dedupBy eq (x :: rest) else x :: dedupBy eq (y :: rest) := by
  rw [dedupBy]

/-- `dedup` keeps the head -/
theorem dedupBy_head (eq : JV → JV → Bool) (x : JV) (l : List JV) :
    ∃ t, dedupBy eq (x :: l) = x :: t := by
  induction l with
  | nil => exact ⟨[], by rw [dedupBy]⟩
  | cons y rest ih =>
    rw [dedupBy_cons_cons]
    split
    · exact ih
    · exact ⟨_, rfl⟩

theorem dedupBy_sublist (eq : JV → JV → Bool) (l : List JV) : (dedupBy eq l).Sublist l := by
  fun_induction dedupBy eq l with
  | case1 => exact List.Sublist.refl _
  | case2 x => exact List.Sublist.refl _
  | case3 x y rest h ih =>
    exact ih.trans (List.Sublist.cons_cons x (List.sublist_cons_self y rest))
  | case4 x y rest h ih => exact List.Sublist.cons_cons x ih

/-- no two neighbours of the result are equal (`==`) -/
theorem dedupBy_adjacent (eq : JV → JV → Bool) (l : List JV) :
    AdjacentAll (fun a b => eq a b = false) (dedupBy eq l) := by
  fun_induction dedupBy eq l with
  | case1 => exact trivial
  | case2 x => exact trivial
  | case3 x y rest h ih => exact ih
  | case4 x y rest h ih =>
    obtain ⟨t, ht⟩ := dedupBy_head eq y rest
    rw [ht] at ih ⊢
    exact ⟨by simpa using h, ih⟩

/-- nothing is lost: a dropped element is `==` to a kept one (the head of its run) -/
theorem dedupBy_cover (eq : JV → JV → Bool) (l : List JV) :
    ∀ x ∈ l, x ∈ dedupBy eq l ∨ ∃ y ∈ dedupBy eq l, eq y x = true := by
  fun_induction dedupBy eq l with
  | case1 => intro x hx; cases hx
  | case2 x => intro z hz; exact Or.inl hz
  | case3 x y rest h ih =>
    intro z hz
    rcases List.mem_cons.mp hz with rfl | hz
    · exact ih _ (List.mem_cons_self ..)
    · rcases List.mem_cons.mp hz with rfl | hz
      · obtain ⟨t, ht⟩ := dedupBy_head eq x rest
        exact Or.inr ⟨x, by rw [ht]; exact List.mem_cons_self .., h⟩
      · exact ih z (List.mem_cons_of_mem _ hz)
  | case4 x y rest h ih =>
    intro z hz
    rcases List.mem_cons.mp hz with rfl | hz
    · exact Or.inl (List.mem_cons_self ..)
    · rcases ih z hz with h1 | ⟨w, hw, e⟩
      · exact Or.inl (List.mem_cons_of_mem _ h1)
      · exact Or.inr ⟨w, List.mem_cons_of_mem _ hw, e⟩

/-- the body of `sort_unique` -/
def sortUnique (l : List JV) : List JV := dedupBy JV.beq (stableSortBy JV.cmp l)

theorem callFn_sort_unique (ev : Ev) (orc : Oracles) (args : List Expr) (ctx : Ctx) (l : List JV)
    (h : applyArg ev args ctx 0 = .ok (some (.arr l))) :
    callFn ev orc "sort_unique" args ctx = .ok (some (.arr (sortUnique l))) := by
  show (do match (← applyArg ev args ctx 0) with
          | some (.arr l) => .ok (some (.arr (dedupBy JV.beq (stableSortBy JV.cmp l))))
          | _ => .ok none : R) = _
  rw [h]; rfl

theorem sort_unique_sublist (l : List JV) : (sortUnique l).Sublist (stableSortBy JV.cmp l) :=
  dedupBy_sublist _ _

/-- every result element is an input element -/
theorem sort_unique_subset (l : List JV) : ∀ x ∈ sortUnique l, x ∈ l := fun _ hx =>
  (sort_perm l).mem_iff.mp ((sort_unique_sublist l).subset hx)

theorem sort_unique_sorted (l : List JV) :
    (sortUnique l).Pairwise (fun a b => JV.cmp a b ≠ .gt) :=
  (sort_sorted l).sublist (sort_unique_sublist l)

theorem sort_unique_adjacent (l : List JV) :
    AdjacentAll (fun a b => JV.beq a b = false) (sortUnique l) := dedupBy_adjacent _ _

/-- every input element is in the result or `==` to a result element -/
theorem sort_unique_cover (l : List JV) :
    ∀ x ∈ l, x ∈ sortUnique l ∨ ∃ y ∈ sortUnique l, JV.beq y x = true := fun x hx =>
  dedupBy_cover JV.beq _ x ((sort_perm l).mem_iff.mpr hx)

/-- where `==` and the order agree on the elements of the input (`cmp = .eq → ==` is what is
used), the result is STRICTLY ascending, so no two of its elements are `==` or order-equal -/
theorem sort_unique_strict (l : List JV)
    (hcoh : ∀ a ∈ l, ∀ b ∈ l, JV.cmp a b = .eq → JV.beq a b = true) :
    (sortUnique l).Pairwise (fun a b => JV.cmp a b = .lt) := by
  have hadj : AdjacentAll (fun a b => JV.cmp a b = .lt ∧ a ∈ l ∧ b ∈ l) (sortUnique l) := by
    have h1 := sort_unique_adjacent l
    have h2 := sort_unique_sorted l
    have h3 := sort_unique_subset l
    generalize sortUnique l = r at h1 h2 h3
    induction r with
    | nil => exact trivial
    | cons x t ih =>
      cases t with
      | nil => exact trivial
      | cons y t =>
        rw [List.pairwise_cons] at h2
        have hx := h3 x (List.mem_cons_self ..)
        have hy := h3 y (List.mem_cons_of_mem _ (List.mem_cons_self ..))
        refine ⟨⟨?_, hx, hy⟩, ih h1.2 h2.2 (fun z hz => h3 z (List.mem_cons_of_mem _ hz))⟩
        have hle := h2.1 y (List.mem_cons_self ..)
        have hne : JV.cmp x y ≠ .eq := fun he => by
          have := hcoh x hx y hy he
          rw [h1.1] at this; cases this
        cases hc : JV.cmp x y <;> simp_all
  have hpw := AdjacentAll.pairwise (R := fun a b => JV.cmp a b = .lt ∧ a ∈ l ∧ b ∈ l)
    (fun a b c hab hbc => ⟨Order.cmp_total_preorder.lt_trans hab.1 hbc.1, hab.2.1, hbc.2.2⟩) hadj
  exact hpw.imp (fun {a b} h => h.1)

/-! #### non-vacuity and a limit of `sort_unique`

`==` ignores the member order of objects, the order does not (objects with the same names are
ordered by their printed text).  Two `==` objects therefore need not be neighbours after sorting, and
`dedup` only looks at neighbours: both survive. -/

/-- toy evaluator for the examples: constants evaluate to themselves, any other expression to the
input, except that Booleans have no key -/
def ev0 : Ev := fun e ctx =>
  match e with
  | .const v => .ok (some v)
  | _ => match ctx.input with
    | .bool _ => .ok none
    | v => .ok (some v)

example : callFn ev0 {} "sort" [.const (.arr [.bool true, .null, .bool false])] {}
    = .ok (some (.arr [.null, .bool false, .bool true])) := by
  rw [callFn_sort ev0 {} _ {} [.bool true, .null, .bool false] rfl, sort_eq_spec]; rfl

example : callFn ev0 {} "sort_unique" [.const (.arr [.bool true, .null, .bool true])] {}
    = .ok (some (.arr [.null, .bool true])) := by
  rw [callFn_sort_unique ev0 {} _ {} [.bool true, .null, .bool true] rfl, sortUnique, sort_eq_spec]
  show Except.ok (some (JV.arr (dedupBy JV.beq [.null, .bool true, .bool true]))) = _
  simp [dedupBy, JV.beq]

/-- the element without a key (the Boolean) goes first -/
example : callFn ev0 {} "sort_by" [.const (.arr [.str [], .bool true, .null]), .var []] {}
    = .ok (some (.arr [.bool true, .null, .str []])) := by
  rw [callFn_sort_by_eq ev0 {} _ {} [.str [], .bool true, .null] [some (.str []), none, some .null]
    rfl rfl, sort_by_eq_spec]
  rfl

example : callFn ev0 {} "sort_by_keys"
    [.const (.obj [("b".toList, .null), ("a".toList, .bool true)])] {}
    = .ok (some (.obj [("a".toList, .bool true), ("b".toList, .null)])) := by
  rw [callFn_sort_by_keys ev0 {} _ {} _ rfl, sort_by_keys_eq_spec]; rfl

example : callFn ev0 {} "sort_by_values"
    [.const (.obj [("a".toList, .bool true), ("b".toList, .null)])] {}
    = .ok (some (.obj [("b".toList, .null), ("a".toList, .bool true)])) := by
  rw [callFn_sort_by_values ev0 {} _ {} _ rfl, sort_by_values_eq_spec]; rfl

example : callFn ev0 {} "sort_by_values_by"
    [.const (.obj [("a".toList, .str []), ("b".toList, .bool true)]), .var []] {}
    = .ok (some (.obj [("b".toList, .bool true), ("a".toList, .str [])])) := by
  rw [callFn_sort_by_values_by_eq ev0 {} _ {} [("a".toList, .str []), ("b".toList, .bool true)]
    [some (.str []), none] rfl rfl, sort_by_eq_spec]
  rfl

/-- the hypothesis of `sort_unique_strict` is satisfiable -/
example : (sortUnique [.bool true, .null, .bool true]).Pairwise (fun a b => JV.cmp a b = .lt) :=
  sort_unique_strict _ (by
    intro a ha b hb
    simp only [List.mem_cons, List.not_mem_nil, or_false] at ha hb
    rcases ha with rfl | rfl | rfl <;> rcases hb with rfl | rfl | rfl <;> simp [JV.beq, JV.cmp, JV.rank])

/-- LIMIT of `sort_unique`: three distinct-looking objects, the first and the last `==` (same
members, other order); the order puts `{"a": true, "b": true}` between them, so `dedup` removes
nothing and the "unique" result holds two `==` values. -/
def dupObj₁ : JV := .obj [("a".toList, .bool true), ("b".toList, .bool false)]
def dupObj₂ : JV := .obj [("a".toList, .bool true), ("b".toList, .bool true)]
def dupObj₃ : JV := .obj [("b".toList, .bool false), ("a".toList, .bool true)]

theorem sort_unique_keeps_equal_objects :
    sortUnique [dupObj₃, dupObj₂, dupObj₁] = [dupObj₁, dupObj₂, dupObj₃] ∧
    JV.beq dupObj₁ dupObj₃ = true := by
  constructor
  · rw [sortUnique, sort_eq_spec]
    show dedupBy JV.beq [dupObj₁, dupObj₂, dupObj₃] = _
    simp [dedupBy, dupObj₁, dupObj₂, dupObj₃, JV.beq, JV.beqMembers, JV.beqLookup]
  · simp [dupObj₁, dupObj₃, JV.beq, JV.beqMembers, JV.beqLookup]

end Functions

/-! ## 3. Several sort keys

Repeated `--sort-by k₁ --sort-by k₂ …` build a chain of sorters in which the LAST key given sorts
first and the FIRST key given sorts last.  Every sorter is the stable sort `sortDir`
(`BucketSort.bucketsEmit_runUnbounded`), so the list that leaves the chain is
`sortDir k₁ d₁ (sortDir k₂ d₂ (… l))`: the stable sort by the lexicographic comparison, `k₁` most
significant. -/

section MultiKey
variable {α κ : Type} {cmp : κ → κ → Ordering}

theorem filter_and_congr_right {p : α → Bool} (q : α → Bool) {A B : List α}
    (h : A.filter p = B.filter p) :
    A.filter (fun x => q x && p x) = B.filter (fun x => q x && p x) := by
  rw [← List.filter_filter, ← List.filter_filter, h]

theorem filter_and_congr_left {p : α → Bool} (q : α → Bool) {A B : List α}
    (h : A.filter p = B.filter p) :
    A.filter (fun x => p x && q x) = B.filter (fun x => p x && q x) := by
  have e : (fun x => p x && q x) = (fun x => q x && p x) := funext fun x => Bool.and_comm _ _
  rw [e]; exact filter_and_congr_right q h

/-- **two keys**: sort by `k2` first, then (stably) by `k1` -/
theorem two_key_lex (H : TotalPreorderCmp cmp) (k1 k2 : α → κ) (d1 d2 : Bool) (l : List α) :
    (sortDir cmp k1 d1 (sortDir cmp k2 d2 l)).Perm l ∧
    SortedDir cmp k1 d1 (sortDir cmp k1 d1 (sortDir cmp k2 d2 l)) ∧
    (∀ k, SortedDir cmp k2 d2
      ((sortDir cmp k1 d1 (sortDir cmp k2 d2 l)).filter (fun x => cmp (k1 x) k = .eq))) ∧
    (∀ a b,
      (sortDir cmp k1 d1 (sortDir cmp k2 d2 l)).filter
          (fun x => cmp (k1 x) a = .eq && cmp (k2 x) b = .eq)
        = l.filter (fun x => cmp (k1 x) a = .eq && cmp (k2 x) b = .eq)) := by
  refine ⟨?_, ?_, ?_, ?_⟩
  · exact (sortDir_perm H k1 d1 _).trans (sortDir_perm H k2 d2 l)
  · exact sortDir_sorted H k1 d1 _
  · intro k
    rw [sortDir_stable H k1 d1 _ k]
    exact (sortDir_sorted H k2 d2 l).filter _
  · intro a b
    rw [filter_and_congr_left (fun x => decide (cmp (k2 x) b = .eq)) (sortDir_stable H k1 d1 _ a),
      filter_and_congr_right (fun x => decide (cmp (k1 x) a = .eq)) (sortDir_stable H k2 d2 l b)]

/-! ### any number of keys -/

/-- the comparison of two rows on one key in one direction -/
def dirCmp (cmp : κ → κ → Ordering) (k : α → κ) (d : Bool) (a b : α) : Ordering :=
  if d then cmp (k b) (k a) else cmp (k a) (k b)

/-- lexicographic comparison on a vector of (key, direction), the first key most significant -/
def lexCmp (cmp : κ → κ → Ordering) : List ((α → κ) × Bool) → α → α → Ordering
  | [], _, _ => .eq
  | kd :: rest, a, b => (dirCmp cmp kd.1 kd.2 a b).then (lexCmp cmp rest a b)

/-- the chain of sorters: the least significant (last) key sorts first -/
def multiSort (cmp : κ → κ → Ordering) (ks : List ((α → κ) × Bool)) (l : List α) : List α :=
  ks.foldr (fun kd acc => sortDir cmp kd.1 kd.2 acc) l

theorem multiSort_nil (l : List α) : multiSort cmp [] l = l := rfl
theorem multiSort_cons (kd : (α → κ) × Bool) (ks : List ((α → κ) × Bool)) (l : List α) :
    multiSort cmp (kd :: ks) l = sortDir cmp kd.1 kd.2 (multiSort cmp ks l) := rfl
theorem multiSort_two (k1 k2 : α → κ) (d1 d2 : Bool) (l : List α) :
    multiSort cmp [(k1, d1), (k2, d2)] l = sortDir cmp k1 d1 (sortDir cmp k2 d2 l) := rfl

theorem dirCmp_total_preorder (H : TotalPreorderCmp cmp) (k : α → κ) (d : Bool) :
    TotalPreorderCmp (dirCmp cmp k d) := by
  cases d
  · exact H.pullback k
  · exact ⟨fun a => H.refl _, fun a b => H.swap _ _, fun a b c h1 h2 => H.le_trans _ _ _ h2 h1⟩

theorem lexCmp_total_preorder (H : TotalPreorderCmp cmp) :
    ∀ ks : List ((α → κ) × Bool), TotalPreorderCmp (lexCmp cmp ks)
  | [] => ⟨fun _ => rfl, fun _ _ => rfl, fun _ _ _ _ _ => by simp [lexCmp]⟩
  | kd :: rest => (dirCmp_total_preorder H kd.1 kd.2).lexProd (lexCmp_total_preorder H rest)

theorem sortedDir_iff_dirCmp (H : TotalPreorderCmp cmp) (k : α → κ) (d : Bool) (L : List α) :
    SortedDir cmp k d L ↔ L.Pairwise (fun a b => dirCmp cmp k d a b ≠ .gt) := by
  unfold SortedDir dirCmp
  cases d
  · simp
  · simp only [if_true]
    constructor
    · exact fun h => h.imp (fun {a b} hab => H.ne_gt_iff.mpr hab)
    · exact fun h => h.imp (fun {a b} hab => H.ne_gt_iff.mp hab)

theorem dirCmp_eq_iff (H : TotalPreorderCmp cmp) (k : α → κ) (d : Bool) (a b : α) :
    dirCmp cmp k d a b = .eq ↔ cmp (k a) (k b) = .eq := by
  unfold dirCmp
  cases d
  · simp
  · simp only [if_true]; exact ⟨H.eq_symm, H.eq_symm⟩

theorem lexCmp_cons_eq_iff (H : TotalPreorderCmp cmp) (kd : (α → κ) × Bool)
    (rest : List ((α → κ) × Bool)) (a b : α) :
    lexCmp cmp (kd :: rest) a b = .eq ↔ cmp (kd.1 a) (kd.1 b) = .eq ∧ lexCmp cmp rest a b = .eq := by
  simp only [lexCmp, Ordering.then_eq_eq, dirCmp_eq_iff H]

/-- one more (more significant) key: a stable sort refines the order already there -/
theorem sortDir_refines (H : TotalPreorderCmp cmp) (k : α → κ) (d : Bool) (c₂ : α → α → Ordering)
    (L : List α) (hL : L.Pairwise (fun a b => c₂ a b ≠ .gt)) :
    (sortDir cmp k d L).Pairwise (fun a b => (dirCmp cmp k d a b).then (c₂ a b) ≠ .gt) := by
  have hs := (sortedDir_iff_dirCmp H k d _).mp (sortDir_sorted H k d L)
  rw [List.pairwise_iff_forall_sublist] at hs ⊢
  intro a b hab
  have h1 := hs hab
  cases hc : dirCmp cmp k d a b with
  | gt => exact absurd hc h1
  | lt => simp [Ordering.then]
  | eq =>
    show c₂ a b ≠ .gt
    -- both rows are in the class of `k a`, whose internal order is that of `L`
    have ha : cmp (k a) (k a) = .eq := H.refl _
    have hb : cmp (k b) (k a) = .eq := H.eq_symm ((dirCmp_eq_iff H k d a b).mp hc)
    have hf := hab.filter (fun x => decide (cmp (k x) (k a) = .eq))
    rw [sortDir_stable H k d L (k a)] at hf
    simp only [List.filter_cons, ha, hb, decide_true, if_true, List.filter_nil] at hf
    exact (List.pairwise_iff_forall_sublist.mp hL) (hf.trans List.filter_sublist)

theorem multiSort_perm (H : TotalPreorderCmp cmp) (ks : List ((α → κ) × Bool)) (l : List α) :
    (multiSort cmp ks l).Perm l := by
  induction ks with
  | nil => exact List.Perm.refl _
  | cons kd rest ih => exact (sortDir_perm H kd.1 kd.2 _).trans ih

theorem multiSort_length (H : TotalPreorderCmp cmp) (ks : List ((α → κ) × Bool)) (l : List α) :
    (multiSort cmp ks l).length = l.length := (multiSort_perm H ks l).length_eq

/-- **n keys**: the result is non-decreasing under the lexicographic comparison -/
theorem multiSort_sorted (H : TotalPreorderCmp cmp) (ks : List ((α → κ) × Bool)) (l : List α) :
    (multiSort cmp ks l).Pairwise (fun a b => lexCmp cmp ks a b ≠ .gt) := by
  induction ks with
  | nil =>
    rw [List.pairwise_iff_forall_sublist]
    intro a b _; simp [lexCmp]
  | cons kd rest ih => exact sortDir_refines H kd.1 kd.2 (lexCmp cmp rest) _ ih

/-- **n keys**: rows that tie on every key keep arrival order -/
theorem multiSort_stable (H : TotalPreorderCmp cmp) (ks : List ((α → κ) × Bool)) (l : List α)
    (r : α) :
    (multiSort cmp ks l).filter (fun x => lexCmp cmp ks x r = .eq)
      = l.filter (fun x => lexCmp cmp ks x r = .eq) := by
  induction ks with
  | nil => rfl
  | cons kd rest ih =>
    have e : (fun x => decide (lexCmp cmp (kd :: rest) x r = .eq))
        = (fun x => decide (cmp (kd.1 x) (kd.1 r) = .eq) && decide (lexCmp cmp rest x r = .eq)) := by
      funext x
      rw [← Bool.decide_and]
      exact decide_eq_decide.mpr (lexCmp_cons_eq_iff H kd rest x r)
    rw [e, multiSort_cons,
      filter_and_congr_left (fun x => decide (lexCmp cmp rest x r = .eq))
        (sortDir_stable H kd.1 kd.2 (multiSort cmp rest l) (kd.1 r)),
      filter_and_congr_right (fun x => decide (cmp (kd.1 x) (kd.1 r) = .eq)) ih]

/-- **n keys**: the chain of sorters IS the stable sort by the lexicographic comparison -/
theorem multiSort_eq_sortDir_lex (H : TotalPreorderCmp cmp) (ks : List ((α → κ) × Bool))
    (l : List α) : multiSort cmp ks l = sortDir (lexCmp cmp ks) id false l := by
  have HL := lexCmp_total_preorder H ks
  apply sorted_stable_unique HL id
  · exact (multiSort_perm H ks l).trans (sortDir_perm HL id false l).symm
  · exact multiSort_sorted H ks l
  · have := sortDir_sorted HL id false l
    unfold SortedDir at this
    simpa using this
  · intro r
    rw [sortDir_stable HL id false l r]
    exact multiSort_stable H ks l r

/-- … and Rust's stable `sort_by` with the lexicographic comparison gives the same list -/
theorem multiSort_eq_stableSortBy_lex (H : TotalPreorderCmp cmp) (ks : List ((α → κ) × Bool))
    (l : List α) : multiSort cmp ks l = stableSortBy (lexCmp cmp ks) l := by
  rw [multiSort_eq_sortDir_lex H]
  exact (stableSortBy_eq_sortDir (lexCmp_total_preorder H ks) id l).symm

/-! non-vacuity: rows `(a, b)`, first key `a` ascending, second key `b` descending -/
example : multiSort (compare : Nat → Nat → Ordering)
      [((·.1), false), ((·.2), true)] [((2 : Nat), (1 : Nat)), (1, 1), (2, 3), (1, 2), (2, 1)]
    = [(1, 2), (1, 1), (2, 3), (2, 1), (2, 1)] := by decide
example : lexCmp (compare : Nat → Nat → Ordering) [((·.1), false), ((·.2), true)]
    ((1 : Nat), (2 : Nat)) (1, 1) = .lt := by decide

end MultiKey

/-! ## 4. The direction word of `--sort-by` is case-insensitive

`directionOf` trims the text, upper-cases it (`str::to_uppercase`; of all non-ASCII characters only
U+017F LATIN SMALL LETTER LONG S upper-cases to one of the letters of `ASC` / `DESC`) and compares
with `""`, `ASC`, `DESC`.  Changing the ASCII case of any letters of ANY text (no ASCII hypothesis is
needed) does not change the answer. -/

section Direction

example : directionOf "asc".toList = .ok false := rfl
example : directionOf "ASC".toList = .ok false := rfl
example : directionOf [] = .ok false := rfl
example : directionOf "  ".toList = .ok false := rfl
example : directionOf "desc".toList = .ok true := rfl
example : directionOf "DeSc".toList = .ok true := rfl
example : directionOf " DESC\t".toList = .ok true := rfl
/-- as in Rust, where `"ſ".to_uppercase() == "S"` -/
example : directionOf "deſc".toList = .ok true := rfl
example : directionOf "down".toList = .error "UnknownOrder" := rfl
example : directionOf "de sc".toList = .error "UnknownOrder" := rfl

theorem toUpper_eq_self_or_lower (c : Char) :
    c.toUpper = c ∨ (97 ≤ c.toNat ∧ c.toNat ≤ 122) := by
  by_cases h : 'a'.val ≤ c.val ∧ c.val ≤ 'z'.val
  · right
    exact ⟨UInt32.le_iff_toNat_le.mp h.1, UInt32.le_iff_toNat_le.mp h.2⟩
  · left
    unfold Char.toUpper
    exact dif_neg h

theorem toLower_eq_self_or_upper (c : Char) :
    c.toLower = c ∨ (65 ≤ c.toNat ∧ c.toNat ≤ 90) := by
  by_cases h : 'A'.val ≤ c.val ∧ c.val ≤ 'Z'.val
  · right
    exact ⟨UInt32.le_iff_toNat_le.mp h.1, UInt32.le_iff_toNat_le.mp h.2⟩
  · left
    unfold Char.toLower
    exact dif_neg h

/-- a property of the 26 letters starting at code point `base` -/
theorem letter_cases (base : Nat) (P : Char → Prop) (h : ∀ n < 26, P (Char.ofNat (base + n)))
    (c : Char) (hc : base ≤ c.toNat ∧ c.toNat ≤ base + 25) : P c := by
  have := h (c.toNat - base) (by omega)
  rwa [show base + (c.toNat - base) = c.toNat by omega, Char.ofNat_toNat] at this

theorem isTrimWs_toUpper (c : Char) : isTrimWs c.toUpper = isTrimWs c := by
  rcases toUpper_eq_self_or_lower c with h | h
  · rw [h]
  · exact letter_cases 97 (fun c => isTrimWs c.toUpper = isTrimWs c) (by decide) c h

theorem upperChar_toUpper (c : Char) : upperChar c.toUpper = upperChar c := by
  rcases toUpper_eq_self_or_lower c with h | h
  · rw [h]
  · exact letter_cases 97 (fun c => upperChar c.toUpper = upperChar c) (by decide) c h

theorem isTrimWs_toLower (c : Char) : isTrimWs c.toLower = isTrimWs c := by
  rcases toLower_eq_self_or_upper c with h | h
  · rw [h]
  · exact letter_cases 65 (fun c => isTrimWs c.toLower = isTrimWs c) (by decide) c h

theorem upperChar_toLower (c : Char) : upperChar c.toLower = upperChar c := by
  rcases toLower_eq_self_or_upper c with h | h
  · rw [h]
  · exact letter_cases 65 (fun c => upperChar c.toLower = upperChar c) (by decide) c h

/-- trimming commutes with any character map that preserves "is white space" -/
theorem trimStr_map (f : Char → Char) (hf : ∀ c, isTrimWs (f c) = isTrimWs c) (t : Str) :
    trimStr (t.map f) = (trimStr t).map f := by
  have e : isTrimWs ∘ f = isTrimWs := funext hf
  unfold trimStr
  rw [List.dropWhile_map, e, ← List.map_reverse, List.dropWhile_map, e, List.map_reverse]

/-- the general statement: a character map that preserves white space and the upper-cased letter
does not change the direction -/
theorem directionOf_map (f : Char → Char) (hws : ∀ c, isTrimWs (f c) = isTrimWs c)
    (hup : ∀ c, upperChar (f c) = upperChar c) (t : Str) :
    directionOf (t.map f) = directionOf t := by
  have e : upperChar ∘ f = upperChar := funext hup
  simp only [directionOf, trimStr_map f hws, List.map_map, e]

/-- **case-insensitive**: upper-casing the text does not change the direction (ALL texts) -/
theorem directionOf_map_toUpper (t : Str) : directionOf (t.map Char.toUpper) = directionOf t :=
  directionOf_map _ isTrimWs_toUpper upperChar_toUpper t

/-- … nor does lower-casing -/
theorem directionOf_map_toLower (t : Str) : directionOf (t.map Char.toLower) = directionOf t :=
  directionOf_map _ isTrimWs_toLower upperChar_toLower t

/-- … nor changing the case of only some letters, e.g. `DeSc`: any per-position choice between
leaving the character, upper-casing it and lower-casing it -/
theorem directionOf_mixed_case (t u : Str) (hlen : u.length = t.length)
    (h : ∀ i (hi : i < t.length),
      u[i]'(by omega) = t[i] ∨ u[i]'(by omega) = t[i].toUpper ∨ u[i]'(by omega) = t[i].toLower) :
    directionOf u = directionOf t := by
  -- compare through `upperChar` and `isTrimWs`, position by position
  have hu : ∀ i (hi : i < t.length),
      isTrimWs (u[i]'(by omega)) = isTrimWs t[i] ∧ upperChar (u[i]'(by omega)) = upperChar t[i] := by
    intro i hi
    rcases h i hi with e | e | e <;> rw [e]
    · exact ⟨rfl, rfl⟩
    · exact ⟨isTrimWs_toUpper _, upperChar_toUpper _⟩
    · exact ⟨isTrimWs_toLower _, upperChar_toLower _⟩
  -- `u` and `t` are images of the list of pairs under the two projections
  have hz1 : (u.zip t).map (·.1) = u := List.map_fst_zip (by omega)
  have hz2 : (u.zip t).map (·.2) = t := List.map_snd_zip (by omega)
  have hall : ∀ p ∈ u.zip t, isTrimWs p.1 = isTrimWs p.2 ∧ upperChar p.1 = upperChar p.2 := by
    intro p hp
    obtain ⟨i, hi, rfl⟩ := List.getElem_of_mem hp
    have hi' : i < t.length := by simp at hi; omega
    simpa using hu i hi'
  have := directionOf_pairs _ hall
  rwa [hz1, hz2] at this
where
  directionOf_pairs (ps : List (Char × Char))
      (hall : ∀ p ∈ ps, isTrimWs p.1 = isTrimWs p.2 ∧ upperChar p.1 = upperChar p.2) :
      directionOf (ps.map (·.1)) = directionOf (ps.map (·.2)) := by
    have hdw : ∀ (qs : List (Char × Char)), (∀ p ∈ qs, isTrimWs p.1 = isTrimWs p.2) →
        (qs.map (·.1)).dropWhile isTrimWs = ((qs.dropWhile (fun p => isTrimWs p.2)).map (·.1)) ∧
        (qs.map (·.2)).dropWhile isTrimWs = ((qs.dropWhile (fun p => isTrimWs p.2)).map (·.2)) := by
      intro qs hqs
      induction qs with
      | nil => exact ⟨rfl, rfl⟩
      | cons q qs ih =>
        have hq := hqs q (List.mem_cons_self ..)
        have ih' := ih (fun p hp => hqs p (List.mem_cons_of_mem _ hp))
        simp only [List.map_cons, List.dropWhile_cons, hq]
        split
        · exact ih'
        · exact ⟨rfl, rfl⟩
    have hsub : ∀ {qs rs : List (Char × Char)}, (∀ p ∈ rs, p ∈ qs) →
        (∀ p ∈ qs, isTrimWs p.1 = isTrimWs p.2) → ∀ p ∈ rs, isTrimWs p.1 = isTrimWs p.2 :=
      fun hs hq p hp => hq p (hs p hp)
    have hws : ∀ p ∈ ps, isTrimWs p.1 = isTrimWs p.2 := fun p hp => (hall p hp).1
    -- the trimmed texts are the two projections of one trimmed list of pairs
    let tr : List (Char × Char) :=
      ((ps.dropWhile (fun p => isTrimWs p.2)).reverse.dropWhile (fun p => isTrimWs p.2)).reverse
    have hmem : ∀ p ∈ tr, p ∈ ps := by
      intro p hp
      have h1 := List.mem_reverse.mp hp
      have h2 := (List.dropWhile_sublist _).subset h1
      have h3 := List.mem_reverse.mp h2
      exact (List.dropWhile_sublist _).subset h3
    have h1 : trimStr (ps.map (·.1)) = tr.map (·.1) ∧ trimStr (ps.map (·.2)) = tr.map (·.2) := by
      unfold trimStr
      have a := hdw ps hws
      have hws' : ∀ p ∈ (ps.dropWhile (fun p => isTrimWs p.2)).reverse,
          isTrimWs p.1 = isTrimWs p.2 := fun p hp =>
        hws p ((List.dropWhile_sublist _).subset (List.mem_reverse.mp hp))
      have b := hdw _ hws'
      rw [a.1, a.2, ← List.map_reverse, ← List.map_reverse, b.1, b.2, List.map_reverse,
        List.map_reverse]
      exact ⟨rfl, rfl⟩
    have h2 : (tr.map (·.1)).map upperChar = (tr.map (·.2)).map upperChar := by
      rw [List.map_map, List.map_map]
      apply List.map_congr_left
      intro p hp
      exact (hall p (hmem p hp)).2
    simp only [directionOf, h1.1, h1.2, h2]

example : directionOf "DeSc".toList = directionOf "desc".toList :=
  directionOf_mixed_case "desc".toList "DeSc".toList rfl (by decide)

end Direction

end SortFns
end Jawk

/- axiom audit (all ⊆ {propext, Classical.choice, Quot.sound}):
#print axioms Jawk.SortFns.stableSortBy_perm
#print axioms Jawk.SortFns.stableSortBy_sorted
#print axioms Jawk.SortFns.stableSortBy_stable
#print axioms Jawk.SortFns.stableSortBy_eq_sortDir
#print axioms Jawk.SortFns.cmpOpt_total_preorder
#print axioms Jawk.SortFns.callFn_sort_by_eq
#print axioms Jawk.SortFns.callFn_sort_by_values_by_eq
#print axioms Jawk.SortFns.sort_unique_adjacent
#print axioms Jawk.SortFns.sort_unique_strict
#print axioms Jawk.SortFns.sort_unique_keeps_equal_objects
#print axioms Jawk.SortFns.two_key_lex
#print axioms Jawk.SortFns.multiSort_sorted
#print axioms Jawk.SortFns.multiSort_stable
#print axioms Jawk.SortFns.multiSort_eq_sortDir_lex
#print axioms Jawk.SortFns.directionOf_map_toUpper
#print axioms Jawk.SortFns.directionOf_mixed_case
-/
