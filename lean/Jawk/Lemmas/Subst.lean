/-
  Property C12: bindings are transparent — substitution theorems.

  Core
  * `callFn_le2` / `callFn_le` : every function body is *parametric* in its argument evaluator, argument
      list and context: related inputs give related results (`Le a b`: "`a` is overflow, or `a = b`").
  * `eval_fuel_mono` (+ `_panic`, `eval_fuel_stable`) : more depth fuel never changes an outcome other
      than `overflow`.
  Variables
  * `subst_var` : where `:n` is bound to `x`, `e` and `substVar n x e` evaluate alike (same fuel).
  * `set_is_substitution`, `set_frame`, `set_extract`; closed form `set_is_substitution_lexical`
      (original context) for the lexical fragment, via `eval_agree` (irrelevance of unread variables).
  Macros
  * `subst_macro` / `subst_macro_conv` : `@n` ↦ body, up to one unit of fuel;
    `define_is_substitution(_conv)`, closed form `define_is_substitution_lexical`.
  * `Ex.define_body_dynamic`, `Ex.define_body_dynamic_macro`, `Ex.computed_name_rebinds` :
      counter-examples showing where substitution has to stop (macro bodies are dynamically scoped).
  Stages
  * `presets_are_substitution`, `processP_subst_var`, `preset_select_subst`, `presetCtx_frame`
  * `selects_see_same_ctx`, `processP_selects`, `process_selects`, `select_extract_same`
  * `pipe_threads_n`, `pipeGo_stops`, `pipe_threads_3`, `pipeCtx_frame`

  Design choice for `substVar`: under a `set` whose name argument is not a literal string the body is
  left alone (sound without a side condition); the macro body of a `define` is always left alone.
-/
import Jawk.Model.Eval
import Jawk.Model.Stages
import Jawk.Spec.Pipeline
namespace Jawk.Subst
open Jawk

def Le {α} (a b : Except Abort α) : Prop := a = .error .overflow ∨ a = b

theorem Le.refl {α} (a : Except Abort α) : Le a a := Or.inr rfl

theorem Le.bind {α β} {m m' : Except Abort α} {f f' : α → Except Abort β}
    (hm : Le m m') (hf : ∀ a, m = .ok a → Le (f a) (f' a)) : Le (m >>= f) (m' >>= f') := by
  rcases hm with h | h
  · subst h; exact Or.inl rfl
  · subst h
    cases m with
    | error e => exact Or.inr rfl
    | ok a => exact hf a rfl

/-- pointwise relation between two argument lists -/
inductive Args (Q : Expr → Expr → Prop) : List Expr → List Expr → Prop where
  | nil : Args Q [] []
  | cons {e e' es es'} : Q e e' → Args Q es es' → Args Q (e :: es) (e' :: es')

theorem Args.length_eq {Q l l'} (h : Args Q l l') : l'.length = l.length := by
  induction h with
  | nil => rfl
  | cons _ _ ih => simp [ih]

theorem Args.get {Q l l'} (h : Args Q l l') (i : Nat) :
    (l[i]? = none ∧ l'[i]? = none) ∨ ∃ e e', l[i]? = some e ∧ l'[i]? = some e' ∧ Q e e' := by
  induction h generalizing i with
  | nil => left; simp
  | cons hq _ ih =>
    cases i with
    | zero => right; exact ⟨_, _, rfl, rfl, hq⟩
    | succ i => simpa using ih i

theorem Args.drop {Q l l'} (h : Args Q l l') (k : Nat) : Args Q (l.drop k) (l'.drop k) := by
  induction h generalizing k with
  | nil => simpa using Args.nil
  | cons hq hr ih =>
    cases k with
    | zero => exact Args.cons hq hr
    | succ k => simpa using ih k

/-! ### Parametricity of the function bodies, two contexts

`ev`, `args`, `ctx` on the left; `ev'`, `args'`, `ctx'` on the right; `CR` relates the contexts in
which corresponding arguments are evaluated (it contains `(ctx, ctx')` and is closed under `withInput`). -/

/-- the evaluator relation on a pair of argument expressions, in related contexts -/
def QArg2 (ev ev' : Ev) (CR : Ctx → Ctx → Prop) (e e' : Expr) : Prop :=
  ∀ c c' : Ctx, CR c c' → Le (ev e c) (ev' e' c')

structure Hyp2 (ev ev' : Ev) (fn : String) (args args' : List Expr) (ctx ctx' : Ctx)
    (CR : Ctx → Ctx → Prop) : Prop where
  cr0 : CR ctx ctx'
  crIn : ∀ c c' v, CR c c' → CR (c.withInput v) (c'.withInput v)
  inp : ∀ c c', CR c c' → c.input = c'.input
  rel : Args (QArg2 ev ev' CR) args args'
  /-- macro bodies (`@`) and parsed selections: the same expression on both sides -/
  same : fn = "@" ∨ fn = "parse_selection" → ∀ e, Le (ev e ctx) (ev' e ctx')
  var : fn = ":" → ∀ k, ctx.getVariable k = ctx'.getVariable k
  mac : fn = "@" → ∀ k, ctx.getDefinition k = ctx'.getDefinition k
  setb : fn = "set" → ∀ r k v, applyArg ev args ctx 0 = .ok r → strArg r = some k →
    Le (applyArg ev args (ctx.withVariable k v) 2) (applyArg ev' args' (ctx'.withVariable k v) 2)
  defb : fn = "define" → args[1]? = args'[1]? ∧ ∀ r k d, applyArg ev args ctx 0 = .ok r → strArg r = some k →
    args[1]? = some d →
    Le (applyArg ev args (ctx.withDefinition k d) 2) (applyArg ev' args' (ctx'.withDefinition k d) 2)

theorem Hyp2.crIn0 {ev ev' fn args args' ctx ctx' CR} (H : Hyp2 ev ev' fn args args' ctx ctx' CR) (v : JV) :
    CR (ctx.withInput v) (ctx'.withInput v) := H.crIn _ _ v H.cr0

theorem Hyp2.crPipe {ev ev' fn args args' ctx ctx' CR} (H : Hyp2 ev ev' fn args args' ctx ctx' CR) :
    CR (ctx.withInput ctx.input) (ctx'.withInput ctx'.input) := by
  rw [← H.inp _ _ H.cr0]; exact H.crIn0 _

theorem applyArg_le2 {ev ev' : Ev} {CR} {args args'} (h : Args (QArg2 ev ev' CR) args args') (i : Nat)
    (c c' : Ctx) (hc : CR c c') : Le (applyArg ev args c i) (applyArg ev' args' c' i) := by
  unfold applyArg
  rcases h.get i with ⟨h1, h2⟩ | ⟨e, e', h1, h2, hq⟩
  · rw [h1, h2]; exact Le.refl _
  · rw [h1, h2]; exact hq c c' hc

theorem foldArgs_le2 {σ} {ev ev' : Ev} {CR} {ctx ctx' : Ctx} {step : σ → Option JV → Except Abort (Sum (Option JV) σ)}
    {fin : σ → Option JV} {args args'} (h : Args (QArg2 ev ev' CR) args args') (hc : CR ctx ctx') (s : σ) :
    Le (foldArgs ev ctx step fin args s) (foldArgs ev' ctx' step fin args' s) := by
  induction h generalizing s with
  | nil => exact Le.refl _
  | cons hq _ ih =>
    unfold foldArgs
    apply Le.bind (hq _ _ hc)
    intro v _
    apply Le.bind (Le.refl _)
    intro r _
    split
    · exact Le.refl _
    · exact ih _

theorem mapM'_le {α β} {f f' : α → Except Abort β} (l : List α) (hf : ∀ x ∈ l, Le (f x) (f' x)) :
    Le (mapM' f l) (mapM' f' l) := by
  induction l with
  | nil => exact Le.refl _
  | cons x xs ih =>
    unfold mapM'
    apply Le.bind (hf x (by simp))
    intro y _
    apply Le.bind (ih (fun x hx => hf x (by simp [hx])))
    intro ys _
    exact Le.refl _

theorem mapM'_args_le2 {ev ev' : Ev} {CR} {ctx ctx' : Ctx} {args args'} (h : Args (QArg2 ev ev' CR) args args')
    (hc : CR ctx ctx') :
    Le (mapM' (fun e => ev e ctx) args) (mapM' (fun e => ev' e ctx') args') := by
  induction h with
  | nil => exact Le.refl _
  | cons hq _ ih =>
    unfold mapM'
    apply Le.bind (hq _ _ hc)
    intro y _
    apply Le.bind ih
    intro ys _
    exact Le.refl _

theorem pipeGo_le2 {ev ev' : Ev} {CR : Ctx → Ctx → Prop} {es es'} (h : Args (QArg2 ev ev' CR) es es')
    (hin : ∀ c c' v, CR c c' → CR (c.withInput v) (c'.withInput v)) (hinp : ∀ c c', CR c c' → c.input = c'.input) :
    ∀ c c' : Ctx, CR c c' → Le (callBasic.go ev c es) (callBasic.go ev' c' es') := by
  induction h with
  | nil => intro c c' hc; unfold callBasic.go; rw [hinp c c' hc]; exact Le.refl _
  | cons hq _ ih =>
    intro c c' hc
    unfold callBasic.go
    apply Le.bind (hq c c' hc)
    intro v _
    split
    · exact ih _ _ (hin _ _ _ hc)
    · exact Le.refl _

theorem foldGo_le2 {ev ev' : Ev} {CR : Ctx → Ctx → Prop} {ctx ctx' : Ctx} {f f' : Expr} (hq : QArg2 ev ev' CR f f')
    (hc : ∀ v, CR (ctx.withInput v) (ctx'.withInput v)) :
    ∀ (l : List JV) (cur : Option JV) (idx : Nat),
      Le (callList.foldGo ev ctx f cur idx l) (callList.foldGo ev' ctx' f' cur idx l) := by
  intro l
  induction l with
  | nil => intro cur idx; exact Le.refl _
  | cons v vs ih =>
    intro cur idx
    unfold callList.foldGo
    dsimp only
    refine Le.bind (hq _ _ (hc _)) ?_
    intro next _
    exact ih _ _

theorem foldSel {Q args args'} (h : Args Q args args') :
    ((if args.length > 2 then args[2]? else args[1]?) = none ∧
      (if args.length > 2 then args'[2]? else args'[1]?) = none) ∨
    ∃ f f', (if args.length > 2 then args[2]? else args[1]?) = some f ∧
      (if args.length > 2 then args'[2]? else args'[1]?) = some f' ∧ Q f f' := by
  split
  · exact h.get 2
  · exact h.get 1

macro "le_step" : tactic => `(tactic| first
  | exact Le.refl _
  | exact applyArg_le2 (Hyp2.rel ‹Hyp2 _ _ _ _ _ _ _ _›) _ _ _ (Hyp2.cr0 ‹Hyp2 _ _ _ _ _ _ _ _›)
  | exact applyArg_le2 (Hyp2.rel ‹Hyp2 _ _ _ _ _ _ _ _›) _ _ _ (Hyp2.crIn0 ‹Hyp2 _ _ _ _ _ _ _ _› _)
  | exact foldArgs_le2 (Hyp2.rel ‹Hyp2 _ _ _ _ _ _ _ _›) (Hyp2.cr0 ‹Hyp2 _ _ _ _ _ _ _ _›) _
  | exact Hyp2.same ‹Hyp2 _ _ _ _ _ _ _ _› (Or.inl rfl) _
  | exact Hyp2.same ‹Hyp2 _ _ _ _ _ _ _ _› (Or.inr rfl) _
  | exact pipeGo_le2 (Hyp2.rel ‹Hyp2 _ _ _ _ _ _ _ _›) (Hyp2.crIn ‹Hyp2 _ _ _ _ _ _ _ _›)
      (Hyp2.inp ‹Hyp2 _ _ _ _ _ _ _ _›) _ _ (Hyp2.crPipe ‹Hyp2 _ _ _ _ _ _ _ _›)
  | exact (Hyp2.defb ‹Hyp2 _ _ _ _ _ _ _ _› rfl).2 _ _ _ ‹_› ‹_› ‹_›
  | exact mapM'_args_le2 (Hyp2.rel ‹Hyp2 _ _ _ _ _ _ _ _›) (Hyp2.cr0 ‹Hyp2 _ _ _ _ _ _ _ _›)
  | exact mapM'_args_le2 ((Hyp2.rel ‹Hyp2 _ _ _ _ _ _ _ _›).drop _) (Hyp2.cr0 ‹Hyp2 _ _ _ _ _ _ _ _›)
  | (apply mapM'_le; intro _ _; try dsimp only)
  | exact Hyp2.setb ‹Hyp2 _ _ _ _ _ _ _ _› rfl _ _ _ ‹_› ‹_›
  | (rcases foldSel (Hyp2.rel ‹Hyp2 _ _ _ _ _ _ _ _›) with ⟨h1, h2⟩ | ⟨f, f', h1, h2, hq⟩ <;> simp only [h1, h2] <;>
      first | exact Le.refl _ | exact foldGo_le2 hq (Hyp2.crIn0 ‹Hyp2 _ _ _ _ _ _ _ _›) _ _ _)
  | (apply Le.bind)
  | intro _
  | split
  | dsimp only
  )

theorem callNumber_le2 {ev ev' fn args args' ctx ctx' CR} (H : Hyp2 ev ev' fn args args' ctx ctx' CR) :
   ∀ r, callNumber ev fn args ctx = some r → ∃ r', callNumber ev' fn args' ctx' = some r' ∧ Le r r' := by
  intro r h
  have hlen := H.rel.length_eq
  unfold callNumber at h
  split at h
  all_goals first | cases h | skip
  all_goals refine ⟨_, rfl, ?_⟩
  all_goals try dsimp only
  all_goals try simp only [hlen]
  all_goals repeat' le_step

theorem callBasic_le2 {ev ev' fn args args' ctx ctx' CR} (H : Hyp2 ev ev' fn args args' ctx ctx' CR) :
   ∀ r, callBasic ev fn args ctx = some r → ∃ r', callBasic ev' fn args' ctx' = some r' ∧ Le r r' := by
  intro r h
  have hlen := H.rel.length_eq
  unfold callBasic at h
  split at h
  all_goals first | cases h | skip
  all_goals refine ⟨_, rfl, ?_⟩
  all_goals try dsimp only
  all_goals try simp only [hlen]
  all_goals try simp only [← (H.defb rfl).1]
  all_goals try simp only [← H.var rfl]
  all_goals try simp only [← H.mac rfl]
  all_goals repeat' le_step

theorem callList_le2 {ev ev' fn args args' ctx ctx' CR} (H : Hyp2 ev ev' fn args args' ctx ctx' CR) :
   ∀ r, callList ev fn args ctx = some r → ∃ r', callList ev' fn args' ctx' = some r' ∧ Le r r' := by
  intro r h
  have hlen := H.rel.length_eq
  unfold callList at h
  split at h
  all_goals first | cases h | skip
  all_goals refine ⟨_, rfl, ?_⟩
  all_goals try dsimp only
  all_goals try simp only [hlen]
  all_goals repeat' le_step

theorem callObject_le2 {ev ev' fn args args' ctx ctx' CR} (H : Hyp2 ev ev' fn args args' ctx ctx' CR) :
   ∀ r, callObject ev fn args ctx = some r → ∃ r', callObject ev' fn args' ctx' = some r' ∧ Le r r' := by
  intro r h
  have hlen := H.rel.length_eq
  unfold callObject at h
  split at h
  all_goals first | cases h | skip
  all_goals refine ⟨_, rfl, ?_⟩
  all_goals try dsimp only
  all_goals try simp only [hlen]
  all_goals repeat' le_step

theorem callString_le2 {ev ev' orc fn args args' ctx ctx' CR} (H : Hyp2 ev ev' fn args args' ctx ctx' CR) :
   ∀ r, callString ev orc fn args ctx = some r → ∃ r', callString ev' orc fn args' ctx' = some r' ∧ Le r r' := by
  intro r h
  have hlen := H.rel.length_eq
  unfold callString at h
  split at h
  all_goals first | cases h | skip
  all_goals refine ⟨_, rfl, ?_⟩
  all_goals try dsimp only
  all_goals try simp only [hlen]
  all_goals repeat' le_step

theorem callNas_le2 {ev ev' orc fn args args' ctx ctx' CR} (H : Hyp2 ev ev' fn args args' ctx ctx' CR) :
   ∀ r, callNas ev orc fn args ctx = some r → ∃ r', callNas ev' orc fn args' ctx' = some r' ∧ Le r r' := by
  intro r h
  have hlen := H.rel.length_eq
  unfold callNas at h
  split at h
  all_goals first | cases h | skip
  all_goals refine ⟨_, rfl, ?_⟩
  all_goals try dsimp only
  all_goals try simp only [hlen]
  all_goals repeat' le_step

/-! ### the dispatcher -/

theorem callBasic_some {ev fn args ctx} (ev' : Ev) (args' : List Expr) (ctx' : Ctx) :
    ∀ r, callBasic ev fn args ctx = some r → ∃ r', callBasic ev' fn args' ctx' = some r' := by
  intro r h
  unfold callBasic at h
  split at h
  all_goals first | exact ⟨_, rfl⟩ | cases h

theorem callList_some {ev fn args ctx} (ev' : Ev) (args' : List Expr) (ctx' : Ctx) :
    ∀ r, callList ev fn args ctx = some r → ∃ r', callList ev' fn args' ctx' = some r' := by
  intro r h
  unfold callList at h
  split at h
  all_goals first | exact ⟨_, rfl⟩ | cases h

theorem callObject_some {ev fn args ctx} (ev' : Ev) (args' : List Expr) (ctx' : Ctx) :
    ∀ r, callObject ev fn args ctx = some r → ∃ r', callObject ev' fn args' ctx' = some r' := by
  intro r h
  unfold callObject at h
  split at h
  all_goals first | exact ⟨_, rfl⟩ | cases h

theorem callNumber_some {ev fn args ctx} (ev' : Ev) (args' : List Expr) (ctx' : Ctx) :
    ∀ r, callNumber ev fn args ctx = some r → ∃ r', callNumber ev' fn args' ctx' = some r' := by
  intro r h
  unfold callNumber at h
  split at h
  all_goals first | exact ⟨_, rfl⟩ | cases h

theorem callString_some {ev orc fn args ctx} (ev' : Ev) (args' : List Expr) (ctx' : Ctx) :
    ∀ r, callString ev orc fn args ctx = some r → ∃ r', callString ev' orc fn args' ctx' = some r' := by
  intro r h
  unfold callString at h
  split at h
  all_goals first | exact ⟨_, rfl⟩ | cases h

theorem callNas_some {ev orc fn args ctx} (ev' : Ev) (args' : List Expr) (ctx' : Ctx) :
    ∀ r, callNas ev orc fn args ctx = some r → ∃ r', callNas ev' orc fn args' ctx' = some r' := by
  intro r h
  unfold callNas at h
  split at h
  all_goals first | exact ⟨_, rfl⟩ | cases h

/-- two optional bodies: both absent, or both present and related -/
def OLe : Option R → Option R → Prop
  | some r, some r' => Le r r'
  | none, none => True
  | _, _ => False

theorem OLe.of {a b : Option R} (h1 : ∀ r, a = some r → ∃ r', b = some r' ∧ Le r r')
    (h2 : ∀ r', b = some r' → ∃ r, a = some r) : OLe a b := by
  cases a with
  | some r =>
    obtain ⟨r', hb, hle⟩ := h1 r rfl
    subst hb; exact hle
  | none =>
    cases b with
    | none => trivial
    | some r' => obtain ⟨r, hr⟩ := h2 r' rfl; cases hr

/-- **Parametricity of function bodies**: `callFn` maps related evaluators, argument lists and
contexts to related results. -/
theorem callFn_le2 {ev ev' orc fn args args' ctx ctx' CR} (H : Hyp2 ev ev' fn args args' ctx ctx' CR) :
    Le (callFn ev orc fn args ctx) (callFn ev' orc fn args' ctx') := by
  have h1 : OLe (callBasic ev fn args ctx) (callBasic ev' fn args' ctx') :=
    OLe.of (callBasic_le2 H) (callBasic_some ev args ctx)
  have h2 : OLe (callList ev fn args ctx) (callList ev' fn args' ctx') :=
    OLe.of (callList_le2 H) (callList_some ev args ctx)
  have h3 : OLe (callObject ev fn args ctx) (callObject ev' fn args' ctx') :=
    OLe.of (callObject_le2 H) (callObject_some ev args ctx)
  have h4 : OLe (callNumber ev fn args ctx) (callNumber ev' fn args' ctx') :=
    OLe.of (callNumber_le2 H) (callNumber_some ev args ctx)
  have h5 : OLe (callString ev orc fn args ctx) (callString ev' orc fn args' ctx') :=
    OLe.of (callString_le2 H) (callString_some ev args ctx)
  have h6 : OLe (callNas ev orc fn args ctx) (callNas ev' orc fn args' ctx') :=
    OLe.of (callNas_le2 H) (callNas_some ev args ctx)
  unfold callFn
  revert h1 h2 h3 h4 h5 h6
  generalize callBasic ev fn args ctx = a1, callBasic ev' fn args' ctx' = b1,
    callList ev fn args ctx = a2, callList ev' fn args' ctx' = b2,
    callObject ev fn args ctx = a3, callObject ev' fn args' ctx' = b3,
    callNumber ev fn args ctx = a4, callNumber ev' fn args' ctx' = b4,
    callString ev orc fn args ctx = a5, callString ev' orc fn args' ctx' = b5,
    callNas ev orc fn args ctx = a6, callNas ev' orc fn args' ctx' = b6
  intro h1 h2 h3 h4 h5 h6
  cases a1 <;> cases b1 <;> try exact h1.elim
  case some.some => exact h1
  cases a2 <;> cases b2 <;> try exact h2.elim
  case some.some => exact h2
  cases a3 <;> cases b3 <;> try exact h3.elim
  case some.some => exact h3
  cases a4 <;> cases b4 <;> try exact h4.elim
  case some.some => exact h4
  cases a5 <;> cases b5 <;> try exact h5.elim
  case some.some => exact h5
  cases a6 <;> cases b6 <;> try exact h6.elim
  case some.some => exact h6
  exact Le.refl _

/-! ### One context -/

/-- the evaluator relation on a pair of argument expressions in every context that has the
variables and definitions of `ctx` -/
def QArg (ev ev' : Ev) (ctx : Ctx) (e e' : Expr) : Prop :=
  ∀ c : Ctx, c.vars = ctx.vars → c.defs = ctx.defs → Le (ev e c) (ev' e' c)

/-- the one-context instance: both sides run in `ctx` -/
structure Hyp (ev ev' : Ev) (fn : String) (args args' : List Expr) (ctx : Ctx) : Prop where
  rel : Args (QArg ev ev' ctx) args args'
  same : ∀ e c, Le (ev e c) (ev' e c)
  setb : fn = "set" → ∀ r k v, applyArg ev args ctx 0 = .ok r → strArg r = some k →
    Le (applyArg ev args (ctx.withVariable k v) 2) (applyArg ev' args' (ctx.withVariable k v) 2)
  defb : fn = "define" → args[1]? = args'[1]? ∧ ∀ r k d, applyArg ev args ctx 0 = .ok r → strArg r = some k →
    args[1]? = some d →
    Le (applyArg ev args (ctx.withDefinition k d) 2) (applyArg ev' args' (ctx.withDefinition k d) 2)

theorem Args.mono {Q Q' : Expr → Expr → Prop} (hq : ∀ e e', Q e e' → Q' e e') {l l'} (h : Args Q l l') :
    Args Q' l l' := by
  induction h with
  | nil => exact Args.nil
  | cons h1 _ ih => exact Args.cons (hq _ _ h1) ih

theorem Hyp.to2 {ev ev' fn args args' ctx} (H : Hyp ev ev' fn args args' ctx) :
    Hyp2 ev ev' fn args args' ctx ctx (fun c c' => c = c' ∧ c.vars = ctx.vars ∧ c.defs = ctx.defs) where
  cr0 := ⟨rfl, rfl, rfl⟩
  crIn := fun c c' v h => ⟨by rw [h.1], h.2.1, h.2.2⟩
  inp := fun c c' h => by rw [h.1]
  rel := H.rel.mono (fun e e' hq c c' h => by rw [← h.1]; exact hq c h.2.1 h.2.2)
  same := fun _ e => H.same e ctx
  var := fun _ _ => rfl
  mac := fun _ _ => rfl
  setb := H.setb
  defb := H.defb

theorem callFn_le {ev ev' orc fn args args' ctx} (H : Hyp ev ev' fn args args' ctx) :
    Le (callFn ev orc fn args ctx) (callFn ev' orc fn args' ctx) := callFn_le2 H.to2

/-! ### facts about `Le` and `Args` -/

theorem Le.of_eq {α} {a b : Except Abort α} (h : a = b) : Le a b := Or.inr h

theorem Le.trans {α} {a b c : Except Abort α} (h1 : Le a b) (h2 : Le b c) : Le a c := by
  rcases h1 with h | h
  · exact Or.inl h
  · subst h; exact h2

theorem Le.antisymm {α} {a b : Except Abort α} (h1 : Le a b) (h2 : Le b a) : a = b := by
  rcases h1 with h | h
  · rcases h2 with h' | h'
    · rw [h, h']
    · exact h'.symm
  · exact h

/-- what `Le` means: every outcome except `overflow` is kept -/
theorem Le.eq_of_ne {α} {a b : Except Abort α} (h : Le a b) (hne : a ≠ .error .overflow) : b = a := by
  rcases h with h | h
  · exact absurd h hne
  · exact h.symm

theorem Le.ok {α} {a b : Except Abort α} {r : α} (h : Le a b) (ha : a = .ok r) : b = .ok r := by
  rw [h.eq_of_ne (by rw [ha]; intro h; cases h), ha]

theorem Le.panic {α} {a b : Except Abort α} {s : String} (h : Le a b) (ha : a = .error (.panic s)) :
    b = .error (.panic s) := by
  rw [h.eq_of_ne (by rw [ha]; intro h; cases h), ha]

theorem Args.refl {Q : Expr → Expr → Prop} (hq : ∀ e, Q e e) (l : List Expr) : Args Q l l := by
  induction l with
  | nil => exact Args.nil
  | cons e es ih => exact Args.cons (hq e) ih

theorem Args.flip {Q : Expr → Expr → Prop} {l l'} (h : Args Q l l') : Args (fun a b => Q b a) l' l := by
  induction h with
  | nil => exact Args.nil
  | cons h1 _ ih => exact Args.cons h1 ih

/-- `applyArg` in one (arbitrary) context -/
theorem applyArg_rel {Q : Expr → Expr → Prop} {ev ev' : Ev} {c : Ctx} {args args'} (h : Args Q args args')
    (hq : ∀ e e', Q e e' → Le (ev e c) (ev' e' c)) (i : Nat) :
    Le (applyArg ev args c i) (applyArg ev' args' c i) := by
  unfold applyArg
  rcases h.get i with ⟨h1, h2⟩ | ⟨e, e', h1, h2, hq'⟩
  · rw [h1, h2]; exact Le.refl _
  · rw [h1, h2]; exact hq _ _ hq'

/-- the same argument list under two evaluators, one below the other -/
theorem Hyp.of_ev_le {ev ev' : Ev} (h : ∀ e c, Le (ev e c) (ev' e c)) (fn : String) (args : List Expr) (ctx : Ctx) :
    Hyp ev ev' fn args args ctx where
  rel := Args.refl (fun e c _ _ => h e c) args
  same := h
  setb := fun _ _ _ _ _ _ => applyArg_rel (Args.refl (Q := Eq) (fun _ => rfl) args) (fun e _ he => he ▸ h e _) 2
  defb := fun _ => ⟨rfl, fun _ _ _ _ _ _ =>
    applyArg_rel (Args.refl (Q := Eq) (fun _ => rfl) args) (fun e _ he => he ▸ h e _) 2⟩

/-! ### Monotonicity in the depth fuel -/

/-- one more unit of fuel keeps every outcome that is not `overflow` -/
theorem eval_fuel_succ (orc : Oracles) : ∀ (f : Nat) (e : Expr) (ctx : Ctx),
    Le (eval orc f e ctx) (eval orc (f + 1) e ctx) := by
  intro f
  induction f with
  | zero => intro e ctx; exact Or.inl rfl
  | succ f ih =>
    intro e ctx
    cases e with
    | «macro» n =>
      simp only [eval]
      split
      · exact ih _ _
      · exact Le.refl _
    | call fn args =>
      simp only [eval]
      exact callFn_le (Hyp.of_ev_le ih fn args ctx)
    | _ => exact Le.refl _

theorem eval_fuel_le (orc : Oracles) {f f' : Nat} (h : f ≤ f') (e : Expr) (ctx : Ctx) :
    Le (eval orc f e ctx) (eval orc f' e ctx) := by
  induction h with
  | refl => exact Le.refl _
  | step _ ih => exact ih.trans (eval_fuel_succ orc _ e ctx)

/-- **Fuel monotonicity.**  A value obtained with fuel `f` is obtained with any larger fuel. -/
theorem eval_fuel_mono (orc : Oracles) {f f' : Nat} {e : Expr} {ctx : Ctx} {r : Option JV}
    (h : eval orc f e ctx = .ok r) (hf : f ≤ f') : eval orc f' e ctx = .ok r :=
  (eval_fuel_le orc hf e ctx).ok h

/-- a panic found with fuel `f` is found with any larger fuel -/
theorem eval_fuel_mono_panic (orc : Oracles) {f f' : Nat} {e : Expr} {ctx : Ctx} {s : String}
    (h : eval orc f e ctx = .error (.panic s)) (hf : f ≤ f') : eval orc f' e ctx = .error (.panic s) :=
  (eval_fuel_le orc hf e ctx).panic h

/-- `overflow` is the only outcome that more fuel can change -/
theorem eval_fuel_stable (orc : Oracles) {f f' : Nat} {e : Expr} {ctx : Ctx}
    (h : eval orc f e ctx ≠ .error .overflow) (hf : f ≤ f') : eval orc f' e ctx = eval orc f e ctx :=
  (eval_fuel_le orc hf e ctx).eq_of_ne h

/-- two fuels that both avoid `overflow` agree -/
theorem eval_fuel_agree (orc : Oracles) {f f' : Nat} {e : Expr} {ctx : Ctx}
    (h : eval orc f e ctx ≠ .error .overflow) (h' : eval orc f' e ctx ≠ .error .overflow) :
    eval orc f e ctx = eval orc f' e ctx := by
  rcases Nat.le_total f f' with hl | hl
  · exact (eval_fuel_stable orc h hl).symm
  · exact eval_fuel_stable orc h' hl

/-! ### Congruence (equality form) -/

theorem applyArg_eq {Q : Expr → Expr → Prop} {ev : Ev} {c : Ctx} {args args'} (h : Args Q args args')
    (hq : ∀ e e', Q e e' → ev e c = ev e' c) (i : Nat) :
    applyArg ev args c i = applyArg ev args' c i := by
  unfold applyArg
  rcases h.get i with ⟨h1, h2⟩ | ⟨e, e', h1, h2, hq'⟩
  · rw [h1, h2]
  · rw [h1, h2]; exact hq _ _ hq'

/-- the evaluator agrees on a pair of argument expressions in every context that has the
variables and definitions of `ctx` -/
def QEq (ev : Ev) (ctx : Ctx) (e e' : Expr) : Prop :=
  ∀ c : Ctx, c.vars = ctx.vars → c.defs = ctx.defs → ev e c = ev e' c

/-- hypotheses under which two argument lists are interchangeable for `fn` in `ctx` -/
structure HypEq (ev : Ev) (fn : String) (args args' : List Expr) (ctx : Ctx) : Prop where
  rel : Args (QEq ev ctx) args args'
  setb : fn = "set" → ∀ r k v, applyArg ev args ctx 0 = .ok r → strArg r = some k →
    applyArg ev args (ctx.withVariable k v) 2 = applyArg ev args' (ctx.withVariable k v) 2
  defb : fn = "define" → args[1]? = args'[1]? ∧ ∀ k d,
    applyArg ev args (ctx.withDefinition k d) 2 = applyArg ev args' (ctx.withDefinition k d) 2

theorem HypEq.fwd {ev fn args args' ctx} (H : HypEq ev fn args args' ctx) : Hyp ev ev fn args args' ctx where
  rel := H.rel.mono (fun _ _ h c hv hd => Le.of_eq (h c hv hd))
  same := fun _ _ => Le.refl _
  setb := fun hf r k v h1 h2 => Le.of_eq (H.setb hf r k v h1 h2)
  defb := fun hf => ⟨(H.defb hf).1, fun _ k d _ _ _ => Le.of_eq ((H.defb hf).2 k d)⟩

theorem HypEq.bwd {ev fn args args' ctx} (H : HypEq ev fn args args' ctx) : Hyp ev ev fn args' args ctx where
  rel := H.rel.flip.mono (fun _ _ h c hv hd => Le.of_eq (h c hv hd).symm)
  same := fun _ _ => Le.refl _
  setb := fun hf r k v h1 h2 => by
    have h0 : applyArg ev args ctx 0 = applyArg ev args' ctx 0 :=
      applyArg_eq H.rel (fun e e' h => h ctx rfl rfl) 0
    exact Le.of_eq (H.setb hf r k v (h0.trans h1) h2).symm
  defb := fun hf => ⟨(H.defb hf).1.symm, fun _ k d _ _ _ => Le.of_eq ((H.defb hf).2 k d).symm⟩

/-- interchangeable argument lists give the same result -/
theorem callFn_congr {ev orc fn args args' ctx} (H : HypEq ev fn args args' ctx) :
    callFn ev orc fn args ctx = callFn ev orc fn args' ctx :=
  Le.antisymm (callFn_le H.fwd) (callFn_le H.bwd)

/-! ### Substitution of a value for a variable -/

mutual
/-- replace the free occurrences of `:n` by the constant `x`.  `(set "n" v body)` with the literal
name `n` binds `n` in `body` (not in `v`); under a `set` whose name is not a literal string the body is
left alone (it may or may not rebind `n`); the macro body `d` of `(define k d body)` is left alone
(macro bodies are evaluated where they are *used*: see `define_body_dynamic`). -/
def substVar (n : Str) (x : JV) : Expr → Expr
  | .var m => if m = n then .const x else .var m
  | .call fn args =>
    .call fn (if fn = "set" then substVarSet n x args
      else if fn = "define" then substVarDefine n x args
      else substVarList n x args)
  | e => e
def substVarSet (n : Str) (x : JV) : List Expr → List Expr
  | .const (.str k) :: v :: rest =>
    if k = n then .const (.str k) :: substVar n x v :: rest
    else .const (.str k) :: substVar n x v :: substVarList n x rest
  | nameE :: v :: rest => substVar n x nameE :: substVar n x v :: rest
  | [e] => [substVar n x e]
  | [] => []
def substVarDefine (n : Str) (x : JV) : List Expr → List Expr
  | nameE :: d :: rest => substVar n x nameE :: d :: substVarList n x rest
  | [e] => [substVar n x e]
  | [] => []
def substVarList (n : Str) (x : JV) : List Expr → List Expr
  | [] => []
  | e :: es => substVar n x e :: substVarList n x es
end

/-- the argument list of a substituted call -/
def substVarArgs (n : Str) (x : JV) (fn : String) (args : List Expr) : List Expr :=
  if fn = "set" then substVarSet n x args
  else if fn = "define" then substVarDefine n x args
  else substVarList n x args

theorem substVar_call (n : Str) (x : JV) (fn : String) (args : List Expr) :
    substVar n x (.call fn args) = .call fn (substVarArgs n x fn args) := by
  rw [substVar]; rfl

/-- `e` and `e'` evaluate alike (fuel `f`) wherever `n` is bound to `x` -/
def VQ (orc : Oracles) (f : Nat) (n : Str) (x : JV) (e e' : Expr) : Prop :=
  ∀ c : Ctx, c.getVariable n = some x → eval orc f e c = eval orc f e' c

section
variable {orc : Oracles} {f : Nat} {n : Str} {x : JV}

theorem VQ.refl (e : Expr) : VQ orc f n x e e := fun _ _ => rfl

theorem args_list (ih : ∀ e, VQ orc f n x e (substVar n x e)) (l : List Expr) :
    Args (VQ orc f n x) l (substVarList n x l) := by
  induction l with
  | nil => rw [substVarList]; exact Args.nil
  | cons e es ihl => rw [substVarList]; exact Args.cons (ih e) ihl

theorem args_set (ih : ∀ e, VQ orc f n x e (substVar n x e)) (l : List Expr) :
    Args (VQ orc f n x) l (substVarSet n x l) := by
  unfold substVarSet
  split
  · split
    · exact Args.cons (VQ.refl _) (Args.cons (ih _) (Args.refl VQ.refl _))
    · exact Args.cons (VQ.refl _) (Args.cons (ih _) (args_list ih _))
  · exact Args.cons (ih _) (Args.cons (ih _) (Args.refl VQ.refl _))
  · exact Args.cons (ih _) Args.nil
  · exact Args.nil

theorem args_define (ih : ∀ e, VQ orc f n x e (substVar n x e)) (l : List Expr) :
    Args (VQ orc f n x) l (substVarDefine n x l) := by
  unfold substVarDefine
  split
  · exact Args.cons (ih _) (Args.cons (VQ.refl _) (args_list ih _))
  · exact Args.cons (ih _) Args.nil
  · exact Args.nil

theorem args_subst (ih : ∀ e, VQ orc f n x e (substVar n x e)) (fn : String) (l : List Expr) :
    Args (VQ orc f n x) l (substVarArgs n x fn l) := by
  unfold substVarArgs
  split
  · exact args_set ih l
  · split
    · exact args_define ih l
    · exact args_list ih l

theorem getVariable_withVariable_ne {c : Ctx} {k n : Str} (v : JV) (h : k ≠ n) :
    (c.withVariable k v).getVariable n = c.getVariable n := by
  simp [Ctx.withVariable, Ctx.getVariable, Ctx.lookup, h]

theorem applyArg_two (ev : Ev) (a b : Expr) (rest : List Expr) (c : Ctx) :
    applyArg ev (a :: b :: rest) c 2 = applyArg ev rest c 0 := by
  simp [applyArg]

/-- the body of a `set` after substitution: same value under the new binding -/
theorem set_body (ih : ∀ e, VQ orc f n x e (substVar n x e)) (args : List Expr) (ctx : Ctx)
    (hx : ctx.getVariable n = some x) (r : Option JV) (k : Str) (v : JV)
    (h0 : applyArg (eval orc f) args ctx 0 = .ok r) (hk : strArg r = some k) :
    applyArg (eval orc f) args (ctx.withVariable k v) 2 =
      applyArg (eval orc f) (substVarSet n x args) (ctx.withVariable k v) 2 := by
  unfold substVarSet
  split
  · next k0 v0 rest =>
    split
    · rfl
    · next hne =>
      rw [applyArg_two, applyArg_two]
      have hk0 : k = k0 := by
        cases f with
        | zero => simp [applyArg, eval] at h0
        | succ f =>
          simp only [applyArg, List.getElem?_cons_zero, eval] at h0
          cases h0
          simpa [strArg] using hk.symm
      subst hk0
      exact applyArg_eq (args_list ih rest)
        (fun e e' h => h _ ((getVariable_withVariable_ne v hne).trans hx)) 0
  · rfl
  · rfl
  · rfl

theorem hypEq_subst (ih : ∀ e, VQ orc f n x e (substVar n x e)) (fn : String) (args : List Expr) (ctx : Ctx)
    (hx : ctx.getVariable n = some x) :
    HypEq (eval orc f) fn args (substVarArgs n x fn args) ctx where
  rel := (args_subst ih fn args).mono (fun e e' h c hv _ => h c (by
    unfold Ctx.getVariable at hx ⊢; rw [hv]; exact hx))
  setb := fun hf r k v h0 hk => by
    subst hf
    exact set_body ih args ctx hx r k v h0 hk
  defb := fun hf => by
    subst hf
    refine ⟨?_, fun k d => ?_⟩
    · show args[1]? = (substVarDefine n x args)[1]?
      unfold substVarDefine
      split <;> rfl
    · show _ = applyArg (eval orc f) (substVarDefine n x args) (ctx.withDefinition k d) 2
      exact applyArg_eq (c := ctx.withDefinition k d) (args_define ih args) (fun e e' h => h _ hx) 2

end

/-- **Substitution lemma.**  Where `:n` is bound to `x`, an expression and its substitution
instance evaluate alike, with the same fuel. -/
theorem subst_var (orc : Oracles) (n : Str) (x : JV) : ∀ (fuel : Nat) (e : Expr) (ctx : Ctx),
    ctx.getVariable n = some x → eval orc fuel e ctx = eval orc fuel (substVar n x e) ctx := by
  intro fuel
  induction fuel with
  | zero => intro e ctx _; rfl
  | succ f ih =>
    intro e ctx hx
    cases e with
    | var m =>
      rw [substVar]
      split
      · next h => subst h; simp [eval, hx]
      · rfl
    | call fn args =>
      rw [substVar_call]
      simp only [eval]
      exact callFn_congr (hypEq_subst (fun e c hc => ih e c hc) fn args ctx hx)
    | _ => rfl


/-! ### `set` is substitution -/

/-- what `(set nameE v e)` computes -/
theorem eval_set (orc : Oracles) (fuel : Nat) (nameE v e : Expr) (ctx : Ctx) :
    eval orc (fuel + 1) (.call "set" [nameE, v, e]) ctx =
      (do let rn ← eval orc fuel nameE ctx
          let rv ← eval orc fuel v ctx
          match strArg rn, rv with
          | some n, some x => eval orc fuel e (ctx.withVariable n x)
          | _, _ => .ok none) := by
  simp only [eval]
  rfl

/-- **`(set "n" v e)` is substitution**: when `v` evaluates to `x`, the `set` evaluates like `e` with
every free `:n` replaced by `x`.  (The binding stays in the context for what substitution cannot
reach: macro bodies of the context, `(: …)` with a computed name, parsed selections.) -/
theorem set_is_substitution (orc : Oracles) (fuel : Nat) (n : Str) (v e : Expr) (ctx : Ctx) (x : JV)
    (hv : eval orc fuel v ctx = .ok (some x)) :
    eval orc (fuel + 1) (.call "set" [.const (.str n), v, e]) ctx =
      eval orc fuel (substVar n x e) (ctx.withVariable n x) := by
  cases fuel with
  | zero => cases hv
  | succ f =>
    rw [eval_set, hv]
    simp only [eval, bind, Except.bind, strArg]
    exact subst_var orc n x (f + 1) e _ (by simp [Ctx.withVariable, Ctx.getVariable, Ctx.lookup])

/-- a `set` whose value is nothing is nothing (the body is not evaluated) -/
theorem set_of_nothing (orc : Oracles) (fuel : Nat) (n : Str) (v e : Expr) (ctx : Ctx)
    (hv : eval orc fuel v ctx = .ok none) :
    eval orc (fuel + 1) (.call "set" [.const (.str n), v, e]) ctx = .ok none := by
  cases fuel with
  | zero => cases hv
  | succ f =>
    rw [eval_set, hv]
    simp only [eval, bind, Except.bind, strArg]

/-- the binding changes nothing else: input, enclosing inputs (`^`), selections, macros, input context -/
theorem set_frame (ctx : Ctx) (n : Str) (x : JV) :
    (ctx.withVariable n x).input = ctx.input ∧ (ctx.withVariable n x).parents = ctx.parents ∧
    (ctx.withVariable n x).results = ctx.results ∧ (ctx.withVariable n x).defs = ctx.defs ∧
    (ctx.withVariable n x).ictx = ctx.ictx ∧
    (∀ k, k ≠ n → (ctx.withVariable n x).getVariable k = ctx.getVariable k) ∧
    (ctx.withVariable n x).getVariable n = some x := by
  refine ⟨rfl, rfl, rfl, rfl, rfl, fun k hk => ?_, ?_⟩
  · exact getVariable_withVariable_ne x (Ne.symm hk)
  · simp [Ctx.withVariable, Ctx.getVariable, Ctx.lookup]

/-- extractors (`.k`, `#i`, `^…`), selections and input-context reads under a binding are those
outside it -/
theorem set_extract (orc : Oracles) (fuel : Nat) (ctx : Ctx) (n : Str) (x : JV) :
    (∀ p steps, eval orc fuel (.extract p steps) (ctx.withVariable n x) = eval orc fuel (.extract p steps) ctx) ∧
    (∀ t, eval orc fuel (.selected t) (ctx.withVariable n x) = eval orc fuel (.selected t) ctx) ∧
    (∀ k, eval orc fuel (.ictx k) (ctx.withVariable n x) = eval orc fuel (.ictx k) ctx) := by
  cases fuel with
  | zero => exact ⟨fun _ _ => rfl, fun _ => rfl, fun _ => rfl⟩
  | succ f => exact ⟨fun _ _ => rfl, fun _ => rfl, fun _ => rfl⟩

/-! ### Substitution of a body for a macro -/

mutual
/-- replace the free occurrences of `@n` by the expression `m`.  `(define "n" d body)` with the
literal name `n` binds `n` in `body`; under a `define` whose name is not a literal string the body is
left alone; macro bodies `d` are left alone (dynamic scope). -/
def substMacro (n : Str) (m : Expr) : Expr → Expr
  | .macro k => if k = n then m else .macro k
  | .call fn args =>
    .call fn (if fn = "define" then substMacroDefine n m args else substMacroList n m args)
  | e => e
def substMacroDefine (n : Str) (m : Expr) : List Expr → List Expr
  | .const (.str k) :: d :: rest =>
    if k = n then .const (.str k) :: d :: rest
    else .const (.str k) :: d :: substMacroList n m rest
  | nameE :: d :: rest => substMacro n m nameE :: d :: rest
  | [e] => [substMacro n m e]
  | [] => []
def substMacroList (n : Str) (m : Expr) : List Expr → List Expr
  | [] => []
  | e :: es => substMacro n m e :: substMacroList n m es
end

def substMacroArgs (n : Str) (m : Expr) (fn : String) (args : List Expr) : List Expr :=
  if fn = "define" then substMacroDefine n m args else substMacroList n m args

theorem substMacro_call (n : Str) (m : Expr) (fn : String) (args : List Expr) :
    substMacro n m (.call fn args) = .call fn (substMacroArgs n m fn args) := by
  rw [substMacro]; rfl

section
variable {n : Str} {m : Expr} {Q : Expr → Expr → Prop}

theorem margs_list (hs : ∀ e, Q e (substMacro n m e)) (l : List Expr) :
    Args Q l (substMacroList n m l) := by
  induction l with
  | nil => rw [substMacroList]; exact Args.nil
  | cons e es ihl => rw [substMacroList]; exact Args.cons (hs e) ihl

theorem margs_define (hs : ∀ e, Q e (substMacro n m e)) (hr : ∀ e, Q e e) (l : List Expr) :
    Args Q l (substMacroDefine n m l) := by
  unfold substMacroDefine
  split
  · split
    · exact Args.refl hr _
    · exact Args.cons (hr _) (Args.cons (hr _) (margs_list hs _))
  · exact Args.cons (hs _) (Args.refl hr _)
  · exact Args.cons (hs _) Args.nil
  · exact Args.nil

theorem margs_subst (hs : ∀ e, Q e (substMacro n m e)) (hr : ∀ e, Q e e) (fn : String) (l : List Expr) :
    Args Q l (substMacroArgs n m fn l) := by
  unfold substMacroArgs
  split
  · exact margs_define hs hr l
  · exact margs_list hs l

end

theorem getDefinition_withDefinition_ne {c : Ctx} {k n : Str} (d : Expr) (h : k ≠ n) :
    (c.withDefinition k d).getDefinition n = c.getDefinition n := by
  simp [Ctx.withDefinition, Ctx.getDefinition, Ctx.lookup, h]

/-- a literal name evaluates to itself -/
theorem const_name {orc : Oracles} {f : Nat} {k0 k : Str} {rest : List Expr} {ctx : Ctx} {r : Option JV}
    (h0 : applyArg (eval orc f) (.const (.str k0) :: rest) ctx 0 = .ok r) (hk : strArg r = some k) : k = k0 := by
  cases f with
  | zero => simp [applyArg, eval] at h0
  | succ f =>
    simp only [applyArg, List.getElem?_cons_zero, eval] at h0
    cases h0
    simpa [strArg] using hk.symm

/-- `e` is below `e'` (evaluators `ev`, `ev'`) wherever `@n` is bound to `m` -/
def MQ (ev ev' : Ev) (n : Str) (m : Expr) (e e' : Expr) : Prop :=
  ∀ c : Ctx, c.getDefinition n = some m → Le (ev e c) (ev' e' c)

/-- original → substituted -/
theorem hyp_macro_fwd {orc : Oracles} {f : Nat} {n : Str} {m : Expr}
    (ih : ∀ e, MQ (eval orc f) (eval orc f) n m e (substMacro n m e))
    (fn : String) (args : List Expr) (ctx : Ctx) (hm : ctx.getDefinition n = some m) :
    Hyp (eval orc f) (eval orc f) fn args (substMacroArgs n m fn args) ctx where
  rel := (margs_subst ih (fun _ _ _ => Le.refl _) fn args).mono (fun e e' h c _ hd => h c (by
    unfold Ctx.getDefinition at hm ⊢; rw [hd]; exact hm))
  same := fun _ _ => Le.refl _
  setb := fun hf r k v _ _ => by
    subst hf
    exact applyArg_rel (c := ctx.withVariable k v) (margs_subst ih (fun _ _ _ => Le.refl _) "set" args)
      (fun e e' h => h _ hm) 2
  defb := fun hf => by
    subst hf
    refine ⟨?_, fun r k d h0 hk hd => ?_⟩
    · show args[1]? = (substMacroDefine n m args)[1]?
      unfold substMacroDefine
      split
      · split <;> rfl
      all_goals rfl
    · clear hd
      show Le _ (applyArg (eval orc f) (substMacroDefine n m args) (ctx.withDefinition k d) 2)
      unfold substMacroDefine
      split
      · next k0 d0 rest =>
        split
        · exact Le.refl _
        · next hne =>
          rw [applyArg_two, applyArg_two]
          have hk0 := const_name h0 hk
          subst hk0
          exact applyArg_rel (margs_list ih rest)
            (fun e e' h => h _ ((getDefinition_withDefinition_ne d hne).trans hm)) 0
      all_goals exact Le.refl _

/-- **Macro substitution, forward.**  Where `@n` is bound to `m`, replacing the free `@n` of `e`
by `m` keeps every outcome that is not `overflow` (substitution can only need less fuel). -/
theorem subst_macro_le (orc : Oracles) (n : Str) (m : Expr) : ∀ (fuel : Nat) (e : Expr) (ctx : Ctx),
    ctx.getDefinition n = some m → Le (eval orc fuel e ctx) (eval orc fuel (substMacro n m e) ctx) := by
  intro fuel
  induction fuel with
  | zero => intro e ctx _; exact Or.inl rfl
  | succ f ih =>
    intro e ctx hm
    cases e with
    | «macro» k =>
      rw [substMacro]
      split
      · next h =>
        subst h
        simp only [eval, hm]
        exact eval_fuel_succ orc f m ctx
      · exact Le.refl _
    | call fn args =>
      rw [substMacro_call]
      simp only [eval]
      exact callFn_le (hyp_macro_fwd (fun e c hc => ih e c hc) fn args ctx hm)
    | _ => exact Le.refl _

theorem subst_macro (orc : Oracles) (n : Str) (m : Expr) (fuel : Nat) (e : Expr) (ctx : Ctx) (r : Option JV)
    (hm : ctx.getDefinition n = some m) (h : eval orc fuel e ctx = .ok r) :
    eval orc fuel (substMacro n m e) ctx = .ok r :=
  (subst_macro_le orc n m fuel e ctx hm).ok h

theorem subst_macro_panic (orc : Oracles) (n : Str) (m : Expr) (fuel : Nat) (e : Expr) (ctx : Ctx) (s : String)
    (hm : ctx.getDefinition n = some m) (h : eval orc fuel e ctx = .error (.panic s)) :
    eval orc fuel (substMacro n m e) ctx = .error (.panic s) :=
  (subst_macro_le orc n m fuel e ctx hm).panic h


/-- the same arguments, one more unit of fuel -/
theorem applyArg_fuel_succ (orc : Oracles) (f : Nat) (args : List Expr) (c : Ctx) (i : Nat) :
    Le (applyArg (eval orc f) args c i) (applyArg (eval orc (f + 1)) args c i) :=
  applyArg_rel (Args.refl (Q := Eq) (fun _ => rfl) args) (fun e _ he => he ▸ eval_fuel_succ orc f e c) i

/-- substituted → original, with one more unit of fuel -/
theorem hyp_macro_bwd {orc : Oracles} {f : Nat} {n : Str} {m : Expr}
    (ih : ∀ e, MQ (eval orc f) (eval orc (f + 1)) n m (substMacro n m e) e)
    (fn : String) (args : List Expr) (ctx : Ctx) (hm : ctx.getDefinition n = some m) :
    Hyp (eval orc f) (eval orc (f + 1)) fn (substMacroArgs n m fn args) args ctx := by
  have hr : ∀ e, MQ (eval orc f) (eval orc (f + 1)) n m e e := fun e c _ => eval_fuel_succ orc f e c
  have hargs : ∀ fn, Args (MQ (eval orc f) (eval orc (f + 1)) n m) (substMacroArgs n m fn args) args :=
    fun fn => (margs_subst (Q := fun a b => MQ (eval orc f) (eval orc (f + 1)) n m b a) ih hr fn args).flip
  refine ⟨?_, ?_, ?_, ?_⟩
  · exact (hargs fn).mono (fun e e' h c _ hd => h c (by
      unfold Ctx.getDefinition at hm ⊢; rw [hd]; exact hm))
  · exact fun e c => eval_fuel_succ orc f e c
  · intro hf r k v _ _
    exact applyArg_rel (c := ctx.withVariable k v) (hargs fn) (fun e e' h => h _ hm) 2
  · intro hf
    subst hf
    refine ⟨?_, fun r k d h0 hk hd => ?_⟩
    · show (substMacroDefine n m args)[1]? = args[1]?
      unfold substMacroDefine
      split
      · split <;> rfl
      all_goals rfl
    · clear hd
      have h0' : applyArg (eval orc f) (substMacroDefine n m args) ctx 0 = .ok r := h0
      clear h0
      show Le (applyArg (eval orc f) (substMacroDefine n m args) (ctx.withDefinition k d) 2) _
      unfold substMacroDefine at h0' ⊢
      split
      · next k0 d0 rest =>
        split
        · exact applyArg_fuel_succ orc f _ _ 2
        · next hne =>
          rw [applyArg_two, applyArg_two]
          simp only [hne, if_false] at h0'
          have hk0 := const_name h0' hk
          subst hk0
          exact applyArg_rel
            (margs_list (Q := fun a b => MQ (eval orc f) (eval orc (f + 1)) n m b a) ih rest).flip
            (fun e e' h => h _ ((getDefinition_withDefinition_ne d hne).trans hm)) 0
      · rw [applyArg_two, applyArg_two]; exact applyArg_fuel_succ orc f _ _ 0
      all_goals exact applyArg_fuel_succ orc f _ _ 2

/-- **Macro substitution, backward.**  What the substituted expression computes, the original
computes with one more unit of fuel (the `@n` steps). -/
theorem subst_macro_conv_le (orc : Oracles) (n : Str) (m : Expr) : ∀ (fuel : Nat) (e : Expr) (ctx : Ctx),
    ctx.getDefinition n = some m →
      Le (eval orc fuel (substMacro n m e) ctx) (eval orc (fuel + 1) e ctx) := by
  intro fuel
  induction fuel with
  | zero => intro e ctx _; exact Or.inl rfl
  | succ f ih =>
    intro e ctx hm
    cases e with
    | «macro» k =>
      rw [substMacro]
      split
      · next h =>
        subst h
        rw [show eval orc (f + 1 + 1) (.macro k) ctx = eval orc (f + 1) m ctx by simp only [eval, hm]]
        exact Le.refl _
      · exact eval_fuel_succ orc _ _ _
    | call fn args =>
      rw [substMacro_call]
      simp only [eval]
      exact callFn_le (hyp_macro_bwd (fun e c hc => ih e c hc) fn args ctx hm)
    | _ => exact eval_fuel_succ orc _ _ _

theorem subst_macro_conv (orc : Oracles) (n : Str) (m : Expr) (fuel : Nat) (e : Expr) (ctx : Ctx) (r : Option JV)
    (hm : ctx.getDefinition n = some m) (h : eval orc fuel (substMacro n m e) ctx = .ok r) :
    eval orc (fuel + 1) e ctx = .ok r :=
  (subst_macro_conv_le orc n m fuel e ctx hm).ok h

/-! ### `define` is substitution -/

/-- what `(define nameE d e)` computes: the *expression* `d` is bound, unevaluated -/
theorem eval_define (orc : Oracles) (fuel : Nat) (nameE d e : Expr) (ctx : Ctx) :
    eval orc (fuel + 1) (.call "define" [nameE, d, e]) ctx =
      (do let rn ← eval orc fuel nameE ctx
          match strArg rn with
          | some n => eval orc fuel e (ctx.withDefinition n d)
          | none => .ok none) := by
  simp only [eval]
  show (do let rn ← eval orc fuel nameE ctx
           match strArg rn, some d with
           | some n, some d => eval orc fuel e (ctx.withDefinition n d)
           | _, _ => .ok none) = _
  cases eval orc fuel nameE ctx with
  | error a => rfl
  | ok rn =>
    simp only [bind, Except.bind]
    cases strArg rn <;> rfl

theorem eval_define_lit (orc : Oracles) (fuel : Nat) (n : Str) (m e : Expr) (ctx : Ctx) :
    eval orc (fuel + 2) (.call "define" [.const (.str n), m, e]) ctx =
      eval orc (fuel + 1) e (ctx.withDefinition n m) := by
  rw [eval_define]
  simp only [eval, bind, Except.bind, strArg]

/-- **`(define "n" m e)` is substitution, forward**: a value of the `define` is a value of `e` with every
free `@n` replaced by `m` (evaluated with the binding still in place, for what substitution cannot
reach), with one unit of fuel less. -/
theorem define_is_substitution (orc : Oracles) (fuel : Nat) (n : Str) (m e : Expr) (ctx : Ctx) (r : Option JV)
    (h : eval orc (fuel + 2) (.call "define" [.const (.str n), m, e]) ctx = .ok r) :
    eval orc (fuel + 1) (substMacro n m e) (ctx.withDefinition n m) = .ok r := by
  rw [eval_define_lit] at h
  exact subst_macro orc n m _ e _ r (by simp [Ctx.withDefinition, Ctx.getDefinition, Ctx.lookup]) h

/-- … and backward: a value of the substituted body is the value of the `define` (one more unit of fuel) -/
theorem define_is_substitution_conv (orc : Oracles) (fuel : Nat) (n : Str) (m e : Expr) (ctx : Ctx) (r : Option JV)
    (h : eval orc fuel (substMacro n m e) (ctx.withDefinition n m) = .ok r) :
    eval orc (fuel + 2) (.call "define" [.const (.str n), m, e]) ctx = .ok r := by
  rw [eval_define_lit]
  exact subst_macro_conv orc n m _ e _ r (by simp [Ctx.withDefinition, Ctx.getDefinition, Ctx.lookup]) h

/-- the macro binding changes nothing else -/
theorem define_frame (ctx : Ctx) (n : Str) (m : Expr) :
    (ctx.withDefinition n m).input = ctx.input ∧ (ctx.withDefinition n m).parents = ctx.parents ∧
    (ctx.withDefinition n m).results = ctx.results ∧ (ctx.withDefinition n m).vars = ctx.vars ∧
    (ctx.withDefinition n m).ictx = ctx.ictx ∧
    (∀ k, k ≠ n → (ctx.withDefinition n m).getDefinition k = ctx.getDefinition k) ∧
    (ctx.withDefinition n m).getDefinition n = some m := by
  refine ⟨rfl, rfl, rfl, rfl, rfl, fun k hk => ?_, ?_⟩
  · exact getDefinition_withDefinition_ne m (Ne.symm hk)
  · simp [Ctx.withDefinition, Ctx.getDefinition, Ctx.lookup]

/-- `@n` costs one unit of fuel, then is the bound body in the *current* context -/
theorem macro_is_body (orc : Oracles) (fuel : Nat) (ctx : Ctx) (n : Str) (m : Expr)
    (h : ctx.getDefinition n = some m) :
    eval orc (fuel + 1) (.macro n) ctx = eval orc fuel m ctx := by simp only [eval, h]

/-! ### Examples, and why substitution stops where it does -/

namespace Ex
def str (x : String) : Expr := .const (.str x.toList)
def num (k : Nat) : JV := .num (.pos k)
def lit (k : Nat) : Expr := .const (num k)
def v (x : String) : Expr := .var x.toList
def mac (x : String) : Expr := .macro x.toList

/-- `(set "y" 2 (+ :x :y))` with `x := 1` is `(set "y" 2 (+ 1 :y))` -/
example : substVar "x".toList (num 1) (.call "set" [str "y", lit 2, .call "+" [v "x", v "y"]])
    = .call "set" [str "y", lit 2, .call "+" [lit 1, v "y"]] := rfl

/-- shadowing: the body of `(set "x" 2 :x)` is not touched, its value argument is -/
example : substVar "x".toList (num 1) (.call "set" [str "x", v "x", v "x"])
    = .call "set" [str "x", lit 1, v "x"] := rfl

/-- under `map` (input changes) substitution goes on -/
example : substVar "x".toList (num 1) (.call "map" [.extract 0 [], .call "+" [v "x", .extract 1 []]])
    = .call "map" [.extract 0 [], .call "+" [lit 1, .extract 1 []]] := rfl

/-- hypotheses of `subst_var` / `set_is_substitution` are satisfiable, and the two sides are real values -/
example : eval {} 5 (.call "set" [str "x", str "a", .call "set" [str "y", str "b", .call "concat" [v "x", v "y"]]]) {}
    = .ok (some (.str "ab".toList)) := rfl
example : eval {} 4 (substVar "x".toList (.str "a".toList) (.call "set" [str "y", str "b", .call "concat" [v "x", v "y"]]))
    (({} : Ctx).withVariable "x".toList (.str "a".toList)) = .ok (some (.str "ab".toList)) := rfl
example : (({} : Ctx).withVariable "x".toList (num 1)).getVariable "x".toList = some (num 1) := rfl

/-- `(define "m" :x …)`: macro bodies are evaluated where they are *used* -/
def dyn : Expr := .call "set" [str "x", lit 1,
  .call "define" [str "m", v "x", .call "set" [str "x", lit 2, mac "m"]]]
/-- the same with `:x` replaced by `1` inside the macro body -/
def dynSubst : Expr := .call "set" [str "x", lit 1,
  .call "define" [str "m", lit 1, .call "set" [str "x", lit 2, mac "m"]]]

/-- **Counter-example** to substituting into the macro body of a `define`: macros are dynamically
scoped, `@m` reads the `:x` of its use site. -/
theorem define_body_dynamic :
    eval {} 10 dyn {} = .ok (some (num 2)) ∧ eval {} 10 dynSubst {} = .ok (some (num 1)) := ⟨rfl, rfl⟩

/-- the same for macros inside macro bodies: `(define "n" 1 (define "k" @n (define "n" 2 @k)))` is `2` -/
def dynM : Expr := .call "define" [str "n", lit 1,
  .call "define" [str "k", mac "n", .call "define" [str "n", lit 2, mac "k"]]]
def dynMSubst : Expr := .call "define" [str "n", lit 1,
  .call "define" [str "k", lit 1, .call "define" [str "n", lit 2, mac "k"]]]
theorem define_body_dynamic_macro :
    eval {} 10 dynM {} = .ok (some (num 2)) ∧ eval {} 10 dynMSubst {} = .ok (some (num 1)) := ⟨rfl, rfl⟩

/-- **Counter-example** to substituting under a `set` with a computed name:
`(set (concat "x") 2 :x)` rebinds `x`. -/
def dynName : Expr := .call "set" [.call "concat" [str "x"], lit 2, v "x"]
theorem computed_name_rebinds :
    eval {} 10 dynName (({} : Ctx).withVariable "x".toList (num 1)) = .ok (some (num 2)) ∧
    substVar "x".toList (num 1) dynName = dynName := ⟨rfl, rfl⟩

/-- macro substitution: `(define "k" 7 (+ @m @k))` with `m := :x` -/
example : substMacro "m".toList (v "x") (.call "define" [str "k", lit 7, .call "+" [mac "m", mac "k"]])
    = .call "define" [str "k", lit 7, .call "+" [v "x", mac "k"]] := rfl
example : substMacro "m".toList (v "x") (.call "define" [str "m", mac "m", mac "m"])
    = .call "define" [str "m", mac "m", mac "m"] := rfl
example : eval {} 6 (.call "define" [str "m", .call "concat" [str "a", str "b"], .call "concat" [mac "m", mac "m"]]) {}
    = .ok (some (.str "abab".toList)) := rfl
end Ex

open Jawk.Pipe

/-! ### `--set` presets -/

/-- the context downstream of a `--set` stage -/
def presetCtx (vars : List (Str × JV)) (defs : List (Str × Expr)) (ctx : Ctx) : Ctx :=
  (ctx.withVariables vars).withDefinitions defs

/-- downstream of `--set`, `:n` / `@n` are exactly the preset table; everything else is untouched -/
theorem presetCtx_frame (vars : List (Str × JV)) (defs : List (Str × Expr)) (ctx : Ctx) :
    (∀ n, (presetCtx vars defs ctx).getVariable n = Ctx.lookup vars n) ∧
    (∀ n, (presetCtx vars defs ctx).getDefinition n = Ctx.lookup defs n) ∧
    (presetCtx vars defs ctx).input = ctx.input ∧ (presetCtx vars defs ctx).parents = ctx.parents ∧
    (presetCtx vars defs ctx).results = ctx.results ∧ (presetCtx vars defs ctx).ictx = ctx.ictx :=
  ⟨fun _ => rfl, fun _ => rfl, rfl, rfl, rfl, rfl⟩

/-- the `--set` stage (model of the `Process` chain): process the bound context with the rest -/
theorem preset_stage (orc : Oracles) (sink : SinkCfg) (k : Nat) (vars : List (Str × JV)) (defs : List (Str × Expr))
    (cs : List StageCfg) (st : StageSt) (sts : List StageSt) (w : Writer) (ctx : Ctx) :
    process orc sink k (.preset vars defs :: cs) (st :: sts) w ctx =
      (do let (p, d) ← process orc sink k cs sts w (presetCtx vars defs ctx)
          pure (⟨st :: p.sts, p.w⟩, d)) := by
  simp only [process]
  rfl

/-- the `--set` stage, effect-free machine -/
theorem preset_stageP (ev : Expr → Ctx → Option JV) (vars : List (Str × JV)) (defs : List (Str × Expr))
    (cs : List StageCfg) (st : StageSt) (sts : List StageSt) (ctx : Ctx) :
    processP ev (.preset vars defs :: cs) (st :: sts) ctx =
      (st :: (processP ev cs sts (presetCtx vars defs ctx)).1,
        (processP ev cs sts (presetCtx vars defs ctx)).2.1, (processP ev cs sts (presetCtx vars defs ctx)).2.2) := by
  simp only [processP]
  rfl

/-- the total evaluator respects substitution -/
theorem evalT_subst_var (orc : Oracles) (n : Str) (x : JV) (e : Expr) (ctx : Ctx)
    (h : ctx.getVariable n = some x) : evalT orc (substVar n x e) ctx = evalT orc e ctx := by
  unfold evalT
  rw [← subst_var orc n x evalFuel e ctx h]

theorem evalE_subst_var (orc : Oracles) (w : Writer) (n : Str) (x : JV) (e : Expr) (ctx : Ctx)
    (h : ctx.getVariable n = some x) : evalE orc w (substVar n x e) ctx = evalE orc w e ctx := by
  unfold evalE
  rw [← subst_var orc n x evalFuel e ctx h]

/-- substitute in the expression of a stage -/
def substStage (n : Str) (x : JV) : StageCfg → StageCfg
  | .split e => .split (substVar n x e)
  | .filter e => .filter (substVar n x e)
  | .select t e => .select t (substVar n x e)
  | .sort k d => .sort (substVar n x k) d
  | .group e => .group (substVar n x e)
  | c => c

def isPreset : StageCfg → Bool
  | .preset _ _ => true
  | _ => false

theorem feedBrk_congr {next next' : List StageSt → Ctx → Pipe.Step} (P : Ctx → Prop)
    (h : ∀ sts c, P c → next sts c = next' sts c) :
    ∀ (rows : List Ctx) (sts : List StageSt), (∀ c ∈ rows, P c) → feedBrk next sts rows = feedBrk next' sts rows := by
  intro rows
  induction rows with
  | nil => intro sts _; rfl
  | cons c cs ih =>
    intro sts hp
    simp only [feedBrk]
    rw [← h sts c (hp c (by simp))]
    rcases next sts c with ⟨s1, o1, d⟩
    cases d with
    | brk => rfl
    | cont =>
      simp only
      rw [ih s1 (fun c hc => hp c (by simp [hc]))]

/-- **`--set n=x` is substitution in every downstream stage** (up to the next `--set` stage):
a row in which `:n` is `x` is processed alike by the chain and by the chain with `x` substituted
for the free `:n` of every stage expression. -/
theorem processP_subst_var (orc : Oracles) (n : Str) (x : JV) :
    ∀ (cs : List StageCfg) (sts : List StageSt) (ctx : Ctx), (∀ c ∈ cs, isPreset c = false) →
      ctx.getVariable n = some x →
      processP (evalT orc) (cs.map (substStage n x)) sts ctx = processP (evalT orc) cs sts ctx := by
  intro cs
  induction cs with
  | nil => intro sts ctx _ _; rfl
  | cons c cs ih =>
    intro sts ctx hnp hx
    have hnp' : ∀ c ∈ cs, isPreset c = false := fun c hc => hnp c (by simp [hc])
    cases sts with
    | nil => rfl
    | cons st sts =>
      have hin : ∀ v : JV, (ctx.withInput v).getVariable n = some x := fun _ => hx
      cases c with
      | preset vars defs => exact absurd (hnp (.preset vars defs) (by simp)) (by simp [isPreset])
      | split e =>
        simp only [List.map_cons, substStage, processP, evalT_subst_var orc n x e ctx hx]
        split
        · next l _ =>
          rw [feedBrk_congr (next := processP (evalT orc) (cs.map (substStage n x))) (next' := processP (evalT orc) cs)
            (fun c => c.getVariable n = some x) (fun sts c hc => ih sts c hnp' hc)]
          intro c hc
          simp only [List.mem_map] at hc
          obtain ⟨v, _, rfl⟩ := hc
          exact hin v
        · rfl
      | filter e =>
        simp only [List.map_cons, substStage, processP, evalT_subst_var orc n x e ctx hx]
        split
        · rw [ih sts ctx hnp' hx]
        · rfl
      | select t e =>
        simp only [List.map_cons, substStage, processP, evalT_subst_var orc n x e ctx hx]
        rw [ih sts _ hnp' (show (ctx.withResult t (evalT orc e ctx)).getVariable n = some x from hx)]
      | unique =>
        simp only [List.map_cons, substStage, processP]
        split
        · split
          · rfl
          · rw [ih sts ctx hnp' hx]
        · rfl
      | sort k d =>
        simp only [List.map_cons, substStage, processP, evalT_subst_var orc n x k ctx hx]
      | limit sk tk =>
        simp only [List.map_cons, substStage, processP]
        split
        · split
          · rfl
          · split
            · split
              · rfl
              · rw [ih sts ctx hnp' hx]
            · rw [ih sts ctx hnp' hx]
        · rfl
      | group e =>
        simp only [List.map_cons, substStage, processP, evalT_subst_var orc n x e ctx hx]
      | merge => rfl

/-- **`--set n=x` presets are substitution**: with `n ↦ x` in the preset table, the chain after the
`--set` stage may have `x` substituted for `:n` in every stage expression; in particular a downstream
`--select` expression sees `getVariable n = lookup vars n`. -/
theorem presets_are_substitution (orc : Oracles) (vars : List (Str × JV)) (defs : List (Str × Expr))
    (cs : List StageCfg) (st : StageSt) (sts : List StageSt) (ctx : Ctx) (n : Str) (x : JV)
    (hn : Ctx.lookup vars n = some x) (hnp : ∀ c ∈ cs, isPreset c = false) :
    processP (evalT orc) (.preset vars defs :: cs.map (substStage n x)) (st :: sts) ctx =
      processP (evalT orc) (.preset vars defs :: cs) (st :: sts) ctx := by
  rw [preset_stageP, preset_stageP, processP_subst_var orc n x cs sts (presetCtx vars defs ctx) hnp hn]

/-- the effectful chain: a `--select` just after `--set` -/
theorem preset_select_subst (orc : Oracles) (sink : SinkCfg) (k : Nat) (vars : List (Str × JV))
    (defs : List (Str × Expr)) (t : Str) (e : Expr) (cs : List StageCfg) (sts : List StageSt) (w : Writer)
    (ctx : Ctx) (n : Str) (x : JV) (hn : Ctx.lookup vars n = some x) :
    process orc sink k (.preset vars defs :: .select t (substVar n x e) :: cs) sts w ctx =
      process orc sink k (.preset vars defs :: .select t e :: cs) sts w ctx := by
  cases sts with
  | nil => rfl
  | cons st sts =>
    rw [preset_stage, preset_stage]
    cases sts with
    | nil => rfl
    | cons st2 sts =>
      simp only [process, evalE_subst_var orc w n x e (presetCtx vars defs ctx) hn]

/-- `--set @n=m`: a downstream expression that does not run out of depth fuel may have `m`
substituted for its free `@n` -/
theorem evalT_subst_macro (orc : Oracles) (n : Str) (m : Expr) (e : Expr) (ctx : Ctx)
    (h : ctx.getDefinition n = some m) (hov : eval orc evalFuel e ctx ≠ .error .overflow) :
    evalT orc (substMacro n m e) ctx = evalT orc e ctx := by
  unfold evalT
  rw [(subst_macro_le orc n m evalFuel e ctx h).eq_of_ne hov]

/-! ### Every `--select` sees the same input, parents, variables and macros -/

/-- the context after a run of `--select` stages: only `results` grows -/
def selCtx (ev : Expr → Ctx → Option JV) : List (Str × Expr) → Ctx → Ctx
  | [], c => c
  | (t, e) :: rest, c => selCtx ev rest (c.withResult t (ev e c))

def selStages (sels : List (Str × Expr)) : List StageCfg := sels.map (fun p => .select p.1 p.2)

theorem selCtx_append (ev : Expr → Ctx → Option JV) (a b : List (Str × Expr)) (c : Ctx) :
    selCtx ev (a ++ b) c = selCtx ev b (selCtx ev a c) := by
  induction a generalizing c with
  | nil => rfl
  | cons p a ih => obtain ⟨t, e⟩ := p; simp only [List.cons_append, selCtx, ih]

/-- the frame of a run of selects -/
theorem selCtx_frame (ev : Expr → Ctx → Option JV) (sels : List (Str × Expr)) (c : Ctx) :
    (selCtx ev sels c).input = c.input ∧ (selCtx ev sels c).parents = c.parents ∧
    (selCtx ev sels c).vars = c.vars ∧ (selCtx ev sels c).defs = c.defs ∧
    (selCtx ev sels c).ictx = c.ictx ∧
    ∃ rs, (selCtx ev sels c).results = c.results ++ rs ∧ rs.map (·.1) = sels.map (·.1) := by
  induction sels generalizing c with
  | nil => exact ⟨rfl, rfl, rfl, rfl, rfl, [], by simp [selCtx], rfl⟩
  | cons p sels ih =>
    obtain ⟨t, e⟩ := p
    obtain ⟨h1, h2, h3, h4, h5, rs, h6, h7⟩ := ih (c.withResult t (ev e c))
    refine ⟨h1, h2, h3, h4, h5, (t, ev e c) :: rs, ?_, ?_⟩
    · show (selCtx ev sels (c.withResult t (ev e c))).results = _
      rw [h6]
      simp [Ctx.withResult]
    · simp [h7]

/-- **every `--select` sees the same context**: the `i`-th select expression is evaluated in a context
whose input, parents (`^`), variables, macros and input context are those of the first; its value is
appended to the results under its title. -/
theorem selects_see_same_ctx (ev : Expr → Ctx → Option JV) (sels : List (Str × Expr)) (c : Ctx) (i : Nat)
    (t : Str) (e : Expr) (hi : sels[i]? = some (t, e)) :
    let ci := selCtx ev (sels.take i) c
    ci.input = c.input ∧ ci.parents = c.parents ∧ ci.vars = c.vars ∧ ci.defs = c.defs ∧ ci.ictx = c.ictx ∧
    selCtx ev (sels.take (i + 1)) c = ci.withResult t (ev e ci) ∧
    (selCtx ev sels c).results[c.results.length + i]? = some (t, ev e ci) := by
  intro ci
  obtain ⟨h1, h2, h3, h4, h5, rs, h6, h7⟩ := selCtx_frame ev (sels.take i) c
  have hlt : i < sels.length := by
    rcases Nat.lt_or_ge i sels.length with h | h
    · exact h
    · rw [List.getElem?_eq_none h] at hi; cases hi
  have htake : sels.take (i + 1) = sels.take i ++ [(t, e)] := by
    rw [List.take_add_one, hi]; rfl
  have hstep : selCtx ev (sels.take (i + 1)) c = ci.withResult t (ev e ci) := by
    rw [htake, selCtx_append]; rfl
  refine ⟨h1, h2, h3, h4, h5, hstep, ?_⟩
  have hsplit : sels = sels.take (i + 1) ++ sels.drop (i + 1) := (List.take_append_drop _ _).symm
  rw [hsplit, selCtx_append, hstep]
  obtain ⟨_, _, _, _, _, rs', h6', _⟩ := selCtx_frame ev (sels.drop (i + 1)) (ci.withResult t (ev e ci))
  rw [h6']
  have hlen : rs.length = i := by
    have := congrArg List.length h7
    simpa [List.length_take, Nat.min_eq_left (Nat.le_of_lt hlt)] using this
  show ((ci.results ++ [(t, ev e ci)]) ++ rs')[c.results.length + i]? = _
  rw [h6]
  simp [hlen]

/-- extractors only look at the input and its parents -/
theorem eval_extract_congr (orc : Oracles) (fuel : Nat) (p : Nat) (steps : List Jawk.Step) (c c' : Ctx)
    (hi : c.input = c'.input) (hp : c.parents = c'.parents) :
    eval orc fuel (.extract p steps) c = eval orc fuel (.extract p steps) c' := by
  cases fuel with
  | zero => rfl
  | succ f => simp only [eval, Ctx.parentInput, hi, hp]

/-- a `^…` extractor in the `i`-th `--select` reads what it reads in the first -/
theorem select_extract_same (orc : Oracles) (ev : Expr → Ctx → Option JV) (sels : List (Str × Expr)) (c : Ctx)
    (i : Nat) (fuel p : Nat) (steps : List Jawk.Step) :
    eval orc fuel (.extract p steps) (selCtx ev (sels.take i) c) = eval orc fuel (.extract p steps) c := by
  obtain ⟨h1, h2, _⟩ := selCtx_frame ev (sels.take i) c
  exact eval_extract_congr orc fuel p steps _ _ h1 h2

/-- a chain of `k` selects in the effect-free machine: the rest of the chain gets `selCtx` -/
theorem processP_selects (ev : Expr → Ctx → Option JV) (sels : List (Str × Expr)) (cs : List StageCfg) :
    ∀ (sts1 sts : List StageSt) (ctx : Ctx), sts1.length = sels.length →
      processP ev (selStages sels ++ cs) (sts1 ++ sts) ctx =
        (sts1 ++ (processP ev cs sts (selCtx ev sels ctx)).1,
          (processP ev cs sts (selCtx ev sels ctx)).2.1, (processP ev cs sts (selCtx ev sels ctx)).2.2) := by
  induction sels with
  | nil =>
    intro sts1 sts ctx hl
    have : sts1 = [] := List.eq_nil_of_length_eq_zero hl
    subst this
    rfl
  | cons p sels ih =>
    intro sts1 sts ctx hl
    obtain ⟨t, e⟩ := p
    cases sts1 with
    | nil => cases hl
    | cons st sts1 =>
      simp only [selStages, List.map_cons, List.cons_append, processP, selCtx]
      have := ih sts1 sts (ctx.withResult t (ev e ctx)) (by simpa using hl)
      simp only [selStages] at this
      rw [this]

/-- every select of the run evaluates without abort -/
def SelOk (orc : Oracles) : List (Str × Expr) → Ctx → Prop
  | [], _ => True
  | (t, e) :: rest, c => ∃ r, eval orc evalFuel e c = .ok r ∧ SelOk orc rest (c.withResult t r)

/-- a chain of `k` selects in the model of the `Process` chain -/
theorem process_selects (orc : Oracles) (sink : SinkCfg) (k : Nat) (sels : List (Str × Expr))
    (cs : List StageCfg) :
    ∀ (sts1 sts : List StageSt) (w : Writer) (ctx : Ctx), sts1.length = sels.length → SelOk orc sels ctx →
      process orc sink k (selStages sels ++ cs) (sts1 ++ sts) w ctx =
        (do let (p, d) ← process orc sink k cs sts w (selCtx (evalT orc) sels ctx)
            pure (⟨sts1 ++ p.sts, p.w⟩, d)) := by
  induction sels with
  | nil =>
    intro sts1 sts w ctx hl _
    have : sts1 = [] := List.eq_nil_of_length_eq_zero hl
    subst this
    simp only [selStages, List.map_nil, List.nil_append, selCtx]
    cases process orc sink k cs sts w ctx with
    | error e => rfl
    | ok pd => rfl
  | cons p sels ih =>
    intro sts1 sts w ctx hl hok
    obtain ⟨t, e⟩ := p
    obtain ⟨r, hr, hok'⟩ := hok
    cases sts1 with
    | nil => cases hl
    | cons st sts1 =>
      have hT : evalT orc e ctx = r := by unfold evalT; rw [hr]
      simp only [selStages, List.map_cons, List.cons_append, process, selCtx, evalE, liftR, hr, hT]
      have := ih sts1 sts w (ctx.withResult t r) (by simpa using hl) hok'
      simp only [selStages] at this
      simp only [bind, Except.bind, pure, Except.pure] at this ⊢
      rw [this]
      cases process orc sink k cs sts w (selCtx (evalT orc) sels (ctx.withResult t r)) with
      | error e => rfl
      | ok pd => rfl

/-! ### Pipes of any length -/

/-- `(| e₁ … eₖ)` starts from the current input pushed once more on the parents -/
theorem pipe_is_go (ev : Ev) (es : List Expr) (ctx : Ctx) :
    callBasic ev "|" es ctx = some (callBasic.go ev (ctx.withInput ctx.input) es) := rfl

theorem pipeGo_nil (ev : Ev) (c : Ctx) : callBasic.go ev c [] = .ok (some c.input) := rfl

/-- one stage: the value of `e` becomes the input of the rest, the previous input its parent -/
theorem pipeGo_cons (ev : Ev) (c : Ctx) (e : Expr) (es : List Expr) :
    callBasic.go ev c (e :: es) =
      (match ev e c with
       | .ok (some v) => callBasic.go ev (c.withInput v) es
       | .ok none => .ok none
       | .error a => .error a) := by
  rw [callBasic.go]
  cases ev e c with
  | error a => rfl
  | ok r => cases r <;> rfl

/-- the context of stage `i+1` of a pipe whose first `i` stages produced `vs` -/
def pipeCtx (c : Ctx) (vs : List JV) : Ctx := vs.foldl Ctx.withInput c

theorem pipeCtx_snoc (c : Ctx) (vs : List JV) (v : JV) : pipeCtx c (vs ++ [v]) = (pipeCtx c vs).withInput v := by
  simp [pipeCtx]

/-- input and parents inside a pipe: the values so far, newest first, then the outer chain;
bindings untouched -/
theorem pipeCtx_frame (c : Ctx) (vs : List JV) :
    (pipeCtx c vs).input :: (pipeCtx c vs).parents = vs.reverse ++ c.input :: c.parents ∧
    (pipeCtx c vs).vars = c.vars ∧ (pipeCtx c vs).defs = c.defs ∧ (pipeCtx c vs).ictx = c.ictx := by
  induction vs generalizing c with
  | nil => exact ⟨rfl, rfl, rfl, rfl⟩
  | cons v vs ih =>
    obtain ⟨h1, h2, h3, h4⟩ := ih (c.withInput v)
    refine ⟨?_, h2, h3, h4⟩
    show (pipeCtx (c.withInput v) vs).input :: (pipeCtx (c.withInput v) vs).parents = _
    rw [h1]
    simp [Ctx.withInput]

/-- the stages `es` produce the values `vs`, each evaluated with its predecessor's value as input -/
def PipeRun (ev : Ev) : Ctx → List Expr → List JV → Prop
  | _, [], [] => True
  | c, e :: es, v :: vs => ev e c = .ok (some v) ∧ PipeRun ev (c.withInput v) es vs
  | _, _, _ => False

theorem pipeGo_run (ev : Ev) : ∀ (es : List Expr) (vs : List JV) (c : Ctx), PipeRun ev c es vs →
    callBasic.go ev c es = .ok (some (pipeCtx c vs).input) := by
  intro es
  induction es with
  | nil =>
    intro vs c h
    cases vs with
    | nil => rfl
    | cons _ _ => exact h.elim
  | cons e es ih =>
    intro vs c h
    cases vs with
    | nil => exact h.elim
    | cons v vs =>
      obtain ⟨h1, h2⟩ := h
      rw [pipeGo_cons, h1]
      exact ih vs _ h2

/-- **`(| e₁ … eₖ)` threads**: if stage `i` yields `vᵢ` when evaluated with input `vᵢ₋₁` (parents: the
earlier values, then the outer input), the pipe yields the last value. -/
theorem pipe_threads_n (ev : Ev) (es : List Expr) (vs : List JV) (ctx : Ctx)
    (h : PipeRun ev (ctx.withInput ctx.input) es vs) :
    callBasic ev "|" es ctx = some (.ok (some (pipeCtx (ctx.withInput ctx.input) vs).input)) := by
  rw [pipe_is_go, pipeGo_run ev es vs _ h]

/-- a stage that yields nothing ends the pipe with nothing; an abort is propagated -/
theorem pipeGo_stops (ev : Ev) : ∀ (es : List Expr) (vs : List JV) (c : Ctx) (e : Expr) (rest : List Expr),
    PipeRun ev c es vs →
    (ev e (pipeCtx c vs) = .ok none → callBasic.go ev c (es ++ e :: rest) = .ok none) ∧
    (∀ a, ev e (pipeCtx c vs) = .error a → callBasic.go ev c (es ++ e :: rest) = .error a) := by
  intro es
  induction es with
  | nil =>
    intro vs c e rest h
    cases vs with
    | nil =>
      constructor
      · intro h0; rw [List.nil_append, pipeGo_cons]; rw [show pipeCtx c [] = c from rfl] at h0; rw [h0]
      · intro a h0; rw [List.nil_append, pipeGo_cons]; rw [show pipeCtx c [] = c from rfl] at h0; rw [h0]
    | cons _ _ => exact h.elim
  | cons e1 es ih =>
    intro vs c e rest h
    cases vs with
    | nil => exact h.elim
    | cons v vs =>
      obtain ⟨h1, h2⟩ := h
      have := ih vs (c.withInput v) e rest h2
      rw [List.cons_append, pipeGo_cons, h1]
      exact this

/-- three stages, spelled out: `(| a b c)` is `c` on the value of `b` on the value of `a` -/
theorem pipe_threads_3 (ev : Ev) (a b c : Expr) (ctx : Ctx) (va vb vc : JV)
    (ha : ev a (ctx.withInput ctx.input) = .ok (some va))
    (hb : ev b ((ctx.withInput ctx.input).withInput va) = .ok (some vb))
    (hc : ev c (((ctx.withInput ctx.input).withInput va).withInput vb) = .ok (some vc)) :
    callBasic ev "|" [a, b, c] ctx = some (.ok (some vc)) ∧
    (((ctx.withInput ctx.input).withInput va).withInput vb).input = vb ∧
    (((ctx.withInput ctx.input).withInput va).withInput vb).parents = va :: ctx.input :: ctx.input :: ctx.parents ∧
    (((ctx.withInput ctx.input).withInput va).withInput vb).vars = ctx.vars ∧
    (((ctx.withInput ctx.input).withInput va).withInput vb).defs = ctx.defs :=
  ⟨pipe_threads_n ev [a, b, c] [va, vb, vc] ctx ⟨ha, hb, hc, trivial⟩, rfl, rfl, rfl, rfl⟩

/-! ### Non-vacuity of the hypotheses used above -/

namespace Ex
/-- `eval_fuel_mono`: a value found with fuel 3 -/
example : eval {} 3 (.call "concat" [str "a", str "b"]) {} = .ok (some (.str "ab".toList)) := rfl
/-- fuel really matters only through `overflow` -/
example : eval {} 1 (.call "concat" [str "a", str "b"]) {} = .error .overflow := rfl

/-- `presets_are_substitution` / `processP_subst_var`: a preset table binding `x`, a select reading it -/
example : Ctx.lookup [("x".toList, num 1)] "x".toList = some (num 1) := rfl
example : ∀ c ∈ [StageCfg.select "a".toList (v "x"), .filter (.call "=" [v "x", lit 1])], isPreset c = false := by
  intro c hc
  simp only [List.mem_cons, List.not_mem_nil, or_false] at hc
  rcases hc with rfl | rfl <;> rfl
example : (presetCtx [("x".toList, num 1)] [] {}).getVariable "x".toList = some (num 1) := rfl

/-- `process_selects`: two selects that evaluate fine, the second reading the first's `^`-free input -/
example : SelOk {} [("a".toList, .extract 0 []), ("b".toList, .extract 0 [])] { input := num 5 } :=
  ⟨some (num 5), rfl, some (num 5), rfl, trivial⟩
example : [("a".toList, Expr.extract 0 []), ("b".toList, .extract 1 [])][1]? = some ("b".toList, .extract 1 []) := rfl

/-- `pipe_threads_n`: `(| "a" (concat . "b") (concat . "c"))` -/
example : PipeRun (eval {} 5) (({} : Ctx).withInput .null)
    [str "a", .call "concat" [.extract 0 [], str "b"], .call "concat" [.extract 0 [], .extract 1 []]]
    [.str "a".toList, .str "ab".toList, .str "aba".toList] := ⟨rfl, rfl, rfl, trivial⟩
end Ex

/-! ### The lexical fragment: where a binding can be dropped after substitution -/

/-- names that make the value of an expression depend on bindings that substitution cannot see:
computed variable / macro names, parsed selections, macro definitions -/
def dynamicFns : List String := [":", "@", "parse_selection", "define"]

mutual
/-- `noRead N e`: `e` has no dynamic feature (no `@m`, no call of `dynamicFns`, every `set` has a
literal name and a value) and no free `:k` with `k ∈ N`.  Decidable, syntactic. -/
def noRead (N : List Str) : Expr → Bool
  | .var k => decide (k ∉ N)
  | .macro _ => false
  | .call fn args =>
    if fn = "set" then noReadSet N args
    else if fn ∈ dynamicFns then false
    else noReadList N args
  | _ => true
def noReadSet (N : List Str) : List Expr → Bool
  | .const (.str k) :: v :: rest => noRead N v && noReadList (N.filter (fun j => decide (j ≠ k))) rest
  | _ => false
def noReadList (N : List Str) : List Expr → Bool
  | [] => true
  | e :: es => noRead N e && noReadList N es
end

/-- the lexical fragment: variables, literal-name `set`, every function except `dynamicFns` -/
def Lexical (e : Expr) : Prop := noRead [] e = true

instance (e : Expr) : Decidable (Lexical e) := inferInstanceAs (Decidable (_ = true))

/-- two contexts that differ at most in the variables named in `N` -/
def AgreeOff (N : List Str) (c c' : Ctx) : Prop :=
  c.input = c'.input ∧ c.parents = c'.parents ∧ c.results = c'.results ∧ c.defs = c'.defs ∧
  c.ictx = c'.ictx ∧ ∀ k, k ∉ N → c.getVariable k = c'.getVariable k

theorem AgreeOff.symm {N c c'} (h : AgreeOff N c c') : AgreeOff N c' c :=
  ⟨h.1.symm, h.2.1.symm, h.2.2.1.symm, h.2.2.2.1.symm, h.2.2.2.2.1.symm, fun k hk => (h.2.2.2.2.2 k hk).symm⟩

theorem AgreeOff.withInput {N c c'} (h : AgreeOff N c c') (v : JV) : AgreeOff N (c.withInput v) (c'.withInput v) := by
  obtain ⟨h1, h2, h3, h4, h5, h6⟩ := h
  refine ⟨rfl, ?_, rfl, h4, h5, h6⟩
  show c.input :: c.parents = c'.input :: c'.parents
  rw [h1, h2]

theorem AgreeOff.withVariable {N c c'} (h : AgreeOff N c c') (k : Str) (x : JV) :
    AgreeOff (N.filter (fun j => decide (j ≠ k))) (c.withVariable k x) (c'.withVariable k x) := by
  obtain ⟨h1, h2, h3, h4, h5, h6⟩ := h
  refine ⟨h1, h2, h3, h4, h5, fun j hj => ?_⟩
  by_cases hjk : k = j
  · subst hjk; simp [Ctx.withVariable, Ctx.getVariable, Ctx.lookup]
  · rw [getVariable_withVariable_ne x hjk, getVariable_withVariable_ne x hjk]
    apply h6
    intro hmem
    exact hj (List.mem_filter.2 ⟨hmem, by simpa using fun h => hjk h.symm⟩)

theorem noReadList_get {N : List Str} : ∀ {l : List Expr}, noReadList N l = true → ∀ e ∈ l, noRead N e = true
  | [], _, _, he => by cases he
  | x :: xs, h, e, he => by
    rw [noReadList, Bool.and_eq_true] at h
    rcases List.mem_cons.1 he with rfl | he'
    · exact h.1
    · exact noReadList_get h.2 e he'

theorem args_of_noRead {Q : Expr → Expr → Prop} {N : List Str} (hq : ∀ e, noRead N e = true → Q e e) :
    ∀ l : List Expr, noReadList N l = true → Args Q l l
  | [], _ => Args.nil
  | x :: xs, h => by
    rw [noReadList, Bool.and_eq_true] at h
    exact Args.cons (hq x h.1) (args_of_noRead hq xs h.2)

/-- what `(set nameE v …)` computes, any number of further arguments -/
theorem eval_set_args (orc : Oracles) (fuel : Nat) (nameE v : Expr) (rest : List Expr) (ctx : Ctx) :
    eval orc (fuel + 1) (.call "set" (nameE :: v :: rest)) ctx =
      (do let rn ← eval orc fuel nameE ctx
          let rv ← eval orc fuel v ctx
          match strArg rn, rv with
          | some n, some x => applyArg (eval orc fuel) rest (ctx.withVariable n x) 0
          | _, _ => .ok none) := by
  simp only [eval]
  show (do let rn ← eval orc fuel nameE ctx
           let rv ← eval orc fuel v ctx
           match strArg rn, rv with
           | some n, some x => applyArg (eval orc fuel) (nameE :: v :: rest) (ctx.withVariable n x) 2
           | _, _ => .ok none) = _
  simp only [applyArg_two]

theorem eval_const_ctx (orc : Oracles) (f : Nat) (v : JV) (c c' : Ctx) :
    eval orc f (.const v) c = eval orc f (.const v) c' := by
  cases f <;> rfl

/-- **Irrelevance.**  An expression without dynamic features and without free `:k`, `k ∈ N`,
evaluates alike in contexts that differ only in the variables `N`. -/
theorem eval_agree_le (orc : Oracles) : ∀ (f : Nat) (e : Expr) (N : List Str) (c c' : Ctx),
    noRead N e = true → AgreeOff N c c' → Le (eval orc f e c) (eval orc f e c') := by
  intro f
  induction f with
  | zero => intro e N c c' _ _; exact Or.inl rfl
  | succ f ih =>
    intro e N c c' hn hc
    obtain ⟨h1, h2, h3, h4, h5, h6⟩ := hc
    cases e with
    | extract p steps => simp only [eval, Ctx.parentInput, h1, h2]; exact Le.refl _
    | const v => exact Le.refl _
    | var k =>
      simp only [eval]
      rw [h6 k (by simpa [noRead] using hn)]
      exact Le.refl _
    | «macro» k => simp [noRead] at hn
    | selected t => simp only [eval, Ctx.getSelected, h3]; exact Le.refl _
    | ictx k => simp only [eval, h5]; exact Le.refl _
    | call fn args =>
      rw [noRead] at hn
      split at hn
      · next hfn =>
        subst hfn
        unfold noReadSet at hn
        split at hn
        · next k v rest =>
          rw [Bool.and_eq_true] at hn
          rw [eval_set_args, eval_set_args, eval_const_ctx orc f _ c c']
          apply Le.bind (Le.refl _)
          intro rn hrn
          apply Le.bind (ih v N c c' hn.1 ⟨h1, h2, h3, h4, h5, h6⟩)
          intro rv _
          split
          · next n' x hsn _ =>
            have hk : n' = k := by
              cases f with
              | zero => cases hrn
              | succ f =>
                simp only [eval] at hrn
                cases hrn
                simpa [strArg] using hsn.symm
            subst hk
            exact applyArg_le2 (CR := AgreeOff (N.filter (fun j => decide (j ≠ n'))))
              (args_of_noRead (fun e he c c' hcc => ih e _ c c' he hcc) rest hn.2) 0 _ _
              (AgreeOff.withVariable ⟨h1, h2, h3, h4, h5, h6⟩ n' x)
          · exact Le.refl _
        · cases hn
      · split at hn
        · cases hn
        · next hset hdyn =>
          simp only [eval]
          have hd : ∀ s ∈ dynamicFns, fn ≠ s := fun s hs h => hdyn (h ▸ hs)
          apply callFn_le2 (CR := AgreeOff N)
          refine ⟨⟨h1, h2, h3, h4, h5, h6⟩, fun _ _ v h => h.withInput v, fun _ _ h => h.1, ?_, ?_, ?_, ?_, ?_, ?_⟩
          · exact args_of_noRead (fun e he c c' hcc => ih e N c c' he hcc) args hn
          · rintro (h | h)
            · exact absurd h (hd _ (by simp [dynamicFns]))
            · exact absurd h (hd _ (by simp [dynamicFns]))
          · intro h; exact absurd h (hd _ (by simp [dynamicFns]))
          · intro h; exact absurd h (hd _ (by simp [dynamicFns]))
          · intro h; exact absurd h hset
          · intro h; exact absurd h (hd _ (by simp [dynamicFns]))

theorem eval_agree (orc : Oracles) (f : Nat) (e : Expr) (N : List Str) (c c' : Ctx)
    (hn : noRead N e = true) (hc : AgreeOff N c c') : eval orc f e c = eval orc f e c' :=
  Le.antisymm (eval_agree_le orc f e N c c' hn hc) (eval_agree_le orc f e N c' c hn hc.symm)

theorem filter_ne_comm (N : List Str) (a b : Str) :
    (N.filter (fun j => decide (j ≠ a))).filter (fun j => decide (j ≠ b)) =
      (N.filter (fun j => decide (j ≠ b))).filter (fun j => decide (j ≠ a)) := by
  simp only [List.filter_filter]
  congr 1
  funext j
  exact Bool.and_comm _ _

theorem filter_ne_idem (N : List Str) (a : Str) :
    (N.filter (fun j => decide (j ≠ a))).filter (fun j => decide (j ≠ a)) = N.filter (fun j => decide (j ≠ a)) := by
  simp only [List.filter_filter, Bool.and_self]

mutual
/-- after substitution of `x` for `:n`, a lexical expression no longer reads `n` -/
theorem noRead_subst (n : Str) (x : JV) : ∀ (e : Expr) (N : List Str),
    noRead (N.filter (fun j => decide (j ≠ n))) e = true → noRead N (substVar n x e) = true
  | .var k, N, h => by
    rw [substVar]
    split
    · rfl
    · next hne =>
      simp only [noRead, decide_eq_true_eq, List.mem_filter, not_and] at h ⊢
      intro hm
      exact h hm (by simpa using hne)
  | .call fn args, N, h => by
    rw [substVar_call]
    rw [noRead] at h ⊢
    unfold substVarArgs
    split
    · next hfn => simp only [hfn, if_true] at h ⊢; exact noReadSet_subst n x args N h
    · next hfn =>
      simp only [hfn, if_false] at h ⊢
      split at h
      · cases h
      · next hdyn =>
        have hdef : fn ≠ "define" := fun hd => hdyn (hd ▸ by simp [dynamicFns])
        simp only [hdef, if_false, hdyn]
        exact noReadList_subst n x args N h
  | .extract _ _, _, _ => rfl
  | .const _, _, _ => rfl
  | .macro _, _, h => by simp [noRead] at h
  | .selected _, _, _ => rfl
  | .ictx _, _, _ => rfl
theorem noReadSet_subst (n : Str) (x : JV) : ∀ (l : List Expr) (N : List Str),
    noReadSet (N.filter (fun j => decide (j ≠ n))) l = true → noReadSet N (substVarSet n x l) = true
  | .const (.str k) :: v :: rest, N, h => by
    rw [noReadSet, Bool.and_eq_true] at h
    rw [substVarSet]
    split
    · next hk =>
      subst hk
      rw [noReadSet, Bool.and_eq_true]
      refine ⟨noRead_subst _ x v N h.1, ?_⟩
      have := h.2
      rw [filter_ne_idem] at this
      exact this
    · rw [noReadSet, Bool.and_eq_true]
      refine ⟨noRead_subst n x v N h.1, ?_⟩
      apply noReadList_subst n x rest
      rw [filter_ne_comm]
      exact h.2
  | [], _, h => by simp [noReadSet] at h
  | [_], _, h => by
    rw [noReadSet] at h
    · cases h
    · intro k v rest hh; cases hh
  | .extract _ _ :: _ :: _, _, h => by simp [noReadSet] at h
  | .var _ :: _ :: _, _, h => by simp [noReadSet] at h
  | .macro _ :: _ :: _, _, h => by simp [noReadSet] at h
  | .selected _ :: _ :: _, _, h => by simp [noReadSet] at h
  | .ictx _ :: _ :: _, _, h => by simp [noReadSet] at h
  | .call _ _ :: _ :: _, _, h => by simp [noReadSet] at h
  | .const .null :: _ :: _, _, h => by simp [noReadSet] at h
  | .const (.bool _) :: _ :: _, _, h => by simp [noReadSet] at h
  | .const (.num _) :: _ :: _, _, h => by simp [noReadSet] at h
  | .const (.arr _) :: _ :: _, _, h => by simp [noReadSet] at h
  | .const (.obj _) :: _ :: _, _, h => by simp [noReadSet] at h
theorem noReadList_subst (n : Str) (x : JV) : ∀ (l : List Expr) (N : List Str),
    noReadList (N.filter (fun j => decide (j ≠ n))) l = true → noReadList N (substVarList n x l) = true
  | [], _, _ => by rw [substVarList]; rfl
  | e :: es, N, h => by
    rw [noReadList, Bool.and_eq_true] at h
    rw [substVarList, noReadList, Bool.and_eq_true]
    exact ⟨noRead_subst n x e N h.1, noReadList_subst n x es N h.2⟩
end

/-- **`set` is substitution, closed form.**  For a lexical body (no macro use, no computed
variable / macro name, no parsed selection, no `define`), `(set "n" v e)` evaluates exactly like `e`
with `x` (the value of `v`) substituted for the free `:n` — in the *original* context: nothing else
is changed by the binding. -/
theorem set_is_substitution_lexical (orc : Oracles) (fuel : Nat) (n : Str) (v e : Expr) (ctx : Ctx) (x : JV)
    (hl : Lexical e) (hv : eval orc fuel v ctx = .ok (some x)) :
    eval orc (fuel + 1) (.call "set" [.const (.str n), v, e]) ctx = eval orc fuel (substVar n x e) ctx := by
  rw [set_is_substitution orc fuel n v e ctx x hv]
  apply eval_agree orc fuel _ [n]
  · exact noRead_subst n x e [n] (by simpa [Lexical] using hl)
  · refine ⟨rfl, rfl, rfl, rfl, rfl, fun k hk => ?_⟩
    exact getVariable_withVariable_ne x (fun h : n = k => hk (by simp [h]))

/-! ### The macro-free fragment: where a macro binding can be dropped after substitution -/

/-- functions whose value depends on the macro table -/
def defFns : List String := ["@", "parse_selection", "define"]

mutual
/-- `e` never consults the macro table -/
def noDefs : Expr → Bool
  | .macro _ => false
  | .call fn args => decide (fn ∉ defFns) && noDefsList args
  | _ => true
def noDefsList : List Expr → Bool
  | [] => true
  | e :: es => noDefs e && noDefsList es
end

mutual
/-- the only use of the macro table in `e` is `@n` -/
def onlyMacro (n : Str) : Expr → Bool
  | .macro k => decide (k = n)
  | .call fn args => decide (fn ∉ defFns) && onlyMacroList n args
  | _ => true
def onlyMacroList (n : Str) : List Expr → Bool
  | [] => true
  | e :: es => onlyMacro n e && onlyMacroList n es
end

/-- two contexts that differ at most in their macro tables -/
def AgreeDefs (c c' : Ctx) : Prop :=
  c.input = c'.input ∧ c.parents = c'.parents ∧ c.results = c'.results ∧ c.vars = c'.vars ∧ c.ictx = c'.ictx

theorem AgreeDefs.symm {c c'} (h : AgreeDefs c c') : AgreeDefs c' c :=
  ⟨h.1.symm, h.2.1.symm, h.2.2.1.symm, h.2.2.2.1.symm, h.2.2.2.2.symm⟩

theorem AgreeDefs.withInput {c c'} (h : AgreeDefs c c') (v : JV) : AgreeDefs (c.withInput v) (c'.withInput v) := by
  obtain ⟨h1, h2, h3, h4, h5⟩ := h
  refine ⟨rfl, ?_, rfl, h4, h5⟩
  show c.input :: c.parents = c'.input :: c'.parents
  rw [h1, h2]

theorem AgreeDefs.withVariable {c c'} (h : AgreeDefs c c') (k : Str) (x : JV) :
    AgreeDefs (c.withVariable k x) (c'.withVariable k x) := by
  obtain ⟨h1, h2, h3, h4, h5⟩ := h
  refine ⟨h1, h2, h3, ?_, h5⟩
  show (k, x) :: c.vars = (k, x) :: c'.vars
  rw [h4]

theorem args_of_noDefs {Q : Expr → Expr → Prop} (hq : ∀ e, noDefs e = true → Q e e) :
    ∀ l : List Expr, noDefsList l = true → Args Q l l
  | [], _ => Args.nil
  | x :: xs, h => by
    rw [noDefsList, Bool.and_eq_true] at h
    exact Args.cons (hq x h.1) (args_of_noDefs hq xs h.2)

/-- **Irrelevance of the macro table** for an expression that never consults it -/
theorem eval_noDefs_le (orc : Oracles) : ∀ (f : Nat) (e : Expr) (c c' : Ctx),
    noDefs e = true → AgreeDefs c c' → Le (eval orc f e c) (eval orc f e c') := by
  intro f
  induction f with
  | zero => intro e c c' _ _; exact Or.inl rfl
  | succ f ih =>
    intro e c c' hn hc
    obtain ⟨h1, h2, h3, h4, h5⟩ := hc
    cases e with
    | extract p steps => simp only [eval, Ctx.parentInput, h1, h2]; exact Le.refl _
    | const v => exact Le.refl _
    | var k => simp only [eval, Ctx.getVariable, h4]; exact Le.refl _
    | «macro» k => simp [noDefs] at hn
    | selected t => simp only [eval, Ctx.getSelected, h3]; exact Le.refl _
    | ictx k => simp only [eval, h5]; exact Le.refl _
    | call fn args =>
      rw [noDefs, Bool.and_eq_true, decide_eq_true_eq] at hn
      obtain ⟨hfn, hargs⟩ := hn
      have hd : ∀ s ∈ defFns, fn ≠ s := fun s hs h => hfn (h ▸ hs)
      have hrel : Args (QArg2 (eval orc f) (eval orc f) AgreeDefs) args args :=
        args_of_noDefs (fun e he c c' hcc => ih e c c' he hcc) args hargs
      simp only [eval]
      apply callFn_le2 (CR := AgreeDefs)
      refine ⟨⟨h1, h2, h3, h4, h5⟩, fun _ _ v h => h.withInput v, fun _ _ h => h.1, hrel, ?_, ?_, ?_, ?_, ?_⟩
      · rintro (h | h)
        · exact absurd h (hd _ (by simp [defFns]))
        · exact absurd h (hd _ (by simp [defFns]))
      · intro _ k; simp only [Ctx.getVariable, h4]
      · intro h; exact absurd h (hd _ (by simp [defFns]))
      · intro _ r k v _ _
        exact applyArg_le2 hrel 2 _ _ (AgreeDefs.withVariable ⟨h1, h2, h3, h4, h5⟩ k v)
      · intro h; exact absurd h (hd _ (by simp [defFns]))

theorem eval_noDefs (orc : Oracles) (f : Nat) (e : Expr) (c c' : Ctx)
    (hn : noDefs e = true) (hc : AgreeDefs c c') : eval orc f e c = eval orc f e c' :=
  Le.antisymm (eval_noDefs_le orc f e c c' hn hc) (eval_noDefs_le orc f e c' c hn hc.symm)

mutual
theorem noDefs_substMacro (n : Str) (m : Expr) (hm : noDefs m = true) : ∀ (e : Expr),
    onlyMacro n e = true → noDefs (substMacro n m e) = true
  | .macro k, h => by
    rw [onlyMacro, decide_eq_true_eq] at h
    rw [substMacro, if_pos h]; exact hm
  | .call fn args, h => by
    rw [onlyMacro, Bool.and_eq_true, decide_eq_true_eq] at h
    have hdef : fn ≠ "define" := fun hd => h.1 (hd ▸ by simp [defFns])
    rw [substMacro_call, substMacroArgs, if_neg hdef, noDefs, Bool.and_eq_true, decide_eq_true_eq]
    exact ⟨h.1, noDefsList_substMacro n m hm args h.2⟩
  | .extract _ _, _ => rfl
  | .const _, _ => rfl
  | .var _, _ => rfl
  | .selected _, _ => rfl
  | .ictx _, _ => rfl
theorem noDefsList_substMacro (n : Str) (m : Expr) (hm : noDefs m = true) : ∀ (l : List Expr),
    onlyMacroList n l = true → noDefsList (substMacroList n m l) = true
  | [], _ => by rw [substMacroList]; rfl
  | e :: es, h => by
    rw [onlyMacroList, Bool.and_eq_true] at h
    rw [substMacroList, noDefsList, Bool.and_eq_true]
    exact ⟨noDefs_substMacro n m hm e h.1, noDefsList_substMacro n m hm es h.2⟩
end

/-- **`define` is substitution, closed form.**  If the body uses the macro table only through `@n`
and `m` not at all, `(define "n" m e)` has exactly the values of `e` with `m` substituted for `@n`,
in the *original* context, up to the fuel spent on the `@n` steps. -/
theorem define_is_substitution_lexical (orc : Oracles) (fuel : Nat) (n : Str) (m e : Expr) (ctx : Ctx)
    (r : Option JV) (he : onlyMacro n e = true) (hm : noDefs m = true) :
    (eval orc (fuel + 2) (.call "define" [.const (.str n), m, e]) ctx = .ok r →
      eval orc (fuel + 1) (substMacro n m e) ctx = .ok r) ∧
    (eval orc fuel (substMacro n m e) ctx = .ok r →
      eval orc (fuel + 2) (.call "define" [.const (.str n), m, e]) ctx = .ok r) := by
  have hnd := noDefs_substMacro n m hm e he
  have hag : AgreeDefs (ctx.withDefinition n m) ctx := ⟨rfl, rfl, rfl, rfl, rfl⟩
  constructor
  · intro h
    rw [← eval_noDefs orc _ _ _ _ hnd hag]
    exact define_is_substitution orc fuel n m e ctx r h
  · intro h
    rw [← eval_noDefs orc _ _ _ _ hnd hag] at h
    exact define_is_substitution_conv orc fuel n m e ctx r h

namespace Ex
/-- the lexical fragment is inhabited by real programs: `(set "y" "b" (map . (concat :x :y ^)))` -/
example : Lexical (.call "set" [str "y", str "b",
    .call "map" [.extract 0 [], .call "concat" [v "x", v "y", .extract 1 []]]]) := by decide
/-- … and excludes the dynamic ones -/
example : ¬ Lexical (mac "m") := by decide
example : ¬ Lexical dynName := by decide
example : ¬ Lexical (.call ":" [str "x"]) := by decide
/-- closed form on a concrete instance: both sides are the same value -/
example : eval {} 5 (.call "set" [str "x", str "a", .call "set" [str "y", str "b", .call "concat" [v "x", v "y"]]]) {}
    = eval {} 4 (substVar "x".toList (.str "a".toList) (.call "set" [str "y", str "b", .call "concat" [v "x", v "y"]])) {} := rfl
example : onlyMacro "m".toList (.call "concat" [mac "m", mac "m"]) = true := by decide
example : noDefs (.call "concat" [str "a", v "x"]) = true := by decide
end Ex

/- axiom audit (all ⊆ {propext, Classical.choice, Quot.sound}):
#print axioms callFn_le2
#print axioms eval_fuel_mono
#print axioms subst_var
#print axioms set_is_substitution
#print axioms set_is_substitution_lexical
#print axioms subst_macro
#print axioms subst_macro_conv
#print axioms define_is_substitution_lexical
#print axioms presets_are_substitution
#print axioms selects_see_same_ctx
#print axioms process_selects
#print axioms pipe_threads_n
-/

end Jawk.Subst
