/-
  Property C12: bindings are transparent — substitution theorems.

  * `callFn_le`   : every function body is *parametric* in its argument evaluator: related
                    evaluators / argument lists give related results (`Le`: "is overflow, or equal").
  * `eval_fuel_mono` : more depth fuel never changes a result that is not `overflow`.
  * `subst_var`   : `(set n x e)` is substitution of `x` for the free `:n` of `e`.
  * `subst_macro` : `(define n m e)` is substitution of the body `m` for the free `@n` of `e`.
  * presets / selects / pipes at the stage level.
-/
import Jawk.Model.Eval
import Jawk.Model.Stages
import Jawk.Spec.Pipeline
namespace Jawk.Subst
open Jawk

def Le {α} (a b : Except Abort α) : Prop := a = .error .overflow ∨ a = b

theorem Le.refl {α} (a : Except Abort α) : Le a a := Or.inr rfl

theorem Le.bind {α β} {m m' : Except Abort α} {f f' : α → Except Abort β}
    (hm : Le m m') (hf : ∀ a, m = .ok a → Le (f a) (f' a)) : Le (m >>= f) (m' >>= f') := by
  rcases hm with h | h
  · subst h; exact Or.inl rfl
  · subst h
    cases m with
    | error e => exact Or.inr rfl
    | ok a => exact hf a rfl

/-- pointwise relation between two argument lists -/
inductive Args (Q : Expr → Expr → Prop) : List Expr → List Expr → Prop where
  | nil : Args Q [] []
  | cons {e e' es es'} : Q e e' → Args Q es es' → Args Q (e :: es) (e' :: es')

theorem Args.length_eq {Q l l'} (h : Args Q l l') : l'.length = l.length := by
  induction h with
  | nil => rfl
  | cons _ _ ih => simp [ih]

theorem Args.get {Q l l'} (h : Args Q l l') (i : Nat) :
    (l[i]? = none ∧ l'[i]? = none) ∨ ∃ e e', l[i]? = some e ∧ l'[i]? = some e' ∧ Q e e' := by
  induction h generalizing i with
  | nil => left; simp
  | cons hq _ ih =>
    cases i with
    | zero => right; exact ⟨_, _, rfl, rfl, hq⟩
    | succ i => simpa using ih i

theorem Args.drop {Q l l'} (h : Args Q l l') (k : Nat) : Args Q (l.drop k) (l'.drop k) := by
  induction h generalizing k with
  | nil => simpa using Args.nil
  | cons hq hr ih =>
    cases k with
    | zero => exact Args.cons hq hr
    | succ k => simpa using ih k

/-- the evaluator relation on a pair of argument expressions in every context that has the
variables and definitions of `ctx` -/
def QArg (ev ev' : Ev) (ctx : Ctx) (e e' : Expr) : Prop :=
  ∀ c : Ctx, c.vars = ctx.vars → c.defs = ctx.defs → Le (ev e c) (ev' e' c)

structure Hyp (ev ev' : Ev) (fn : String) (args args' : List Expr) (ctx : Ctx) : Prop where
  rel : Args (QArg ev ev' ctx) args args'
  same : ∀ e c, Le (ev e c) (ev' e c)
  setb : fn = "set" → ∀ r k v, applyArg ev args ctx 0 = .ok r → strArg r = some k →
    Le (applyArg ev args (ctx.withVariable k v) 2) (applyArg ev' args' (ctx.withVariable k v) 2)
  defb : fn = "define" → args[1]? = args'[1]? ∧ ∀ r k d, applyArg ev args ctx 0 = .ok r → strArg r = some k →
    args[1]? = some d →
    Le (applyArg ev args (ctx.withDefinition k d) 2) (applyArg ev' args' (ctx.withDefinition k d) 2)

theorem applyArg_le {ev ev' : Ev} {ctx : Ctx} {args args'} (h : Args (QArg ev ev' ctx) args args') (i : Nat) (c : Ctx)
    (hv : c.vars = ctx.vars) (hd : c.defs = ctx.defs) :
    Le (applyArg ev args c i) (applyArg ev' args' c i) := by
  unfold applyArg
  rcases h.get i with ⟨h1, h2⟩ | ⟨e, e', h1, h2, hq⟩
  · rw [h1, h2]; exact Le.refl _
  · rw [h1, h2]; exact hq c hv hd

theorem foldArgs_le {σ} {ev ev' : Ev} {ctx : Ctx} {step : σ → Option JV → Except Abort (Sum (Option JV) σ)}
    {fin : σ → Option JV} {args args'} (h : Args (QArg ev ev' ctx) args args') (s : σ) :
    Le (foldArgs ev ctx step fin args s) (foldArgs ev' ctx step fin args' s) := by
  induction h generalizing s with
  | nil => exact Le.refl _
  | cons hq _ ih =>
    unfold foldArgs
    apply Le.bind (hq ctx rfl rfl)
    intro v _
    apply Le.bind (Le.refl _)
    intro r _
    split
    · exact Le.refl _
    · exact ih _

theorem mapM'_le {α β} {f f' : α → Except Abort β} (l : List α) (hf : ∀ x ∈ l, Le (f x) (f' x)) :
    Le (mapM' f l) (mapM' f' l) := by
  induction l with
  | nil => exact Le.refl _
  | cons x xs ih =>
    unfold mapM'
    apply Le.bind (hf x (by simp))
    intro y _
    apply Le.bind (ih (fun x hx => hf x (by simp [hx])))
    intro ys _
    exact Le.refl _

theorem mapM'_args_le {ev ev' : Ev} {ctx : Ctx} {args args'} (h : Args (QArg ev ev' ctx) args args') :
    Le (mapM' (fun e => ev e ctx) args) (mapM' (fun e => ev' e ctx) args') := by
  induction h with
  | nil => exact Le.refl _
  | cons hq _ ih =>
    unfold mapM'
    apply Le.bind (hq ctx rfl rfl)
    intro y _
    apply Le.bind ih
    intro ys _
    exact Le.refl _


theorem pipeGo_le {ev ev' : Ev} {ctx : Ctx} {es es'} (h : Args (QArg ev ev' ctx) es es') :
    ∀ c : Ctx, c.vars = ctx.vars → c.defs = ctx.defs → Le (callBasic.go ev c es) (callBasic.go ev' c es') := by
  induction h with
  | nil => intro c _ _; exact Le.refl _
  | cons hq _ ih =>
    intro c hv hd
    unfold callBasic.go
    apply Le.bind (hq c hv hd)
    intro v _
    split
    · exact ih _ hv hd
    · exact Le.refl _

theorem foldGo_le {ev ev' : Ev} {ctx : Ctx} {f f' : Expr} (hq : QArg ev ev' ctx f f') :
    ∀ (l : List JV) (cur : Option JV) (idx : Nat),
      Le (callList.foldGo ev ctx f cur idx l) (callList.foldGo ev' ctx f' cur idx l) := by
  intro l
  induction l with
  | nil => intro cur idx; exact Le.refl _
  | cons v vs ih =>
    intro cur idx
    unfold callList.foldGo
    dsimp only
    refine Le.bind (hq _ rfl rfl) ?_
    intro next _
    exact ih _ _

theorem foldSel {Q args args'} (h : Args Q args args') :
    ((if args.length > 2 then args[2]? else args[1]?) = none ∧
      (if args.length > 2 then args'[2]? else args'[1]?) = none) ∨
    ∃ f f', (if args.length > 2 then args[2]? else args[1]?) = some f ∧
      (if args.length > 2 then args'[2]? else args'[1]?) = some f' ∧ Q f f' := by
  split
  · exact h.get 2
  · exact h.get 1

macro "le_step" : tactic => `(tactic| first
  | exact Le.refl _
  | exact applyArg_le (Hyp.rel ‹Hyp _ _ _ _ _ _›) _ _ (by rfl) (by rfl)
  | exact foldArgs_le (Hyp.rel ‹Hyp _ _ _ _ _ _›) _
  | exact Hyp.same ‹Hyp _ _ _ _ _ _› _ _
  | exact pipeGo_le (Hyp.rel ‹Hyp _ _ _ _ _ _›) _ (by rfl) (by rfl)
  | exact (Hyp.defb ‹Hyp _ _ _ _ _ _› rfl).2 _ _ _ ‹_› ‹_› ‹_›
  | exact mapM'_args_le (Hyp.rel ‹Hyp _ _ _ _ _ _›)
  | exact mapM'_args_le ((Hyp.rel ‹Hyp _ _ _ _ _ _›).drop _)
  | (apply mapM'_le; intro _ _; try dsimp only)
  | exact Hyp.setb ‹Hyp _ _ _ _ _ _› rfl _ _ _ ‹_› ‹_›
  | (rcases foldSel (Hyp.rel ‹Hyp _ _ _ _ _ _›) with ⟨h1, h2⟩ | ⟨f, f', h1, h2, hq⟩ <;> simp only [h1, h2] <;>
      first | exact Le.refl _ | exact foldGo_le hq _ _ _)
  | (apply Le.bind)
  | intro _
  | split
  | dsimp only
  )

theorem callNumber_le {ev ev' fn args args' ctx} (H : Hyp ev ev' fn args args' ctx) :
   ∀ r, callNumber ev fn args ctx = some r → ∃ r', callNumber ev' fn args' ctx = some r' ∧ Le r r' := by
  intro r h
  have hlen := H.rel.length_eq
  unfold callNumber at h
  split at h
  all_goals first | cases h | skip
  all_goals refine ⟨_, rfl, ?_⟩
  all_goals try dsimp only
  all_goals try simp only [hlen]
  all_goals repeat' le_step


theorem callBasic_le {ev ev' fn args args' ctx} (H : Hyp ev ev' fn args args' ctx) :
   ∀ r, callBasic ev fn args ctx = some r → ∃ r', callBasic ev' fn args' ctx = some r' ∧ Le r r' := by
  intro r h
  have hlen := H.rel.length_eq
  unfold callBasic at h
  split at h
  all_goals first | cases h | skip
  all_goals refine ⟨_, rfl, ?_⟩
  all_goals try dsimp only
  all_goals try simp only [hlen]
  all_goals try simp only [← (H.defb rfl).1]
  all_goals repeat' le_step

theorem callList_le {ev ev' fn args args' ctx} (H : Hyp ev ev' fn args args' ctx) :
   ∀ r, callList ev fn args ctx = some r → ∃ r', callList ev' fn args' ctx = some r' ∧ Le r r' := by
  intro r h
  have hlen := H.rel.length_eq
  unfold callList at h
  split at h
  all_goals first | cases h | skip
  all_goals refine ⟨_, rfl, ?_⟩
  all_goals try dsimp only
  all_goals try simp only [hlen]
  all_goals repeat' le_step

theorem callObject_le {ev ev' fn args args' ctx} (H : Hyp ev ev' fn args args' ctx) :
   ∀ r, callObject ev fn args ctx = some r → ∃ r', callObject ev' fn args' ctx = some r' ∧ Le r r' := by
  intro r h
  have hlen := H.rel.length_eq
  unfold callObject at h
  split at h
  all_goals first | cases h | skip
  all_goals refine ⟨_, rfl, ?_⟩
  all_goals try dsimp only
  all_goals try simp only [hlen]
  all_goals repeat' le_step

theorem callString_le {ev ev' orc fn args args' ctx} (H : Hyp ev ev' fn args args' ctx) :
   ∀ r, callString ev orc fn args ctx = some r → ∃ r', callString ev' orc fn args' ctx = some r' ∧ Le r r' := by
  intro r h
  have hlen := H.rel.length_eq
  unfold callString at h
  split at h
  all_goals first | cases h | skip
  all_goals refine ⟨_, rfl, ?_⟩
  all_goals try dsimp only
  all_goals try simp only [hlen]
  all_goals repeat' le_step

theorem callNas_le {ev ev' orc fn args args' ctx} (H : Hyp ev ev' fn args args' ctx) :
   ∀ r, callNas ev orc fn args ctx = some r → ∃ r', callNas ev' orc fn args' ctx = some r' ∧ Le r r' := by
  intro r h
  have hlen := H.rel.length_eq
  unfold callNas at h
  split at h
  all_goals first | cases h | skip
  all_goals refine ⟨_, rfl, ?_⟩
  all_goals try dsimp only
  all_goals try simp only [hlen]
  all_goals repeat' le_step

/-! ### the dispatcher -/

theorem callBasic_some {ev fn args ctx} (ev' : Ev) (args' : List Expr) (ctx' : Ctx) :
    ∀ r, callBasic ev fn args ctx = some r → ∃ r', callBasic ev' fn args' ctx' = some r' := by
  intro r h
  unfold callBasic at h
  split at h
  all_goals first | exact ⟨_, rfl⟩ | cases h

theorem callList_some {ev fn args ctx} (ev' : Ev) (args' : List Expr) (ctx' : Ctx) :
    ∀ r, callList ev fn args ctx = some r → ∃ r', callList ev' fn args' ctx' = some r' := by
  intro r h
  unfold callList at h
  split at h
  all_goals first | exact ⟨_, rfl⟩ | cases h

theorem callObject_some {ev fn args ctx} (ev' : Ev) (args' : List Expr) (ctx' : Ctx) :
    ∀ r, callObject ev fn args ctx = some r → ∃ r', callObject ev' fn args' ctx' = some r' := by
  intro r h
  unfold callObject at h
  split at h
  all_goals first | exact ⟨_, rfl⟩ | cases h

theorem callNumber_some {ev fn args ctx} (ev' : Ev) (args' : List Expr) (ctx' : Ctx) :
    ∀ r, callNumber ev fn args ctx = some r → ∃ r', callNumber ev' fn args' ctx' = some r' := by
  intro r h
  unfold callNumber at h
  split at h
  all_goals first | exact ⟨_, rfl⟩ | cases h

theorem callString_some {ev orc fn args ctx} (ev' : Ev) (args' : List Expr) (ctx' : Ctx) :
    ∀ r, callString ev orc fn args ctx = some r → ∃ r', callString ev' orc fn args' ctx' = some r' := by
  intro r h
  unfold callString at h
  split at h
  all_goals first | exact ⟨_, rfl⟩ | cases h

theorem callNas_some {ev orc fn args ctx} (ev' : Ev) (args' : List Expr) (ctx' : Ctx) :
    ∀ r, callNas ev orc fn args ctx = some r → ∃ r', callNas ev' orc fn args' ctx' = some r' := by
  intro r h
  unfold callNas at h
  split at h
  all_goals first | exact ⟨_, rfl⟩ | cases h

/-- two optional bodies: both absent, or both present and related -/
def OLe : Option R → Option R → Prop
  | some r, some r' => Le r r'
  | none, none => True
  | _, _ => False

theorem OLe.of {a b : Option R} (h1 : ∀ r, a = some r → ∃ r', b = some r' ∧ Le r r')
    (h2 : ∀ r', b = some r' → ∃ r, a = some r) : OLe a b := by
  cases a with
  | some r =>
    obtain ⟨r', hb, hle⟩ := h1 r rfl
    subst hb; exact hle
  | none =>
    cases b with
    | none => trivial
    | some r' => obtain ⟨r, hr⟩ := h2 r' rfl; cases hr

/-- **Parametricity of function bodies**: `callFn` maps related evaluators and argument lists to
related results. -/
theorem callFn_le {ev ev' orc fn args args' ctx} (H : Hyp ev ev' fn args args' ctx) :
    Le (callFn ev orc fn args ctx) (callFn ev' orc fn args' ctx) := by
  have h1 : OLe (callBasic ev fn args ctx) (callBasic ev' fn args' ctx) :=
    OLe.of (callBasic_le H) (callBasic_some ev args ctx)
  have h2 : OLe (callList ev fn args ctx) (callList ev' fn args' ctx) :=
    OLe.of (callList_le H) (callList_some ev args ctx)
  have h3 : OLe (callObject ev fn args ctx) (callObject ev' fn args' ctx) :=
    OLe.of (callObject_le H) (callObject_some ev args ctx)
  have h4 : OLe (callNumber ev fn args ctx) (callNumber ev' fn args' ctx) :=
    OLe.of (callNumber_le H) (callNumber_some ev args ctx)
  have h5 : OLe (callString ev orc fn args ctx) (callString ev' orc fn args' ctx) :=
    OLe.of (callString_le H) (callString_some ev args ctx)
  have h6 : OLe (callNas ev orc fn args ctx) (callNas ev' orc fn args' ctx) :=
    OLe.of (callNas_le H) (callNas_some ev args ctx)
  unfold callFn
  revert h1 h2 h3 h4 h5 h6
  generalize callBasic ev fn args ctx = a1, callBasic ev' fn args' ctx = b1,
    callList ev fn args ctx = a2, callList ev' fn args' ctx = b2,
    callObject ev fn args ctx = a3, callObject ev' fn args' ctx = b3,
    callNumber ev fn args ctx = a4, callNumber ev' fn args' ctx = b4,
    callString ev orc fn args ctx = a5, callString ev' orc fn args' ctx = b5,
    callNas ev orc fn args ctx = a6, callNas ev' orc fn args' ctx = b6
  intro h1 h2 h3 h4 h5 h6
  cases a1 <;> cases b1 <;> try exact h1.elim
  case some.some => exact h1
  cases a2 <;> cases b2 <;> try exact h2.elim
  case some.some => exact h2
  cases a3 <;> cases b3 <;> try exact h3.elim
  case some.some => exact h3
  cases a4 <;> cases b4 <;> try exact h4.elim
  case some.some => exact h4
  cases a5 <;> cases b5 <;> try exact h5.elim
  case some.some => exact h5
  cases a6 <;> cases b6 <;> try exact h6.elim
  case some.some => exact h6
  exact Le.refl _

/-! ### facts about `Le` and `Args` -/

theorem Le.of_eq {α} {a b : Except Abort α} (h : a = b) : Le a b := Or.inr h

theorem Le.trans {α} {a b c : Except Abort α} (h1 : Le a b) (h2 : Le b c) : Le a c := by
  rcases h1 with h | h
  · exact Or.inl h
  · subst h; exact h2

theorem Le.antisymm {α} {a b : Except Abort α} (h1 : Le a b) (h2 : Le b a) : a = b := by
  rcases h1 with h | h
  · rcases h2 with h' | h'
    · rw [h, h']
    · exact h'.symm
  · exact h

/-- what `Le` means: every outcome except `overflow` is kept -/
theorem Le.eq_of_ne {α} {a b : Except Abort α} (h : Le a b) (hne : a ≠ .error .overflow) : b = a := by
  rcases h with h | h
  · exact absurd h hne
  · exact h.symm

theorem Le.ok {α} {a b : Except Abort α} {r : α} (h : Le a b) (ha : a = .ok r) : b = .ok r := by
  rw [h.eq_of_ne (by rw [ha]; intro h; cases h), ha]

theorem Le.panic {α} {a b : Except Abort α} {s : String} (h : Le a b) (ha : a = .error (.panic s)) :
    b = .error (.panic s) := by
  rw [h.eq_of_ne (by rw [ha]; intro h; cases h), ha]

theorem Args.mono {Q Q' : Expr → Expr → Prop} (hq : ∀ e e', Q e e' → Q' e e') {l l'} (h : Args Q l l') :
    Args Q' l l' := by
  induction h with
  | nil => exact Args.nil
  | cons h1 _ ih => exact Args.cons (hq _ _ h1) ih

theorem Args.refl {Q : Expr → Expr → Prop} (hq : ∀ e, Q e e) (l : List Expr) : Args Q l l := by
  induction l with
  | nil => exact Args.nil
  | cons e es ih => exact Args.cons (hq e) ih

theorem Args.flip {Q : Expr → Expr → Prop} {l l'} (h : Args Q l l') : Args (fun a b => Q b a) l' l := by
  induction h with
  | nil => exact Args.nil
  | cons h1 _ ih => exact Args.cons h1 ih

/-- `applyArg` in one (arbitrary) context -/
theorem applyArg_rel {Q : Expr → Expr → Prop} {ev ev' : Ev} {c : Ctx} {args args'} (h : Args Q args args')
    (hq : ∀ e e', Q e e' → Le (ev e c) (ev' e' c)) (i : Nat) :
    Le (applyArg ev args c i) (applyArg ev' args' c i) := by
  unfold applyArg
  rcases h.get i with ⟨h1, h2⟩ | ⟨e, e', h1, h2, hq'⟩
  · rw [h1, h2]; exact Le.refl _
  · rw [h1, h2]; exact hq _ _ hq'

/-- the same argument list under two evaluators, one below the other -/
theorem Hyp.of_ev_le {ev ev' : Ev} (h : ∀ e c, Le (ev e c) (ev' e c)) (fn : String) (args : List Expr) (ctx : Ctx) :
    Hyp ev ev' fn args args ctx where
  rel := Args.refl (fun e c _ _ => h e c) args
  same := h
  setb := fun _ _ _ _ _ _ => applyArg_rel (Args.refl (Q := Eq) (fun _ => rfl) args) (fun e _ he => he ▸ h e _) 2
  defb := fun _ => ⟨rfl, fun _ _ _ _ _ _ =>
    applyArg_rel (Args.refl (Q := Eq) (fun _ => rfl) args) (fun e _ he => he ▸ h e _) 2⟩

/-! ### Monotonicity in the depth fuel -/

/-- one more unit of fuel keeps every outcome that is not `overflow` -/
theorem eval_fuel_succ (orc : Oracles) : ∀ (f : Nat) (e : Expr) (ctx : Ctx),
    Le (eval orc f e ctx) (eval orc (f + 1) e ctx) := by
  intro f
  induction f with
  | zero => intro e ctx; exact Or.inl rfl
  | succ f ih =>
    intro e ctx
    cases e with
    | «macro» n =>
      simp only [eval]
      split
      · exact ih _ _
      · exact Le.refl _
    | call fn args =>
      simp only [eval]
      exact callFn_le (Hyp.of_ev_le ih fn args ctx)
    | _ => exact Le.refl _

theorem eval_fuel_le (orc : Oracles) {f f' : Nat} (h : f ≤ f') (e : Expr) (ctx : Ctx) :
    Le (eval orc f e ctx) (eval orc f' e ctx) := by
  induction h with
  | refl => exact Le.refl _
  | step _ ih => exact ih.trans (eval_fuel_succ orc _ e ctx)

/-- **Fuel monotonicity.**  A value obtained with fuel `f` is obtained with any larger fuel. -/
theorem eval_fuel_mono (orc : Oracles) {f f' : Nat} {e : Expr} {ctx : Ctx} {r : Option JV}
    (h : eval orc f e ctx = .ok r) (hf : f ≤ f') : eval orc f' e ctx = .ok r :=
  (eval_fuel_le orc hf e ctx).ok h

/-- a panic found with fuel `f` is found with any larger fuel -/
theorem eval_fuel_mono_panic (orc : Oracles) {f f' : Nat} {e : Expr} {ctx : Ctx} {s : String}
    (h : eval orc f e ctx = .error (.panic s)) (hf : f ≤ f') : eval orc f' e ctx = .error (.panic s) :=
  (eval_fuel_le orc hf e ctx).panic h

/-- `overflow` is the only outcome that more fuel can change -/
theorem eval_fuel_stable (orc : Oracles) {f f' : Nat} {e : Expr} {ctx : Ctx}
    (h : eval orc f e ctx ≠ .error .overflow) (hf : f ≤ f') : eval orc f' e ctx = eval orc f e ctx :=
  (eval_fuel_le orc hf e ctx).eq_of_ne h

/-- two fuels that both avoid `overflow` agree -/
theorem eval_fuel_agree (orc : Oracles) {f f' : Nat} {e : Expr} {ctx : Ctx}
    (h : eval orc f e ctx ≠ .error .overflow) (h' : eval orc f' e ctx ≠ .error .overflow) :
    eval orc f e ctx = eval orc f' e ctx := by
  rcases Nat.le_total f f' with hl | hl
  · exact (eval_fuel_stable orc h hl).symm
  · exact eval_fuel_stable orc h' hl

end Jawk.Subst
