/-
  `Write::write` may accept only a non-empty PREFIX of what it is offered; `write_all` calls it until nothing is left.
  The model's `Writer.put` stands for `write_all` (DESIGN §0.6): this file states what that assumption amounts to — over a
  descriptor that takes arbitrary non-empty prefixes, the loop delivers exactly the bytes, in order — and what a bare
  `write` whose count is ignored delivers instead (seeded change C15-m9).
-/
import Jawk.Model.Stages
namespace Jawk.WriteAll
open Jawk

/-- how many bytes the descriptor takes of an offer of `n` bytes made when `sofar` bytes have been delivered: any
non-empty prefix (`1 ≤ accept sofar n ≤ n` for `n ≥ 1`) -/
structure Policy where
  accept : Nat → Nat → Nat
  pos : ∀ sofar n, 0 < n → 0 < accept sofar n
  le : ∀ sofar n, accept sofar n ≤ n

/-- one `write`: the accepted prefix is appended -/
def write1 (p : Policy) (out : List Byte) (bs : List Byte) : List Byte × Nat :=
  let n := p.accept out.length bs.length
  (out ++ bs.take n, n)

/-- `write_all`: offer the rest until nothing is left (the fuel is the number of bytes: every call takes at least one) -/
def writeAll (p : Policy) : Nat → List Byte → List Byte → List Byte
  | 0, out, _ => out
  | fuel + 1, out, bs =>
    if bs = [] then out else
    let r := write1 p out bs
    writeAll p fuel r.1 (bs.drop r.2)

/-- over ANY such descriptor `write_all` delivers exactly the bytes, in order -/
theorem writeAll_delivers (p : Policy) : ∀ (fuel : Nat) (out bs : List Byte), bs.length ≤ fuel →
    writeAll p fuel out bs = out ++ bs := by
  intro fuel
  induction fuel with
  | zero =>
    intro out bs h
    have : bs = [] := List.length_eq_zero_iff.mp (Nat.le_zero.mp h)
    simp [writeAll, this]
  | succ f ih =>
    intro out bs h
    unfold writeAll
    by_cases hb : bs = []
    · simp [hb]
    · simp only [hb, if_false, write1]
      have hlen : 0 < bs.length := List.length_pos_iff.mpr hb
      have hp := p.pos out.length bs.length hlen
      have hl := p.le out.length bs.length
      rw [ih _ _ (by simp only [List.length_drop]; omega)]
      rw [List.append_assoc, List.take_append_drop]

/-- which is what `Writer.put` says for a descriptor with room -/
theorem writeAll_is_put (p : Policy) (w : Writer) (bs : List Byte) (hw : w.failed = false) (hr : w.room = none) :
    writeAll p bs.length w.out bs = (w.put bs).out := by
  rw [writeAll_delivers p _ _ _ (Nat.le_refl _)]
  simp [Writer.put, hw, hr]

/-- a bare `write` whose count is ignored delivers the accepted prefix only: with a descriptor that takes half, the second
half of every piece is lost (the seeded change C15-m9 on a line-buffered standard output) -/
def halves : Policy where
  accept := fun _ n => (n + 1) / 2
  pos := by intro _ n h; omega
  le := by intro _ n; omega

theorem bare_write_loses : (write1 halves [] [97, 98, 99, 100]).1 = [97, 98] ∧
    writeAll halves 4 [] [97, 98, 99, 100] = [97, 98, 99, 100] := by
  decide

end Jawk.WriteAll
