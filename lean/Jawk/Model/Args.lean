/-
  Model of the command line: clap's derive parser for `jawk::Cli` (`src/lib.rs`) and the flattened
  `OutputOptions` / `JsonOutputOptions` / `TextOutputOptions` (`src/output_style.rs`), for argument
  vectors in the spellings

      --long-name=value   --long-name value   --long-name      positional
      -c value   -cvalue   -c=value   -u   -uc value  (a cluster: flags first, then at most one valued option)

  (long names and their visible aliases, one-letter names; `lexAll` turns the arguments into tokens — an option written
  without an attached value takes the NEXT argument as its value when that argument does not look like an option).
  Everything else — `--`, `--additional-help`/`-a`, `--help`/`-h`, `--version`/`-V`, a lone `-` as positional — is
  outside this model (`Tok.other`, the parse answers `none`, and the correspondence run does not generate it).

  clap processes the tokens from left to right: a flag or a single-valued option may occur once
  (`ArgumentConflict`/"cannot be used multiple times" otherwise), a multi-valued option appends, positionals
  append; values of typed options are validated when they are met.  The result is the `Cfg` record of
  `Jawk/Model/Run.lean` plus the list of input files and the (semantically invisible) regex cache size.
-/
import Jawk.Model.Run
namespace Jawk.Args
open Jawk

/-- the option families of the command line -/
inductive Opt where
  | onError | select | filter | split | group | sort | skip | take | unique | set | cache | ooa
  | outStyle | rowSep | jStyle | utf8 | itemsSep | strPrefix | strPostfix | headers | escape
  | nullKw | trueKw | falseKw | missingKw
  deriving DecidableEq, Repr, Inhabited

inductive Kind where
  /-- no value; at most once -/
  | flag
  /-- exactly one value; at most once -/
  | single
  /-- one value per occurrence; any number of occurrences, order kept -/
  | multi
  /-- value optional (`Option<Option<String>>`); at most once -/
  | optValue
  deriving DecidableEq, Repr, Inhabited

def Opt.all : List Opt :=
  [.onError, .select, .filter, .split, .group, .sort, .skip, .take, .unique, .set, .cache, .ooa,
   .outStyle, .rowSep, .jStyle, .utf8, .itemsSep, .strPrefix, .strPostfix, .headers, .escape,
   .nullKw, .trueKw, .falseKw, .missingKw]

/-- long name first, then the visible aliases -/
def Opt.names : Opt → List String
  | .onError => ["on-error"]
  | .select => ["choose", "select"]
  | .filter => ["filter", "where"]
  | .split => ["break-by", "split-by"]
  | .group => ["group-by", "combine", "merge"]
  | .sort => ["sort-by", "order-by"]
  | .skip => ["skip"]
  | .take => ["take", "limit"]
  | .unique => ["unique"]
  | .set => ["set"]
  | .cache => ["regular-expression-cache-size"]
  | .ooa => ["only-objects-and-arrays"]
  | .outStyle => ["output-style"]
  | .rowSep => ["row-seperator"]
  | .jStyle => ["style"]
  | .utf8 => ["utf8-strings"]
  | .itemsSep => ["items-seperator"]
  | .strPrefix => ["string-prefix"]
  | .strPostfix => ["string-postfix"]
  | .headers => ["headers"]
  | .escape => ["escape-sequance"]
  | .nullKw => ["null-keyword"]
  | .trueKw => ["true-keyword"]
  | .falseKw => ["false-keyword"]
  | .missingKw => ["missing-value-keyword"]

/-- the one-letter name (`#[arg(short)]`: the first letter of the field; `short = 'k'`, `short = 'e'`) -/
def Opt.short : Opt → Option Char
  | .select => some 'c'
  | .filter => some 'f'
  | .split => some 'b'
  | .group => some 'g'
  | .sort => some 's'
  | .skip => some 'k'
  | .take => some 't'
  | .unique => some 'u'
  | .set => some 'e'
  | .outStyle => some 'o'
  | .rowSep => some 'r'
  | _ => none

def Opt.kind : Opt → Kind
  | .select | .sort | .set | .escape => .multi
  | .unique | .ooa | .utf8 | .headers => .flag
  | .group => .optValue
  | _ => .single

/-- a token of the canonical spelling -/
inductive Tok where
  | opt (o : Opt) (value : Option Str)
  | file (name : Str)
  /-- not in the canonical spelling / not a known long name -/
  | other
  deriving DecidableEq, Repr, Inhabited

def findOpt (name : Str) : Option Opt :=
  Opt.all.find? (fun o => (o.names.map String.toList).contains name)

/-- `--name=value` (split at the FIRST `=`), `--name`, or a positional (anything not starting with `-`) -/
def lex (s : Str) : Tok :=
  match s with
  | '-' :: '-' :: rest =>
    if rest = [] then .other else
    let name := rest.takeWhile (· ≠ '=')
    let after := rest.dropWhile (· ≠ '=')
    match findOpt name with
    | none => .other
    | some o =>
      match after with
      | [] => .opt o none
      | _ :: v => .opt o (some v)
  | '-' :: _ => .other
  | _ => .file s

def findShort (c : Char) : Option Opt :=
  Opt.all.find? (fun o => o.short = some c)

/-- may the argument be taken as the value of the option before it?  Anything that does not start with `-`, and the
lone `-` (clap parses every other `-…` argument as an option, so the option before it is left without a value) -/
def isValue (v : Str) : Bool := v.head? ≠ some '-' || v = ['-']

/-- the tokens of a cluster of one-letter options (the characters after the single `-`): flags one after the other,
then at most one option that takes a value — the rest of the argument (minus one leading `=`) when there is a rest,
else the next argument `next` when that may be a value.  The flag says whether `next` was used. -/
def lexShort : Str → Option Str → List Tok × Bool
  | [], _ => ([], false)
  | c :: more, next =>
    match findShort c with
    | none => ([.other], false)
    | some o =>
      if o.kind = .flag then
        let r := lexShort more next
        (.opt o none :: r.1, r.2)
      else
        match more with
        | '=' :: v => ([.opt o (some v)], false)
        | [] =>
          match next with
          | some v => if isValue v then ([.opt o (some v)], true) else ([.opt o none], false)
          | none => ([.opt o none], false)
        | v => ([.opt o (some v)], false)

/-- what clap has collected: per option the values of its occurrences, in order; the positionals -/
structure Raw where
  occ : List (Opt × Option Str) := []
  files : List Str := []
  deriving Repr, Inhabited

def Raw.of (r : Raw) (o : Opt) : List (Option Str) := (r.occ.filter (·.1 = o)).map (·.2)

/-- `u64::from_str` / `usize::from_str`: an optional `+`, then at least one ASCII digit, value below 2^64 -/
def parseUnsigned (s : Str) : Option Nat :=
  let ds := match s with | '+' :: r => r | r => r
  if ds = [] ∨ !ds.all Char.isDigit then none
  else
    let n := F64.digitsToNat ds
    if n < 2 ^ 64 then some n else none

/-- is the value acceptable for the option (typed options are validated when they are met) -/
def valueOK (o : Opt) (v : Str) : Bool :=
  match o with
  | .onError => v = "ignore".toList || v = "panic".toList || v = "stderr".toList || v = "stdout".toList
  | .outStyle => v = "json".toList || v = "csv".toList || v = "text".toList
  | .jStyle => v = "one-line".toList || v = "consise".toList || v = "pretty".toList
  | .skip | .take | .cache => (parseUnsigned v).isSome
  | _ => true

/-- one step of clap's left-to-right pass; `none` = the command line is rejected -/
def step (r : Raw) (t : Tok) : Option Raw :=
  match t with
  | .other => none
  | .file n => some { r with files := r.files ++ [n] }
  | .opt o v =>
    match o.kind, v with
    | .flag, none => if (r.of o).isEmpty then some { r with occ := r.occ ++ [(o, none)] } else none
    | .flag, some _ => none
    | .single, some x =>
      if (r.of o).isEmpty && valueOK o x then some { r with occ := r.occ ++ [(o, some x)] } else none
    | .single, none => none
    | .multi, some x => some { r with occ := r.occ ++ [(o, some x)] }
    | .multi, none => none
    | .optValue, v => if (r.of o).isEmpty then some { r with occ := r.occ ++ [(o, v)] } else none

def collect : Raw → List Tok → Option Raw
  | r, [] => some r
  | r, t :: ts => match step r t with
    | none => none
    | some r' => collect r' ts

/-- the record handed to `jawk::go` -/
structure Parsed where
  cfg : Cfg
  files : List Str
  cacheSize : Nat

def Raw.single (r : Raw) (o : Opt) : Option Str := ((r.of o).head?).join
def Raw.many (r : Raw) (o : Opt) : List Str := (r.of o).filterMap id
def Raw.has (r : Raw) (o : Opt) : Bool := !(r.of o).isEmpty

def onErrorOf (s : Option Str) : OnError :=
  if s = some "panic".toList then .panic
  else if s = some "stderr".toList then .stderr
  else if s = some "stdout".toList then .stdout
  else .ignore

def outStyleOf (s : Option Str) : OutStyle :=
  if s = some "csv".toList then .csv else if s = some "text".toList then .text else .json

def jStyleOf (s : Option Str) : JsonStyle :=
  if s = some "consise".toList then .consise else if s = some "pretty".toList then .pretty else .oneLine

/-- derive's `from_arg_matches`: defaults for what is absent; a flattened `Option<Group>` is `Some` iff one of
its options was given -/
def assemble (r : Raw) : Parsed :=
  let jsonGiven := r.has .jStyle || r.has .utf8
  let textGiven := r.has .itemsSep || r.has .strPrefix || r.has .strPostfix || r.has .headers || r.has .escape
    || r.has .nullKw || r.has .trueKw || r.has .falseKw || r.has .missingKw
  let d : TextOpts := {}
  { cfg :=
      { onError := onErrorOf (r.single .onError)
        selects := r.many .select
        filter := r.single .filter
        split := r.single .split
        group := if r.has .group then some (r.single .group) else none
        sorts := r.many .sort
        skip := ((r.single .skip).bind parseUnsigned).getD 0
        take := (r.single .take).bind parseUnsigned
        unique := r.has .unique
        sets := r.many .set
        onlyObjectsAndArrays := r.has .ooa
        style := outStyleOf (r.single .outStyle)
        rowSep := (r.single .rowSep).getD ['\n']
        jsonOpts := if jsonGiven then some { style := jStyleOf (r.single .jStyle), utf8Strings := r.has .utf8 } else none
        textOpts := if textGiven then some
          { itemsSep := (r.single .itemsSep).getD d.itemsSep
            strPrefix := (r.single .strPrefix).getD d.strPrefix
            strPostfix := (r.single .strPostfix).getD d.strPostfix
            headers := r.has .headers
            escapes := r.many .escape
            nullKw := (r.single .nullKw).getD d.nullKw
            trueKw := (r.single .trueKw).getD d.trueKw
            falseKw := (r.single .falseKw).getD d.falseKw
            missingKw := r.single .missingKw } else none }
    files := r.files
    cacheSize := ((r.single .cache).bind parseUnsigned).getD 0 }

/-- is the argument a cluster of one-letter options (`-x…`, not `--…`, not the lone `-`) -/
def shortBody (s : Str) : Option Str :=
  match s with
  | '-' :: '-' :: _ => none
  | '-' :: c :: more => some (c :: more)
  | _ => none

/-- The tokens of a whole command line, left to right.  One token per argument, except that
* an option written WITHOUT an attached value (`--choose`, `-c`, and also the optional-valued `--group-by` / `--combine` /
  `--merge` / `-g`) is handed the NEXT argument as its value when that argument does not look like an option
  (`isValue`): `--merge file.json` groups by the text `file.json` and reads standard input;
* a cluster of one-letter options gives one token per letter (`lexShort`). -/
def lexAllF : Nat → List Str → List Tok
  | 0, _ => []
  | _ + 1, [] => []
  | n + 1, s :: rest =>
    match shortBody s with
    | some body =>
      let r := lexShort body rest.head?
      r.1 ++ lexAllF n (if r.2 then rest.drop 1 else rest)
    | none =>
      match lex s with
      | .opt o none =>
        match rest.head? with
        | some v =>
          if o.kind ≠ .flag ∧ isValue v then .opt o (some v) :: lexAllF n (rest.drop 1)
          else .opt o none :: lexAllF n rest
        | none => .opt o none :: lexAllF n rest
      | t => t :: lexAllF n rest

/-- (the recursion runs on a step count that the length of the argument list bounds: `Lemmas/ArgsOrder.lexAll_cons`
is the equation without it) -/
def lexAll (l : List Str) : List Tok := lexAllF l.length l

/-- `Cli::try_parse_from` on the arguments after the program name -/
def parseArgs (argv : List Str) : Option Parsed :=
  (collect {} (lexAll argv)).map assemble

end Jawk.Args
