/-
  Model of `Context` (`src/processor.rs`) and of the evaluator's plumbing.
-/
import Jawk.Model.Expr
import Jawk.Model.Print
namespace Jawk

structure InputCtx where
  startLoc : Loc
  endLoc : Loc
  fileIndex : Nat
  index : Nat
  deriving Repr, Inhabited

/-- `Context`.  `vars`/`defs` are `HashMap`s: association lists, first match wins,
insertion puts the new binding in front (so it shadows). -/
structure Ctx where
  input : JV := .null
  results : List (Str × Option JV) := []
  parents : List JV := []
  vars : List (Str × JV) := []
  defs : List (Str × Expr) := []
  ictx : Option InputCtx := none
  deriving Inhabited

namespace Ctx

def withInput (c : Ctx) (v : JV) : Ctx :=
  { c with input := v, results := [], parents := c.input :: c.parents }

def withResult (c : Ctx) (title : Str) (r : Option JV) : Ctx :=
  { c with results := c.results ++ [(title, r)] }

def withVariable (c : Ctx) (name : Str) (v : JV) : Ctx :=
  { c with vars := (name, v) :: c.vars }

def withVariables (c : Ctx) (vars : List (Str × JV)) : Ctx :=
  { c with vars := vars }

def withDefinition (c : Ctx) (name : Str) (d : Expr) : Ctx :=
  { c with defs := (name, d) :: c.defs }

def withDefinitions (c : Ctx) (defs : List (Str × Expr)) : Ctx :=
  { c with defs := defs }

def lookup {α} (l : List (Str × α)) (k : Str) : Option α :=
  match l with
  | [] => none
  | (k', v) :: rest => if k' = k then some v else lookup rest k

def getVariable (c : Ctx) (n : Str) : Option JV := lookup c.vars n
def getDefinition (c : Ctx) (n : Str) : Option Expr := lookup c.defs n

/-- `get_selected`: the first result with that title -/
def getSelected (c : Ctx) (n : Str) : Option JV :=
  match lookup c.results n with
  | some r => r
  | none => none

/-- `parent_input(count)`: out of range falls back to the input itself -/
def parentInput (c : Ctx) (count : Nat) : JV :=
  if count = 0 then c.input else (c.parents[count - 1]?).getD c.input

/-- `build`: the input, or the object of the present selections -/
def build (c : Ctx) : JV :=
  if c.results.isEmpty then c.input
  else .obj (c.results.foldl (fun acc (t, r) => match r with
    | some v => objInsert acc t v
    | none => acc) [])

def toList (c : Ctx) : List (Option JV) := c.results.map (·.2)

end Ctx

/-- `ContextKey` -/
inductive CtxKey where
  | value (v : JV)
  | results (rs : List (Option JV))

def Ctx.key (c : Ctx) : CtxKey :=
  if c.results.isEmpty then .value c.input else .results c.toList

/-- ways an evaluation can fail to return: unbounded recursion, or a Rust panic site -/
inductive Abort where
  | overflow
  | panic (site : String)
  deriving Repr, DecidableEq, Inhabited

/-- result of `Get::get`: a value, nothing, or an abort -/
abbrev R := Except Abort (Option JV)

/-- the evaluator handed to function bodies for their argument expressions -/
abbrev Ev := Expr → Ctx → R

/-- `self.0.apply(ctx, i)` -/
def applyArg (ev : Ev) (args : List Expr) (ctx : Ctx) (i : Nat) : R :=
  match args[i]? with
  | some e => ev e ctx
  | none => .ok none

def SingleStep.extract (s : Step) (v : JV) : Option JV :=
  match v, s with
  | .arr l, .idx i => l[i]?
  | .obj m, .key k => objGet? m k
  | _, _ => none

def extractSteps (steps : List Step) (v : JV) : Option JV :=
  steps.foldl (fun acc s => match acc with
    | none => none
    | some x => SingleStep.extract s x) (some v)

/-- `TryInto::<usize>::try_into(NumberValue)`: only `Positive` -/
def Num.toUsize? : Num → Option Nat
  | .pos n => some n
  | _ => none

def ICtxKind.get (k : ICtxKind) (ic : InputCtx) : Option JV :=
  match k with
  | .index => some (.num (.pos ic.index))
  | .indexInFile => some (.num (.pos ic.fileIndex))
  | .startLine => some (.num (.pos ic.startLoc.line))
  | .endLine => some (.num (.pos ic.endLoc.line))
  | .startChar => some (.num (.pos ic.startLoc.col))
  | .endChar => some (.num (.pos ic.endLoc.col))
  | .fileName => ic.startLoc.name.map JV.str

end Jawk
