/-
  Exact decimals: model of what jawk uses from the `bigdecimal` crate
  (`from_str`, `+ - * %`, `abs`, `round(0)`, comparison, `normalized().to_string()`).
  Division is precision-limited in the crate and stays an oracle.
-/
import Jawk.Model.Value
namespace Jawk

/-- `mant × 10^(-scale)` -/
structure Dec where
  mant : Int
  scale : Int
  deriving Repr, DecidableEq, Inhabited

namespace Dec

def zero : Dec := ⟨0, 0⟩
def one : Dec := ⟨1, 0⟩
def isZero (d : Dec) : Bool := d.mant == 0

/-- bring to a common scale (the larger one) -/
def align (a b : Dec) : Int × Int × Int :=
  let s := max a.scale b.scale
  (a.mant * 10 ^ (s - a.scale).toNat, b.mant * 10 ^ (s - b.scale).toNat, s)

def add (a b : Dec) : Dec :=
  let (x, y, s) := align a b
  ⟨x + y, s⟩

def sub (a b : Dec) : Dec :=
  let (x, y, s) := align a b
  ⟨x - y, s⟩

def mul (a b : Dec) : Dec := ⟨a.mant * b.mant, a.scale + b.scale⟩

def abs (a : Dec) : Dec := ⟨a.mant.natAbs, a.scale⟩

def cmp (a b : Dec) : Ordering :=
  let (x, y, _) := align a b
  compare x y

/-- `%`: truncated remainder on the aligned integers (sign of the dividend) -/
def rem (a b : Dec) : Dec :=
  let (x, y, s) := align a b
  ⟨Int.tmod x y, s⟩

/-- `round(0)`: half-even to an integer -/
def round0 (a : Dec) : Dec :=
  if a.scale ≤ 0 then a else
  let p : Nat := 10 ^ a.scale.toNat
  let n := a.mant.natAbs
  let q := n / p
  let r := n % p
  let q' := if 2 * r > p ∨ (2 * r = p ∧ q % 2 = 1) then q + 1 else q
  ⟨if a.mant < 0 then -(q' : Int) else q', 0⟩

/-- `normalized()`: no trailing zeros in the mantissa; zero is `0e0` -/
def normalize (a : Dec) : Dec :=
  if a.mant = 0 then zero else
  let rec strip (fuel : Nat) (n : Nat) (s : Int) : Nat × Int :=
    match fuel with
    | 0 => (n, s)
    | fuel + 1 => if n % 10 = 0 then strip fuel (n / 10) (s - 1) else (n, s)
  let (n, s) := strip (a.mant.natAbs + 1) a.mant.natAbs a.scale
  ⟨if a.mant < 0 then -(n : Int) else n, s⟩

def signedExp (e : Int) : Str :=
  if e < 0 then '-' :: Nat.toDigits 10 e.natAbs else '+' :: Nat.toDigits 10 e.natAbs

/-- `format!("{}", d.normalized())` of bigdecimal 0.4 (thresholds 5 and 15) -/
def render (a : Dec) : Str :=
  let d := normalize a
  let digits := Nat.toDigits 10 d.mant.natAbs
  let len : Int := digits.length
  let scale := d.scale
  let leading : Int := if scale ≥ len then scale - len else 0
  let trailing : Int := if scale ≤ 0 then -scale else 0
  let body : Str :=
    if 5 < leading then
      let exponent := len - scale - 1
      (match digits with
        | [] => []
        | [c] => [c]
        | c :: rest => c :: '.' :: rest) ++ ['E'] ++ signedExp exponent
    else if 15 < trailing then digits ++ ['e'] ++ signedExp (-scale)
    else if scale ≤ 0 then digits ++ List.replicate (-scale).toNat '0'
    else if scale < len then
      digits.take (len - scale).toNat ++ ['.'] ++ digits.drop (len - scale).toNat
    else ['0', '.'] ++ List.replicate (scale - len).toNat '0' ++ digits
  if d.mant < 0 then '-' :: body else body

/-- `BigDecimal::from_str` restricted to the alphabet `0-9 + - . e E` -/
def parse (s : Str) : Option Dec :=
  let isE (c : Char) : Bool := c = 'e' || c = 'E'
  let base := s.takeWhile (fun c => !isE c)
  let expPart := (s.dropWhile (fun c => !isE c)).drop 1
  let hasE := s.any isE
  let parseInt (t : Str) : Option Int :=
    let (neg, ds) := match t with
      | '-' :: r => (true, r)
      | '+' :: r => (false, r)
      | r => (false, r)
    if ds.isEmpty || !ds.all Char.isDigit then none
    else some (if neg then -(F64.digitsToNat ds : Int) else F64.digitsToNat ds)
  let exp? : Option Int := if hasE then parseInt expPart else some 0
  match exp? with
  | none => none
  | some e =>
    if base.isEmpty then none else
    let lead := base.takeWhile (· ≠ '.')
    let hasDot := base.any (· = '.')
    let trail := (base.dropWhile (· ≠ '.')).drop 1
    if trail.any (· = '.') then none else
    let digits := if hasDot then lead ++ trail else lead
    match parseInt digits with
    | none => none
    | some m =>
      -- a sign is only legal in front of the whole digit string
      if trail.any (fun c => c = '-' || c = '+') then none
      else some ⟨m, (trail.length : Int) - e⟩

end Dec
end Jawk
