/-
  Model of the evaluator: `Get::get` for every AST node and one equation per
  function of `src/functions/**` (mirroring the Rust control flow).
  Library calls (`regex`, `chrono`, `base64`, `env`, `bigdecimal` rendering) are
  answered by an `Oracles` table supplied per case by the harness.
-/
import Jawk.Model.Ctx
import Jawk.Model.Decimal
namespace Jawk

/-- answers for library calls: `(function, printed arguments) ↦ result`; a miss is an abort -/
structure Oracles where
  table : List (String × List Str × Option JV) := []
  deriving Inhabited

def Oracles.ask (o : Oracles) (fn : String) (args : List JV) : R :=
  let key := args.map JV.display
  match o.table.find? (fun (f, k, _) => f == fn && k == key) with
  | some (_, _, r) => .ok r
  | none => .error (.panic ("oracle-miss:" ++ fn))

def jbool (b : Bool) : Option JV := some (.bool b)
def jnum (f : F64) : Option JV := some (.num (Num.ofF64 f))
/-- `JsonValue::from_finite`: an overflowing arithmetic result is nothing -/
def jnumFinite (f : F64) : Option JV := if f.isFinite then jnum f else none
def jusize (n : Nat) : JV := .num (.pos n)

/-- `Option<JsonValue>::cmp`: `None` first -/
def cmpOpt : Option JV → Option JV → Ordering
  | none, none => .eq
  | none, some _ => .lt
  | some _, none => .gt
  | some a, some b => JV.cmp a b

/-- stable sort by a comparison (models `slice::sort_by`, assumed stable) -/
def stableSortBy {α} (cmp : α → α → Ordering) (l : List α) : List α :=
  l.mergeSort (fun a b => cmp a b != .gt)

/-- evaluate `e` once per element with the element as input (`value.with_inupt(v)`) -/
def mapM' {α β} (f : α → Except Abort β) : List α → Except Abort (List β)
  | [] => .ok []
  | x :: xs => do
    let y ← f x
    let ys ← mapM' f xs
    .ok (y :: ys)

/-- `Vec::dedup`: drop consecutive elements equal (`==`) to their predecessor -/
def dedupBy (eq : JV → JV → Bool) : List JV → List JV
  | [] => []
  | [x] => [x]
  | x :: y :: rest => if eq x y then dedupBy eq (x :: rest) else x :: dedupBy eq (y :: rest)
termination_by l => l.length

/-- `str::split(pat)` -/
def splitStr (s sep : Str) : List Str :=
  if sep.isEmpty then [[]] ++ s.map (fun c => [c]) ++ [[]] else
  let rec go (fuel : Nat) (cur : Str) (rest : Str) : List Str :=
    match fuel with
    | 0 => [cur.reverse ++ rest]
    | fuel + 1 =>
      match rest with
      | [] => [cur.reverse]
      | c :: cs =>
        if sep.isPrefixOf (c :: cs) then cur.reverse :: go fuel [] ((c :: cs).drop sep.length)
        else go fuel (c :: cur) cs
  go (s.length + 1) [] s

def numArg : Option JV → Option F64
  | some (.num n) => some n.toF64
  | _ => none

def strArg : Option JV → Option Str
  | some (.str s) => some s
  | _ => none

def usizeArg : Option JV → Option Nat
  | some (.num n) => n.toUsize?
  | _ => none

/-- fold over argument expressions evaluating each in `ctx` (`for s in &self.0 { s.get(value) }`) -/
def foldArgs {σ} (ev : Ev) (ctx : Ctx) (step : σ → Option JV → Except Abort (Sum (Option JV) σ))
    (fin : σ → Option JV) : List Expr → σ → R
  | [], s => .ok (fin s)
  | e :: es, s => do
    let v ← ev e ctx
    match (← step s v) with
    | .inl r => .ok r
    | .inr s' => foldArgs ev ctx step fin es s'

section Functions
variable (ev : Ev) (orc : Oracles)

/-- functions whose value is determined without recursion into sub-contexts -/
def callBasic (fn : String) (args : List Expr) (ctx : Ctx) : Option R :=
  let a (i : Nat) : R := applyArg ev args ctx i
  match fn with
  -- basic / collection
  | "get" => some do
    match (← a 0) with
    | some (.obj m) =>
      match strArg (← a 1) with
      | some k => .ok (objGet? m k)
      | none => .ok none
    | some (.arr l) =>
      match usizeArg (← a 1) with
      | some i => .ok l[i]?
      | none => .ok none
    | _ => .ok none
  | "size" => some do
    match (← a 0) with
    | some (.obj m) => .ok (some (jusize m.length))
    | some (.arr l) => .ok (some (jusize l.length))
    | some (.str s) => .ok (some (jusize s.length))
    | _ => .ok none
  | "take" => some do
    match usizeArg (← a 1) with
    | none => .ok none
    | some n =>
      match (← a 0) with
      | some (.obj m) => .ok (some (.obj (m.take n)))
      | some (.arr l) => .ok (some (.arr (l.take n)))
      | some (.str s) => .ok (some (.str (s.take n)))
      | _ => .ok none
  | "take_last" => some do
    match usizeArg (← a 1) with
    | none => .ok none
    | some n =>
      match (← a 0) with
      | some (.obj m) => .ok (some (.obj (m.drop (m.length - n))))
      | some (.arr l) => .ok (some (.arr (l.drop (l.length - n))))
      | some (.str s) => .ok (some (.str (s.drop (s.length - n))))
      | _ => .ok none
  | "sub" => some do
    match usizeArg (← a 1) with
    | none => .ok none
    | some start =>
      match usizeArg (← a 2) with
      | none => .ok none
      | some len =>
        match (← a 0) with
        | some (.obj m) => .ok (some (.obj ((m.drop start).take len)))
        | some (.arr l) => .ok (some (.arr ((l.drop start).take len)))
        | some (.str s) => .ok (some (.str ((s.drop start).take len)))
        | _ => .ok none
  -- basic / flow
  | "?" => some do
    match (← a 0) with
    | some (.bool true) => a 1
    | some (.bool false) => a 2
    | _ => .ok none
  | "default" => some (foldArgs ev ctx (fun (_ : Unit) v => .ok (match v with
      | some x => .inl (some x)
      | none => .inr ())) (fun _ => none) args ())
  | "|" => some do
    let rec go (c : Ctx) : List Expr → R
      | [] => .ok (some c.input)
      | e :: es => do
        match (← ev e c) with
        | some v => go (c.withInput v) es
        | none => .ok none
    go (ctx.withInput ctx.input) args
  -- boolean / compare
  | "=" => some do
    match (← a 0), (← a 1) with
    | some x, some y => .ok (jbool (JV.beq x y))
    | _, _ => .ok none
  | "!=" => some do
    match (← a 0), (← a 1) with
    | some x, some y => .ok (jbool (!JV.beq x y))
    | _, _ => .ok none
  | "<" => some do
    match (← a 0), (← a 1) with
    | some x, some y => .ok (jbool (JV.cmp x y == .lt))
    | _, _ => .ok none
  | "<=" => some do
    match (← a 0), (← a 1) with
    | some x, some y => .ok (jbool (JV.cmp x y != .gt))
    | _, _ => .ok none
  | ">" => some do
    match (← a 0), (← a 1) with
    | some x, some y => .ok (jbool (JV.cmp x y == .gt))
    | _, _ => .ok none
  | ">=" => some do
    match (← a 0), (← a 1) with
    | some x, some y => .ok (jbool (JV.cmp x y != .lt))
    | _, _ => .ok none
  -- boolean / logical
  | "and" => some (foldArgs ev ctx (fun (_ : Unit) v => .ok (match v with
      | some (.bool true) => .inr ()
      | some (.bool false) => .inl (jbool false)
      | _ => .inl none)) (fun _ => jbool true) args ())
  | "or" => some (foldArgs ev ctx (fun (_ : Unit) v => .ok (match v with
      | some (.bool false) => .inr ()
      | some (.bool true) => .inl (jbool true)
      | _ => .inl none)) (fun _ => jbool false) args ())
  | "not" => some do
    match (← a 0) with
    | some (.bool b) => .ok (jbool (!b))
    | _ => .ok none
  | "xor" => some do
    match (← a 0), (← a 1) with
    | some (.bool x), some (.bool y) => .ok (jbool (x != y))
    | _, _ => .ok none
  -- type / cast
  | "as_array" => some do
    match (← a 0) with
    | some (.arr l) => .ok (some (.arr l))
    | _ => .ok none
  | "as_boolean" => some do
    match (← a 0) with
    | some (.bool b) => .ok (some (.bool b))
    | _ => .ok none
  | "as_number" => some do
    match (← a 0) with
    | some (.num n) => .ok (some (.num n))
    | _ => .ok none
  | "as_object" => some do
    match (← a 0) with
    | some (.obj m) => .ok (some (.obj m))
    | _ => .ok none
  | "as_string" => some do
    match (← a 0) with
    | some (.str s) => .ok (some (.str s))
    | _ => .ok none
  -- type / check
  | "array?" => some do
    match (← a 0) with
    | some (.arr _) => .ok (jbool true)
    | _ => .ok (jbool false)
  | "bool?" => some do
    match (← a 0) with
    | some (.bool _) => .ok (jbool true)
    | _ => .ok (jbool false)
  | "empty?" => some do
    match (← a 0) with
    | some _ => .ok (jbool false)
    | none => .ok (jbool true)
  | "null?" => some do
    match (← a 0) with
    | some .null => .ok (jbool true)
    | _ => .ok (jbool false)
  | "number?" => some do
    match (← a 0) with
    | some (.num _) => .ok (jbool true)
    | _ => .ok (jbool false)
  | "object?" => some do
    match (← a 0) with
    | some (.obj _) => .ok (jbool true)
    | _ => .ok (jbool false)
  | "string?" => some do
    match (← a 0) with
    | some (.str _) => .ok (jbool true)
    | _ => .ok (jbool false)
  -- variables
  | ":" => some do
    match strArg (← a 0) with
    | some n => .ok (ctx.getVariable n)
    | none => .ok none
  | "@" => some do
    match strArg (← a 0) with
    | some n =>
      match ctx.getDefinition n with
      | some d => ev d ctx
      | none => .ok none
    | none => .ok none
  | "set" => some do
    match strArg (← a 0), (← a 1) with
    | some n, some v => applyArg ev args (ctx.withVariable n v) 2
    | _, _ => .ok none
  | "define" => some do
    match strArg (← a 0), args[1]? with
    | some n, some d => applyArg ev args (ctx.withDefinition n d) 2
    | _, _ => .ok none
  | _ => none

/-- list functions -/
def callList (fn : String) (args : List Expr) (ctx : Ctx) : Option R :=
  let a (i : Nat) : R := applyArg ev args ctx i
  let sub (v : JV) (i : Nat) : R := applyArg ev args (ctx.withInput v) i
  match fn with
  | "filter" => some do
    match (← a 0) with
    | some (.arr l) =>
      let keep ← mapM' (fun v => do
        match (← sub v 1) with
        | some (.bool true) => .ok true
        | _ => .ok false) l
      .ok (some (.arr ((l.zip keep).filterMap (fun (v, k) => if k then some v else none))))
    | _ => .ok none
  | "map" => some do
    match (← a 0) with
    | some (.arr l) =>
      let rs ← mapM' (fun v => sub v 1) l
      .ok (some (.arr (rs.filterMap id)))
    | _ => .ok none
  | "flat_map" => some do
    match (← a 0) with
    | some (.arr l) =>
      let rs ← mapM' (fun v => sub v 1) l
      .ok (some (.arr (rs.flatMap (fun r => match r with
        | some (.arr x) => x
        | _ => []))))
    | _ => .ok none
  | "fold" => some do
    match (← a 0) with
    | some (.arr l) =>
      let hasInit := args.length > 2
      let init ← (if hasInit then a 1 else .ok none)
      match (if hasInit then args[2]? else args[1]?) with
      | none => .ok none
      | some f =>
        let rec foldGo (cur : Option JV) (idx : Nat) : List JV → R
          | [] => .ok cur
          | v :: vs => do
            let m0 : List (Str × JV) := match cur with
              | some c => [("so_far".toList, c)]
              | none => []
            let m := objInsert (objInsert m0 "value".toList v) "index".toList (jusize idx)
            let next ← ev f (ctx.withInput (.obj m))
            foldGo next (idx + 1) vs
        foldGo init 0 l
    | _ => .ok none
  | "group_by" => some do
    match (← a 0) with
    | some (.arr l) =>
      let keys ← mapM' (fun v => sub v 1) l
      let rec groupGo (groups : List (Str × List JV)) : List (JV × Option JV) → Option (List (Str × List JV))
        | [] => some groups
        | (item, k) :: rest =>
          match k with
          | some (.str key) =>
            let groups' := if groups.any (fun g => g.1 = key)
              then groups.map (fun g => if g.1 = key then (g.1, g.2 ++ [item]) else g)
              else groups ++ [(key, [item])]
            groupGo groups' rest
          | _ => none
      match groupGo [] (l.zip keys) with
      | some groups => .ok (some (.obj (groups.map (fun g => (g.1, JV.arr g.2)))))
      | none => .ok none
    | _ => .ok none
  | "sort_by" => some do
    match (← a 0) with
    | some (.arr l) =>
      let keys ← mapM' (fun v => sub v 1) l
      let sorted := stableSortBy (fun (x y : JV × Option JV) => cmpOpt x.2 y.2) (l.zip keys)
      .ok (some (.arr (sorted.map (·.1))))
    | _ => .ok none
  -- folding
  | "all" => some do
    match (← a 0) with
    | some (.arr l) => .ok (jbool (!l.isEmpty && l.all (fun t => JV.beq t (.bool true))))
    | _ => .ok none
  | "any" => some do
    match (← a 0) with
    | some (.arr l) => .ok (jbool (l.any (fun t => JV.beq t (.bool true))))
    | _ => .ok none
  | "first" => some do
    match (← a 0) with
    | some (.arr l) => .ok l.head?
    | _ => .ok none
  | "last" => some do
    match (← a 0) with
    | some (.arr l) => .ok l.getLast?
    | _ => .ok none
  | "join" => some do
    let sep := (strArg (← a 1)).getD [',', ' ']
    match (← a 0) with
    | some (.arr l) =>
      let rec joinGo (first : Bool) (acc : Str) : List JV → Option Str
        | [] => some acc
        | .str s :: rest => joinGo false (if first then acc ++ s else acc ++ sep ++ s) rest
        | _ :: _ => none
      .ok ((joinGo true [] l).map JV.str)
    | _ => .ok none
  | "sum" => some do
    match (← a 0) with
    | some (.arr l) =>
      let rec sumGo (acc : F64) : List JV → Option F64
        | [] => some acc
        | .num n :: rest => sumGo (F64.add acc n.toF64) rest
        | _ :: _ => none
      .ok ((sumGo F64.zero l).bind jnumFinite)
    | _ => .ok none
  -- manipulations
  | "indexed" => some do
    match (← a 0) with
    | some (.arr l) =>
      .ok (some (.arr (l.zipIdx.map (fun (v, i) => JV.obj [("value".toList, v), ("index".toList, jusize i)]))))
    | _ => .ok none
  | "pop" => some do
    match (← a 0) with
    | some (.arr l) => .ok (some (.arr l.dropLast))
    | _ => .ok none
  | "pop_first" => some do
    match (← a 0) with
    | some (.arr l) => .ok (some (.arr (l.drop 1)))
    | _ => .ok none
  | "push" => some do
    match (← a 0) with
    | some (.arr l) =>
      let vs ← mapM' (fun e => ev e ctx) (args.drop 1)
      .ok (some (.arr (l ++ vs.filterMap id)))
    | _ => .ok none
  | "push_front" => some do
    match (← a 0) with
    | some (.arr l) =>
      let vs ← mapM' (fun e => ev e ctx) (args.drop 1)
      .ok (some (.arr ((vs.filterMap id).reverse ++ l)))
    | _ => .ok none
  | "reverese" => some do
    match (← a 0) with
    | some (.arr l) => .ok (some (.arr l.reverse))
    | _ => .ok none
  | "sort" => some do
    match (← a 0) with
    | some (.arr l) => .ok (some (.arr (stableSortBy JV.cmp l)))
    | _ => .ok none
  | "sort_unique" => some do
    match (← a 0) with
    | some (.arr l) => .ok (some (.arr (dedupBy JV.beq (stableSortBy JV.cmp l))))
    | _ => .ok none
  -- producers
  | "range" => some do
    match usizeArg (← a 0) with
    | some n => .ok (some (.arr ((List.range n).map jusize)))
    | none => .ok none
  | "zip" => some do
    let vs ← mapM' (fun e => ev e ctx) args
    let lists := vs.filterMap (fun v => match v with
      | some (.arr l) => some l
      | _ => none)
    -- the Rust returns at the first non-list argument (later arguments are not evaluated;
    -- evaluation has no side effect, so evaluating them all is unobservable)
    if lists.length ≠ vs.length then .ok none else
    let maxSize := lists.foldl (fun m l => max m l.length) 0
    .ok (some (.arr ((List.range maxSize).map (fun idx =>
      JV.obj (objOfList ((lists.zipIdx).filterMap (fun (l, i) =>
        (l[idx]?).map (fun v => ('.' :: Nat.toDigits 10 i, v)))))))))
  | "cross" => some do
    let vs ← mapM' (fun e => ev e ctx) args
    let lists := vs.filterMap (fun v => match v with
      | some (.arr l) => some l
      | _ => none)
    if lists.length ≠ vs.length then .ok none else
    let joined : List (List (Str × JV)) := (lists.zipIdx).foldl (fun joined (lst, i) =>
      lst.flatMap (fun v => joined.map (fun sofar => objInsert sofar ('.' :: Nat.toDigits 10 i) v))) [[]]
    .ok (some (.arr (joined.map JV.obj)))
  | _ => none

/-- object functions -/
def callObject (fn : String) (args : List Expr) (ctx : Ctx) : Option R :=
  let a (i : Nat) : R := applyArg ev args ctx i
  let sub (v : JV) (i : Nat) : R := applyArg ev args (ctx.withInput v) i
  match fn with
  | "filter_keys" => some do
    match (← a 0) with
    | some (.obj m) =>
      let keep ← mapM' (fun (kv : Str × JV) => do
        match (← sub (.str kv.1) 1) with
        | some (.bool true) => .ok true
        | _ => .ok false) m
      .ok (some (.obj ((m.zip keep).filterMap (fun (kv, k) => if k then some kv else none))))
    | _ => .ok none
  | "filter_values" => some do
    match (← a 0) with
    | some (.obj m) =>
      let keep ← mapM' (fun (kv : Str × JV) => do
        match (← sub kv.2 1) with
        | some (.bool true) => .ok true
        | _ => .ok false) m
      .ok (some (.obj ((m.zip keep).filterMap (fun (kv, k) => if k then some kv else none))))
    | _ => .ok none
  | "map_keys" => some do
    match (← a 0) with
    | some (.obj m) =>
      let ks ← mapM' (fun (kv : Str × JV) => sub (.str kv.1) 1) m
      .ok (some (.obj (objOfList ((m.zip ks).filterMap (fun (kv, k) => match k with
        | some (.str s) => some (s, kv.2)
        | _ => none)))))
    | _ => .ok none
  | "map_values" => some do
    match (← a 0) with
    | some (.obj m) =>
      let vs ← mapM' (fun (kv : Str × JV) => sub kv.2 1) m
      .ok (some (.obj ((m.zip vs).filterMap (fun (kv, v) => v.map (fun v => (kv.1, v))))))
    | _ => .ok none
  | "insert_if_absent" => some do
    match (← a 0), strArg (← a 1), (← a 2) with
    | some (.obj m), some k, some v =>
      .ok (some (.obj (if (objGet? m k).isSome then m else objInsert m k v)))
    | _, _, _ => .ok none
  | "put" => some do
    match (← a 0), strArg (← a 1), (← a 2) with
    | some (.obj m), some k, some v => .ok (some (.obj (objInsert m k v)))
    | _, _, _ => .ok none
  | "replace_if_exists" => some do
    match (← a 0), strArg (← a 1), (← a 2) with
    | some (.obj m), some k, some v =>
      .ok (some (.obj (if (objGet? m k).isSome then objInsert m k v else m)))
    | _, _, _ => .ok none
  | "entries" => some do
    match (← a 0) with
    | some (.obj m) =>
      .ok (some (.arr (m.map (fun (k, v) => JV.obj [("value".toList, v), ("key".toList, .str k)]))))
    | _ => .ok none
  | "keys" => some do
    match (← a 0) with
    | some (.obj m) => .ok (some (.arr (m.map (fun kv => JV.str kv.1))))
    | _ => .ok none
  | "values" => some do
    match (← a 0) with
    | some (.obj m) => .ok (some (.arr (m.map (·.2))))
    | _ => .ok none
  | "sort_by_keys" => some do
    match (← a 0) with
    | some (.obj m) => .ok (some (.obj (stableSortBy (fun (x y : Str × JV) => cmpStr x.1 y.1) m)))
    | _ => .ok none
  | "sort_by_values" => some do
    match (← a 0) with
    | some (.obj m) => .ok (some (.obj (stableSortBy (fun (x y : Str × JV) => JV.cmp x.2 y.2) m)))
    | _ => .ok none
  | "sort_by_values_by" => some do
    match (← a 0) with
    | some (.obj m) =>
      let keys ← mapM' (fun (kv : Str × JV) => sub kv.2 1) m
      let sorted := stableSortBy (fun (x y : (Str × JV) × Option JV) => cmpOpt x.2 y.2) (m.zip keys)
      .ok (some (.obj (sorted.map (·.1))))
    | _ => .ok none
  | _ => none

/-- number functions (through `f64`, result through `From<f64>`) -/
def callNumber (fn : String) (args : List Expr) (ctx : Ctx) : Option R :=
  let a (i : Nat) : R := applyArg ev args ctx i
  match fn with
  | "+" => some (foldArgs ev ctx (fun (s : F64) v => .ok (match numArg v with
      | some x => .inr (F64.add s x)
      | none => .inl none)) jnumFinite args F64.zero)
  | "*" => some (foldArgs ev ctx (fun (s : F64) v => .ok (match numArg v with
      | some x => .inr (F64.mul s x)
      | none => .inl none)) jnumFinite args (F64.ofNat 1))
  | "-" => some do
    if args.length = 1 then
      match numArg (← a 0) with
      | some y => .ok (jnumFinite (F64.sub F64.zero y))
      | none => .ok none
    else
      match numArg (← a 0), numArg (← a 1) with
      | some x, some y => .ok (jnumFinite (F64.sub x y))
      | _, _ => .ok none
  | "/" => some do
    match numArg (← a 0), numArg (← a 1) with
    | some x, some y => if y.isZero then .ok none else .ok (jnumFinite (F64.div x y))
    | _, _ => .ok none
  | "%" => some do
    match numArg (← a 0), numArg (← a 1) with
    | some x, some y => if y.isZero then .ok none else .ok (jnum (F64.rem x y))
    | _, _ => .ok none
  | "abs" => some do
    match numArg (← a 0) with
    | some x => .ok (jnum x.abs)
    | none => .ok none
  | "ceil" => some do
    match numArg (← a 0) with
    | some x => .ok (jnum x.ceil)
    | none => .ok none
  | "floor" => some do
    match numArg (← a 0) with
    | some x => .ok (jnum x.floor)
    | none => .ok none
  | "round" => some do
    match numArg (← a 0) with
    | some x => .ok (jnum x.round)
    | none => .ok none
  | _ => none

/-- string functions; `parse_selection` needs the expression parser and the evaluator -/
def callString (fn : String) (args : List Expr) (ctx : Ctx) : Option R :=
  let a (i : Nat) : R := applyArg ev args ctx i
  match fn with
  | "concat" => some (foldArgs ev ctx (fun (s : Str) v => .ok (match strArg v with
      | some x => .inr (s ++ x)
      | none => .inl none)) (fun s => some (.str s)) args [])
  | "head" => some do
    match strArg (← a 0), usizeArg (← a 1) with
    | some s, some n => .ok (some (.str (s.take n)))
    | _, _ => .ok none
  | "tail" => some do
    match strArg (← a 0), usizeArg (← a 1) with
    | some s, some n => .ok (some (.str (if s.length < n then s else s.drop n)))
    | _, _ => .ok none
  | "split" => some do
    match strArg (← a 0), strArg (← a 1) with
    | some s, some sep => .ok (some (.arr ((splitStr s sep).map JV.str)))
    | _, _ => .ok none
  | "parse" => some do
    match strArg (← a 0) with
    | some s =>
      let r := Reader.ofString s
      match r.nextJson with
      | (.ok (some v), r') =>
        match r'.nextJson with
        | (.ok none, _) => .ok (some v)
        | _ => .ok none
      | _ => .ok none
    | none => .ok none
  | "stringify" => some do
    match (← a 0) with
    | some v => .ok (some (.str v.display))
    | none => .ok none
  | "parse_selection" => some do
    match strArg (← a 0) with
    | some s =>
      -- `Selection::from_str`: getter, optional `=name`
      let r := Reader.ofString s
      let fuel := exprFuel s
      let m : EM Expr := do
        liftP (Reader.eatWhitespace fuel)
        let e ← readGetter fuel
        liftP (Reader.eatWhitespace fuel)
        match (← liftP Reader.peek) with
        | some 61 => pure e
        | some ch => do
          let l ← emLoc
          EM.fail (.expectingEquals l ch)
        | none => pure e
      match (m r).1 with
      | .ok e => ev e ctx
      | .error _ => .ok none
    | none => .ok none
  -- library-backed
  | "match" => some do
    match (← a 0), (← a 1) with
    | some (.str s), some (.str re) => orc.ask "match" [.str s, .str re]
    | _, _ => .ok none
  | "extract_regex_group" => some do
    match (← a 0), (← a 1), (← a 2) with
    | some (.str s), some (.str re), some (.num n) =>
      match n.toUsize? with
      | some i => orc.ask "extract_regex_group" [.str s, .str re, jusize i]
      | none =>
        -- the regex is compiled before the index is looked at; both failing gives nothing
        .ok none
    | _, _, _ => .ok none
  | "base63_decode" => some do
    match (← a 0) with
    | some (.str s) => orc.ask "base63_decode" [.str s]
    | _ => .ok none
  | "env" => some do
    match (← a 0) with
    | some (.str s) => orc.ask "env" [.str s]
    | _ => .ok none
  | "format_time" => some do
    match (← a 0) with
    | some (.num n) =>
      -- the format argument is evaluated only when the timestamp is representable;
      -- evaluation is pure, so asking for it first is unobservable
      match (← a 1) with
      | some (.str f) => orc.ask "format_time" [.num n, .str f]
      | _ => .ok none
    | _ => .ok none
  | "parse_time" => some do
    match (← a 0), (← a 1) with
    | some (.str s), some (.str f) => orc.ask "parse_time" [.str s, .str f]
    | _, _ => .ok none
  | "parse_time_with_zone" => some do
    match (← a 0), (← a 1) with
    | some (.str s), some (.str f) => orc.ask "parse_time_with_zone" [.str s, .str f]
    | _, _ => .ok none
  | _ => none

/-- number-as-string functions over exact decimals (`Jawk.Dec`) -/
def callNas (fn : String) (args : List Expr) (ctx : Ctx) : Option R :=
  let a (i : Nat) : R := applyArg ev args ctx i
  let dec (v : Option JV) : Option Dec := (strArg v).bind Dec.parse
  let out (d : Dec) : Option JV := some (.str d.render)
  let cmp2 (f : Ordering → Bool) : R := do
    match dec (← a 0), dec (← a 1) with
    | some x, some y => .ok (jbool (f (Dec.cmp x y)))
    | _, _ => .ok none
  match fn with
  | "\"+\"" => some (foldArgs ev ctx (fun (s : Dec) v => .ok (match dec v with
      | some x => .inr (Dec.add s x)
      | none => .inl none)) out args Dec.zero)
  | "\"*\"" => some (foldArgs ev ctx (fun (s : Dec) v => .ok (match dec v with
      | some x => .inr (Dec.mul s x)
      | none => .inl none)) out args Dec.one)
  | "\"-\"" => some do
    if args.length = 1 then
      match dec (← a 0) with
      | some y => .ok (out (Dec.sub Dec.zero y))
      | none => .ok none
    else
      match dec (← a 0), dec (← a 1) with
      | some x, some y => .ok (out (Dec.sub x y))
      | _, _ => .ok none
  | "\"abs\"" => some do
    match dec (← a 0) with
    | some x => .ok (out x.abs)
    | none => .ok none
  | "\"||\"" => some do
    match dec (← a 0) with
    | some x => .ok (out x)
    | none => .ok none
  | "\"round\"" => some do
    match dec (← a 0) with
    | some x => .ok (out x.round0)
    | none => .ok none
  | "\"/\"" => some do
    match (← a 0), (← a 1) with
    | some (.str x), some (.str y) =>
      match Dec.parse x, Dec.parse y with
      | some _, some dy => if dy.isZero then .ok none else orc.ask "\"/\"" [.str x, .str y]
      | _, _ => .ok none
    | _, _ => .ok none
  | "\"%\"" => some do
    match dec (← a 0), dec (← a 1) with
    | some x, some y => if y.isZero then .ok none else .ok (out (Dec.rem x y))
    | _, _ => .ok none
  | "\"=\"" => some (cmp2 (· == .eq))
  | "\"!=\"" => some (cmp2 (· != .eq))
  | "\"<\"" => some (cmp2 (· == .lt))
  | "\"<=\"" => some (cmp2 (· != .gt))
  | "\">\"" => some (cmp2 (· == .gt))
  | "\">=\"" => some (cmp2 (· != .lt))
  | "\"sort_by\"" => some do
    match (← a 0) with
    | some (.arr l) =>
      let keys ← mapM' (fun v => do
        let k ← applyArg ev args (ctx.withInput v) 1
        .ok (dec k)) l
      let cmpK : Option Dec → Option Dec → Ordering
        | none, none => .eq
        | none, some _ => .lt
        | some _, none => .gt
        | some x, some y => Dec.cmp x y
      let sorted := stableSortBy (fun (x y : JV × Option Dec) => cmpK x.2 y.2) (l.zip keys)
      .ok (some (.arr (sorted.map (·.1))))
    | _ => .ok none
  | _ => none

def callFn (fn : String) (args : List Expr) (ctx : Ctx) : R :=
  match callBasic ev fn args ctx with
  | some r => r
  | none =>
  match callList ev fn args ctx with
  | some r => r
  | none =>
  match callObject ev fn args ctx with
  | some r => r
  | none =>
  match callNumber ev fn args ctx with
  | some r => r
  | none =>
  match callString ev orc fn args ctx with
  | some r => r
  | none =>
  match callNas ev orc fn args ctx with
  | some r => r
  | none => .error (.panic ("unmodelled-function:" ++ fn))

end Functions

/-- `Get::get`.  The fuel bounds the nesting depth of evaluation; running out is the
modelled stack overflow (only self-referential macros / `parse_selection` can). -/
def eval (orc : Oracles) : Nat → Expr → Ctx → R
  | 0, _, _ => .error .overflow
  | fuel + 1, e, ctx =>
    match e with
    | .extract parents steps => .ok (extractSteps steps (ctx.parentInput parents))
    | .const v => .ok (some v)
    | .var n => .ok (ctx.getVariable n)
    | .macro n =>
      match ctx.getDefinition n with
      | some d => eval orc fuel d ctx
      | none => .ok none
    | .selected n => .ok (ctx.getSelected n)
    | .ictx k => .ok (ctx.ictx.bind k.get)
    | .call fn args => callFn (eval orc fuel) orc fn args ctx

/-- evaluation depth used by the pipeline: far beyond any finite expression,
small enough that runaway recursion is reported quickly -/
def evalFuel : Nat := 2000

end Jawk
