/-
  The selection-expression AST and its parser: model of `selection.rs`
  (`read_getter`, `parse_function`, `read_function_name`), `extractor.rs`,
  `const_getter.rs`, `variables_extractor.rs`, `selection_extractor.rs`,
  `input_context_extractor.rs` and of `FunctionDefinitions::create`.
  Name resolution and arity checks go through the *generated* function table.
-/
import Jawk.Model.Parser
import Jawk.Generated.FunctionTable
namespace Jawk
open Reader

inductive Step where
  | key (k : Str)
  | idx (i : Nat)
  deriving Repr, DecidableEq, Inhabited

inductive ICtxKind where
  | index | indexInFile | fileName | startLine | endLine | startChar | endChar
  deriving Repr, DecidableEq, Inhabited

/-- A parsed expression (`Rc<dyn Get>`).  `call` carries the canonical function name. -/
inductive Expr where
  | extract (parents : Nat) (steps : List Step)      -- `Root` is `steps = []`
  | const (v : JV)
  | call (fn : String) (args : List Expr)
  | var (name : Str)
  | macro (name : Str)
  | selected (name : Str)
  | ictx (k : ICtxKind)
  deriving Repr, Inhabited

inductive ExprErr where
  | json (e : PErr)
  | utf8
  | numberParse
  | unknownFunction (name : Str)
  | missingArgument (fn : String)
  | tooManyArgument (fn : String)
  | unknownInputContext (name : Str)
  | missingKey (loc : Loc)
  | expectingEquals (loc : Loc) (got : Byte)
  | expectingEof (loc : Loc) (got : Byte)
  | unexpectedEof
  | outOfFuel
  deriving Repr, Inhabited

/-- The expression-parser monad (same mutable reader). -/
def EM (α : Type) := Reader → Except ExprErr α × Reader

instance : Monad EM where
  pure a := fun r => (.ok a, r)
  bind m f := fun r =>
    match m r with
    | (.ok a, r') => f a r'
    | (.error e, r') => (.error e, r')

def EM.fail {α} (e : ExprErr) : EM α := fun r => (.error e, r)

/-- run a reader/JSON-parser action; its errors become `SelectionParseError::{IoError,JsonError}` -/
def liftP {α} (m : PM α) : EM α := fun r =>
  match m r with
  | (.ok a, r') => (.ok a, r')
  | (.error e, r') => (.error (.json e), r')

def emLoc : EM Loc := fun r => (.ok r.loc, r)

structure FnSig where
  name : String
  min : Nat
  max : Option Nat
  deriving Repr, Inhabited

/-- `find_function` over the generated table: canonical name and arity bounds -/
def findFunction (n : String) : Option FnSig :=
  (Generated.functionTable.find? (fun (name, aliases, _, _) => name == n || aliases.contains n)).map
    fun (name, _, mn, mx) => { name := name, min := mn, max := mx }

def isAsciiWs (b : Byte) : Bool := b = 32 || b = 9 || b = 10 || b = 12 || b = 13
def isAsciiControl (b : Byte) : Bool := b < 32 || b = 127

def fnNameStop (b : Byte) : Bool :=
  isAsciiWs b || b = 44 || b = 40 || b = 41 || isAsciiControl b

def keyStop (b : Byte) : Bool :=
  isAsciiWs b || b = 46 || b = 44 || b = 61 || b = 40 || b = 41 || isAsciiControl b
    || b = 34 || b = 93 || b = 91 || b = 123 || b = 125 || b = 35

/-- read bytes with `next` until end of input or a stop byte (which stays current) -/
def readUntil (stop : Byte → Bool) : Nat → List Byte → EM (List Byte)
  | 0, _ => EM.fail .outOfFuel
  | fuel + 1, acc => do
    match (← liftP next) with
    | none => pure acc
    | some b => if stop b then pure acc else readUntil stop fuel (acc ++ [b])

def fromUtf8 (bs : List Byte) : EM Str :=
  match utf8Decode? bs with
  | some s => pure s
  | none => EM.fail .utf8

/-- `read_number_of_parents` -/
def readParents : Nat → Nat → EM Nat
  | 0, _ => EM.fail .outOfFuel
  | fuel + 1, n => do
    if (← liftP peek) = some 94 then
      let _ ← liftP next
      readParents fuel (n + 1)
    else pure n

/-- `str::parse::<usize>` of a non-empty digit string -/
def parseUsize (ds : List Byte) : Option Nat :=
  let n := F64.digitsToNat (bytesToStr ds)
  if n < 2 ^ 64 then some n else none

/-- `ExtractFromInput::parse` -/
def parseSteps : Nat → List Step → EM (List Step)
  | 0, _ => EM.fail .outOfFuel
  | fuel + 1, acc => do
    match (← liftP peek) with
    | some 46 => do           -- '.'
      let kb ← readUntil keyStop (fuel + 1) []
      let key ← fromUtf8 kb
      if key.isEmpty then
        if acc.isEmpty then pure [] else do
          let l ← emLoc
          EM.fail (.missingKey l)
      else parseSteps fuel (acc ++ [.key key])
    | some 35 => do           -- '#'
      let _ ← liftP next
      let ds ← liftP (readDigits (fuel + 1) [])
      if ds.isEmpty then
        if acc.isEmpty then pure [] else do
          let l ← emLoc
          EM.fail (.missingKey l)
      else
        match parseUsize ds with
        | some i => parseSteps fuel (acc ++ [.idx i])
        | none => EM.fail .numberParse
    | _ => pure acc

def ictxOfName (n : Str) : Option ICtxKind :=
  if n = "index".toList then some .index
  else if n = "index-in-file".toList then some .indexInFile
  else if n = "started-at-line-number".toList then some .startLine
  else if n = "started-at-char-number".toList then some .startChar
  else if n = "ended-at-line-number".toList then some .endLine
  else if n = "ended-at-char-number".toList then some .endChar
  else if n = "file-name".toList then some .fileName
  else none

/-- `parse_input_context`: letters are lower-cased, `_` and `-` both give `-` -/
def readICtxName : Nat → List Byte → EM (List Byte)
  | 0, _ => EM.fail .outOfFuel
  | fuel + 1, acc => do
    match (← liftP next) with
    | none => pure acc
    | some ch =>
      if 97 ≤ ch && ch ≤ 122 then readICtxName fuel (acc ++ [ch])
      else if 65 ≤ ch && ch ≤ 90 then readICtxName fuel (acc ++ [ch + 32])
      else if ch = 95 || ch = 45 then readICtxName fuel (acc ++ [45])
      else pure acc

def varStop (b : Byte) : Bool := b = 32 || b = 10 || b = 9 || b = 13 || b = 41 || b = 44 || b = 61

/-- `char::is_whitespace` (Unicode `White_Space`), used by `str::trim` -/
def isTrimWs (c : Char) : Bool :=
  let n := c.toNat
  (9 ≤ n && n ≤ 13) || n = 32 || n = 0x85 || n = 0xA0 || n = 0x1680 || (0x2000 ≤ n && n ≤ 0x200A)
    || n = 0x2028 || n = 0x2029 || n = 0x202F || n = 0x205F || n = 0x3000

def trimStr (s : Str) : Str :=
  ((s.dropWhile isTrimWs).reverse.dropWhile isTrimWs).reverse

mutual
/-- `read_getter` -/
def readGetter : Nat → EM Expr
  | 0 => EM.fail .outOfFuel
  | fuel + 1 => do
    liftP (eatWhitespace (fuel + 1))
    match (← liftP peek) with
    | none => EM.fail .unexpectedEof
    | some c =>
      if c = 46 || c = 35 || c = 94 then do          -- . # ^
        let parents ← readParents (fuel + 1) 0
        let steps ← parseSteps (fuel + 1) []
        pure (.extract parents steps)
      else if c = 40 then parseFunction fuel         -- (
      else if c = 58 || c = 64 then do               -- : @
        let nb ← readUntil varStop (fuel + 1) []
        if nb.isEmpty then do
          let l ← emLoc
          EM.fail (.json (.unexpectedEof l))
        else do
          let name ← fromUtf8 nb
          pure (if c = 58 then .var name else .macro name)
      else if c = 38 then do                         -- &
        let nb ← readICtxName (fuel + 1) []
        let name ← fromUtf8 nb
        match ictxOfName name with
        | some k => pure (.ictx k)
        | none => EM.fail (.unknownInputContext name)
      else if c = 47 then do                         -- /
        let nb ← readSelName (fuel + 1) []
        let _ ← liftP next
        if nb.isEmpty then do
          let l ← emLoc
          EM.fail (.json (.unexpectedEof l))
        else do
          let name ← fromUtf8 nb
          pure (.selected (trimStr name))
      else do
        match (← liftP (nextValue (fuel + 1))) with
        | none => EM.fail .unexpectedEof
        | some v => pure (.const v)

/-- `parse_get_selection`'s loop: bytes up to the closing `/` -/
def readSelName : Nat → List Byte → EM (List Byte)
  | 0, _ => EM.fail .outOfFuel
  | fuel + 1, acc => do
    match (← liftP next) with
    | none => do
      let l ← emLoc
      EM.fail (.json (.unexpectedEof l))
    | some b => if b = 47 then pure acc else readSelName fuel (acc ++ [b])

/-- `parse_function`: `(` is the current byte -/
def parseFunction : Nat → EM Expr
  | 0 => EM.fail .outOfFuel
  | fuel + 1 => do
    liftP (eatWhitespace (fuel + 1))
    let nb ← readUntil fnNameStop (fuel + 1) []
    let name ← fromUtf8 nb
    let (name, pre) := match name with
      | '.' :: rest => (rest, [Expr.extract 0 []])
      | n => (n, [])
    match findFunction (String.ofList name) with
    | none => EM.fail (.unknownFunction name)
    | some sig => do
      let args ← parseArgs fuel pre
      let _ ← liftP next
      if args.length < sig.min then EM.fail (.missingArgument sig.name)
      else if (match sig.max with | some m => decide (args.length > m) | none => false) then
        EM.fail (.tooManyArgument sig.name)
      else pure (.call sig.name args)

def parseArgs : Nat → List Expr → EM (List Expr)
  | 0, _ => EM.fail .outOfFuel
  | fuel + 1, acc => do
    liftP (eatWhitespace (fuel + 1))
    match (← liftP peek) with
    | none => EM.fail .unexpectedEof
    | some c =>
      if c = 44 then do
        let _ ← liftP next
        parseArgs fuel acc
      else if c = 41 then pure acc
      else do
        let a ← readGetter fuel
        parseArgs fuel (acc ++ [a])
end

def exprFuel (s : Str) : Nat := 6 * (utf8 s).length + 20

/-- the common shape of `Filter/Splitter/Grouper::from_str`: one getter, then only white space -/
def parseWholeExpr (s : Str) : Except ExprErr Expr :=
  let r := Reader.ofString s
  let fuel := exprFuel s
  let m : EM Expr := do
    liftP (eatWhitespace fuel)
    let e ← readGetter fuel
    liftP (eatWhitespace fuel)
    match (← liftP peek) with
    | some ch => do
      let l ← emLoc
      EM.fail (.expectingEof l ch)
    | none => pure e
  (m r).1

end Jawk
