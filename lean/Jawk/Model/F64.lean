/-
  Model of IEEE-754 binary64 (`f64`) over `Nat`/`Int`.

  Lean's own `Float` is opaque to the kernel and its `toString` does not
  round-trip, so everything jawk does with `f64` is modelled here from
  scratch: correctly rounded decimal parsing (`str::parse::<f64>`), the
  shortest round-tripping decimal rendering (`Display for f64`), integer
  conversions (`as`), comparison (`total_cmp`, `==`, `<`) and arithmetic.
-/
namespace Jawk

/-- A binary64 value, decoded.  `fin neg m e` denotes `(-1)^neg * m * 2^e`.
Canonical form (`F64.Canonical`): `m < 2^53`, `-1074 ≤ e ≤ 971`, and
`m < 2^52 → e = -1074` (subnormals and zero). -/
inductive F64 where
  | fin (neg : Bool) (m : Nat) (e : Int)
  | inf (neg : Bool)
  | nan
  deriving DecidableEq, Repr, Inhabited

namespace F64

def Canonical : F64 → Prop
  | fin _ m e => m < 2 ^ 53 ∧ -1074 ≤ e ∧ e ≤ 971 ∧ (m < 2 ^ 52 → e = -1074)
  | _ => True

instance : DecidablePred Canonical := fun f => by
  cases f <;> unfold Canonical <;> infer_instance

def zero : F64 := fin false 0 (-1074)
def negZero : F64 := fin true 0 (-1074)

def isFinite : F64 → Bool
  | fin .. => true
  | _ => false

def isNaN : F64 → Bool
  | nan => true
  | _ => false

def isZero : F64 → Bool
  | fin _ 0 _ => true
  | _ => false

/-- `⌊num / (den * 2^e)⌋` together with the remainder and the divisor actually used. -/
def scaleDiv (num den : Nat) (e : Int) : Nat × Nat × Nat :=
  if 0 ≤ e then
    let d := den * 2 ^ e.toNat
    (num / d, num % d, d)
  else
    let n := num * 2 ^ (-e).toNat
    (n / den, n % den, den)

/-- Round the non-negative rational `num / den` (`den > 0`) to the nearest
binary64, ties to even, with sign `neg`.  Overflow gives infinity. -/
def roundRat (neg : Bool) (num den : Nat) : F64 :=
  if num = 0 ∨ den = 0 then fin neg 0 (-1074) else
  let a : Int := Nat.log2 num
  let b : Int := Nat.log2 den
  let e1 : Int := a - b - 52
  let q1 := (scaleDiv num den e1).1
  let e2 : Int := if q1 ≥ 2 ^ 52 then e1 else e1 - 1
  let e : Int := if e2 < -1074 then -1074 else e2
  let (q, r, d) := scaleDiv num den e
  let up : Bool := decide (2 * r > d) || (decide (2 * r = d) && q % 2 == 1)
  let q' := if up then q + 1 else q
  let (m, e') : Nat × Int := if q' = 2 ^ 53 then (2 ^ 52, e + 1) else (q', e)
  if e' > 971 then inf neg else fin neg m e'

def ofNat (n : Nat) : F64 := roundRat false n 1

def ofInt (i : Int) : F64 :=
  if i < 0 then roundRat true i.natAbs 1 else roundRat false i.toNat 1

/-- The exact value of a finite double as `num / den`. -/
def toRat : F64 → Nat × Nat
  | fin _ m e => if 0 ≤ e then (m * 2 ^ e.toNat, 1) else (m, 2 ^ (-e).toNat)
  | _ => (0, 1)

def sign : F64 → Bool
  | fin s _ _ => s
  | inf s => s
  | nan => false

def neg : F64 → F64
  | fin s m e => fin (!s) m e
  | inf s => inf (!s)
  | nan => nan

def abs : F64 → F64
  | fin _ m e => fin false m e
  | inf _ => inf false
  | nan => nan

/-- `f.fract() == 0.0`: true exactly for finite integral values. -/
def fractIsZero : F64 → Bool
  | fin _ m e =>
    if m = 0 then true
    else if 0 ≤ e then true
    else m % 2 ^ (-e).toNat == 0
  | _ => false

/-- Compare magnitudes of two finite doubles (exact). -/
def cmpMag (a b : F64) : Ordering :=
  let (n1, d1) := a.toRat
  let (n2, d2) := b.toRat
  compare (n1 * d2) (n2 * d1)

/-- IEEE comparison `<` (false when either side is NaN; `-0 == +0`). -/
def lt (a b : F64) : Bool :=
  match a, b with
  | nan, _ => false
  | _, nan => false
  | inf s1, inf s2 => s1 && !s2
  | inf s, fin .. => s
  | fin .., inf s => !s
  | fin s1 m1 e1, fin s2 m2 e2 =>
    if m1 = 0 ∧ m2 = 0 then false
    else if m1 = 0 then !s2
    else if m2 = 0 then s1
    else match s1, s2 with
      | true, false => true
      | false, true => false
      | false, false => cmpMag (fin s1 m1 e1) (fin s2 m2 e2) == .lt
      | true, true => cmpMag (fin s1 m1 e1) (fin s2 m2 e2) == .gt

/-- IEEE `==`. -/
def eq (a b : F64) : Bool :=
  match a, b with
  | nan, _ => false
  | _, nan => false
  | inf s1, inf s2 => s1 == s2
  | fin s1 m1 e1, fin s2 m2 e2 =>
    if m1 = 0 ∧ m2 = 0 then true else s1 == s2 && m1 == m2 && e1 == e2
  | _, _ => false

def le (a b : F64) : Bool := lt a b || eq a b

/-- The 64 bit pattern (`f64::to_bits`).  NaN is the canonical quiet NaN. -/
def toBits : F64 → Nat
  | nan => 0x7ff8000000000000
  | inf s => (if s then 2 ^ 63 else 0) + 0x7ff0000000000000
  | fin s m e =>
    (if s then 2 ^ 63 else 0) +
      (if m < 2 ^ 52 then m else ((e + 1075).toNat) * 2 ^ 52 + (m - 2 ^ 52))

/-- `f64::total_cmp`: the bit patterns as sign-magnitude integers. -/
def totalKey (f : F64) : Int :=
  let b := f.toBits
  if b ≥ 2 ^ 63 then -((b - 2 ^ 63 : Nat) : Int) - 1 else (b : Int)

def totalCmp (a b : F64) : Ordering := compare a.totalKey b.totalKey

/-- `f as u64` (saturating, NaN ↦ 0, truncation toward zero). -/
def toU64 : F64 → Nat
  | nan => 0
  | inf s => if s then 0 else 2 ^ 64 - 1
  | fin s m e =>
    if s then 0 else
    let (n, d) := (fin s m e).toRat
    let q := n / d
    if q ≥ 2 ^ 64 then 2 ^ 64 - 1 else q

/-- `f as i64` (saturating, NaN ↦ 0, truncation toward zero). -/
def toI64 : F64 → Int
  | nan => 0
  | inf s => if s then -(2 ^ 63) else 2 ^ 63 - 1
  | fin s m e =>
    let (n, d) := (fin s m e).toRat
    let q : Int := n / d
    if s then (if q ≥ 2 ^ 63 then -(2 ^ 63) else -q)
    else (if q ≥ 2 ^ 63 then 2 ^ 63 - 1 else q)

/-! ### Arithmetic (exact rational result, then one rounding) -/

/-- Signed rational helper: `(neg, num, den)`. -/
def addRat (s1 : Bool) (n1 d1 : Nat) (s2 : Bool) (n2 d2 : Nat) : Bool × Nat × Nat :=
  let a := n1 * d2
  let b := n2 * d1
  let d := d1 * d2
  if s1 == s2 then (s1, a + b, d)
  else if a ≥ b then (s1, a - b, d) else (s2, b - a, d)

def add (a b : F64) : F64 :=
  match a, b with
  | nan, _ => nan
  | _, nan => nan
  | inf s1, inf s2 => if s1 == s2 then inf s1 else nan
  | inf s, _ => inf s
  | _, inf s => inf s
  | fin s1 m1 e1, fin s2 m2 e2 =>
    let (n1, d1) := (fin s1 m1 e1).toRat
    let (n2, d2) := (fin s2 m2 e2).toRat
    let (s, n, d) := addRat s1 n1 d1 s2 n2 d2
    if n = 0 then fin (s1 && s2) 0 (-1074)   -- exact zero: -0 only for (-0) + (-0)
    else roundRat s n d

def sub (a b : F64) : F64 := add a (neg b)

def mul (a b : F64) : F64 :=
  match a, b with
  | nan, _ => nan
  | _, nan => nan
  | inf s1, inf s2 => inf (s1 != s2)
  | inf s1, fin s2 m _ => if m = 0 then nan else inf (s1 != s2)
  | fin s1 m _, inf s2 => if m = 0 then nan else inf (s1 != s2)
  | fin s1 m1 e1, fin s2 m2 e2 =>
    let (n1, d1) := (fin s1 m1 e1).toRat
    let (n2, d2) := (fin s2 m2 e2).toRat
    roundRat (s1 != s2) (n1 * n2) (d1 * d2)

def div (a b : F64) : F64 :=
  match a, b with
  | nan, _ => nan
  | _, nan => nan
  | inf _, inf _ => nan
  | inf s1, fin s2 _ _ => inf (s1 != s2)
  | fin s1 _ _, inf s2 => fin (s1 != s2) 0 (-1074)
  | fin s1 m1 e1, fin s2 m2 e2 =>
    if m2 = 0 then (if m1 = 0 then nan else inf (s1 != s2))
    else
      let (n1, d1) := (fin s1 m1 e1).toRat
      let (n2, d2) := (fin s2 m2 e2).toRat
      roundRat (s1 != s2) (n1 * d2) (d1 * n2)

/-- `%` on `f64` (C `fmod`): exact, sign of the dividend. -/
def rem (a b : F64) : F64 :=
  match a, b with
  | nan, _ => nan
  | _, nan => nan
  | inf _, _ => nan
  | fin s m e, inf _ => fin s m e
  | fin s1 m1 e1, fin s2 m2 e2 =>
    if m2 = 0 then nan else
    let (n1, d1) := (fin s1 m1 e1).toRat
    let (n2, d2) := (fin s2 m2 e2).toRat
    -- a mod b = (n1*d2 mod n2*d1) / (d1*d2)
    let x := n1 * d2
    let y := n2 * d1
    let r := x % y
    if r = 0 then fin s1 0 (-1074) else roundRat s1 r (d1 * d2)

def floor : F64 → F64
  | fin s m e =>
    if (fin s m e).fractIsZero then fin s m e else
    let (n, d) := (fin s m e).toRat
    let q := n / d
    if s then roundRat true (q + 1) 1 else (if q = 0 then fin false 0 (-1074) else roundRat false q 1)
  | x => x

def ceil : F64 → F64
  | fin s m e =>
    if (fin s m e).fractIsZero then fin s m e else
    let (n, d) := (fin s m e).toRat
    let q := n / d
    if s then (if q = 0 then fin true 0 (-1074) else roundRat true q 1) else roundRat false (q + 1) 1
  | x => x

/-- `f64::round`: half away from zero. -/
def round : F64 → F64
  | fin s m e =>
    if (fin s m e).fractIsZero then fin s m e else
    let (n, d) := (fin s m e).toRat
    let q := (2 * n + d) / (2 * d)
    if q = 0 then fin s 0 (-1074) else roundRat s q 1
  | x => x

/-! ### Decimal → double (`str::parse::<f64>`) -/

def digitVal (c : Char) : Nat := c.toNat - '0'.toNat

def digitsToNat (ds : List Char) : Nat := ds.foldl (fun acc c => acc * 10 + digitVal c) 0

/-- `mant * 10^exp10` rounded to the nearest double; the guard keeps the powers
of ten bounded (anything above `10^400` is infinite, anything below `10^-400`
rounds to zero). -/
def ofDecimal (neg : Bool) (mant : Nat) (nd : Nat) (exp10 : Int) : F64 :=
  if mant = 0 then fin neg 0 (-1074)
  else if exp10 ≥ 0 then
    if exp10 > 400 then inf neg else roundRat neg (mant * 10 ^ exp10.toNat) 1
  else
    if (nd : Int) + exp10 < -400 then fin neg 0 (-1074)
    else roundRat neg mant (10 ^ (-exp10).toNat)

def takeDigits : List Char → List Char × List Char
  | [] => ([], [])
  | c :: cs => if c.isDigit then
      let (d, r) := takeDigits cs
      (c :: d, r)
    else ([], c :: cs)

/-- The grammar accepted by Rust's `f64::from_str` restricted to what jawk's
number reader can hand it: `[-]digits[.digits][(e|E)[+|-]digits]`, at least one
mantissa digit, and at least one exponent digit when the marker is present.
`none` = `ParseFloatError`. -/
def parseDecimal (s : List Char) : Option F64 :=
  let (neg, s) := match s with
    | '-' :: r => (true, r)
    | '+' :: r => (false, r)
    | r => (false, r)
  let (ip, s) := takeDigits s
  let (fp, s) := match s with
    | '.' :: r => takeDigits r
    | r => ([], r)
  if ip.isEmpty && fp.isEmpty then none else
  let mant := digitsToNat (ip ++ fp)
  let nd := (ip ++ fp).length
  match s with
  | [] => some (ofDecimal neg mant nd (-(fp.length : Int)))
  | c :: r =>
    if c = 'e' ∨ c = 'E' then
      let (eneg, r) := match r with
        | '-' :: t => (true, t)
        | '+' :: t => (false, t)
        | t => (false, t)
      let (ed, rest) := takeDigits r
      if ed.isEmpty || !rest.isEmpty then none else
      -- exponents beyond any representable magnitude are clamped before conversion
      let eabs := if ed.length > 8 then 100000000 else digitsToNat ed
      let ev : Int := if eneg then -(eabs : Int) else eabs
      some (ofDecimal neg mant nd (ev - (fp.length : Int)))
    else none

/-! ### Double → shortest decimal (`Display for f64`) -/

/-- is `num/den < 10^k` ? -/
def ltPow10 (num den : Nat) (k : Int) : Bool :=
  if 0 ≤ k then num < den * 10 ^ k.toNat else num * 10 ^ (-k).toNat < den

/-- smallest `k` with `num/den < 10^k`, searched around a logarithmic estimate. -/
def decExp (num den : Nat) : Int :=
  let a : Int := Nat.log2 num
  let b : Int := Nat.log2 den
  let k0 : Int := ((a - b) * 30103) / 100000
  -- move down while still an upper bound, then up while not
  let rec down (fuel : Nat) (k : Int) : Int :=
    match fuel with
    | 0 => k
    | f + 1 => if ltPow10 num den (k - 1) then down f (k - 1) else k
  let rec up (fuel : Nat) (k : Int) : Int :=
    match fuel with
    | 0 => k
    | f + 1 => if ltPow10 num den k then k else up f (k + 1)
  down 8 (up 8 k0)

/-- `⌊(num/den) / 10^p⌋` -/
def divPow10 (num den : Nat) (p : Int) : Nat :=
  if 0 ≤ p then num / (den * 10 ^ p.toNat) else (num * 10 ^ (-p).toNat) / den

/-- distance-compare helper: is `|v - lo*10^p|` ≤ `|hi*10^p - v|` where `v = num/den`? Returns
`.lt` if lo is closer, `.gt` if hi is closer, `.eq` on a tie. -/
def closer (num den lo hi : Nat) (p : Int) : Ordering :=
  -- compare 2*v with (lo+hi)*10^p
  if 0 ≤ p then compare (2 * num) ((lo + hi) * 10 ^ p.toNat * den)
  else compare (2 * num * 10 ^ (-p).toNat) ((lo + hi) * den)

def roundTrips (f : F64) (digits : Nat) (p : Int) : Bool :=
  let g := if 0 ≤ p then roundRat false (digits * 10 ^ p.toNat) 1
           else roundRat false digits (10 ^ (-p).toNat)
  match f.abs, g with
  | fin _ m e, fin _ m' e' => m == m' && e == e'
  | _, _ => false

/-- For `n = 1, 2, …` significant digits take the two neighbouring `n`-digit
decimals; the first `n` for which one of them parses back to `f` wins; between
two that do, the closer one (an exact tie goes up, as `flt2dec` does).  Result: digits and the
power of ten they are scaled by. -/
def shortestDigits (f : F64) : Option (Nat × Int) :=
  match f.abs with
  | fin _ m e =>
    if m = 0 then some (0, 0) else
    let (num, den) := (fin false m e).toRat
    let k := decExp num den
    let rec go (fuel : Nat) (n : Nat) : Option (Nat × Int) :=
      match fuel with
      | 0 => none
      | fuel + 1 =>
        let p : Int := k - n
        let lo := divPow10 num den p
        let hi := lo + 1
        let okLo := lo ≠ 0 && roundTrips f lo p
        let okHi := roundTrips f hi p
        if okLo && okHi then
          match closer num den lo hi p with
          | .lt => some (lo, p)
          | .gt => some (hi, p)
          | .eq => some (hi, p)   -- Rust's shortest-digit generation rounds an exact tie up
        else if okLo then some (lo, p)
        else if okHi then some (hi, p)
        else go fuel (n + 1)
    go 17 1
  | _ => none

/-- strip trailing zeros of the digit count, adjusting the exponent -/
def stripZeros : Nat → Nat → Int → Nat × Int
  | 0, d, p => (d, p)
  | fuel + 1, d, p => if d ≠ 0 ∧ d % 10 = 0 then stripZeros fuel (d / 10) (p + 1) else (d, p)

/-- Positional rendering without exponent, the way Rust's `{}` prints a float. -/
def render (neg : Bool) (digits : Nat) (p : Int) : List Char :=
  let (digits, p) := stripZeros 400 digits p
  let ds := Nat.toDigits 10 digits
  let body : List Char :=
    if digits = 0 then ['0']
    else if 0 ≤ p then ds ++ List.replicate p.toNat '0'
    else
      let fr := (-p).toNat
      if ds.length > fr then ds.take (ds.length - fr) ++ ['.'] ++ ds.drop (ds.length - fr)
      else ['0', '.'] ++ List.replicate (fr - ds.length) '0' ++ ds
  if neg then '-' :: body else body

/-- `format!("{}", f)`.  `none` only if the digit search fails (never observed;
hypothesis `H17` of the theorems that need totality). -/
def toDisplay? : F64 → Option (List Char)
  | nan => some "NaN".toList
  | inf s => some (if s then "-inf".toList else "inf".toList)
  | fin s m e =>
    match shortestDigits (fin s m e) with
    | some (d, p) => some (render s d p)
    | none => none

def toDisplay (f : F64) : List Char := (toDisplay? f).getD "<?>".toList

end F64
end Jawk
