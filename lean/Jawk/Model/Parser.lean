/-
  Model of `src/json_parser.rs`: one function per `read_*`, the same one-byte
  look-ahead discipline and the same error kinds.
-/
import Jawk.Model.Reader
namespace Jawk
open Reader

def byteToChar (b : Byte) : Char := Char.ofNat b.toNat

def locErr (mk : Loc → PErr) : PM α := fun r => (.error (mk r.loc), r)

/-- `read_reserved_word`: the first letter is the current byte. -/
def readWordTail (word : String) : List Byte → PM Unit
  | [] => do
    let _ ← next
    pure ()
  | e :: es => do
    match (← next) with
    | some ch =>
      if ch ≠ e then locErr (fun l => .incompleteWord l word ch e)
      else readWordTail word es
    | none => locErr .unexpectedEof

def hexVal (c : Byte) : Option Nat :=
  if 48 ≤ c && c ≤ 57 then some (c.toNat - 48)
  else if 97 ≤ c && c ≤ 102 then some (c.toNat - 97 + 10)
  else if 65 ≤ c && c ≤ 70 then some (c.toNat - 65 + 10)
  else none

def hexExpected : List Char := "0123456789abcdefABCDEF".toList

def readHex4 : Nat → Nat → PM Nat
  | 0, acc => pure acc
  | k + 1, acc => do
    match (← next) with
    | none => locErr .unexpectedEof
    | some c =>
      match hexVal c with
      | some d => readHex4 k (acc * 16 + d)
      | none => locErr (fun l => .unexpectedChar l c hexExpected)

/-- `char::from_u32` -/
def charOfNat? (n : Nat) : Option Char :=
  if h : n.isValidChar then some ⟨n.toUInt32, by
    have := h
    simp [Nat.isValidChar] at this
    simp [UInt32.isValidChar, Nat.isValidChar]
    omega⟩ else none

def escapeExpected : List Char := ['"', '\\', '/', 'b', 'f', 'n', 'r', 't', 'u']

/-- the two-character escapes of `read_string` (everything but `\u`) -/
def simpleEscape (c : Byte) : Option Byte :=
  if c = 34 then some 34          -- \"
  else if c = 92 then some 92     -- \\
  else if c = 47 then some 47     -- \/
  else if c = 98 then some 8      -- \b
  else if c = 102 then some 12    -- \f
  else if c = 110 then some 10    -- \n
  else if c = 114 then some 13    -- \r
  else if c = 116 then some 9     -- \t
  else none

/-- `read_string`: the opening quote is the current byte. -/
def readStringLoop : Nat → List Byte → PM Str
  | 0, _ => PM.fail .outOfFuel
  | fuel + 1, acc => do
    match (← next) with
    | none => locErr .unexpectedEof
    | some c =>
      if c = 34 then do
        let _ ← next
        match utf8Decode? acc with
        | some s => pure s
        | none => locErr .utf8
      else if c = 92 then do
        match (← next) with
        | none => locErr .unexpectedEof
        | some e =>
          match simpleEscape e with
          | some b => readStringLoop fuel (acc ++ [b])
          | none =>
            if e = 117 then do
              let code ← readHex4 4 0
              match charOfNat? code with
              | some ch => readStringLoop fuel (acc ++ String.utf8EncodeChar ch)
              | none => locErr (fun l => .invalidHex l code)
            else locErr (fun l => .unexpectedChar l e escapeExpected)
      else readStringLoop fuel (acc ++ [c])

def bytesToStr (bs : List Byte) : Str := bs.map byteToChar

/-- `str::parse::<u64>` on ASCII digits: `none` = overflow (the only error
possible here: the text is a non-empty digit string). -/
def parseU64 (ds : List Byte) : Option Nat :=
  let n := F64.digitsToNat (bytesToStr ds)
  if n < 2 ^ 64 then some n else none

inductive I64Parse where
  | ok (i : Int)
  | overflow
  | invalid

/-- `str::parse::<i64>` on `-digits` -/
def parseI64Neg (ds : List Byte) : I64Parse :=
  if ds.isEmpty then .invalid else
  let n := F64.digitsToNat (bytesToStr ds)
  if n ≤ 2 ^ 63 then .ok (-(n : Int)) else .overflow

/-- `parse_to_double` -/
def parseToDouble (text : List Byte) : PM JV := do
  match F64.parseDecimal (bytesToStr text) with
  | none => locErr .parseFloat
  | some f =>
    if f.isFinite then pure (.num (Num.ofF64 f))
    else locErr (fun l => .infinite l (bytesToStr text))

/-- `read_number`: the first byte (`-` or a digit) is the current byte. -/
def readNumber (fuel : Nat) : PM JV := do
  let negative ← (do
    if (← peek) = some 45 then
      match (← next) with
      | none => locErr .unexpectedEof
      | some _ => pure true
    else pure false)
  let intDigits ← readDigits fuel []
  let chars : List Byte := (if negative then [45] else []) ++ intDigits
  let (chars, double) ← (do
    if (← peek) = some 46 then
      let _ ← next
      let fr ← readDigits fuel []
      pure (chars ++ [46] ++ fr, true)
    else pure (chars, false))
  let (chars, double) ← (do
    let p ← peek
    if p = some 101 ∨ p = some 69 then
      let _ ← next
      let chars := chars ++ [69]
      let chars ← (do
        match (← peek) with
        | some 45 => do
          let _ ← next
          pure (chars ++ [45])
        | some 43 => do
          let _ ← next
          pure chars
        | _ => pure chars)
      let ex ← readDigits fuel []
      pure (chars ++ ex, true)
    else pure (chars, double))
  if double then parseToDouble chars
  else if negative then
    match parseI64Neg intDigits with
    | .ok i => pure (.num (.neg i))
    | .overflow => parseToDouble chars
    | .invalid => locErr .parseInt
  else
    match parseU64 intDigits with
    | some n => pure (.num (.pos n))
    | none => parseToDouble chars

def valueExpected : List Char := ['n', 't', 'f', '"', '-', '[', '{'] ++ "0123456789".toList

mutual
/-- `next_json_value` -/
def nextValue : Nat → PM (Option JV)
  | 0 => PM.fail .outOfFuel
  | fuel + 1 => do
    eatWhitespace (fuel + 1)
    match (← peek) with
    | none => pure none
    | some c =>
      if c = 116 then do        -- t
        readWordTail "true" [114, 117, 101]
        pure (some (.bool true))
      else if c = 102 then do   -- f
        readWordTail "false" [97, 108, 115, 101]
        pure (some (.bool false))
      else if c = 110 then do   -- n
        readWordTail "null" [117, 108, 108]
        pure (some .null)
      else if c = 34 then do
        let s ← readStringLoop (fuel + 1) []
        pure (some (.str s))
      else if c = 45 || isDigit c then do
        let v ← readNumber (fuel + 1)
        pure (some v)
      else if c = 91 then do
        let v ← readArray fuel
        pure (some v)
      else if c = 123 then do
        let v ← readObject fuel
        pure (some v)
      else do
        let _ ← next
        locErr (fun l => .unexpectedChar l c valueExpected)

/-- `read_array`: `[` is the current byte -/
def readArray : Nat → PM JV
  | 0 => PM.fail .outOfFuel
  | fuel + 1 => do
    let _ ← next
    eatWhitespace (fuel + 1)
    if (← peek) = some 93 then
      let _ ← next
      pure (.arr [])
    else readArrayLoop fuel []

def readArrayLoop : Nat → List JV → PM JV
  | 0, _ => PM.fail .outOfFuel
  | fuel + 1, acc => do
    match (← nextValue fuel) with
    | none => locErr .unexpectedEof
    | some v =>
      let acc := acc ++ [v]
      eatWhitespace (fuel + 1)
      match (← peek) with
      | none => locErr .unexpectedEof
      | some ch =>
        if ch = 93 then do
          let _ ← next
          pure (.arr acc)
        else if ch = 44 then do
          let _ ← next
          readArrayLoop fuel acc
        else locErr (fun l => .unexpectedChar l ch [',', ']'])

/-- `read_object`: `{` is the current byte -/
def readObject : Nat → PM JV
  | 0 => PM.fail .outOfFuel
  | fuel + 1 => do
    let _ ← next
    eatWhitespace (fuel + 1)
    if (← peek) = some 125 then
      let _ ← next
      pure (.obj [])
    else readObjectLoop fuel []

def readObjectLoop : Nat → List (Str × JV) → PM JV
  | 0, _ => PM.fail .outOfFuel
  | fuel + 1, acc => do
    match (← nextValue fuel) with
    | none => locErr .unexpectedEof
    | some (.str key) =>
      eatWhitespace (fuel + 1)
      match (← peek) with
      | none => locErr .unexpectedEof
      | some ch =>
        if ch ≠ 58 then locErr (fun l => .unexpectedChar l ch [':'])
        else do
          let _ ← next
          match (← nextValue fuel) with
          | none => locErr .unexpectedEof
          | some v =>
            let acc := objInsert acc key v
            eatWhitespace (fuel + 1)
            match (← peek) with
            | none => locErr .unexpectedEof
            | some ch =>
              if ch = 125 then do
                let _ ← next
                pure (.obj acc)
              else if ch = 44 then do
                let _ ← next
                readObjectLoop fuel acc
              else locErr (fun l => .unexpectedChar l ch [',', '}'])
    | some other => locErr (fun l => .stringKeyMissing l other.typeName)
end

/-- `reader.next_json_value()` with fuel that is always sufficient -/
def Reader.nextJson (r : Reader) : Except PErr (Option JV) × Reader :=
  nextValue (4 * r.rest.length + 10) r

/-- `JsonValue::from_str` -/
def parseJsonStr (s : Str) : Except PErr JV :=
  let r := Reader.ofString s
  match r.nextJson with
  | (.ok (some v), _) => .ok v
  | (.ok none, r') => .error (.unexpectedEof r'.loc)
  | (.error e, _) => .error e

end Jawk
