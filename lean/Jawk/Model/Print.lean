/-
  Model of the printers in `src/output_style.rs` (JSON in three styles, text/CSV),
  and — because `Ord for JsonValue` compares objects through their printed
  text — of the total order and the hash feed of `src/json_value.rs`.
  Output is a `Str` (a Rust `String`); rows are turned into bytes by `utf8`.
-/
import Jawk.Model.Value
namespace Jawk

inductive JsonStyle where
  | oneLine | consise | pretty
  deriving DecidableEq, Repr, Inhabited

structure JsonOpts where
  style : JsonStyle := .oneLine
  utf8Strings : Bool := false
  deriving DecidableEq, Repr, Inhabited

def hexDigit (n : Nat) : Char :=
  if n < 10 then Char.ofNat (48 + n) else Char.ofNat (87 + n)

/-- `{:04x}`: lower-case hex, at least four digits -/
def hex4 (n : Nat) : Str :=
  let ds := (Nat.toDigits 16 n)
  List.replicate (4 - ds.length) '0' ++ ds

/-- the two-character escapes of `print_string` -/
def printEscape (c : Char) : Option Char :=
  if c = '"' then some '"'
  else if c = '\\' then some '\\'
  else if c = '/' then some '/'
  else if c = '\x08' then some 'b'
  else if c = '\x0c' then some 'f'
  else if c = '\n' then some 'n'
  else if c = '\r' then some 'r'
  else if c = '\t' then some 't'
  else none

def printChar (o : JsonOpts) (c : Char) : Str :=
  match printEscape c with
  | some e => ['\\', e]
  | none =>
    if (' ' ≤ c ∧ c ≤ '~') ∨ (o.utf8Strings ∧ '~' < c) then [c]
    else '\\' :: 'u' :: hex4 c.toNat

def printString (o : JsonOpts) (s : Str) : Str :=
  '"' :: s.flatMap (printChar o) ++ ['"']

def printNum : Num → Str
  | .pos n => Nat.toDigits 10 n
  | .neg i => if i < 0 then '-' :: Nat.toDigits 10 i.natAbs else Nat.toDigits 10 i.natAbs
  | .flt f => f.toDisplay

/-- `insert_indent` -/
def indentText (o : JsonOpts) (indent : Nat) : Str :=
  match o.style with
  | .pretty => '\n' :: (List.replicate indent [' ', ' ']).flatten
  | _ => []

def commaText (o : JsonOpts) : Str :=
  match o.style with
  | .oneLine => [',', ' ']
  | _ => [',']

def colonText (o : JsonOpts) : Str :=
  match o.style with
  | .consise => [':']
  | _ => [':', ' ']

mutual
/-- `print_something` / `print_*_with_indent` -/
def printJsonAt (o : JsonOpts) (indent : Nat) : JV → Str
  | .null => "null".toList
  | .bool true => "true".toList
  | .bool false => "false".toList
  | .num n => printNum n
  | .str s => printString o s
  | .arr [] => ['[', ']']
  | .arr (v :: vs) =>
    '[' :: printElems o (indent + 1) (v :: vs) ++ indentText o indent ++ [']']
  | .obj [] => ['{', '}']
  | .obj (kv :: kvs) =>
    '{' :: printMembers o (indent + 1) (kv :: kvs) ++ indentText o indent ++ ['}']
def printElems (o : JsonOpts) (indent : Nat) : List JV → Str
  | [] => []
  | [v] => indentText o indent ++ printJsonAt o indent v
  | v :: w :: vs =>
    indentText o indent ++ printJsonAt o indent v ++ commaText o ++ printElems o indent (w :: vs)
def printMembers (o : JsonOpts) (indent : Nat) : List (Str × JV) → Str
  | [] => []
  | [(k, v)] => indentText o indent ++ printString o k ++ colonText o ++ printJsonAt o indent v
  | (k, v) :: kv :: kvs =>
    indentText o indent ++ printString o k ++ colonText o ++ printJsonAt o indent v
      ++ commaText o ++ printMembers o indent (kv :: kvs)
end

def printJson (o : JsonOpts) (v : JV) : Str := printJsonAt o 0 v

/-- `impl Display for JsonValue`: one-line, ASCII -/
def JV.display (v : JV) : Str := printJson {} v

/-! ### Text / CSV printer -/

structure TextOpts where
  itemsSep : Str := ['\t']
  strPrefix : Str := []
  strPostfix : Str := []
  headers : Bool := false
  /-- `--escape-sequance` values, in order; each is `escaped char` followed by the replacement -/
  escapes : List Str := []
  nullKw : Str := "null".toList
  trueKw : Str := "true".toList
  falseKw : Str := "false".toList
  missingKw : Option Str := none
  deriving DecidableEq, Repr, Inhabited

/-- `HashMap<char, String>` built by inserting in order: the last entry for a character wins -/
def escapeLookup (escapes : List Str) (c : Char) : Option Str :=
  escapes.foldl (fun acc e =>
    match e with
    | c' :: rest => if c' = c then some rest else acc
    | [] => acc) none

def textString (o : TextOpts) (s : Str) : Str :=
  o.strPrefix ++ s.flatMap (fun c => match escapeLookup o.escapes c with
    | some r => r
    | none => [c]) ++ o.strPostfix

def textValue (o : TextOpts) : JV → Str
  | .null => o.nullKw
  | .bool true => o.trueKw
  | .bool false => o.falseKw
  | .num n => printNum n
  | .str s => textString o s
  | .arr vs => textString o (printJson { style := .consise, utf8Strings := true } (.arr vs))
  | .obj kvs => textString o (printJson { style := .consise, utf8Strings := true } (.obj kvs))

def textField (o : TextOpts) : Option JV → Str
  | none => o.missingKw.getD []
  | some v => textValue o v

/-! ### Order and hash feed -/

mutual
/-- `impl Ord for JsonValue` -/
def JV.cmp : JV → JV → Ordering
  | .null, .null => .eq
  | .bool a, .bool b => compare a.toNat b.toNat
  | .str a, .str b => cmpStr a b
  | .num a, .num b => Num.cmp a b
  | .arr a, .arr b => JV.cmpList a b
  | .obj a, .obj b =>
    match compare a.length b.length with
    | .eq =>
      match cmpStrList (sortStrs (a.map (·.1))) (sortStrs (b.map (·.1))) with
      | .eq => cmpStr (JV.display (.obj a)) (JV.display (.obj b))
      | o => o
    | o => o
  | a, b => compare a.rank b.rank
/-- `Vec<JsonValue>::cmp`: lexicographic -/
def JV.cmpList : List JV → List JV → Ordering
  | [], [] => .eq
  | [], _ :: _ => .lt
  | _ :: _, [] => .gt
  | x :: xs, y :: ys =>
    match JV.cmp x y with
    | .eq => JV.cmpList xs ys
    | o => o
end

/-- one word written to the `Hasher` -/
inductive HWord where
  | i8 (n : Int)
  | u64 (n : Nat)
  | i64 (n : Int)
  | bytes (bs : List Byte)     -- `str::hash`: the bytes followed by 0xff
  | len (n : Nat)              -- `Vec::hash` length prefix
  deriving DecidableEq, Repr

mutual
/-- the word sequence `impl Hash for JsonValue` feeds to the hasher -/
def JV.hashFeed : JV → List HWord
  | .null => [.i8 1]
  | .num (.flt f) => [.i8 2, .u64 f.toBits]
  | .num (.pos n) => [.i8 3, .u64 n]
  | .num (.neg i) => [.i8 4, .i64 i]
  | .str s => [.i8 5, .bytes (utf8 s)]
  | .arr vs => .i8 6 :: .len vs.length :: JV.hashFeedList vs
  | .obj kvs => .i8 7 :: JV.hashFeedMembers kvs
  | .bool true => [.i8 8]
  | .bool false => [.i8 9]
def JV.hashFeedList : List JV → List HWord
  | [] => []
  | v :: vs => JV.hashFeed v ++ JV.hashFeedList vs
def JV.hashFeedMembers : List (Str × JV) → List HWord
  | [] => []
  | (k, v) :: kvs => .bytes (utf8 k) :: JV.hashFeed v ++ JV.hashFeedMembers kvs
end

end Jawk
