/-
  Model of `std::io::Read::bytes` over any reader and of `src/reader.rs`.
-/
import Jawk.Model.Value
namespace Jawk

/-! ### `Read` as an event list (assumed std behaviour, see DESIGN §4) -/

/-- What successive `read` calls on the underlying `Read` return. -/
inductive ReadEvent where
  | data (bs : List Byte)     -- `Ok(n)` with `n = bs.length` (a short or full read); `[]` = `Ok(0)` = end of input
  | interrupted               -- `Err(ErrorKind::Interrupted)`
  | error                     -- any other `Err`
  deriving Repr, DecidableEq

/-- One item of `Bytes<R>`: a byte or the error that ended the stream. -/
inductive RItem where
  | byte (b : Byte)
  | err
  deriving Repr, DecidableEq, Inhabited

/-- `Bytes::next` over an event list: `Interrupted` is retried, `Ok(0)` ends the
stream, the first other error surfaces (afterwards the stream is not read again). -/
def bytesOf : List ReadEvent → List RItem
  | [] => []
  | .data [] :: _ => []
  | .data (b :: bs) :: rest => (b :: bs).map RItem.byte ++ bytesOf rest
  | .interrupted :: rest => bytesOf rest
  | .error :: _ => [RItem.err]

def cleanInput (bs : List Byte) : List RItem := bs.map RItem.byte

structure Loc where
  name : Option Str := none
  line : Nat := 1
  col : Nat := 1
  deriving Repr, DecidableEq, Inhabited

structure Reader where
  rest : List RItem
  cur : Option Byte := none
  eof : Bool := false
  loc : Loc := {}
  /-- ghost: number of items pulled from the underlying stream -/
  pulled : Nat := 0
  deriving Repr, Inhabited

/-- parser / reader errors (`JsonParserError`); `io` is the only unrecoverable one -/
inductive PErr where
  | io
  | utf8 (loc : Loc)
  | parseInt (loc : Loc)
  | parseFloat (loc : Loc)
  | infinite (loc : Loc) (text : Str)
  | incompleteWord (loc : Loc) (word : String) (got : Byte) (expected : Byte)
  | unexpectedChar (loc : Loc) (got : Byte) (expected : List Char)
  | invalidHex (loc : Loc) (code : Nat)
  | unexpectedEof (loc : Loc)
  | stringKeyMissing (loc : Loc) (typeName : String)
  | outOfFuel
  deriving Repr, DecidableEq, Inhabited

def PErr.canRecover : PErr → Bool
  | .io => false
  | _ => true

/-- The parser monad: the reader is mutated even when an error is returned. -/
def PM (α : Type) := Reader → Except PErr α × Reader

instance : Monad PM where
  pure a := fun r => (.ok a, r)
  bind m f := fun r =>
    match m r with
    | (.ok a, r') => f a r'
    | (.error e, r') => (.error e, r')

def PM.fail {α} (e : PErr) : PM α := fun r => (.error e, r)
def PM.get : PM Reader := fun r => (.ok r, r)

namespace Reader

def ofItems (items : List RItem) (name : Option Str := none) : Reader :=
  { rest := items, loc := { name := name } }

def ofBytes (bs : List Byte) (name : Option Str := none) : Reader :=
  ofItems (cleanInput bs) name

/-- `from_string` names the reader after the first 32 bytes of the text, cut back
to a character boundary. -/
def truncName (s : Str) : Str :=
  let rec go (budget : Nat) : Str → Str
    | [] => []
    | c :: cs =>
      let n := (String.utf8EncodeChar c).length
      if n ≤ budget then c :: go (budget - n) cs else []
  go 32 s

/-- `from_string` -/
def ofString (s : Str) : Reader := ofBytes (utf8 s) (some (truncName s))

def next : PM (Option Byte) := fun r =>
  if r.eof then (.ok none, r) else
  match r.rest with
  | [] => (.ok none, { r with eof := true, cur := none })
  | .err :: rest => (.error .io, { r with rest := rest, pulled := r.pulled + 1 })
  | .byte b :: rest =>
    let loc := if b = 10 then { r.loc with line := r.loc.line + 1, col := 1 }
               else { r.loc with col := r.loc.col + 1 }
    (.ok (some b), { r with rest := rest, cur := some b, loc := loc, pulled := r.pulled + 1 })

def peek : PM (Option Byte) := fun r =>
  match r.cur with
  | some b => (.ok (some b), r)
  | none => next r

def whereAmI : PM Loc := fun r => (.ok r.loc, r)

def isWs (b : Byte) : Bool := b = 32 || b = 10 || b = 9 || b = 13

def isDigit (b : Byte) : Bool := 48 ≤ b && b ≤ 57

def eatWhitespace : Nat → PM Unit
  | 0 => PM.fail .outOfFuel
  | fuel + 1 => do
    match (← peek) with
    | some b =>
      if isWs b then
        (do let _ ← next; eatWhitespace fuel)
      else pure ()
    | none => pure ()

def readDigits : Nat → List Byte → PM (List Byte)
  | 0, _ => PM.fail .outOfFuel
  | fuel + 1, acc => do
    match (← peek) with
    | some b =>
      if isDigit b then
        (do let _ ← next; readDigits fuel (acc ++ [b]))
      else pure acc
    | none => pure acc

/-- fuel that is always enough for one loop over this reader -/
def fuel (r : Reader) : Nat := r.rest.length + 2

/-- what is still to be read, including the look-ahead byte -/
def pending (r : Reader) : List RItem :=
  (match r.cur with | some b => [RItem.byte b] | none => []) ++ r.rest

end Reader

def Loc.toText (l : Loc) : Str :=
  match l.name with
  | some n => n ++ [':'] ++ (Nat.toDigits 10 l.line) ++ [':'] ++ (Nat.toDigits 10 l.col)
  | none => (Nat.toDigits 10 l.line) ++ [':'] ++ (Nat.toDigits 10 l.col)

end Jawk
