/-
  Model of `Master::go`, `read_input`, `read_file` (`src/lib.rs`), of the option
  parsers (`Selection/Filter/Splitter/Grouper/Sorter/PreSet::from_str`,
  `OutputOptions::get_processor`) and of `main` (`src/main.rs`).
-/
import Jawk.Model.Stages
import Jawk.Generated.Presets
namespace Jawk

inductive OnError where
  | ignore | panic | stderr | stdout
  deriving Repr, DecidableEq, Inhabited

inductive OutStyle where
  | json | csv | text
  deriving Repr, DecidableEq, Inhabited

/-- the `Cli` record (clap yields it independently of argument order) -/
structure Cfg where
  onError : OnError := .ignore
  selects : List Str := []
  filter : Option Str := none
  split : Option Str := none
  /-- `--group-by E` = `some (some E)`, `--merge` / `--group-by` without value = `some none` -/
  group : Option (Option Str) := none
  sorts : List Str := []
  skip : Nat := 0
  take : Option Nat := none
  unique : Bool := false
  sets : List Str := []
  onlyObjectsAndArrays : Bool := false
  style : OutStyle := .json
  rowSep : Str := ['\n']
  /-- `some` iff at least one JSON output option was given -/
  jsonOpts : Option JsonOpts := none
  /-- `some` iff at least one text output option was given -/
  textOpts : Option TextOpts := none
  deriving Repr, Inhabited

def codesToStr (l : List Nat) : Str := l.map Char.ofNat

/-- `TextOutputOptions::csv()` — from the generated preset -/
def csvOpts : TextOpts :=
  let (sep, pre, post, headers, esc, nul, tru, fal, miss) := Generated.csvPresetCodes
  { itemsSep := codesToStr sep, strPrefix := codesToStr pre, strPostfix := codesToStr post,
    headers := headers, escapes := esc.map codesToStr, nullKw := codesToStr nul,
    trueKw := codesToStr tru, falseKw := codesToStr fal, missingKw := miss.map codesToStr }

/-- `OutputOptions::get_processor` -/
def buildSink (c : Cfg) : Except String SinkCfg :=
  match c.style with
  | .csv =>
    if c.jsonOpts.isSome then .error "JsonOptionsShouldNotBeHere"
    else if c.textOpts.isSome then .error "TextOptionsShouldNotBeHere"
    else .ok (.text csvOpts c.rowSep)
  | .text =>
    if c.jsonOpts.isSome then .error "JsonOptionsShouldNotBeHere"
    else .ok (.text (c.textOpts.getD {}) c.rowSep)
  | .json =>
    if c.textOpts.isSome then .error "TextOptionsShouldNotBeHere"
    else .ok (.json (c.jsonOpts.getD {}) c.rowSep)

def exprErrText (e : ExprErr) : String := (repr e).pretty

/-- `Filter/Splitter/Grouper::from_str` -/
def parseOptionExpr (s : Str) : Except String Expr :=
  match parseWholeExpr s with
  | .ok e => .ok e
  | .error e => .error (exprErrText e)

/-- read all remaining bytes (`read_to_eof`, and the name part of a selection) -/
def readRest : Nat → List Byte → EM (List Byte)
  | 0, _ => EM.fail .outOfFuel
  | fuel + 1, acc => do
    match (← liftP Reader.next) with
    | none => pure acc
    | some b => readRest fuel (acc ++ [b])

def readRestPeek : Nat → List Byte → EM (List Byte)
  | 0, _ => EM.fail .outOfFuel
  | fuel + 1, acc => do
    match (← liftP Reader.peek) with
    | none => pure acc
    | some b => do
      let _ ← liftP Reader.next
      readRestPeek fuel (acc ++ [b])

/-- `Selection::from_str`: `<getter>[=name]`; without a name the whole text is the name -/
def parseSelection (s : Str) : Except String (Str × Expr) :=
  let fuel := exprFuel s
  let m : EM (Str × Expr) := do
    liftP (Reader.eatWhitespace fuel)
    let e ← readGetter fuel
    liftP (Reader.eatWhitespace fuel)
    match (← liftP Reader.peek) with
    | some 61 => do
      let _ ← liftP Reader.next
      liftP (Reader.eatWhitespace fuel)
      let nb ← readRestPeek fuel []
      let name ← fromUtf8 nb
      pure (name, e)
    | some ch => do
      let l ← emLoc
      EM.fail (.expectingEquals l ch)
    | none => pure (s, e)
  match (m (Reader.ofString s)).1 with
  | .ok r => .ok r
  | .error e => .error (exprErrText e)

/-- `str::to_uppercase` on the letters that matter for `ASC` / `DESC` -/
def upperChar (c : Char) : Char :=
  if c.toNat = 0x17F then 'S' else c.toUpper

/-- the direction word after the getter: nothing or `ASC` = ascending, `DESC` = descending,
in any letter case; anything else is `UnknownOrder` -/
def directionOf (t : Str) : Except String Bool :=
  let dir := (trimStr t).map upperChar
  if dir = [] ∨ dir = "ASC".toList then .ok false
  else if dir = "DESC".toList then .ok true
  else .error "UnknownOrder"

/-- getter, then everything up to the end of the text (starting at the look-ahead byte) -/
def parseSorterParts (s : Str) : Except String (Expr × Str) :=
  let fuel := exprFuel s
  let m : EM (Expr × List Byte) := do
    liftP (Reader.eatWhitespace fuel)
    let e ← readGetter fuel
    let rest ← readRestPeek fuel []
    pure (e, rest)
  match (m (Reader.ofString s)).1 with
  | .error e => .error (exprErrText e)
  | .ok (e, rest) =>
    match utf8Decode? rest with
    | none => .error "utf8"
    | some t => .ok (e, t)

/-- `Sorter::from_str`: `<getter> [ASC|DESC]` -/
def parseSorter (s : Str) : Except String (Expr × Bool) :=
  match parseSorterParts s with
  | .error e => .error e
  | .ok (e, t) =>
    match directionOf t with
    | .error x => .error x
    | .ok desc => .ok (e, desc)

inductive PreSetVal where
  | macro_ (e : Expr)
  | value (v : JV)

/-- `PreSet::from_str`: `key=value` or `@key=macro` -/
def parsePreSet (orc : Oracles) (s : Str) : Except Fail (Str × PreSetVal) :=
  if !s.any (· = '=') then .error (.config "NoEqualsError") else
  let key := trimStr (s.takeWhile (· ≠ '='))
  let value := (s.dropWhile (· ≠ '=')).drop 1
  match parseWholeExprNoLeadWs value with
  | .error e => .error (.config e)
  | .ok e =>
    match key with
    | '@' :: name => if name.isEmpty then .error (.config "EmptyName") else .ok (name, .macro_ e)
    | _ =>
      match eval orc evalFuel e {} with
      | .error a => .error (.abort a)
      | .ok none => .error (.config "EmptyValue")
      | .ok (some v) => if key.isEmpty then .error (.config "EmptyName") else .ok (key, .value v)
where
  /-- `read_getter` (which eats leading blanks itself), then only white space -/
  parseWholeExprNoLeadWs (t : Str) : Except String Expr :=
    let fuel := exprFuel t
    let m : EM Expr := do
      let e ← readGetter fuel
      liftP (Reader.eatWhitespace fuel)
      match (← liftP Reader.peek) with
      | some ch => do
        let l ← emLoc
        EM.fail (.expectingEof l ch)
      | none => pure e
    match (m (Reader.ofString t)).1 with
    | .ok e => .ok e
    | .error e => .error (exprErrText e)

def cfgErr {α} (r : Except String α) : Except Fail α :=
  match r with
  | .ok a => .ok a
  | .error e => .error (.config e)

def mapRes {α β} (f : α → Except Fail β) : List α → Except Fail (List β)
  | [] => .ok []
  | x :: xs => do
    let y ← f x
    let ys ← mapRes f xs
    .ok (y :: ys)

structure Pipeline where
  cfgs : List StageCfg
  sts : List StageSt
  sink : SinkCfg
  sinkLen : Nat
  titles : List Str
  deriving Inhabited

/-- `Master::go` up to (not including) `process.start`: parse every option, assemble the
chain.  Stages are listed outermost first:
`preset → split → filter → selects → unique → sorters (last given outermost) → limiter → group|merge`. -/
def build (orc : Oracles) (c : Cfg) : Except Fail Pipeline := do
  let sink ← cfgErr (buildSink c)
  let groupStage : List StageCfg ← (match c.group with
    | some (some g) => do
      let e ← cfgErr (parseOptionExpr g)
      .ok [StageCfg.group e]
    | some none => .ok [StageCfg.merge]
    | none => .ok [])
  let limitStage : List StageCfg :=
    if c.skip = 0 ∧ c.take.isNone then [] else [.limit c.skip c.take]
  let sorters ← mapRes (fun s => cfgErr (parseSorter s)) c.sorts
  let maxSize : Option Nat := c.take.map (fun t => c.skip + t)
  -- first given = innermost = adjacent to the limiter = the only bounded one
  let sortStages : List (StageCfg × StageSt) :=
    (sorters.zipIdx.map (fun ((e, desc), i) =>
      (StageCfg.sort e desc, StageSt.sort [] (if i = 0 then maxSize else none)))).reverse
  let uniqueStage : List StageCfg := if c.unique then [.unique] else []
  let sels ← mapRes (fun s => cfgErr (parseSelection s)) c.selects.reverse
  let selStages : List StageCfg := sels.reverse.map (fun (n, e) => StageCfg.select n e)
  let filterStage : List StageCfg ← (match c.filter with
    | some f => do
      let e ← cfgErr (parseOptionExpr f)
      .ok [StageCfg.filter e]
    | none => .ok [])
  let splitStage : List StageCfg ← (match c.split with
    | some f => do
      let e ← cfgErr (parseOptionExpr f)
      .ok [StageCfg.split e]
    | none => .ok [])
  let presetStage : List StageCfg ← (if c.sets.isEmpty then .ok [] else do
    let ps ← mapRes (parsePreSet orc) c.sets
    let rec collect (vars : List (Str × JV)) (defs : List (Str × Expr)) :
        List (Str × PreSetVal) → Except Fail (List StageCfg)
      | [] => .ok [StageCfg.preset vars defs]
      | (k, .value v) :: rest =>
        if vars.any (·.1 = k) then .error (.config "DuplicateKeys") else collect (vars ++ [(k, v)]) defs rest
      | (k, .macro_ e) :: rest =>
        if defs.any (·.1 = k) then .error (.config "DuplicateKeys") else collect vars (defs ++ [(k, e)]) rest
    collect [] [] ps)
  let simple (l : List StageCfg) : List (StageCfg × StageSt) := l.map (fun s => (s, s.init none))
  let all : List (StageCfg × StageSt) :=
    simple presetStage ++ simple splitStage ++ simple filterStage ++ simple selStages ++
    simple uniqueStage ++ sortStages ++ simple limitStage ++ simple groupStage
  let cfgs := all.map (·.1)
  let titles := titlesAtSink cfgs []
  .ok { cfgs := cfgs, sts := all.map (·.2), sink := sink, sinkLen := titles.length, titles := titles }

/-! ### Error reports -/

def byteAsChar (b : Byte) : Char := Char.ofNat b.toNat

def joinChars (l : List Char) : Str := (l.map (fun c => [c])).intersperse [',', ' '] |>.flatten

/-- `Display for JsonParserError` (the UTF-8 error detail is replaced by a token) -/
def PErr.text : PErr → Str
  | .io => "<io>".toList
  | .utf8 l => l.toText ++ ": <utf8>".toList
  | .parseInt l => l.toText ++ ": invalid digit found in string".toList
  | .parseFloat l => l.toText ++ ": invalid float literal".toList
  | .infinite l t => l.toText ++ ": Unsupported number: ".toList ++ t
  | .incompleteWord l w g e =>
    l.toText ++ ": Reserved word '".toList ++ w.toList ++ "' started but was not completed, got '".toList
      ++ [byteAsChar g] ++ "', should have been '".toList ++ [byteAsChar e] ++ "'".toList
  | .unexpectedChar l g ex =>
    l.toText ++ ": Got character '".toList ++ [byteAsChar g] ++ "', expecting one of [".toList
      ++ joinChars ex ++ "]".toList
  | .invalidHex l c =>
    let h := Nat.toDigits 16 c
    l.toText ++ ": unkonw character with hex: 0x".toList ++ List.replicate (2 - h.length) '0' ++ h
  | .unexpectedEof l => l.toText ++ ": Unexpected end of file".toList
  | .stringKeyMissing l t => l.toText ++ ": Only string keys are supported, not keys of type: ".toList ++ t.toList
  | .outOfFuel => "<out-of-fuel>".toList

def reportBytes (e : PErr) : List Byte := utf8 ("error:".toList ++ e.text ++ ['\n'])

/-! ### The read loop -/

structure RunState where
  sts : List StageSt
  out : Writer
  err : Writer
  index : Nat := 0
  /-- items pulled from each source opened so far (ghost, for C14/C17) -/
  pulled : List Nat := []
  deriving Inhabited

/-- how a run ends: the final state and `ok`, an error return, or an abort -/
structure RunEnd where
  result : Except Fail Unit
  st : RunState
  deriving Inhabited

variable (orc : Oracles)

/-- `read_input` on one reader.  Fuel: one unit per iteration; every iteration consumes
at least one byte or ends the loop, so `pending + 2` always suffices. -/
def readLoop (c : Cfg) (p : Pipeline) : Nat → Reader → Nat → RunState → Except RunEnd (RunState × Reader × Decision)
  | 0, _, _, s => .error ⟨.error (.json .outOfFuel), s⟩
  | fuel + 1, r, inFile, s =>
    let started := r.loc
    match r.nextJson with
    | (.ok (some v), r') =>
      if c.onlyObjectsAndArrays && !v.isObjOrArr then readLoop c p fuel r' inFile s
      else
        let ctx : Ctx := { input := v,
                           ictx := some { startLoc := started, endLoc := r'.loc,
                                          fileIndex := inFile, index := s.index } }
        match process orc p.sink p.sinkLen p.cfgs s.sts s.out ctx with
        | .error f => .error ⟨.error f.kind, { s with out := f.w, pulled := s.pulled ++ [r'.pulled] }⟩
        | .ok (ps, .brk) => .ok ({ s with sts := ps.sts, out := ps.w }, r', .brk)
        | .ok (ps, .cont) =>
          readLoop c p fuel r' (inFile + 1) { s with sts := ps.sts, out := ps.w, index := s.index + 1 }
    | (.ok none, r') => .ok (s, r', .cont)
    | (.error e, r') =>
      let s' := { s with pulled := s.pulled ++ [r'.pulled] }
      if !e.canRecover then .error ⟨.error .io, s'⟩
      else match c.onError with
        | .ignore => readLoop c p fuel r' inFile s
        | .panic => .error ⟨.error (.json e), s'⟩
        | .stdout =>
          let w := s.out.put (reportBytes e)
          if w.failed then .error ⟨.error .io, { s' with out := w }⟩
          else readLoop c p fuel r' inFile { s with out := w }
        | .stderr =>
          let w := s.err.put (reportBytes e)
          if w.failed then .error ⟨.error .io, { s' with err := w }⟩
          else readLoop c p fuel r' inFile { s with err := w }

/-- an input source: stdin (`none`) or a named file, as the items its `Bytes` iterator yields -/
structure Source where
  name : Option Str
  items : List RItem
  deriving Inhabited

/-- the file loop: stop after the file in which the pipeline answered `Break` -/
def readSources (c : Cfg) (p : Pipeline) : List Source → RunState → Except RunEnd RunState
  | [], s => .ok s
  | src :: rest, s =>
    let r := Reader.ofItems src.items src.name
    match readLoop orc c p (src.items.length + 2) r 0 s with
    | .error e => .error e
    | .ok (s', r', d) =>
      let s'' := { s' with pulled := s'.pulled ++ [r'.pulled] }
      if d = .brk then .ok s'' else readSources c p rest s''

structure RunResult where
  result : Except Fail Unit
  stdout : List Byte
  stderr : List Byte
  /-- items pulled from each source that was opened, in order -/
  pulled : List Nat
  deriving Inhabited

def RunEnd.toResult (e : RunEnd) : RunResult :=
  { result := e.result, stdout := e.st.out.out, stderr := e.st.err.out, pulled := e.st.pulled }

/-- `go`: build, start, read, complete.  `wOut`/`wErr` are the two writers.  Nothing is
read and nothing is written unless `build` succeeded. -/
def run (c : Cfg) (sources : List Source) (wOut wErr : Writer) : RunResult :=
  match build orc c with
  | .error f => { result := .error f, stdout := wOut.out, stderr := wErr.out, pulled := [] }
  | .ok p =>
    match sinkStart p.sink p.titles wOut with
    | .error f => { result := .error f.kind, stdout := f.w.out, stderr := wErr.out, pulled := [] }
    | .ok w0 =>
      let s0 : RunState := { sts := p.sts, out := w0, err := wErr }
      match readSources orc c p sources s0 with
      | .error e => e.toResult
      | .ok s =>
        match complete orc p.sink p.sinkLen p.cfgs s.sts s.out with
        | .error f => { result := .error f.kind, stdout := f.w.out, stderr := s.err.out, pulled := s.pulled }
        | .ok w => { result := .ok (), stdout := w.out, stderr := s.err.out, pulled := s.pulled }

/-! ### `main` -/

structure ExitOutcome where
  code : Int
  fd1 : List Byte
  fd2 : List Byte
  deriving Inhabited

def Fail.text : Fail → Str
  | .io => "<io error>".toList
  | .json e => e.text
  | .invalidInput => "Missing headers. This output style must have selection and can no group by".toList
  | .config w => w.toList
  | .abort _ => "<abort>".toList

/-- `src/main.rs`: `go(cli, stdout, stderr, stdin)`; on `Err` print it to stderr and exit `-1`.
`fd1`/`fd2` are the process's two descriptors. -/
def mainModel (c : Cfg) (sources : List Source) (fd1 fd2 : Writer) : ExitOutcome :=
  let r := run orc c sources fd1 fd2
  match r.result with
  | .ok () => { code := 0, fd1 := r.stdout, fd2 := r.stderr }
  | .error f => { code := 255, fd1 := r.stdout, fd2 := r.stderr ++ utf8 (f.text ++ ['\n']) }

end Jawk
