/-
  Model of the `Process` chain: `pre_sets, splitter, filter, selection,
  duplication_remover, sorters, limits, grouper, merger` and the two output
  processes of `output_style.rs`.

  A pipeline is a static list of stage descriptions (`StageCfg`), a list of
  stage states of the same length (`StageSt`) and the sink.  `process`,
  `complete` are structurally recursive on the static list.
-/
import Jawk.Model.Eval
namespace Jawk

/-! ### Writers -/

/-- A `dyn Write` that accepts `room` more bytes (`none` = unbounded) and then fails. -/
structure Writer where
  out : List Byte := []
  room : Option Nat := none
  failed : Bool := false
  deriving Repr, Inhabited

/-- `write_all`: the bytes before the failing offset are written, then the error is returned -/
def Writer.put (w : Writer) (bs : List Byte) : Writer :=
  if w.failed then w else
  match w.room with
  | none => { w with out := w.out ++ bs }
  | some k =>
    if bs.length ≤ k then { w with out := w.out ++ bs, room := some (k - bs.length) }
    else { w with out := w.out ++ bs.take k, room := some 0, failed := true }

/-- why a run stops with an error (or worse) -/
inductive Fail where
  | io                         -- read or write failure
  | json (e : PErr)            -- `--on-error panic`, or an unrecoverable reader error
  | invalidInput               -- `ProcessError::InvalidInputError` (csv without titles)
  | config (what : String)     -- any error while building the pipeline
  | abort (a : Abort)          -- panic / runaway recursion: NOT an error return
  deriving Repr, Inhabited

/-- a failure inside the running pipeline, with the output writer as it was at that point
(what had been written before the failure stays written) -/
structure Failure where
  kind : Fail
  w : Writer
  deriving Inhabited

abbrev Res (α : Type) := Except Failure α

inductive Decision where
  | cont | brk
  deriving Repr, DecidableEq, Inhabited

/-! ### Static description and state of the stages -/

inductive SinkCfg where
  | json (opts : JsonOpts) (rowSep : Str)
  | text (opts : TextOpts) (rowSep : Str)
  deriving Repr, Inhabited

inductive StageCfg where
  | preset (vars : List (Str × JV)) (defs : List (Str × Expr))
  | split (e : Expr)
  | filter (e : Expr)
  | select (name : Str) (e : Expr)
  | unique
  | sort (key : Expr) (desc : Bool)
  | limit (skip : Nat) (take : Option Nat)
  | group (e : Expr)
  | merge
  deriving Inhabited

/-- `BTreeMap<JsonValue, VecDeque<Context>>`: buckets in ascending key order; keys that
compare `Equal` share a bucket; inside a bucket the newest row is first (`push_front`). -/
abbrev Buckets := List (JV × List Ctx)

inductive StageSt where
  | none
  | unique (seen : List CtxKey)
  | sort (data : Buckets) (spaceLeft : Option Nat)
  | limit (skipped passed : Nat)
  | group (data : List (Str × List JV))
  | merge (data : List JV)
  deriving Inhabited

def StageCfg.init (maxSize : Option Nat) : StageCfg → StageSt
  | .unique => .unique []
  | .sort _ _ => .sort [] maxSize
  | .limit _ _ => .limit 0 0
  | .group _ => .group []
  | .merge => .merge []
  | _ => .none

/-! ### Set membership of `--unique` -/

def optFeed : Option JV → List HWord
  | none => [.i8 0]            -- `Option::hash`: discriminant
  | some v => .i8 1 :: v.hashFeed

def CtxKey.feed : CtxKey → List HWord
  | .value v => .i8 0 :: v.hashFeed
  | .results rs => .i8 1 :: .len rs.length :: rs.flatMap optFeed

def optBeq : Option JV → Option JV → Bool
  | none, none => true
  | some a, some b => JV.beq a b
  | _, _ => false

def listOptBeq : List (Option JV) → List (Option JV) → Bool
  | [], [] => true
  | a :: as, b :: bs => optBeq a b && listOptBeq as bs
  | _, _ => false

def CtxKey.beq : CtxKey → CtxKey → Bool
  | .value a, .value b => JV.beq a b
  | .results a, .results b => listOptBeq a b
  | _, _ => false

/-- `HashSet` lookup: same hash feed (the hasher is assumed injective on the feeds of
a run) and `==` -/
def CtxKey.same (a b : CtxKey) : Bool := decide (a.feed = b.feed) && a.beq b

/-! ### The bucket map of the sorter -/

/-- `data.entry(key).or_default().push_front(ctx)` -/
def bucketInsert (key : JV) (ctx : Ctx) : Buckets → Buckets
  | [] => [(key, [ctx])]
  | (k, q) :: rest =>
    match JV.cmp key k with
    | .lt => (key, [ctx]) :: (k, q) :: rest
    | .eq => (k, ctx :: q) :: rest
    | .gt => (k, q) :: bucketInsert key ctx rest

/-- `remove_last_item` for ASC: drop the newest row of the last bucket -/
def dropNewestOfLast : Buckets → Buckets
  | [] => []
  | [(k, q)] => match q.drop 1 with
    | [] => []
    | q' => [(k, q')]
  | b :: rest => b :: dropNewestOfLast rest

/-- `remove_last_item` for DESC: drop the newest row of the first bucket -/
def dropNewestOfFirst : Buckets → Buckets
  | [] => []
  | (k, q) :: rest => match q.drop 1 with
    | [] => rest
    | q' => (k, q') :: rest

/-- `SortProcess::process` on a row whose key is `k`: insert; when no space is left, drop the
row that sorts last (`remove_last_item`); otherwise count the space down -/
def sortStep (desc : Bool) (k : JV) (ctx : Ctx) : Buckets × Option Nat → Buckets × Option Nat
  | (data, space) =>
    let data' := bucketInsert k ctx data
    match space with
    | some 0 => (if desc then dropNewestOfFirst data' else dropNewestOfLast data', some 0)
    | some (n + 1) => (data', some n)
    | none => (data', none)

/-- the rows in the order `complete` emits them (`pop_back` = oldest first) -/
def bucketsEmit (desc : Bool) (data : Buckets) : List Ctx :=
  let ordered := if desc then data.reverse else data
  ordered.flatMap (fun b => b.2.reverse)

/-- `entry(key).or_default().push(value)` on `IndexMap<String, Vec<JsonValue>>` -/
def groupInsert (key : Str) (v : JV) : List (Str × List JV) → List (Str × List JV)
  | [] => [(key, [v])]
  | (k, vs) :: rest => if k = key then (k, vs ++ [v]) :: rest else (k, vs) :: groupInsert key v rest

/-! ### The sink -/

def rowBytes (s : Str) : List Byte := utf8 s

/-- `print_list` -/
def textRow (o : TextOpts) (rowSep : Str) (length : Nat) (vals : List (Option JV)) : List (List Byte) :=
  (vals.zipIdx.flatMap (fun (v, i) =>
    [rowBytes (textField o v)] ++ (if i + 1 < length then [rowBytes o.itemsSep] else [])))
    ++ [rowBytes rowSep]

def putAll (w : Writer) (chunks : List (List Byte)) : Writer := chunks.foldl Writer.put w

def wres (w : Writer) : Res Writer := if w.failed then .error ⟨.io, w⟩ else .ok w

/-- `JsonProcess::process` / `TextProcess::process` (`length` = number of titles at the sink) -/
def sinkProcess (s : SinkCfg) (length : Nat) (w : Writer) (ctx : Ctx) : Res Writer :=
  match s with
  | .json o sep => wres (putAll w [rowBytes (printJson o ctx.build), rowBytes sep])
  | .text o sep =>
    if length ≠ 0 then wres (putAll w (textRow o sep length ctx.toList))
    else wres (putAll w [rowBytes (textValue o ctx.input), rowBytes sep])

/-- `start` of the output process: the header row -/
def sinkStart (s : SinkCfg) (titles : List Str) (w : Writer) : Res Writer :=
  match s with
  | .json _ _ => .ok w
  | .text o sep =>
    if o.headers then
      if titles.length > 0 then
        wres (putAll w (textRow o sep titles.length (titles.map (fun t => some (JV.str t)))))
      else .error ⟨.invalidInput, w⟩
    else .ok w

/-- titles that reach the sink (`Titles` threaded through `start`) -/
def titlesAtSink : List StageCfg → List Str → List Str
  | [], ts => ts
  | .select name _ :: rest, ts => titlesAtSink rest (ts ++ [name])
  | .group _ :: rest, _ => titlesAtSink rest []
  | .merge :: rest, _ => titlesAtSink rest []
  | _ :: rest, ts => titlesAtSink rest ts

/-! ### process / complete -/

structure PState where
  sts : List StageSt
  w : Writer
  deriving Inhabited

def liftR {α} (w : Writer) (r : Except Abort α) : Res α :=
  match r with
  | .ok a => .ok a
  | .error a => .error ⟨.abort a, w⟩

/-- feed a list of contexts to `next`, ignoring its decision (the sorter's `complete`) -/
def feedAllIgnoring (next : List StageSt → Writer → Ctx → Res (PState × Decision))
    (sts : List StageSt) (w : Writer) : List Ctx → Res PState
  | [] => .ok ⟨sts, w⟩
  | c :: cs => do
    let (p, _) ← next sts w c
    feedAllIgnoring next p.sts p.w cs

/-- the splitter's loop: stop at the first `Break` -/
def feedUntilBreak (next : List StageSt → Writer → Ctx → Res (PState × Decision))
    (sts : List StageSt) (w : Writer) : List Ctx → Res (PState × Decision)
  | [] => .ok (⟨sts, w⟩, .cont)
  | c :: cs => do
    let (p, d) ← next sts w c
    if d = .brk then .ok (p, .brk) else feedUntilBreak next p.sts p.w cs

variable (orc : Oracles) (sink : SinkCfg) (sinkLen : Nat)

def evalE (w : Writer) (e : Expr) (ctx : Ctx) : Res (Option JV) := liftR w (eval orc evalFuel e ctx)

/-- `Process::process` for the chain `cfgs` with states `sts`, then the sink -/
def process : (cfgs : List StageCfg) → List StageSt → Writer → Ctx → Res (PState × Decision)
  | [], _, w, ctx => do
    let w' ← sinkProcess sink sinkLen w ctx
    .ok (⟨[], w'⟩, .cont)
  | _ :: _, [], w, _ => .error ⟨.config "stage state missing", w⟩
  | c :: cs, st :: sts, w, ctx =>
    let pass (st' : StageSt) (r : Res (PState × Decision)) : Res (PState × Decision) := do
      let (p, d) ← r
      .ok (⟨st' :: p.sts, p.w⟩, d)
    let stay (st' : StageSt) : Res (PState × Decision) := .ok (⟨st' :: sts, w⟩, .cont)
    match c with
    | .preset vars defs =>
      pass st (process cs sts w ((ctx.withVariables vars).withDefinitions defs))
    | .split e => do
      match (← evalE orc w e ctx) with
      | some (.arr l) => pass st (feedUntilBreak (process cs) sts w (l.map ctx.withInput))
      | _ => stay st
    | .filter e => do
      match (← evalE orc w e ctx) with
      | some (.bool true) => pass st (process cs sts w ctx)
      | _ => stay st
    | .select name e => do
      let r ← evalE orc w e ctx
      pass st (process cs sts w (ctx.withResult name r))
    | .unique =>
      match st with
      | .unique seen =>
        let k := ctx.key
        if seen.any (fun s => CtxKey.same s k) then stay st
        else pass (.unique (seen ++ [k])) (process cs sts w ctx)
      | _ => .error ⟨.config "bad state", w⟩
    | .sort key desc =>
      match st with
      | .sort data space => do
        match (← evalE orc w key ctx) with
        | some k =>
          let (data', space') := sortStep desc k ctx (data, space)
          stay (.sort data' space')
        | none => stay st
      | _ => .error ⟨.config "bad state", w⟩
    | .limit skip take =>
      match st with
      | .limit skipped passed =>
        if skipped < skip then stay (.limit (skipped + 1) passed)
        else match take with
          | some limit =>
            if passed ≥ limit then .ok (⟨st :: sts, w⟩, .brk)
            else do
              let (p, _) ← process cs sts w ctx
              let passed' := passed + 1
              .ok (⟨.limit skipped passed' :: p.sts, p.w⟩, if passed' ≥ limit then .brk else .cont)
          | none => pass st (process cs sts w ctx)
      | _ => .error ⟨.config "bad state", w⟩
    | .group e =>
      match st with
      | .group data => do
        match (← evalE orc w e ctx) with
        | some (.str key) => stay (.group (groupInsert key ctx.build data))
        | _ => stay st
      | _ => .error ⟨.config "bad state", w⟩
    | .merge =>
      match st with
      | .merge data => stay (.merge (data ++ [ctx.build]))
      | _ => .error ⟨.config "bad state", w⟩

/-- `Process::complete` -/
def complete : (cfgs : List StageCfg) → List StageSt → Writer → Res Writer
  | [], _, w => .ok w
  | _ :: _, [], w => .error ⟨.config "stage state missing", w⟩
  | c :: cs, st :: sts, w =>
    match c, st with
    | .sort _ desc, .sort data _ => do
      let p ← feedAllIgnoring (process orc sink sinkLen cs) sts w (bucketsEmit desc data)
      complete cs p.sts p.w
    | .group _, .group data => do
      -- emits the object; `next.complete()` is not called (the successor is the printer)
      let v := JV.obj (data.map (fun (k, vs) => (k, JV.arr vs)))
      let (p, _) ← process orc sink sinkLen cs sts w { input := v }
      .ok p.w
    | .merge, .merge data => do
      let (p, _) ← process orc sink sinkLen cs sts w { input := .arr data }
      .ok p.w
    | _, _ => complete cs sts w

end Jawk
