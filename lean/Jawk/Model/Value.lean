/-
  Model of `src/json_value.rs`: the value type, the number representation,
  `From<f64>`, equality (`PartialEq`), the total order (`Ord`) and the word
  sequence fed to the hasher (`Hash`).
-/
import Jawk.Model.F64
namespace Jawk

abbrev Byte := UInt8
/-- A Rust `String`: a list of Unicode scalar values. -/
abbrev Str := List Char

/-- UTF-8 encoding of a string (`String::as_bytes`). -/
def utf8 (s : Str) : List Byte := s.flatMap String.utf8EncodeChar

/-- UTF-8 decoding (`String::from_utf8`); `none` on invalid input. -/
def utf8Decode? (bs : List Byte) : Option Str :=
  (ByteArray.utf8Decode? ⟨bs.toArray⟩).map Array.toList

/-- `NumberValue`.  Range invariants (`pos n`: `n < 2^64`; `neg i`: `-2^63 ≤ i ≤ 0`
is what the parser builds, `i64` in general) are the predicate `Num.WF`. -/
inductive Num where
  | pos (n : Nat)
  | neg (i : Int)
  | flt (f : F64)
  deriving DecidableEq, Repr, Inhabited

def Num.WF : Num → Prop
  | .pos n => n < 2 ^ 64
  | .neg i => -(2 ^ 63 : Int) ≤ i ∧ i < 2 ^ 63
  | .flt f => f.Canonical

/-- `JsonValue`.  Objects are insertion-ordered association lists with
`IndexMap::insert` semantics (see `objInsert`). -/
inductive JV where
  | null
  | bool (b : Bool)
  | str (s : Str)
  | num (n : Num)
  | obj (kvs : List (Str × JV))
  | arr (vs : List JV)
  deriving Repr, Inhabited

namespace Num

def toF64 : Num → F64
  | pos n => F64.ofNat n
  | neg i => F64.ofInt i
  | flt f => f

/-- `impl From<f64> for JsonValue` (the number part). -/
def ofF64 (f : F64) : Num :=
  if f.fractIsZero then
    if F64.le F64.zero f && F64.lt f (F64.ofNat (2 ^ 64 - 1)) then pos f.toU64
    else if F64.lt f F64.zero && F64.le (F64.ofInt (-(2 ^ 63))) f then neg f.toI64
    else flt f
  else flt f

/-- the hand-written `impl PartialEq for NumberValue` -/
def beq : Num → Num → Bool
  | flt a, flt b => F64.eq a b
  | flt a, neg b => a.fractIsZero && F64.le a F64.zero && F64.eq (F64.ofInt b) a
  | flt a, pos b => a.fractIsZero && F64.le F64.zero a && F64.eq (F64.ofNat b) a
  | neg a, flt b => b.fractIsZero && F64.le b F64.zero && F64.eq (F64.ofInt a) b
  | neg a, neg b => a == b
  | neg a, pos b => a == 0 && b == 0
  | pos a, flt b => b.fractIsZero && F64.le F64.zero b && F64.eq (F64.ofNat a) b
  | pos a, pos b => a == b
  | pos a, neg b => a == 0 && b == 0

/-- `impl Ord for NumberValue`: through `f64`, then `total_cmp`. -/
def cmp (a b : Num) : Ordering := F64.totalCmp a.toF64 b.toF64

end Num

/-- `IndexMap::insert`: replace in place when the key exists, append otherwise. -/
def objInsert (kvs : List (Str × JV)) (k : Str) (v : JV) : List (Str × JV) :=
  match kvs with
  | [] => [(k, v)]
  | (k', v') :: rest => if k' = k then (k, v) :: rest else (k', v') :: objInsert rest k v

def objGet? (kvs : List (Str × JV)) (k : Str) : Option JV :=
  match kvs with
  | [] => none
  | (k', v) :: rest => if k' = k then some v else objGet? rest k

def objOfList (kvs : List (Str × JV)) : List (Str × JV) :=
  kvs.foldl (fun acc kv => objInsert acc kv.1 kv.2) []

namespace JV

def typeName : JV → String
  | null => "null"
  | bool _ => "boolean"
  | str _ => "string"
  | num _ => "number"
  | obj _ => "object"
  | arr _ => "array"

/-- `inner_index`: the rank that orders values of different types. -/
def rank : JV → Nat
  | null => 0
  | bool _ => 1
  | str _ => 2
  | num _ => 3
  | obj _ => 4
  | arr _ => 5

def isObjOrArr : JV → Bool
  | obj _ => true
  | arr _ => true
  | _ => false

mutual
/-- Derived `PartialEq` on `JsonValue` with the hand-written `NumberValue` equality;
`IndexMap` equality ignores member order. -/
def beq : JV → JV → Bool
  | null, null => true
  | bool a, bool b => a == b
  | str a, str b => a == b
  | num a, num b => Num.beq a b
  | arr a, arr b => beqList a b
  | obj a, obj b => a.length == b.length && beqMembers a b
  | _, _ => false
def beqList : List JV → List JV → Bool
  | [], [] => true
  | x :: xs, y :: ys => beq x y && beqList xs ys
  | _, _ => false
/-- every member of `a` is found in `b` with an equal value -/
def beqMembers : List (Str × JV) → List (Str × JV) → Bool
  | [], _ => true
  | (k, v) :: rest, b => beqLookup k v b && beqMembers rest b
def beqLookup (k : Str) (v : JV) : List (Str × JV) → Bool
  | [] => false
  | (k', v') :: rest => if k' = k then beq v v' else beqLookup k v rest
end

end JV

/-- lexicographic comparison of strings = byte order of UTF-8 = code point order -/
def cmpStr : Str → Str → Ordering
  | [], [] => .eq
  | [], _ :: _ => .lt
  | _ :: _, [] => .gt
  | a :: as, b :: bs =>
    match compare a.toNat b.toNat with
    | .eq => cmpStr as bs
    | o => o

def cmpStrList : List Str → List Str → Ordering
  | [], [] => .eq
  | [], _ :: _ => .lt
  | _ :: _, [] => .gt
  | a :: as, b :: bs =>
    match cmpStr a b with
    | .eq => cmpStrList as bs
    | o => o

/-- insertion sort of strings (models `Vec<String>::sort`, any correct sort gives the same list) -/
def insertStr (s : Str) : List Str → List Str
  | [] => [s]
  | t :: ts => if cmpStr s t == .gt then t :: insertStr s ts else s :: t :: ts

def sortStrs (l : List Str) : List Str := l.foldr insertStr []

end Jawk
