/-
  C01 — stream fidelity: every input JSON value comes out once, in order, unchanged.

  Part 1 (this file, proved): for streams in jawk's own three output spellings (every style, both string
  modes, any white-space separators) successive reads return exactly the values, in order, then end of input
  (`canonical_stream_fidelity`); integer literals in [-2^63, 2^64) are read exactly; strings are read code
  point for code point (all two-character escapes, `\uXXXX`, raw UTF-8); the upper-case exponent is read
  (`1E2`, the repaired defect F1).
  Part 2 (proved, `Jawk/Spec/Json.lean` + `Jawk/Lemmas/ParseSer.lean`): the same for EVERY conforming
  serialisation: `Ser v bs` is the inductive relation "bs is an RFC 8259 text of v" — any insignificant
  white space, every escape spelling (raw UTF-8, the eight two-character escapes, `\uXXXX` in either case),
  every number spelling (`[-]int[.frac][(e|E)[+|-]digits]`; integer literals in range exact, everything
  else the correctly rounded double, normalised) — `parse_all_serialisations`, `stream_fidelity`.
  The strong reading for numbers — every spelling whose VALUE is an in-range integer is kept exactly — is
  false of model and code alike (known finding F2); its negation is proved below with the witness.
-/
import Jawk.Lemmas.RoundTrip
import Jawk.Lemmas.RunSpec
import Jawk.Lemmas.ParseSer
import Jawk.Props.Tables
import Jawk.Lemmas.Noise2
import Jawk.Lemmas.PrintSer
namespace Jawk.C01
open Jawk RT

/-- successive reads over a printed stream return exactly the values, in order, and then end of input:
nothing dropped, duplicated, split or merged -/
theorem canonical_stream_fidelity (o : JsonOpts) (sep : List Byte) (hsep : ∀ b ∈ sep, Reader.isWs b = true)
    (hne : sep ≠ []) (vs : List JV) (hvs : ∀ v ∈ vs, Printable o v) (name : Option Str) :
    ∃ r' r'', Reads (Reader.ofBytes (rowsText o sep vs) name) (vs.map norm) r' ∧
      r'.nextJson = (.ok none, r'') := rows_framed o sep hsep hne vs hvs name

/-- with no options the run prints one one-line JSON row per value read, in input order, nothing else, and
succeeds — for every list of sources and every byte content -/
theorem default_rows (orc : Oracles) (sources : List Source) (wOut wErr : Writer)
    (hw : Pipe.Unbounded wOut) (hcl : RunSpec.CleanIO sources) :
    (run orc {} sources wOut wErr).result = .ok ()
      ∧ (run orc {} sources wOut wErr).stdout
          = wOut.out ++ (RunSpec.ctxsOfSources {} sources 0).flatMap
              (fun ctx => utf8 (printJson {} ctx.input) ++ [10])
      ∧ (run orc {} sources wOut wErr).stderr = wErr.out := RunSpec.default_rows orc sources wOut wErr hw hcl

/-- a number in jawk's spelling is read back as the same number; in particular an integer literal in
[-2^63, 2^64) is read exactly, through `u64` / `i64`, never through a double -/
theorem number_exact (n : Num) (hn : NumPrintable n) (rest : List Byte) (hd : NumDelim rest)
    (r : Reader) (hr : Ready r (utf8 (printNum n) ++ rest)) (fuel : Nat) (hf : (utf8 (printNum n)).length < fuel) :
    ∃ r', readNumber fuel r = (.ok (.num (normNum n)), r') ∧ Peeked r' rest :=
  readNumber_printNum n hn rest hd r hr fuel hf

/-- strings come back code point for code point, whatever they contain -/
theorem string_exact (o : JsonOpts) (s : Str) (hs : StrOK o s) (rest : List Byte) (r : Reader)
    (b : Byte) (hr : At r b (strBody o s ++ 34 :: rest)) (fuel : Nat) (hf : (strBody o s).length < fuel) :
    ∃ r', readStringLoop fuel [] r = (.ok s, r') ∧ Ready r' rest := readString_print o s hs rest r b hr fuel hf

/-! concrete parser facts are checked by kernel evaluation (`decide +kernel`) through Boolean matchers,
since `JV` has no decidable equality -/
def isPos (r : Except PErr (Option JV)) (n : Nat) : Bool :=
  match r with
  | .ok (some (.num (.pos m))) => m == n
  | _ => false
def isStr (r : Except PErr (Option JV)) (s : Str) : Bool :=
  match r with
  | .ok (some (.str t)) => t == s
  | _ => false
def isEnd (r : Except PErr (Option JV)) : Bool :=
  match r with
  | .ok none => true
  | _ => false
def isNeg (r : Except PErr (Option JV)) (n : Int) : Bool :=
  match r with
  | .ok (some (.num (.neg m))) => m == n
  | _ => false
theorem isNeg_eq {r : Except PErr (Option JV)} {n : Int} (h : isNeg r n = true) : r = .ok (some (.num (.neg n))) := by
  unfold isNeg at h
  split at h
  · simp at h; subst h; rfl
  · exact absurd h (by decide)
theorem isPos_eq {r : Except PErr (Option JV)} {n : Nat} (h : isPos r n = true) : r = .ok (some (.num (.pos n))) := by
  unfold isPos at h; split at h <;> simp_all
theorem isStr_eq {r : Except PErr (Option JV)} {s : Str} (h : isStr r s = true) : r = .ok (some (.str s)) := by
  unfold isStr at h; split at h <;> simp_all
theorem isEnd_eq {r : Except PErr (Option JV)} (h : isEnd r = true) : r = .ok none := by
  unfold isEnd at h; split at h <;> simp_all

/-! ### every conforming serialisation -/

/-- MAIN: positioned before any white space, ANY conforming text of `v` (relation `Ser`), and any
continuation that does not extend a number, the parser returns exactly `v` and stops exactly after the text -/
theorem parse_all_serialisations {v : JV} {bs : List Byte} (h : Ser.Ser v bs) (rest : List Byte)
    (hd : Ser.Delimited v rest) (ws : List Byte) (hws : Ser.Ws ws) (r : Reader)
    (hr : Ready r (ws ++ bs ++ rest)) (fuel : Nat) (hf : Ser.fuelFor ws bs ≤ fuel) :
    ∃ r', nextValue fuel r = (.ok (some v), r') ∧ Ready r' rest := Ser.parse_ser h rest hd ws hws r hr fuel hf

/-- stream fidelity: for any sequence of values, each in any conforming spelling, separated by any white space
(nothing where two tokens may touch: only a number needs a delimiter), successive reads return exactly those
values, in order, and then end of input — none dropped, duplicated, split in two or merged with a neighbour -/
theorem stream_fidelity (lead : List Byte) (hlead : Ser.Ws lead) (items : List (JV × List Byte × List Byte))
    (h : Ser.StreamOK items) (name : Option Str) :
    ∃ r' r'', Reads (Reader.ofBytes (lead ++ Ser.streamText items) name) (items.map (·.1)) r' ∧
      r'.nextJson = (.ok none, r'') := Ser.stream_fidelity lead hlead items h name

/-- non-vacuity: `[ 1E2 ,⇥"a\u0041\n" , {"k" : [-0.5e-1, true], "" :{ }}⏎]` is a conforming text (exponent
spellings, an escaped string, nesting, arbitrary white space) of the value it should denote -/
theorem conforming_text_example : Ser.Ser Ser.exValue (utf8 Ser.exText.toList) := Ser.ex_ser

/-- the repaired defect F1: `1E2 3` is two values, `100` and `3` (upper-case exponent marker) -/
theorem upper_case_exponent :
    ((Reader.ofBytes [49, 69, 50, 32, 51]).nextJson).1 = .ok (some (.num (.pos 100))) ∧
    (((Reader.ofBytes [49, 69, 50, 32, 51]).nextJson).2.nextJson).1 = .ok (some (.num (.pos 3))) ∧
    ((((Reader.ofBytes [49, 69, 50, 32, 51]).nextJson).2.nextJson).2.nextJson).1 = .ok none :=
  ⟨isPos_eq (by decide +kernel), isPos_eq (by decide +kernel), isEnd_eq (by decide +kernel)⟩

/-- escape spellings denote the same string: the text `"` `\u0041` `\/` `\n` `"` is the string `A/⏎`;
touching tokens `""""` are two empty strings -/
theorem escape_spellings :
    (Reader.nextJson (Reader.ofBytes [34, 92, 117, 48, 48, 52, 49, 92, 47, 92, 110, 34])).1 = .ok (some (.str ['A', '/', '\n'])) ∧
    ((Reader.ofBytes [34, 34, 34, 34]).nextJson).1 = .ok (some (.str [])) ∧
    (((Reader.ofBytes [34, 34, 34, 34]).nextJson).2.nextJson).1 = .ok (some (.str [])) :=
  ⟨isStr_eq (by decide +kernel), isStr_eq (by decide +kernel), isStr_eq (by decide +kernel)⟩

/-- F2 (known finding), proved on the model and replayed on the binary by `bin/check C01`: an in-range integer
≥ 2^53 spelled with a fraction goes through a double — `9007199254740993.0` is read as `9007199254740992` -/
theorem integer_values_not_exact_when_spelled_as_decimal :
    (Reader.nextJson (Reader.ofBytes [57, 48, 48, 55, 49, 57, 57, 50, 53, 52, 55, 52, 48, 57, 57, 51, 46, 48])).1
      = .ok (some (.num (.pos 9007199254740992))) := isPos_eq (by decide +kernel)

/-- … while the integer LITERAL is exact -/
theorem integer_literal_exact :
    (Reader.nextJson (Reader.ofBytes [57, 48, 48, 55, 49, 57, 57, 50, 53, 52, 55, 52, 48, 57, 57, 51])).1
      = .ok (some (.num (.pos 9007199254740993))) := isPos_eq (by decide +kernel)

/-! ### the lower end of the integer range (finding F24, repaired) -/

/-- the double −2^63 is an integer of the property's range `[-2^63, 2^64)`: `From<f64>` makes it the integer
(the comparison with `i64::MIN` used to be strict, so the value stayed a double and was printed as
`-9223372036854776000`) -/
theorem min_i64_double_is_integer : Num.ofF64 (F64.ofInt (-(2 ^ 63))) = .neg (-(2 ^ 63)) := by decide +kernel

/-- … so `-9223372036854775808.0` (the bytes below) is read as the integer −2^63 -/
theorem min_i64_spelled_with_fraction :
    (Reader.nextJson (Reader.ofBytes [45, 57, 50, 50, 51, 51, 55, 50, 48, 51, 54, 56, 53, 52, 55, 55, 53, 56, 48, 56, 46, 48])).1
      = .ok (some (.num (.neg (-(2 ^ 63))))) := isNeg_eq (by decide +kernel)

/-! ### non-vacuity -/
example (o : JsonOpts) : Printable o sample := sample_printable o

/-! ### end to end -/

/-- END TO END: for a stream of values, each in ANY conforming spelling, with any white space between them (and
even garbage in the gaps, which the default policy skips), jawk with no options succeeds, writes exactly one
one-line row per value, in input order — the printed text of that value followed by a line feed —, and nothing
on standard error: no value dropped, duplicated, split or merged -/
theorem end_to_end (orc : Oracles) (s : Noise2.StreamSpec2) (hs : s.OK) (wOut wErr : Writer)
    (hw : Pipe.Unbounded wOut) :
    (run orc {} [s.source] wOut wErr).result = .ok ()
    ∧ (run orc {} [s.source] wOut wErr).stdout
        = wOut.out ++ (s.items.map (·.v)).flatMap (fun v => utf8 (printJson {} v) ++ [10])
    ∧ (run orc {} [s.source] wOut wErr).stderr = wErr.out :=
  let h := Noise2.noise_default_same_output2 orc s hs wOut wErr hw
  ⟨h.1, h.2.2.1, h.2.2.2.2.1⟩

/-- … and each row denotes the same value: it is a conforming text (independent grammar `Ser`) of the value —
same structure and member order, strings code point for code point, numbers as read (`norm`: a `neg 0` is `0`) -/
theorem row_denotes_value (o : JsonOpts) (v : JV) (hv : Printable o v) :
    Ser.Ser (norm v) (utf8 (printJson o v)) := PrintSer.printJson_ser_printable o v hv

/-- non-vacuity of `end_to_end`: `{"a":1}x[1 , 2]@@ "s"#⏎1.5e3 $ true?` -/
example : (⟨none, {}, Noise2.exItems2⟩ : Noise2.StreamSpec2).OK := Noise2.exSpec_ok

end Jawk.C01
