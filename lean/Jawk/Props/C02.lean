/-
  C02 — every JSON output row is valid JSON for its value in all styles; a fixpoint.

  Theorems over the model of the JSON printer (`printJson`, three styles × `--utf8-strings`) and of
  jawk's own JSON parser (`nextValue`): the parser reads back exactly what the printer wrote, for every
  printable value, in every style; rows are framed by any white-space row separator; the three styles
  differ only in white space outside strings.  Helper lemmas: `Jawk/Lemmas/RoundTripLex.lean`,
  `Jawk/Lemmas/RoundTrip.lean`, `Jawk/Lemmas/F64RoundTrip.lean`.

  `Printable o v` (RT) is the exact domain: integers in range, object member names distinct, every float
  satisfies `FloatRT` (its shortest rendering parses back — proved in `F64RoundTrip.display_parse` whenever a
  rendering is found; totality of the 17-digit search was the classical hypothesis H17 and is now proved: `h17_holds`), and — the known
  finding F3 — without `--utf8-strings` no character above U+FFFF (`CharOK`): `printString` writes such a
  character as `\u` + FIVE hex digits, which reads back as a different string (witness proved below).
-/
import Jawk.Lemmas.Fixpoint
import Jawk.Lemmas.RoundTrip
import Jawk.Lemmas.F64RoundTrip
import Jawk.Lemmas.ParseSer
import Jawk.Lemmas.H17
import Jawk.Lemmas.PrintSer
import Jawk.Lemmas.Finite
import Jawk.Props.Tables
namespace Jawk.C02
open Jawk RT

/-- MAIN: positioned before the printed text of a printable value (any style, either string mode) followed by
anything that does not extend a number, the parser returns the value (`norm` only maps the unreachable
`neg 0 / neg i≥0` to `pos`) and stops exactly after it -/
theorem parse_print (o : JsonOpts) (v : JV) (hv : Printable o v) (rest : List Byte) (hd : Delim v rest)
    (r : Reader) (hr : r.pending = cleanInput (utf8 (printJson o v) ++ rest)) (hclean : r.eof = false)
    (fuel : Nat) (hf : fuelBound o v ≤ fuel) :
    ∃ r', nextValue fuel r = (.ok (some (norm v)), r') ∧ r'.pending = cleanInput rest ∧
      (r'.eof = false ∨ rest = []) := RT.parse_print o v hv rest hd r hr hclean fuel hf

/-- the same through `next_json_value` with its own fuel, after any white space -/
theorem nextJson_reads_printed (o : JsonOpts) (v : JV) (hv : Printable o v) (ws : List Byte)
    (hws : ∀ b ∈ ws, Reader.isWs b = true) (rest : List Byte) (hd : Delim v rest) (r : Reader)
    (hr : Ready r (ws ++ (utf8 (printJson o v) ++ rest))) :
    ∃ r', r.nextJson = (.ok (some (norm v)), r') ∧ Ready r' rest := RT.nextJson_print o v hv ws hws rest hd r hr

/-- rows are framed unambiguously: a whole output (any number of rows, any non-empty white-space row
separator) reads back as exactly the values, in order, and then end of input — no row dropped, split or merged -/
theorem rows_framed (o : JsonOpts) (sep : List Byte) (hsep : ∀ b ∈ sep, Reader.isWs b = true) (hne : sep ≠ [])
    (vs : List JV) (hvs : ∀ v ∈ vs, Printable o v) (name : Option Str) :
    ∃ r' r'', Reads (Reader.ofBytes (rowsText o sep vs) name) (vs.map norm) r' ∧
      r'.nextJson = (.ok none, r'') := RT.rows_framed o sep hsep hne vs hvs name

/-- the three styles differ only in white space outside strings: stripping it from ANY style gives the concise text
(no hypothesis: every value, floats included) -/
theorem styles_differ_in_ws_only (o : JsonOpts) (v : JV) :
    stripWs false (printJson o v) = printJson { o with style := .consise } v := RT.styles_differ_in_ws_only o v

/-- floats: whenever the shortest-digit search returns a text, that text parses back to the same double … -/
theorem float_display_parses (f : F64) (s : Bool) (m : Nat) (e : Int) (t : List Char) (hf : f = .fin s m e)
    (hm : m ≠ 0) (ht : F64.toDisplay? f = some t) : F64.parseDecimal t = some f :=
  F64RT.display_parse hf hm ht

/-- … and has the shape of a JSON number without exponent -/
theorem float_display_shape (s : Bool) (m : Nat) (e : Int) (t : List Char)
    (ht : F64.toDisplay? (.fin s m e) = some t) : F64RT.DecimalShape t := F64RT.toDisplay_shape ht

/-- the float hypothesis of `Printable` is discharged for every double that can occur in a value: a non-zero
double that `From<f64>` keeps as a float and for which the digit search returns — no further assumption -/
theorem float_hypothesis_discharged {f : F64} {s : Bool} {m : Nat} {e : Int} {t : List Char}
    (hf : f = .fin s m e) (hm : m ≠ 0) (hstay : Num.ofF64 f = .flt f) (ht : F64.toDisplay? f = some t) :
    FloatRT f := Ser.floatRT_of_display hf hm hstay ht

/-- closing the loop (the fixpoint at the value level): whatever was read from ANY conforming text is printable,
and its printed text (any style, `--utf8-strings`) is read back as the same value.  (H17, the success of the
17-digit search, used to be a hypothesis here; it is now the theorem `Ser.h17`, see `h17_holds`.) -/
theorem reread_what_was_read (o : JsonOpts) (ho : o.utf8Strings = true) {v : JV} {bs : List Byte}
    (h : Ser.Ser v bs) (rest : List Byte) (hd : Delim v rest) (r : Reader)
    (hr : Ready r (utf8 (printJson o v) ++ rest)) (fuel : Nat) (hf : fuelBound o v ≤ fuel) :
    ∃ r', nextValue fuel r = (.ok (some (norm v)), r') ∧ Ready r' rest :=
  Ser.print_parse_of_ser Ser.h17 o ho h rest hd r hr fuel hf

/-- F3 (known finding), proved on the model: without `--utf8-strings` U+1F603 is written as `\u1f603` -/
theorem astral_escape_has_five_digits :
    printString {} [Char.ofNat 0x1F603] = "\"\\u1f603\"".toList := by decide

/-! ### non-vacuity: a nested value with escapes, a float, non-ASCII — printable in every style -/
example (o : JsonOpts) : Printable o sample := sample_printable o


/-! ### the fixpoint, for whole runs (helper file `Jawk/Lemmas/Fixpoint.lean`) -/

/-- a run with only output options (style, `--utf8-strings`, row separator) writes, for ANY input, one printed
row per value read -/
theorem run_output_only (orc : Oracles) (jo : Option JsonOpts) (sep : Str) (sources : List Source)
    (wOut wErr : Writer) (hw : Pipe.Unbounded wOut) (hcl : RunSpec.CleanIO sources) :
    (run orc (Fix.outCfg jo sep) sources wOut wErr).result = .ok ()
      ∧ (run orc (Fix.outCfg jo sep) sources wOut wErr).stdout
          = wOut.out ++ (RunSpec.ctxsOfSources (Fix.outCfg jo sep) sources 0).flatMap
              (fun ctx => utf8 (printJson (jo.getD {}) ctx.input) ++ utf8 sep)
      ∧ (run orc (Fix.outCfg jo sep) sources wOut wErr).stderr = wErr.out :=
  Fix.run_output_only orc jo sep sources wOut wErr hw hcl

/-- MAIN: feeding jawk's output back into jawk with the same options reproduces it byte for byte — for EVERY
input (any bytes, malformed regions included, any number of sources), every style, every non-empty white-space
row separator.  Assumption: `--utf8-strings` (without it an astral character is the finding F3; the
counter-example is an `example` in the helper file, as is a non-white-space separator) -/
theorem fixpoint (orc : Oracles) (o : JsonOpts) (ho : o.utf8Strings = true) (sep : Str)
    (hsep : Fix.WsSep sep) (hne : sep ≠ []) (sources : List Source) (hcl : RunSpec.CleanIO sources) :
    (run orc (Fix.outCfg (some o) sep)
        [⟨none, cleanInput (run orc (Fix.outCfg (some o) sep) sources {} {}).stdout⟩] {} {}).stdout
      = (run orc (Fix.outCfg (some o) sep) sources {} {}).stdout :=
  Fix.fixpoint_all Ser.h17 orc o ho sep hsep hne sources hcl

/-- the same without `--utf8-strings`, for inputs whose values are printable (`Printable`) -/
theorem fixpoint_printable (orc : Oracles) (jo : Option JsonOpts) (sep : Str) (hsep : Fix.WsSep sep) (hne : sep ≠ [])
    (sources : List Source) (hcl : RunSpec.CleanIO sources)
    (hvals : ∀ ctx ∈ RunSpec.ctxsOfSources (Fix.outCfg jo sep) sources 0, Printable (jo.getD {}) ctx.input) :
    (run orc (Fix.outCfg jo sep) [⟨none, cleanInput (run orc (Fix.outCfg jo sep) sources {} {}).stdout⟩] {} {}).stdout
      = (run orc (Fix.outCfg jo sep) sources {} {}).stdout :=
  Fix.fixpoint_sources orc jo sep hsep hne sources hcl hvals

/-! ### H17 is a theorem; the printed text is conforming by an independent grammar -/

/-- the digit search of `Display for f64` (1 … 17 significant digits) succeeds on every finite double: the
classical fact 10^16 > 2^53, proved over the model (`Jawk/Lemmas/H17.lean`: `decExp` is exact — one kernel
evaluation over all 2100 binary exponents —, nearest rounding, the grid argument at 17 digits) -/
theorem h17_holds : Ser.H17 := Ser.h17

theorem display_total (f : F64) (hc : f.Canonical) (hf : f.isFinite = true) : (F64.toDisplay? f).isSome = true :=
  F64.toDisplay?_isSome f hc hf

/-- every row is a WELL-FORMED RFC 8259 text of the value being output, by the independent grammar
`Ser` of `Jawk/Spec/Json.lean` (which mentions neither jawk's parser nor its printer) — in every style and both
string modes; `norm` only turns a `neg i` with `i ≥ 0`, which prints without sign, into `pos i` -/
theorem printed_row_conforming (o : JsonOpts) (v : JV) (hv : Printable o v) :
    Ser.Ser (norm v) (utf8 (printJson o v)) :=
  PrintSer.printJson_ser_printable o v hv

/-- the three styles are conforming texts of the SAME value (they differ in insignificant white space only) -/
theorem styles_same_value (o : JsonOpts) (v : JV) (hv : Ser.Parsed o v) :
    Ser.Ser (norm v) (utf8 (printJson { o with style := .oneLine } v)) ∧
    Ser.Ser (norm v) (utf8 (printJson { o with style := .consise } v)) ∧
    Ser.Ser (norm v) (utf8 (printJson { o with style := .pretty } v)) :=
  PrintSer.printJson_ser_three o v hv

/-- the round trip THROUGH the grammar: a printed row, preceded by white space, is read back as the value -/
theorem printed_row_reread (o : JsonOpts) (v : JV) (hv : Ser.Parsed o v) (rest : List Byte)
    (hd : Ser.Delimited (norm v) rest) (ws : List Byte) (hws : Ser.Ws ws) (r : Reader)
    (hr : Ready r (ws ++ utf8 (printJson o v) ++ rest)) :
    ∃ r', r.nextJson = (.ok (some (norm v)), r') ∧ Ready r' rest :=
  PrintSer.nextJson_printed o v hv rest hd ws hws r hr

/-- F3 through the grammar: in ASCII mode U+1F600 is printed as a conforming text — of a DIFFERENT string -/
theorem astral_is_conforming_but_different :
    Ser.Ser (.str [Char.ofNat 0x1F60, '0']) (utf8 (printJson {} (.str [Char.ofNat 0x1F600]))) :=
  PrintSer.astral_ascii_differs


/-! ### computed values: no `NaN`, no `inf` (helper `Jawk/Lemmas/Finite.lean`)

JSON has no spelling for a non-finite number.  Values read from the input are finite (the parser rejects numbers
that overflow); for COMPUTED values the evaluator sends every arithmetic result through `from_finite`
(`jnumFinite`): a result outside the double range is *nothing*, never `inf` or `NaN` (`(* 1e308 10 0)` = inf·0). -/

/-- evaluation preserves finiteness, for every expression over the functions whose result is guarded by
`from_finite` or not computed from a double at all (everything but `% abs ceil floor round`, whose model takes
the unbounded integers and non-canonical doubles the real types cannot hold: see `computed_finite`) -/
theorem computed_finite_guarded (orc : Oracles) (fuel : Nat) (e : Expr) (ctx : Ctx) (v : JV)
    (ho : Finite.FiniteOrc orc) (he : Finite.FiniteE e) (hc : Finite.FiniteCtx ctx)
    (hg : Finite.GuardedOnly e) (hd : ∀ nd ∈ ctx.defs, Finite.GuardedOnly nd.2)
    (h : eval orc fuel e ctx = .ok (some v)) : Finite.FiniteV v :=
  Finite.eval_finite_partial orc fuel e ctx v ho he hc hg hd h

/-- for EVERY expression: whatever it evaluates to is finite, provided every intermediate number fits the types
the real program has (u64 / i64 / canonical binary64 — `evalRep` is `eval` with that check and agrees with it
unless the check fires; in the Rust program the check cannot fire, the types enforce it) -/
theorem computed_finite (orc : Oracles) (fuel : Nat) (e : Expr) (ctx : Ctx) (v : JV)
    (ho : Finite.FiniteOrc orc) (he : Finite.FiniteE e) (hc : Finite.FiniteCtx ctx)
    (hrep : Finite.evalRep orc fuel e ctx ≠ .error .overflow)
    (h : eval orc fuel e ctx = .ok (some v)) : Finite.FiniteV v :=
  Finite.eval_finite orc fuel e ctx v ho he hc hrep h

/-- the hypothesis of `computed_finite` is about the MODEL only: with unbounded naturals an array of 2^1024
elements has a size whose `abs` is infinite -/
theorem computed_finite_needs_representable :
    ∃ (orc : Oracles) (fuel : Nat) (e : Expr) (ctx : Ctx) (v : JV),
      Finite.FiniteOrc orc ∧ Finite.FiniteE e ∧ Finite.FiniteCtx ctx ∧ eval orc fuel e ctx = .ok (some v) ∧ ¬ Finite.FiniteV v :=
  Finite.eval_finite_false

/-- a selection keeps the whole row finite: the row that is built and the context handed to the next stage -/
theorem selected_row_finite (orc : Oracles) (e : Expr) (ctx : Ctx) (name : Str) (r : Option JV)
    (ho : Finite.FiniteOrc orc) (he : Finite.FiniteE e) (hc : Finite.FiniteCtx ctx)
    (hrep : Finite.evalRep orc evalFuel e ctx ≠ .error .overflow)
    (h : eval orc evalFuel e ctx = .ok r) :
    Finite.FiniteCtx (ctx.withResult name r) ∧ Finite.FiniteV (ctx.withResult name r).build :=
  Finite.selected_rows_finite orc e ctx name r ho he hc hrep h

end Jawk.C02
