/-
  C03 — the pipeline is the documented stage composition in the documented order.

  Refinement in three layers (`Jawk/Spec/Pipeline.lean`): the model of the Rust `Process` chain
  (stateful stages, error monad, fallible writer, `Break`) = the effect-free machine (`processP`,
  `completeP`) = the documented composition of list functions (`specRows`: each stage a function
  `List Ctx → List Ctx`, applied left to right, no state, no `Break`).  For EVERY history of rows.
  Helper lemmas: `Jawk/Lemmas/PipelinePure.lean`, `Jawk/Lemmas/PipelineSpec.lean`.
-/
import Jawk.Lemmas.RunCor
import Jawk.Lemmas.PipelineSpec
import Jawk.Lemmas.RunSpec
import Jawk.Props.Tables
import Jawk.Lemmas.ArgsOrder
import Jawk.Generated.CliOptions
namespace Jawk.C03
open Jawk Pipe

/-- one step of the real chain is one step of the effect-free machine (nothing aborts, the writer does not fail) -/
theorem process_refines (orc : Oracles) (sink : SinkCfg) (n : Nat) (cfgs : List StageCfg) (sts : List StageSt)
    (w : Writer) (ctx : Ctx) (hna : NoAbort orc cfgs) (hw : Unbounded w) (hs : Shape cfgs sts) :
    process orc sink n cfgs sts w ctx =
      .ok (⟨(processP (evalT orc) cfgs sts ctx).1,
            wappend w (((processP (evalT orc) cfgs sts ctx).2.1).flatMap (sinkBytes sink n))⟩,
           (processP (evalT orc) cfgs sts ctx).2.2) :=
  (process_pure orc sink n cfgs sts w ctx hna hw hs).1

/-- `complete` of the real chain writes exactly the rows the effect-free `completeP` delivers -/
theorem complete_refines (orc : Oracles) (sink : SinkCfg) (n : Nat) (cfgs : List StageCfg) (sts : List StageSt)
    (w : Writer) (hna : NoAbort orc cfgs) (hw : Unbounded w) (hs : Shape cfgs sts) :
    complete orc sink n cfgs sts w
      = .ok (wappend w ((completeP (evalT orc) cfgs sts).flatMap (sinkBytes sink n))) :=
  complete_pure orc sink n cfgs sts w hna hw hs

/-- stopping at the first `Break` (what the read loop does) never changes what reaches the sink -/
theorem break_is_invisible (ev : Expr → Ctx → Option JV) (cfgs : List StageCfg) (sts : List StageSt)
    (rows : List Ctx) : runAll ev cfgs sts rows = runP ev cfgs sts rows := runAll_eq_runP' ev cfgs sts rows

/-- the effect-free machine, fed any rows and completed, is the documented composition -/
theorem machine_is_composition (ev : Expr → Ctx → Option JV) {cfgs : List StageCfg} {sts : List StageSt}
    (hi : Initial cfgs sts) (hg : GroupLast cfgs) (rows : List Ctx) :
    runP ev cfgs sts rows = specRows ev cfgs sts rows := runP_eq_spec ev hi hg rows

/-- MAIN: feeding any sequence of rows to the real chain (stopping at `Break` like the read loop) and
completing it writes exactly the bytes of `specRows` — the stages as pure list functions in the order
`set → split → filter → select → unique → sort → skip/take → group|merge` -/
theorem pipeline_refines (orc : Oracles) (sink : SinkCfg) (n : Nat) {cfgs : List StageCfg} {sts : List StageSt}
    (w : Writer) (rows : List Ctx) (hna : NoAbort orc cfgs) (hw : Unbounded w) (hi : Initial cfgs sts)
    (hg : GroupLast cfgs) :
    (feedUntilBreak (process orc sink n cfgs) sts w rows >>= fun r => complete orc sink n cfgs r.1.sts r.1.w)
      = .ok (wappend w ((specRows (evalT orc) cfgs sts rows).flatMap (sinkBytes sink n))) :=
  total_spec orc sink n w rows hna hw hi hg

/-- the composition splits at any point of the chain: stage `k+1` sees exactly the output of stages `1..k` -/
theorem composition_splits (ev : Expr → Ctx → Option JV) (pre post : List StageCfg) (spre spost : List StageSt)
    (rows : List Ctx) (hlen : spre.length = pre.length) :
    specRows ev (pre ++ post) (spre ++ spost) rows = specRows ev post spost (specRows ev pre spre rows) :=
  specRows_append ev pre post spre spost rows hlen

/-- appending one more stage applies that stage's list function to the previous result -/
theorem stage_appended (ev : Expr → Ctx → Option JV) (pre : List StageCfg) (spre : List StageSt)
    (c : StageCfg) (st : StageSt) (rows : List Ctx) (hlen : spre.length = pre.length) (hi : Initial pre spre)
    (hc : Initial [c] [st]) (hg : GroupLast (pre ++ [c])) :
    runP ev (pre ++ [c]) (spre ++ [st]) rows = stageSpec ev c (capOf st) (runP ev pre spre rows) :=
  runP_snoc ev pre spre c st rows hlen hi hc hg

/-- an absent `--skip` / `--take` is the identity stage -/
theorem absent_limit_is_identity (ev : Expr → Ctx → Option JV) (cap : Option Nat) (rows : List Ctx) :
    stageSpec ev (.limit 0 none) cap rows = rows := rfl

/-- the documented stage functions, spelled out -/
theorem stage_functions (ev : Expr → Ctx → Option JV) (rows : List Ctx) (e : Expr) (name : Str) (skip : Nat)
    (take : Option Nat) :
    stageSpec ev (.filter e) none rows = rows.filter (fun c => match ev e c with
      | some (.bool true) => true
      | _ => false) ∧
    stageSpec ev (.select name e) none rows = rows.map (fun c => c.withResult name (ev e c)) ∧
    stageSpec ev (.split e) none rows = rows.flatMap (fun c => match ev e c with
      | some (.arr l) => l.map c.withInput
      | _ => []) ∧
    stageSpec ev (.limit skip take) none rows = takeOpt take (rows.drop skip) ∧
    stageSpec ev .merge none rows = [{ input := .arr (rows.map Ctx.build) }] :=
  ⟨rfl, rfl, rfl, rfl, rfl⟩


/-! ### the whole run -/

/-- what `build` assembles is a chain in initial state with grouping (if any) last — for EVERY configuration
that builds, whatever order the options were given in (the configuration is a record) -/
theorem build_is_initial (orc : Oracles) (c : Cfg) (p : Pipeline) (h : build orc c = .ok p) :
    Initial p.cfgs p.sts ∧ GroupLast p.cfgs ∧ p.sts.length = p.cfgs.length ∧ p.sinkLen = p.titles.length :=
  RunSpec.build_initial orc c p h

/-- MAIN, end to end: for every configuration that builds, every list of input sources (any bytes, malformed
regions included — they are skipped under `--on-error=ignore`) the standard output of `run` is the header (if
any) followed by exactly the bytes of the documented composition applied to the values read, in order
(`ctxsOfSources`: `--only-objects-and-arrays` already applied), and nothing is written to standard error -/
theorem run_refines (orc : Oracles) (c : Cfg) (sources : List Source) (wOut wErr : Writer) (p : Pipeline)
    (hpol : c.onError = .ignore) (hb : build orc c = .ok p) (hna : NoAbort orc p.cfgs) (hw : Unbounded wOut)
    (hcl : RunSpec.CleanIO sources) (hh : ¬ RunSpec.HeaderMissing p) :
    (run orc c sources wOut wErr).result = .ok ()
      ∧ (run orc c sources wOut wErr).stdout
          = wOut.out ++ RunSpec.headerBytes p ++
            (specRows (evalT orc) p.cfgs p.sts (RunSpec.ctxsOfSources c sources 0)).flatMap (sinkBytes p.sink p.sinkLen)
      ∧ (run orc c sources wOut wErr).stderr = wErr.out :=
  RunSpec.run_ignore_spec orc c sources wOut wErr p hpol hb hna hw hcl hh

/-! ### non-vacuity: a chain with every kind of stage satisfies the hypotheses -/
example (orc : Oracles) : NoAbort orc exampleChain ∧ Initial exampleChain exampleStates ∧ GroupLast exampleChain :=
  ⟨exampleChain_noAbort orc, by simp [exampleChain, exampleStates, Initial], by simp [exampleChain, GroupLast]⟩


/-! ### absent options are identity stages; repeated options keep their order -/

/-- no options: no stage at all — every row reaches the printer unchanged -/
theorem absent_options_identity (orc : Oracles) :
    build orc {} = .ok RunSpec.defaultPipeline ∧ RunSpec.defaultPipeline.cfgs = [] ∧ RunSpec.defaultPipeline.sts = [] ∧
      ∀ rows, RunCor.R orc RunSpec.defaultPipeline rows = rows := RunCor.absent_options_identity orc

/-- exactly one option given = exactly that stage's list function (here `--filter`; `RunCor.only_split`,
`only_select`, `only_skip_take`, `only_unique`, `only_sort`, `only_group`, `only_merge` are the others) -/
theorem only_filter (orc : Oracles) (f : Str) (e : Expr) (hf : parseOptionExpr f = .ok e) :
    ∃ p, build orc { filter := some f } = .ok p ∧ p.cfgs = [.filter e] ∧
      ∀ rows, RunCor.R orc p rows = rows.filter (fun c => match evalT orc e c with
        | some (.bool true) => true
        | _ => false) := RunCor.only_filter orc f e hf

/-- repeated `--select` keep the order given (columns and titles in that order); everything else in the chain
is not a select -/
theorem selects_in_order (orc : Oracles) (c : Cfg) (p : Pipeline) (h : build orc c = .ok p) :
    ∃ (parsed : List (Str × Expr)) (A B : List StageCfg),
      mapRes (fun s => cfgErr (parseSelection s)) c.selects = .ok parsed ∧
      c.selects.map (fun s => cfgErr (parseSelection s)) = parsed.map .ok ∧
      p.cfgs = A ++ parsed.map (fun (n, e) => StageCfg.select n e) ++ B ∧
      (∀ x ∈ A, RunCor.isSelect x = false) ∧ (∀ x ∈ B, RunCor.isSelect x = false) ∧
      p.cfgs.filter RunCor.isSelect = parsed.map (fun (n, e) => StageCfg.select n e) ∧
      (c.group = none → p.titles = parsed.map (·.1)) ∧
      (c.group ≠ none → p.titles = []) := RunCor.selects_in_order orc c p h

/-- repeated `--sort-by k1 --sort-by k2`: the last given sorts first (outermost), the first given last and is the
only bounded one — so, both being stable sorts, the first given is the most significant key (C07 `two_key_lex`) -/
theorem sorts_first_most_significant (orc : Oracles) (c : Cfg) (p : Pipeline) (h : build orc c = .ok p)
    (k1 k2 : Str) (hs : c.sorts = [k1, k2]) (e1 e2 : Expr) (d1 d2 : Bool)
    (h1 : parseSorter k1 = .ok (e1, d1)) (h2 : parseSorter k2 = .ok (e2, d2)) :
    (p.cfgs.zip p.sts).filter (fun x => RunCor.isSort x.1)
        = [(.sort e2 d2, .sort [] none), (.sort e1 d1, .sort [] (c.take.map (fun t => c.skip + t)))] ∧
      p.cfgs.filter RunCor.isSort = [.sort e2 d2, .sort e1 d1] :=
  RunCor.sorts_first_most_significant orc c p h k1 k2 hs e1 e2 d1 d2 h1 h2


/-! ### the command line: argument order (model of clap's pass: `Jawk/Model/Args.lean`, helper `Lemmas/ArgsOrder.lean`)

The correspondence run hands the SAME argument vector to clap and to `Args.parseArgs`; the record the model runs
with is the one `parseArgs` yields. -/

def kindCode : Args.Kind → Nat
  | .flag => 0 | .single => 1 | .multi => 2 | .optValue => 3

/-- the model's option table: names (long name and visible aliases) and kind of every option family -/
def modelCli : List (List (List Nat) × Nat) :=
  Args.Opt.all.map (fun o => (o.names.map (fun n => n.toList.map Char.toNat), kindCode o.kind))

/-- the option table of the model IS the table regenerated from the `#[arg(..)]` attributes of `Cli`,
`OutputOptions`, `JsonOutputOptions`, `TextOutputOptions` (in any declaration order), `--additional-help` apart -/
theorem cli_table_generated :
    (modelCli.all (fun x => Generated.cliOptions.contains x) &&
     Generated.cliOptions.all (fun x => modelCli.contains x || x.1 == ["additional-help".toList.map Char.toNat])) = true := by
  decide +kernel

/-- the one-letter names of the model ARE those regenerated from `#[arg(short)]` / `#[arg(short = 'k')]`
(`-a`, `--additional-help`, apart) -/
def modelShorts : List (List Nat × Nat) :=
  Args.Opt.all.filterMap (fun o => o.short.map (fun c => ((o.names.headD "").toList.map Char.toNat, c.toNat)))

theorem cli_shorts_generated :
    (modelShorts.all (fun x => Generated.cliShorts.contains x) &&
     Generated.cliShorts.all (fun x => modelShorts.contains x || x.1 == "additional-help".toList.map Char.toNat)) = true := by
  decide +kernel

/-- the values the enumerated options accept -/
theorem cli_enums_generated :
    Generated.onErrorValues = ["ignore", "panic", "stderr", "stdout"].map (fun n => n.toList.map Char.toNat) ∧
    Generated.outputStyleValues = ["json", "csv", "text"].map (fun n => n.toList.map Char.toNat) ∧
    Generated.jsonStyleValues = ["one-line", "consise", "pretty"].map (fun n => n.toList.map Char.toNat) := by
  decide +kernel

/-- ARGUMENT ORDER: two command lines that are permutations of each other and agree on the relative order of
the repeated options (inside every option family) and of the input files are parsed to the same record — both
rejected, or both accepted with the same configuration, files and cache size -/
theorem argument_order_irrelevant (a b : List Str)
    (h : Args.SameUpToFamilyOrder (Args.lexAll a) (Args.lexAll b)) : Args.parseArgs a = Args.parseArgs b :=
  Args.parseArgs_order_independent a b h

/-- in the form a user reads: swapping two neighbouring arguments of different families changes nothing — on command
lines whose arguments are one token each (`Args.oneToken`: a positional, `--flag`, `--name=value`; an option written
without an attached value takes the argument after it, and the two must then move together) -/
theorem swap_neighbours (l₁ l₂ : List Str) (s₁ s₂ : Str)
    (h : Args.sameFamily (Args.lex s₁) (Args.lex s₂) = false)
    (hb : Args.OneTokenEach (l₁ ++ s₁ :: s₂ :: l₂)) :
    Args.parseArgs (l₁ ++ s₁ :: s₂ :: l₂) = Args.parseArgs (l₁ ++ s₂ :: s₁ :: l₂) :=
  Args.swap_adjacent l₁ l₂ s₁ s₂ h hb

/-- an option written in two arguments (`--name value`) moves as a pair: swapping the pair with a neighbouring one-token
argument of another family changes nothing -/
theorem swap_neighbours_two_args (l₁ l₂ : List Str) (n v s₂ : Str) (o : Args.Opt)
    (hn : Args.findOpt n = some o) (hp : Args.plainName n = true) (hk : o.kind ≠ .flag) (hv : Args.isValue v = true)
    (h₁ : Args.OneTokenEach l₁) (h₂ : Args.OneTokenEach (s₂ :: l₂))
    (hf : Args.sameFamily (.opt o (some v)) (Args.lex s₂) = false) :
    Args.parseArgs (l₁ ++ ('-' :: '-' :: n) :: v :: s₂ :: l₂) = Args.parseArgs (l₁ ++ s₂ :: ('-' :: '-' :: n) :: v :: l₂) :=
  Args.swap_adjacent_two_args l₁ l₂ n v s₂ o hn hp hk hv h₁ h₂ hf

/-- the one place where the position of an argument matters to clap itself: a bare optional-valued option takes the
argument after it as its value unless that looks like an option (`--merge f.json` groups by the text `f.json`;
`f.json --merge` and `--merge --unique` do not).  Found by the correspondence run when input files were
interleaved with the options; the model follows clap (`Args.lexAll`), the theorems are stated over its tokens. -/
theorem bare_merge_takes_the_next_argument :
    Args.lexAll ["--merge".toList, "f.json".toList] = [.opt .group (some "f.json".toList)] ∧
    Args.lexAll ["f.json".toList, "--merge".toList] = [.file "f.json".toList, .opt .group none] ∧
    Args.lexAll ["--merge".toList, "--unique".toList] = [.opt .group none, .opt .unique none] :=
  Args.bare_merge_takes_next

/-- SPELLINGS: an option that takes a value gives the same token — hence the same configuration and the same run —
however it is written: `--name=value`, `--alias=value`, `--name value`, `-c value`, `-c=value`, `-cvalue` (a value that
is to stand in an argument of its own must not look like an option; an attached value must not be empty or start
with `=`) -/
theorem option_spellings (n n' v : Str) (c : Char) (o : Args.Opt) (rest : List Str)
    (hn : Args.findOpt n = some o) (hp : Args.plainName n = true)
    (hn' : Args.findOpt n' = some o) (hp' : Args.plainName n' = true)
    (hc : Args.findShort c = some o) (hk : o.kind ≠ .flag)
    (hv : Args.isValue v = true) (hv0 : v ≠ []) (hv1 : v.head? ≠ some '=') :
    let canonical := Args.lexAll (('-' :: '-' :: (n ++ '=' :: v)) :: rest)
    Args.lexAll (('-' :: '-' :: (n' ++ '=' :: v)) :: rest) = canonical ∧
    Args.lexAll (('-' :: '-' :: n') :: v :: rest) = canonical ∧
    Args.lexAll (['-', c] :: v :: rest) = canonical ∧
    Args.lexAll (('-' :: c :: '=' :: v) :: rest) = canonical ∧
    Args.lexAll (('-' :: c :: v) :: rest) = canonical :=
  Args.option_spellings n n' v c o rest hn hp hn' hp' hc hk hv hv0 hv1

/-- … anywhere on the command line: behind arguments that are one token each, an occurrence of an option may be written
in any of its spellings and the whole line is parsed to the same record (hence the same run) -/
theorem respell_anywhere (pre rest : List Str) (n n' v : Str) (c : Char) (o : Args.Opt)
    (hpre : Args.OneTokenEach pre)
    (hn : Args.findOpt n = some o) (hp : Args.plainName n = true)
    (hn' : Args.findOpt n' = some o) (hp' : Args.plainName n' = true)
    (hc : Args.findShort c = some o) (hk : o.kind ≠ .flag)
    (hv : Args.isValue v = true) (hv0 : v ≠ []) (hv1 : v.head? ≠ some '=') :
    let canonical := Args.parseArgs (pre ++ ('-' :: '-' :: (n ++ '=' :: v)) :: rest)
    Args.parseArgs (pre ++ ('-' :: '-' :: (n' ++ '=' :: v)) :: rest) = canonical ∧
    Args.parseArgs (pre ++ ('-' :: '-' :: n') :: v :: rest) = canonical ∧
    Args.parseArgs (pre ++ ['-', c] :: v :: rest) = canonical ∧
    Args.parseArgs (pre ++ ('-' :: c :: '=' :: v) :: rest) = canonical ∧
    Args.parseArgs (pre ++ ('-' :: c :: v) :: rest) = canonical :=
  Args.respell_anywhere pre rest n n' v c o hpre hn hp hn' hp' hc hk hv hv0 hv1

/-- every long name and alias of the table satisfies the side condition of `option_spellings` -/
theorem option_names_plain : (Args.Opt.all.all fun o => o.names.all fun n => Args.plainName n.toList) = true :=
  Args.names_plain

/-- a flag letter may lead a cluster: `-uc .a` is `-u -c .a` -/
theorem flag_cluster (c : Char) (o : Args.Opt) (more : Str) (rest : List Str) (hc : Args.findShort c = some o)
    (hk : o.kind = .flag) (hm : more ≠ []) (hm1 : more.head? ≠ some '-') :
    Args.lexAll (('-' :: c :: more) :: rest) = .opt o none :: Args.lexAll (('-' :: more) :: rest) :=
  Args.short_flag_first c o more rest hc hk hm hm1

/-- what clap does not take as the value of the option before it: an argument that starts with `-` (the lone `-` is
a value); and a valued letter ends its cluster -/
theorem value_must_not_look_like_an_option :
    (Args.parseArgs ["--skip".toList, "-1".toList]).isNone = true ∧
    (Args.parseArgs ["--choose".toList, "-x".toList]).isNone = true ∧
    Args.lexAll ["--choose".toList, "-".toList] = [.opt .select (some "-".toList)] ∧
    Args.lexAll ["-cu".toList, ".a".toList] = [.opt .select (some "u".toList), .file ".a".toList] :=
  Args.value_must_not_look_like_an_option

/-- hence the whole run: same result, same standard output, same standard error -/
theorem run_argument_order_irrelevant (orc : Oracles) (a b : List Str)
    (h : Args.SameUpToFamilyOrder (Args.lexAll a) (Args.lexAll b))
    (srcs : List Str → List Source) (wOut wErr : Writer) :
    (Args.parseArgs a).map (fun p => run orc p.cfg (srcs p.files) wOut wErr)
      = (Args.parseArgs b).map (fun p => run orc p.cfg (srcs p.files) wOut wErr) := by
  rw [Args.parseArgs_order_independent a b h]

/-- which command lines are accepted does not depend on order either: every token acceptable on its own, no
flag / single-valued / optional-valued option twice -/
theorem acceptance_is_order_free (toks : List Args.Tok) :
    (Args.collect {} toks).isSome = true ↔
      (∀ t ∈ toks, Args.tokOK t = true) ∧ ∀ o, o.kind ≠ .multi → (toks.filter (Args.isOpt o)).length ≤ 1 :=
  Args.collect_isSome_iff toks

/-- the exception in the property text is real: the order of repeated `--select` and of the files matters -/
theorem repeated_options_keep_their_order :
    Args.parseArgs ["--select=.a".toList, "--select=.b".toList] ≠ Args.parseArgs ["--select=.b".toList, "--select=.a".toList] :=
  Args.repeated_order_matters'

/-- non-vacuity: eight arguments, a shuffle of them under other aliases -/
example : Args.parseArgs Args.exA = Args.parseArgs Args.exB := Args.exAB_eq

end Jawk.C03
