/-
  C04 — expressions evaluate to what the function documentation prescribes.

  Laws over the model of the evaluator (`eval`, `callFn` in `Jawk/Model/Eval.lean`), each for ALL argument
  values and sizes, stated through argument expressions whose evaluation is given by hypotheses (so they hold
  whatever the arguments are spelled like).  The statements are restated here from the helper file
  `Jawk/Lemmas/EvalLaws.lean` (242 laws in nine groups: take / take_last / sub and friends, size, get / keys /
  values / entries, map / filter, wrong type => nothing, booleans, comparisons and flow, integral results);
  this file carries the ones the property text names.  That the model's equations are the Rust functions'
  is the correspondence run's job (all 429 documentation examples + generated expressions on every run).
-/
import Jawk.Lemmas.EvalLaws
namespace Jawk.C04
open Jawk EvalLaws

variable (orc : Oracles) (fuel : Nat) (ctx : Ctx)

theorem take_arr (a b : Expr) (l : List JV) (n : Nat)
    (ha : eval orc fuel a ctx = .ok (some (.arr l))) (hb : eval orc fuel b ctx = .ok (some (.num (.pos n)))) :
    eval orc (fuel + 1) (.call "take" [a, b]) ctx = .ok (some (.arr (l.take n))) := by
  first
    | exact EvalLaws.take_arr ..
    | (apply EvalLaws.take_arr <;> assumption)

theorem take_obj (a b : Expr) (m : List (Str × JV)) (n : Nat)
    (ha : eval orc fuel a ctx = .ok (some (.obj m))) (hb : eval orc fuel b ctx = .ok (some (.num (.pos n)))) :
    eval orc (fuel + 1) (.call "take" [a, b]) ctx = .ok (some (.obj (m.take n))) := by
  first
    | exact EvalLaws.take_obj ..
    | (apply EvalLaws.take_obj <;> assumption)

theorem take_str (a b : Expr) (s : Str) (n : Nat)
    (ha : eval orc fuel a ctx = .ok (some (.str s))) (hb : eval orc fuel b ctx = .ok (some (.num (.pos n)))) :
    eval orc (fuel + 1) (.call "take" [a, b]) ctx = .ok (some (.str (s.take n))) := by
  first
    | exact EvalLaws.take_str ..
    | (apply EvalLaws.take_str <;> assumption)

/-- `take 0` is the empty collection -/
theorem take_arr_zero (a b : Expr) (l : List JV)
    (ha : eval orc fuel a ctx = .ok (some (.arr l))) (hb : eval orc fuel b ctx = .ok (some (.num (.pos 0)))) :
    eval orc (fuel + 1) (.call "take" [a, b]) ctx = .ok (some (.arr [])) := by
  first
    | exact EvalLaws.take_arr_zero ..
    | (apply EvalLaws.take_arr_zero <;> assumption)

/-- `take n` with `n ≥ size` is the whole collection -/
theorem take_arr_all (a b : Expr) (l : List JV) (n : Nat) (hn : l.length ≤ n)
    (ha : eval orc fuel a ctx = .ok (some (.arr l))) (hb : eval orc fuel b ctx = .ok (some (.num (.pos n)))) :
    eval orc (fuel + 1) (.call "take" [a, b]) ctx = .ok (some (.arr l)) := by
  first
    | exact EvalLaws.take_arr_all ..
    | (apply EvalLaws.take_arr_all <;> assumption)

/-- the result of `take` is a prefix (same elements, same order) of exactly `min n size` elements -/
theorem take_arr_prefix (a b : Expr) (l : List JV) (n : Nat)
    (ha : eval orc fuel a ctx = .ok (some (.arr l))) (hb : eval orc fuel b ctx = .ok (some (.num (.pos n)))) :
    ∃ r, eval orc (fuel + 1) (.call "take" [a, b]) ctx = .ok (some (.arr r)) ∧
      r <+: l ∧ r.Sublist l ∧ r.length = min n l.length := by
  first
    | exact EvalLaws.take_arr_prefix ..
    | (apply EvalLaws.take_arr_prefix <;> assumption)

theorem take_last_arr (a b : Expr) (l : List JV) (n : Nat)
    (ha : eval orc fuel a ctx = .ok (some (.arr l))) (hb : eval orc fuel b ctx = .ok (some (.num (.pos n)))) :
    eval orc (fuel + 1) (.call "take_last" [a, b]) ctx = .ok (some (.arr (l.drop (l.length - n)))) := by
  first
    | exact EvalLaws.take_last_arr ..
    | (apply EvalLaws.take_last_arr <;> assumption)

theorem take_last_str (a b : Expr) (s : Str) (n : Nat)
    (ha : eval orc fuel a ctx = .ok (some (.str s))) (hb : eval orc fuel b ctx = .ok (some (.num (.pos n)))) :
    eval orc (fuel + 1) (.call "take_last" [a, b]) ctx = .ok (some (.str (s.drop (s.length - n)))) := by
  first
    | exact EvalLaws.take_last_str ..
    | (apply EvalLaws.take_last_str <;> assumption)

/-- `take_last 0` is the empty collection -/
theorem take_last_arr_zero (a b : Expr) (l : List JV)
    (ha : eval orc fuel a ctx = .ok (some (.arr l))) (hb : eval orc fuel b ctx = .ok (some (.num (.pos 0)))) :
    eval orc (fuel + 1) (.call "take_last" [a, b]) ctx = .ok (some (.arr [])) := by
  first
    | exact EvalLaws.take_last_arr_zero ..
    | (apply EvalLaws.take_last_arr_zero <;> assumption)

/-- `take_last n` with `n ≥ size` is the whole collection -/
theorem take_last_arr_all (a b : Expr) (l : List JV) (n : Nat) (hn : l.length ≤ n)
    (ha : eval orc fuel a ctx = .ok (some (.arr l))) (hb : eval orc fuel b ctx = .ok (some (.num (.pos n)))) :
    eval orc (fuel + 1) (.call "take_last" [a, b]) ctx = .ok (some (.arr l)) := by
  first
    | exact EvalLaws.take_last_arr_all ..
    | (apply EvalLaws.take_last_arr_all <;> assumption)

theorem take_last_arr_suffix (a b : Expr) (l : List JV) (n : Nat)
    (ha : eval orc fuel a ctx = .ok (some (.arr l))) (hb : eval orc fuel b ctx = .ok (some (.num (.pos n)))) :
    ∃ r, eval orc (fuel + 1) (.call "take_last" [a, b]) ctx = .ok (some (.arr r)) ∧
      r <:+ l ∧ r.Sublist l ∧ r.length = min n l.length := by
  first
    | exact EvalLaws.take_last_arr_suffix ..
    | (apply EvalLaws.take_last_arr_suffix <;> assumption)

theorem sub_arr (a b c : Expr) (l : List JV) (start len : Nat)
    (ha : eval orc fuel a ctx = .ok (some (.arr l))) (hb : eval orc fuel b ctx = .ok (some (.num (.pos start))))
    (hc : eval orc fuel c ctx = .ok (some (.num (.pos len)))) :
    eval orc (fuel + 1) (.call "sub" [a, b, c]) ctx = .ok (some (.arr ((l.drop start).take len))) := by
  first
    | exact EvalLaws.sub_arr ..
    | (apply EvalLaws.sub_arr <;> assumption)

theorem sub_str (a b c : Expr) (s : Str) (start len : Nat)
    (ha : eval orc fuel a ctx = .ok (some (.str s))) (hb : eval orc fuel b ctx = .ok (some (.num (.pos start))))
    (hc : eval orc fuel c ctx = .ok (some (.num (.pos len)))) :
    eval orc (fuel + 1) (.call "sub" [a, b, c]) ctx = .ok (some (.str ((s.drop start).take len))) := by
  first
    | exact EvalLaws.sub_str ..
    | (apply EvalLaws.sub_str <;> assumption)

theorem size_arr (a : Expr) (l : List JV) (ha : eval orc fuel a ctx = .ok (some (.arr l))) :
    eval orc (fuel + 1) (.call "size" [a]) ctx = .ok (some (.num (.pos l.length))) := by
  first
    | exact EvalLaws.size_arr ..
    | (apply EvalLaws.size_arr <;> assumption)

theorem size_obj (a : Expr) (m : List (Str × JV)) (ha : eval orc fuel a ctx = .ok (some (.obj m))) :
    eval orc (fuel + 1) (.call "size" [a]) ctx = .ok (some (.num (.pos m.length))) := by
  first
    | exact EvalLaws.size_obj ..
    | (apply EvalLaws.size_obj <;> assumption)

/-- characters (Unicode scalar values), not bytes -/
theorem size_str (a : Expr) (s : Str) (ha : eval orc fuel a ctx = .ok (some (.str s))) :
    eval orc (fuel + 1) (.call "size" [a]) ctx = .ok (some (.num (.pos s.length))) := by
  first
    | exact EvalLaws.size_str ..
    | (apply EvalLaws.size_str <;> assumption)

theorem get_arr (a b : Expr) (l : List JV) (i : Nat)
    (ha : eval orc fuel a ctx = .ok (some (.arr l))) (hb : eval orc fuel b ctx = .ok (some (.num (.pos i)))) :
    eval orc (fuel + 1) (.call "get" [a, b]) ctx = .ok l[i]? := by
  first
    | exact EvalLaws.get_arr ..
    | (apply EvalLaws.get_arr <;> assumption)

theorem get_obj (a b : Expr) (m : List (Str × JV)) (k : Str)
    (ha : eval orc fuel a ctx = .ok (some (.obj m))) (hb : eval orc fuel b ctx = .ok (some (.str k))) :
    eval orc (fuel + 1) (.call "get" [a, b]) ctx = .ok (objGet? m k) := by
  first
    | exact EvalLaws.get_obj ..
    | (apply EvalLaws.get_obj <;> assumption)

/-- "Get the list of keys from an object.": in member order -/
theorem keys_obj (a : Expr) (m : List (Str × JV)) (ha : eval orc fuel a ctx = .ok (some (.obj m))) :
    eval orc (fuel + 1) (.call "keys" [a]) ctx = .ok (some (.arr (m.map (fun kv => JV.str kv.1)))) := by
  first
    | exact EvalLaws.keys_obj ..
    | (apply EvalLaws.keys_obj <;> assumption)

/-- "Get the list of values from an object.": in member order -/
theorem values_obj (a : Expr) (m : List (Str × JV)) (ha : eval orc fuel a ctx = .ok (some (.obj m))) :
    eval orc (fuel + 1) (.call "values" [a]) ctx = .ok (some (.arr (m.map (·.2)))) := by
  first
    | exact EvalLaws.values_obj ..
    | (apply EvalLaws.values_obj <;> assumption)

/-- "Each item of the list will be an object with `key` and `value` entries": in member order -/
theorem entries_obj (a : Expr) (m : List (Str × JV)) (ha : eval orc fuel a ctx = .ok (some (.obj m))) :
    eval orc (fuel + 1) (.call "entries" [a]) ctx =
      .ok (some (.arr (m.map (fun kv => JV.obj [("value".toList, kv.2), ("key".toList, .str kv.1)])))) := by
  first
    | exact EvalLaws.entries_obj ..
    | (apply EvalLaws.entries_obj <;> assumption)

theorem map_arr (a f : Expr) (l : List JV) (g : JV → Option JV)
    (ha : eval orc fuel a ctx = .ok (some (.arr l)))
    (hf : ∀ v ∈ l, eval orc fuel f (ctx.withInput v) = .ok (g v)) :
    eval orc (fuel + 1) (.call "map" [a, f]) ctx = .ok (some (.arr (l.filterMap g))) := by
  first
    | exact EvalLaws.map_arr ..
    | (apply EvalLaws.map_arr <;> assumption)

/-- whatever the function is: a result of `map` on an array is an array of at most as many items, and an abort
of `map` is an abort of the function on one of the items -/
theorem map_arr_result (a f : Expr) (l : List JV) (ha : eval orc fuel a ctx = .ok (some (.arr l))) :
    (∃ rs : List (Option JV), rs.length = l.length ∧
        l.map (fun v => eval orc fuel f (ctx.withInput v)) = rs.map .ok ∧
        eval orc (fuel + 1) (.call "map" [a, f]) ctx = .ok (some (.arr (rs.filterMap id))) ∧
        (rs.filterMap id).length ≤ l.length) ∨
    (∃ e, eval orc (fuel + 1) (.call "map" [a, f]) ctx = .error e ∧
        ∃ v ∈ l, eval orc fuel f (ctx.withInput v) = .error e) := by
  first
    | exact EvalLaws.map_arr_result ..
    | (apply EvalLaws.map_arr_result <;> assumption)

/-- `filter`: the items for which the function is `true`, in their original order -/
theorem filter_arr (a f : Expr) (l : List JV) (p : JV → Option JV)
    (ha : eval orc fuel a ctx = .ok (some (.arr l)))
    (hf : ∀ v ∈ l, eval orc fuel f (ctx.withInput v) = .ok (p v)) :
    eval orc (fuel + 1) (.call "filter" [a, f]) ctx = .ok (some (.arr (l.filter (fun v => isTrue (p v))))) := by
  first
    | exact EvalLaws.filter_arr ..
    | (apply EvalLaws.filter_arr <;> assumption)

/-- whatever the function is: a result of `filter` on an array is a sub-list (`List.Sublist`: same items, same
order, some left out) of the array, and an abort is an abort of the function on one of the items -/
theorem filter_arr_result (a f : Expr) (l : List JV) (ha : eval orc fuel a ctx = .ok (some (.arr l))) :
    (∃ l' : List JV, eval orc (fuel + 1) (.call "filter" [a, f]) ctx = .ok (some (.arr l')) ∧ l'.Sublist l) ∨
    (∃ e, eval orc (fuel + 1) (.call "filter" [a, f]) ctx = .error e ∧
        ∃ v ∈ l, eval orc fuel f (ctx.withInput v) = .error e) := by
  first
    | exact EvalLaws.filter_arr_result ..
    | (apply EvalLaws.filter_arr_result <;> assumption)

/-- the count is not a non-negative integer ⇒ nothing (the first argument is not even looked at) -/
theorem take_bad_count (a b : Expr) (w : Option JV) (hw : usizeArg w = none)
    (hb : eval orc fuel b ctx = .ok w) :
    eval orc (fuel + 1) (.call "take" [a, b]) ctx = .ok none := by
  first
    | exact EvalLaws.take_bad_count ..
    | (apply EvalLaws.take_bad_count <;> assumption)

/-- the first argument is not an object, array or string ⇒ nothing -/
theorem take_wrong_type (a b : Expr) (v w : Option JV) (hv : isColl v = false)
    (ha : eval orc fuel a ctx = .ok v) (hb : eval orc fuel b ctx = .ok w) :
    eval orc (fuel + 1) (.call "take" [a, b]) ctx = .ok none := by
  first
    | exact EvalLaws.take_wrong_type ..
    | (apply EvalLaws.take_wrong_type <;> assumption)

/-- `take` aborts only when the evaluation of one of its arguments aborts -/
theorem take_total (a b : Expr) (v w : Option JV)
    (ha : eval orc fuel a ctx = .ok v) (hb : eval orc fuel b ctx = .ok w) :
    ∃ r, eval orc (fuel + 1) (.call "take" [a, b]) ctx = .ok r := by
  first
    | exact EvalLaws.take_total ..
    | (apply EvalLaws.take_total <;> assumption)

/-- "50 is not an array, not an object nor a string." -/
theorem size_wrong_type (a : Expr) (v : Option JV) (hv : isColl v = false)
    (ha : eval orc fuel a ctx = .ok v) :
    eval orc (fuel + 1) (.call "size" [a]) ctx = .ok none := by
  first
    | exact EvalLaws.size_wrong_type ..
    | (apply EvalLaws.size_wrong_type <;> assumption)

/-- the first argument is neither an object nor an array ⇒ nothing (the second is not even looked at) -/
theorem get_wrong_type (a b : Expr) (v : Option JV) (hv : isObj v = false) (hv' : isArr v = false)
    (ha : eval orc fuel a ctx = .ok v) :
    eval orc (fuel + 1) (.call "get" [a, b]) ctx = .ok none := by
  first
    | exact EvalLaws.get_wrong_type ..
    | (apply EvalLaws.get_wrong_type <;> assumption)

theorem keys_wrong_type (a : Expr) (v : Option JV) (hv : isObj v = false) (ha : eval orc fuel a ctx = .ok v) :
    eval orc (fuel + 1) (.call "keys" [a]) ctx = .ok none := by
  first
    | exact EvalLaws.keys_wrong_type ..
    | (apply EvalLaws.keys_wrong_type <;> assumption)

/-- `and`: "Return true if all the arguments are true, nothing if there is a non boolean argument and false if
there is a false argument." — truth table on two booleans -/
theorem and_bool (a b : Expr) (x y : Bool)
    (ha : eval orc fuel a ctx = .ok (some (.bool x))) (hb : eval orc fuel b ctx = .ok (some (.bool y))) :
    eval orc (fuel + 1) (.call "and" [a, b]) ctx = .ok (some (.bool (x && y))) := by
  first
    | exact EvalLaws.and_bool ..
    | (apply EvalLaws.and_bool <;> assumption)

/-- `or`: "Return true if any of the arguments are true, nothing if there is a non boolean argument and false if
all the arguments are false." -/
theorem or_bool (a b : Expr) (x y : Bool)
    (ha : eval orc fuel a ctx = .ok (some (.bool x))) (hb : eval orc fuel b ctx = .ok (some (.bool y))) :
    eval orc (fuel + 1) (.call "or" [a, b]) ctx = .ok (some (.bool (x || y))) := by
  first
    | exact EvalLaws.or_bool ..
    | (apply EvalLaws.or_bool <;> assumption)

/-- `not`: "Return false if the argument is true and true if the argument is false." -/
theorem not_bool (a : Expr) (x : Bool) (ha : eval orc fuel a ctx = .ok (some (.bool x))) :
    eval orc (fuel + 1) (.call "not" [a]) ctx = .ok (some (.bool (!x))) := by
  first
    | exact EvalLaws.not_bool ..
    | (apply EvalLaws.not_bool <;> assumption)

/-- `xor`: "Return true if one, and only one, of the argument is true." -/
theorem xor_bool (a b : Expr) (x y : Bool)
    (ha : eval orc fuel a ctx = .ok (some (.bool x))) (hb : eval orc fuel b ctx = .ok (some (.bool y))) :
    eval orc (fuel + 1) (.call "xor" [a, b]) ctx = .ok (some (.bool (x != y))) := by
  first
    | exact EvalLaws.xor_bool ..
    | (apply EvalLaws.xor_bool <;> assumption)

theorem and_non_bool_left (a b : Expr) (v : Option JV) (hv : isBool v = false)
    (ha : eval orc fuel a ctx = .ok v) :
    eval orc (fuel + 1) (.call "and" [a, b]) ctx = .ok none := by
  first
    | exact EvalLaws.and_non_bool_left ..
    | (apply EvalLaws.and_non_bool_left <;> assumption)

/-- `=`: "Compare two value and return true if both are equals." -/
theorem eq_vals (a b : Expr) (x y : JV)
    (ha : eval orc fuel a ctx = .ok (some x)) (hb : eval orc fuel b ctx = .ok (some y)) :
    eval orc (fuel + 1) (.call "=" [a, b]) ctx = .ok (some (.bool (JV.beq x y))) := by
  first
    | exact EvalLaws.eq_vals ..
    | (apply EvalLaws.eq_vals <;> assumption)

/-- the order comparisons are those of `JV.cmp` (`impl Ord for JsonValue`) -/
theorem lt_vals (a b : Expr) (x y : JV)
    (ha : eval orc fuel a ctx = .ok (some x)) (hb : eval orc fuel b ctx = .ok (some y)) :
    eval orc (fuel + 1) (.call "<" [a, b]) ctx = .ok (some (.bool (JV.cmp x y == .lt))) := by
  first
    | exact EvalLaws.lt_vals ..
    | (apply EvalLaws.lt_vals <;> assumption)

/-- a comparison with nothing on either side is nothing -/
theorem cmp_nothing (op : String) (hop : op ∈ ["=", "!=", "<", "<=", ">", ">="]) (a b : Expr) (v w : Option JV)
    (h : v = none ∨ w = none)
    (ha : eval orc fuel a ctx = .ok v) (hb : eval orc fuel b ctx = .ok w) :
    eval orc (fuel + 1) (.call op [a, b]) ctx = .ok none := by
  first
    | exact EvalLaws.cmp_nothing ..
    | (apply EvalLaws.cmp_nothing <;> assumption)

/-- `?` / `if`: "Return the second argument if the first argument is true. Return the third argument if the first
is false. Return nothing if the first argument is not Boolean".  Only the selected branch is evaluated. -/
theorem cond_true (c a b : Expr) (hc : eval orc fuel c ctx = .ok (some (.bool true))) :
    eval orc (fuel + 1) (.call "?" [c, a, b]) ctx = eval orc fuel a ctx := by
  first
    | exact EvalLaws.cond_true ..
    | (apply EvalLaws.cond_true <;> assumption)

theorem cond_false (c a b : Expr) (hc : eval orc fuel c ctx = .ok (some (.bool false))) :
    eval orc (fuel + 1) (.call "?" [c, a, b]) ctx = eval orc fuel b ctx := by
  first
    | exact EvalLaws.cond_false ..
    | (apply EvalLaws.cond_false <;> assumption)

/-- `reverese` is an involution -/
theorem reverese_reverese (a : Expr) (l : List JV) (ha : eval orc fuel a ctx = .ok (some (.arr l))) :
    eval orc (fuel + 2) (.call "reverese" [.call "reverese" [a]]) ctx = .ok (some (.arr l)) := by
  first
    | exact EvalLaws.reverese_reverese ..
    | (apply EvalLaws.reverese_reverese <;> assumption)

/-- `pop (push l x) = l` -/
theorem pop_push (a x : Expr) (l : List JV) (v : JV)
    (ha : eval orc fuel a ctx = .ok (some (.arr l))) (hx : eval orc fuel x ctx = .ok (some v)) :
    eval orc (fuel + 2) (.call "pop" [.call "push" [a, x]]) ctx = .ok (some (.arr l)) := by
  first
    | exact EvalLaws.pop_push ..
    | (apply EvalLaws.pop_push <;> assumption)

/-- `size (push l x) = size l + 1` -/
theorem size_push (a x : Expr) (l : List JV) (v : JV)
    (ha : eval orc fuel a ctx = .ok (some (.arr l))) (hx : eval orc fuel x ctx = .ok (some v)) :
    eval orc (fuel + 2) (.call "size" [.call "push" [a, x]]) ctx = .ok (some (.num (.pos (l.length + 1)))) := by
  first
    | exact EvalLaws.size_push ..
    | (apply EvalLaws.size_push <;> assumption)

/-- `(+ a b)` on two non-negative integers whose sum is below `2^53` is the exact integer sum -/
theorem add_pos_pos (a b : Expr) (m n : Nat) (h : m + n < 2 ^ 53)
    (ha : eval orc fuel a ctx = .ok (some (.num (.pos m)))) (hb : eval orc fuel b ctx = .ok (some (.num (.pos n)))) :
    eval orc (fuel + 1) (.call "+" [a, b]) ctx = .ok (some (.num (.pos (m + n)))) := by
  first
    | exact EvalLaws.add_pos_pos ..
    | (apply EvalLaws.add_pos_pos <;> assumption)

/-- integral and in `[0, 2^64-1)`: a `Positive` integer, never a float -/
theorem ofF64_pos (f : F64) (hfr : f.fractIsZero = true) (h0 : F64.le F64.zero f = true)
    (h1 : F64.lt f (F64.ofNat (2 ^ 64 - 1)) = true) :
    Num.ofF64 f = .pos f.toU64 := by
  first
    | exact EvalLaws.ofF64_pos ..
    | (apply EvalLaws.ofF64_pos <;> assumption)

/-- integral and in `(-2^63, 0)`: a `Negative` integer, never a float -/
theorem ofF64_neg (f : F64) (hfr : f.fractIsZero = true) (h0 : F64.lt f F64.zero = true)
    (h1 : F64.lt (F64.ofInt (-(2 ^ 63))) f = true) :
    Num.ofF64 f = .neg f.toI64 := by
  first
    | exact EvalLaws.ofF64_neg ..
    | (apply EvalLaws.ofF64_neg <;> assumption)

/-- "a string with the beggining of the first argument" -/
theorem head_str (a b : Expr) (s : Str) (n : Nat)
    (ha : eval orc fuel a ctx = .ok (some (.str s))) (hb : eval orc fuel b ctx = .ok (some (.num (.pos n)))) :
    eval orc (fuel + 1) (.call "head" [a, b]) ctx = .ok (some (.str (s.take n))) := by
  first
    | exact EvalLaws.head_str ..
    | (apply EvalLaws.head_str <;> assumption)

/-- "a string with the end of the first argument": the string WITHOUT its first `n` characters
(the whole string when it has fewer than `n`) -/
theorem tail_str (a b : Expr) (s : Str) (n : Nat)
    (ha : eval orc fuel a ctx = .ok (some (.str s))) (hb : eval orc fuel b ctx = .ok (some (.num (.pos n)))) :
    eval orc (fuel + 1) (.call "tail" [a, b]) ctx = .ok (some (.str (if s.length < n then s else s.drop n))) := by
  first
    | exact EvalLaws.tail_str ..
    | (apply EvalLaws.tail_str <;> assumption)

/-- "The first item in a list." (nothing for the empty list) -/
theorem first_arr (a : Expr) (l : List JV) (ha : eval orc fuel a ctx = .ok (some (.arr l))) :
    eval orc (fuel + 1) (.call "first" [a]) ctx = .ok l.head? := by
  first
    | exact EvalLaws.first_arr ..
    | (apply EvalLaws.first_arr <;> assumption)

/-- "The last item in a list." (nothing for the empty list) -/
theorem last_arr (a : Expr) (l : List JV) (ha : eval orc fuel a ctx = .ok (some (.arr l))) :
    eval orc (fuel + 1) (.call "last" [a]) ctx = .ok l.getLast? := by
  first
    | exact EvalLaws.last_arr ..
    | (apply EvalLaws.last_arr <;> assumption)

theorem default_value (a : Expr) (rest : List Expr) (v : JV) (ha : eval orc fuel a ctx = .ok (some v)) :
    eval orc (fuel + 1) (.call "default" (a :: rest)) ctx = .ok (some v) := by
  first
    | exact EvalLaws.default_value ..
    | (apply EvalLaws.default_value <;> assumption)

theorem default_nothing (a : Expr) (rest : List Expr) (ha : eval orc fuel a ctx = .ok none) :
    eval orc (fuel + 1) (.call "default" (a :: rest)) ctx = eval orc (fuel + 1) (.call "default" rest) ctx := by
  first
    | exact EvalLaws.default_nothing ..
    | (apply EvalLaws.default_nothing <;> assumption)

/-! ### non-vacuity -/
example : eval {} 10 (.call "take" [.const (.arr [.null, .bool true]), .const (.num (.pos 0))]) {} = .ok (some (.arr [])) :=
  take_arr_zero {} 9 {} (.const (.arr [.null, .bool true])) (.const (.num (.pos 0))) [.null, .bool true] rfl rfl

end Jawk.C04
