/-
  C05 — no input data and no parsable expression can make jawk panic or hang.

  In the model every byte loop is fuelled and running out of fuel is an explicit outcome
  (`PErr.outOfFuel`), every Rust panic site is an explicit outcome (`Abort.panic site`) and unbounded
  recursion is an explicit outcome (`Abort.overflow`).  The theorems show these outcomes unreachable —
  for every byte stream, every reader state the program can be in, every expression the parser can
  produce — except `overflow`, which is reachable exactly through self-referential macros /
  `parse_selection` (the known finding F9, proved below with a witness).
  Helper lemmas: `Jawk/Lemmas/Fuel.lean`, `Jawk/Lemmas/NoPanic.lean`.
-/
import Jawk.Lemmas.Fuel
import Jawk.Lemmas.NoPanic
import Jawk.Lemmas.Parents
namespace Jawk.C05
open Jawk Fuel NoPanic

/-! ### the reader terminates and makes progress on every byte stream -/

/-- the invariant `eof → no look-ahead byte` holds for every reader the program constructs and is preserved
by every parser action -/
theorem reader_invariant (items : List RItem) (name : Option Str) :
    WF (Reader.ofItems items name) ∧ ∀ r, WF r → WF (Reader.nextJson r).2 :=
  ⟨wf_ofItems items name, fun r hw => nextJson_wf r hw⟩

/-- reading one value never runs out of fuel: whatever the bytes (valid JSON or not, valid UTF-8 or not,
I/O errors included) the parser returns a value, end of input, or an error — it never loops -/
theorem parser_terminates (r : Reader) (hw : WF r) : (Reader.nextJson r).1 ≠ .error .outOfFuel :=
  nextJson_fuel r hw

/-- every call that does not report end of input consumes at least one byte — a value, a malformed region
and a read error alike: this is the termination argument of the read loop -/
theorem read_loop_progress (r : Reader) (hw : WF r) {res : Except PErr (Option JV)} {r' : Reader}
    (h : Reader.nextJson r = (res, r')) (h1 : res ≠ .ok none) : M r' < M r ∧ μ r' < μ r :=
  nextJson_progress r hw h h1

/-- `none` really is the end of input -/
theorem end_of_input (r : Reader) {r' : Reader} (h : Reader.nextJson r = (.ok none, r')) :
    r'.eof = true ∧ r'.cur = none := nextJson_none r h

/-- the whole run — any configuration, any number of sources, any bytes, any writers — never ends with the
model's out-of-fuel outcome: the read loop terminates -/
theorem run_terminates (orc : Oracles) (c : Cfg) (sources : List Source) (wOut wErr : Writer) :
    (run orc c sources wOut wErr).result ≠ .error (.json .outOfFuel) :=
  run_no_outOfFuel orc c sources wOut wErr

/-! ### no expression panics -/

/-- every function of the table regenerated from the source (all but `exec`, `trigger`, `now`, which are
outside every property) has an equation in the model: the dispatcher never falls through -/
theorem every_function_modelled :
    ∀ e ∈ Generated.functionTable, e.1 ∉ unmodelledNames → modelled e.1 = true := callFn_modelled

/-- the expression parser only produces calls to functions of that table, with any text -/
theorem parsed_calls_in_table {s : Str} {e : Expr} (h : parseWholeExpr s = .ok e) : AllTable e :=
  parseWholeExpr_allTable h

/-- for every expression the parser can produce, every context, every depth: if evaluation aborts with a
panic, the site is a missing library answer of the test harness (`oracle-miss:`, a modelling artefact) or one
of the three unmodelled process functions — never a site of the evaluator: no slice, subtraction,
`with_capacity` or formatting site is reachable (they were all repaired, see known_findings.json) -/
theorem eval_never_panics (orc : Oracles) (fuel : Nat) (e : Expr) (ctx : Ctx) (s : String)
    (he : AllKnown e) (hd : ∀ n d, (n, d) ∈ ctx.defs → AllKnown d)
    (h : eval orc fuel e ctx = .error (.panic s)) :
    s.startsWith "oracle-miss:" = true ∨ s ∈ unmodelledSites := eval_panic_sites orc fuel e ctx s he hd h

/-- without library-backed functions and `parse_selection`: no panic at all -/
theorem eval_never_panics_pure (orc : Oracles) (fuel : Nat) (e : Expr) (ctx : Ctx)
    (he : AllModelled e) (hp : NoParseSelection e) (ho : NoOracleCalls e)
    (hd : ∀ n d, (n, d) ∈ ctx.defs → AllModelled d ∧ NoParseSelection d ∧ NoOracleCalls d) :
    NoPanic (eval orc fuel e ctx) := eval_no_panic_pure orc fuel e ctx he hp ho hd

/-! ### carets beyond the chain of enclosing inputs fall back to the current input -/

/-- `^…^.path` with ANY number of carets, at any nesting depth, evaluates — to the path applied to the enclosing
input that many levels up, and to the current input when there are fewer enclosing inputs than carets -/
theorem carets_never_fail (orc : Oracles) (fuel parents : Nat) (steps : List Step) (ctx : Ctx) :
    eval orc (fuel + 1) (.extract parents steps) ctx = .ok (extractSteps steps (ctx.parentInput parents)) ∧
    (ctx.parents.length < parents → ctx.parentInput parents = ctx.input) ∧
    (ctx.parentInput parents = ctx.input ∨ ctx.parentInput parents ∈ ctx.parents) :=
  ⟨Parents.eval_extract orc fuel parents steps ctx, Parents.parentInput_excess ctx parents, Parents.parentInput_mem ctx parents⟩

/-! ### unbounded recursion: only through macros (known finding F9) -/

/-- a macro-free expression never exhausts the depth fuel: `evalFuel = 2000` matters only for macros -/
theorem overflow_only_by_macros (orc : Oracles) (e : Expr) (ctx : Ctx) (hd : ctx.defs = []) (hm : MacroFree e)
    (hdepth : e.depth < evalFuel) : eval orc evalFuel e ctx ≠ .error .overflow :=
  evalFuel_enough orc e ctx hd hm hdepth

/-- F9, proved on the model: a macro that reaches itself overflows at EVERY depth budget
(replayed on the real binary by `bin/check C05`: stack overflow, SIGABRT) -/
theorem self_referential_macro_overflows (orc : Oracles) (fuel : Nat) :
    eval orc fuel (.macro "f".toList) { defs := [("f".toList, .macro "f".toList)] } = .error .overflow := by
  induction fuel with
  | zero => rfl
  | succ n ih => simpa [eval, Ctx.getDefinition, Ctx.lookup] using ih

/-! ### non-vacuity -/
example : WF (Reader.ofBytes [91, 49, 44]) := wf_ofBytes _ _
example : AllKnown (.call "take" [.const (.arr []), .const (.num (.pos 0))]) := by decide +kernel

end Jawk.C05
