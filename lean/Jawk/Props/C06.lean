/-
  C06 — noise between values never changes them; the `--on-error` policies do what they say.

  `Jawk/Props/C06Steps.lean`: one garbage byte costs exactly one byte and one recoverable error; the four policy
  arms of the read loop; the three non-fatal policies for whole runs as functions of what is read.
  This file (helper `Jawk/Lemmas/Noise.lean`): the comparison the property is about — a NOISY stream (values in
  any of jawk's spellings with white-space delimited garbage tokens in the gaps, `Noise.stream`) against its CLEAN
  twin (the same stream with the garbage bytes deleted, `Gap.strip`) — and the fatal policy.
-/
import Jawk.Props.C06Steps
import Jawk.Lemmas.Noise
import Jawk.Props.Tables
namespace Jawk.C06
open Jawk Noise RunSpec Pipe

/-- MAIN (what is read): the values read from the noisy stream and from its clean twin are the same values in
the same order (rows differ in line/column only); the noisy stream yields exactly one recoverable error per garbage
byte — hence at least one per malformed region —, the clean twin none -/
theorem noise_transparent (ev : Expr → Ctx → Option JV) (c : Cfg) (cfgs : List StageCfg) (sts : List StageSt)
    (o : JsonOpts) (g0 : Gap) (items : List (JV × Gap)) (h0 : g0.OK) (hit : ItemsOK o items)
    (name : Option Str) (fuel fuel' : Nat)
    (hf : (stream o g0 items).length + 2 ≤ fuel)
    (hf' : (stream o g0.strip (stripItems items)).length + 2 ≤ fuel') (i k : Nat) :
    let noisy := Reader.ofBytes (stream o g0 items) name
    let clean := Reader.ofBytes (stream o g0.strip (stripItems items)) name
    (ctxsOf c fuel noisy i k).map (·.input) = applyOnlyObj c ((items.map (·.1)).map RT.norm)
    ∧ (ctxsOf c fuel' clean i k).map (·.input) = applyOnlyObj c ((items.map (·.1)).map RT.norm)
    ∧ (ctxsOf c fuel noisy i k).map posFree = (ctxsOf c fuel' clean i k).map posFree
    ∧ (perrsOf fuel noisy).length = garbageCount g0 items
    ∧ noisyGaps g0 items ≤ garbageCount g0 items
    ∧ (errsOf ev c cfgs fuel noisy i k sts).length ≤ garbageCount g0 items
    ∧ ((feedBrk (processP ev cfgs) sts (ctxsOf c fuel noisy i k)).2.2 = .cont →
        (errsOf ev c cfgs fuel noisy i k sts).length = garbageCount g0 items)
    ∧ perrsOf fuel' clean = []
    ∧ errsOf ev c cfgs fuel' clean i k sts = [] :=
  Noise.noise_transparent ev c cfgs sts o g0 items h0 hit name fuel fuel' hf hf' i k

/-- `ignore`, whole runs, any number of sources (stdin and files): noisy and clean runs write the SAME bytes to
standard output and nothing to standard error — for every configuration whose expressions do not read line/column
positions (`ChainPosIndep`, implied by the decidable syntactic check `chainNoPos`) -/
theorem noise_ignore_same_output (orc : Oracles) (c : Cfg) (specs : List StreamSpec) (wOut wErr : Writer)
    (p : Pipeline) (hok : ∀ s ∈ specs, s.OK) (hpol : c.onError = .ignore) (hb : build orc c = .ok p)
    (hna : NoAbort orc p.cfgs) (hpi : ChainPosIndep (evalT orc) p.cfgs) (hw : Unbounded wOut)
    (hh : ¬ HeaderMissing p) :
    (run orc c (specs.map StreamSpec.source) wOut wErr).result = .ok ()
    ∧ (run orc c (specs.map (fun s => s.strip.source)) wOut wErr).result = .ok ()
    ∧ (run orc c (specs.map StreamSpec.source) wOut wErr).stdout
        = (run orc c (specs.map (fun s => s.strip.source)) wOut wErr).stdout
    ∧ (run orc c (specs.map StreamSpec.source) wOut wErr).stderr = wErr.out
    ∧ (run orc c (specs.map (fun s => s.strip.source)) wOut wErr).stderr = wErr.out :=
  Noise.noise_ignore_same_output orc c specs wOut wErr p hok hpol hb hna hpi hw hh

/-- `stderr`: same standard output as the clean run; the reports — one per recoverable error — go to standard
error and nowhere else; the clean run's standard error is untouched -/
theorem noise_stderr_same_output (orc : Oracles) (c : Cfg) (specs : List StreamSpec) (wOut wErr : Writer)
    (p : Pipeline) (hok : ∀ s ∈ specs, s.OK) (hpol : c.onError = .stderr) (hb : build orc c = .ok p)
    (hna : NoAbort orc p.cfgs) (hpi : ChainPosIndep (evalT orc) p.cfgs) (hw : Unbounded wOut)
    (he : Unbounded wErr) (hh : ¬ HeaderMissing p) :
    (run orc c (specs.map StreamSpec.source) wOut wErr).result = .ok ()
    ∧ (run orc c (specs.map (fun s => s.strip.source)) wOut wErr).result = .ok ()
    ∧ (run orc c (specs.map StreamSpec.source) wOut wErr).stdout
        = (run orc c (specs.map (fun s => s.strip.source)) wOut wErr).stdout
    ∧ (run orc c (specs.map StreamSpec.source) wOut wErr).stderr
        = wErr.out ++ (errsOfSources (evalT orc) c p.cfgs (specs.map StreamSpec.source) 0 p.sts).flatMap reportBytes
    ∧ (run orc c (specs.map (fun s => s.strip.source)) wOut wErr).stderr = wErr.out :=
  Noise.noise_stderr_same_output orc c specs wOut wErr p hok hpol hb hna hpi hw he hh

theorem position_independence_is_syntactic (orc : Oracles) (cfgs : List StageCfg) (h : chainNoPos cfgs = true) :
    ChainPosIndep (evalT orc) cfgs := chainPosIndep_of_noPos orc cfgs h

/-- `panic`: the run fails at the FIRST malformed byte `b` with `unexpectedChar … b` (unless the chain had already
answered Break), nothing is written to standard error, and a streaming chain has by then written exactly the
header and the rows of the values that precede that byte; a clean stream succeeds -/
theorem panic_fails_at_first_noise (orc : Oracles) (c : Cfg) (name : Option Str) (o : JsonOpts) (g0 : Gap)
    (items : List (JV × Gap)) (h0 : g0.OK) (hit : ItemsOK o items) (wOut wErr : Writer) (p : Pipeline)
    (hpol : c.onError = .panic) (hb : build orc c = .ok p)
    (hna : NoAbort orc p.cfgs) (hw : Unbounded wOut) (hh : ¬ HeaderMissing p) :
    ∃ pre : List Ctx,
      pre.map (·.input) = applyOnlyObj c ((cleanPrefix g0 items).map RT.norm) ∧
      (∀ b, firstGarbage g0 items = some b →
          (feedBrk (processP (evalT orc) p.cfgs) p.sts pre).2.2 = .cont →
        ∃ loc,
          (run orc c [streamSource name o g0 items] wOut wErr).result
            = .error (.json (.unexpectedChar loc b valueExpected))
          ∧ (run orc c [streamSource name o g0 items] wOut wErr).stdout
              = wOut.out ++ headerBytes p ++
                (feedBrk (processP (evalT orc) p.cfgs) p.sts pre).2.1.flatMap (sinkBytes p.sink p.sinkLen)
          ∧ (Streaming p.cfgs →
              (run orc c [streamSource name o g0 items] wOut wErr).stdout
                = wOut.out ++ headerBytes p ++
                  (specRows (evalT orc) p.cfgs p.sts pre).flatMap (sinkBytes p.sink p.sinkLen))
          ∧ (run orc c [streamSource name o g0 items] wOut wErr).stderr = wErr.out) ∧
      ((firstGarbage g0 items = none ∨ (feedBrk (processP (evalT orc) p.cfgs) p.sts pre).2.2 = .brk) →
        (run orc c [streamSource name o g0 items] wOut wErr).result = .ok ()
        ∧ (run orc c [streamSource name o g0 items] wOut wErr).stdout
            = wOut.out ++ headerBytes p ++
              (specRows (evalT orc) p.cfgs p.sts pre).flatMap (sinkBytes p.sink p.sinkLen)
        ∧ (run orc c [streamSource name o g0 items] wOut wErr).stderr = wErr.out) :=
  Noise.run_panic_noisy orc c name o g0 items h0 hit wOut wErr p hpol hb hna hw hh

/-- a clean stream produces no error report under ANY policy, and the run succeeds -/
theorem clean_no_reports (orc : Oracles) (c : Cfg) (specs : List StreamSpec) (wOut wErr : Writer) (p : Pipeline)
    (hok : ∀ s ∈ specs, s.OK) (hclean : ∀ s ∈ specs, s.Clean)
    (hb : build orc c = .ok p) (hna : NoAbort orc p.cfgs) (hw : Unbounded wOut)
    (he : c.onError = .stderr → Unbounded wErr) (hh : ¬ HeaderMissing p) :
    errsOfSources (evalT orc) c p.cfgs (specs.map StreamSpec.source) 0 p.sts = []
    ∧ (run orc c (specs.map StreamSpec.source) wOut wErr).result = .ok ()
    ∧ (run orc c (specs.map StreamSpec.source) wOut wErr).stdout
        = wOut.out ++ headerBytes p ++
          (specRows (evalT orc) p.cfgs p.sts (ctxsOfSources c (specs.map StreamSpec.source) 0)).flatMap
            (sinkBytes p.sink p.sinkLen)
    ∧ (run orc c (specs.map StreamSpec.source) wOut wErr).stderr = wErr.out :=
  Noise.clean_no_reports orc c specs wOut wErr p hok hclean hb hna hw he hh

end Jawk.C06
