/-
  C06 — noise between values never changes them; the `--on-error` policies do what they say.

  `Jawk/Props/C06Steps.lean`: one garbage byte costs exactly one byte and one recoverable error; the four policy
  arms of the read loop; the three non-fatal policies for whole runs as functions of what is read.
  This file (helper `Jawk/Lemmas/Noise.lean`): the comparison the property is about — a NOISY stream (values in
  any of jawk's spellings with white-space delimited garbage tokens in the gaps, `Noise.stream`) against its CLEAN
  twin (the same stream with the garbage bytes deleted, `Gap.strip`) — and the fatal policy.
-/
import Jawk.Props.C06Steps
import Jawk.Lemmas.Noise
import Jawk.Lemmas.Noise2
import Jawk.Props.Tables
namespace Jawk.C06
open Jawk Noise Noise2 RunSpec Pipe

/-- MAIN (what is read): the values read from the noisy stream and from its clean twin are the same values in
the same order (rows differ in line/column only); the noisy stream yields exactly one recoverable error per garbage
byte — hence at least one per malformed region —, the clean twin none -/
theorem noise_transparent (ev : Expr → Ctx → Option JV) (c : Cfg) (cfgs : List StageCfg) (sts : List StageSt)
    (o : JsonOpts) (g0 : Gap) (items : List (JV × Gap)) (h0 : g0.OK) (hit : ItemsOK o items)
    (name : Option Str) (fuel fuel' : Nat)
    (hf : (stream o g0 items).length + 2 ≤ fuel)
    (hf' : (stream o g0.strip (stripItems items)).length + 2 ≤ fuel') (i k : Nat) :
    let noisy := Reader.ofBytes (stream o g0 items) name
    let clean := Reader.ofBytes (stream o g0.strip (stripItems items)) name
    (ctxsOf c fuel noisy i k).map (·.input) = applyOnlyObj c ((items.map (·.1)).map RT.norm)
    ∧ (ctxsOf c fuel' clean i k).map (·.input) = applyOnlyObj c ((items.map (·.1)).map RT.norm)
    ∧ (ctxsOf c fuel noisy i k).map posFree = (ctxsOf c fuel' clean i k).map posFree
    ∧ (perrsOf fuel noisy).length = garbageCount g0 items
    ∧ noisyGaps g0 items ≤ garbageCount g0 items
    ∧ (errsOf ev c cfgs fuel noisy i k sts).length ≤ garbageCount g0 items
    ∧ ((feedBrk (processP ev cfgs) sts (ctxsOf c fuel noisy i k)).2.2 = .cont →
        (errsOf ev c cfgs fuel noisy i k sts).length = garbageCount g0 items)
    ∧ perrsOf fuel' clean = []
    ∧ errsOf ev c cfgs fuel' clean i k sts = [] :=
  Noise.noise_transparent ev c cfgs sts o g0 items h0 hit name fuel fuel' hf hf' i k

/-- `ignore`, whole runs, any number of sources (stdin and files): noisy and clean runs write the SAME bytes to
standard output and nothing to standard error — for every configuration whose expressions do not read line/column
positions (`ChainPosIndep`, implied by the decidable syntactic check `chainNoPos`) -/
theorem noise_ignore_same_output (orc : Oracles) (c : Cfg) (specs : List StreamSpec) (wOut wErr : Writer)
    (p : Pipeline) (hok : ∀ s ∈ specs, s.OK) (hpol : c.onError = .ignore) (hb : build orc c = .ok p)
    (hna : NoAbort orc p.cfgs) (hpi : ChainPosIndep (evalT orc) p.cfgs) (hw : Unbounded wOut)
    (hh : ¬ HeaderMissing p) :
    (run orc c (specs.map StreamSpec.source) wOut wErr).result = .ok ()
    ∧ (run orc c (specs.map (fun s => s.strip.source)) wOut wErr).result = .ok ()
    ∧ (run orc c (specs.map StreamSpec.source) wOut wErr).stdout
        = (run orc c (specs.map (fun s => s.strip.source)) wOut wErr).stdout
    ∧ (run orc c (specs.map StreamSpec.source) wOut wErr).stderr = wErr.out
    ∧ (run orc c (specs.map (fun s => s.strip.source)) wOut wErr).stderr = wErr.out :=
  Noise.noise_ignore_same_output orc c specs wOut wErr p hok hpol hb hna hpi hw hh

/-- `stderr`: same standard output as the clean run; the reports — one per recoverable error — go to standard
error and nowhere else; the clean run's standard error is untouched -/
theorem noise_stderr_same_output (orc : Oracles) (c : Cfg) (specs : List StreamSpec) (wOut wErr : Writer)
    (p : Pipeline) (hok : ∀ s ∈ specs, s.OK) (hpol : c.onError = .stderr) (hb : build orc c = .ok p)
    (hna : NoAbort orc p.cfgs) (hpi : ChainPosIndep (evalT orc) p.cfgs) (hw : Unbounded wOut)
    (he : Unbounded wErr) (hh : ¬ HeaderMissing p) :
    (run orc c (specs.map StreamSpec.source) wOut wErr).result = .ok ()
    ∧ (run orc c (specs.map (fun s => s.strip.source)) wOut wErr).result = .ok ()
    ∧ (run orc c (specs.map StreamSpec.source) wOut wErr).stdout
        = (run orc c (specs.map (fun s => s.strip.source)) wOut wErr).stdout
    ∧ (run orc c (specs.map StreamSpec.source) wOut wErr).stderr
        = wErr.out ++ (errsOfSources (evalT orc) c p.cfgs (specs.map StreamSpec.source) 0 p.sts).flatMap reportBytes
    ∧ (run orc c (specs.map (fun s => s.strip.source)) wOut wErr).stderr = wErr.out :=
  Noise.noise_stderr_same_output orc c specs wOut wErr p hok hpol hb hna hpi hw he hh

theorem position_independence_is_syntactic (orc : Oracles) (cfgs : List StageCfg) (h : chainNoPos cfgs = true) :
    ChainPosIndep (evalT orc) cfgs := chainPosIndep_of_noPos orc cfgs h

/-- `panic`: the run fails at the FIRST malformed byte `b` with `unexpectedChar … b` (unless the chain had already
answered Break), nothing is written to standard error, and a streaming chain has by then written exactly the
header and the rows of the values that precede that byte; a clean stream succeeds -/
theorem panic_fails_at_first_noise (orc : Oracles) (c : Cfg) (name : Option Str) (o : JsonOpts) (g0 : Gap)
    (items : List (JV × Gap)) (h0 : g0.OK) (hit : ItemsOK o items) (wOut wErr : Writer) (p : Pipeline)
    (hpol : c.onError = .panic) (hb : build orc c = .ok p)
    (hna : NoAbort orc p.cfgs) (hw : Unbounded wOut) (hh : ¬ HeaderMissing p) :
    ∃ pre : List Ctx,
      pre.map (·.input) = applyOnlyObj c ((cleanPrefix g0 items).map RT.norm) ∧
      (∀ b, firstGarbage g0 items = some b →
          (feedBrk (processP (evalT orc) p.cfgs) p.sts pre).2.2 = .cont →
        ∃ loc,
          (run orc c [streamSource name o g0 items] wOut wErr).result
            = .error (.json (.unexpectedChar loc b valueExpected))
          ∧ (run orc c [streamSource name o g0 items] wOut wErr).stdout
              = wOut.out ++ headerBytes p ++
                (feedBrk (processP (evalT orc) p.cfgs) p.sts pre).2.1.flatMap (sinkBytes p.sink p.sinkLen)
          ∧ (Streaming p.cfgs →
              (run orc c [streamSource name o g0 items] wOut wErr).stdout
                = wOut.out ++ headerBytes p ++
                  (specRows (evalT orc) p.cfgs p.sts pre).flatMap (sinkBytes p.sink p.sinkLen))
          ∧ (run orc c [streamSource name o g0 items] wOut wErr).stderr = wErr.out) ∧
      ((firstGarbage g0 items = none ∨ (feedBrk (processP (evalT orc) p.cfgs) p.sts pre).2.2 = .brk) →
        (run orc c [streamSource name o g0 items] wOut wErr).result = .ok ()
        ∧ (run orc c [streamSource name o g0 items] wOut wErr).stdout
            = wOut.out ++ headerBytes p ++
              (specRows (evalT orc) p.cfgs p.sts pre).flatMap (sinkBytes p.sink p.sinkLen)
        ∧ (run orc c [streamSource name o g0 items] wOut wErr).stderr = wErr.out) :=
  Noise.run_panic_noisy orc c name o g0 items h0 hit wOut wErr p hpol hb hna hw hh

/-- a clean stream produces no error report under ANY policy, and the run succeeds -/
theorem clean_no_reports (orc : Oracles) (c : Cfg) (specs : List StreamSpec) (wOut wErr : Writer) (p : Pipeline)
    (hok : ∀ s ∈ specs, s.OK) (hclean : ∀ s ∈ specs, s.Clean)
    (hb : build orc c = .ok p) (hna : NoAbort orc p.cfgs) (hw : Unbounded wOut)
    (he : c.onError = .stderr → Unbounded wErr) (hh : ¬ HeaderMissing p) :
    errsOfSources (evalT orc) c p.cfgs (specs.map StreamSpec.source) 0 p.sts = []
    ∧ (run orc c (specs.map StreamSpec.source) wOut wErr).result = .ok ()
    ∧ (run orc c (specs.map StreamSpec.source) wOut wErr).stdout
        = wOut.out ++ headerBytes p ++
          (specRows (evalT orc) p.cfgs p.sts (ctxsOfSources c (specs.map StreamSpec.source) 0)).flatMap
            (sinkBytes p.sink p.sinkLen)
    ∧ (run orc c (specs.map StreamSpec.source) wOut wErr).stderr = wErr.out :=
  Noise.clean_no_reports orc c specs wOut wErr p hok hclean hb hna hw he hh

/-! ### beyond the property's quantifier (helper `Jawk/Lemmas/Noise2.lean`)

The same statements for streams whose values are spelled in ANY conforming way (`Ser.Ser`, the independent
grammar) and whose garbage may TOUCH the value before it whenever that cannot change the value's token
(`Ser.Delimited`: after a number, no digit, `.`, `e`, `E`).  The clean twin replaces every garbage byte by a
space (`Gap.blank`): deleting it could glue two values together (`strip_glues`: `1x2` → `12`). -/

/-- **MAIN `noise_transparent2`.**  A noisy stream of conforming texts (garbage possibly touching the values) and
its blanked twin (every garbage byte replaced by a space; same length): both hand the pipeline the same values
with the same ordinals — the values of the items themselves, scalars dropped under `--only-objects-and-arrays`;
the rows differ in their locations only.  The noisy stream holds exactly one recoverable error per garbage byte,
hence at least one per malformed region; the twin none. -/
theorem noise_transparent2 (ev : Expr → Ctx → Option JV) (c : Cfg) (cfgs : List StageCfg) (sts : List StageSt)
    (g0 : Gap) (items : List Item) (h0 : g0.OK) (hit : ItemsOK2 items)
    (name : Option Str) (fuel fuel' : Nat)
    (hf : (stream2 g0 items).length + 2 ≤ fuel) (hf' : (stream2 g0 items).length + 2 ≤ fuel') (i k : Nat) :
    let noisy := Reader.ofBytes (stream2 g0 items) name
    let clean := Reader.ofBytes (stream2 g0.blank (blankItems items)) name
    (ctxsOf c fuel noisy i k).map (·.input) = applyOnlyObj c (items.map (·.v))
    ∧ (ctxsOf c fuel' clean i k).map (·.input) = applyOnlyObj c (items.map (·.v))
    ∧ (ctxsOf c fuel noisy i k).map posFree = (ctxsOf c fuel' clean i k).map posFree
    ∧ (perrsOf fuel noisy).length = garbageCount2 g0 items
    ∧ noisyGaps2 g0 items ≤ garbageCount2 g0 items
    ∧ (errsOf ev c cfgs fuel noisy i k sts).length ≤ garbageCount2 g0 items
    ∧ ((feedBrk (processP ev cfgs) sts (ctxsOf c fuel noisy i k)).2.2 = .cont →
        (errsOf ev c cfgs fuel noisy i k sts).length = garbageCount2 g0 items)
    ∧ perrsOf fuel' clean = []
    ∧ errsOf ev c cfgs fuel' clean i k sts = [] := by
  first
    | exact Noise2.noise_transparent2 ..
    | (apply Noise2.noise_transparent2 <;> assumption)

/-- **noise_ignore_same_output2.**  Under `ignore`, any number of sources (stdin and files), for a chain none of
whose expressions reads line or column: the run over noisy streams of conforming texts and the run over their
blanked twins succeed and write the same bytes; nothing goes to standard error. -/
theorem noise_ignore_same_output2 (orc : Oracles) (c : Cfg) (specs : List StreamSpec2) (wOut wErr : Writer)
    (p : Pipeline) (hok : ∀ s ∈ specs, s.OK) (hpol : c.onError = .ignore) (hb : build orc c = .ok p)
    (hna : NoAbort orc p.cfgs) (hpi : ChainPosIndep (evalT orc) p.cfgs) (hw : Unbounded wOut)
    (hh : ¬ HeaderMissing p) :
    (run orc c (specs.map StreamSpec2.source) wOut wErr).result = .ok ()
    ∧ (run orc c (specs.map (fun s => s.blank.source)) wOut wErr).result = .ok ()
    ∧ (run orc c (specs.map StreamSpec2.source) wOut wErr).stdout
        = (run orc c (specs.map (fun s => s.blank.source)) wOut wErr).stdout
    ∧ (run orc c (specs.map StreamSpec2.source) wOut wErr).stderr = wErr.out
    ∧ (run orc c (specs.map (fun s => s.blank.source)) wOut wErr).stderr = wErr.out := by
  first
    | exact Noise2.noise_ignore_same_output2 ..
    | (apply Noise2.noise_ignore_same_output2 <;> assumption)

/-- **noise_stderr_same_output2.**  Under `stderr` (standard error never failing): standard output is byte for byte
that of the blanked run; the blanked run leaves standard error untouched, the noisy run appends one `error:` line
per error met — nothing else goes there. -/
theorem noise_stderr_same_output2 (orc : Oracles) (c : Cfg) (specs : List StreamSpec2) (wOut wErr : Writer)
    (p : Pipeline) (hok : ∀ s ∈ specs, s.OK) (hpol : c.onError = .stderr) (hb : build orc c = .ok p)
    (hna : NoAbort orc p.cfgs) (hpi : ChainPosIndep (evalT orc) p.cfgs) (hw : Unbounded wOut)
    (he : Unbounded wErr) (hh : ¬ HeaderMissing p) :
    (run orc c (specs.map StreamSpec2.source) wOut wErr).result = .ok ()
    ∧ (run orc c (specs.map (fun s => s.blank.source)) wOut wErr).result = .ok ()
    ∧ (run orc c (specs.map StreamSpec2.source) wOut wErr).stdout
        = (run orc c (specs.map (fun s => s.blank.source)) wOut wErr).stdout
    ∧ (run orc c (specs.map StreamSpec2.source) wOut wErr).stderr
        = wErr.out ++ (errsOfSources (evalT orc) c p.cfgs (specs.map StreamSpec2.source) 0 p.sts).flatMap reportBytes
    ∧ (run orc c (specs.map (fun s => s.blank.source)) wOut wErr).stderr = wErr.out := by
  first
    | exact Noise2.noise_stderr_same_output2 ..
    | (apply Noise2.noise_stderr_same_output2 <;> assumption)

/-- **noise_stdout_same_rows2.**  Under `stdout`: what the noisy run writes to standard output is the header and a
sequence of chunks; the report chunks are the `error:` lines of the errors met, in order, and with them removed
the output is byte for byte that of the blanked run.  Standard error is untouched. -/
theorem noise_stdout_same_rows2 (orc : Oracles) (c : Cfg) (specs : List StreamSpec2) (wOut wErr : Writer)
    (p : Pipeline) (hok : ∀ s ∈ specs, s.OK) (hpol : c.onError = .stdout) (hb : build orc c = .ok p)
    (hna : NoAbort orc p.cfgs) (hpi : ChainPosIndep (evalT orc) p.cfgs) (hw : Unbounded wOut)
    (hh : ¬ HeaderMissing p) :
    ∃ ch : Chunks,
      (run orc c (specs.map StreamSpec2.source) wOut wErr).result = .ok ()
      ∧ (run orc c (specs.map (fun s => s.blank.source)) wOut wErr).result = .ok ()
      ∧ (run orc c (specs.map StreamSpec2.source) wOut wErr).stdout = wOut.out ++ headerBytes p ++ ch.bytes
      ∧ (run orc c (specs.map (fun s => s.blank.source)) wOut wErr).stdout
          = wOut.out ++ headerBytes p ++ ch.rowPart
      ∧ ch.reports
          = (errsOfSources (evalT orc) c p.cfgs (specs.map StreamSpec2.source) 0 p.sts).map reportBytes
      ∧ (run orc c (specs.map StreamSpec2.source) wOut wErr).stderr = wErr.out
      ∧ (run orc c (specs.map (fun s => s.blank.source)) wOut wErr).stderr = wErr.out := by
  first
    | exact Noise2.noise_stdout_same_rows2 ..
    | (apply Noise2.noise_stdout_same_rows2 <;> assumption)

/-- **run_panic_noisy2.**  `panic` on a noisy stream of conforming texts: the rows `pre` fed to the chain are
those of the values that precede the first gap holding garbage.  If the stream holds garbage (first garbage byte
`b`, possibly touching the value before it) and the chain has not answered `Break` on `pre`, the run fails with
`unexpectedChar … b`; a streaming chain has by then written exactly the header and `specRows pre`; nothing goes to
standard error.  If the stream is clean (or the chain answered `Break` first) the run succeeds. -/
theorem run_panic_noisy2 (orc : Oracles) (c : Cfg) (s : StreamSpec2) (hs : s.OK) (wOut wErr : Writer)
    (p : Pipeline) (hpol : c.onError = .panic) (hb : build orc c = .ok p)
    (hna : NoAbort orc p.cfgs) (hw : Unbounded wOut) (hh : ¬ HeaderMissing p) :
    ∃ pre : List Ctx,
      pre.map (·.input) = applyOnlyObj c (cleanPrefix2 s.g0 s.items) ∧
      (∀ b, firstGarbage2 s.g0 s.items = some b →
          (feedBrk (processP (evalT orc) p.cfgs) p.sts pre).2.2 = .cont →
        ∃ loc,
          (run orc c [s.source] wOut wErr).result = .error (.json (.unexpectedChar loc b valueExpected))
          ∧ (run orc c [s.source] wOut wErr).stdout
              = wOut.out ++ headerBytes p ++
                (feedBrk (processP (evalT orc) p.cfgs) p.sts pre).2.1.flatMap (sinkBytes p.sink p.sinkLen)
          ∧ (Streaming p.cfgs →
              (run orc c [s.source] wOut wErr).stdout
                = wOut.out ++ headerBytes p ++
                  (specRows (evalT orc) p.cfgs p.sts pre).flatMap (sinkBytes p.sink p.sinkLen))
          ∧ (run orc c [s.source] wOut wErr).stderr = wErr.out) ∧
      ((firstGarbage2 s.g0 s.items = none ∨ (feedBrk (processP (evalT orc) p.cfgs) p.sts pre).2.2 = .brk) →
        (run orc c [s.source] wOut wErr).result = .ok ()
        ∧ (run orc c [s.source] wOut wErr).stdout
            = wOut.out ++ headerBytes p ++
              (specRows (evalT orc) p.cfgs p.sts pre).flatMap (sinkBytes p.sink p.sinkLen)
        ∧ (run orc c [s.source] wOut wErr).stderr = wErr.out) := by
  first
    | exact Noise2.run_panic_noisy2 ..
    | (apply Noise2.run_panic_noisy2 <;> assumption)

/-- **clean_no_reports2.**  Clean streams of conforming texts (no garbage in any gap; the values need not be
separated by white space where `Ser.Delimited` allows it, e.g. `[1]"s"{}`), on stdin or in files: under every
`--on-error` policy there is no error to report, the run succeeds, standard output holds no report line (it is the
header and the rows), standard error is untouched. -/
theorem clean_no_reports2 (orc : Oracles) (c : Cfg) (specs : List StreamSpec2) (wOut wErr : Writer) (p : Pipeline)
    (hok : ∀ s ∈ specs, s.OK) (hclean : ∀ s ∈ specs, s.Clean)
    (hb : build orc c = .ok p) (hna : NoAbort orc p.cfgs) (hw : Unbounded wOut)
    (he : c.onError = .stderr → Unbounded wErr) (hh : ¬ HeaderMissing p) :
    errsOfSources (evalT orc) c p.cfgs (specs.map StreamSpec2.source) 0 p.sts = []
    ∧ (run orc c (specs.map StreamSpec2.source) wOut wErr).result = .ok ()
    ∧ (run orc c (specs.map StreamSpec2.source) wOut wErr).stdout
        = wOut.out ++ headerBytes p ++
          (specRows (evalT orc) p.cfgs p.sts (ctxsOfSources c (specs.map StreamSpec2.source) 0)).flatMap
            (sinkBytes p.sink p.sinkLen)
    ∧ (run orc c (specs.map StreamSpec2.source) wOut wErr).stderr = wErr.out := by
  first
    | exact Noise2.clean_no_reports2 ..
    | (apply Noise2.clean_no_reports2 <;> assumption)

/-- **the blanked twin is always well formed** -/
theorem blankItems_OK (items : List Item) (h : ItemsOK2 items) : ItemsOK2 (blankItems items) := by
  first
    | exact Noise2.blankItems_OK ..
    | (apply Noise2.blankItems_OK <;> assumption)

/-- **strip_glues.**  DELETING the garbage of `1x2` gives `12`: one value, not two — the stripped twin is not well
formed and is read differently, while the blanked twin `1 2` is fine.  This is why the twin of the main theorems
replaces garbage by spaces, and why the stripped variants carry the hypothesis `ItemsOK2 (stripItems2 items)`. -/
theorem strip_glues :
    stream2 {} glueItems = [49, 120, 50] ∧
    stream2 ({} : Gap).strip (stripItems2 glueItems) = [49, 50] ∧
    stream2 ({} : Gap).blank (blankItems glueItems) = [49, 32, 50] ∧
    ¬ ItemsOK2 (stripItems2 glueItems) ∧
    (ctxsOf {} 5 (Reader.ofBytes [49, 120, 50] none) 0 0).map (·.input) = [.num (.pos 1), .num (.pos 2)] ∧
    (ctxsOf {} 5 (Reader.ofBytes [49, 32, 50] none) 0 0).map (·.input) = [.num (.pos 1), .num (.pos 2)] ∧
    (ctxsOf {} 5 (Reader.ofBytes [49, 50] none) 0 0).map (·.input) = [.num (.pos 12)] := by
  first
    | exact Noise2.strip_glues ..
    | (apply Noise2.strip_glues <;> assumption)

/-- **Finding (why `.`, `e`, `E` are excluded after a number).**  These three bytes are `Garbage` (they cannot
start a value) but are NOT noise when they touch a number text:
* `1.x` — the parser accepts `1.` as the number `1` (the point is swallowed with the number): the value survives,
  but the two garbage bytes `.`, `x` cost ONE error, not two;
* `1ex` — `1e` is a malformed number: the value `1` is LOST (two errors, no value). -/
theorem number_touched_by_dot_or_e :
    Garbage 46 = true ∧ Garbage 101 = true ∧ Garbage 69 = true ∧
    (ctxsOf {} 5 (Reader.ofBytes [49, 46, 120] none) 0 0).map (·.input) = [.num (.pos 1)] ∧
    (perrsOf 5 (Reader.ofBytes [49, 46, 120] none)).length = 1 ∧
    (ctxsOf {} 5 (Reader.ofBytes [49, 101, 120] none) 0 0).map (·.input) = [] ∧
    (perrsOf 5 (Reader.ofBytes [49, 101, 120] none)).length = 2 := by
  first
    | exact Noise2.number_touched_by_dot_or_e ..
    | (apply Noise2.number_touched_by_dot_or_e <;> assumption)

end Jawk.C06
