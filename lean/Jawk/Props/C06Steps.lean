/-
  C06 — noise between values never changes them; the `--on-error` policies do what they say.
-/
import Jawk.Model.Run
import Jawk.Lemmas.PM
import Jawk.Lemmas.RunSpec
namespace Jawk.C06
open Jawk Reader

/-- a byte that is neither white space nor able to start a JSON value -/
def Garbage (b : Byte) : Bool :=
  !isWs b && !isDigit b && b != 116 && b != 102 && b != 110 && b != 34 && b != 45 && b != 91 && b != 123

/-- A garbage byte at the start of a value is consumed — exactly that one byte — and
reported as a recoverable `UnexpectedCharacter` error: parsing resumes at the next byte. -/
theorem garbage_byte_step (fuel : Nat) (r r1 r2 : Reader) (b : Byte) (x : Option Byte)
    (hg : Garbage b = true) (hcur : r.cur = none)
    (h1 : Reader.next r = (.ok (some b), r1)) (hc1 : r1.cur = some b)
    (h2 : Reader.next r1 = (.ok x, r2)) :
    nextValue (fuel + 2) r = (.error (.unexpectedChar r2.loc b valueExpected), r2) ∧
    (PErr.unexpectedChar r2.loc b valueExpected).canRecover = true := by
  simp only [Garbage, Bool.and_eq_true, Bool.not_eq_true', bne_iff_ne, ne_eq] at hg
  obtain ⟨⟨⟨⟨⟨⟨⟨⟨hws, hd⟩, ht⟩, hf⟩, hn⟩, hq⟩, hm⟩, hb⟩, ho⟩ := hg
  refine ⟨?_, rfl⟩
  have hpeek0 : Reader.peek r = (.ok (some b), r1) := by simp [Reader.peek, hcur, h1]
  have hpeek1 : Reader.peek r1 = (.ok (some b), r1) := peek_of_cur r1 b hc1
  have heat : eatWhitespace (fuel + 2) r = (.ok (), r1) := eatWhitespace_of_nonws _ r r1 b hpeek0 hws
  have hd' : (b = 45 || isDigit b) = false := by simp [hm, hd]
  rw [nextValue]
  simp only [PM.bind_apply, heat, hpeek1, ht, hf, hn, hq, hd', hb, ho, if_false, h2, locErr_apply, Bool.false_eq_true]

/-- the four arms of the read loop on a recoverable error -/
theorem policy_ignore_step (orc : Oracles) (c : Cfg) (p : Pipeline) (fuel : Nat) (r r' : Reader) (inFile : Nat)
    (s : RunState) (e : PErr) (hc : c.onError = .ignore) (hn : r.nextJson = (.error e, r'))
    (hrec : e.canRecover = true) :
    readLoop orc c p (fuel + 1) r inFile s = readLoop orc c p fuel r' inFile s := by
  rw [readLoop]
  simp [hn, hrec, hc]

theorem policy_panic_step (orc : Oracles) (c : Cfg) (p : Pipeline) (fuel : Nat) (r r' : Reader) (inFile : Nat)
    (s : RunState) (e : PErr) (hc : c.onError = .panic) (hn : r.nextJson = (.error e, r'))
    (hrec : e.canRecover = true) :
    ∃ st, readLoop orc c p (fuel + 1) r inFile s = .error ⟨.error (.json e), st⟩ ∧ st.out = s.out ∧ st.err = s.err := by
  rw [readLoop]
  simp [hn, hrec, hc]

theorem policy_stderr_step (orc : Oracles) (c : Cfg) (p : Pipeline) (fuel : Nat) (r r' : Reader) (inFile : Nat)
    (s : RunState) (e : PErr) (hc : c.onError = .stderr) (hn : r.nextJson = (.error e, r'))
    (hrec : e.canRecover = true) (hw : (s.err.put (reportBytes e)).failed = false) :
    readLoop orc c p (fuel + 1) r inFile s =
      readLoop orc c p fuel r' inFile { s with err := s.err.put (reportBytes e) } := by
  rw [readLoop]
  simp [hn, hrec, hc, hw]

theorem policy_stdout_step (orc : Oracles) (c : Cfg) (p : Pipeline) (fuel : Nat) (r r' : Reader) (inFile : Nat)
    (s : RunState) (e : PErr) (hc : c.onError = .stdout) (hn : r.nextJson = (.error e, r'))
    (hrec : e.canRecover = true) (hw : (s.out.put (reportBytes e)).failed = false) :
    readLoop orc c p (fuel + 1) r inFile s =
      readLoop orc c p fuel r' inFile { s with out := s.out.put (reportBytes e) } := by
  rw [readLoop]
  simp [hn, hrec, hc, hw]

/-- every report is one `error:` line -/
theorem report_is_error_line (e : PErr) :
    ∃ body, reportBytes e = utf8 ("error:".toList ++ body ++ ['\n']) := ⟨e.text, by simp [reportBytes]⟩

/-- a value is processed the same way under every policy: the policy is only consulted on errors -/
theorem value_step_policy_independent (orc : Oracles) (c c' : Cfg) (p : Pipeline) (fuel : Nat) (r r' : Reader)
    (inFile : Nat) (s : RunState) (v : JV) (ps : PState)
    (hooa : c.onlyObjectsAndArrays = c'.onlyObjectsAndArrays)
    (hv : r.nextJson = (.ok (some v), r')) (hkeep : (c.onlyObjectsAndArrays && !v.isObjOrArr) = false)
    (hp : process orc p.sink p.sinkLen p.cfgs s.sts s.out
            { input := v, ictx := some { startLoc := r.loc, endLoc := r'.loc, fileIndex := inFile, index := s.index } }
          = .ok (ps, .cont)) :
    readLoop orc c p (fuel + 1) r inFile s =
        readLoop orc c p fuel r' (inFile + 1) { s with sts := ps.sts, out := ps.w, index := s.index + 1 } ∧
    readLoop orc c' p (fuel + 1) r inFile s =
        readLoop orc c' p fuel r' (inFile + 1) { s with sts := ps.sts, out := ps.w, index := s.index + 1 } := by
  have hkeep' : (c'.onlyObjectsAndArrays && !v.isObjOrArr) = false := by rw [← hooa]; exact hkeep
  constructor
  · rw [readLoop]; simp [hv, hkeep, hp]
  · rw [readLoop]; simp [hv, hkeep', hp]

/-- non-vacuity: `}` `]` `,` `:` `.` `e` `E` `+` and bytes ≥ 0x80 are garbage; digits and `"` are not -/
example : Garbage 125 ∧ Garbage 93 ∧ Garbage 44 ∧ Garbage 58 ∧ Garbage 46 ∧ Garbage 101 ∧ Garbage 69 ∧
    Garbage 43 ∧ Garbage 0xff ∧ Garbage 0xc3 ∧ ¬ Garbage 49 ∧ ¬ Garbage 34 ∧ ¬ Garbage 32 := by decide


/-! ### the policies, for whole runs (every configuration that builds, every input, malformed or not)

`ctxsOfSources c sources 0` = the values the loop reads, malformed regions skipped; `errsOfSources …` = the
recoverable errors it meets before it stops.  Under the three non-fatal policies the ROWS are the same function
of the input; only where the reports go differs. -/

/-- `ignore`: rows only, nothing on standard error -/
theorem policy_ignore (orc : Oracles) (c : Cfg) (sources : List Source) (wOut wErr : Writer) (p : Pipeline)
    (hpol : c.onError = .ignore) (hb : build orc c = .ok p) (hna : Pipe.NoAbort orc p.cfgs) (hw : Pipe.Unbounded wOut)
    (hcl : RunSpec.CleanIO sources) (hh : ¬ RunSpec.HeaderMissing p) :
    (run orc c sources wOut wErr).result = .ok ()
      ∧ (run orc c sources wOut wErr).stdout
          = wOut.out ++ RunSpec.headerBytes p ++
            (Pipe.specRows (Pipe.evalT orc) p.cfgs p.sts (RunSpec.ctxsOfSources c sources 0)).flatMap
              (Pipe.sinkBytes p.sink p.sinkLen)
      ∧ (run orc c sources wOut wErr).stderr = wErr.out :=
  RunSpec.run_ignore_spec orc c sources wOut wErr p hpol hb hna hw hcl hh

/-- `stderr`: standard output is byte for byte what `ignore` writes; standard error receives exactly one
`error:` report per recoverable error, in order, and nothing else -/
theorem policy_stderr (orc : Oracles) (c : Cfg) (sources : List Source) (wOut wErr : Writer) (p : Pipeline)
    (hpol : c.onError = .stderr) (hb : build orc c = .ok p) (hna : Pipe.NoAbort orc p.cfgs) (hw : Pipe.Unbounded wOut)
    (he : Pipe.Unbounded wErr) (hcl : RunSpec.CleanIO sources) (hh : ¬ RunSpec.HeaderMissing p) :
    (run orc c sources wOut wErr).result = .ok ()
      ∧ (run orc c sources wOut wErr).stdout
          = wOut.out ++ RunSpec.headerBytes p ++
            (Pipe.specRows (Pipe.evalT orc) p.cfgs p.sts (RunSpec.ctxsOfSources c sources 0)).flatMap
              (Pipe.sinkBytes p.sink p.sinkLen)
      ∧ (run orc c sources wOut wErr).stderr
          = wErr.out ++ (RunSpec.errsOfSources (Pipe.evalT orc) c p.cfgs sources 0 p.sts).flatMap reportBytes :=
  RunSpec.policy_stderr_same_rows orc c sources wOut wErr p hpol hb hna hw he hcl hh

/-- `stdout`: standard output is the `ignore` output with the reports interleaved (removing the report chunks
gives the `ignore` output exactly); standard error receives nothing -/
theorem policy_stdout (orc : Oracles) (c : Cfg) (sources : List Source) (wOut wErr : Writer) (p : Pipeline)
    (hpol : c.onError = .stdout) (hb : build orc c = .ok p) (hna : Pipe.NoAbort orc p.cfgs) (hw : Pipe.Unbounded wOut)
    (hcl : RunSpec.CleanIO sources) (hh : ¬ RunSpec.HeaderMissing p) :
    ∃ ch : RunSpec.Chunks,
      (run orc c sources wOut wErr).result = .ok ()
      ∧ (run orc c sources wOut wErr).stdout = wOut.out ++ RunSpec.headerBytes p ++ ch.bytes
      ∧ ch.rowPart
          = (Pipe.specRows (Pipe.evalT orc) p.cfgs p.sts (RunSpec.ctxsOfSources c sources 0)).flatMap
              (Pipe.sinkBytes p.sink p.sinkLen)
      ∧ ch.reports = (RunSpec.errsOfSources (Pipe.evalT orc) c p.cfgs sources 0 p.sts).map reportBytes
      ∧ (run orc c sources wOut wErr).stderr = wErr.out :=
  RunSpec.policy_stdout orc c sources wOut wErr p hpol hb hna hw hcl hh

end Jawk.C06
