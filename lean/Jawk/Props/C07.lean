/-
  C07 — one total order; sorting is a permutation, sorted, stable and direction-aware.

  Theorems over the model of `impl Ord for JsonValue` (`JV.cmp`), the `--sort-by` stage
  (bucket map of deques: `bucketInsert`, `sortStep`, `bucketsEmit`) and the list-level
  specification `SortSpec.sortDir` (stable insertion sort).  Helper lemmas live in
  `Jawk/Lemmas/Order.lean` and `Jawk/Lemmas/BucketSort.lean`.
-/
import Jawk.Lemmas.RunCor
import Jawk.Lemmas.Order
import Jawk.Lemmas.BucketSort
import Jawk.Lemmas.SortFns
namespace Jawk.C07
open Jawk SortSpec

/-! ### the order: total, for ALL values (no domain restriction) -/

/-- `JV.cmp` is a total preorder: reflexive, antisymmetric under swap, transitive -/
theorem cmp_total_preorder : TotalPreorderCmp JV.cmp := Order.cmp_total_preorder

theorem cmp_refl (a : JV) : JV.cmp a a = .eq := Order.cmp_refl a
theorem cmp_swap (a b : JV) : JV.cmp b a = (JV.cmp a b).swap := Order.cmp_swap a b
theorem cmp_trans (a b c : JV) (h1 : JV.cmp a b ≠ .gt) (h2 : JV.cmp b c ≠ .gt) : JV.cmp a c ≠ .gt :=
  Order.cmp_le_trans a b c h1 h2

/-- values of different types are ordered by type rank:
`null < false < true < strings < numbers < objects < arrays` -/
theorem rank_order (a b : JV) (h : a.rank < b.rank) : JV.cmp a b = .lt := Order.rank_order h

theorem type_order (b : Bool) (s : Str) (n : Num) (o : List (Str × JV)) (l : List JV) :
    JV.cmp .null (.bool b) = .lt ∧ JV.cmp (.bool false) (.bool true) = .lt ∧
    JV.cmp (.bool b) (.str s) = .lt ∧ JV.cmp (.str s) (.num n) = .lt ∧
    JV.cmp (.num n) (.obj o) = .lt ∧ JV.cmp (.obj o) (.arr l) = .lt := by
  refine ⟨rank_order _ _ (by simp [JV.rank]), by decide, rank_order _ _ (by simp [JV.rank]),
    rank_order _ _ (by simp [JV.rank]), rank_order _ _ (by simp [JV.rank]), rank_order _ _ (by simp [JV.rank])⟩

/-- strings compare by code point, and only equal strings compare equal -/
theorem str_by_code_point (a b : Str) : JV.cmp (.str a) (.str b) = cmpStr a b := Order.cmp_str a b
theorem str_eq_iff (a b : Str) : cmpStr a b = .eq ↔ a = b := Order.cmpStr_eq_iff a b

/-- arrays compare lexicographically -/
theorem arr_lexicographic (x y : JV) (xs ys : List JV) :
    JV.cmp (.arr (x :: xs)) (.arr (y :: ys)) = (JV.cmp x y).then (JV.cmp (.arr xs) (.arr ys)) :=
  Order.cmp_arr_cons_cons x y xs ys

/-! ### the specification sort: permutation, sorted, stable -/

theorem sort_perm {α} (key : α → JV) (desc : Bool) (l : List α) :
    (sortDir JV.cmp key desc l).Perm l := sortDir_perm cmp_total_preorder key desc l

/-- non-decreasing for ASC, non-increasing for DESC -/
theorem sort_sorted {α} (key : α → JV) (desc : Bool) (l : List α) :
    SortedDir JV.cmp key desc (sortDir JV.cmp key desc l) := sortDir_sorted cmp_total_preorder key desc l

/-- ties keep arrival order: the rows of every key class appear in input order -/
theorem sort_stable {α} (key : α → JV) (desc : Bool) (l : List α) (k : JV) :
    (sortDir JV.cmp key desc l).filter (fun x => JV.cmp (key x) k = .eq)
      = l.filter (fun x => JV.cmp (key x) k = .eq) := sortDir_stable cmp_total_preorder key desc l k

/-! ### the `--sort-by` stage machine is that sort -/

/-- feeding any rows to the sorter's bucket map and emitting (`complete`) yields the stable sort of
the rows by their key, in the requested direction — for every history -/
theorem sortStage_spec (desc : Bool) (rows : List (JV × Ctx)) :
    bucketsEmit desc (rows.foldl (fun d r => bucketInsert r.1 r.2 d) [])
      = (sortDir JV.cmp (·.1) desc rows).map (·.2) :=
  BucketSort.bucketsEmit_foldl_bucketInsert cmp_total_preorder desc rows

/-- the bounded sorter (the top-N shortcut next to `--take`) keeps exactly the first `cap` rows of the
stable sort, ties and `cap = 0` included -/
theorem sortStage_bounded_spec (desc : Bool) (cap : Nat) (rows : List (JV × Ctx)) :
    bucketsEmit desc (rows.foldl (fun s r => sortStep desc r.1 r.2 s) ([], some cap)).1
      = ((sortDir JV.cmp (·.1) desc rows).map (·.2)).take cap :=
  BucketSort.bucketsEmit_run cmp_total_preorder desc cap rows

/-- the comparison functions `<`, `<=`, `>`, `>=` are the same order -/
theorem compare_fns_agree (a b : JV) :
    ((JV.cmp a b == .lt) = true ↔ JV.cmp b a = .gt) ∧
    ((JV.cmp a b != .gt) = true ↔ JV.cmp b a ≠ .lt) := by
  rw [cmp_swap a b]
  cases JV.cmp a b <;> simp [Ordering.swap]


/-! ### repeated `--sort-by`: lexicographic keys, the first given most significant

`build` assembles the sorters so that the LAST given key sorts first (outermost stage) and the FIRST given
key last (next to the limiter): `multiSort` is that chain on the list level. -/

/-- two keys: a permutation, sorted by the first key in its direction, within every class of the first key
sorted by the second key in ITS direction, and rows tied on both keys in arrival order -/
theorem two_key_lex {α} (k1 k2 : α → JV) (d1 d2 : Bool) (l : List α) :
    (sortDir JV.cmp k1 d1 (sortDir JV.cmp k2 d2 l)).Perm l ∧
    SortedDir JV.cmp k1 d1 (sortDir JV.cmp k1 d1 (sortDir JV.cmp k2 d2 l)) ∧
    (∀ k, SortedDir JV.cmp k2 d2
      ((sortDir JV.cmp k1 d1 (sortDir JV.cmp k2 d2 l)).filter (fun x => JV.cmp (k1 x) k = .eq))) ∧
    (∀ a b,
      (sortDir JV.cmp k1 d1 (sortDir JV.cmp k2 d2 l)).filter
          (fun x => JV.cmp (k1 x) a = .eq && JV.cmp (k2 x) b = .eq)
        = l.filter (fun x => JV.cmp (k1 x) a = .eq && JV.cmp (k2 x) b = .eq)) :=
  SortFns.two_key_lex cmp_total_preorder k1 k2 d1 d2 l

/-- any number of keys with directions: the chain of stable sorts IS the stable sort under the lexicographic
comparison of the key vector (first key most significant) -/
theorem multi_key_lex {α} (ks : List ((α → JV) × Bool)) (l : List α) :
    SortFns.multiSort JV.cmp ks l = sortDir (SortFns.lexCmp JV.cmp ks) id false l :=
  SortFns.multiSort_eq_sortDir_lex cmp_total_preorder ks l

theorem multi_key_sorted {α} (ks : List ((α → JV) × Bool)) (l : List α) :
    (SortFns.multiSort JV.cmp ks l).Perm l ∧
    (SortFns.multiSort JV.cmp ks l).Pairwise (fun a b => SortFns.lexCmp JV.cmp ks a b ≠ .gt) :=
  ⟨SortFns.multiSort_perm cmp_total_preorder ks l, SortFns.multiSort_sorted cmp_total_preorder ks l⟩

/-! ### the sort functions (`slice::sort_by`, assumed stable = `List.mergeSort`) are the same sort -/

/-- `sort`: the stable sort of the specification, hence permutation, sorted, ties in arrival order -/
theorem fn_sort (l : List JV) :
    stableSortBy JV.cmp l = sortDir JV.cmp id false l ∧ (stableSortBy JV.cmp l).Perm l ∧
    (stableSortBy JV.cmp l).Pairwise (fun a b => JV.cmp a b ≠ .gt) :=
  ⟨SortFns.sort_eq_spec l, SortFns.sort_perm l, SortFns.sort_sorted l⟩

theorem fn_sort_by_values (m : List (Str × JV)) :
    stableSortBy (fun (x y : Str × JV) => JV.cmp x.2 y.2) m = sortDir JV.cmp (fun x : Str × JV => x.2) false m :=
  SortFns.sort_by_values_eq_spec m

theorem fn_sort_by_keys (m : List (Str × JV)) :
    stableSortBy (fun (x y : Str × JV) => cmpStr x.1 y.1) m = sortDir cmpStr (fun x : Str × JV => x.1) false m :=
  SortFns.sort_by_keys_eq_spec m

/-- `sort_by` (and `sort_by_values_by`): by the evaluated key, a missing key first -/
theorem fn_sort_by_key_order : TotalPreorderCmp cmpOpt := SortFns.cmpOpt_total_preorder

/-- `sort_unique`: sorted, no two neighbours `==`, every input element kept or `==` to a kept one -/
theorem fn_sort_unique (l : List JV) :
    (SortFns.sortUnique l).Pairwise (fun a b => JV.cmp a b ≠ .gt) ∧
    SortFns.AdjacentAll (fun a b => JV.beq a b = false) (SortFns.sortUnique l) ∧
    (∀ x ∈ l, x ∈ SortFns.sortUnique l ∨ ∃ y ∈ SortFns.sortUnique l, JV.beq y x = true) :=
  ⟨SortFns.sort_unique_sorted l, SortFns.sort_unique_adjacent l, SortFns.sort_unique_cover l⟩

/-- the direction word is case-insensitive (ASC / DESC / nothing) -/
theorem direction_case_insensitive (t : Str) :
    directionOf (t.map Char.toUpper) = directionOf t ∧ directionOf (t.map Char.toLower) = directionOf t :=
  ⟨SortFns.directionOf_map_toUpper t, SortFns.directionOf_map_toLower t⟩

theorem direction_words :
    directionOf [] = .ok false ∧ directionOf "asc".toList = .ok false ∧ directionOf "DESC".toList = .ok true ∧
    directionOf "DeSc".toList = .ok true := ⟨rfl, rfl, rfl, rfl⟩


/-! ### the option as a whole: what `--sort-by E [ASC|DESC]` alone does to a run's rows -/

/-- a configuration with just `--sort-by`: the rows that reach the printer are the stable sort, in the requested
direction, of the rows whose key is present (rows with an absent key are dropped) — a permutation of those rows,
sorted, ties in arrival order -/
theorem sort_by_option (orc : Oracles) (s : Str) (e : Expr) (d : Bool) (hs : parseSorter s = .ok (e, d)) :
    ∃ p, build orc { sorts := [s] } = .ok p ∧ p.cfgs = [.sort e d] ∧ p.sts = [.sort [] none] ∧
      ∀ rows, RunCor.R orc p rows
        = (sortDir JV.cmp (·.1) d (Pipe.keyed (Pipe.evalT orc) e rows)).map (·.2) :=
  RunCor.only_sort orc s e d hs

theorem sort_by_option_props (orc : Oracles) (e : Expr) (d : Bool) (rows : List Ctx) :
    let out := sortDir JV.cmp (·.1) d (Pipe.keyed (Pipe.evalT orc) e rows)
    out.Perm (Pipe.keyed (Pipe.evalT orc) e rows) ∧ SortedDir JV.cmp (·.1) d out ∧
      ∀ k, out.filter (fun x => JV.cmp x.1 k = .eq)
        = (Pipe.keyed (Pipe.evalT orc) e rows).filter (fun x => JV.cmp x.1 k = .eq) :=
  RunCor.only_sort_props orc e d rows

/-! ### non-vacuity -/
example : JV.cmp (.num (.pos 2)) (.num (.pos 10)) = .lt := by decide
example : JV.cmp (.str "10".toList) (.str "2".toList) = .lt := by decide
example : (sortDir JV.cmp (·.1) false [(JV.bool true, (1 : Nat)), (JV.null, 2), (JV.bool true, 3)]).map (·.2) = [2, 1, 3] := by
  decide

end Jawk.C07
