/-
  C08 — `--skip S --take T` pick exactly rows S .. S+T-1 of the unlimited result.
  Corollaries of the pipeline refinement (C03) plus the bounded-sorter invariant (C07).
  Helper lemmas: `Jawk/Lemmas/PipelineSpec.lean`, `Jawk/Lemmas/BucketSort.lean`.
-/
import Jawk.Lemmas.RunCor
import Jawk.Lemmas.PipelineSpec
namespace Jawk.C08
open Jawk Pipe

variable (ev : Expr → Ctx → Option JV)

/-- the window: appending the limiter to ANY chain `pre` yields `drop S` then `take T` of what `pre` yields -/
theorem skip_take_window (pre : List StageCfg) (spre : List StageSt) (skip : Nat) (take : Option Nat)
    (rows : List Ctx) (hlen : spre.length = pre.length) (hi : Initial pre spre)
    (hg : GroupLast (pre ++ [.limit skip take])) :
    runP ev (pre ++ [.limit skip take]) (spre ++ [.limit 0 0]) rows
      = takeOpt take ((runP ev pre spre rows).drop skip) :=
  Pipe.skip_take_window ev pre spre skip take rows hlen hi hg

/-- the limiter as a machine, from any counters: it forwards rows `skip-skipped ..` up to `take-passed` many,
then nothing, whatever the successor answers -/
theorem limiter_machine (skip : Nat) (take : Option Nat) (cs : List StageCfg) (skipped passed : Nat)
    (s : List StageSt) (rows : List Ctx) :
    runP ev (.limit skip take :: cs) (.limit skipped passed :: s) rows
      = runP ev cs s (takeOpt (take.map (· - passed)) (rows.drop (skip - skipped))) :=
  runP_limit ev skip take cs skipped passed s rows

/-- the top-N shortcut is invisible: a sorter bounded by `c ≥ S+T` next to `--skip S --take T` gives the same
rows as the unbounded sorter — ties and secondary keys included, since both are the same stable sort -/
theorem topN_shortcut_invisible (key : Expr) (desc : Bool) (skip t c : Nat) (h : skip + t ≤ c)
    {post : List StageCfg} {spost : List StageSt} (hi : Initial post spost) (hg : GroupLast post)
    (rows : List Ctx) :
    runP ev (.sort key desc :: .limit skip (some t) :: post) (.sort [] (some c) :: .limit 0 0 :: spost) rows
      = runP ev (.sort key desc :: .limit skip (some t) :: post) (.sort [] none :: .limit 0 0 :: spost) rows :=
  topN_shortcut_runP ev key desc skip t c h hi hg rows

/-- the bounded buffer itself: after any history it holds exactly the first `cap` rows of the stable sort -/
theorem bounded_buffer_is_prefix (desc : Bool) (cap : Nat) (rows : List (JV × Ctx)) :
    bucketsEmit desc (rows.foldl (fun s r => sortStep desc r.1 r.2 s) ([], some cap)).1
      = ((SortSpec.sortDir JV.cmp (·.1) desc rows).map (·.2)).take cap :=
  BucketSort.bucketsEmit_run Order.cmp_total_preorder desc cap rows

/-- the pure list fact behind it -/
theorem take_drop_take {α : Type} (L : List α) (skip t c : Nat) (h : skip + t ≤ c) :
    takeOpt (some t) ((takeOpt (some c) L).drop skip) = takeOpt (some t) (L.drop skip) :=
  takeOpt_drop_takeOpt L skip t c h

/-- with grouping: the group is built from exactly the retained rows, and is still emitted (once) -/
theorem group_from_window (pre : List StageCfg) (spre : List StageSt) (skip : Nat) (take : Option Nat)
    (e : Expr) (rows : List Ctx) (hlen : spre.length = pre.length) (hi : Initial pre spre)
    (hg : GroupLast (pre ++ [.limit skip take] ++ [.group e])) (hg' : GroupLast (pre ++ [.limit skip take])) :
    runP ev (pre ++ [.limit skip take] ++ [.group e]) (spre ++ [.limit 0 0] ++ [.group []]) rows
      = [{ input := groupValue (groupOf ev e (takeOpt take ((runP ev pre spre rows).drop skip))) }] := by
  have hi2 : Initial (pre ++ [.limit skip take]) (spre ++ [.limit 0 0]) :=
    hi.append hlen (⟨⟨rfl, rfl⟩, trivial⟩ : Initial [StageCfg.limit skip take] [StageSt.limit 0 0])
  have h1 := Pipe.group_emits_once ev (pre ++ [StageCfg.limit skip take]) (spre ++ [StageSt.limit 0 0]) e rows
    (by simp [hlen]) hi2 hg
  rw [h1, Pipe.skip_take_window ev pre spre skip take rows hlen hi hg']

theorem merge_from_window (pre : List StageCfg) (spre : List StageSt) (skip : Nat) (take : Option Nat)
    (rows : List Ctx) (hlen : spre.length = pre.length) (hi : Initial pre spre)
    (hg : GroupLast (pre ++ [.limit skip take] ++ [.merge])) (hg' : GroupLast (pre ++ [.limit skip take])) :
    runP ev (pre ++ [.limit skip take] ++ [.merge]) (spre ++ [.limit 0 0] ++ [.merge []]) rows
      = [{ input := .arr ((takeOpt take ((runP ev pre spre rows).drop skip)).map Ctx.build) }] := by
  have hi2 : Initial (pre ++ [.limit skip take]) (spre ++ [.limit 0 0]) :=
    hi.append hlen (⟨⟨rfl, rfl⟩, trivial⟩ : Initial [StageCfg.limit skip take] [StageSt.limit 0 0])
  have h1 := Pipe.merge_emits_once ev (pre ++ [StageCfg.limit skip take]) (spre ++ [StageSt.limit 0 0]) rows
    (by simp [hlen]) hi2 hg
  rw [h1, Pipe.skip_take_window ev pre spre skip take rows hlen hi hg']

/-! ### non-vacuity -/
example : runP ev [.limit 1 (some 2)] [.limit 0 0]
    [{ input := .num (.pos 0) }, { input := .num (.pos 1) }, { input := .num (.pos 2) }, { input := .num (.pos 3) }]
    = [{ input := .num (.pos 1) }, { input := .num (.pos 2) }] := by
  have := skip_take_window ev [] [] 1 (some 2)
    [{ input := .num (.pos 0) }, { input := .num (.pos 1) }, { input := .num (.pos 2) }, { input := .num (.pos 3) }]
    rfl trivial (by simp [GroupLast])
  simpa [runP, feedBrk, processP, completeP, takeOpt] using this


/-! ### the property as stated: the run WITH `--skip S --take T` against the run WITHOUT them

`RunCor.R orc p rows` = the rows that reach the printer for the pipeline `p` that `build` assembles. -/

/-- for every configuration that builds (any other options, `--sort-by` with its bounded top-N sorter included):
the rows with `--skip` and `--take` are exactly rows S .. S+T-1 of the rows the same configuration yields without them -/
theorem skip_take_config (orc : Oracles) (c : Cfg) (p : Pipeline) (h : build orc c = .ok p) (hg : c.group = none) :
    ∃ p0, build orc { c with skip := 0, take := none } = .ok p0 ∧
      ∀ rows, RunCor.R orc p rows = takeOpt c.take ((RunCor.R orc p0 rows).drop c.skip) :=
  RunCor.skip_take_config orc c p h hg

/-- with `--group-by`: the group is built from exactly the retained rows of the ungrouped, unlimited
configuration, and is still emitted (one row) -/
theorem skip_take_config_group (orc : Oracles) (c : Cfg) (p : Pipeline) (h : build orc c = .ok p)
    (g : Str) (hg : c.group = some (some g)) :
    ∃ e p0', parseOptionExpr g = .ok e ∧
      build orc { c with skip := 0, take := none, group := none } = .ok p0' ∧
      ∀ rows, RunCor.R orc p rows
        = [{ input := groupValue (groupOf (evalT orc) e (takeOpt c.take ((RunCor.R orc p0' rows).drop c.skip))) }] :=
  RunCor.skip_take_config_group orc c p h g hg

/-- end to end, as bytes: the standard output of the run with `--skip` and `--take` is the header and the window of the
rows of the run without them -/
theorem run_skip_take (orc : Oracles) (c : Cfg) (sources : List Source) (wOut wErr : Writer) (p : Pipeline)
    (hpol : c.onError = .ignore) (hb : build orc c = .ok p) (hg : c.group = none)
    (hna : NoAbort orc p.cfgs) (hw : Unbounded wOut) (hcl : RunSpec.CleanIO sources) (hh : ¬ RunSpec.HeaderMissing p) :
    ∃ p0, build orc { c with skip := 0, take := none } = .ok p0 ∧
      RunSpec.headerBytes p0 = RunSpec.headerBytes p ∧
      (run orc c sources wOut wErr).result = .ok () ∧
      (run orc c sources wOut wErr).stdout
        = wOut.out ++ RunSpec.headerBytes p0 ++
          (takeOpt c.take
            ((RunCor.R orc p0 (RunSpec.ctxsOfSources { c with skip := 0, take := none } sources 0)).drop c.skip)).flatMap
            (sinkBytes p0.sink p0.sinkLen) :=
  RunCor.run_skip_take orc c sources wOut wErr p hpol hb hg hna hw hcl hh

end Jawk.C08
