/-
  C09 — `--group-by` / `--merge` emit exactly one complete collection at end of input.
  Corollaries of the pipeline refinement (C03).  Helper lemmas: `Jawk/Lemmas/PipelineSpec.lean`.
-/
import Jawk.Lemmas.RunCor
import Jawk.Lemmas.PipelineSpec
namespace Jawk.C09
open Jawk Pipe

variable (ev : Expr → Ctx → Option JV)

/-- exactly one row reaches the printer: the object of the groups of the rows the chain in front yields -/
theorem group_emits_once (pre : List StageCfg) (spre : List StageSt) (e : Expr) (rows : List Ctx)
    (hlen : spre.length = pre.length) (hi : Initial pre spre) (hg : GroupLast (pre ++ [.group e])) :
    runP ev (pre ++ [.group e]) (spre ++ [.group []]) rows
      = [{ input := groupValue (groupOf ev e (runP ev pre spre rows)) }] :=
  Pipe.group_emits_once ev pre spre e rows hlen hi hg

/-- `--merge`: exactly one array holding every surviving row, in order, as the printer would print it -/
theorem merge_emits_once (pre : List StageCfg) (spre : List StageSt) (rows : List Ctx)
    (hlen : spre.length = pre.length) (hi : Initial pre spre) (hg : GroupLast (pre ++ [.merge])) :
    runP ev (pre ++ [.merge]) (spre ++ [.merge []]) rows
      = [{ input := .arr ((runP ev pre spre rows).map Ctx.build) }] :=
  Pipe.merge_emits_once ev pre spre rows hlen hi hg

/-- both emit their empty collection when no row survives -/
theorem empty_input_emits (e : Expr) :
    runP ev [.group e] [.group []] [] = [{ input := .obj [] }] ∧
    runP ev [.merge] [.merge []] [] = [{ input := .arr [] }] := ⟨rfl, rfl⟩

/-- keys are distinct … -/
theorem group_keys_distinct (e : Expr) (rows : List Ctx) : ((groupOf ev e rows).map (·.1)).Nodup :=
  groupOf_keys_nodup ev e rows

/-- … in first-seen order: a key is appended the first time it is seen and never moves; rows whose key is
absent or not a string add nothing … -/
theorem group_keys_first_seen (e : Expr) (rows : List Ctx) (c : Ctx) :
    (groupOf ev e (rows ++ [c])).map (·.1)
      = match ev e c with
        | some (.str k) =>
          if k ∈ (groupOf ev e rows).map (·.1) then (groupOf ev e rows).map (·.1)
          else (groupOf ev e rows).map (·.1) ++ [k]
        | _ => (groupOf ev e rows).map (·.1) := groupOf_keys_snoc ev e rows c

/-- … a key is present exactly when some row has it … -/
theorem group_key_present_iff (e : Expr) (k : Str) (rows : List Ctx) :
    k ∈ (groupOf ev e rows).map (·.1) ↔ rows.any (hasKey ev e k) = true := groupOf_mem_keys ev e k rows

/-- … and its array holds every row with that key exactly once, in arrival order, as the ungrouped printer
would print it (`Ctx.build`) -/
theorem group_members (e : Expr) (k : Str) (rows : List Ctx) (h : rows.any (hasKey ev e k) = true) :
    (groupOf ev e rows).lookup k = some ((rows.filter (hasKey ev e k)).map Ctx.build) :=
  groupOf_lookup ev e k rows h

/-- `complete` reaches the collector through a limiter (the pinned tree lost it here): one row, from the window -/
theorem complete_reaches_collector (skip : Nat) (take : Option Nat) (e : Expr) (rows : List Ctx) :
    runP ev ([.limit skip take] ++ [.group e]) ([.limit 0 0] ++ [.group []]) rows
      = [{ input := groupValue (groupOf ev e (takeOpt take (rows.drop skip))) }] := by
  have h := group_emits_once ev [.limit skip take] [.limit 0 0] e rows rfl
    (⟨⟨rfl, rfl⟩, trivial⟩ : Initial [StageCfg.limit skip take] [StageSt.limit 0 0]) (by simp [GroupLast])
  have h2 := Pipe.skip_take_window ev [] [] skip take rows rfl trivial (by simp [GroupLast])
  simp only [List.nil_append] at h2
  rw [h, h2, runP_nil_chain]

/-! ### non-vacuity -/
example : runP ev [.merge] [.merge []] [{ input := .num (.pos 1) }, { input := .null }]
    = [{ input := .arr [.num (.pos 1), .null] }] := by
  have := merge_emits_once ev [] [] [{ input := .num (.pos 1) }, { input := .null }] rfl trivial (by simp [GroupLast])
  simpa [runP, feedBrk, processP, completeP, Ctx.build] using this


/-! ### the property as stated: the grouped run against the ungrouped run of the same configuration -/

/-- `--group-by E`: exactly one row, the object of the groups of the rows the SAME configuration without
`--group-by` would print -/
theorem group_config (orc : Oracles) (c : Cfg) (p : Pipeline) (h : build orc c = .ok p)
    (g : Str) (hg : c.group = some (some g)) (e : Expr) (he : parseOptionExpr g = .ok e) :
    ∃ p', build orc { c with group := none } = .ok p' ∧
      ∀ rows, RunCor.R orc p rows = [{ input := groupValue (groupOf (evalT orc) e (RunCor.R orc p' rows)) }] :=
  RunCor.group_config orc c p h g hg e he

/-- `--merge`: exactly one row, the array of the rows the ungrouped configuration would print, in order -/
theorem merge_config (orc : Oracles) (c : Cfg) (p : Pipeline) (h : build orc c = .ok p) (hg : c.group = some none) :
    ∃ p', build orc { c with group := none } = .ok p' ∧
      ∀ rows, RunCor.R orc p rows = [{ input := .arr ((RunCor.R orc p' rows).map Ctx.build) }] :=
  RunCor.merge_config orc c p h hg

/-- whatever the other options and whatever the input (empty included): exactly ONE collection reaches the printer -/
theorem exactly_one_collection (orc : Oracles) (c : Cfg) (p : Pipeline) (h : build orc c = .ok p)
    (hg : c.group ≠ none) (rows : List Ctx) : (RunCor.R orc p rows).length = 1 :=
  RunCor.group_one_row orc c p h hg rows

end Jawk.C09
