/-
  C10 — `--unique` removes exactly the later duplicates, by the equality of `=`.

  The `HashSet<ContextKey>` of the stage is modelled as the code uses it: a key is found iff an
  element has the same hash feed AND is `==` (`CtxKey.same`).  The theorems show that on the
  property's domain (`Key`: interoperable, normalised numbers, no `-0`, distinct member names;
  `SameOrder`: corresponding objects list their members in the same order) this is exactly `==`
  — the equality the `=` function computes (`JV.beq`) — and that the stage is the list function
  "keep a row iff no earlier kept row is equal to it".  Outside the domain coherence is FALSE; the
  witnesses are proved below (they are the exclusions the property text itself makes).
  Helper lemmas: `Jawk/Lemmas/HashEq.lean`.
-/
import Jawk.Lemmas.RunCor
import Jawk.Lemmas.HashEq
namespace Jawk.C10
open Jawk HashEq

/-- Hash/Eq coherence on the domain: equal values feed the hasher the same words -/
theorem hash_eq_coherent {a b : JV} (ha : Key a) (hb : Key b) (ho : SameOrder a b)
    (h : JV.beq a b = true) : JV.hashFeed a = JV.hashFeed b := beq_coherent_ordered ha hb ho h

/-- the set lookup of `--unique` is the equality of `=` on rows compared on their input value … -/
theorem lookup_is_beq_value {a b : JV} (ha : Key a) (hb : Key b) (ho : SameOrder a b) :
    CtxKey.same (.value a) (.value b) = JV.beq a b := same_value_eq_beq ha hb ho

/-- … and on rows compared on their selected values (absent selections included) -/
theorem lookup_is_beq {a b : CtxKey} (ha : KeyC a) (hb : KeyC b) (ho : SameOrderC a b) :
    CtxKey.same a b = CtxKey.beq a b := same_eq_beq ha hb ho

/-- on the domain `==` is an equivalence relation (it is not in general: NaN, 2^53 + 1) -/
theorem beq_equivalence :
    (∀ a, Key a → JV.beq a a = true) ∧
    (∀ a b, Key a → Key b → JV.beq a b = true → JV.beq b a = true) ∧
    (∀ a b c, Key a → Key b → Key c → JV.beq a b = true → JV.beq b c = true → JV.beq a c = true) :=
  ⟨beq_refl, beq_symm, beq_trans⟩

/-! ### the stage -/

variable (orc : Oracles) (sink : SinkCfg) (n : Nat)

/-- a row whose key was seen is dropped: nothing reaches the successor, the state is unchanged -/
theorem duplicate_dropped (cs : List StageCfg) (seen : List CtxKey) (sts : List StageSt) (w : Writer)
    (ctx : Ctx) (h : seen.any (fun s => CtxKey.same s ctx.key) = true) :
    process orc sink n (.unique :: cs) (.unique seen :: sts) w ctx = .ok (⟨.unique seen :: sts, w⟩, .cont) :=
  process_unique_dup orc sink n cs seen sts w ctx h

/-- a row whose key is new is forwarded unchanged and remembered -/
theorem first_occurrence_forwarded (cs : List StageCfg) (seen : List CtxKey) (sts : List StageSt)
    (w : Writer) (ctx : Ctx) (h : seen.any (fun s => CtxKey.same s ctx.key) = false) :
    process orc sink n (.unique :: cs) (.unique seen :: sts) w ctx =
      match process orc sink n cs sts w ctx with
      | .ok (p, d) => .ok (⟨.unique (seen ++ [ctx.key]) :: p.sts, p.w⟩, d)
      | .error e => .error e := process_unique_new orc sink n cs seen sts w ctx h

/-- for every history: feeding rows through `--unique` is feeding the de-duplicated rows to the successor -/
theorem unique_stage_is_dedup (cs : List StageCfg) (seen : List CtxKey) (sts : List StageSt) (w : Writer)
    (ctxs : List Ctx) :
    feedAllIgnoring (process orc sink n (.unique :: cs)) (.unique seen :: sts) w ctxs =
      match feedAllIgnoring (process orc sink n cs) sts w (dedupOnAux CtxKey.same Ctx.key seen ctxs) with
      | .ok p => .ok ⟨.unique (seen ++ dedupAux CtxKey.same seen (ctxs.map Ctx.key)) :: p.sts, p.w⟩
      | .error e => .error e := feedAll_unique orc sink n cs seen sts w ctxs

/-! ### the list function: first occurrences, in order, nothing else removed -/

theorem dedup_sublist {α} (same : α → α → Bool) (l : List α) : (dedupFirst same l).Sublist l :=
  dedupFirst_sublist same l

theorem dedup_first_kept {α} (same : α → α → Bool) (l : List α) : (dedupFirst same l).head? = l.head? :=
  dedupFirst_head? same l

theorem dedup_no_duplicates {α} (same : α → α → Bool) (l : List α) :
    (dedupFirst same l).Pairwise (fun a b => same a b = false) := dedupFirst_no_dups same l

/-- exactly the positional rule: a row is kept iff no earlier kept row equals it -/
theorem dedup_rule {α} (same : α → α → Bool) (l : List α) (x : α) :
    dedupFirst same (l ++ [x]) =
      if (dedupFirst same l).any (fun s => same s x) then dedupFirst same l else dedupFirst same l ++ [x] :=
  dedupFirst_snoc same l x

/-- on the domain: kept rows are a sublist, pairwise not `==`, and every input row is `==` to a kept one -/
theorem unique_spec (ks : List CtxKey) (hk : ∀ k ∈ ks, KeyC k) (ho : ∀ a ∈ ks, ∀ b ∈ ks, SameOrderC a b) :
    (dedupFirst CtxKey.same ks).Sublist ks ∧
    (dedupFirst CtxKey.same ks).Pairwise (fun a b => CtxKey.beq a b = false) ∧
    ∀ x ∈ ks, ∃ y ∈ dedupFirst CtxKey.same ks, CtxKey.beq y x = true := HashEq.unique_spec ks hk ho

/-! ### outside the domain coherence fails (proved witnesses; excluded by the property text) -/

theorem incoherent_member_order :
    JV.beq (.obj [("a".toList, .num (.pos 1)), ("b".toList, .num (.pos 2))])
           (.obj [("b".toList, .num (.pos 2)), ("a".toList, .num (.pos 1))]) = true ∧
    JV.hashFeed (.obj [("a".toList, .num (.pos 1)), ("b".toList, .num (.pos 2))]) ≠
    JV.hashFeed (.obj [("b".toList, .num (.pos 2)), ("a".toList, .num (.pos 1))]) := HashEq.incoherent_member_order

theorem incoherent_neg_zero :
    JV.beq (.num (.pos 0)) (.num (.flt F64.negZero)) = true ∧
    JV.hashFeed (.num (.pos 0)) ≠ JV.hashFeed (.num (.flt F64.negZero)) := HashEq.incoherent_neg_zero

/-! ### non-vacuity -/
example : Key (JV.obj [("k".toList, JV.arr [JV.num (.pos 1), JV.str "x".toList])]) := by decide
example : dedupFirst (fun (a b : Nat) => a == b) [1, 2, 1, 3, 2, 1] = [1, 2, 3] := by decide


/-! ### the property as stated: the run with `--unique` against the run without it -/

/-- for a configuration without sort / skip / take / grouping: the rows with `--unique` are the rows without it
minus every row whose key equals that of an earlier kept row — first occurrences, in order, nothing else removed -/
theorem unique_config (orc : Oracles) (c : Cfg) (p : Pipeline) (h : build orc c = .ok p)
    (hu : c.unique = true) (hs : c.sorts = []) (hk : c.skip = 0) (ht : c.take = none) (hg : c.group = none) :
    ∃ pu, build orc { c with unique := false } = .ok pu ∧
      ∀ rows, RunCor.R orc p rows = Pipe.dedupFrom [] (RunCor.R orc pu rows) :=
  RunCor.unique_config_plain orc c p h hu hs hk ht hg

theorem unique_config_sublist (orc : Oracles) (c : Cfg) (p pu : Pipeline) (h : build orc c = .ok p)
    (hpu : build orc { c with unique := false } = .ok pu)
    (hu : c.unique = true) (hs : c.sorts = []) (hk : c.skip = 0) (ht : c.take = none)
    (hg : c.group = none) (rows : List Ctx) : (RunCor.R orc p rows).Sublist (RunCor.R orc pu rows) :=
  RunCor.unique_config_sublist orc c p pu h hpu hu hs hk ht hg rows

end Jawk.C10
