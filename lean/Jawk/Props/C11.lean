/-
  C11 — stateless pipelines are record-local: out(A·B) = out(A)·out(B).
  Corollaries of the pipeline refinement (C03).  Helper lemmas: `Jawk/Lemmas/PipelineSpec.lean`.
-/
import Jawk.Lemmas.PipelineSpec
namespace Jawk.C11
open Jawk Pipe

variable (ev : Expr → Ctx → Option JV)

/-- for a chain of `--set / --split-by / --filter / --select` stages only: the rows for a concatenated input
are the rows for the first part followed by the rows for the second -/
theorem concat_hom (cfgs : List StageCfg) (sts : List StageSt)
    (h : ∀ c ∈ cfgs, StageCfg.stateless c = true) (hlen : sts.length = cfgs.length) (A B : List Ctx) :
    runP ev cfgs sts (A ++ B) = runP ev cfgs sts A ++ runP ev cfgs sts B :=
  stateless_hom_runP ev cfgs sts h hlen A B

/-- the rows produced for a value depend only on that value: the output is the `flatMap` of a per-record function -/
theorem per_record (cfgs : List StageCfg) (sts : List StageSt)
    (h : ∀ c ∈ cfgs, StageCfg.stateless c = true) (rows : List Ctx) :
    specRows ev cfgs sts rows = rows.flatMap (fun r => specRows ev cfgs sts [r]) :=
  stateless_flatMap ev cfgs sts h rows

/-- hence permuting the input permutes the rows blockwise, and repeating a record repeats its rows -/
theorem repeat_record (cfgs : List StageCfg) (sts : List StageSt)
    (h : ∀ c ∈ cfgs, StageCfg.stateless c = true) (r : Ctx) (n : Nat) :
    specRows ev cfgs sts (List.replicate n r) = (List.replicate n (specRows ev cfgs sts [r])).flatten := by
  rw [per_record ev cfgs sts h]
  induction n with
  | zero => rfl
  | succ n ih => simp [List.replicate_succ, ih]

theorem swap_two (cfgs : List StageCfg) (sts : List StageSt)
    (h : ∀ c ∈ cfgs, StageCfg.stateless c = true) (a b : Ctx) :
    specRows ev cfgs sts [b, a] = specRows ev cfgs sts [b] ++ specRows ev cfgs sts [a] ∧
    specRows ev cfgs sts [a, b] = specRows ev cfgs sts [a] ++ specRows ev cfgs sts [b] :=
  ⟨stateless_hom ev cfgs sts h [b] [a], stateless_hom ev cfgs sts h [a] [b]⟩

/-- on the real chain (bytes): the output for `A ++ B` is the output for `A` followed by the output for `B` -/
theorem concat_hom_bytes (orc : Oracles) (sink : SinkCfg) (n : Nat) (cfgs : List StageCfg) (sts : List StageSt)
    (h : ∀ c ∈ cfgs, StageCfg.stateless c = true) (hlen : sts.length = cfgs.length)
    (hi : Initial cfgs sts) (hg : GroupLast cfgs) (hna : NoAbort orc cfgs) (w : Writer) (hw : Unbounded w)
    (A B : List Ctx) :
    (feedUntilBreak (process orc sink n cfgs) sts w (A ++ B) >>= fun r => complete orc sink n cfgs r.1.sts r.1.w)
      = .ok (wappend w ((specRows (evalT orc) cfgs sts A).flatMap (sinkBytes sink n)
                        ++ (specRows (evalT orc) cfgs sts B).flatMap (sinkBytes sink n))) := by
  have _ := hlen
  rw [total_spec orc sink n w (A ++ B) hna hw hi hg, stateless_hom (evalT orc) cfgs sts h A B, List.flatMap_append]

/-! ### non-vacuity -/
example : ∀ c ∈ [StageCfg.split (.extract 0 []), .filter (.extract 0 [Jawk.Step.key "k".toList]),
    .select "x".toList (.extract 0 [])], StageCfg.stateless c = true := by simp [StageCfg.stateless]

end Jawk.C11
