/-
  C11 — stateless pipelines are record-local: out(A·B) = out(A)·out(B).
  Corollaries of the pipeline refinement (C03).  Helper lemmas: `Jawk/Lemmas/PipelineSpec.lean`.
-/
import Jawk.Lemmas.Fixpoint
import Jawk.Lemmas.PipelineSpec
namespace Jawk.C11
open Jawk Pipe

variable (ev : Expr → Ctx → Option JV)

/-- for a chain of `--set / --split-by / --filter / --select` stages only: the rows for a concatenated input
are the rows for the first part followed by the rows for the second -/
theorem concat_hom (cfgs : List StageCfg) (sts : List StageSt)
    (h : ∀ c ∈ cfgs, StageCfg.stateless c = true) (hlen : sts.length = cfgs.length) (A B : List Ctx) :
    runP ev cfgs sts (A ++ B) = runP ev cfgs sts A ++ runP ev cfgs sts B :=
  stateless_hom_runP ev cfgs sts h hlen A B

/-- the rows produced for a value depend only on that value: the output is the `flatMap` of a per-record function -/
theorem per_record (cfgs : List StageCfg) (sts : List StageSt)
    (h : ∀ c ∈ cfgs, StageCfg.stateless c = true) (rows : List Ctx) :
    specRows ev cfgs sts rows = rows.flatMap (fun r => specRows ev cfgs sts [r]) :=
  stateless_flatMap ev cfgs sts h rows

/-- hence permuting the input permutes the rows blockwise, and repeating a record repeats its rows -/
theorem repeat_record (cfgs : List StageCfg) (sts : List StageSt)
    (h : ∀ c ∈ cfgs, StageCfg.stateless c = true) (r : Ctx) (n : Nat) :
    specRows ev cfgs sts (List.replicate n r) = (List.replicate n (specRows ev cfgs sts [r])).flatten := by
  rw [per_record ev cfgs sts h]
  induction n with
  | zero => rfl
  | succ n ih => simp [List.replicate_succ, ih]

theorem swap_two (cfgs : List StageCfg) (sts : List StageSt)
    (h : ∀ c ∈ cfgs, StageCfg.stateless c = true) (a b : Ctx) :
    specRows ev cfgs sts [b, a] = specRows ev cfgs sts [b] ++ specRows ev cfgs sts [a] ∧
    specRows ev cfgs sts [a, b] = specRows ev cfgs sts [a] ++ specRows ev cfgs sts [b] :=
  ⟨stateless_hom ev cfgs sts h [b] [a], stateless_hom ev cfgs sts h [a] [b]⟩

/-- on the real chain (bytes): the output for `A ++ B` is the output for `A` followed by the output for `B` -/
theorem concat_hom_bytes (orc : Oracles) (sink : SinkCfg) (n : Nat) (cfgs : List StageCfg) (sts : List StageSt)
    (h : ∀ c ∈ cfgs, StageCfg.stateless c = true) (hlen : sts.length = cfgs.length)
    (hi : Initial cfgs sts) (hg : GroupLast cfgs) (hna : NoAbort orc cfgs) (w : Writer) (hw : Unbounded w)
    (A B : List Ctx) :
    (feedUntilBreak (process orc sink n cfgs) sts w (A ++ B) >>= fun r => complete orc sink n cfgs r.1.sts r.1.w)
      = .ok (wappend w ((specRows (evalT orc) cfgs sts A).flatMap (sinkBytes sink n)
                        ++ (specRows (evalT orc) cfgs sts B).flatMap (sinkBytes sink n))) := by
  have _ := hlen
  rw [total_spec orc sink n w (A ++ B) hna hw hi hg, stateless_hom (evalT orc) cfgs sts h A B, List.flatMap_append]

/-! ### non-vacuity -/
example : ∀ c ∈ [StageCfg.split (.extract 0 []), .filter (.extract 0 [Jawk.Step.key "k".toList]),
    .select "x".toList (.extract 0 [])], StageCfg.stateless c = true := by simp [StageCfg.stateless]


/-! ### whole runs, as bytes (helper file `Jawk/Lemmas/Fixpoint.lean`) -/

/-- MAIN: for a configuration whose chain is stateless and whose expressions read neither line/column nor
ordinals (`chainNoOrd`, a decidable syntactic check; `&file-name` is allowed), JSON output: the standard output
for the concatenated input `A ++ B` is the output for `A` followed by the output for `B` — `A`, `B` any streams
of values (in any of jawk's spellings, with or without noise in the gaps) separated by white space -/
theorem concat_hom_run (orc : Oracles) (c : Cfg) (p : Pipeline) (hpol : c.onError = .ignore)
    (hb : build orc c = .ok p) (hst : ∀ s ∈ p.cfgs, StageCfg.stateless s = true)
    (hno : Fix.chainNoOrd p.cfgs = true) (hna : NoAbort orc p.cfgs)
    (hjson : ∃ jo sep, p.sink = .json jo sep)
    (o : JsonOpts) (gA : Noise.Gap) (itemsA : List (JV × Noise.Gap)) (gB : Noise.Gap) (itemsB : List (JV × Noise.Gap))
    (hA0 : gA.OK) (hA : Noise.ItemsOK o itemsA) (hB0 : gB.OK) (hB : Noise.ItemsOK o itemsB)
    (hsep : gB.ws ≠ [] ∨ Fix.EndsWs itemsA) (name : Option Str) :
    (run orc c [⟨name, cleanInput (Noise.stream o gA itemsA ++ Noise.stream o gB itemsB)⟩] {} {}).stdout
      = (run orc c [⟨name, cleanInput (Noise.stream o gA itemsA)⟩] {} {}).stdout
        ++ (run orc c [⟨name, cleanInput (Noise.stream o gB itemsB)⟩] {} {}).stdout :=
  Fix.concat_hom_run orc c p hpol hb hst hno hna hjson o gA itemsA gB itemsB hA0 hA hB0 hB hsep name

end Jawk.C11
