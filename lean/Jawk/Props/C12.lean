/-
  C12 — bindings are lexical and transparent; pipes and later selects keep their inputs.
-/
import Jawk.Lemmas.Subst
import Jawk.Model.Eval
import Jawk.Model.Stages
namespace Jawk.C12
open Jawk

/-! ### Frame lemmas: a binding changes nothing else an expression can observe -/

theorem withVariable_frame (c : Ctx) (n : Str) (x : JV) :
    (c.withVariable n x).input = c.input ∧ (c.withVariable n x).parents = c.parents ∧
    (c.withVariable n x).results = c.results ∧ (c.withVariable n x).defs = c.defs ∧
    (c.withVariable n x).ictx = c.ictx := ⟨rfl, rfl, rfl, rfl, rfl⟩

theorem withVariables_frame (c : Ctx) (vs : List (Str × JV)) :
    (c.withVariables vs).input = c.input ∧ (c.withVariables vs).parents = c.parents ∧
    (c.withVariables vs).results = c.results ∧ (c.withVariables vs).defs = c.defs ∧
    (c.withVariables vs).ictx = c.ictx := ⟨rfl, rfl, rfl, rfl, rfl⟩

theorem withDefinition_frame (c : Ctx) (n : Str) (d : Expr) :
    (c.withDefinition n d).input = c.input ∧ (c.withDefinition n d).parents = c.parents ∧
    (c.withDefinition n d).results = c.results ∧ (c.withDefinition n d).vars = c.vars ∧
    (c.withDefinition n d).ictx = c.ictx := ⟨rfl, rfl, rfl, rfl, rfl⟩

theorem withDefinitions_frame (c : Ctx) (ds : List (Str × Expr)) :
    (c.withDefinitions ds).input = c.input ∧ (c.withDefinitions ds).parents = c.parents ∧
    (c.withDefinitions ds).results = c.results ∧ (c.withDefinitions ds).vars = c.vars ∧
    (c.withDefinitions ds).ictx = c.ictx := ⟨rfl, rfl, rfl, rfl, rfl⟩

theorem withResult_frame (c : Ctx) (t : Str) (r : Option JV) :
    (c.withResult t r).input = c.input ∧ (c.withResult t r).parents = c.parents ∧
    (c.withResult t r).vars = c.vars ∧ (c.withResult t r).defs = c.defs ∧
    (c.withResult t r).ictx = c.ictx ∧ (c.withResult t r).results = c.results ++ [(t, r)] :=
  ⟨rfl, rfl, rfl, rfl, rfl, rfl⟩

/-- the newest binding shadows, older bindings of other names stay visible -/
theorem getVariable_withVariable (c : Ctx) (n m : Str) (x : JV) :
    (c.withVariable n x).getVariable m = if n = m then some x else c.getVariable m := by
  simp [Ctx.withVariable, Ctx.getVariable, Ctx.lookup]

theorem getDefinition_withDefinition (c : Ctx) (n m : Str) (d : Expr) :
    (c.withDefinition n d).getDefinition m = if n = m then some d else c.getDefinition m := by
  simp [Ctx.withDefinition, Ctx.getDefinition, Ctx.lookup]

/-- extractors (`.k`, `#i`, `^`) do not see variable, macro or result bindings -/
theorem extract_ignores_bindings (orc : Oracles) (fuel : Nat) (parents : Nat) (steps : List Step) (c : Ctx)
    (n : Str) (x : JV) (d : Expr) (t : Str) (r : Option JV) :
    eval orc (fuel + 1) (.extract parents steps) (c.withVariable n x) = eval orc (fuel + 1) (.extract parents steps) c ∧
    eval orc (fuel + 1) (.extract parents steps) (c.withDefinition n d) = eval orc (fuel + 1) (.extract parents steps) c ∧
    eval orc (fuel + 1) (.extract parents steps) (c.withResult t r) = eval orc (fuel + 1) (.extract parents steps) c := by
  refine ⟨?_, ?_, ?_⟩ <;> simp [eval, Ctx.parentInput, Ctx.withVariable, Ctx.withDefinition, Ctx.withResult]

/-- `(set n v e)` is `let`: evaluate `e` with `n` bound to the value of `v`, everything else as it was -/
theorem set_is_let (ev : Ev) (nameE v e : Expr) (c : Ctx) (n : Str) (x : JV)
    (hn : ev nameE c = .ok (some (.str n))) (hv : ev v c = .ok (some x)) :
    callBasic ev "set" [nameE, v, e] c = some (ev e (c.withVariable n x)) := by
  simp [callBasic, applyArg, hn, hv, strArg, bind, Except.bind]

/-- `(define n m e)`: evaluate `e` with the macro `n` bound to the *expression* `m` -/
theorem define_is_binding (ev : Ev) (nameE m e : Expr) (c : Ctx) (n : Str)
    (hn : ev nameE c = .ok (some (.str n))) :
    callBasic ev "define" [nameE, m, e] c = some (ev e (c.withDefinition n m)) := by
  simp [callBasic, applyArg, hn, strArg, bind, Except.bind]

/-- `:n` reads the binding; `@n` evaluates the bound macro body in the *current* context -/
theorem var_reads_binding (orc : Oracles) (fuel : Nat) (c : Ctx) (n : Str) :
    eval orc (fuel + 1) (.var n) c = .ok (c.getVariable n) := by simp [eval]

theorem macro_is_body (orc : Oracles) (fuel : Nat) (c : Ctx) (n : Str) (m : Expr)
    (h : c.getDefinition n = some m) :
    eval orc (fuel + 2) (.macro n) c = eval orc (fuel + 1) m c := by simp [eval, h]

/-- `(| a b)`: `b` is evaluated with `a`'s value as input and the previous input as parent -/
theorem pipe_threads (ev : Ev) (a b : Expr) (c : Ctx) (va : JV)
    (ha : ev a (c.withInput c.input) = .ok (some va)) :
    callBasic ev "|" [a, b] c =
      some (match ev b ((c.withInput c.input).withInput va) with
        | .ok (some vb) => .ok (some vb)
        | .ok none => .ok none
        | .error x => .error x) := by
  simp [callBasic, callBasic.go, ha, bind, Except.bind]
  cases ev b ((c.withInput c.input).withInput va) with
  | error x => rfl
  | ok r => cases r <;> simp [Ctx.withInput]

theorem pipe_input_and_parent (c : Ctx) (va : JV) :
    ((c.withInput c.input).withInput va).input = va ∧
    ((c.withInput c.input).withInput va).parents.head? = some c.input := ⟨rfl, rfl⟩

/-- the `--set` stage is exactly `withVariables ∘ withDefinitions`: frame preserved -/
theorem preset_stage_is_binding (orc : Oracles) (sink : SinkCfg) (n : Nat) (vars : List (Str × JV)) (defs : List (Str × Expr))
    (cs : List StageCfg) (st : StageSt) (sts : List StageSt) (w : Writer) (ctx : Ctx) :
    process orc sink n (.preset vars defs :: cs) (st :: sts) w ctx =
      (do let (p, d) ← process orc sink n cs sts w ((ctx.withVariables vars).withDefinitions defs)
          pure (⟨st :: p.sts, p.w⟩, d)) := by
  simp [process]
  rfl

/-- every `--select` hands its successor the same input, parents, variables, macros and
input context; only the list of results grows -/
theorem select_stage_keeps_context (orc : Oracles) (sink : SinkCfg) (n : Nat) (name : Str) (e : Expr)
    (cs : List StageCfg) (st : StageSt) (sts : List StageSt) (w : Writer) (ctx : Ctx) (r : Option JV)
    (hr : eval orc evalFuel e ctx = .ok r) :
    process orc sink n (.select name e :: cs) (st :: sts) w ctx =
      (do let (p, d) ← process orc sink n cs sts w (ctx.withResult name r)
          pure (⟨st :: p.sts, p.w⟩, d)) := by
  simp [process, evalE, liftR, hr, bind, Except.bind]
  rfl

/-- non-vacuity: a context with parents, and a binding that leaves them alone -/
example : (({ input := .null, parents := [.bool true] } : Ctx).withVariable ['x'] .null).parents = [.bool true] := rfl


/-! ### substitution, by induction over ALL expressions (helper file `Jawk/Lemmas/Subst.lean`)

`substVar n x` replaces the free occurrences of `:n` by the constant `x` (an inner `(set "n" …)` with the
literal name `n` shadows `n` in its body; under a `set` with a computed name substitution stops — the proved
counter-example `computed_name_rebinds` shows it must).  Macro bodies are evaluated in the context of their USE
(`macro_is_body`), i.e. macros are late-bound: a free `:x` inside a macro body reads the binding current where
`@m` is used, not where it was defined — proved below (`macro_bodies_are_late_bound`), replayed on the binary and
recorded as known finding F21, because the property's "replace every :n in scope" reading and its "replace @n by
the macro body" reading disagree exactly there. -/

/-- a bound variable IS its value: for every expression, context and depth -/
theorem subst_var (orc : Oracles) (n : Str) (x : JV) (fuel : Nat) (e : Expr) (ctx : Ctx)
    (h : ctx.getVariable n = some x) : eval orc fuel e ctx = eval orc fuel (Subst.substVar n x e) ctx :=
  Subst.subst_var orc n x fuel e ctx h

/-- `(set n v e)` evaluates `e` exactly as if every free `:n` were replaced by the value — and changes nothing
else `e` can observe (`set_changes_nothing_else`) -/
theorem set_is_substitution (orc : Oracles) (fuel : Nat) (n : Str) (v e : Expr) (ctx : Ctx) (x : JV)
    (hv : eval orc fuel v ctx = .ok (some x)) :
    eval orc (fuel + 1) (.call "set" [.const (.str n), v, e]) ctx =
      eval orc fuel (Subst.substVar n x e) (ctx.withVariable n x) :=
  Subst.set_is_substitution orc fuel n v e ctx x hv

theorem set_changes_nothing_else (ctx : Ctx) (n : Str) (x : JV) :
    (ctx.withVariable n x).input = ctx.input ∧ (ctx.withVariable n x).parents = ctx.parents ∧
    (ctx.withVariable n x).results = ctx.results ∧ (ctx.withVariable n x).defs = ctx.defs ∧
    (ctx.withVariable n x).ictx = ctx.ictx ∧
    (∀ k, k ≠ n → (ctx.withVariable n x).getVariable k = ctx.getVariable k) ∧
    (ctx.withVariable n x).getVariable n = some x := Subst.set_frame ctx n x

/-- `(define n m e)`: every result of `e` under the binding is a result of `e` with `@n` replaced by the body,
and conversely (one more unit of depth, which `@n` itself costs) -/
theorem define_is_substitution (orc : Oracles) (fuel : Nat) (n : Str) (m e : Expr) (ctx : Ctx) (r : Option JV) :
    (eval orc (fuel + 2) (.call "define" [.const (.str n), m, e]) ctx = .ok r →
      eval orc (fuel + 1) (Subst.substMacro n m e) (ctx.withDefinition n m) = .ok r) ∧
    (eval orc fuel (Subst.substMacro n m e) (ctx.withDefinition n m) = .ok r →
      eval orc (fuel + 2) (.call "define" [.const (.str n), m, e]) ctx = .ok r) :=
  ⟨Subst.define_is_substitution orc fuel n m e ctx r, Subst.define_is_substitution_conv orc fuel n m e ctx r⟩

/-- more depth never changes a result: `overflow` is the only outcome that depends on the budget -/
theorem eval_fuel_mono (orc : Oracles) {f f' : Nat} {e : Expr} {ctx : Ctx} {r : Option JV}
    (h : eval orc f e ctx = .ok r) (hf : f ≤ f') : eval orc f' e ctx = .ok r := Subst.eval_fuel_mono orc h hf

/-- `--set n=v` in front of any later stages: those stages behave exactly as with `:n` replaced by `v` -/
theorem presets_are_substitution (orc : Oracles) (vars : List (Str × JV)) (defs : List (Str × Expr))
    (cs : List StageCfg) (st : StageSt) (sts : List StageSt) (ctx : Ctx) (n : Str) (x : JV)
    (hn : Ctx.lookup vars n = some x) (hnp : ∀ c ∈ cs, Subst.isPreset c = false) :
    Pipe.processP (Pipe.evalT orc) (.preset vars defs :: cs.map (Subst.substStage n x)) (st :: sts) ctx =
      Pipe.processP (Pipe.evalT orc) (.preset vars defs :: cs) (st :: sts) ctx :=
  Subst.presets_are_substitution orc vars defs cs st sts ctx n x hn hnp

/-- every `--select` sees the same input, parents, bindings and input context as the first; only the list of
earlier results grows, and the i-th value lands in column i -/
theorem selects_see_same_ctx (ev : Expr → Ctx → Option JV) (sels : List (Str × Expr)) (c : Ctx) (i : Nat)
    (t : Str) (e : Expr) (hi : sels[i]? = some (t, e)) :
    let ci := Subst.selCtx ev (sels.take i) c
    ci.input = c.input ∧ ci.parents = c.parents ∧ ci.vars = c.vars ∧ ci.defs = c.defs ∧ ci.ictx = c.ictx ∧
    Subst.selCtx ev (sels.take (i + 1)) c = ci.withResult t (ev e ci) ∧
    (Subst.selCtx ev sels c).results[c.results.length + i]? = some (t, ev e ci) :=
  Subst.selects_see_same_ctx ev sels c i t e hi

/-- `(| e₁ … eₖ)`: each stage is evaluated with its predecessor's value as input and the chain of earlier
inputs as parents; bindings and input context are those of the pipe -/
theorem pipe_frame (c : Ctx) (vs : List JV) :
    (Subst.pipeCtx c vs).input :: (Subst.pipeCtx c vs).parents = vs.reverse ++ c.input :: c.parents ∧
    (Subst.pipeCtx c vs).vars = c.vars ∧ (Subst.pipeCtx c vs).defs = c.defs ∧ (Subst.pipeCtx c vs).ictx = c.ictx :=
  Subst.pipeCtx_frame c vs

/-- F21 (known finding), proved on the model and replayed on the binary: macro bodies are late-bound.
`(set "x" 1 (define "m" :x (set "x" 2 @m)))` is 2, while replacing `:x` by 1 first gives 1 -/
theorem macro_bodies_are_late_bound :
    eval {} 10 Subst.Ex.dyn {} = .ok (some (Subst.Ex.num 2)) ∧
    eval {} 10 Subst.Ex.dynSubst {} = .ok (some (Subst.Ex.num 1)) := Subst.Ex.define_body_dynamic

end Jawk.C12
