/-
  C12 — bindings are lexical and transparent; pipes and later selects keep their inputs.
-/
import Jawk.Model.Eval
import Jawk.Model.Stages
namespace Jawk.C12
open Jawk

/-! ### Frame lemmas: a binding changes nothing else an expression can observe -/

theorem withVariable_frame (c : Ctx) (n : Str) (x : JV) :
    (c.withVariable n x).input = c.input ∧ (c.withVariable n x).parents = c.parents ∧
    (c.withVariable n x).results = c.results ∧ (c.withVariable n x).defs = c.defs ∧
    (c.withVariable n x).ictx = c.ictx := ⟨rfl, rfl, rfl, rfl, rfl⟩

theorem withVariables_frame (c : Ctx) (vs : List (Str × JV)) :
    (c.withVariables vs).input = c.input ∧ (c.withVariables vs).parents = c.parents ∧
    (c.withVariables vs).results = c.results ∧ (c.withVariables vs).defs = c.defs ∧
    (c.withVariables vs).ictx = c.ictx := ⟨rfl, rfl, rfl, rfl, rfl⟩

theorem withDefinition_frame (c : Ctx) (n : Str) (d : Expr) :
    (c.withDefinition n d).input = c.input ∧ (c.withDefinition n d).parents = c.parents ∧
    (c.withDefinition n d).results = c.results ∧ (c.withDefinition n d).vars = c.vars ∧
    (c.withDefinition n d).ictx = c.ictx := ⟨rfl, rfl, rfl, rfl, rfl⟩

theorem withDefinitions_frame (c : Ctx) (ds : List (Str × Expr)) :
    (c.withDefinitions ds).input = c.input ∧ (c.withDefinitions ds).parents = c.parents ∧
    (c.withDefinitions ds).results = c.results ∧ (c.withDefinitions ds).vars = c.vars ∧
    (c.withDefinitions ds).ictx = c.ictx := ⟨rfl, rfl, rfl, rfl, rfl⟩

theorem withResult_frame (c : Ctx) (t : Str) (r : Option JV) :
    (c.withResult t r).input = c.input ∧ (c.withResult t r).parents = c.parents ∧
    (c.withResult t r).vars = c.vars ∧ (c.withResult t r).defs = c.defs ∧
    (c.withResult t r).ictx = c.ictx ∧ (c.withResult t r).results = c.results ++ [(t, r)] :=
  ⟨rfl, rfl, rfl, rfl, rfl, rfl⟩

/-- the newest binding shadows, older bindings of other names stay visible -/
theorem getVariable_withVariable (c : Ctx) (n m : Str) (x : JV) :
    (c.withVariable n x).getVariable m = if n = m then some x else c.getVariable m := by
  simp [Ctx.withVariable, Ctx.getVariable, Ctx.lookup]

theorem getDefinition_withDefinition (c : Ctx) (n m : Str) (d : Expr) :
    (c.withDefinition n d).getDefinition m = if n = m then some d else c.getDefinition m := by
  simp [Ctx.withDefinition, Ctx.getDefinition, Ctx.lookup]

/-- extractors (`.k`, `#i`, `^`) do not see variable, macro or result bindings -/
theorem extract_ignores_bindings (orc : Oracles) (fuel : Nat) (parents : Nat) (steps : List Step) (c : Ctx)
    (n : Str) (x : JV) (d : Expr) (t : Str) (r : Option JV) :
    eval orc (fuel + 1) (.extract parents steps) (c.withVariable n x) = eval orc (fuel + 1) (.extract parents steps) c ∧
    eval orc (fuel + 1) (.extract parents steps) (c.withDefinition n d) = eval orc (fuel + 1) (.extract parents steps) c ∧
    eval orc (fuel + 1) (.extract parents steps) (c.withResult t r) = eval orc (fuel + 1) (.extract parents steps) c := by
  refine ⟨?_, ?_, ?_⟩ <;> simp [eval, Ctx.parentInput, Ctx.withVariable, Ctx.withDefinition, Ctx.withResult]

/-- `(set n v e)` is `let`: evaluate `e` with `n` bound to the value of `v`, everything else as it was -/
theorem set_is_let (ev : Ev) (nameE v e : Expr) (c : Ctx) (n : Str) (x : JV)
    (hn : ev nameE c = .ok (some (.str n))) (hv : ev v c = .ok (some x)) :
    callBasic ev "set" [nameE, v, e] c = some (ev e (c.withVariable n x)) := by
  simp [callBasic, applyArg, hn, hv, strArg, bind, Except.bind]

/-- `(define n m e)`: evaluate `e` with the macro `n` bound to the *expression* `m` -/
theorem define_is_binding (ev : Ev) (nameE m e : Expr) (c : Ctx) (n : Str)
    (hn : ev nameE c = .ok (some (.str n))) :
    callBasic ev "define" [nameE, m, e] c = some (ev e (c.withDefinition n m)) := by
  simp [callBasic, applyArg, hn, strArg, bind, Except.bind]

/-- `:n` reads the binding; `@n` evaluates the bound macro body in the *current* context -/
theorem var_reads_binding (orc : Oracles) (fuel : Nat) (c : Ctx) (n : Str) :
    eval orc (fuel + 1) (.var n) c = .ok (c.getVariable n) := by simp [eval]

theorem macro_is_body (orc : Oracles) (fuel : Nat) (c : Ctx) (n : Str) (m : Expr)
    (h : c.getDefinition n = some m) :
    eval orc (fuel + 2) (.macro n) c = eval orc (fuel + 1) m c := by simp [eval, h]

/-- `(| a b)`: `b` is evaluated with `a`'s value as input and the previous input as parent -/
theorem pipe_threads (ev : Ev) (a b : Expr) (c : Ctx) (va : JV)
    (ha : ev a (c.withInput c.input) = .ok (some va)) :
    callBasic ev "|" [a, b] c =
      some (match ev b ((c.withInput c.input).withInput va) with
        | .ok (some vb) => .ok (some vb)
        | .ok none => .ok none
        | .error x => .error x) := by
  simp [callBasic, callBasic.go, ha, bind, Except.bind]
  cases ev b ((c.withInput c.input).withInput va) with
  | error x => rfl
  | ok r => cases r <;> simp [Ctx.withInput]

theorem pipe_input_and_parent (c : Ctx) (va : JV) :
    ((c.withInput c.input).withInput va).input = va ∧
    ((c.withInput c.input).withInput va).parents.head? = some c.input := ⟨rfl, rfl⟩

/-- the `--set` stage is exactly `withVariables ∘ withDefinitions`: frame preserved -/
theorem preset_stage_is_binding (orc : Oracles) (sink : SinkCfg) (n : Nat) (vars : List (Str × JV)) (defs : List (Str × Expr))
    (cs : List StageCfg) (st : StageSt) (sts : List StageSt) (w : Writer) (ctx : Ctx) :
    process orc sink n (.preset vars defs :: cs) (st :: sts) w ctx =
      (do let (p, d) ← process orc sink n cs sts w ((ctx.withVariables vars).withDefinitions defs)
          pure (⟨st :: p.sts, p.w⟩, d)) := by
  simp [process]
  rfl

/-- every `--select` hands its successor the same input, parents, variables, macros and
input context; only the list of results grows -/
theorem select_stage_keeps_context (orc : Oracles) (sink : SinkCfg) (n : Nat) (name : Str) (e : Expr)
    (cs : List StageCfg) (st : StageSt) (sts : List StageSt) (w : Writer) (ctx : Ctx) (r : Option JV)
    (hr : eval orc evalFuel e ctx = .ok r) :
    process orc sink n (.select name e :: cs) (st :: sts) w ctx =
      (do let (p, d) ← process orc sink n cs sts w (ctx.withResult name r)
          pure (⟨st :: p.sts, p.w⟩, d)) := by
  simp [process, evalE, liftR, hr, bind, Except.bind]
  rfl

/-- non-vacuity: a context with parents, and a binding that leaves them alone -/
example : (({ input := .null, parents := [.bool true] } : Ctx).withVariable ['x'] .null).parents = [.bool true] := rfl

end Jawk.C12
