/-
  C13 — an expression means the same in every position, alias, spelling and cache size.
-/
import Jawk.Lemmas.ParseRender
import Jawk.Model.Run
import Jawk.Spec.Cache
import Jawk.Props.Tables
namespace Jawk.C13
open Jawk Jawk.Spec

/-! ### Aliases (over the GENERATED table, re-checked on every run) -/

/-- all 192 names and aliases of the function table are distinct, so a name resolves to one function -/
theorem names_nodup : Generated.functionNameCodes.Nodup := by decide +kernel

/-- the kernel-reducible signature table lists exactly the functions of `functionTable`,
in the same order (same number of entries) -/
theorem sig_table_length : Generated.functionSigCodes.length = Generated.functionTable.length := by decide

/-- the table of names has one entry per function plus one per alias -/
theorem names_count :
    Generated.functionNameCodes.length =
      (Generated.functionSigCodes.map (fun s => 1 + s.2.1)).sum := by decide +kernel

/-- name resolution only depends on the table entry: two names of the same entry give the same function -/
theorem alias_same_fn (n₁ n₂ : String) (e : String × List String × Nat × Option Nat)
    (h₁ : Generated.functionTable.find? (fun (name, aliases, _, _) => name == n₁ || aliases.contains n₁) = some e)
    (h₂ : Generated.functionTable.find? (fun (name, aliases, _, _) => name == n₂ || aliases.contains n₂) = some e) :
    findFunction n₁ = findFunction n₂ := by
  unfold findFunction
  rw [h₁, h₂]

/-! ### Position: every option position evaluates the expression with the same evaluator -/

theorem filter_uses_eval (orc : Oracles) (sink : SinkCfg) (n : Nat) (e : Expr) (cs : List StageCfg)
    (st : StageSt) (sts : List StageSt) (w : Writer) (ctx : Ctx) (v : Option JV)
    (hv : eval orc evalFuel e ctx = .ok v) :
    process orc sink n (.filter e :: cs) (st :: sts) w ctx =
      (match v with
        | some (.bool true) =>
          (do let (p, d) ← process orc sink n cs sts w ctx
              pure (⟨st :: p.sts, p.w⟩, d))
        | _ => .ok (⟨st :: sts, w⟩, .cont)) := by
  simp only [process, evalE, liftR, hv, bind, Except.bind]
  cases v with
  | none => rfl
  | some x =>
    cases x with
    | bool b => cases b <;> rfl
    | _ => rfl

theorem select_uses_eval (orc : Oracles) (sink : SinkCfg) (n : Nat) (name : Str) (e : Expr) (cs : List StageCfg)
    (st : StageSt) (sts : List StageSt) (w : Writer) (ctx : Ctx) (v : Option JV)
    (hv : eval orc evalFuel e ctx = .ok v) :
    process orc sink n (.select name e :: cs) (st :: sts) w ctx =
      (do let (p, d) ← process orc sink n cs sts w (ctx.withResult name v)
          pure (⟨st :: p.sts, p.w⟩, d)) := by
  simp [process, evalE, liftR, hv, bind, Except.bind]
  rfl

theorem group_uses_eval (orc : Oracles) (sink : SinkCfg) (n : Nat) (e : Expr) (cs : List StageCfg)
    (data : List (Str × List JV)) (sts : List StageSt) (w : Writer) (ctx : Ctx) (v : Option JV)
    (hv : eval orc evalFuel e ctx = .ok v) :
    process orc sink n (.group e :: cs) (.group data :: sts) w ctx =
      .ok (⟨(match v with
              | some (.str key) => .group (groupInsert key ctx.build data)
              | _ => .group data) :: sts, w⟩, .cont) := by
  simp only [process, evalE, liftR, hv, bind, Except.bind]
  cases v with
  | none => rfl
  | some x => cases x <;> rfl

theorem sort_uses_eval (orc : Oracles) (sink : SinkCfg) (n : Nat) (e : Expr) (desc : Bool) (cs : List StageCfg)
    (data : Buckets) (sts : List StageSt) (w : Writer) (ctx : Ctx) (k : JV)
    (hv : eval orc evalFuel e ctx = .ok (some k)) :
    process orc sink n (.sort e desc :: cs) (.sort data none :: sts) w ctx =
      .ok (⟨.sort (bucketInsert k ctx data) none :: sts, w⟩, .cont) := by
  simp [process, evalE, liftR, hv, bind, Except.bind, sortStep]

/-- a macro is its body: `@m` where `m` is bound to `e` has the value of `e` -/
theorem macro_uses_eval (orc : Oracles) (fuel : Nat) (c : Ctx) (n : Str) (e : Expr)
    (h : c.getDefinition n = some e) :
    eval orc (fuel + 2) (.macro n) c = eval orc (fuel + 1) e c := by simp [eval, h]

/-! ### Cache: transparent for every capacity, every history, every eviction policy -/

theorem cache_transparent {α} (compile : List Char → α) (evict : CacheSt α → CacheSt α)
    (hev : ∀ s, ∀ e ∈ evict s, e ∈ s) (cap : Nat) (s : CacheSt α) (p : List Char)
    (hinv : CacheInv compile s) :
    (compileCached compile evict cap s p).1 = compile p ∧
    CacheInv compile (compileCached compile evict cap s p).2 := by
  unfold compileCached
  by_cases hc : cap = 0
  · simp [hc, hinv]
  · simp only [hc, if_false]
    cases hf : s.find? (fun e => e.1 = p) with
    | some e =>
      have hmem := List.mem_of_find?_eq_some hf
      have hp : e.1 = p := by simpa using List.find?_some hf
      exact ⟨by simp [hinv e hmem, hp], hinv⟩
    | none =>
      refine ⟨rfl, ?_⟩
      intro e he
      simp only [List.mem_cons] at he
      rcases he with rfl | he
      · rfl
      · split at he
        · exact hinv e (hev s e he)
        · exact hinv e he

/-- any sequence of compilations through the cache returns what uncached compilation returns -/
theorem cache_any_history {α} (compile : List Char → α) (evict : CacheSt α → CacheSt α)
    (hev : ∀ s, ∀ e ∈ evict s, e ∈ s) (cap : Nat) (ps : List (List Char)) (s : CacheSt α)
    (hinv : CacheInv compile s) :
    (ps.foldl (fun (acc : List α × CacheSt α) p =>
        let r := compileCached compile evict cap acc.2 p
        (acc.1 ++ [r.1], r.2)) ([], s)).1 = ps.map compile := by
  suffices h : ∀ (done : List α) (s : CacheSt α), CacheInv compile s →
      (ps.foldl (fun (acc : List α × CacheSt α) p =>
        let r := compileCached compile evict cap acc.2 p
        (acc.1 ++ [r.1], r.2)) (done, s)).1 = done ++ ps.map compile by
    simpa using h [] s hinv
  induction ps with
  | nil => intro done s _; simp
  | cons p ps ih =>
    intro done s hs
    have ht := cache_transparent compile evict hev cap s p hs
    simp only [List.foldl_cons, List.map_cons]
    rw [ih _ _ ht.2, ht.1]
    simp

/-- non-vacuity: an empty cache satisfies the invariant, and FIFO eviction satisfies `hev` -/
example : CacheInv (fun p => p.length) ([] : CacheSt Nat) := by intro e he; cases he
example : ∀ (s : CacheSt Nat), ∀ e ∈ s.dropLast, e ∈ s := fun s e he => (List.dropLast_sublist s).subset he


/-! ### spelling independence: `parse ∘ render = id` (helper file `Jawk/Lemmas/ParseRender.lean`)

`PR.render st e` writes an AST as text in a `Style` (how arguments are separated — any non-empty mix of blanks
and commas —, what precedes the closing parenthesis, which of its names each function is called by, how literals
are printed); `PR.WFR` is the set of ASTs that have a text at all (keys without stop bytes, printable literals,
arities in range). -/

/-- an alias resolves to the same definition as the canonical name — over the whole table regenerated from the
source, so the parser builds THE SAME AST for `(alias args…)` and `(name args…)`, with and without dot sugar -/
theorem alias_same_ast (e : String × List String × Nat × Option Nat) (he : e ∈ Generated.functionTable)
    (a : String) (ha : a ∈ e.2.1) (fuel : Nat) :
    PR.resolveCall a.toList fuel = PR.resolveCall e.1.toList fuel ∧
    PR.resolveCall ('.' :: a.toList) fuel = PR.resolveCall ('.' :: e.1.toList) fuel :=
  PR.alias_same_ast e he a ha fuel

/-- MAIN: every renderable AST, written in ANY valid style with any surrounding white space, parses back to
exactly that AST -/
theorem parse_render (st : PR.Style) (hst : PR.StyleOK st) (e : Expr) (he : PR.WFR st.o e)
    (lead trail : Str) (hlead : ∀ c ∈ lead, RT.isWsChar c = true) (htrail : ∀ c ∈ trail, RT.isWsChar c = true) :
    parseWholeExpr (lead ++ (PR.render st e ++ trail)) = .ok e :=
  PR.parseWholeExpr_render st hst e he lead trail hlead htrail

/-- hence two spellings of the same expression — spaces or commas or both, padding, any alias, any literal
style — mean the same: they ARE the same AST -/
theorem spelling_independent (st₁ st₂ : PR.Style) (h₁ : PR.StyleOK st₁) (h₂ : PR.StyleOK st₂) (e : Expr)
    (he₁ : PR.WFR st₁.o e) (he₂ : PR.WFR st₂.o e) (lead₁ trail₁ lead₂ trail₂ : Str)
    (hl₁ : ∀ c ∈ lead₁, RT.isWsChar c = true) (ht₁ : ∀ c ∈ trail₁, RT.isWsChar c = true)
    (hl₂ : ∀ c ∈ lead₂, RT.isWsChar c = true) (ht₂ : ∀ c ∈ trail₂, RT.isWsChar c = true) :
    parseWholeExpr (lead₁ ++ (PR.render st₁ e ++ trail₁)) = parseWholeExpr (lead₂ ++ (PR.render st₂ e ++ trail₂)) :=
  PR.style_independent st₁ st₂ h₁ h₂ e he₁ he₂ lead₁ trail₁ lead₂ trail₂ hl₁ ht₁ hl₂ ht₂

theorem separator_independent (e : Expr) (he : PR.WellFormedR e) (sp₁ sp₂ : PR.SepStyle) :
    parseWholeExpr (PR.renderSp sp₁ e) = parseWholeExpr (PR.renderSp sp₂ e) :=
  PR.separator_independent e he sp₁ sp₂

/-- `(.f x)` is `(f . x)`: both spellings parse to the same AST -/
theorem dot_sugar (st : PR.Style) (hst : PR.StyleOK st) (fn : String) (as : List Expr)
    (hwf : PR.WFR st.o (.call fn (PR.root :: as))) :
    parseWholeExpr (PR.renderDot st fn as) = .ok (.call fn (PR.root :: as)) ∧
    parseWholeExpr (PR.render st (.call fn (PR.root :: as))) = .ok (.call fn (PR.root :: as)) :=
  PR.dot_sugar_whole st hst fn as hwf

end Jawk.C13
