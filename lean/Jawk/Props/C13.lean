/-
  C13 — an expression means the same in every position, alias, spelling and cache size.
-/
import Jawk.Model.Run
import Jawk.Spec.Cache
namespace Jawk.C13
open Jawk Jawk.Spec

/-! ### Aliases (over the GENERATED table, re-checked on every run) -/

/-- all 192 names and aliases of the function table are distinct, so a name resolves to one function -/
theorem names_nodup : Generated.functionNameCodes.Nodup := by decide +kernel

/-- the kernel-reducible signature table lists exactly the functions of `functionTable`,
in the same order (same number of entries) -/
theorem sig_table_length : Generated.functionSigCodes.length = Generated.functionTable.length := by decide

/-- the table of names has one entry per function plus one per alias -/
theorem names_count :
    Generated.functionNameCodes.length =
      (Generated.functionSigCodes.map (fun s => 1 + s.2.1)).sum := by decide +kernel

/-- name resolution only depends on the table entry: two names of the same entry give the same function -/
theorem alias_same_fn (n₁ n₂ : String) (e : String × List String × Nat × Option Nat)
    (h₁ : Generated.functionTable.find? (fun (name, aliases, _, _) => name == n₁ || aliases.contains n₁) = some e)
    (h₂ : Generated.functionTable.find? (fun (name, aliases, _, _) => name == n₂ || aliases.contains n₂) = some e) :
    findFunction n₁ = findFunction n₂ := by
  unfold findFunction
  rw [h₁, h₂]

/-! ### Position: every option position evaluates the expression with the same evaluator -/

theorem filter_uses_eval (orc : Oracles) (sink : SinkCfg) (n : Nat) (e : Expr) (cs : List StageCfg)
    (st : StageSt) (sts : List StageSt) (w : Writer) (ctx : Ctx) (v : Option JV)
    (hv : eval orc evalFuel e ctx = .ok v) :
    process orc sink n (.filter e :: cs) (st :: sts) w ctx =
      (match v with
        | some (.bool true) =>
          (do let (p, d) ← process orc sink n cs sts w ctx
              pure (⟨st :: p.sts, p.w⟩, d))
        | _ => .ok (⟨st :: sts, w⟩, .cont)) := by
  simp only [process, evalE, liftR, hv, bind, Except.bind]
  cases v with
  | none => rfl
  | some x =>
    cases x with
    | bool b => cases b <;> rfl
    | _ => rfl

theorem select_uses_eval (orc : Oracles) (sink : SinkCfg) (n : Nat) (name : Str) (e : Expr) (cs : List StageCfg)
    (st : StageSt) (sts : List StageSt) (w : Writer) (ctx : Ctx) (v : Option JV)
    (hv : eval orc evalFuel e ctx = .ok v) :
    process orc sink n (.select name e :: cs) (st :: sts) w ctx =
      (do let (p, d) ← process orc sink n cs sts w (ctx.withResult name v)
          pure (⟨st :: p.sts, p.w⟩, d)) := by
  simp [process, evalE, liftR, hv, bind, Except.bind]
  rfl

theorem group_uses_eval (orc : Oracles) (sink : SinkCfg) (n : Nat) (e : Expr) (cs : List StageCfg)
    (data : List (Str × List JV)) (sts : List StageSt) (w : Writer) (ctx : Ctx) (v : Option JV)
    (hv : eval orc evalFuel e ctx = .ok v) :
    process orc sink n (.group e :: cs) (.group data :: sts) w ctx =
      .ok (⟨(match v with
              | some (.str key) => .group (groupInsert key ctx.build data)
              | _ => .group data) :: sts, w⟩, .cont) := by
  simp only [process, evalE, liftR, hv, bind, Except.bind]
  cases v with
  | none => rfl
  | some x => cases x <;> rfl

theorem sort_uses_eval (orc : Oracles) (sink : SinkCfg) (n : Nat) (e : Expr) (desc : Bool) (cs : List StageCfg)
    (data : Buckets) (sts : List StageSt) (w : Writer) (ctx : Ctx) (k : JV)
    (hv : eval orc evalFuel e ctx = .ok (some k)) :
    process orc sink n (.sort e desc :: cs) (.sort data none :: sts) w ctx =
      .ok (⟨.sort (bucketInsert k ctx data) none :: sts, w⟩, .cont) := by
  simp [process, evalE, liftR, hv, bind, Except.bind, sortStep]

/-- a macro is its body: `@m` where `m` is bound to `e` has the value of `e` -/
theorem macro_uses_eval (orc : Oracles) (fuel : Nat) (c : Ctx) (n : Str) (e : Expr)
    (h : c.getDefinition n = some e) :
    eval orc (fuel + 2) (.macro n) c = eval orc (fuel + 1) e c := by simp [eval, h]

/-! ### Cache: transparent for every capacity, every history, every eviction policy -/

theorem cache_transparent {α} (compile : List Char → α) (evict : CacheSt α → CacheSt α)
    (hev : ∀ s, ∀ e ∈ evict s, e ∈ s) (cap : Nat) (s : CacheSt α) (p : List Char)
    (hinv : CacheInv compile s) :
    (compileCached compile evict cap s p).1 = compile p ∧
    CacheInv compile (compileCached compile evict cap s p).2 := by
  unfold compileCached
  by_cases hc : cap = 0
  · simp [hc, hinv]
  · simp only [hc, if_false]
    cases hf : s.find? (fun e => e.1 = p) with
    | some e =>
      have hmem := List.mem_of_find?_eq_some hf
      have hp : e.1 = p := by simpa using List.find?_some hf
      exact ⟨by simp [hinv e hmem, hp], hinv⟩
    | none =>
      refine ⟨rfl, ?_⟩
      intro e he
      simp only [List.mem_cons] at he
      rcases he with rfl | he
      · rfl
      · split at he
        · exact hinv e (hev s e he)
        · exact hinv e he

/-- any sequence of compilations through the cache returns what uncached compilation returns -/
theorem cache_any_history {α} (compile : List Char → α) (evict : CacheSt α → CacheSt α)
    (hev : ∀ s, ∀ e ∈ evict s, e ∈ s) (cap : Nat) (ps : List (List Char)) (s : CacheSt α)
    (hinv : CacheInv compile s) :
    (ps.foldl (fun (acc : List α × CacheSt α) p =>
        let r := compileCached compile evict cap acc.2 p
        (acc.1 ++ [r.1], r.2)) ([], s)).1 = ps.map compile := by
  suffices h : ∀ (done : List α) (s : CacheSt α), CacheInv compile s →
      (ps.foldl (fun (acc : List α × CacheSt α) p =>
        let r := compileCached compile evict cap acc.2 p
        (acc.1 ++ [r.1], r.2)) (done, s)).1 = done ++ ps.map compile by
    simpa using h [] s hinv
  induction ps with
  | nil => intro done s _; simp
  | cons p ps ih =>
    intro done s hs
    have ht := cache_transparent compile evict hev cap s p hs
    simp only [List.foldl_cons, List.map_cons]
    rw [ih _ _ ht.2, ht.1]
    simp

/-- non-vacuity: an empty cache satisfies the invariant, and FIFO eviction satisfies `hev` -/
example : CacheInv (fun p => p.length) ([] : CacheSt Nat) := by intro e he; cases he
example : ∀ (s : CacheSt Nat), ∀ e ∈ s.dropLast, e ∈ s := fun s e he => (List.dropLast_sublist s).subset he

end Jawk.C13
