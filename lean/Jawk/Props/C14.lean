/-
  C14 — `--take` stops reading: jawk terminates on unbounded input when it can.

  Step level (`Jawk/Props/C14Steps.lean`): the limiter answers Break on the row that fills the limit and ever
  after; every streaming stage and the splitter's loop propagate Break; the read loop and the file loop stop.
  Run level (this file, helper `Jawk/Lemmas/Locality.lean`): the reader looks at most ONE position ahead, so
  whatever follows the point where the loop stopped — finite, endless, faulty — cannot influence the run:
  "for every continuation" is how an unbounded input is expressed.
-/
import Jawk.Props.C14Steps
import Jawk.Lemmas.Locality
namespace Jawk.C14
open Jawk Loc

variable (orc : Oracles) (c : Cfg) (p : Pipeline)

/-- prefix locality of the parser: two readers in the same state whose streams agree up to absolute position `N`
give the same result, as long as the call does not look beyond `N` -/
theorem parser_is_local {N : Nat} {r₁ r₂ : Reader} (hag : AgreeTo N r₁ r₂) (hw : Fuel.WF r₁)
    (hpos : pos r₁.nextJson.2 ≤ N) :
    r₂.nextJson.1 = r₁.nextJson.1 ∧ AgreeTo N r₁.nextJson.2 r₂.nextJson.2 := nextJson_local hag hw hpos

/-- one byte of look-ahead, never more: a call pulls at most one item beyond what it consumed -/
theorem lookahead_bound (r : Reader) :
    r.nextJson.2.pulled ≤ r.pulled + (r.pending.length - r.nextJson.2.pending.length) + 1 :=
  Loc.lookahead_bound r

/-- MAIN (loop): if the loop stopped on Break having pulled `d` items, then on ANY stream that agrees on those
`d` items and the next position the loop does exactly the same: same state, same output, same number of bytes
consumed — however long the stream goes on -/
theorem take_stops (fuel fuel₂ : Nat) (r r₂ : Reader) (inFile : Nat) (s : RunState)
    {s' : RunState} {r' : Reader} (hw : Fuel.WF r)
    (h : readLoop orc c p fuel r inFile s = .ok (s', r', .brk))
    (hag : Agree (r'.pulled - r.pulled + 1) r r₂) (hf : fuel ≤ fuel₂) :
    ∃ r₂', readLoop orc c p fuel₂ r₂ inFile s = .ok (s', r₂', .brk) ∧ r₂'.pulled = r'.pulled :=
  Loc.take_stops orc c p fuel fuel₂ r r₂ inFile s hw h hag hf

/-- MAIN (run): when the loop over the first source stops on Break before the end of `items`, the whole run on
`items ++ cont` — for EVERY continuation `cont` and whatever sources follow — equals the run on `items`:
same stdout, same stderr, same result, same bytes pulled.  Hence termination on an endless stream. -/
theorem take_stops_run (sources sources₂ : List Source) (items cont : List RItem) (name : Option Str)
    (wOut wErr w0 : Writer) {s' : RunState} {r' : Reader}
    (hb : build orc c = .ok p) (hs : sinkStart p.sink p.titles wOut = .ok w0)
    (h : readLoop orc c p (items.length + 2) (Reader.ofItems items name) 0
          { sts := p.sts, out := w0, err := wErr } = .ok (s', r', .brk))
    (he : r'.eof = false) :
    run orc c (⟨name, items ++ cont⟩ :: sources₂) wOut wErr = run orc c (⟨name, items⟩ :: sources) wOut wErr :=
  Loc.take_stops_run orc c p sources sources₂ items cont name wOut wErr w0 hb hs h he

end Jawk.C14
